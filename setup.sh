#!/bin/sh
# setup.sh — run once in /verif after a fresh restore, offline: builds the translator, regenerates Extracted.v from
# /repo, builds the whole Coq development (full .vo build) and the Go harness binaries (warms the Go build cache).
set -e
cd "$(dirname "$0")"
export GOFLAGS=-mod=mod GOPROXY=off GOSUMDB=off GOTOOLCHAIN=local
GO=go1.26
command -v $GO >/dev/null 2>&1 || GO=go
mkdir -p .scratch evidence replays coq/gen harness/bin
(cd tools/gen && $GO build -o gen .)
./tools/gen/gen -repo /repo -targets tools/gen/targets.json -out coq/gen/Extracted.v -out2 coq/gen/ExtractedKeys.v -fp coq/gen/fingerprints.json -warn coq/gen/translator_warnings.txt
(cd coq && coq_makefile -f _CoqProject -o Makefile >/dev/null && timeout 3000 make -j16 >/dev/null)
cp /repo/go.sum harness/go.sum.repo 2>/dev/null || true
(cd harness && mkdir -p bin && for d in cmd/*/; do n=$(basename $d); $GO build -tags verif -o bin/$n ./cmd/$n; done)
echo setup done
