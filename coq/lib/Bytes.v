(* Bytes.v — byte strings as lists of N (each < 256), lexicographic order (bytes.Compare), prefixes,
   big-endian u64 encoding.  Shared by Keys (C19), the store models (C08-C10) and the codecs. *)
From Coq Require Import NArith List Bool Lia.
Import ListNotations.
Local Open Scope N_scope.

Definition bytes := list N.
Definition wf_bytes (b : bytes) : Prop := Forall (fun x => x < 256) b.
Definition wf_bytesb (b : bytes) : bool := forallb (fun x => x <? 256) b.

Fixpoint bytes_eqb (a b : bytes) : bool :=
  match a, b with
  | [], [] => true
  | x :: a', y :: b' => (x =? y) && bytes_eqb a' b'
  | _, _ => false
  end.

(* bytes.Compare(a, b) < 0 *)
Fixpoint lex_lt (a b : bytes) : bool :=
  match a, b with
  | _, [] => false
  | [], _ :: _ => true
  | x :: a', y :: b' => (x <? y) || ((x =? y) && lex_lt a' b')
  end.
Definition lex_le (a b : bytes) : bool := negb (lex_lt b a).

(* bytes.HasPrefix(k, p) *)
Fixpoint prefixb (p k : bytes) : bool :=
  match p, k with
  | [], _ => true
  | x :: p', y :: k' => (x =? y) && prefixb p' k'
  | _ :: _, [] => false
  end.
Definition is_prefix (p k : bytes) : Prop := exists s, k = p ++ s.

(* binary.BigEndian.PutUint64 for x < 2^64: 8 bytes, most significant first *)
Definition be64 (x : N) : bytes :=
  [ (x / 72057594037927936) mod 256; (x / 281474976710656) mod 256; (x / 1099511627776) mod 256;
    (x / 4294967296) mod 256; (x / 16777216) mod 256; (x / 65536) mod 256; (x / 256) mod 256; x mod 256 ].
Definition be64_decode (b : bytes) : N := fold_left (fun acc x => acc * 256 + x) b 0.
