(* U64.v — 64-bit machine arithmetic over N with the wrap written out, used by the generated
   Extracted.v (translator output) and by every model that mirrors unchecked Go uint64 arithmetic. *)
From Coq Require Import NArith Lia ZArith ZifyN ZifyBool.
Local Open Scope N_scope.

Definition two64 : N := 18446744073709551616.
Definition max64 : N := 18446744073709551615.
Definition wrap64 (x : N) : N := x mod two64.
Definition add64 (a b : N) : N := wrap64 (a + b).
Definition mul64 (a b : N) : N := wrap64 (a * b).
Definition sub64 (a b : N) : N := wrap64 (a + two64 - wrap64 b).
Definition shl64 (a b : N) : N := wrap64 (N.shiftl a b).
Definition fits64 (x : N) : Prop := x < two64.
Definition fits64b (x : N) : bool := x <? two64.

Ltac Zify.zify_post_hook ::= Z.div_mod_to_equations.

Lemma two64_pos : 0 < two64. Proof. reflexivity. Qed.
Lemma wrap64_small x : x < two64 -> wrap64 x = x.
Proof. intros H. unfold wrap64. apply N.mod_small. exact H. Qed.
Lemma wrap64_lt x : wrap64 x < two64.
Proof. unfold wrap64. apply N.mod_lt. discriminate. Qed.
Lemma wrap64_idem x : wrap64 (wrap64 x) = wrap64 x.
Proof. apply wrap64_small, wrap64_lt. Qed.
Lemma add64_exact a b : a + b < two64 -> add64 a b = a + b.
Proof. intros; unfold add64; now apply wrap64_small. Qed.
Lemma mul64_exact a b : a * b < two64 -> mul64 a b = a * b.
Proof. intros; unfold mul64; now apply wrap64_small. Qed.
Lemma sub64_exact a b : b <= a -> a < two64 -> sub64 a b = a - b.
Proof.
  intros Hle Ha. unfold sub64. assert (Hb : b < two64) by lia.
  rewrite (wrap64_small b Hb). unfold wrap64, two64 in *. lia.
Qed.
Lemma add64_lt a b : add64 a b < two64. Proof. apply wrap64_lt. Qed.
Lemma mul64_lt a b : mul64 a b < two64. Proof. apply wrap64_lt. Qed.
Lemma sub64_lt a b : sub64 a b < two64. Proof. apply wrap64_lt. Qed.
