(* Proof.v — Merkle proofs over the state-commitment tree (property C16).
   mirrors: store/smt.go:GetMerkleProof and store/smt.go:VerifyProof AS REPAIRED by the "fix:" commits of this task
   (the proof is bound to the target key along the reconstructed path; before the repair an honest proof for key A was
   accepted as non-membership of a present key B — see KNOWN_FINDINGS.txt).
   A proof is the proven node (the leaf, or for an absent key the node where the traversal towards the key ends: the
   insertion point) followed by the siblings from the bottom up, each with the side it is on. *)
From Coq Require Import NArith List Bool.
From V Require Import Trie.
Import ListNotations.

Record pnode := mkPn { pn_key : bits; pn_val : digest; pn_right : bool (* the sibling is the RIGHT child of its parent *) }.

Fixpoint digest_eqb (a b : digest) : bool :=
  match a, b with
  | DLeaf v, DLeaf v' => (v =? v')%N
  | DNode lk lv rk rv, DNode lk' lv' rk' rv' => bits_eqb lk lk' && digest_eqb lv lv' && bits_eqb rk rk' && digest_eqb rv rv'
  | _, _ => false
  end.

(* GetMerkleProof: traverse towards k; [acc] collects the siblings top-down, so the result is already bottom-up *)
Fixpoint proof_from (k : bits) (t : tree) (acc : list pnode) : list pnode :=
  match t with
  | Leaf k' v => mkPn k' (DLeaf v) false :: acc
  | Node p l r =>
    if is_prefixb p k
    then if bit_at (length p) k
         then proof_from k r (mkPn (tkey l) (hash l) false :: acc)     (* path goes right, sibling is the left child *)
         else proof_from k l (mkPn (tkey r) (hash r) true :: acc)      (* path goes left, sibling is the right child *)
    else mkPn p (hash t) false :: acc                                   (* diverges inside this node's prefix: insertion point *)
  end.
Definition get_proof (t : tree) (k : bits) : list pnode := proof_from k t [].

(* VerifyProof.  None = ErrInvalidMerkleTreeProof (malformed), Some b = verdict *)
Inductive fold_res :=
| FErr                                   (* malformed proof *)
| FNo                                    (* well-formed but not about the target key *)
| FOk (cur : bits) (d : digest) (last_prefix_len : nat).

Definition step (target : bits) (st : fold_res) (s : pnode) : fold_res :=
  match st with
  | FErr => FErr
  | FNo => FNo
  | FOk cur0 d _ =>
    (* node-key codec quirk mirrored from the code: the empty prefix and the 1-bit key "0" share the encoding {0,0}; once the
       reconstruction has reached the empty prefix, a further sibling sees the current key as the 1-bit key "0" *)
    let cur := match cur0 with [] => [false] | _ => cur0 end in
    let g := gcp cur (pn_key s) in
    let n := length g in
    if negb (Nat.ltb n (length cur) && Nat.ltb n (length (pn_key s))) then FErr
    else
      let side := bit_at n cur in
      if Bool.eqb side (bit_at n (pn_key s)) || negb (Bool.eqb (negb (pn_right s)) side) then FErr
      else if negb (is_prefixb g target && Bool.eqb (bit_at n target) side) then FNo
      else FOk g (if pn_right s then DNode cur d (pn_key s) (pn_val s) else DNode (pn_key s) (pn_val s) cur d) n
  end.

Definition verify (target : bits) (v : N) (membership : bool) (root : digest) (proof : list pnode) : option bool :=
  match proof with
  | [] | [_] => None
  | p0 :: sibs =>
    match fold_left (step target) sibs (FOk (pn_key p0) (pn_val p0) (length (pn_key p0))) with
    | FErr => None
    | FNo => Some false
    | FOk _ d n =>
      if negb (digest_eqb d root) then Some false
      else if negb (Nat.eqb n 0) then Some false
      else
        let node_exists := bits_eqb target (pn_key p0) in
        if negb node_exists && is_prefixb (pn_key p0) target then Some false
        else if (negb node_exists && membership) || (node_exists && negb membership) then Some false
        else if negb node_exists && negb membership then Some true
        else Some (digest_eqb (pn_val p0) (DLeaf v))
    end
  end.
