(* LedgerBlock.v — the two block-level ledger actions that create and destroy tokens (properties C04, C12):
     fsm/committee.go FundCommitteeRewardPools / GetBlockMintStats   BeginBlock: the scheduled mint, split between the DAO pool and
                                                                      the reward pools of the subsidized committees
     fsm/committee.go DistributeCommitteeRewards / DistributeCommitteeReward   EndBlock: a committee's reward pool is paid out
                                                                      along the payment percents of its certificate results; what is
                                                                      not paid (rounding, early-withdrawal penalty) is burned
   over the ledger state of Ledger.v.  Inputs that come from elsewhere in the state machine are arguments: the scheduled
   amount of the block (InitialTokensPerBlock >> halvenings), the DAO percentage and the early-withdrawal penalty (governance /
   validator parameters), the list of subsidized committees, the committee data (payment percents, number of samples). *)
From Coq Require Import NArith List Bool.
From V Require Import U64 Extracted Ledger.
Import ListNotations.
Local Open Scope N_scope.

(* ---- BeginBlock mint *)
Definition mint_split (total dao_pct count : N) : N * N :=       (* (DAO cut, amount per committee) *)
  let after := if (100 <=? dao_pct) || (total =? 0) then 0 else if dao_pct =? 0 then total else SafeMulDiv total (100 - dao_pct) 100 in
  (total - after, after / count).
Definition fund_pools (total dao_pct : N) (chains : list N) (s : lstate) : res lstate :=
  let count := N.of_nat (length chains) in
  if (count =? 0) || (total =? 0) then LOk s else                (* ErrNoSubsidizedCommittees: nothing is minted *)
  let '(dao, per) := mint_split total dao_pct count in
  s1 <- mint_to_pool DAOPool dao s ;;
  each (fun c => mint_to_pool c per) chains s1.

(* ---- EndBlock reward distribution of one committee *)
Definition full_reward (pct pool samples : N) : N :=
  if samples =? 0 then 0 else wrap64 ((pct * pool) / (samples * 100)).        (* big.Int arithmetic, then Uint64() *)
Definition early_reward (full penalty : N) : N :=
  if (100 <=? penalty) || (full =? 0) then 0 else if penalty =? 0 then full else SafeMulDiv full (100 - penalty) 100.
(* DistributeCommitteeReward: returns the new state and the amount counted as distributed *)
Definition distribute_one (addr pct pool samples penalty : N) (s : lstate) : res (lstate * N) :=
  let full := full_reward pct pool samples in
  let early := early_reward full penalty in
  match aget addr (l_vals s) with
  | None => s' <- account_add addr early s ;; LOk (s', early)
  | Some v =>
    if v_compound v && (v_unstaking v =? 0)
    then s' <- update_validator_stake addr v (v_committees v) full s ;; LOk (s', full)
    else s' <- account_add (v_output v) early s ;; LOk (s', early)
  end.
Fixpoint distribute_stubs (stubs : list (N * N)) (pool samples penalty : N) (acc : N) (s : lstate) : res (lstate * N) :=
  match stubs with
  | [] => LOk (s, acc)
  | (addr, pct) :: r =>
    x <- distribute_one addr pct pool samples penalty s ;;
    let '(s1, d) := x in
    if two64 <=? acc + d then LErr else distribute_stubs r pool samples penalty (acc + d) s1
  end.
Definition distribute_committee (chain : N) (stubs : list (N * N)) (samples penalty : N) (s : lstate) : res lstate :=
  match stubs with
  | [] => LOk s                                                   (* no payment percents: the pool is kept for later *)
  | _ =>
    let pool := nget chain (l_pools s) in
    x <- distribute_stubs stubs pool samples penalty 0 s ;;
    let '(s1, total) := x in
    s2 <- sub_total (wrap64 (pool + two64 - total)) s1 ;;         (* rewardPool.Amount - totalDistributed, unchecked uint64 *)
    LOk (set_pools (nput chain 0 (l_pools s2)) s2)
  end.

(* the invariant on committee data the rest of the state machine maintains: every sample's percents add up to at most 100 *)
Definition stubs_ok (stubs : list (N * N)) (samples : N) : Prop :=
  fold_right (fun e acc => snd e + acc) 0 stubs <= 100 * samples /\ samples < two64 /\ Forall (fun e => snd e < two64) stubs.

(* ---- correspondence cases *)
Record rw_case := mkRw { rw_pre : lstate; rw_chain : N; rw_stubs : list (N * N); rw_samples : N; rw_penalty : N;
                         rw_ok : bool; rw_post : lstate }.
Record mint_case := mkMint { mt_pre : lstate; mt_total : N; mt_dao_pct : N; mt_chains : list N; mt_ok : bool; mt_post : lstate }.
