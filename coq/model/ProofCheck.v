(* ProofCheck.v — correspondence (M) and property-predicate (V) evaluators for the Merkle-proof cases (C16). *)
From Coq Require Import NArith List Bool.
From V Require Import Trie TrieCheck Proof.
Import ListNotations.

(* a digest as the harness can name it: the digest of the subtree of the current tree keyed by [k], or opaque bytes *)
Inductive dref := RNode (k : bits) | RRaw (n : N).
Fixpoint subtree_by_key (k : bits) (t : tree) : option tree :=
  if bits_eqb (tkey t) k then Some t
  else match t with
       | Leaf _ _ => None
       | Node p l r => match subtree_by_key k l with Some s => Some s | None => subtree_by_key k r end
       end.
(* opaque bytes that are no digest of anything in the tree: tagged so that they cannot coincide with a leaf value *)
Definition raw_digest (n : N) : digest := DNode [] (DLeaf n) [] (DLeaf n).
Definition resolve (t : tree) (r : dref) : digest :=
  match r with
  | RNode k => match subtree_by_key k t with Some s => hash s | None => raw_digest 0 end
  | RRaw n => raw_digest n
  end.

Record pf_case := mkPf {
  pf_w : nat; pf_batches : list (list op);
  pf_target : bits; pf_value : N; pf_membership : bool;
  pf_root : option N;                       (* None = the true root; Some n = other bytes *)
  pf_proof : list (bits * dref * bool);
  pf_obs : N }.                             (* 0 = (false, nil)   1 = (true, nil)   2 = error *)

Definition pf_tree (c : pf_case) : tree := fold_left commit (pf_batches c) (empty_tree (pf_w c) 0 (N.ones 160)).
Definition pf_model (c : pf_case) : N :=
  let t := pf_tree c in
  let root := match pf_root c with None => root_digest t | Some n => raw_digest n end in
  let proof := map (fun e => let '(k, d, r) := e in mkPn k (resolve t d) r) (pf_proof c) in
  match verify (pf_target c) (pf_value c) (pf_membership c) root proof with
  | None => 2 | Some true => 1 | Some false => 0
  end%N.
Definition pf_agrees (c : pf_case) : bool := (pf_model c =? pf_obs c)%N.
Definition pf_mismatches (cs : list pf_case) : list N := idx_filter (fun c => negb (pf_agrees c)) 0%N cs.

(* the property on the implementation's verdict alone: an accepted claim must be TRUE of the state (soundness) and the
   store's own proof for the true claim must be accepted (completeness; the harness marks honest cases) *)
Definition pf_ok (c : pf_case) : bool :=
  let t := pf_tree c in
  let truth := match lookup (pf_target c) t with
               | Some v => if pf_membership c then (v =? pf_value c)%N else false
               | None => negb (pf_membership c)
               end in
  match pf_root c with
  | Some _ => true                                         (* a claim against other root bytes is outside the statement *)
  | None => if (pf_obs c =? 1)%N then truth else true
  end.
Definition pf_violations (cs : list pf_case) : list N := idx_filter (fun c => negb (pf_ok c)) 0%N cs.
