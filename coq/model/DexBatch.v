(* DexBatch.v — the same-block merge of the DEX batch pipeline (property C20, pipeline part).
   mirrors: fsm/dex.go IncludeSameBlockDex: operations queued in the NEXT batch during the block in which a batch was locked
            are moved into the locked batch up to the per-batch caps; the next batch is deleted when fully drained, else
            written back with the leftovers.  Items are opaque ids (an order, a deposit or a withdrawal). *)
From Coq Require Import NArith List Bool Arith.
From V Require Import U64 Extracted.
Import ListNotations.
Local Open Scope N_scope.

Record dbatch := mkDB { db_orders : list N; db_deposits : list N; db_withdrawals : list N }.
Definition db_empty : dbatch := mkDB [] [] [].

Definition can_move (lockedLen nextLen max : nat) : nat :=
  if (Nat.eqb nextLen 0) || (Nat.leb max lockedLen) then 0%nat
  else let remaining := (max - lockedLen)%nat in if Nat.ltb nextLen remaining then nextLen else remaining.

Definition move {A} (k : nat) (locked next : list A) : list A * list A := (locked ++ firstn k next, skipn k next).

(* result: the locked batch as stored, and the next batch as a later read sees it (a deleted batch reads as empty) *)
Definition include_same_block (mo md mw : nat) (L Nx : dbatch) : dbatch * dbatch :=
  let ko := can_move (length (db_orders L)) (length (db_orders Nx)) mo in
  let kd := can_move (length (db_deposits L)) (length (db_deposits Nx)) md in
  let kw := can_move (length (db_withdrawals L)) (length (db_withdrawals Nx)) mw in
  if Nat.eqb ko 0 && Nat.eqb kd 0 && Nat.eqb kw 0 then (L, Nx)
  else
    let '(lo, no) := move ko (db_orders L) (db_orders Nx) in
    let '(ld, nd) := move kd (db_deposits L) (db_deposits Nx) in
    let '(lw, nw) := move kw (db_withdrawals L) (db_withdrawals Nx) in
    let L' := mkDB lo ld lw in
    match no, nd, nw with
    | [], [], [] => (L', db_empty)                 (* s.Delete(nextKey) *)
    | _, _, _ => (L', mkDB no nd nw)
    end.

Definition caps : nat * nat * nat := (N.to_nat MaxOrdersPerDexBatch, N.to_nat MaxDepositsPerDexBatch, N.to_nat MaxWithdrawsPerDexBatch).
Definition include_same_block_real (L Nx : dbatch) : dbatch * dbatch :=
  let '(mo, md, mw) := caps in include_same_block mo md mw L Nx.

(* ---- correspondence cases: sizes in, (lengths, id sums) out; ids are consecutive numbers *)
Definition ids (from : N) (n : N) : list N := map (fun i => from + N.of_nat i) (seq 0 (N.to_nat n)).
Definition lsum (l : list N) : N := fold_right N.add 0 l.
Record mg_case := mkMg { g_lo : N; g_ld : N; g_lw : N; g_no : N; g_nd : N; g_nw : N;
                         g_obs_l : N * N * N; g_obs_n : N * N * N; g_sum_l : N; g_sum_n : N }.
Definition mg_batches (c : mg_case) : dbatch * dbatch :=
  (mkDB (ids 1 (g_lo c)) (ids 100001 (g_ld c)) (ids 200001 (g_lw c)),
   mkDB (ids 300001 (g_no c)) (ids 400001 (g_nd c)) (ids 500001 (g_nw c))).
Definition lens (b : dbatch) : N * N * N :=
  (N.of_nat (length (db_orders b)), N.of_nat (length (db_deposits b)), N.of_nat (length (db_withdrawals b))).
Definition bsum (b : dbatch) : N := lsum (db_orders b) + lsum (db_deposits b) + lsum (db_withdrawals b).
Definition t3_eqb (a b : N * N * N) : bool :=
  (fst (fst a) =? fst (fst b)) && (snd (fst a) =? snd (fst b)) && (snd a =? snd b).
Definition mg_agrees (c : mg_case) : bool :=
  let '(L, Nx) := mg_batches c in
  let '(L', N') := include_same_block_real L Nx in
  t3_eqb (lens L') (g_obs_l c) && t3_eqb (lens N') (g_obs_n c) && (bsum L' =? g_sum_l c) && (bsum N' =? g_sum_n c).
Fixpoint idxf {A} (bad : A -> bool) (i : N) (l : list A) : list N :=
  match l with [] => [] | x :: r => if bad x then i :: idxf bad (i + 1) r else idxf bad (i + 1) r end.
Definition mg_mismatches (cs : list mg_case) : list N := idxf (fun c => negb (mg_agrees c)) 0 cs.
(* property predicate on the observation alone: nothing is lost or duplicated, the caps hold *)
Definition mg_ok (c : mg_case) : bool :=
  let '(L, Nx) := mg_batches c in
  (g_sum_l c + g_sum_n c =? bsum L + bsum Nx) &&
  (let '(a, b, d) := g_obs_l c in let '(a', b', d') := g_obs_n c in
   (a + a' =? g_lo c + g_no c) && (b + b' =? g_ld c + g_nd c) && (d + d' =? g_lw c + g_nw c) &&
   ((a <=? N.max (g_lo c) MaxOrdersPerDexBatch) && (b <=? N.max (g_ld c) MaxDepositsPerDexBatch) && (d <=? N.max (g_lw c) MaxWithdrawsPerDexBatch))).
Definition mg_violations (cs : list mg_case) : list N := idxf (fun c => negb (mg_ok c)) 0 cs.

(* ---- the cross-chain pipeline on two real state machines (orders, deposits, withdrawals, receipts, rotations, liveness
   fallback): what is read off the two chains after every step.  Per chain: the holding pool, the amounts of the orders and
   deposits still pending (next batch and locked batch), the liquidity-provider points and their recorded total; for the pair:
   the sum of all accounts and pools of both chains before the run and now (nothing is minted in the pipeline). *)
Record pipe_side := mkSide { ps_holding : N; ps_pending : list N; ps_points : list N; ps_total_points : N }.
Record pipe_case := mkPipe { pp_x : pipe_side; pp_y : pipe_side; pp_supply0 : N; pp_supply : N }.
Definition sumN (l : list N) : N := fold_right N.add 0 l.
Definition side_ok (s : pipe_side) : bool :=
  (ps_holding s =? sumN (ps_pending s)) && (sumN (ps_points s) =? ps_total_points s).
Definition pipe_ok (c : pipe_case) : bool := side_ok (pp_x c) && side_ok (pp_y c) && (pp_supply c =? pp_supply0 c).
Definition pipe_violations (cs : list pipe_case) : list N := idxf (fun c => negb (pipe_ok c)) 0 cs.
Definition pipe_mismatches (cs : list pipe_case) : list N := [].
