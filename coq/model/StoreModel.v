(* StoreModel.v — the Store as a state machine over the raw databases (properties C10, C09, C07).
   mirrors: store/store.go: Set/Delete/Get/Iterator/RevIterator (through ss), NewTxn (nested), Flush / Discard of a nested
            store, Commit (flush of the state write-set to the latest-state partition at version MAX, with tombstone purge,
            and to the historical partition at the new version), Reset, NewReadOnly(v) (v = current: latest-state partition;
            v < current: historical partition at v), Rollback(v).
   State keys are user keys of the state store without the partition prefix.  The commitment tree and the indexer are
   separate models (Trie.v; C09 treats the batch). *)
From Coq Require Import NArith List Bool.
From V Require Import Bytes Keys VStore Txn.
Import ListNotations.
Local Open Scope N_scope.

Definition maxver : N := 18446744073709551615.

(* insert a raw entry keeping the list sorted by raw key (an equal raw key is overwritten: same key and version) *)
Fixpoint db_put (e : entry) (db : list entry) : list entry :=
  match db with
  | [] => [e]
  | x :: r => if bytes_eqb (rawkey x) (rawkey e) then e :: r
              else if lex_lt (rawkey e) (rawkey x) then e :: db else x :: db_put e r
  end.
Definition db_remove (k : bytes) (ver : N) (db : list entry) : list entry :=
  filter (fun x => negb (bytes_eqb (e_key x) k && (e_ver x =? ver))) db.

Record sstate := mkS {
  s_lss : list entry;        (* latest-state partition: one live entry per key at version MAX *)
  s_hss : list entry;        (* historical partition: every version ever written *)
  s_ver : N;                 (* committed version *)
  s_stack : list wset }.     (* write-sets, innermost first; the last one is the store's own state transaction *)

Definition s_init : sstate := mkS [] [] 0 [[]].

(* reading through the stack of write-sets down to the latest-state partition *)
Fixpoint stack_get (stack : list wset) (base : bytes -> option bytes) (k : bytes) : option bytes :=
  match stack with
  | [] => base k
  | ws :: r => txn_get ws (stack_get r base) k
  end.
Fixpoint stack_iter (stack : list wset) (base : list (bytes * bytes)) (reverse : bool) (prefix : bytes) : list (bytes * bytes) :=
  match stack with
  | [] => base
  | ws :: r => txn_iter reverse prefix ws (stack_iter r base reverse prefix)
  end.

Inductive sop :=
| PSet (k v : bytes) | PDel (k : bytes)
| PGet (k : bytes) | PIter (prefix : bytes) (reverse : bool)
| PNest | PFlush | PDiscard                  (* NewTxn / Flush of the nested store / Discard of the nested store *)
| PCommit | PReset
| PGetAt (ver : N) (k : bytes) | PIterAt (ver : N) (prefix : bytes) (reverse : bool)
| PRollback (ver : N).
Inductive sout :=
| OUnit | OGet (r : option bytes) | OIter (l : list (bytes * bytes)) | OVer (v : N) | OErr.

Definition upd_top (f : wset -> wset) (st : sstate) : sstate :=
  match s_stack st with
  | [] => st
  | ws :: r => mkS (s_lss st) (s_hss st) (s_ver st) (f ws :: r)
  end.

(* Commit: every pending operation of the state transaction goes to the latest-state partition at MAX (sets overwrite,
   deletes remove the entry: tombstone + purge) and to the historical partition at the new version *)
Definition commit_state (st : sstate) : sstate :=
  match s_stack st with
  | [ws] =>
    let nv := s_ver st + 1 in
    let lss := fold_left (fun db e => match snd e with
                                      | WSet v => db_put (mkEntry (fst e) maxver false v) db
                                      | WDel => db_remove (fst e) maxver db
                                      end) ws (s_lss st) in
    let hss := fold_left (fun db e => match snd e with
                                      | WSet v => db_put (mkEntry (fst e) nv false v) db
                                      | WDel => db_put (mkEntry (fst e) nv true []) db
                                      end) ws (s_hss st) in
    mkS lss hss nv [[]]
  | _ => st
  end.

(* Rollback(target): historical entries above the target are pruned; the affected latest-state keys are patched from the
   historical view at the target *)
Definition rollback_state (target : N) (st : sstate) : sstate :=
  let pruned := filter (fun e => e_ver e <=? target) (s_hss st) in
  let affected := map e_key (filter (fun e => negb (e_ver e <=? target)) (s_hss st)) in
  let lss := fold_left (fun db k => match spec_get pruned target k with
                                    | Some v => db_put (mkEntry k maxver false v) db
                                    | None => db_remove k maxver db
                                    end) affected (s_lss st) in
  mkS lss pruned target [[]].

Definition exec (st : sstate) (o : sop) : sstate * sout :=
  match o with
  | PSet k v => (upd_top (ws_update k (WSet v)) st, OUnit)
  | PDel k => (upd_top (ws_update k WDel) st, OUnit)
  | PGet k => (st, OGet (stack_get (s_stack st) (vget (s_lss st) maxver) k))
  | PIter p rv => (st, OIter (stack_iter (s_stack st) (viter (s_lss st) maxver p rv true) rv p))
  | PNest => (mkS (s_lss st) (s_hss st) (s_ver st) ([] :: s_stack st), OUnit)
  | PFlush => match s_stack st with
              | child :: parent :: r => (mkS (s_lss st) (s_hss st) (s_ver st) (ws_flush child parent :: r), OUnit)
              | _ => (st, OErr)
              end
  | PDiscard => match s_stack st with
                | _ :: parent :: r => (mkS (s_lss st) (s_hss st) (s_ver st) (parent :: r), OUnit)
                | _ => (st, OErr)
                end
  | PCommit => match s_stack st with
               | [_] => let st' := commit_state st in (st', OVer (s_ver st'))
               | _ => (st, OErr)                                  (* nested transactions cannot commit *)
               end
  | PReset => match s_stack st with
              | [_] => (mkS (s_lss st) (s_hss st) (s_ver st) [[]], OUnit)
              | _ => (st, OErr)
              end
  | PGetAt ver k =>
    if ver =? s_ver st then (st, OGet (vget (s_lss st) maxver k)) else (st, OGet (vget (s_hss st) ver k))
  | PIterAt ver p rv =>
    if ver =? s_ver st then (st, OIter (viter (s_lss st) maxver p rv true)) else (st, OIter (viter (s_hss st) ver p rv true))
  | PRollback ver =>
    match s_stack st with
    | [_] => if (ver =? 0) || (s_ver st <? ver) then (st, OErr)
             else if ver =? s_ver st then (st, OUnit) else (rollback_state ver st, OUnit)
    | _ => (st, OErr)
    end
  end.

Fixpoint run (st : sstate) (os : list sop) : list sout :=
  match os with
  | [] => []
  | o :: r => let '(st', out) := exec st o in out :: run st' r
  end.

(* ---- specification: the simple versioned map.  The abstract state is the history of committed maps plus pending writes *)
Definition amap := list (bytes * bytes).         (* sorted by key, no deleted entries *)
Fixpoint amap_set (k v : bytes) (m : amap) : amap :=
  match m with
  | [] => [(k, v)]
  | (k', v') :: r => if bytes_eqb k k' then (k, v) :: r else if lex_lt k k' then (k, v) :: m else (k', v') :: amap_set k v r
  end.
Definition amap_del (k : bytes) (m : amap) : amap := filter (fun e => negb (bytes_eqb (fst e) k)) m.
Definition amap_get (k : bytes) (m : amap) : option bytes :=
  match find (fun e => bytes_eqb (fst e) k) m with Some e => Some (snd e) | None => None end.
Definition amap_iter (prefix : bytes) (reverse : bool) (m : amap) : list (bytes * bytes) :=
  let l := filter (fun e => prefixb prefix (fst e)) m in if reverse then rev l else l.
Definition amap_apply (m : amap) (ws : wset) : amap :=
  fold_left (fun m e => match snd e with WSet v => amap_set (fst e) v m | WDel => amap_del (fst e) m end) ws m.

(* ---- the abstract interpreter: a list of committed maps (index = version) and the pending write-sets *)
Record astate := mkA { a_hist : list amap; a_stack : list wset }.
Definition a_init : astate := mkA [[]] [[]].
Definition a_latest (a : astate) : amap := last (a_hist a) [].
Definition a_ver (a : astate) : N := N.of_nat (length (a_hist a) - 1).
Definition a_view (a : astate) : amap := fold_right (fun ws m => amap_apply m ws) (a_latest a) (a_stack a).
Definition a_upd_top (f : wset -> wset) (a : astate) : astate :=
  match a_stack a with [] => a | ws :: r => mkA (a_hist a) (f ws :: r) end.

Definition aexec (a : astate) (o : sop) : astate * sout :=
  match o with
  | PSet k v => (a_upd_top (ws_update k (WSet v)) a, OUnit)
  | PDel k => (a_upd_top (ws_update k WDel) a, OUnit)
  | PGet k => (a, OGet (amap_get k (a_view a)))
  | PIter p rv => (a, OIter (amap_iter p rv (a_view a)))
  | PNest => (mkA (a_hist a) ([] :: a_stack a), OUnit)
  | PFlush => match a_stack a with
              | child :: parent :: r => (mkA (a_hist a) (ws_flush child parent :: r), OUnit)
              | _ => (a, OErr)
              end
  | PDiscard => match a_stack a with
                | _ :: parent :: r => (mkA (a_hist a) (parent :: r), OUnit)
                | _ => (a, OErr)
                end
  | PCommit => match a_stack a with
               | [ws] => let a' := mkA (a_hist a ++ [amap_apply (a_latest a) ws]) [[]] in (a', OVer (a_ver a'))
               | _ => (a, OErr)
               end
  | PReset => match a_stack a with [_] => (mkA (a_hist a) [[]], OUnit) | _ => (a, OErr) end
  | PGetAt ver k => (a, OGet (amap_get k (nth (N.to_nat ver) (a_hist a) [])))
  | PIterAt ver p rv => (a, OIter (amap_iter p rv (nth (N.to_nat ver) (a_hist a) [])))
  | PRollback ver =>
    match a_stack a with
    | [_] => if (ver =? 0) || (a_ver a <? ver) then (a, OErr)
             else if ver =? a_ver a then (a, OUnit)               (* rollback to the current version: nothing happens *)
             else (mkA (firstn (S (N.to_nat ver)) (a_hist a)) [[]], OUnit)
    | _ => (a, OErr)
    end
  end.
Fixpoint arun (a : astate) (os : list sop) : list sout :=
  match os with
  | [] => []
  | o :: r => let '(a', out) := aexec a o in out :: arun a' r
  end.

(* ---- evaluation helpers for the correspondence cases *)
Fixpoint kvs_eqb (a b : list (bytes * bytes)) : bool :=
  match a, b with
  | [], [] => true
  | (k, v) :: a', (k', v') :: b' => bytes_eqb k k' && bytes_eqb v v' && kvs_eqb a' b'
  | _, _ => false
  end.
Definition sout_eqb (a b : sout) : bool :=
  match a, b with
  | OUnit, OUnit => true
  | OErr, OErr => true
  | OVer x, OVer y => x =? y
  | OGet None, OGet None => true
  | OGet (Some x), OGet (Some y) => bytes_eqb x y
  | OIter x, OIter y => kvs_eqb x y
  | _, _ => false
  end.
Fixpoint souts_eqb (a b : list sout) : bool :=
  match a, b with
  | [], [] => true
  | x :: a', y :: b' => sout_eqb x y && souts_eqb a' b'
  | _, _ => false
  end.
Record st_case := mkSt { sc_ops : list sop; sc_obs : list sout }.
Fixpoint idx_filter {A} (bad : A -> bool) (i : N) (l : list A) : list N :=
  match l with
  | [] => []
  | x :: r => if bad x then i :: idx_filter bad (i + 1) r else idx_filter bad (i + 1) r
  end.
Definition st_mismatches (cs : list st_case) : list N := idx_filter (fun c => negb (souts_eqb (run s_init (sc_ops c)) (sc_obs c))) 0 cs.
(* the property predicate: what the implementation returned is what a simple versioned map returns *)
Definition st_violations (cs : list st_case) : list N := idx_filter (fun c => negb (souts_eqb (arun a_init (sc_ops c)) (sc_obs c))) 0 cs.
