(* KeysCheck.v — correspondence (M) and property-predicate (V) evaluators for the C19 key cases. The predicate looks only at
   what the implementation produced: different component tuples must give different keys, a key may lie under another key's
   byte prefix only if its component list extends the other's, and keys made of short segments must decode back. *)
From Coq Require Import NArith List Bool.
From V Require Import Bytes Keys.
Import ListNotations.
Local Open Scope N_scope.

Fixpoint idx_filter {A} (bad : A -> bool) (i : N) (l : list A) : list N :=
  match l with
  | [] => []
  | x :: r => if bad x then i :: idx_filter bad (i + 1) r else idx_filter bad (i + 1) r
  end.

Definition join_mismatches (cs : list join_case) : list N := idx_filter (fun c => negb (join_agrees c)) 0 cs.
Definition key_mismatches (cs : list key_case) : list N := idx_filter (fun c => negb (key_agrees c)) 0 cs.
Definition oid_mismatches (cs : list oid_case) : list N := idx_filter (fun c => negb (oid_agrees c)) 0 cs.
(* the property on the observation alone: an accepted order id is short enough to be framed *)
Definition oid_violations (cs : list oid_case) : list N := idx_filter (fun c => oc_accepted c && (255 <? oc_len c)) 0 cs.

Fixpoint seglist_prefixb (a b : list bytes) : bool :=
  match a, b with
  | [], _ => true
  | x :: a', y :: b' => bytes_eqb x y && seglist_prefixb a' b'
  | _ :: _, [] => false
  end.

Definition all_short (l : list bytes) : bool := forallb shortb l.

(* pair predicate on two join observations *)
Definition join_pair_ok (c d : join_case) : bool :=
  if all_short (j_segs c) && all_short (j_segs d) then
    (list_beq_bytes (j_segs c) (j_segs d) || negb (bytes_eqb (j_obs c) (j_obs d))) &&
    (negb (prefixb (j_obs c) (j_obs d)) || seglist_prefixb (j_segs c) (j_segs d))
  else true.
Definition join_single_ok (c : join_case) : bool :=
  if all_short (j_segs c) then j_decodes c else true.
Definition join_violations (cs : list join_case) : list N :=
  idx_filter (fun c => negb (join_single_ok c && forallb (join_pair_ok c) cs)) 0 cs.

(* key constructors: structural equality of descriptors *)
Definition skey_eqb (a b : skey) : bool :=
  match a, b with
  | KAccount x, KAccount y | KValidator x, KValidator y | KNonSigner x, KNonSigner y | KParams x, KParams y => bytes_eqb x y
  | KPool x, KPool y | KRetired x, KRetired y | KLockedBatch x, KLockedBatch y | KNextBatch x, KNextBatch y => x =? y
  | KCommittee c s x, KCommittee c' s' y | KDelegate c s x, KDelegate c' s' y => (c =? c') && (s =? s') && bytes_eqb x y
  | KUnstaking h x, KUnstaking h' y | KPaused h x, KPaused h' y => (h =? h') && bytes_eqb x y
  | KOrder c x, KOrder c' y => (c =? c') && bytes_eqb x y
  | KLastProposers, KLastProposers | KSupply, KSupply | KCommitteesData, KCommitteesData => true
  | _, _ => false
  end.
Definition key_pair_ok (c d : key_case) : bool :=
  skey_eqb (kc_key c) (kc_key d) || negb (prefixb (kc_obs c) (kc_obs d)).
Definition key_violations (cs : list key_case) : list N :=
  idx_filter (fun c => negb (forallb (key_pair_ok c) cs)) 0 cs.
