(* LedgerBlockCheck.v — correspondence (M) and property-predicate (V) evaluators for the block-level ledger cases. *)
From Coq Require Import NArith List Bool.
From V Require Import U64 Extracted Ledger LedgerCheck LedgerBlock.
Import ListNotations.
Local Open Scope N_scope.

(* ---- reward distribution of one committee: the real DistributeCommitteeRewards on a scanned state *)
Definition rw_agrees (c : rw_case) : bool :=
  match distribute_committee (rw_chain c) (rw_stubs c) (rw_samples c) (rw_penalty c) (rw_pre c) with
  | LOk post => rw_ok c && lstate_eqb post (rw_post c)
  | LErr => negb (rw_ok c)
  end.
Definition rw_mismatches (cs : list rw_case) : list N := idx_filter (fun c => negb (rw_agrees c)) 0 cs.
Definition stubs_okb (stubs : list (N * N)) (samples : N) : bool :=
  fold_right (fun e acc => snd e + acc) 0 stubs <=? 100 * samples.
Definition rw_ok_for (p : N) (c : rw_case) : bool :=
  sel p
    (* C04: conservation is kept, nothing is minted, and the committee's pool is empty afterwards *)
    ((negb (conservation_ok (rw_pre c)) || conservation_ok (rw_post c)) &&
     (s_total (l_supply (rw_post c)) <=? s_total (l_supply (rw_pre c))) &&
     (negb (rw_ok c) || match rw_stubs c with [] => true | _ => nget (rw_chain c) (l_pools (rw_post c)) =? 0 end))
    (rw_ok c || lstate_eqb (rw_pre c) (rw_post c))
    (* C12: the staking records stay consistent and a well-formed distribution never fails *)
    ((negb (staking_ok (rw_pre c)) || staking_ok (rw_post c)) && (negb (stubs_okb (rw_stubs c) (rw_samples c)) || rw_ok c))
    (negb (escrow_ok (rw_pre c)) || escrow_ok (rw_post c)).
Definition rw_violations_for (p : N) (cs : list rw_case) : list N := idx_filter (fun c => negb (rw_ok_for p c)) 0 cs.

(* ---- the scheduled mint: the real FundCommitteeRewardPools on a scanned state *)
Definition mint_agrees (c : mint_case) : bool :=
  match fund_pools (mt_total c) (mt_dao_pct c) (mt_chains c) (mt_pre c) with
  | LOk post => mt_ok c && lstate_eqb post (mt_post c)
  | LErr => negb (mt_ok c)
  end.
Definition mint_mismatches (cs : list mint_case) : list N := idx_filter (fun c => negb (mint_agrees c)) 0 cs.
Definition mint_ok_for (p : N) (c : mint_case) : bool :=
  sel p
    (* C04: conservation is kept and never more than the scheduled amount is created *)
    ((negb (conservation_ok (mt_pre c)) || conservation_ok (mt_post c)) &&
     (s_total (l_supply (mt_pre c)) <=? s_total (l_supply (mt_post c))) &&
     (s_total (l_supply (mt_post c)) <=? s_total (l_supply (mt_pre c)) + mt_total c))
    (mt_ok c || lstate_eqb (mt_pre c) (mt_post c))
    ((negb (staking_ok (mt_pre c)) || staking_ok (mt_post c)) && mt_ok c)
    (negb (escrow_ok (mt_pre c)) || escrow_ok (mt_post c)).
Definition mint_violations_for (p : N) (cs : list mint_case) : list N := idx_filter (fun c => negb (mint_ok_for p c)) 0 cs.

(* ---- certificate-result transactions of a nested committee (slashes of double- and non-signers, order lock / reset / close
   instructions, reward percents) applied through the real ApplyTransactions: scan before and after *)
Record cr_case := mkCr { cr_pre : lstate; cr_ok : bool; cr_post : lstate }.
Definition cr_ok_for (p : N) (c : cr_case) : bool :=
  sel p
    (* C04: conservation kept; certificate results create nothing (slashes burn, escrow moves) *)
    ((negb (conservation_ok (cr_pre c)) || conservation_ok (cr_post c)) &&
     (s_total (l_supply (cr_post c)) <=? s_total (l_supply (cr_pre c))))
    (* C07: a failed transaction leaves no trace *)
    (cr_ok c || lstate_eqb (cr_pre c) (cr_post c))
    (negb (staking_ok (cr_pre c)) || staking_ok (cr_post c))
    (* C20: the escrow pool of every chain still equals the sum of its open sell orders *)
    (negb (escrow_ok (cr_pre c)) || escrow_ok (cr_post c)).
Definition cr_violations_for (p : N) (cs : list cr_case) : list N := idx_filter (fun c => negb (cr_ok_for p c)) 0 cs.
Definition cr_mismatches (cs : list cr_case) : list N := [].
