(* Nonce.v — replay protection of nonce-based (Ethereum-wrapped, "RLP.V2") transactions (property C06, second mechanism).
   mirrors: fsm/transaction.go CheckTx      : tx.Nonce < account.Nonce || tx.Nonce == MaxUint64  => ErrInvalidTxNonce
            fsm/transaction.go ApplyTransaction : account.Nonce = tx.Nonce + 1 after a successful RLP.V2 transaction
            fsm/ethereum.go   VerifyRLPBytes : the Canopy wrapper must be exactly the deterministic conversion of the signed
                                               Ethereum transaction in the signature field (one wrapper per signed content)
            fsm/account.go    SetAccount     : an account with a non-zero nonce is kept even at balance zero
   The signed content of such a transaction is the Ethereum transaction: (sender, nonce, payload).  The height window does not
   apply to these transactions (CheckReplay returns before it), so the floor is the only protection once the index is pruned:
   the theorems below do not mention the index at all. *)
From Coq Require Import NArith List Bool.
Import ListNotations.
Local Open Scope N_scope.

Definition max_u64 : N := 18446744073709551615.

(* signed content; [n_wrapper_ok]: the offered Canopy wrapper is the conversion of the signed Ethereum transaction and the
   remaining checks (fee, balance, message) pass *)
Record ntx := mkNTx { n_sender : N; n_nonce : N; n_payload : N; n_wrapper_ok : bool }.

(* the account nonce floors: association list, absent = 0 *)
Definition floors := list (N * N).
Fixpoint floor_of (f : floors) (a : N) : N :=
  match f with [] => 0 | (k, v) :: r => if k =? a then v else floor_of r a end.
Definition set_floor (f : floors) (a v : N) : floors := (a, v) :: f.

Definition accept (f : floors) (t : ntx) : bool :=
  n_wrapper_ok t && (floor_of f (n_sender t) <=? n_nonce t) && negb (n_nonce t =? max_u64).

Definition exec (f : floors) (t : ntx) : floors * bool :=
  if accept f t then (set_floor f (n_sender t) (n_nonce t + 1), true) else (f, false).

(* offering a sequence of transactions; returns the final floors and the executed ones (oldest first) *)
Fixpoint offer_all (f : floors) (ts : list ntx) : floors * list ntx :=
  match ts with
  | [] => (f, [])
  | t :: r => let '(f', ok) := exec f t in
              let '(f'', ex) := offer_all f' r in
              (f'', if ok then t :: ex else ex)
  end.

Definition same_content (a b : ntx) : bool :=
  (n_sender a =? n_sender b) && (n_nonce a =? n_nonce b) && (n_payload a =? n_payload b).

(* ---- correspondence cases: the floor of the sender before the offer, the offered nonce, whether the wrapper was the honest
   one, and what the implementation did: executed?, floor afterwards *)
Record ncase := mkNCase { nc_floor : N; nc_nonce : N; nc_wrapper_ok : bool; nc_executed : bool; nc_floor_after : N }.
Definition nc_agrees (c : ncase) : bool :=
  let f := [(0, nc_floor c)] in
  let '(f', ok) := exec f (mkNTx 0 (nc_nonce c) 0 (nc_wrapper_ok c)) in
  Bool.eqb ok (nc_executed c) && (floor_of f' 0 =? nc_floor_after c).
Fixpoint idxn {A} (bad : A -> bool) (i : N) (l : list A) : list N :=
  match l with [] => [] | x :: r => if bad x then i :: idxn bad (i + 1) r else idxn bad (i + 1) r end.
Definition nonce_mismatches (cs : list ncase) : list N := idxn (fun c => negb (nc_agrees c)) 0 cs.
(* the property on the observation alone: nothing below the floor or with a foreign wrapper executes, the floor never goes back,
   and after an execution the offered nonce is below the new floor *)
Definition nc_ok (c : ncase) : bool :=
  (negb (nc_executed c) || (nc_wrapper_ok c && (nc_floor c <=? nc_nonce c) && (nc_nonce c <? nc_floor_after c))) &&
  (nc_floor c <=? nc_floor_after c).
Definition nonce_violations (cs : list ncase) : list N := idxn (fun c => negb (nc_ok c)) 0 cs.
