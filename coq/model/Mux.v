(* Mux.v — multiplexed peer messaging (property C18).
   mirrors: p2p/conn.go Send (split into packets of at most maxDataChunkSize bytes, the last one marked EOF; all packets of
            a message enter the topic's send queue back to back under the stream mutex), startSendService (one goroutine
            takes packets from the topic queues in any order), startReceiveService / Stream.handlePacket (per-topic
            assembler, size cap, delivery on EOF).
   A schedule of the sender is any interleaving of the per-topic packet queues that keeps each queue's order. *)
From Coq Require Import NArith List Bool Arith.
From V Require Import Bytes.
Import ListNotations.

(* split(buf, lim) *)
Fixpoint chunks (fuel : nat) (lim : nat) (buf : bytes) : list bytes :=
  match fuel with
  | O => []
  | S f => if Nat.leb lim (length buf) then firstn lim buf :: chunks f lim (skipn lim buf)
           else match buf with [] => [] | _ => [buf] end
  end.
Definition split (lim : nat) (buf : bytes) : list bytes :=
  match buf with [] => [[]] | _ => chunks (S (length buf)) lim buf end.

Record packet := mkPk { p_topic : N; p_eof : bool; p_bytes : bytes }.
Fixpoint mark (topic : N) (cs : list bytes) : list packet :=
  match cs with
  | [] => []
  | [c] => [mkPk topic true c]
  | c :: r => mkPk topic false c :: mark topic r
  end.
Definition packets_of (lim : nat) (topic : N) (msg : bytes) : list packet := mark topic (split lim msg).

(* ---- the receiver: per-topic assemblers *)
Definition asm := list (N * bytes).
Fixpoint asm_get (t : N) (a : asm) : bytes := match a with [] => [] | (t', b) :: r => if N.eqb t t' then b else asm_get t r end.
Fixpoint asm_set (t : N) (b : bytes) (a : asm) : asm :=
  match a with [] => [(t, b)] | (t', b') :: r => if N.eqb t t' then (t, b) :: r else (t', b') :: asm_set t b r end.

Inductive rres := RClosed | ROk (a : asm) (delivered : option (N * bytes)).
(* Stream.handlePacket: exceeding the message limit closes the connection and drops the partial message *)
Definition handle_packet (maxmsg : nat) (a : asm) (p : packet) : rres :=
  let cur := asm_get (p_topic p) a in
  if Nat.ltb maxmsg (length cur + length (p_bytes p)) then RClosed
  else let cur' := cur ++ p_bytes p in
       if p_eof p then ROk (asm_set (p_topic p) [] a) (Some (p_topic p, cur'))
       else ROk (asm_set (p_topic p) cur' a) None.
(* the whole wire: delivered messages in order, and whether the connection survived *)
Fixpoint receive (maxmsg : nat) (a : asm) (wire : list packet) : list (N * bytes) * bool :=
  match wire with
  | [] => ([], true)
  | p :: r => match handle_packet maxmsg a p with
              | RClosed => ([], false)
              | ROk a' d => let '(ds, ok) := receive maxmsg a' r in ((match d with Some x => x :: ds | None => ds end), ok)
              end
  end.

(* ---- the sender: any interleaving of the topic queues *)
Inductive interleave {A} : list (list A) -> list A -> Prop :=
| il_nil : forall qs, Forall (fun q => q = []) qs -> interleave qs []
| il_step : forall qs1 x q qs2 w, interleave (qs1 ++ q :: qs2) w -> interleave (qs1 ++ (x :: q) :: qs2) (x :: w).

Definition queue_of (lim : nat) (topic : N) (msgs : list bytes) : list packet := flat_map (packets_of lim topic) msgs.
Definition on_topic (t : N) (ds : list (N * bytes)) : list bytes := map snd (filter (fun d => N.eqb (fst d) t) ds).

(* ---- correspondence cases: split and the assembler as pure functions; concurrent sends as an ordering check *)
Record split_case := mkSC { sc_lim : N; sc_len : N; sc_sizes : list N }.    (* a buffer of sc_len bytes: the chunk sizes observed *)
Definition split_agrees (c : split_case) : bool :=
  let buf := repeat 7%N (N.to_nat (sc_len c)) in
  let model := map (fun ch => N.of_nat (length ch)) (split (N.to_nat (sc_lim c)) buf) in
  (fix eq (a b : list N) : bool := match a, b with [] , [] => true | x :: a', y :: b' => N.eqb x y && eq a' b' | _, _ => false end) model (sc_sizes c).
(* an assembler run: packets (topic, eof, payload) and, per packet, what the real stream delivered / whether it failed *)
Record asm_case := mkAC { ac_max : N; ac_packets : list (N * bool * bytes); ac_obs : list (option (option bytes)) }.
   (* per packet: None = error (connection closed); Some None = nothing delivered; Some (Some m) = message m delivered *)
Fixpoint asm_run (maxmsg : nat) (a : asm) (ps : list (N * bool * bytes)) : list (option (option bytes)) :=
  match ps with
  | [] => []
  | (t, e, b) :: r => match handle_packet maxmsg a (mkPk t e b) with
                      | RClosed => [None]
                      | ROk a' d => Some (match d with Some x => Some (snd x) | None => None end) :: asm_run maxmsg a' r
                      end
  end.
Definition oob_eqb (a b : option (option bytes)) : bool :=
  match a, b with
  | None, None => true
  | Some None, Some None => true
  | Some (Some x), Some (Some y) => bytes_eqb x y
  | _, _ => false
  end.
Fixpoint obs_eqb (a b : list (option (option bytes))) : bool :=
  match a, b with [], [] => true | x :: a', y :: b' => oob_eqb x y && obs_eqb a' b' | _, _ => false end.
(* the real limit (256 MB) is far above anything the harness feeds: it is capped at 2^20 for the evaluation (a unary number of
   that size is all vm_compute can afford); the over-limit branch is covered by the theorem oversize_closes, not by this run *)
Definition asm_agrees (c : asm_case) : bool := obs_eqb (asm_run (N.to_nat (N.min (ac_max c) 1048576)) [] (ac_packets c)) (ac_obs c).
(* concurrent sends on a real connection pair: per topic, the ids of the messages each sender sent (in its order) and the ids
   delivered (messages are identified by id after the harness checked length and content); whole messages, right topic, each
   sender's order kept, nothing invented, nothing twice *)
Record conc_case := mkCC { cc_sent : list (N * list (list N)); cc_delivered : list (N * list N) }.
Fixpoint is_subseq (a b : list N) : bool :=      (* a is a subsequence of b *)
  match a, b with
  | [], _ => true
  | _, [] => false
  | x :: a', y :: b' => if N.eqb x y then is_subseq a' b' else is_subseq a b'
  end.
Fixpoint nodupb (l : list N) : bool := match l with [] => true | x :: r => negb (existsb (N.eqb x) r) && nodupb r end.
Definition conc_ok (c : conc_case) : bool :=
  forallb (fun td => let '(t, ds) := td in
     nodupb ds &&
     match find (fun s => N.eqb (fst s) t) (cc_sent c) with
     | Some (_, senders) =>
         forallb (fun d => existsb (fun s => existsb (N.eqb d) s) senders) ds &&           (* nothing invented *)
         forallb (fun s => is_subseq (filter (fun x => existsb (N.eqb x) ds) s) ds) senders (* each sender's order kept *)
     | None => match ds with [] => true | _ => false end
     end) (cc_delivered c).
Fixpoint idxm {A} (bad : A -> bool) (i : N) (l : list A) : list N :=
  match l with [] => [] | x :: r => if bad x then i :: idxm bad (N.succ i) r else idxm bad (N.succ i) r end.
Definition split_mismatches (cs : list split_case) : list N := idxm (fun c => negb (split_agrees c)) 0%N cs.
Definition asm_mismatches (cs : list asm_case) : list N := idxm (fun c => negb (asm_agrees c)) 0%N cs.
Definition conc_violations (cs : list conc_case) : list N := idxm (fun c => negb (conc_ok c)) 0%N cs.
Definition conc_mismatches (cs : list conc_case) : list N := [].
