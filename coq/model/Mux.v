(* Mux.v — multiplexed peer messaging (property C18).
   mirrors: p2p/conn.go Send (split into packets of at most maxDataChunkSize bytes, the last one marked EOF; all packets of
            a message enter the topic's send queue back to back under the stream mutex), startSendService (one goroutine
            takes packets from the topic queues in any order), startReceiveService / Stream.handlePacket (per-topic
            assembler, size cap, delivery on EOF).
   A schedule of the sender is any interleaving of the per-topic packet queues that keeps each queue's order. *)
From Coq Require Import NArith List Bool Arith.
From V Require Import Bytes.
Import ListNotations.

(* split(buf, lim) *)
Fixpoint chunks (fuel : nat) (lim : nat) (buf : bytes) : list bytes :=
  match fuel with
  | O => []
  | S f => if Nat.leb lim (length buf) then firstn lim buf :: chunks f lim (skipn lim buf)
           else match buf with [] => [] | _ => [buf] end
  end.
Definition split (lim : nat) (buf : bytes) : list bytes :=
  match buf with [] => [[]] | _ => chunks (S (length buf)) lim buf end.

Record packet := mkPk { p_topic : N; p_eof : bool; p_bytes : bytes }.
Fixpoint mark (topic : N) (cs : list bytes) : list packet :=
  match cs with
  | [] => []
  | [c] => [mkPk topic true c]
  | c :: r => mkPk topic false c :: mark topic r
  end.
Definition packets_of (lim : nat) (topic : N) (msg : bytes) : list packet := mark topic (split lim msg).

(* ---- the receiver: per-topic assemblers *)
Definition asm := list (N * bytes).
Fixpoint asm_get (t : N) (a : asm) : bytes := match a with [] => [] | (t', b) :: r => if N.eqb t t' then b else asm_get t r end.
Fixpoint asm_set (t : N) (b : bytes) (a : asm) : asm :=
  match a with [] => [(t, b)] | (t', b') :: r => if N.eqb t t' then (t, b) :: r else (t', b') :: asm_set t b r end.

Inductive rres := RClosed | ROk (a : asm) (delivered : option (N * bytes)).
(* Stream.handlePacket: exceeding the message limit closes the connection and drops the partial message *)
Definition handle_packet (maxmsg : nat) (a : asm) (p : packet) : rres :=
  let cur := asm_get (p_topic p) a in
  if Nat.ltb maxmsg (length cur + length (p_bytes p)) then RClosed
  else let cur' := cur ++ p_bytes p in
       if p_eof p then ROk (asm_set (p_topic p) [] a) (Some (p_topic p, cur'))
       else ROk (asm_set (p_topic p) cur' a) None.
(* the whole wire: delivered messages in order, and whether the connection survived *)
Fixpoint receive (maxmsg : nat) (a : asm) (wire : list packet) : list (N * bytes) * bool :=
  match wire with
  | [] => ([], true)
  | p :: r => match handle_packet maxmsg a p with
              | RClosed => ([], false)
              | ROk a' d => let '(ds, ok) := receive maxmsg a' r in ((match d with Some x => x :: ds | None => ds end), ok)
              end
  end.

(* ---- the sender: any interleaving of the topic queues *)
Inductive interleave {A} : list (list A) -> list A -> Prop :=
| il_nil : forall qs, Forall (fun q => q = []) qs -> interleave qs []
| il_step : forall qs1 x q qs2 w, interleave (qs1 ++ q :: qs2) w -> interleave (qs1 ++ (x :: q) :: qs2) (x :: w).

Definition queue_of (lim : nat) (topic : N) (msgs : list bytes) : list packet := flat_map (packets_of lim topic) msgs.
Definition on_topic (t : N) (ds : list (N * bytes)) : list bytes := map snd (filter (fun d => N.eqb (fst d) t) ds).

(* ---- the topic's bounded send queue (Stream.queueSends under the stream mutex; the send service drains it) *)
(* a message enters the queue whole or not at all: queueSends waits until all its packets fit (free space only grows while the
   mutex is held) and gives up, with nothing queued, when they do not fit in time.  [fits] abstracts the timing: whether the
   room was there before the time-out.  A message of more packets than the queue can ever hold is queued packet by packet, as
   before the repair (it cannot occur: at most 257 packets per message, 1000 slots) *)
Fixpoint fill (room : nat) (q ps : list packet) {struct ps} : list packet * bool :=
  match ps with
  | [] => (q, true)
  | p :: r => match room with O => (q, false) | S room' => fill room' (q ++ [p]) r end
  end.
Definition qsend (lim cap : nat) (t : N) (q : list packet) (msg : bytes) : list packet * bool :=
  let ps := packets_of lim t msg in
  match ps with
  | [_] => fill (cap - length q) q ps
  | _ => if Nat.leb (length ps) cap
         then (if Nat.leb (length q + length ps) cap then (q ++ ps, true) else (q, false))
         else fill (cap - length q) q ps
  end.
(* before the repair: packet by packet, each waiting for its own slot - a time-out after the first packet left a prefix queued *)
Definition qsend_old (lim cap : nat) (t : N) (q : list packet) (msg : bytes) : list packet * bool :=
  fill (cap - length q) q (packets_of lim t msg).
Inductive sop := OSend (msg : bytes) | ODrain (k : nat).
Record sstate := mkSS { ss_queue : list packet; ss_wire : list packet; ss_accepted : list bytes }.
Definition sstep (send : list packet -> bytes -> list packet * bool) (s : sstate) (o : sop) : sstate :=
  match o with
  | OSend m => let '(q', ok) := send (ss_queue s) m in mkSS q' (ss_wire s) (if ok then ss_accepted s ++ [m] else ss_accepted s)
  | ODrain k => mkSS (skipn k (ss_queue s)) (ss_wire s ++ firstn k (ss_queue s)) (ss_accepted s)
  end.
Definition srun send (ops : list sop) : sstate := fold_left (sstep send) ops (mkSS [] [] []).
(* correspondence: the observations of a run of the real stream: per send, whether it was accepted; per drain, the packets taken *)
Inductive sobs := SAcc (ok : bool) | STaken (ps : list (bool * bytes)).
Fixpoint sobserve (send : list packet -> bytes -> list packet * bool) (s : sstate) (ops : list sop) : list sobs :=
  match ops with
  | [] => []
  | o :: r => let s' := sstep send s o in
              (match o with
               | OSend m => SAcc (snd (send (ss_queue s) m))
               | ODrain k => STaken (map (fun p => (p_eof p, p_bytes p)) (firstn k (ss_queue s)))
               end) :: sobserve send s' r
  end.
Definition sobs_eqb (a b : sobs) : bool :=
  match a, b with
  | SAcc x, SAcc y => Bool.eqb x y
  | STaken x, STaken y => (fix eq (a b : list (bool * bytes)) : bool :=
        match a, b with [], [] => true | (e1, b1) :: a', (e2, b2) :: b' => Bool.eqb e1 e2 && bytes_eqb b1 b2 && eq a' b' | _, _ => false end) x y
  | _, _ => false
  end.
Record send_case := mkSnd { sn_lim : N; sn_cap : N; sn_topic : N; sn_ops : list sop; sn_obs : list sobs }.
Definition send_agrees (c : send_case) : bool :=
  let model := sobserve (qsend (N.to_nat (sn_lim c)) (N.to_nat (sn_cap c)) (sn_topic c)) (mkSS [] [] []) (sn_ops c) in
  (fix eq (a b : list sobs) : bool := match a, b with [], [] => true | x :: a', y :: b' => sobs_eqb x y && eq a' b' | _, _ => false end) model (sn_obs c).
(* the property on the observations alone: what was taken from the queue, fed to the receiver, is exactly the accepted messages *)
Definition send_ok (c : send_case) : bool :=
  let taken := flat_map (fun o => match o with STaken ps => map (fun eb => mkPk (sn_topic c) (fst eb) (snd eb)) ps | _ => [] end) (sn_obs c) in
  let accepted := (fix acc (ops : list sop) (obs : list sobs) : list bytes :=
      match ops, obs with
      | OSend m :: r, SAcc true :: r' => m :: acc r r'
      | _ :: r, _ :: r' => acc r r'
      | _, _ => []
      end) (sn_ops c) (sn_obs c) in
  let '(ds, alive) := receive (N.to_nat 1048576) [] taken in
  alive && (fix pre (a b : list bytes) : bool :=      (* delivered = a prefix of the accepted messages (the rest is still queued) *)
      match a, b with [], _ => true | x :: a', y :: b' => bytes_eqb x y && pre a' b' | _, _ => false end) (map snd ds) accepted.

(* ---- correspondence cases: split and the assembler as pure functions; concurrent sends as an ordering check *)
Record split_case := mkSC { sc_lim : N; sc_len : N; sc_sizes : list N }.    (* a buffer of sc_len bytes: the chunk sizes observed *)
Definition split_agrees (c : split_case) : bool :=
  let buf := repeat 7%N (N.to_nat (sc_len c)) in
  let model := map (fun ch => N.of_nat (length ch)) (split (N.to_nat (sc_lim c)) buf) in
  (fix eq (a b : list N) : bool := match a, b with [] , [] => true | x :: a', y :: b' => N.eqb x y && eq a' b' | _, _ => false end) model (sc_sizes c).
(* an assembler run: packets (topic, eof, payload) and, per packet, what the real stream delivered / whether it failed *)
Record asm_case := mkAC { ac_max : N; ac_packets : list (N * bool * bytes); ac_obs : list (option (option bytes)) }.
   (* per packet: None = error (connection closed); Some None = nothing delivered; Some (Some m) = message m delivered *)
Fixpoint asm_run (maxmsg : nat) (a : asm) (ps : list (N * bool * bytes)) : list (option (option bytes)) :=
  match ps with
  | [] => []
  | (t, e, b) :: r => match handle_packet maxmsg a (mkPk t e b) with
                      | RClosed => [None]
                      | ROk a' d => Some (match d with Some x => Some (snd x) | None => None end) :: asm_run maxmsg a' r
                      end
  end.
Definition oob_eqb (a b : option (option bytes)) : bool :=
  match a, b with
  | None, None => true
  | Some None, Some None => true
  | Some (Some x), Some (Some y) => bytes_eqb x y
  | _, _ => false
  end.
Fixpoint obs_eqb (a b : list (option (option bytes))) : bool :=
  match a, b with [], [] => true | x :: a', y :: b' => oob_eqb x y && obs_eqb a' b' | _, _ => false end.
(* the real limit (256 MB) is far above anything the harness feeds: it is capped at 2^20 for the evaluation (a unary number of
   that size is all vm_compute can afford); the over-limit branch is covered by the theorem oversize_closes, not by this run *)
Definition asm_agrees (c : asm_case) : bool := obs_eqb (asm_run (N.to_nat (N.min (ac_max c) 1048576)) [] (ac_packets c)) (ac_obs c).
(* concurrent sends on a real connection pair: per topic, the ids of the messages each sender sent (in its order) and the ids
   delivered (messages are identified by id after the harness checked length and content); whole messages, right topic, each
   sender's order kept, nothing invented, nothing twice *)
Record conc_case := mkCC { cc_sent : list (N * list (list N)); cc_delivered : list (N * list N) }.
Fixpoint is_subseq (a b : list N) : bool :=      (* a is a subsequence of b *)
  match a, b with
  | [], _ => true
  | _, [] => false
  | x :: a', y :: b' => if N.eqb x y then is_subseq a' b' else is_subseq a b'
  end.
Fixpoint nodupb (l : list N) : bool := match l with [] => true | x :: r => negb (existsb (N.eqb x) r) && nodupb r end.
Definition conc_ok (c : conc_case) : bool :=
  forallb (fun td => let '(t, ds) := td in
     nodupb ds &&
     match find (fun s => N.eqb (fst s) t) (cc_sent c) with
     | Some (_, senders) =>
         forallb (fun d => existsb (fun s => existsb (N.eqb d) s) senders) ds &&           (* nothing invented *)
         forallb (fun s => is_subseq (filter (fun x => existsb (N.eqb x) ds) s) ds) senders (* each sender's order kept *)
     | None => match ds with [] => true | _ => false end
     end) (cc_delivered c).
Fixpoint idxm {A} (bad : A -> bool) (i : N) (l : list A) : list N :=
  match l with [] => [] | x :: r => if bad x then i :: idxm bad (N.succ i) r else idxm bad (N.succ i) r end.
Definition split_mismatches (cs : list split_case) : list N := idxm (fun c => negb (split_agrees c)) 0%N cs.
Definition asm_mismatches (cs : list asm_case) : list N := idxm (fun c => negb (asm_agrees c)) 0%N cs.
Definition conc_violations (cs : list conc_case) : list N := idxm (fun c => negb (conc_ok c)) 0%N cs.
Definition conc_mismatches (cs : list conc_case) : list N := [].
Definition send_mismatches (cs : list send_case) : list N := idxm (fun c => negb (send_agrees c)) 0%N cs.
Definition send_violations (cs : list send_case) : list N := idxm (fun c => negb (send_ok c)) 0%N cs.
