(* LedgerCheck.v — correspondence (M) and property-predicate (V) evaluators for the ledger cases (C04, C07, C12). *)
From Coq Require Import NArith List Bool.
From V Require Import U64 Extracted Ledger.
Import ListNotations.
Local Open Scope N_scope.

Fixpoint idx_filter {A} (bad : A -> bool) (i : N) (l : list A) : list N :=
  match l with
  | [] => []
  | x :: r => if bad x then i :: idx_filter bad (i + 1) r else idx_filter bad (i + 1) r
  end.
Fixpoint list_eqb {A} (eqb : A -> A -> bool) (a b : list A) : bool :=
  match a, b with [], [] => true | x :: a', y :: b' => eqb x y && list_eqb eqb a' b' | _, _ => false end.
Definition nn_eqb (a b : N * N) : bool := (fst a =? fst b) && (snd a =? snd b).
Definition val_eqb (a b : validator) : bool :=
  (v_stake a =? v_stake b) && (v_output a =? v_output b) && list_eqb N.eqb (v_committees a) (v_committees b) &&
  (v_paused a =? v_paused b) && (v_unstaking a =? v_unstaking b) && Bool.eqb (v_delegate a) (v_delegate b) && Bool.eqb (v_compound a) (v_compound b).
Definition order_eqb (a b : order) : bool :=
  (o_chain a =? o_chain b) && (o_amount a =? o_amount b) && (o_seller a =? o_seller b) && Bool.eqb (o_locked a) (o_locked b).
Definition supply_eqb (a b : supply) : bool :=
  (s_total a =? s_total b) && (s_staked a =? s_staked b) && (s_delegated a =? s_delegated b) &&
  list_eqb nn_eqb (s_cstaked a) (s_cstaked b) && list_eqb nn_eqb (s_cdelegated a) (s_cdelegated b).
Definition params_eqb (a b : params) : bool :=
  (p_unstaking_blocks a =? p_unstaking_blocks b) && (p_delegate_unstaking_blocks a =? p_delegate_unstaking_blocks b) &&
  (p_max_pause_blocks a =? p_max_pause_blocks b) && (p_min_stake_validators a =? p_min_stake_validators b) &&
  (p_min_stake_delegates a =? p_min_stake_delegates b) && (p_min_order_size a =? p_min_order_size b) &&
  (p_max_slash_per_committee a =? p_max_slash_per_committee b).
Definition lstate_eqb (a b : lstate) : bool :=
  params_eqb (l_params a) (l_params b) &&
  list_eqb nn_eqb (l_accounts a) (l_accounts b) && list_eqb nn_eqb (l_pools a) (l_pools b) &&
  list_eqb (fun x y => (fst x =? fst y) && val_eqb (snd x) (snd y)) (l_vals a) (l_vals b) &&
  supply_eqb (l_supply a) (l_supply b) &&
  list_eqb nn_eqb (l_unstaking a) (l_unstaking b) && list_eqb nn_eqb (l_paused a) (l_paused b) &&
  list_eqb (fun x y => (fst x =? fst y) && order_eqb (snd x) (snd y)) (l_orders a) (l_orders b).

(* ---- the scan predicates (the property read off a state scan alone) *)
Definition sum_snd (m : list (N * N)) : N := fold_right (fun e acc => snd e + acc) 0 m.
Definition sum_stake (vs : list (N * validator)) : N := fold_right (fun e acc => v_stake (snd e) + acc) 0 vs.
(* C04: recorded total supply = all account balances + all pool balances + all validator stakes *)
Definition conservation_ok (s : lstate) : bool :=
  s_total (l_supply s) =? sum_snd (l_accounts s) + sum_snd (l_pools s) + sum_stake (l_vals s).
(* C20: for every chain the escrow pool equals the sum of its open sell orders *)
Definition chains_of_orders (s : lstate) : list N := map (fun e => o_chain (snd e)) (l_orders s).
Definition escrow_ok (s : lstate) : bool :=
  forallb (fun c => nget (add64 c EscrowPoolAddend) (l_pools s) =?
                    fold_right (fun e acc => if o_chain (snd e) =? c then o_amount (snd e) + acc else acc) 0 (l_orders s))
          (chains_of_orders s) &&
  forallb (fun p => if (EscrowPoolAddend <=? fst p) && (fst p <? EscrowPoolAddend + MaxChainId + 1)
                    then existsb (fun c => add64 c EscrowPoolAddend =? fst p) (chains_of_orders s) else true) (l_pools s).
(* C12: tallies equal sums over validator records; markers <-> validators in that status *)
Definition committee_ids (s : lstate) : list N :=
  flat_map (fun e => v_committees (snd e)) (l_vals s) ++ map fst (s_cstaked (l_supply s)) ++ map fst (s_cdelegated (l_supply s)).
Definition staking_ok (s : lstate) : bool :=
  let vs := l_vals s in let u := l_supply s in
  (s_staked u =? sum_stake vs) &&
  (s_delegated u =? fold_right (fun e acc => if v_delegate (snd e) then v_stake (snd e) + acc else acc) 0 vs) &&
  forallb (fun c =>
    (nget c (s_cstaked u) =? fold_right (fun e acc => if existsb (N.eqb c) (v_committees (snd e)) then v_stake (snd e) + acc else acc) 0 vs) &&
    (nget c (s_cdelegated u) =? fold_right (fun e acc => if v_delegate (snd e) && existsb (N.eqb c) (v_committees (snd e)) then v_stake (snd e) + acc else acc) 0 vs))
    (committee_ids s) &&
  (* every marker names an existing validator in exactly that status *)
  forallb (fun m => match aget (snd m) vs with Some v => v_unstaking v =? fst m | None => false end) (l_unstaking s) &&
  forallb (fun m => match aget (snd m) vs with Some v => v_paused v =? fst m | None => false end) (l_paused s) &&
  (* and vice versa *)
  forallb (fun e => (v_unstaking (snd e) =? 0) || existsb (fun m => (fst m =? v_unstaking (snd e)) && (snd m =? fst e)) (l_unstaking s)) vs &&
  forallb (fun e => (v_paused (snd e) =? 0) || existsb (fun m => (fst m =? v_paused (snd e)) && (snd m =? fst e)) (l_paused s)) vs.

(* ---- transaction-level cases: state before, the resolved message, outcome and state after, as observed on the real FSM *)
Record tx_case := mkTx { t_pre : lstate; t_sender : N; t_fee : N; t_msg : lmsg; t_ok : bool; t_post : lstate }.
Definition tx_agrees (c : tx_case) : bool :=
  let '(ok, post) := apply_tx (t_sender c) (t_fee c) (t_msg c) (t_pre c) in
  Bool.eqb ok (t_ok c) && lstate_eqb post (t_post c).
Definition tx_mismatches (cs : list tx_case) : list N := idx_filter (fun c => negb (tx_agrees c)) 0 cs.
(* property predicates on the observation alone: conservation and staking consistency are preserved, a transaction never
   changes the total supply except a DAO mint, and a failed transaction leaves the state exactly as it was (C07) *)
Definition tx_ok (c : tx_case) : bool :=
  (negb (conservation_ok (t_pre c)) || conservation_ok (t_post c)) &&
  (negb (staking_ok (t_pre c)) || staking_ok (t_post c)) &&
  (negb (escrow_ok (t_pre c)) || escrow_ok (t_post c)) &&
  (if t_ok c then match t_msg c with
                  | MDaoTransfer _ x true => s_total (l_supply (t_post c)) =? s_total (l_supply (t_pre c)) + x
                  | _ => s_total (l_supply (t_post c)) =? s_total (l_supply (t_pre c))
                  end
   else lstate_eqb (t_pre c) (t_post c)).
Definition tx_violations (cs : list tx_case) : list N := idx_filter (fun c => negb (tx_ok c)) 0 cs.

(* ---- failed transactions of ANY kind (including kinds the model does not cover): the state scan, parameters included, must be
   exactly what it was (C07) *)
Record fail_case := mkFail { f_pre : lstate; f_post : lstate }.
Definition fail_violations (cs : list fail_case) : list N := idx_filter (fun c => negb (lstate_eqb (f_pre c) (f_post c))) 0 cs.
Definition fail_mismatches := fail_violations.

(* ---- chain-level cases: a scan after every committed block of a generated chain (all message kinds, rewards, slashes) *)
Record scan_case := mkScan { sc_prev_total : N; sc_mint_bound : N; sc_state : lstate }.
Definition scan_ok (c : scan_case) : bool :=
  conservation_ok (sc_state c) && staking_ok (sc_state c) && escrow_ok (sc_state c) &&
  (* the total may grow at most by the scheduled mint plus DAO mints of the block (bound supplied by the harness) *)
  (s_total (l_supply (sc_state c)) <=? sc_prev_total c + sc_mint_bound c).
Definition scan_violations (cs : list scan_case) : list N := idx_filter (fun c => negb (scan_ok c)) 0 cs.
Definition scan_mismatches := scan_violations.

(* ---- the same observations, judged per property (the checks of C04 / C07 / C12 / C20 share the harness) *)
Definition sel (p : N) (c04 c07 c12 c20 : bool) : bool :=
  if p =? 4 then c04 else if p =? 7 then c07 else if p =? 12 then c12 else if p =? 20 then c20 else c04 && c07 && c12 && c20.
Definition tx_ok_for (p : N) (c : tx_case) : bool :=
  sel p
    ((negb (conservation_ok (t_pre c)) || conservation_ok (t_post c)) &&
     (if t_ok c then match t_msg c with
                     | MDaoTransfer _ x true => s_total (l_supply (t_post c)) =? s_total (l_supply (t_pre c)) + x
                     | _ => s_total (l_supply (t_post c)) =? s_total (l_supply (t_pre c))
                     end
      else true))
    (if t_ok c then true else lstate_eqb (t_pre c) (t_post c))
    (negb (staking_ok (t_pre c)) || staking_ok (t_post c))
    (negb (escrow_ok (t_pre c)) || escrow_ok (t_post c)).
Definition tx_violations_for (p : N) (cs : list tx_case) : list N := idx_filter (fun c => negb (tx_ok_for p c)) 0 cs.
Definition fail_violations_for (p : N) (cs : list fail_case) : list N :=
  if p =? 7 then fail_violations cs else [].
Definition scan_ok_for (p : N) (c : scan_case) : bool :=
  sel p
    (conservation_ok (sc_state c) && (s_total (l_supply (sc_state c)) <=? sc_prev_total c + sc_mint_bound c))
    true
    (staking_ok (sc_state c))
    (escrow_ok (sc_state c)).
Definition scan_violations_for (p : N) (cs : list scan_case) : list N := idx_filter (fun c => negb (scan_ok_for p c)) 0 cs.

(* ---- slash cases: the real SlashValidator on a scanned state (protocol v2: committee-scoped, capped per block) *)
Record sl_case := mkSl { sl_pre : lstate; sl_addr : N; sl_chain : N; sl_percent : N; sl_already : N; sl_err : bool; sl_post : lstate }.
Definition sl_agrees (c : sl_case) : bool :=
  match slash_validator (sl_addr c) (sl_chain c) (sl_percent c) (sl_already c) (sl_pre c) with
  | LOk post => negb (sl_err c) && lstate_eqb post (sl_post c)
  | LErr => sl_err c
  end.
Definition sl_mismatches (cs : list sl_case) : list N := idx_filter (fun c => negb (sl_agrees c)) 0 cs.
Definition sl_ok_for (p : N) (c : sl_case) : bool :=
  sel p
    ((negb (conservation_ok (sl_pre c)) || conservation_ok (sl_post c)) &&
     (s_total (l_supply (sl_post c)) <=? s_total (l_supply (sl_pre c))))
    true
    (* a slash of a committee member keeps the staking records consistent and never fails (C12) *)
    ((negb (staking_ok (sl_pre c)) || staking_ok (sl_post c)) && negb (sl_err c))
    (negb (escrow_ok (sl_pre c)) || escrow_ok (sl_post c)).
Definition sl_violations_for (p : N) (cs : list sl_case) : list N := idx_filter (fun c => negb (sl_ok_for p c)) 0 cs.
