(* Cert.v — the finality gate (property C02): the decision logic of admitting a peer block.
   mirrors (non-sync path): controller/block.go:HandlePeerBlock -> lib/certificate.go:QuorumCertificate.CheckBasic ->
            Check (View.Check, block size, AggregateSignature.Check: bitmap, aggregate validity, signed power vs the
            threshold) -> isPartialQC -> CheckProposalBasic (block decode/Check, height binding, hash binding, results) ->
            phase test -> CommitCertificate -> ApplyAndValidateBlock (the state-machine part is abstracted as [b_applies]).
   Symbolic BLS: an aggregate signature IS the list of (committee index, payload) pairs that were individually signed; it
   verifies under a bitmap iff it is exactly the enabled signers each signing the certificate's own payload.  The payload of
   a certificate is what QuorumCertificate.SignBytes covers: the whole view, block hash, results hash and proposer key
   (for ELECTION_VOTE certificates: only view and proposer key) — injectivity of the byte encoding is C19's subject. *)
From Coq Require Import NArith List Bool.
From V Require Import U64 Extracted.
Import ListNotations.
Local Open Scope N_scope.

Record view := mkView { v_net : N; v_chain : N; v_height : N; v_root : N; v_round : N; v_phase : N }.
Record payload := mkPayload { p_view : view; p_block_hash : N; p_results_hash : N; p_proposer : N }.

Definition view_eqb (a b : view) : bool :=
  (v_net a =? v_net b) && (v_chain a =? v_chain b) && (v_height a =? v_height b) && (v_root a =? v_root b) &&
  (v_round a =? v_round b) && (v_phase a =? v_phase b).
Definition payload_eqb (a b : payload) : bool :=
  view_eqb (p_view a) (p_view b) && (p_block_hash a =? p_block_hash b) && (p_results_hash a =? p_results_hash b) &&
  (p_proposer a =? p_proposer b).

(* the attached block as the checks see it *)
Record blockdesc := mkBlock {
  b_bytes_hash : N;          (* hash computed from the block bytes (BytesToBlockHash) *)
  b_header_hash : N;         (* hash of the decoded header (Block.Hash) *)
  b_height : N; b_net : N;
  b_wellformed : bool;       (* Block.Check: field sizes, time, last certificate basics *)
  b_txs_size : N;
  b_applies : bool }.        (* the state machine reproduces exactly this header and results (C03/C11's subject) *)

Record cert := mkCert {
  c_view : view; c_block_hash : N; c_results_hash : N; c_proposer : N;
  c_hash_sizes_ok : bool;                    (* block / results hash are 32 bytes, signature 96 bytes, bitmap non-empty *)
  c_results : option N;                      (* hash of the attached results, None = no results attached *)
  c_block : option blockdesc;
  c_bitmap_len_ok : bool;                    (* bitmap has exactly ceil(n/8) bytes *)
  c_bitmap : list bool;                      (* all bits of the bitmap, padding included *)
  c_sigs : list (nat * payload) }.           (* the individual signatures inside the aggregate *)

Definition sign_payload (c : cert) : payload :=
  if v_phase (c_view c) =? Phase_ELECTION_VOTE
  then mkPayload (c_view c) 0 0 (c_proposer c)
  else mkPayload (c_view c) (c_block_hash c) (c_results_hash c) (c_proposer c).

(* committee: voting power per index, total and threshold (from C13) *)
Record committee := mkCommittee { cm_power : list N; cm_total : N; cm_maj23 : N }.

Fixpoint enabled_from (i : nat) (n : nat) (bits : list bool) : list nat :=
  match n with
  | O => []
  | S n' => match bits with
            | [] => []
            | b :: r => if b then i :: enabled_from (S i) n' r else enabled_from (S i) n' r
            end
  end.
(* the signer set named by the bitmap: bits at index >= n (padding) are ignored *)
Definition signers (cm : committee) (c : cert) : list nat := enabled_from 0 (length (cm_power cm)) (c_bitmap c).
Definition signed_power (cm : committee) (c : cert) : N :=
  fold_left (fun acc i => add64 acc (nth i (cm_power cm) 0)) (signers cm c) 0.

Fixpoint sig_list_eqb (a : list (nat * payload)) (b : list (nat * payload)) : bool :=
  match a, b with
  | [], [] => true
  | (i, p) :: a', (j, q) :: b' => Nat.eqb i j && payload_eqb p q && sig_list_eqb a' b'
  | _, _ => false
  end.
(* BLS aggregate verification, ideal: the aggregate is exactly one signature per enabled signer over this certificate's
   payload (the harness lists individual signatures in ascending index order) *)
Definition aggregate_valid (cm : committee) (c : cert) : bool :=
  sig_list_eqb (c_sigs c) (map (fun i => (i, sign_payload c)) (signers cm c)).

(* n_last_root: CommitteeData.LastRootHeightUpdated of the node's own chain - the root height of the last certificate its state has
   processed; a certificate naming an older root height selects a 'historical committee' *)
Record nodecfg := mkCfg { n_net : N; n_chain : N; n_height : N; n_max_block : N; n_last_root : N }.

Inductive verdict := Commit | Reject.

Definition handle_peer_block (cfg : nodecfg) (cm : committee) (c : cert) : verdict :=
  (* CheckBasic *)
  if negb (c_hash_sizes_ok c) then Reject else
  if (match c_results c with Some h => negb (h =? c_results_hash c) | None => false end) then Reject else
  if (match c_block c with Some b => negb (b_bytes_hash b =? c_block_hash c) | None => false end) then Reject else
  (* Check: view (no heights enforced), block size, aggregate signature *)
  if negb ((v_net (c_view c) =? n_net cfg) && (v_chain (c_view c) =? n_chain cfg)) then Reject else
  if (match c_block c with Some b => n_max_block cfg <? b_txs_size b | None => false end) then Reject else
  if negb (c_bitmap_len_ok c) then Reject else
  if negb (aggregate_valid cm c) then Reject else
  if signed_power cm c <? cm_maj23 cm then Reject else                     (* partial certificate: ErrNoMaj23 *)
  (* CheckProposalBasic *)
  match c_block c with
  | None => Reject
  | Some b =>
    if negb (b_wellformed b && (b_net b =? n_net cfg)) then Reject else
    if negb (v_height (c_view c) =? b_height b) then Reject else
    if negb (b_height b =? n_height cfg) then Reject else                  (* below: stale; above: ErrNewHeight *)
    if negb (b_header_hash b =? c_block_hash c) then Reject else
    match c_results c with
    | None => Reject
    | Some _ =>
      if negb (v_phase (c_view c) =? Phase_PRECOMMIT_VOTE) then Reject else
      if b_applies b then
        (* the root height named by the certificate is not older than the one the node's state last recorded (HandlePeerBlock tests
           this before it loads the committee; the verdict does not depend on the order of the tests) *)
        (if v_root (c_view c) <? n_last_root cfg then Reject else Commit)
      else Reject
    end
  end.

(* ---- correspondence cases *)
Record c02_case := mkC02 { k_cfg : nodecfg; k_cm : committee; k_cert : cert; k_committed : bool (* observed: version advanced *) }.
Definition c02_agrees (k : c02_case) : bool :=
  Bool.eqb (match handle_peer_block (k_cfg k) (k_cm k) (k_cert k) with Commit => true | Reject => false end) (k_committed k).
Fixpoint idx_filter {A} (bad : A -> bool) (i : N) (l : list A) : list N :=
  match l with
  | [] => []
  | x :: r => if bad x then i :: idx_filter bad (i + 1) r else idx_filter bad (i + 1) r
  end.
Definition c02_mismatches (cs : list c02_case) : list N := idx_filter (fun k => negb (c02_agrees k)) 0 cs.

(* the property read off the ground truth of a case alone: IF the node committed THEN the certificate names this block and
   results for this network, chain and height, is in the commit-justifying phase, and the committee members that REALLY
   signed exactly this payload hold at least floor(2T/3)+1 of the voting power (padding bits and bits of members that did
   not sign this payload count for nothing) *)
Definition really_signed_power (cm : committee) (c : cert) : N :=
  fold_left (fun acc e => if payload_eqb (snd e) (sign_payload c) && Nat.ltb (fst e) (length (cm_power cm))
                          then acc + nth (fst e) (cm_power cm) 0 else acc) (c_sigs c) 0.
Definition c02_ok (k : c02_case) : bool :=
  if k_committed k then
    let c := k_cert k in let cfg := k_cfg k in
    match c_block c, c_results c with
    | Some b, Some rh =>
      (b_header_hash b =? c_block_hash c) && (rh =? c_results_hash c) &&
      (v_net (c_view c) =? n_net cfg) && (v_chain (c_view c) =? n_chain cfg) && (v_height (c_view c) =? n_height cfg) &&
      (b_height b =? n_height cfg) && (v_phase (c_view c) =? Phase_PRECOMMIT_VOTE) &&
      (2 * cm_total (k_cm k) / 3 + 1 <=? really_signed_power (k_cm k) c)
    | _, _ => false
    end
  else true.
Definition c02_violations (cs : list c02_case) : list N := idx_filter (fun k => negb (c02_ok k)) 0 cs.
