(* BftCheck.v — correspondence cases for Bft.v / BftNet.v: a schedule executed on real bft.BFT replicas (harness/bftsim), with the
   observable state of the acting replica after every action, replayed on the model. *)
From Coq Require Import NArith List Bool.
From V Require Import U64 Extracted Bft BftNet.
Import ListNotations.
Local Open Scope N_scope.

(* what the harness reads off the real replica after an action *)
Record obs := mkObs {
  ob_root : N; ob_round : N; ob_phase : N;
  ob_lock : option (view * N * N);          (* HighQC: header, block hash id, results hash id *)
  ob_blk : N; ob_bhc : N; ob_res : N;       (* Block, BlockHash (cache), Results as hash ids, 0 = nil *)
  ob_proposer : option N;
  ob_commit : option (N * N);
  ob_votes : list (N * N * N * N) }.        (* votes sent during the action: (phase, block, results, proposer) *)

Definition view_eqb (a b : view) : bool := (vw_root a =? vw_root b) && (vw_round a =? vw_round b) && (vw_phase a =? vw_phase b).
Definition optN_eqb (a b : option N) : bool := match a, b with Some x, Some y => x =? y | None, None => true | _, _ => false end.
Definition pair_eqb (a b : N * N) : bool := (fst a =? fst b) && (snd a =? snd b).
Definition optP_eqb (a b : option (N * N)) : bool := match a, b with Some x, Some y => pair_eqb x y | None, None => true | _, _ => false end.
Definition lock_eqb (a : option qc) (b : option (view * N * N)) : bool :=
  match a, b with
  | Some q, Some (v, bl, rs) => view_eqb (q_view q) v && (q_block q =? bl) && (q_results q =? rs)
  | None, None => true
  | _, _ => false
  end.
Fixpoint votes_eqb (a b : list (N * N * N * N)) : bool :=
  match a, b with
  | [], [] => true
  | (p, bl, rs, pr) :: a', (p', bl', rs', pr') :: b' => (p =? p') && (bl =? bl') && (rs =? rs') && (pr =? pr') && votes_eqb a' b'
  | _, _ => false
  end.
Definition out_votes (outs : list out) : list (N * N * N * N) :=
  flat_map (fun o => match o with OVote ph _ _ b s pr _ => [(ph, b, s, pr)] | _ => [] end) outs.

Definition obs_agrees (r : rstate) (outs : list out) (o : obs) : bool :=
  (r_root r =? ob_root o) && (r_round r =? ob_round o) && (r_phase r =? ob_phase o) &&
  lock_eqb (r_lock r) (ob_lock o) && (r_blk r =? ob_blk o) && (r_bhc r =? ob_bhc o) && (r_res r =? ob_res o) &&
  optN_eqb (r_proposer r) (ob_proposer o) && optP_eqb (r_commit r) (ob_commit o) && votes_eqb (out_votes outs) (ob_votes o).

Record bft_case := mkBC {
  bc_powers : list N; bc_lru : N;
  bc_init : list (N * rstate);             (* the correct replicas as the harness created them *)
  bc_trace : list (action * obs) }.

(* replay: the index of the first action after which model and implementation differ (None = they agree throughout) *)
Definition act_on (powers : list N) (lru : N) (n : net) (a : action) : net * list out * N :=
  match a with
  | AStep i o => match get_rep n i with
                 | Some r => let '(r', outs) := step (conf_of powers lru i) r o in (mkNet (set_rep n i r') (votes_of i outs ++ n_votes n), outs, i)
                 | None => (n, [], i)
                 end
  | ALeader i _ | AVote i _ | ARoot i _ => (net_step powers lru n a, [], i)
  end.
Fixpoint replay (powers : list N) (lru : N) (n : net) (tr : list (action * obs)) (k : N) : option N :=
  match tr with
  | [] => None
  | (a, o) :: rest =>
    let '(n', outs, i) := act_on powers lru n a in
    match get_rep n' i with
    | Some r => if obs_agrees r outs o then replay powers lru n' rest (k + 1) else Some k
    | None => Some k
    end
  end.
Definition case_agrees (c : bft_case) : bool :=
  match replay (bc_powers c) (bc_lru c) (mkNet (bc_init c) []) (bc_trace c) 0 with None => true | Some _ => false end.
Fixpoint idxb {A} (bad : A -> bool) (i : N) (l : list A) : list N :=
  match l with [] => [] | x :: r => if bad x then i :: idxb bad (i + 1) r else idxb bad (i + 1) r end.
Definition bft_mismatches (cs : list bft_case) : list N := idxb (fun c => negb (case_agrees c)) 0 cs.
(* for diagnosis: where each case first diverges *)
Definition bft_first_divergence (cs : list bft_case) : list (option N) :=
  map (fun c => replay (bc_powers c) (bc_lru c) (mkNet (bc_init c) []) (bc_trace c) 0) cs.

(* the property predicate on the observations alone: all commits observed on correct replicas agree *)
Definition observed_commits (c : bft_case) : list (N * N) :=
  flat_map (fun e => match ob_commit (snd e) with Some v => [v] | None => [] end) (bc_trace c).
Definition agree_ok (c : bft_case) : bool :=
  match observed_commits c with
  | [] => true
  | v :: r => forallb (pair_eqb v) r
  end.
Definition bft_violations (cs : list bft_case) : list N := idxb (fun c => negb (agree_ok c)) 0 cs.
