(* Committee.v — executable model of committee / delegate-set derivation (property C13).
   mirrors: fsm/validator.go:getValidatorSet, fsm/validator.go:Validator.PassesFilter,
            lib/consensus.go:NewValidatorSet (count, total power, threshold; key decoding is outside the model:
            the harness only generates decodable keys and says so in its evidence).
   Addresses are fixed-width 20-byte strings in the state (KeyForValidator); bytes.Compare on equal-length
   strings is the order of their big-endian value, so an address is an N here. *)
From Coq Require Import NArith List Bool.
From V Require Import U64 Extracted.
Import ListNotations.
Local Open Scope N_scope.

Record validator := mkVal {
  v_addr : N; v_stake : N; v_committees : list N;
  v_paused : N; v_unstaking : N; v_delegate : bool }.

(* PassesFilter{Unstaking: Exclude, Paused: Exclude, Delegate: Exclude|MustBe, Committee: chain} *)
Definition passes (chain : N) (delegate : bool) (v : validator) : bool :=
  (v_unstaking v =? 0) && (v_paused v =? 0) && Bool.eqb (v_delegate v) delegate &&
  ((chain =? 0) || existsb (N.eqb chain) (v_committees v)).

(* slices.SortFunc comparator: cmp.Compare(b.Stake, a.Stake), then bytes.Compare(b.Address, a.Address);
   [before a b = true] iff the comparator is negative, i.e. a is placed before b. *)
Definition before (a b : validator) : bool :=
  (v_stake b <? v_stake a) || ((v_stake a =? v_stake b) && (v_addr b <? v_addr a)).

Fixpoint insert (v : validator) (l : list validator) : list validator :=
  match l with
  | [] => [v]
  | x :: xs => if before x v then x :: insert v xs else v :: l
  end.
Definition sort (l : list validator) : list validator := fold_right insert [] l.

(* limit := len(filtered); if max > 0 { limit = min(len(filtered), max) } *)
Definition limit (cap : N) (n : nat) : nat :=
  if (cap =? 0) || (N.of_nat n <=? cap) then n else N.to_nat cap.

Record vset := mkVset { members : list (N * N); total : N; maj23 : N; num : N }.

Definition sum_power (ms : list validator) : N :=
  fold_left (fun acc v => add64 acc (v_stake v)) ms 0.

Definition committee_list (cap chain : N) (delegate : bool) (vals : list validator) : list validator :=
  let sorted := sort (filter (passes chain delegate) vals) in
  firstn (limit cap (length sorted)) sorted.

Definition get_validator_set (cap chain : N) (delegate : bool) (vals : list validator) : option vset :=
  let ms := committee_list cap chain delegate vals in
  let t := sum_power ms in
  if t =? 0 then None
  else Some (mkVset (map (fun v => (v_addr v, v_stake v)) ms) t (minimumMaj23 t) (N.of_nat (length ms))).

(* ---- the property's own reading of "the committee", independent of the generated threshold expression and of
   machine arithmetic: exact sum, threshold floor(2T/3)+1 written out.  [c13_ok] below is the decidable predicate
   the violation search evaluates on implementation observations. *)
Definition sum_exact (ms : list validator) : N := fold_right (fun v acc => v_stake v + acc) 0 ms.
Definition spec_validator_set (cap chain : N) (delegate : bool) (vals : list validator) : option vset :=
  let ms := committee_list cap chain delegate vals in
  let t := sum_exact ms in
  if t =? 0 then None
  else Some (mkVset (map (fun v => (v_addr v, v_stake v)) ms) t (2 * t / 3 + 1) (N.of_nat (length ms))).

(* ---- observation comparison used by the correspondence check (cases.v) ---- *)
Definition pair_eqb (a b : N * N) : bool := (fst a =? fst b) && (snd a =? snd b).
Fixpoint list_eqb {A} (eqb : A -> A -> bool) (l1 l2 : list A) : bool :=
  match l1, l2 with
  | [], [] => true
  | x :: xs, y :: ys => eqb x y && list_eqb eqb xs ys
  | _, _ => false
  end.
Definition vset_eqb (a b : vset) : bool :=
  list_eqb pair_eqb (members a) (members b) && (total a =? total b) && (maj23 a =? maj23 b) && (num a =? num b).
Definition ovset_eqb (a b : option vset) : bool :=
  match a, b with
  | None, None => true
  | Some x, Some y => vset_eqb x y
  | _, _ => false
  end.

Record c13_case := mkC13 {
  c_cap : N; c_chain : N; c_delegate : bool; c_vals : list validator; c_obs : option vset }.

Definition c13_agrees (c : c13_case) : bool :=
  ovset_eqb (get_validator_set (c_cap c) (c_chain c) (c_delegate c) (c_vals c)) (c_obs c).

Definition c13_ok (c : c13_case) : bool :=
  ovset_eqb (spec_validator_set (c_cap c) (c_chain c) (c_delegate c) (c_vals c)) (c_obs c).

Fixpoint failing_from (ok : c13_case -> bool) (i : N) (cs : list c13_case) : list N :=
  match cs with
  | [] => []
  | c :: r => if ok c then failing_from ok (i + 1) r else i :: failing_from ok (i + 1) r
  end.
Definition violations := failing_from c13_ok 0.

Fixpoint mismatches_from (i : N) (cs : list c13_case) : list N :=
  match cs with
  | [] => []
  | c :: r => if c13_agrees c then mismatches_from (i + 1) r else i :: mismatches_from (i + 1) r
  end.
Definition mismatches := mismatches_from 0.
