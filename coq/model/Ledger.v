(* Ledger.v — the token ledger and staking bookkeeping of the state machine (properties C04, C07, C12; used by C05, C14, C20).
   mirrors: fsm/account.go (AccountAdd/Sub, AccountDeductFees, PoolAdd/Sub, MintToPool/MintToAccount, supply tallies and
            per-committee supply pools), fsm/validator.go (SetValidator, UpdateValidatorStake, DeleteValidator,
            SetValidatorUnstaking/Paused/Unpaused, SetValidatorUnstakingIfBelowMinimum, DeleteFinishedUnstaking,
            ForceUnstakeValidator), fsm/committee.go (Set/Delete/UpdateCommittees and Delegations), fsm/byzantine.go
            (SlashValidator), fsm/message.go handlers: Send, Stake, EditStake, Unstake, Pause, Unpause, Subsidy, DAOTransfer,
            CreateOrder, EditOrder, DeleteOrder; fsm/automatic.go (ForceUnstakeMaxPaused, DeleteFinishedUnstaking).
   Arithmetic: checked Go operations return LErr, unchecked ones are add64/sub64 (PoolAdd, AddToTotalSupply,
   UpdateValidatorStake's new stake).  Accounts/pools with amount 0 are absent (SetAccount/SetPool delete them).
   NOT modelled (the generator does not produce them in tx-level cases, the chain-level predicate still covers them): vesting,
   nonces, plugin messages, certificate-results messages, DEX messages, parameter changes. *)
From Coq Require Import NArith List Bool.
From V Require Import U64 Extracted.
Import ListNotations.
Local Open Scope N_scope.

(* ---- finite maps from N as sorted association lists without default-valued entries *)
Section AMap.
  Context {A : Type}.
  Fixpoint aget (k : N) (m : list (N * A)) : option A :=
    match m with [] => None | (k', v) :: r => if k =? k' then Some v else aget k r end.
  Fixpoint aput (k : N) (v : A) (m : list (N * A)) : list (N * A) :=
    match m with
    | [] => [(k, v)]
    | (k', v') :: r => if k =? k' then (k, v) :: r else if k <? k' then (k, v) :: m else (k', v') :: aput k v r
    end.
  Fixpoint adel (k : N) (m : list (N * A)) : list (N * A) :=
    match m with [] => [] | (k', v') :: r => if k =? k' then r else (k', v') :: adel k r end.
End AMap.
Definition nget (k : N) (m : list (N * N)) : N := match aget k m with Some v => v | None => 0 end.
Definition nput (k v : N) (m : list (N * N)) : list (N * N) := if v =? 0 then adel k m else aput k v m.

Record validator := mkVal {
  v_stake : N; v_output : N; v_committees : list N; v_paused : N; v_unstaking : N; v_delegate : bool; v_compound : bool }.
Record supply := mkSupply { s_total : N; s_staked : N; s_delegated : N; s_cstaked : list (N * N); s_cdelegated : list (N * N) }.
Record params := mkParams {
  p_unstaking_blocks : N; p_delegate_unstaking_blocks : N; p_max_pause_blocks : N;
  p_min_stake_validators : N; p_min_stake_delegates : N; p_min_order_size : N; p_max_slash_per_committee : N }.
Record order := mkOrder { o_chain : N; o_amount : N; o_seller : N; o_locked : bool }.

Record lstate := mkL {
  l_accounts : list (N * N); l_pools : list (N * N); l_vals : list (N * validator); l_supply : supply;
  l_unstaking : list (N * N);           (* markers (height, address), sorted *)
  l_paused : list (N * N);              (* markers (max paused height, address), sorted *)
  l_orders : list (N * order);          (* sell orders by id *)
  l_params : params; l_height : N; l_chain : N }.

Inductive res (A : Type) := LOk (a : A) | LErr.
Arguments LOk {A} _. Arguments LErr {A}.
Definition bind {A B} (r : res A) (f : A -> res B) : res B := match r with LOk a => f a | LErr => LErr end.
Notation "x <- r ;; k" := (bind r (fun x => k)) (at level 61, r at next level, right associativity).

(* ---- setters *)
Definition set_accounts a s := mkL a (l_pools s) (l_vals s) (l_supply s) (l_unstaking s) (l_paused s) (l_orders s) (l_params s) (l_height s) (l_chain s).
Definition set_pools p s := mkL (l_accounts s) p (l_vals s) (l_supply s) (l_unstaking s) (l_paused s) (l_orders s) (l_params s) (l_height s) (l_chain s).
Definition set_vals v s := mkL (l_accounts s) (l_pools s) v (l_supply s) (l_unstaking s) (l_paused s) (l_orders s) (l_params s) (l_height s) (l_chain s).
Definition set_supply u s := mkL (l_accounts s) (l_pools s) (l_vals s) u (l_unstaking s) (l_paused s) (l_orders s) (l_params s) (l_height s) (l_chain s).
Definition set_unstaking u s := mkL (l_accounts s) (l_pools s) (l_vals s) (l_supply s) u (l_paused s) (l_orders s) (l_params s) (l_height s) (l_chain s).
Definition set_paused u s := mkL (l_accounts s) (l_pools s) (l_vals s) (l_supply s) (l_unstaking s) u (l_orders s) (l_params s) (l_height s) (l_chain s).
Definition set_orders o s := mkL (l_accounts s) (l_pools s) (l_vals s) (l_supply s) (l_unstaking s) (l_paused s) o (l_params s) (l_height s) (l_chain s).

(* ---- primitives *)
Definition account_add (a x : N) (s : lstate) : res lstate :=
  if x =? 0 then LOk s else
  let b := nget a (l_accounts s) in
  if two64 <=? b + x then LErr else LOk (set_accounts (nput a (b + x) (l_accounts s)) s).
Definition account_sub (a x : N) (s : lstate) : res lstate :=
  if x =? 0 then LOk s else
  let b := nget a (l_accounts s) in
  if b <? x then LErr else LOk (set_accounts (nput a (b - x) (l_accounts s)) s).
Definition pool_add (id x : N) (s : lstate) : res lstate :=                       (* unchecked in the code *)
  LOk (set_pools (nput id (add64 (nget id (l_pools s)) x) (l_pools s)) s).
Definition pool_sub (id x : N) (s : lstate) : res lstate :=
  let b := nget id (l_pools s) in
  if b <? x then LErr else LOk (set_pools (nput id (b - x) (l_pools s)) s).
Definition upd_supply (f : supply -> res supply) (s : lstate) : res lstate :=
  u <- f (l_supply s) ;; LOk (set_supply u s).
Definition add_total (x : N) := upd_supply (fun u => LOk (mkSupply (add64 (s_total u) x) (s_staked u) (s_delegated u) (s_cstaked u) (s_cdelegated u))).
Definition sub_total (x : N) := upd_supply (fun u => if s_total u <? x then LErr else LOk (mkSupply (s_total u - x) (s_staked u) (s_delegated u) (s_cstaked u) (s_cdelegated u))).
Definition add_staked (x : N) := upd_supply (fun u => if two64 <=? s_staked u + x then LErr else LOk (mkSupply (s_total u) (s_staked u + x) (s_delegated u) (s_cstaked u) (s_cdelegated u))).
Definition sub_staked (x : N) := upd_supply (fun u => if s_staked u <? x then LErr else LOk (mkSupply (s_total u) (s_staked u - x) (s_delegated u) (s_cstaked u) (s_cdelegated u))).
Definition add_delegated (x : N) := upd_supply (fun u => if two64 <=? s_delegated u + x then LErr else LOk (mkSupply (s_total u) (s_staked u) (s_delegated u + x) (s_cstaked u) (s_cdelegated u))).
Definition sub_delegated (x : N) := upd_supply (fun u => if s_delegated u <? x then LErr else LOk (mkSupply (s_total u) (s_staked u) (s_delegated u - x) (s_cstaked u) (s_cdelegated u))).
Definition add_cstaked (c x : N) := upd_supply (fun u => let b := nget c (s_cstaked u) in
  if two64 <=? b + x then LErr else LOk (mkSupply (s_total u) (s_staked u) (s_delegated u) (nput c (b + x) (s_cstaked u)) (s_cdelegated u))).
Definition sub_cstaked (c x : N) := upd_supply (fun u => let b := nget c (s_cstaked u) in
  if b <? x then LErr else LOk (mkSupply (s_total u) (s_staked u) (s_delegated u) (nput c (b - x) (s_cstaked u)) (s_cdelegated u))).
Definition add_cdelegated (c x : N) := upd_supply (fun u => let b := nget c (s_cdelegated u) in
  if two64 <=? b + x then LErr else LOk (mkSupply (s_total u) (s_staked u) (s_delegated u) (s_cstaked u) (nput c (b + x) (s_cdelegated u)))).
Definition sub_cdelegated (c x : N) := upd_supply (fun u => let b := nget c (s_cdelegated u) in
  if b <? x then LErr else LOk (mkSupply (s_total u) (s_staked u) (s_delegated u) (s_cstaked u) (nput c (b - x) (s_cdelegated u)))).
Definition mint_to_pool (id x : N) (s : lstate) : res lstate := s1 <- add_total x s ;; pool_add id x s1.

Fixpoint each (f : N -> lstate -> res lstate) (l : list N) (s : lstate) : res lstate :=
  match l with [] => LOk s | c :: r => s1 <- f c s ;; each f r s1 end.
Definition set_committees (stake : N) (cs : list N) := each (fun c => add_cstaked c stake) cs.
Definition delete_committees (stake : N) (cs : list N) := each (fun c => sub_cstaked c stake) cs.
Definition set_delegations (stake : N) (cs : list N) := each (fun c s => s1 <- add_cdelegated c stake s ;; add_cstaked c stake s1) cs.
Definition delete_delegations (stake : N) (cs : list N) := each (fun c s => s1 <- sub_cdelegated c stake s ;; sub_cstaked c stake s1) cs.

Definition put_val (a : N) (v : validator) (s : lstate) : lstate := set_vals (aput a v (l_vals s)) s.
Definition marker_add (h a : N) (m : list (N * N)) : list (N * N) :=
  if existsb (fun e => (fst e =? h) && (snd e =? a)) m then m else
  (fix ins (l : list (N * N)) := match l with
     | [] => [(h, a)]
     | (h', a') :: r => if (h <? h') || ((h =? h') && (a <? a')) then (h, a) :: l else (h', a') :: ins r
     end) m.
Definition marker_del (h a : N) (m : list (N * N)) : list (N * N) := filter (fun e => negb ((fst e =? h) && (snd e =? a))) m.

(* UpdateValidatorStake *)
Definition update_validator_stake (a : N) (v : validator) (new_committees : list N) (add : N) (s : lstate) : res lstate :=
  s1 <- add_staked add s ;;
  let new_stake := add64 (v_stake v) add in
  s2 <- (if v_delegate v
         then (s' <- add_delegated add s1 ;; s'' <- delete_delegations (v_stake v) (v_committees v) s' ;; set_delegations new_stake new_committees s'')
         else (s' <- delete_committees (v_stake v) (v_committees v) s1 ;; set_committees new_stake new_committees s')) ;;
  LOk (put_val a (mkVal new_stake (v_output v) new_committees (v_paused v) (v_unstaking v) (v_delegate v) (v_compound v)) s2).

(* DeleteValidator (as in the repository AFTER the fix: commit of this task: the unstaking / paused markers go with it) *)
Definition delete_validator (a : N) (v : validator) (s : lstate) : res lstate :=
  s1 <- sub_staked (v_stake v) s ;;
  s2 <- (if v_delegate v
         then (s' <- sub_delegated (v_stake v) s1 ;; delete_delegations (v_stake v) (v_committees v) s')
         else delete_committees (v_stake v) (v_committees v) s1) ;;
  let s3 := set_vals (adel a (l_vals s2)) s2 in
  let s4 := if v_unstaking v =? 0 then s3 else set_unstaking (marker_del (v_unstaking v) a (l_unstaking s3)) s3 in
  LOk (if v_paused v =? 0 then s4 else set_paused (marker_del (v_paused v) a (l_paused s4)) s4).

Definition set_unpaused (a : N) (v : validator) (s : lstate) : lstate * validator :=
  let s1 := set_paused (marker_del (v_paused v) a (l_paused s)) s in
  let v' := mkVal (v_stake v) (v_output v) (v_committees v) 0 (v_unstaking v) (v_delegate v) (v_compound v) in
  (put_val a v' s1, v').
Definition set_unstaking_val (a : N) (v : validator) (h : N) (s : lstate) : lstate :=
  let s1 := set_unstaking (marker_add h a (l_unstaking s)) s in
  let '(s2, v2) := if v_paused v =? 0 then (s1, v) else set_unpaused a v s1 in
  put_val a (mkVal (v_stake v2) (v_output v2) (v_committees v2) (v_paused v2) h (v_delegate v2) (v_compound v2)) s2.
Definition set_paused_val (a : N) (v : validator) (h : N) (s : lstate) : lstate :=
  let s1 := set_paused (marker_add h a (l_paused s)) s in
  put_val a (mkVal (v_stake v) (v_output v) (v_committees v) h (v_unstaking v) (v_delegate v) (v_compound v)) s1.

(* ---- messages (after CheckTx: the signer is authorised and already substituted where the code does so) *)
Inductive lmsg :=
| MSend (from to amount : N)
| MStake (addr signer output amount : N) (committees : list N) (delegate compound : bool)
| MEditStake (addr signer output amount : N) (committees : list N) (compound : bool)
| MUnstake (addr : N) | MPause (addr : N) | MUnpause (addr : N)
| MSubsidy (from chain amount : N)
| MDaoTransfer (to amount : N) (mint : bool)
| MCreateOrder (id seller chain amount : N)
| MEditOrder (id chain amount : N)
| MDeleteOrder (id chain : N).

Definition DAOPool : N := 131071.          (* lib.DAOPoolID = 2*MaxUint16+1; checked against the scan by the harness *)

Definition handle (m : lmsg) (s : lstate) : res lstate :=
  let p := l_params s in
  match m with
  | MSend from to x => s1 <- account_sub from x s ;; account_add to x s1
  | MStake a signer output x cs dlg cmp =>
    match aget a (l_vals s) with
    | Some _ => LErr
    | None =>
      if x <? (if dlg then p_min_stake_delegates p else p_min_stake_validators p) then LErr else
      s1 <- account_sub signer x s ;;
      s2 <- add_staked x s1 ;;
      s3 <- (if dlg then (s' <- add_delegated x s2 ;; set_delegations x cs s') else set_committees x cs s2) ;;
      LOk (put_val a (mkVal x output cs 0 0 dlg cmp) s3)
    end
  | MEditStake a signer output x cs cmp =>
    match aget a (l_vals s) with
    | None => LErr
    | Some v =>
      if negb (v_unstaking v =? 0) then LErr else
      if negb (v_output v =? output) && negb (v_output v =? signer) then LErr else
      let add := if x <=? v_stake v then 0 else x - v_stake v in
      s1 <- account_sub signer add s ;;
      update_validator_stake a (mkVal (v_stake v) output (v_committees v) (v_paused v) (v_unstaking v) (v_delegate v) cmp) cs add s1
    end
  | MUnstake a =>
    match aget a (l_vals s) with
    | None => LErr
    | Some v =>
      if negb (v_unstaking v =? 0) then LErr else
      let blocks := if v_delegate v then p_delegate_unstaking_blocks p else p_unstaking_blocks p in
      LOk (set_unstaking_val a v (add64 (l_height s) blocks) s)
    end
  | MPause a =>
    match aget a (l_vals s) with
    | None => LErr
    | Some v =>
      if negb (v_paused v =? 0) || negb (v_unstaking v =? 0) || v_delegate v then LErr
      else LOk (set_paused_val a v (add64 (l_height s) (p_max_pause_blocks p)) s)
    end
  | MUnpause a =>
    match aget a (l_vals s) with
    | None => LErr
    | Some v =>
      if (v_paused v =? 0) || negb (v_unstaking v =? 0) || v_delegate v then LErr
      else LOk (fst (set_unpaused a v s))
    end
  | MSubsidy from chain x => s1 <- account_sub from x s ;; pool_add chain x s1
  | MDaoTransfer to x mint =>
    s1 <- (if mint then mint_to_pool DAOPool x s else LOk s) ;;
    s2 <- pool_sub DAOPool x s1 ;; account_add to x s2
  | MCreateOrder id seller chain x =>
    if x <? p_min_order_size p then LErr else
    s1 <- account_sub seller x s ;;
    s2 <- pool_add (add64 chain EscrowPoolAddend) x s1 ;;
    LOk (set_orders (aput id (mkOrder chain x seller false) (l_orders s2)) s2)
  | MEditOrder id chain x =>
    match aget id (l_orders s) with
    | None => LErr
    | Some o =>
      if negb (o_chain o =? chain) then LErr else
      if o_locked o then LErr else
      if x <? p_min_order_size p then LErr else
      s1 <- (if o_amount o <? x then (s' <- account_sub (o_seller o) (x - o_amount o) s ;; pool_add (add64 chain EscrowPoolAddend) (x - o_amount o) s')
             else if x <? o_amount o then (s' <- pool_sub (add64 chain EscrowPoolAddend) (o_amount o - x) s ;; account_add (o_seller o) (o_amount o - x) s')
             else LOk s) ;;
      LOk (set_orders (aput id (mkOrder chain x (o_seller o) false) (l_orders s1)) s1)
    end
  | MDeleteOrder id chain =>
    match aget id (l_orders s) with
    | None => LErr
    | Some o =>
      if negb (o_chain o =? chain) then LErr else
      if o_locked o then LErr else
      s1 <- pool_sub (add64 chain EscrowPoolAddend) (o_amount o) s ;;
      s2 <- account_add (o_seller o) (o_amount o) s1 ;;
      LOk (set_orders (adel id (l_orders s2)) s2)
    end
  end.

(* ApplyTransaction after CheckTx: fee to the chain's reward pool, then the handler; any failure leaves the state untouched
   (the nested store transaction is dropped and the caches are reset: C07) *)
Definition apply_tx (sender fee : N) (m : lmsg) (s : lstate) : bool * lstate :=
  match (s1 <- account_sub sender fee s ;; s2 <- pool_add (l_chain s) fee s1 ;; handle m s2) with
  | LOk s' => (true, s')
  | LErr => (false, s)
  end.

(* ---- slashing (protocol-version-2 semantics: committee scoped, budgeted per block by the tracker value [already]) *)
Definition slash_validator (a : N) (chain percent already : N) (s : lstate) : res lstate :=
  match aget a (l_vals s) with
  | None => LOk s
  | Some v =>
    if negb (existsb (N.eqb chain) (v_committees v)) then LOk s else
    let cap := p_max_slash_per_committee (l_params s) in
    if cap <=? already then LOk s else
    let hit := cap <=? already + percent in
    let percent := if hit then cap - already else percent in
    let new_committees := if hit then (fix rm (l : list N) := match l with [] => [] | c :: r => if c =? chain then r else c :: rm r end) (v_committees v)
                          else v_committees v in
    let after := if (100 <=? percent) || (v_stake v =? 0) then 0 else if percent =? 0 then v_stake v
                 else SafeMulDiv (v_stake v) (100 - percent) 100 in
    let amount := v_stake v - after in
    s1 <- sub_total amount s ;;
    if after =? 0 then delete_validator a v s1 else
    s2 <- sub_staked amount s1 ;;
    s4 <- (if v_delegate v
           then (d1 <- sub_delegated amount s2 ;; d2 <- delete_delegations (v_stake v) (v_committees v) d1 ;; set_delegations after new_committees d2)
           else (s3 <- delete_committees (v_stake v) (v_committees v) s2 ;; set_committees after new_committees s3)) ;;
    let v' := mkVal after (v_output v) new_committees (v_paused v) (v_unstaking v) (v_delegate v) (v_compound v) in
    let below := if v_delegate v' then after <? p_min_stake_delegates (l_params s) else after <? p_min_stake_validators (l_params s) in
    if (v_unstaking v' =? 0) && below
    then LOk (set_unstaking_val a v' (add64 (l_height s) (if v_delegate v' then p_delegate_unstaking_blocks (l_params s) else p_unstaking_blocks (l_params s))) s4)
    else LOk (put_val a v' s4)
  end.

(* ---- end-block deferred actions *)
(* ForceUnstakeMaxPaused: every paused marker of this height; missing or already unstaking validators are skipped *)
Definition force_unstake_max_paused (s : lstate) : res lstate :=
  let due := filter (fun e => fst e =? l_height s) (l_paused s) in
  let s1 := fold_left (fun st e =>
      match aget (snd e) (l_vals st) with
      | None => st
      | Some v => if negb (v_unstaking v =? 0) then st
                  else set_unstaking_val (snd e) v (add64 (l_height st) (p_unstaking_blocks (l_params st))) st
      end) due s in
  LOk (set_paused (filter (fun e => negb (fst e =? l_height s)) (l_paused s1)) s1).
(* DeleteFinishedUnstaking: every unstaking marker of this height; a marker without validator aborts the block *)
Definition delete_finished_unstaking (s : lstate) : res lstate :=
  let due := filter (fun e => fst e =? l_height s) (l_unstaking s) in
  s1 <- fold_left (fun acc e => st <- acc ;;
      match aget (snd e) (l_vals st) with
      | None => LErr                                                   (* GetValidator: validator does not exist *)
      | Some v => st1 <- account_add (v_output v) (v_stake v) st ;; delete_validator (snd e) v st1
      end) due (LOk s) ;;
  LOk (set_unstaking (filter (fun e => negb (fst e =? l_height s)) (l_unstaking s1)) s1).
