(* Txn.v — in-memory transactions over a parent reader (property C10, used by C07).
   mirrors: store/txn.go: Txn.Get/Set/Delete/update (ops map + sorted btree), Discard, Commit/flush (write-set applied to the
            writer), TxnIterator (First/seek/revSeek, Valid, Next, txnInvalid (sticky), txnFastForward, compare) and
            BTreeIterator.Move/next/prev as positions in the sorted key list.
   The ops map is keyed by a 64-bit MemHash of the key in the code; the model keys by the key itself (no-collision
   assumption, stated in the trusted base). *)
From Coq Require Import NArith List Bool.
From V Require Import Bytes Keys.
Import ListNotations.

Inductive wop := WSet (v : bytes) | WDel.
Definition wset := list (bytes * wop).          (* ascending by key, one entry per key *)

Fixpoint ws_update (k : bytes) (o : wop) (ws : wset) : wset :=
  match ws with
  | [] => [(k, o)]
  | (k', o') :: r => if bytes_eqb k k' then (k, o) :: r
                     else if lex_lt k k' then (k, o) :: ws else (k', o') :: ws_update k o r
  end.
Fixpoint ws_find (k : bytes) (ws : wset) : option wop :=
  match ws with
  | [] => None
  | (k', o) :: r => if bytes_eqb k k' then Some o else ws_find k r
  end.

(* Txn.Get: own writes first, then the parent *)
Definition txn_get (ws : wset) (parent_get : bytes -> option bytes) (k : bytes) : option bytes :=
  match ws_find k ws with
  | Some (WSet v) => Some v
  | Some WDel => None
  | None => parent_get k
  end.

(* flush of a nested transaction into its parent's write-set (Txn.Commit with a Txn writer) *)
Definition ws_flush (child parent : wset) : wset := fold_left (fun p e => ws_update (fst e) (snd e) p) child parent.

(* ---- merged iteration.  [ps]: what the parent iterator yields from its current position on, in iteration order, keys already
   stripped of the parent prefix; [ts]: the transaction's sorted items from the start position on, in iteration order *)
Definition cmp_dir (reverse : bool) (a b : bytes) : comparison :=
  let c := if lex_lt a b then Lt else if lex_lt b a then Gt else Eq in
  if reverse then CompOpp c else c.

(* txnInvalid(): sticky *)
Definition txn_invalid (prefix : bytes) (ts : wset) : bool :=
  match ts with
  | [] => true
  | (k, _) :: _ => match k with [] => true | _ => negb (prefixb prefix k) end
  end.

Fixpoint merge_iter (fuel : nat) (reverse : bool) (prefix : bytes) (ps : list (bytes * bytes)) (ts : wset) (tinv : bool)
  : list (bytes * bytes) :=
  match fuel with
  | O => []
  | S f =>
    let tinv := tinv || txn_invalid prefix ts in
    match ps with
    | [] =>
      (* parent exhausted: fast-forward over deletes, then use the transaction *)
      if tinv then []
      else match ts with
           | [] => []
           | (k, WDel) :: tr => merge_iter f reverse prefix [] tr tinv
           | (k, WSet v) :: tr => (k, v) :: merge_iter f reverse prefix [] tr tinv
           end
    | (pk, pv) :: pr =>
      if tinv then (pk, pv) :: merge_iter f reverse prefix pr ts tinv
      else match ts with
           | [] => (pk, pv) :: merge_iter f reverse prefix pr ts tinv
           | (k, o) :: tr =>
             match cmp_dir reverse k pk with
             | Gt => (pk, pv) :: merge_iter f reverse prefix pr ts tinv            (* parent first *)
             | Eq => match o with                                                  (* the transaction shadows the parent *)
                     | WDel => merge_iter f reverse prefix pr tr tinv
                     | WSet v => (k, v) :: merge_iter f reverse prefix pr tr tinv
                     end
             | Lt => match o with
                     | WDel => merge_iter f reverse prefix ps tr tinv
                     | WSet v => (k, v) :: merge_iter f reverse prefix ps tr tinv
                     end
             end
           end
    end
  end.

(* start position of the btree iterator: forward = first item >= prefix; reverse = items < prefix ++ 0xFF.. descending *)
Definition ts_start (reverse : bool) (prefix : bytes) (ws : wset) : wset :=
  if reverse
  then rev (filter (fun e => lex_lt (fst e) (prefix_end (prefix_end prefix))) ws)
  else filter (fun e => lex_le prefix (fst e)) ws.

Definition txn_iter (reverse : bool) (prefix : bytes) (ws : wset) (parent_items : list (bytes * bytes)) : list (bytes * bytes) :=
  merge_iter (S (length parent_items + length ws + length parent_items + length ws)) reverse prefix parent_items
             (ts_start reverse prefix ws) false.

(* ---- specification: the overlay map restricted to the prefix, in order *)
Definition overlay (ws : wset) (parent : list (bytes * bytes)) (k : bytes) : option bytes :=
  txn_get ws (fun k => match find (fun e => bytes_eqb (fst e) k) parent with Some e => Some (snd e) | None => None end) k.
Definition ws_sorted (ws : wset) : Prop :=
  forall i j a b, (i < j)%nat -> nth_error ws i = Some a -> nth_error ws j = Some b -> lex_lt (fst a) (fst b) = true.
Definition items_sorted (reverse : bool) (l : list (bytes * bytes)) : Prop :=
  forall i j a b, (i < j)%nat -> nth_error l i = Some a -> nth_error l j = Some b ->
    (if reverse then lex_lt (fst b) (fst a) else lex_lt (fst a) (fst b)) = true.
