(* BftLive.v — a synchronous round with a correct leader (property C15).
   The replica side is Bft.v; here the LEADER side that Bft.v leaves to an oracle is spelled out for a correct leader:
     bft/vote.go  handleHighQCVDFAndEvidence  the leader adopts the highest valid lock forwarded in the ELECTION votes
     bft/bft.go   StartProposePhase           it re-proposes that lock's block (justified by the lock) or produces a new block
                  StartPrecommitPhase / StartCommitPhase  it aggregates the votes of the phase before into a certificate
   and a round is played in which every message among the correct replicas is delivered within the phase time-outs and the
   adversary delivers nothing else: ELECTION, ELECTION_VOTE, PROPOSE, PROPOSE_VOTE, PRECOMMIT, PRECOMMIT_VOTE, COMMIT,
   COMMIT_PROCESS. *)
From Coq Require Import NArith List Bool.
From V Require Import U64 Extracted Bft BftNet.
Import ListNotations.
Local Open Scope N_scope.

Definition orc (target : N) (maj : bool) (prop : N * N) (root : N) : oracle := mkO target maj prop true root 0.
(* every correct replica's timer fires once (the leader's oracle says it has the majority) *)
Definition step_all (powers : list N) (lru : N) (ids : list N) (leader : N) (prop : N * N) (n : net) : net :=
  fold_left (fun n i => match get_rep n i with
                        | Some r => net_step powers lru n (AStep i (orc leader (i =? leader) prop (r_root r)))
                        | None => n
                        end) ids n.
Definition deliver_all (powers : list N) (lru : N) (ids : list N) (m : lmsg) (n : net) : net :=
  fold_left (fun n i => net_step powers lru n (ALeader i m)) ids n.
(* the ELECTION votes of the correct replicas reach the leader: it adopts the highest lock *)
Definition votes_to_leader (powers : list N) (lru : N) (ids : list N) (leader : N) (n : net) : net :=
  fold_left (fun n i => match get_rep n i with
                        | Some r => net_step powers lru n
                                      (AVote leader (mkVM i true (mkView (r_root r) (r_round r) Phase_ELECTION_VOTE) 0 0 leader (r_lock r) 0 0))
                        | None => n
                        end) ids n.

Definition sync_round (powers : list N) (lru : N) (ids : list N) (leader : N) (fresh : N * N) (n : net) : net :=
  match get_rep n leader with
  | None => n
  | Some l0 =>
    let root := r_root l0 in let round := r_round l0 in
    let n1 := step_all powers lru ids leader fresh n in                  (* ELECTION *)
    let n2 := step_all powers lru ids leader fresh n1 in                 (* ELECTION_VOTE: votes carry the locks *)
    let n3 := votes_to_leader powers lru ids leader n2 in
    let high := match get_rep n3 leader with Some l => r_lock l | None => None end in
    let value := match high with Some h => (q_block h, q_results h) | None => fresh end in
    let n4 := step_all powers lru ids leader value n3 in                 (* PROPOSE *)
    let m_prop := mkLM leader true round Phase_PROPOSE (mkQC (mkView root round Phase_ELECTION_VOTE) (fst value) (snd value) leader ids true) true high lru in
    let n5 := deliver_all powers lru ids m_prop n4 in
    let n6 := step_all powers lru ids leader value n5 in                 (* PROPOSE_VOTE *)
    let n7 := step_all powers lru ids leader value n6 in                 (* PRECOMMIT *)
    let m_prec := mkLM leader true round Phase_PRECOMMIT (mkQC (mkView root round Phase_PROPOSE_VOTE) (fst value) (snd value) leader ids true) false None lru in
    let n8 := deliver_all powers lru ids m_prec n7 in
    let n9 := step_all powers lru ids leader value n8 in                 (* PRECOMMIT_VOTE *)
    let n10 := step_all powers lru ids leader value n9 in                (* COMMIT *)
    let m_com := mkLM leader true round Phase_COMMIT (mkQC (mkView root round Phase_PRECOMMIT_VOTE) (fst value) (snd value) leader ids true) false None lru in
    let n11 := deliver_all powers lru ids m_com n10 in
    step_all powers lru ids leader value n11                             (* COMMIT_PROCESS *)
  end.

(* the round starts aligned: every correct replica at the ELECTION phase of the same (root height, round), undecided *)
Definition aligned (n : net) (ids : list N) (root round : N) : Prop :=
  forall i, In i ids -> exists r, get_rep n i = Some r /\ r_root r = root /\ r_round r = round /\ r_phase r = Phase_ELECTION /\ r_commit r = None.

(* ---- correspondence cases: healed runs on real replicas in virtual time *)
Record live_case := mkLive { lv_powers : list N; lv_committed : bool; lv_rounds : N; lv_bound : N }.
Fixpoint idxl {A} (bad : A -> bool) (i : N) (l : list A) : list N :=
  match l with [] => [] | x :: r => if bad x then i :: idxl bad (i + 1) r else idxl bad (i + 1) r end.
Definition live_violations (cs : list live_case) : list N := idxl (fun c => negb (lv_committed c && (lv_rounds c <=? lv_bound c))) 0 cs.
Definition live_mismatches (cs : list live_case) : list N := [].

(* ---- correspondence cases: a synchronous round on real replicas from an injected aligned state (locks on different blocks at
   different views, real aggregate signatures).  The harness reports the leader the real election produced, the fresh value
   that leader produced (used only if nobody is locked) and what each correct replica committed. *)
Record sync_case := mkSync { sy_powers : list N; sy_lru : N; sy_ids : list N; sy_leader : N; sy_fresh : N * N;
                             sy_reps : list (N * rstate); sy_commits : list (N * (N * N)) }.
Definition commit_of (l : list (N * (N * N))) (i : N) : option (N * N) :=
  match find (fun e => fst e =? i) l with Some e => Some (snd e) | None => None end.
Definition optv_eqb (a b : option (N * N)) : bool :=
  match a, b with
  | Some x, Some y => (fst x =? fst y) && (snd x =? snd y)
  | None, None => true
  | _, _ => false
  end.
Definition sy_agrees (c : sync_case) : bool :=
  let n' := sync_round (sy_powers c) (sy_lru c) (sy_ids c) (sy_leader c) (sy_fresh c) (mkNet (sy_reps c) []) in
  forallb (fun i => optv_eqb (commit_of (commits n') i) (commit_of (sy_commits c) i)) (sy_ids c).
Definition sync_mismatches (cs : list sync_case) : list N := idxl (fun c => negb (sy_agrees c)) 0 cs.
(* the property on the observation alone: every correct replica committed, all the same value *)
Definition sy_ok (c : sync_case) : bool :=
  match sy_ids c with
  | [] => true
  | i0 :: _ => match commit_of (sy_commits c) i0 with
               | None => false
               | Some v => forallb (fun i => optv_eqb (commit_of (sy_commits c) i) (Some v)) (sy_ids c)
               end
  end.
Definition sync_violations (cs : list sync_case) : list N := idxl (fun c => negb (sy_ok c)) 0 cs.
