(* BftLive.v — a synchronous round with a correct leader (property C15).
   The replica side is Bft.v; here the LEADER side that Bft.v leaves to an oracle is spelled out for a correct leader:
     bft/vote.go  handleHighQCVDFAndEvidence  the leader adopts the highest valid lock forwarded in the ELECTION votes
     bft/bft.go   StartProposePhase           it re-proposes that lock's block (justified by the lock) or produces a new block
                  StartPrecommitPhase / StartCommitPhase  it aggregates the votes of the phase before into a certificate
   and a round is played in which every message among the correct replicas is delivered within the phase time-outs and the
   adversary delivers nothing else: ELECTION, ELECTION_VOTE, PROPOSE, PROPOSE_VOTE, PRECOMMIT, PRECOMMIT_VOTE, COMMIT,
   COMMIT_PROCESS. *)
From Coq Require Import NArith List Bool.
From V Require Import U64 Extracted Bft BftNet.
Import ListNotations.
Local Open Scope N_scope.

Definition orc (target : N) (maj : bool) (prop : N * N) (root : N) : oracle := mkO target maj prop true root 0.
(* every correct replica's timer fires once (the leader's oracle says it has the majority) *)
Definition step_all (powers : list N) (lru : N) (ids : list N) (leader : N) (prop : N * N) (n : net) : net :=
  fold_left (fun n i => match get_rep n i with
                        | Some r => net_step powers lru n (AStep i (orc leader (i =? leader) prop (r_root r)))
                        | None => n
                        end) ids n.
Definition deliver_all (powers : list N) (lru : N) (ids : list N) (m : lmsg) (n : net) : net :=
  fold_left (fun n i => net_step powers lru n (ALeader i m)) ids n.
(* the ELECTION votes of the correct replicas reach the leader: it adopts the highest lock *)
Definition votes_to_leader (powers : list N) (lru : N) (ids : list N) (leader : N) (n : net) : net :=
  fold_left (fun n i => match get_rep n i with
                        | Some r => net_step powers lru n
                                      (AVote leader (mkVM i true (mkView (r_root r) (r_round r) Phase_ELECTION_VOTE) 0 0 leader (r_lock r) 0 0))
                        | None => n
                        end) ids n.

Definition sync_round (powers : list N) (lru : N) (ids : list N) (leader : N) (fresh : N * N) (n : net) : net :=
  match get_rep n leader with
  | None => n
  | Some l0 =>
    let root := r_root l0 in let round := r_round l0 in
    let n1 := step_all powers lru ids leader fresh n in                  (* ELECTION *)
    let n2 := step_all powers lru ids leader fresh n1 in                 (* ELECTION_VOTE: votes carry the locks *)
    let n3 := votes_to_leader powers lru ids leader n2 in
    let high := match get_rep n3 leader with Some l => r_lock l | None => None end in
    let value := match high with Some h => (q_block h, q_results h) | None => fresh end in
    let n4 := step_all powers lru ids leader value n3 in                 (* PROPOSE *)
    let m_prop := mkLM leader true round Phase_PROPOSE (mkQC (mkView root round Phase_ELECTION_VOTE) (fst value) (snd value) leader ids true) true high lru in
    let n5 := deliver_all powers lru ids m_prop n4 in
    let n6 := step_all powers lru ids leader value n5 in                 (* PROPOSE_VOTE *)
    let n7 := step_all powers lru ids leader value n6 in                 (* PRECOMMIT *)
    let m_prec := mkLM leader true round Phase_PRECOMMIT (mkQC (mkView root round Phase_PROPOSE_VOTE) (fst value) (snd value) leader ids true) false None lru in
    let n8 := deliver_all powers lru ids m_prec n7 in
    let n9 := step_all powers lru ids leader value n8 in                 (* PRECOMMIT_VOTE *)
    let n10 := step_all powers lru ids leader value n9 in                (* COMMIT *)
    let m_com := mkLM leader true round Phase_COMMIT (mkQC (mkView root round Phase_PRECOMMIT_VOTE) (fst value) (snd value) leader ids true) false None lru in
    let n11 := deliver_all powers lru ids m_com n10 in
    step_all powers lru ids leader value n11                             (* COMMIT_PROCESS *)
  end.

(* the round starts aligned: every correct replica at the ELECTION phase of the same (root height, round), undecided *)
Definition aligned (n : net) (ids : list N) (root round : N) : Prop :=
  forall i, In i ids -> exists r, get_rep n i = Some r /\ r_root r = root /\ r_round r = round /\ r_phase r = Phase_ELECTION /\ r_commit r = None.

(* ---- correspondence cases: healed runs on real replicas in virtual time *)
Record live_case := mkLive { lv_powers : list N; lv_committed : bool; lv_rounds : N; lv_bound : N }.
Fixpoint idxl {A} (bad : A -> bool) (i : N) (l : list A) : list N :=
  match l with [] => [] | x :: r => if bad x then i :: idxl bad (i + 1) r else idxl bad (i + 1) r end.
Definition live_violations (cs : list live_case) : list N := idxl (fun c => negb (lv_committed c && (lv_rounds c <=? lv_bound c))) 0 cs.
Definition live_mismatches (cs : list live_case) : list N := [].
