(* Bft.v — the replica side of the HotStuff-style BFT at one height (properties C01, C15).
   mirrors: bft/msg.go   HandleMessage, GetValidateMessageParams, CheckProposerMessage, CheckReplicaMessage
            bft/prop.go  AddProposal / getProposal (one leader message per (round, phase), the last one wins)
            bft/vote.go  handleHighQCVDFAndEvidence (a replica adopts a higher valid lock shown in an ELECTION vote)
            bft/bft.go   HandlePhase: StartElectionVotePhase, StartProposePhase (leader: proposal chosen by an oracle),
                         StartProposeVotePhase (SafeNode), StartPrecommitVotePhase (lock), StartCommitProcessPhase (commit
                         through the gate of controller.HandlePeerBlock), RoundInterrupt, Pacemaker, NewRound,
                         NewHeight(keepLocks) for a root-chain update, SafeNode, CheckProposerAndProposal, GetBlockHash cache
            lib/certificate.go  QuorumCertificate.Check / CheckHighQC, lib/consensus.go View.Less
   Crypto is symbolic: a certificate lists its signers and carries a flag saying whether its aggregate signature verifies for
   exactly its payload and signer bitmap.  Blocks and certificate results are represented by the ids of their hashes (0 = nil).
   Not modelled (supplied by an oracle argument of [step], so every theorem quantifies over all of its values): VRF sortition
   and the election outcome, vote aggregation at the leader (GetMajorityVote), block production and validation, the pacemaker's
   round computed from peers' messages, the root height the controller reports. *)
From Coq Require Import NArith List Bool.
From V Require Import U64 Extracted.
Import ListNotations.
Local Open Scope N_scope.

(* ---- views (the height is fixed) *)
Record view := mkView { vw_root : N; vw_round : N; vw_phase : N }.
(* lib.View.Less for equal heights: root height, then round, then phase *)
Definition view_less (a b : view) : bool :=
  if vw_root a <? vw_root b then true else if vw_root b <? vw_root a then false
  else if vw_round a <? vw_round b then true else if vw_round b <? vw_round a then false
  else vw_phase a <? vw_phase b.

(* ---- certificates *)
Record qc := mkQC { q_view : view; q_block : N; q_results : N; q_proposer : N; q_signers : list N; q_sigok : bool }.

Record conf := mkConf { c_self : N; c_powers : list N; c_lru : N (* CommitteeData.LastRootHeightUpdated *) }.
Definition power_of (c : conf) (i : N) : N := nth (N.to_nat i) (c_powers c) 0.
Definition total_power (c : conf) : N := fold_right N.add 0 (c_powers c).
Definition is_validator (c : conf) (i : N) : bool := i <? N.of_nat (length (c_powers c)).
Fixpoint dedup (l : list N) : list N :=
  match l with [] => [] | x :: r => if existsb (N.eqb x) r then dedup r else x :: dedup r end.
Definition set_power (c : conf) (l : list N) : N := fold_right (fun i acc => power_of c i + acc) 0 (dedup l).
Definition maj23 (c : conf) : N := minimumMaj23 (total_power c).

Inductive qres := QErr | QPartial | QFull.
(* QuorumCertificate.Check -> AggregateSignature.Check: the aggregate must verify; below +2/3 the certificate is "partial" *)
Definition qc_check (c : conf) (q : qc) : qres :=
  if negb (q_sigok q) || negb (forallb (is_validator c) (q_signers q)) then QErr
  else if maj23 c <=? set_power c (q_signers q) then QFull else QPartial.
(* CheckHighQC *)
Definition high_ok (c : conf) (h : qc) : bool :=
  (match qc_check c h with QFull => true | _ => false end) &&
  (c_lru c <=? vw_root (q_view h)) && (vw_phase (q_view h) =? Phase_PROPOSE_VOTE).

(* ---- messages *)
(* a message of the leader: header (round, phase in PROPOSE / PRECOMMIT / COMMIT), the justifying certificate, for PROPOSE the
   block and results (attached: hasprop; their hashes are the certificate's, QuorumCertificate.CheckBasic) and the HighQC *)
Record lmsg := mkLM { m_from : N; m_sigok : bool; m_round : N; m_phase : N; m_qc : qc; m_hasprop : bool;
                      m_high : option qc; m_rcbuild : N }.
(* a message of a replica: its vote (view incl. the vote phase, hashes, proposer) and, for ELECTION votes, the lock it forwards
   together with whatever block / results the sender attached to the vote itself (honest senders attach none: 0) *)
Record vmsg := mkVM { v_from : N; v_sigok : bool; v_view : view; v_block : N; v_results : N; v_proposer : N;
                      v_high : option qc; v_cblk : N; v_cres : N }.

(* ---- replica state *)
Record rstate := mkR {
  r_root : N; r_round : N; r_phase : N;
  r_lock : option qc;                      (* b.HighQC *)
  r_blk : N; r_bhc : N; r_res : N;         (* b.Block (id of its hash, 0 = nil), b.BlockHash (cache, 0 = nil), b.Results *)
  r_proposer : option N;                   (* b.ProposerKey *)
  r_props : list (N * N * lmsg);           (* b.Proposals: (round, phase) -> message *)
  r_commit : option (N * N) }.

Definition r_init (root : N) : rstate := mkR root 0 Phase_ELECTION None 0 0 0 None [] None.

(* GetBlockHash: the cache wins; it is filled from the block on first use *)
Definition block_hash (r : rstate) : N := if r_bhc r =? 0 then r_blk r else r_bhc r.
Definition touch (r : rstate) : rstate :=
  mkR (r_root r) (r_round r) (r_phase r) (r_lock r) (r_blk r) (block_hash r) (r_res r) (r_proposer r) (r_props r) (r_commit r).
Definition set_phase (p : N) (r : rstate) : rstate :=
  mkR (r_root r) (r_round r) p (r_lock r) (r_blk r) (r_bhc r) (r_res r) (r_proposer r) (r_props r) (r_commit r).
(* getProposal: the message stored for (round, phase), provided its certificate is of the replica's current root height *)
Definition get_prop (r : rstate) (round phase : N) : option lmsg :=
  match find (fun e => (fst (fst e) =? round) && (snd (fst e) =? phase)) (r_props r) with
  | Some e => if vw_root (q_view (m_qc (snd e))) =? r_root r then Some (snd e) else None
  | None => None
  end.
(* AddProposal, PROPOSE / PRECOMMIT / COMMIT: a stored message whose sender is the proposer its own certificate names (the
   certificate's signers signed that name) is never replaced by a message whose sender is somebody else - a validator that
   re-signs the leader's message under its own key does not push the leader's message out *)
Definition keeps (r : rstate) (m : lmsg) : bool :=
  match find (fun e => (fst (fst e) =? m_round m) && (snd (fst e) =? m_phase m)) (r_props r) with
  | Some e => (q_proposer (m_qc (snd e)) =? m_from (snd e)) && negb (q_proposer (m_qc m) =? m_from m)
  | None => false
  end.
Definition put_prop (m : lmsg) (r : rstate) : rstate :=
  mkR (r_root r) (r_round r) (r_phase r) (r_lock r) (r_blk r) (r_bhc r) (r_res r) (r_proposer r)
      ((m_round m, m_phase m, m) :: filter (fun e => negb ((fst (fst e) =? m_round m) && (snd (fst e) =? m_phase m))) (r_props r))
      (r_commit r).

(* ---- HandleMessage, leader message (CheckProposerMessage then AddProposal); a rejected message changes nothing but the
   block-hash cache, which GetValidateMessageParams fills whenever a block is held *)
Definition recv_lmsg (c : conf) (r : rstate) (m : lmsg) : rstate :=
  match r_commit r with Some _ => r | None =>
  if negb (is_validator c (m_from m)) then r else
  let r := if r_blk r =? 0 then r else touch r in
  if negb (m_sigok m) then r else
  if negb ((m_phase m =? Phase_PROPOSE) || (m_phase m =? Phase_PRECOMMIT) || (m_phase m =? Phase_COMMIT)) then r else
  let q := m_qc m in
  if negb (vw_root (q_view q) =? r_root r) then r else
  match qc_check c q with
  | QFull =>
    if (match m_high m with Some h => negb (high_ok c h) | None => false end) then r else
    (* the certificate must be the vote certificate of this very round and of the phase before the message's phase *)
    if negb ((vw_round (q_view q) =? m_round m) && (vw_phase (q_view q) + 1 =? m_phase m)) then r else
    if m_phase m =? Phase_PROPOSE then
      if (q_proposer q =? m_from m) && m_hasprop m then put_prop m r else r
    else
      if negb (keeps r m) && (negb (r_blk r =? 0)) && (q_block q =? block_hash r) && (q_results q =? r_res r) then put_prop m r else r
  | _ => r
  end
  end.

(* ---- HandleMessage, replica message: only an ELECTION vote that forwards a lock can change the replica's state (the lock is
   adopted when it is valid and higher than the own one; since fix 6cca0b3 the block and results the sender attached to the
   vote itself - v_cblk, v_cres - are ignored); vote counting belongs to the oracle *)
Definition recv_vote (c : conf) (r : rstate) (v : vmsg) : rstate :=
  match r_commit r with Some _ => r | None =>
  if negb (is_validator c (v_from v)) then r else
  let r := if r_blk r =? 0 then r else touch r in
  if negb (v_sigok v) then r else
  if negb (vw_root (v_view v) =? r_root r) then r else
  if negb (vw_phase (v_view v) =? Phase_ELECTION_VOTE) then r else
  match v_high v with
  | None => r
  | Some h =>
    if negb (high_ok c h) then r else
    if (match r_lock r with None => true | Some l => view_less (q_view l) (q_view h) end)
    then mkR (r_root r) (r_round r) (r_phase r) (Some h) (r_blk r) (r_bhc r) (r_res r) (r_proposer r) (r_props r) (r_commit r)
    else r
  end
  end.

(* ---- HandlePhase *)
Record oracle := mkO {
  o_target : N;                 (* ELECTION_VOTE: the candidate this replica votes for *)
  o_maj : bool;                 (* PROPOSE / PRECOMMIT / COMMIT at the leader: GetMajorityVote succeeded *)
  o_prop : N * N;               (* PROPOSE at the leader: the block and results it ends up proposing *)
  o_valid : bool;               (* PROPOSE_VOTE: ValidateProposal accepted the block *)
  o_root : N;                   (* PACEMAKER: the root height the controller reports (RefreshRootChainInfo) *)
  o_jump : N }.                 (* PACEMAKER: the round +1/3 of the power is at, per the peers' pacemaker messages *)

Inductive out :=
| OVote (ph : N) (root round : N) (block results : N) (proposer : N) (high : option qc)
| OCommit (block results : N)
| ORefused                       (* the commit gate refused the certificate *)
| OInterrupt.

(* SafeNode *)
Definition safe_node (l : qc) (m : lmsg) : bool :=
  match m_high m with
  | None => false
  | Some h =>
    (q_block (m_qc m) =? q_block h) && (q_results (m_qc m) =? q_results h) &&
    (((q_block l =? q_block h) && (q_results l =? q_results h)) || view_less (q_view l) (q_view h))
  end.

Definition interrupt (r : rstate) : rstate * list out := (set_phase Phase_PACEMAKER r, [OInterrupt]).
Definition next (r : rstate) : rstate := set_phase (r_phase r + 1) r.
Definition cur_view (r : rstate) (ph : N) : view := mkView (r_root r) (r_round r) ph.
(* CheckProposerAndProposal (false = interrupt) *)
Definition check_pp (r : rstate) (m : lmsg) : bool :=
  (match r_proposer r with Some p => p =? m_from m | None => false end) &&
  (block_hash r =? q_block (m_qc m)) && (r_res r =? q_results (m_qc m)).

Definition step (c : conf) (r : rstate) (o : oracle) : rstate * list out :=
  match r_commit r with Some _ => (r, []) | None =>
  let p := r_phase r in
  if p =? Phase_ELECTION then (next r, [])
  else if p =? Phase_ELECTION_VOTE then
    (* vote for the oracle's candidate, forwarding the lock; ProposerKey is cleared again (defer) *)
    (next r, [OVote Phase_ELECTION_VOTE (r_root r) (r_round r) 0 0 (o_target o) (r_lock r)])
  else if p =? Phase_PROPOSE then
    if o_maj o then
      let r1 := mkR (r_root r) (r_round r) (r_phase r) (r_lock r) (fst (o_prop o)) 0 (snd (o_prop o)) (r_proposer r) (r_props r) (r_commit r) in
      (next (touch r1), [])
    else (next r, [])
  else if p =? Phase_PROPOSE_VOTE then
    match get_prop r (r_round r) Phase_PROPOSE with
    | None => interrupt r
    | Some m =>
      let r1 := mkR (r_root r) (r_round r) (r_phase r) (r_lock r) (r_blk r) (r_bhc r) (r_res r) (Some (m_from m)) (r_props r) (r_commit r) in
      if (match r_lock r with Some l => negb (safe_node l m) | None => false end) then interrupt r1
      else if m_rcbuild m <? c_lru c then interrupt r1
      else if negb (o_valid o) then interrupt r1
      else
        let r2 := touch (mkR (r_root r) (r_round r) (r_phase r) (r_lock r) (q_block (m_qc m)) 0 (q_results (m_qc m))
                             (Some (m_from m)) (r_props r) (r_commit r)) in
        (next r2, [OVote Phase_PROPOSE_VOTE (r_root r) (r_round r) (block_hash r2) (r_res r2) (m_from m) None])
    end
  else if p =? Phase_PRECOMMIT then
    if (match r_proposer r with Some q => q =? c_self c | None => false end) && negb (o_maj o) then interrupt r else (next r, [])
  else if p =? Phase_PRECOMMIT_VOTE then
    match get_prop r (r_round r) Phase_PRECOMMIT with
    | None => interrupt r
    | Some m =>
      if negb (check_pp r m) then interrupt (touch r)
      else
        let r1 := touch r in
        let r2 := mkR (r_root r1) (r_round r1) (r_phase r1) (Some (m_qc m)) (r_blk r1) (r_bhc r1) (r_res r1) (r_proposer r1) (r_props r1) (r_commit r1) in
        (next r2, [OVote Phase_PRECOMMIT_VOTE (r_root r) (r_round r) (block_hash r2) (r_res r2)
                         (match r_proposer r with Some q => q | None => 0 end) None])
    end
  else if p =? Phase_COMMIT then
    if (match r_proposer r with Some q => q =? c_self c | None => false end) && negb (o_maj o) then interrupt r else (next r, [])
  else if p =? Phase_COMMIT_PROCESS then
    match get_prop r (r_round r) Phase_COMMIT with
    | None => interrupt r
    | Some m =>
      if negb (check_pp r m) then interrupt (touch r)
      else
        let r1 := touch r in
        (* SelfSendBlock -> the gate of HandlePeerBlock: full +2/3 certificate of the PRECOMMIT_VOTE phase, carrying this
           replica's block and results, whose hashes must be the certificate's *)
        let q := m_qc m in
        if (match qc_check c q with QFull => true | _ => false end) && (vw_phase (q_view q) =? Phase_PRECOMMIT_VOTE) &&
           (negb (r_blk r1 =? 0)) && (r_blk r1 =? q_block q) && (negb (r_res r1 =? 0)) && (r_res r1 =? q_results q)
        then (mkR (r_root r1) (r_round r1) (r_phase r1) (r_lock r1) (r_blk r1) (r_bhc r1) (r_res r1) (r_proposer r1) (r_props r1)
                  (Some (q_block q, q_results q)), [OCommit (q_block q) (q_results q)])
        else (r1, [ORefused])
    end
  else if p =? Phase_PACEMAKER then
    (* NewRound(false): next round, refresh the root height, forget the proposal; then jump to the peers' round if higher *)
    let round := r_round r + 1 in
    let round := if round <? o_jump o then o_jump o else round in
    (mkR (o_root o) round Phase_ELECTION (r_lock r) 0 0 0 None (r_props r) (r_commit r), [])
  else (next r, [])
  end.

(* ---- a root-chain update (NEW_COMMITTEE reset): NewHeight(keepLocks = true). Rounds restart only if the root height advanced;
   proposals are dropped (the election messages of round 0 are kept by the code; they are not part of this model), the lock stays *)
Definition root_update (r : rstate) (root : N) : rstate :=
  match r_commit r with Some _ => r | None =>
  if root <=? r_root r then r
  else mkR root 0 Phase_ELECTION (r_lock r) 0 0 0 None [] (r_commit r)
  end.
