(* Proto.v — the protobuf wire format of lib.Transaction as the node reads and writes it (properties C06, C11, C19).
   mirrors: lib/util.go Unmarshal for critical messages (preflightProtoBytes, proto.Unmarshal, rejectUnknownForCriticalMessages),
            lib/util.go Marshal (deterministic, canonical), lib/tx.go Transaction.GetSignBytes,
            fsm/transaction.go CheckTx: a transaction is accepted only in its canonical encoding (fix c4187b5).
   The decoder is as permissive as the implementation's: fields in any order, repeated occurrences (scalars: the last wins,
   sub-messages: merged field by field), non-minimal varints in tags, lengths and values, explicit default values.
   Strings are restricted to ASCII (proto3 strings must be valid UTF-8; the correspondence harness stays inside ASCII). *)
From Coq Require Import NArith List Bool.
From V Require Import Bytes.
Import ListNotations.
Local Open Scope N_scope.

(* ---- varints (protowire.ConsumeVarint: at most 10 bytes, the 10th at most 1) *)
Fixpoint varint_dec (fuel : nat) (i : N) (bs : bytes) (acc : N) : option (N * bytes) :=
  match fuel, bs with
  | O, _ => None
  | _, [] => None
  | S f, b :: r =>
    if (i =? 9) && (1 <? b) then None
    else let acc := acc + N.shiftl (N.land b 127) (7 * i) in
         if b <? 128 then Some (acc, r) else varint_dec f (i + 1) r acc
  end.
Definition get_varint (bs : bytes) : option (N * bytes) := varint_dec 10 0 bs 0.
(* canonical (minimal) encoding of a value below 2^64 *)
Fixpoint varint_enc (fuel : nat) (v : N) : bytes :=
  match fuel with
  | O => []
  | S f => if v <? 128 then [v] else (N.lor (N.land v 127) 128) :: varint_enc f (N.shiftr v 7)
  end.
Definition put_varint (v : N) : bytes := varint_enc 10 v.

(* ---- generic field scan (what preflightProtoBytes and the unmarshaller agree on) *)
Inductive fval := FVar (v : N) | FBytes (b : bytes).
Fixpoint take (n : nat) (bs : bytes) : option (bytes * bytes) :=
  match n, bs with
  | O, _ => Some ([], bs)
  | S k, [] => None
  | S k, b :: r => match take k r with Some (x, y) => Some (b :: x, y) | None => None end
  end.
(* fuel = number of bytes: every field consumes at least one *)
Fixpoint scan (fuel : nat) (bs : bytes) : option (list (N * fval)) :=
  match bs with
  | [] => Some []
  | _ =>
    match fuel with
    | O => None
    | S f =>
      match get_varint bs with
      | None => None
      | Some (key, r) =>
        let num := N.shiftr key 3 in let wt := N.land key 7 in
        if (num =? 0) || (536870911 <? num) || (18446744073709551615 <? key) then None else
        if wt =? 0 then
          match get_varint r with
          | Some (v, r') => match scan f r' with Some l => Some ((num, FVar v) :: l) | None => None end
          | None => None
          end
        else if wt =? 2 then
          match get_varint r with
          | Some (len, r') =>
            if 2147483647 <? len then None else
            match take (N.to_nat len) r' with
            | Some (body, r'') => match scan f r'' with Some l => Some ((num, FBytes body) :: l) | None => None end
            | None => None
            end
          | None => None
          end
        else None         (* fixed32 / fixed64 / groups: no field of these messages uses them: unknown field, rejected *)
      end
    end
  end.

(* ---- the transaction *)
Record any := mkAny { a_url : bytes; a_value : bytes }.
Record sgn := mkSgn { s_pk : bytes; s_sig : bytes }.
Record ptx := mkPtx {
  t_type : bytes; t_msg : option any; t_sig : option sgn;
  t_created : N; t_time : N; t_fee : N; t_memo : bytes; t_net : N; t_chain : N; t_nonce : N }.
Definition ptx_empty : ptx := mkPtx [] None None 0 0 0 [] 0 0 0.

Definition ascii (b : bytes) : bool := forallb (fun x => x <? 128) b.

(* sub-messages: later occurrences merge into earlier ones, field by field; unknown fields and wrong wire types are rejected *)
Fixpoint any_fields (l : list (N * fval)) (a : any) : option any :=
  match l with
  | [] => Some a
  | (1, FBytes b) :: r => if ascii b then any_fields r (mkAny b (a_value a)) else None
  | (2, FBytes b) :: r => any_fields r (mkAny (a_url a) b)
  | _ => None
  end.
Fixpoint sgn_fields (l : list (N * fval)) (s : sgn) : option sgn :=
  match l with
  | [] => Some s
  | (1, FBytes b) :: r => sgn_fields r (mkSgn b (s_sig s))
  | (2, FBytes b) :: r => sgn_fields r (mkSgn (s_pk s) b)
  | _ => None
  end.
Definition u64 (v : N) : N := N.land v 18446744073709551615.
Fixpoint tx_fields (l : list (N * fval)) (t : ptx) : option ptx :=
  match l with
  | [] => Some t
  | (num, v) :: r =>
    match num, v with
    | 1, FBytes b => if ascii b then tx_fields r (mkPtx b (t_msg t) (t_sig t) (t_created t) (t_time t) (t_fee t) (t_memo t) (t_net t) (t_chain t) (t_nonce t)) else None
    | 2, FBytes b =>
      match scan (length b) b with
      | Some fl => match any_fields fl (match t_msg t with Some a => a | None => mkAny [] [] end) with
                   | Some a => tx_fields r (mkPtx (t_type t) (Some a) (t_sig t) (t_created t) (t_time t) (t_fee t) (t_memo t) (t_net t) (t_chain t) (t_nonce t))
                   | None => None
                   end
      | None => None
      end
    | 3, FBytes b =>
      match scan (length b) b with
      | Some fl => match sgn_fields fl (match t_sig t with Some s => s | None => mkSgn [] [] end) with
                   | Some s => tx_fields r (mkPtx (t_type t) (t_msg t) (Some s) (t_created t) (t_time t) (t_fee t) (t_memo t) (t_net t) (t_chain t) (t_nonce t))
                   | None => None
                   end
      | None => None
      end
    | 4, FVar x => tx_fields r (mkPtx (t_type t) (t_msg t) (t_sig t) (u64 x) (t_time t) (t_fee t) (t_memo t) (t_net t) (t_chain t) (t_nonce t))
    | 5, FVar x => tx_fields r (mkPtx (t_type t) (t_msg t) (t_sig t) (t_created t) (u64 x) (t_fee t) (t_memo t) (t_net t) (t_chain t) (t_nonce t))
    | 6, FVar x => tx_fields r (mkPtx (t_type t) (t_msg t) (t_sig t) (t_created t) (t_time t) (u64 x) (t_memo t) (t_net t) (t_chain t) (t_nonce t))
    | 7, FBytes b => if ascii b then tx_fields r (mkPtx (t_type t) (t_msg t) (t_sig t) (t_created t) (t_time t) (t_fee t) b (t_net t) (t_chain t) (t_nonce t)) else None
    | 8, FVar x => tx_fields r (mkPtx (t_type t) (t_msg t) (t_sig t) (t_created t) (t_time t) (t_fee t) (t_memo t) (u64 x) (t_chain t) (t_nonce t))
    | 9, FVar x => tx_fields r (mkPtx (t_type t) (t_msg t) (t_sig t) (t_created t) (t_time t) (t_fee t) (t_memo t) (t_net t) (u64 x) (t_nonce t))
    | 10, FVar x => tx_fields r (mkPtx (t_type t) (t_msg t) (t_sig t) (t_created t) (t_time t) (t_fee t) (t_memo t) (t_net t) (t_chain t) (u64 x))
    | _, _ => None
    end
  end.
(* lib.Unmarshal into a Transaction *)
Definition decode_tx (bs : bytes) : option ptx :=
  match scan (length bs) bs with Some fl => tx_fields fl ptx_empty | None => None end.

(* ---- canonical encoding (lib.Marshal): fields in ascending order, default values omitted, a present sub-message is written
   even when empty *)
Definition fbytes (num : N) (b : bytes) : bytes := put_varint (num * 8 + 2) ++ put_varint (N.of_nat (length b)) ++ b.
Definition fbytes_nz (num : N) (b : bytes) : bytes := match b with [] => [] | _ => fbytes num b end.
Definition fvar_nz (num : N) (v : N) : bytes := if v =? 0 then [] else put_varint (num * 8) ++ put_varint v.
Definition encode_any (a : any) : bytes := fbytes_nz 1 (a_url a) ++ fbytes_nz 2 (a_value a).
Definition encode_sgn (s : sgn) : bytes := fbytes_nz 1 (s_pk s) ++ fbytes_nz 2 (s_sig s).
Definition encode_tx (t : ptx) : bytes :=
  fbytes_nz 1 (t_type t) ++
  (match t_msg t with Some a => fbytes 2 (encode_any a) | None => [] end) ++
  (match t_sig t with Some s => fbytes 3 (encode_sgn s) | None => [] end) ++
  fvar_nz 4 (t_created t) ++ fvar_nz 5 (t_time t) ++ fvar_nz 6 (t_fee t) ++ fbytes_nz 7 (t_memo t) ++
  fvar_nz 8 (t_net t) ++ fvar_nz 9 (t_chain t) ++ fvar_nz 10 (t_nonce t).

(* the check added to CheckTx: the bytes must be the canonical encoding of what they decode to *)
Definition canonical (bs : bytes) : bool :=
  match decode_tx bs with Some t => bytes_eqb (encode_tx t) bs | None => false end.

(* GetSignBytes: the transaction without its signature *)
Definition unsigned (t : ptx) : ptx :=
  mkPtx (t_type t) (t_msg t) None (t_created t) (t_time t) (t_fee t) (t_memo t) (t_net t) (t_chain t) (t_nonce t).
Definition sign_bytes (t : ptx) : bytes := encode_tx (unsigned t).

(* ---- correspondence cases: raw bytes, what lib.Unmarshal made of them, and whether Marshal reproduces them *)
Definition optb_eqb (a b : option bytes) : bool :=
  match a, b with Some x, Some y => bytes_eqb x y | None, None => true | _, _ => false end.
Definition ptx_eqb (a b : ptx) : bool :=
  bytes_eqb (t_type a) (t_type b) &&
  (match t_msg a, t_msg b with Some x, Some y => bytes_eqb (a_url x) (a_url y) && bytes_eqb (a_value x) (a_value y) | None, None => true | _, _ => false end) &&
  (match t_sig a, t_sig b with Some x, Some y => bytes_eqb (s_pk x) (s_pk y) && bytes_eqb (s_sig x) (s_sig y) | None, None => true | _, _ => false end) &&
  (t_created a =? t_created b) && (t_time a =? t_time b) && (t_fee a =? t_fee b) && bytes_eqb (t_memo a) (t_memo b) &&
  (t_net a =? t_net b) && (t_chain a =? t_chain b) && (t_nonce a =? t_nonce b).
Record pcase := mkPC { pc_bytes : bytes; pc_decoded : option ptx; pc_canonical : bool; pc_signbytes : bytes }.
Definition pc_agrees (c : pcase) : bool :=
  match decode_tx (pc_bytes c), pc_decoded c with
  | Some t, Some t' => ptx_eqb t t' && Bool.eqb (canonical (pc_bytes c)) (pc_canonical c) && bytes_eqb (sign_bytes t) (pc_signbytes c)
  | None, None => true
  | _, _ => false
  end.
Fixpoint idxp {A} (bad : A -> bool) (i : N) (l : list A) : list N :=
  match l with [] => [] | x :: r => if bad x then i :: idxp bad (i + 1) r else idxp bad (i + 1) r end.
Definition proto_mismatches (cs : list pcase) : list N := idxp (fun c => negb (pc_agrees c)) 0 cs.
