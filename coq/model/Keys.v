(* Keys.v — composite store keys (property C19, used by C10's prefix-freeness precondition).
   mirrors: lib/util.go:JoinLenPrefix, DecodeLengthPrefixed; fsm/key.go (every key constructor);
            store/store.go partition prefixes; store/txn.go:prefixEnd; store/versioned_store.go key suffix.
   A segment list here is the list of NON-nil arguments of JoinLenPrefix (nil items are skipped by the code). *)
From Coq Require Import NArith List Bool.
From V Require Import Bytes U64 Extracted.
Import ListNotations.
Local Open Scope N_scope.

(* res = append(res, byte(len(item))); res = append(res, item...)   -- byte() truncates mod 256 *)
Definition lenbyte (s : bytes) : N := N.of_nat (length s) mod 256.
Definition seg (s : bytes) : bytes := lenbyte s :: s.
Definition join (l : list bytes) : bytes := concat (map seg l).

Definition short (s : bytes) : Prop := (length s < 256)%nat.
Definition shortb (s : bytes) : bool := Nat.ltb (length s) 256.

(* DecodeLengthPrefixed: None models the panic("corrupt or incomplete key") *)
Fixpoint decode_fuel (fuel : nat) (k : bytes) : option (list bytes) :=
  match fuel with
  | O => match k with [] => Some [] | _ => None end
  | S f =>
    match k with
    | [] => Some []
    | n :: rest =>
      let len := N.to_nat n in
      if Nat.leb len (length rest)
      then match decode_fuel f (skipn len rest) with
           | Some segs => Some (firstn len rest :: segs)
           | None => None
           end
      else None
    end
  end.
Definition decode (k : bytes) : option (list bytes) := decode_fuel (length k) k.

(* prefixEnd(p) = p ++ 0xFF * (maxKeyBytes+1) *)
Definition prefix_end (p : bytes) : bytes := p ++ repeat 255 (S (N.to_nat Extracted.maxKeyBytes)).
Definition in_range (p k : bytes) : bool := lex_le p k && lex_lt k (prefix_end p).

Fixpoint list_beq_bytes (a b : list bytes) : bool :=
  match a, b with
  | [], [] => true
  | x :: a', y :: b' => bytes_eqb x y && list_beq_bytes a' b'
  | _, _ => false
  end.

(* ---- the state key schema of fsm/key.go.  Components: addresses (any length here; 20 in the node), u64 ids/heights/stakes
   as be64, order ids and parameter-space names as byte strings. *)
Inductive skey :=
| KAccount (addr : bytes)
| KPool (id : N)
| KValidator (addr : bytes)
| KCommittee (chain stake : N) (addr : bytes)
| KUnstaking (height : N) (addr : bytes)
| KPaused (height : N) (addr : bytes)
| KParams (space : bytes)
| KNonSigner (addr : bytes)
| KLastProposers
| KSupply
| KDelegate (chain stake : N) (addr : bytes)
| KCommitteesData
| KOrder (chain : N) (orderId : bytes)
| KRetired (chain : N)
| KLockedBatch (chain : N)
| KNextBatch (chain : N).

(* the family prefix of each key: byte literals regenerated from fsm/key.go into Extracted.v *)
Definition pfx (k : skey) : bytes :=
  match k with
  | KAccount _ => accountPrefix | KPool _ => poolPrefix | KValidator _ => validatorPrefix
  | KCommittee _ _ _ => committeePrefix | KUnstaking _ _ => unstakePrefix | KPaused _ _ => pausedPrefix
  | KParams _ => paramsPrefix | KNonSigner _ => nonSignerPrefix | KLastProposers => lastProposersPrefix
  | KSupply => supplyPrefix | KDelegate _ _ _ => delegatePrefix | KCommitteesData => committeesDataPrefix
  | KOrder _ _ => orderBookPrefix | KRetired _ => retiredCommitteePrefix
  | KLockedBatch _ => dexPrefix | KNextBatch _ => dexPrefix
  end.

(* the segment lists mirror the constructors of fsm/key.go one by one *)
Definition segs_of (k : skey) : list bytes :=
  match k with
  | KAccount a => [pfx k; a]
  | KPool id => [pfx k; be64 id]
  | KValidator a => [pfx k; a]
  | KCommittee c s a => [pfx k; be64 c; be64 s; a]
  | KUnstaking h a => [pfx k; be64 h; a]
  | KPaused h a => [pfx k; be64 h; a]
  | KParams s => [pfx k; s]
  | KNonSigner a => [pfx k; a]
  | KLastProposers => [pfx k]
  | KSupply => [pfx k]
  | KDelegate c s a => [pfx k; be64 c; be64 s; a]
  | KCommitteesData => [pfx k]
  | KOrder c o => [pfx k; be64 c; o]
  | KRetired c => [pfx k; be64 c]
  | KLockedBatch c => [pfx k; lockedBatchSegment; be64 c]
  | KNextBatch c => [pfx k; nextBatchSement; be64 c]
  end.
Definition encode_key (k : skey) : bytes := join (segs_of k).

(* well-formed components: byte strings shorter than 256 bytes (the node uses 20-byte addresses and 20/32-byte order
   ids), integers below 2^64 *)
Definition u64 (x : N) : Prop := x < 18446744073709551616.
Definition skey_wf (k : skey) : Prop :=
  match k with
  | KAccount a | KValidator a | KNonSigner a => short a
  | KPool id | KRetired id | KLockedBatch id | KNextBatch id => u64 id
  | KCommittee c s a | KDelegate c s a => u64 c /\ u64 s /\ short a
  | KUnstaking h a | KPaused h a => u64 h /\ short a
  | KParams s => short s
  | KOrder c o => u64 c /\ short o
  | KLastProposers | KSupply | KCommitteesData => True
  end.

(* fsm/message_helpers.go checkOrderId (edit-order, delete-order, lock / reset / close instructions of certificate results): an order
   id must fit the one-byte length prefix of its key segment - the only attacker-chosen component of variable length in the schema *)
Definition order_id_ok (id : bytes) : bool := Nat.leb (length id) 255.

(* store partitions (store/store.go) and the version suffix (store/versioned_store.go) *)
Definition partitions : list bytes :=
  [ join [latestStatePrefixRaw]; join [historicStatePrefixRaw]; join [stateCommitmentPrefixRaw];
    join [indexerPrefixRaw]; join [stateCommitIDPrefixRaw]; join [lastCommitIDPrefixRaw] ].
Definition inv64 (v : N) : N := 18446744073709551615 - v.          (* ^version *)
Definition versioned_key (userkey : bytes) (version : N) : bytes := userkey ++ be64 (inv64 version).

(* ---- correspondence cases: (segments given to JoinLenPrefix, bytes the implementation produced) *)
Record join_case := mkJoin { j_segs : list bytes; j_obs : bytes; j_decodes : bool (* DecodeLengthPrefixed(obs) did not panic and returned the segments *) }.
Definition join_agrees (c : join_case) : bool :=
  bytes_eqb (join (j_segs c)) (j_obs c) &&
  Bool.eqb (j_decodes c)
    (match decode (j_obs c) with Some l => list_beq_bytes l (j_segs c) | None => false end).
(* the message checks on an order id of a given length: accepted iff the model accepts *)
Record oid_case := mkOid { oc_len : N; oc_accepted : bool }.
Definition oid_agrees (c : oid_case) : bool := Bool.eqb (order_id_ok (repeat 254%N (N.to_nat (oc_len c)))) (oc_accepted c).
Record key_case := mkKeyCase { kc_key : skey; kc_obs : bytes }.
Definition key_agrees (c : key_case) : bool := bytes_eqb (encode_key (kc_key c)) (kc_obs c).
