(* ReplayCheck.v — correspondence cases for Proto.v / Replay.v (properties C06, C11, C19). *)
From Coq Require Import NArith List Bool.
From V Require Import Bytes Proto Replay.
Import ListNotations.
Local Open Scope N_scope.

(* an offered byte string on a real chain: everything executed before it, the height, whether the harness (calling the crypto
   library directly) finds the key canonical and the signature valid over the sign bytes, and whether the node executed it *)
Record rcase := mkRCase { rk_net : N; rk_chain : N; rk_range : N; rk_height : N; rk_prev : list bytes; rk_bytes : bytes;
                          rk_sigok : bool; rk_executed : bool }.

(* the abstract key behind public-key bytes: an ETH secp256k1 key is the same key with or without the 0x04 prefix *)
(* ... and a serialized BLS multi-signature key (lib/crypto MultiPublicKey: 1 = repeated member keys, 2 = bitmap, 3 = threshold) is
   the same key under every encoding of that nested message: unknown fields, field order between different numbers and
   non-minimal varints do not matter (member order does: it is part of the key the signers approved) *)
Definition multi_key_abs (pk : bytes) : option bytes :=
  match scan (length pk) pk with
  | Some fs =>
    let members := flat_map (fun e => if fst e =? 1 then match snd e with FBytes b => [b] | FVar _ => [] end else []) fs in
    let bitmap := fold_left (fun acc e => if fst e =? 2 then match snd e with FBytes b => b | FVar _ => acc end else acc) fs [] in
    let threshold := fold_left (fun acc e => if fst e =? 3 then match snd e with FVar v => v | FBytes _ => acc end else acc) fs 0 in
    if Nat.leb 2 (length members)
    then Some (concat (map (fun k => N.of_nat (length k) :: k) members) ++ [255; N.of_nat (length bitmap)] ++ bitmap ++ [255; threshold])
    else None
  | None => None
  end.
Definition key_bytes (pk : bytes) : bytes :=
  match pk with
  | 4 :: r => if Nat.eqb (length r) 64 then r else pk
  | _ => if Nat.ltb 100 (length pk) then match multi_key_abs pk with Some a => a | None => pk end else pk
  end.

Definition model_accept (c : rcase) : bool :=
  match accept (fun _ _ _ => rk_sigok c) (fun _ => true) (mkRC (rk_net c) (rk_chain c) (rk_range c)) (rk_height c) (rk_prev c) (rk_bytes c) with
  | Some _ => true | None => false end.
(* the implementation may refuse more (fees, balances, authorization) but must never execute what the model refuses *)
Definition rk_agrees (c : rcase) : bool := negb (rk_executed c) || model_accept c.
Fixpoint idxr {A} (bad : A -> bool) (i : N) (l : list A) : list N :=
  match l with [] => [] | x :: r => if bad x then i :: idxr bad (i + 1) r else idxr bad (i + 1) r end.
Definition replay_mismatches (cs : list rcase) : list N := idxr (fun c => negb (rk_agrees c)) 0 cs.

(* the property predicate on the observation alone: an executed byte string has the signed content of nothing executed before *)
Definition content_of (bs : bytes) : option (bytes * bytes * bytes) :=
  match decode_tx bs with
  | Some t => match t_sig t with Some s => Some (sign_bytes t, key_bytes (s_pk s), s_sig s) | None => None end
  | None => None
  end.
(* the harness never lets a key sign the same content twice, so two byte strings with the same sign bytes and the same key
   carry the same signed transaction even when their signature bytes differ (a signature altered by a third party) *)
Definition same_content (a b : bytes) : bool :=
  match content_of a, content_of b with
  | Some (x1, k1, s1), Some (x2, k2, s2) => bytes_eqb x1 x2 && bytes_eqb k1 k2
  | _, _ => false
  end.
Definition rk_ok (c : rcase) : bool :=
  negb (rk_executed c) ||
  (negb (existsb (same_content (rk_bytes c)) (rk_prev c)) &&
   (match decode_tx (rk_bytes c) with Some t => (t_net t =? rk_net c) && (t_chain t =? rk_chain c) | None => false end)).
Definition replay_violations (cs : list rcase) : list N := idxr (fun c => negb (rk_ok c)) 0 cs.
