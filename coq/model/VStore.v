(* VStore.v — the multi-version key/value layer (property C10).
   mirrors: store/versioned_store.go: makeVersionedKey, get/getRaw, newVersionedIterator (bounds), VersionedIterator.first,
            advanceToNextKey, rewindToLatestVersion, step (all four strategies: seek/linear x forward/reverse).
   The database is an ordered list of raw entries (user key ++ inverted big-endian version  ->  tombstone byte ++ value),
   i.e. what a pebble iterator over the key range walks.  pebble itself (ordering, bounds, SeekGE/SeekLT/Next/Prev) is
   modelled by list indexing; block-property filters are treated as the identity (they may only hide entries whose version
   exceeds the reader's version, which the algorithm skips anyway) — trusted, exercised by the harness after flushes. *)
From Coq Require Import NArith List Bool.
From V Require Import Bytes Keys.
Import ListNotations.
Local Open Scope N_scope.

Record entry := mkEntry { e_key : bytes; e_ver : N; e_dead : bool; e_val : bytes }.
Definition rawkey (e : entry) : bytes := versioned_key (e_key e) (e_ver e).

(* ---- pebble iterator over the entries inside [prefix, prefixEnd prefix) ; position None = exhausted *)
Definition bounded (prefix : bytes) (db : list entry) : list entry := filter (fun e => in_range prefix (rawkey e)) db.

Fixpoint find_ge (k : bytes) (es : list entry) (i : nat) : option nat :=
  match es with
  | [] => None
  | e :: r => if lex_le k (rawkey e) then Some i else find_ge k r (S i)
  end.
Definition seek_ge (es : list entry) (k : bytes) : option nat := find_ge k es 0.
Fixpoint find_lt (k : bytes) (es : list entry) (i : nat) (best : option nat) : option nat :=
  match es with
  | [] => best
  | e :: r => if lex_lt (rawkey e) k then find_lt k r (S i) (Some i) else best
  end.
Definition seek_lt (es : list entry) (k : bytes) : option nat := find_lt k es 0 None.
Definition it_next (es : list entry) (p : option nat) : option nat :=
  match p with Some i => if Nat.ltb (S i) (length es) then Some (S i) else None | None => None end.
Definition it_prev (p : option nat) : option nat :=
  match p with Some (S i) => Some i | _ => None end.

(* ---- point read: getRaw + get *)
Definition vget (db : list entry) (ver : N) (k : bytes) : option bytes :=
  let es := bounded k db in
  match seek_ge es (versioned_key k ver) with
  | None => None
  | Some i =>
    match nth_error es i with
    | None => None
    | Some e => if bytes_eqb (e_key e) k && (e_ver e <=? ver) && negb (e_dead e) then Some (e_val e) else None
    end
  end.

(* ---- the iterator state machine *)
Record istate := mkIt { it_pos : option nat; it_last : option bytes; it_snp : bool (* shouldNotPrev *) }.

Definition step (es : list entry) (reverse seek : bool) (s : istate) : istate :=
  let normal :=
    if reverse then (if it_snp s then mkIt (it_pos s) (it_last s) false else mkIt (it_prev (it_pos s)) (it_last s) false)
    else mkIt (it_next es (it_pos s)) (it_last s) (it_snp s) in
  match seek, it_pos s, it_last s with
  | true, Some i, Some lk =>
    match nth_error es i with
    | Some e =>
      if bytes_eqb (e_key e) lk
      then (if reverse then mkIt (seek_lt es lk) (it_last s) (it_snp s)
            else mkIt (seek_ge es (prefix_end lk)) (it_last s) (it_snp s))
      else normal
    | None => normal
    end
  | _, _, _ => normal
  end.

(* rewindToLatestVersion (reverse mode): returns the new state and the value buffer (dead flag, value) *)
Fixpoint rewind_linear (fuel : nat) (es : list entry) (ver : N) (lk : bytes) (s : istate) (buf : bool * bytes)
  : istate * (bool * bytes) :=
  match fuel with
  | O => (s, buf)
  | S f =>
    match it_prev (it_pos s) with
    | None => (mkIt None (it_last s) (it_snp s), buf)                    (* Prev() returned false: iterator exhausted *)
    | Some j =>
      let s' := mkIt (Some j) (it_last s) true in
      match nth_error es j with
      | None => (s', buf)
      | Some e =>
        if negb (e_ver e <=? ver) then (s', buf)
        else if negb (bytes_eqb (e_key e) lk) then (s', buf)
        else rewind_linear f es ver lk s' (e_dead e, e_val e)
      end
    end
  end.
Definition rewind (es : list entry) (ver : N) (seek : bool) (lk : bytes) (s : istate) (buf : bool * bytes)
  : istate * (bool * bytes) :=
  if seek then
    match seek_ge es (versioned_key lk ver) with
    | None => (mkIt None (it_last s) (it_snp s), buf)
    | Some j =>
      let s' := mkIt (Some j) (it_last s) (it_snp s) in
      match nth_error es j with
      | Some e => if bytes_eqb (e_key e) lk then (s', (e_dead e, e_val e)) else (s', buf)
      | None => (s', buf)
      end
    end
  else rewind_linear (length es) es ver lk s buf.

(* advanceToNextKey: the for-loop; returns the emitted (key, value) if any and the state *)
Fixpoint advance (fuel : nat) (es : list entry) (ver : N) (prefix : bytes) (reverse seek : bool) (s : istate)
  : option (bytes * bytes) * istate :=
  match fuel with
  | O => (None, s)
  | S f =>
    match it_pos s with
    | None => (None, s)
    | Some i =>
      match nth_error es i with
      | None => (None, s)
      | Some e =>
        if negb (e_ver e <=? ver) then advance f es ver prefix reverse seek (step es reverse seek s)
        (* the bounds are on the raw key: a user key matching the prefix only through its version suffix is skipped *)
        else if negb (prefixb prefix (e_key e)) then advance f es ver prefix reverse seek (step es reverse seek s)
        else if (match it_last s with Some lk => bytes_eqb (e_key e) lk | None => false end)
        then advance f es ver prefix reverse seek (step es reverse seek s)
        else
          let s1 := mkIt (it_pos s) (Some (e_key e)) (it_snp s) in
          let '(s2, buf) := if reverse then rewind es ver seek (e_key e) s1 (e_dead e, e_val e) else (s1, (e_dead e, e_val e)) in
          if fst buf then advance f es ver prefix reverse seek (step es reverse seek s2)
          else (Some (e_key e, snd buf), s2)
      end
    end
  end.

Definition first_pos (es : list entry) (prefix : bytes) (reverse : bool) : option nat :=
  if reverse then seek_lt es (prefix_end prefix) else seek_ge es prefix.

(* the loop  for ; it.Valid(); it.Next() { emit }  *)
Fixpoint drain (n : nat) (fuel : nat) (es : list entry) (ver : N) (prefix : bytes) (reverse seek : bool) (s : istate) : list (bytes * bytes) :=
  match n with
  | O => []
  | S n' =>
    match advance fuel es ver prefix reverse seek s with
    | (None, _) => []
    | (Some kv, s') => kv :: drain n' fuel es ver prefix reverse seek s'
    end
  end.
Definition viter (db : list entry) (ver : N) (prefix : bytes) (reverse seek : bool) : list (bytes * bytes) :=
  let es := bounded prefix db in
  let fuel := (4 * length es + 8)%nat in
  drain (S (length es)) fuel es ver prefix reverse seek (mkIt (first_pos es prefix reverse) None false).

(* ---- the specification: a simple versioned map *)
(* the entry visible for key k at version ver: the one with the greatest version <= ver *)
Definition visible_entry (db : list entry) (ver : N) (k : bytes) : option entry :=
  fold_left (fun best e =>
    if bytes_eqb (e_key e) k && (e_ver e <=? ver)
    then match best with
         | Some b => if e_ver b <? e_ver e then Some e else best
         | None => Some e
         end
    else best) db None.
Definition spec_get (db : list entry) (ver : N) (k : bytes) : option bytes :=
  match visible_entry db ver k with
  | Some e => if e_dead e then None else Some (e_val e)
  | None => None
  end.
(* the raw database is well-formed: sorted strictly by raw key (pebble), user keys decode as length-prefixed segments of
   bytes, versions fit 64 bits, and the set of user keys is prefix-free *)
Fixpoint sorted_raw (es : list entry) : bool :=
  match es with
  | a :: (b :: _) as r => lex_lt (rawkey a) (rawkey b) && sorted_raw r
  | _ => true
  end.
Definition keys_of (db : list entry) : list bytes := map e_key db.
Definition prefix_free (ks : list bytes) : Prop :=
  forall a b, In a ks -> In b ks -> is_prefix a b -> a = b.
Definition db_wf (db : list entry) : Prop :=
  sorted_raw db = true /\ prefix_free (keys_of db) /\
  Forall (fun e => wf_bytes (e_key e) /\ e_key e <> [] /\ e_ver e < 18446744073709551616 /\ (length (e_key e) <= 248)%nat) db.

(* distinct user keys in database order (ascending, since the database is sorted and prefix-free) *)
Fixpoint dedup_keys (es : list entry) (last : option bytes) : list bytes :=
  match es with
  | [] => []
  | e :: r => if (match last with Some lk => bytes_eqb (e_key e) lk | None => false end)
              then dedup_keys r last else e_key e :: dedup_keys r (Some (e_key e))
  end.
Definition spec_iter_fwd (db : list entry) (ver : N) (prefix : bytes) : list (bytes * bytes) :=
  flat_map (fun k => if prefixb prefix k then match spec_get db ver k with Some v => [(k, v)] | None => [] end else [])
           (dedup_keys db None).
Definition spec_iter (db : list entry) (ver : N) (prefix : bytes) (reverse : bool) : list (bytes * bytes) :=
  if reverse then rev (spec_iter_fwd db ver prefix) else spec_iter_fwd db ver prefix.
