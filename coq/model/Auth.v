(* Auth.v — authorization (property C05).
   mirrors: fsm/message.go GetAuthorizedSignersFor, fsm/validator.go GetAuthorizedSignersForValidator (operator or output
            address), fsm/transaction.go CheckSignature (the verified signer's address must be in the authorized list) and
            PopulateSpecialMessageFields (the signer field of stake / edit-stake is the VERIFIED signer, never the wire's).
   Signature verification is symbolic: the harness / the theorem is given the address of the key that really produced the
   signature over exactly this transaction content (0 = no known key did: forged, tampered after signing, or garbage). *)
From Coq Require Import NArith List Bool.
From V Require Import U64 Extracted Ledger LedgerCheck.
Import ListNotations.
Local Open Scope N_scope.

Definition authorized (m : lmsg) (s : lstate) : list N :=
  match m with
  | MSend from _ _ => [from]
  | MStake a _ output _ _ _ _ => [a; output]
  | MEditStake a _ _ _ _ _ | MUnstake a | MPause a | MUnpause a =>
      match aget a (l_vals s) with Some v => [a; v_output v] | None => [] end
  | MSubsidy from _ _ => [from]
  | MDaoTransfer to _ _ => [to]
  | MCreateOrder _ seller _ _ => [seller]
  | MEditOrder id _ _ | MDeleteOrder id _ => match aget id (l_orders s) with Some o => [o_seller o] | None => [] end
  end.
(* the signer field carried by the message must be the verified signer *)
Definition signer_field_ok (signer : N) (m : lmsg) : bool :=
  match m with
  | MStake _ sg _ _ _ _ _ | MEditStake _ sg _ _ _ _ => sg =? signer
  | _ => true
  end.
Definition check_auth (signer : N) (m : lmsg) (s : lstate) : bool :=
  negb (signer =? 0) && existsb (N.eqb signer) (authorized m s) && signer_field_ok signer m.
(* ApplyTransaction with its authorization: the fee payer is the verified signer *)
Definition apply_signed (signer fee : N) (m : lmsg) (s : lstate) : bool * lstate :=
  if check_auth signer m s then apply_tx signer fee m s else (false, s).

(* ---- correspondence cases *)
Record auth_case := mkAuth { au_pre : lstate; au_signer : N; au_fee : N; au_msg : lmsg; au_ok : bool; au_post : lstate }.
Definition au_agrees (c : auth_case) : bool :=
  let '(ok, post) := apply_signed (au_signer c) (au_fee c) (au_msg c) (au_pre c) in
  (* the implementation may refuse more (fee below the minimum, message checks); what it executes must be what the model executes *)
  negb (au_ok c) || (ok && lstate_eqb post (au_post c)).
Definition nondecreasing (pre post : list (N * N)) (except : N) : bool :=
  forallb (fun e => (fst e =? except) || (snd e <=? nget (fst e) post)) pre.
Definition au_ok_pred (c : auth_case) : bool :=
  if au_ok c then check_auth (au_signer c) (au_msg c) (au_pre c) &&
                  nondecreasing (l_accounts (au_pre c)) (l_accounts (au_post c)) (au_signer c)
  else lstate_eqb (au_pre c) (au_post c).
Fixpoint idxa {A} (bad : A -> bool) (i : N) (l : list A) : list N :=
  match l with [] => [] | x :: r => if bad x then i :: idxa bad (i + 1) r else idxa bad (i + 1) r end.
Definition auth_mismatches (cs : list auth_case) : list N := idxa (fun c => negb (au_agrees c)) 0 cs.
Definition auth_violations (cs : list auth_case) : list N := idxa (fun c => negb (au_ok_pred c)) 0 cs.
(* blocks of transfers: per transaction the real signer (0 = none), the claimed sender, and whether it was executed *)
Record ablk_case := mkABlk { ab_txs : list (N * N * bool) }.
Definition ablk_ok (c : ablk_case) : bool := forallb (fun t => let '(signer, from, ex) := t in negb ex || (negb (signer =? 0) && (signer =? from))) (ab_txs c).
Definition ablk_violations (cs : list ablk_case) : list N := idxa (fun c => negb (ablk_ok c)) 0 cs.
Definition ablk_mismatches (cs : list ablk_case) : list N := [].
