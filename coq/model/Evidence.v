(* Evidence.v — double-sign evidence and slashing accountability (property C14).
   mirrors: bft/evidence.go DoubleSignEvidence.CheckBasic / Check, ProcessDSE, ValidateByzantineEvidence;
            lib/consensus.go AggregateSignature.GetDoubleSigners (intersection of the signer bitmaps);
            fsm/byzantine.go HandleDoubleSigners (IsValidDoubleSigner + IndexDoubleSigner: once per validator and height),
            SlashValidator's per-block, per-committee budget (MaxSlashPerCommittee with the slash tracker).
   Certificates are the symbolic ones of Bft.v. *)
From Coq Require Import NArith List Bool.
From V Require Import U64 Extracted Bft BftNet.
Import ListNotations.
Local Open Scope N_scope.

Definition view_eqb3 (a b : view) : bool := (vw_root a =? vw_root b) && (vw_round a =? vw_round b) && (vw_phase a =? vw_phase b).
Definition payload_eqb (a b : qc) : bool := (q_block a =? q_block b) && (q_results a =? q_results b) && (q_proposer a =? q_proposer b).
Definition verifies (c : conf) (q : qc) : bool := match qc_check c q with QErr => false | _ => true end.   (* partial certificates count *)

(* DoubleSignEvidence.CheckBasic + Check *)
Definition ev_check (c : conf) (min_height : N) (a b : qc) : bool :=
  view_eqb3 (q_view a) (q_view b) && (min_height <=? vw_root (q_view a)) &&
  verifies c a && verifies c b && negb (payload_eqb a b) && (Phase_PROPOSE <? vw_phase (q_view a)).
(* GetDoubleSigners: validators whose bit is set in both bitmaps *)
Definition common_signers (a b : qc) : list N := filter (fun i => existsb (N.eqb i) (q_signers b)) (dedup (q_signers a)).

(* ProcessDSE: per evidence, the common signers that may still be slashed for that (root) height, accumulated per signer *)
Fixpoint add_height (k h : N) (acc : list (N * list N)) : list (N * list N) :=
  match acc with
  | [] => [(k, [h])]
  | (k', hs) :: r => if k =? k' then (k', if existsb (N.eqb h) hs then hs else hs ++ [h]) :: r else (k', hs) :: add_height k h r
  end.
Fixpoint process_dse (c : conf) (min_height : N) (valid : N -> N -> bool) (es : list (qc * qc)) (acc : list (N * list N)) : option (list (N * list N)) :=
  match es with
  | [] => Some acc
  | (a, b) :: r =>
    if ev_check c min_height a b then
      let h := vw_root (q_view a) in
      process_dse c min_height valid r (fold_left (fun ac k => if valid k h then add_height k h ac else ac) (common_signers a b) acc)
    else None
  end.
(* ValidateByzantineEvidence: every (signer, height) the proposer wants slashed is derived from the attached evidence *)
Definition covered (slash derived : list (N * list N)) : bool :=
  forallb (fun s => existsb (fun d => (fst d =? fst s) && forallb (fun h => existsb (N.eqb h) (snd d)) (snd s)) derived) slash.

(* HandleDoubleSigners: every (signer, height) must not have been slashed before; it is indexed and slashed once *)
Fixpoint handle_heights (k : N) (hs : list N) (index : list (N * N)) (out : list N) : option (list (N * N) * list N) :=
  match hs with
  | [] => Some (index, out)
  | h :: r => if existsb (fun e => (fst e =? k) && (snd e =? h)) index then None
              else handle_heights k r ((k, h) :: index) (out ++ [k])
  end.
Fixpoint handle_double_signers (ds : list (N * list N)) (index : list (N * N)) (out : list N) : option (list (N * N) * list N) :=
  match ds with
  | [] => Some (index, out)
  | (k, hs) :: r => match hs with
                    | [] => None
                    | _ => match handle_heights k hs index out with
                           | Some (index', out') => handle_double_signers r index' out'
                           | None => None
                           end
                    end
  end.

(* HandleByzantine for the chain's OWN certificate (fsm/byzantine.go dropKnownDoubleSigners): that certificate is executed by the
   begin-block of the next height from the committed block and cannot be refused any more; (validator, height) pairs that are
   already indexed (slashed in the meantime, e.g. by a nested committee's certificate in the very block the certificate decided)
   are dropped, the rest is handled as usual. Entries without heights are left in place (and reported as an error). *)
Definition known (index : list (N * N)) (k h : N) : bool := existsb (fun e => (fst e =? k) && (snd e =? h)) index.
Definition drop_known (index : list (N * N)) (ds : list (N * list N)) : list (N * list N) :=
  flat_map (fun d => match snd d with
                     | [] => [d]
                     | _ => match filter (fun h => negb (known index (fst d) h)) (snd d) with
                            | [] => []
                            | hs => [(fst d, hs)]
                            end
                     end) ds.
Definition handle_own_double_signers (ds : list (N * list N)) (index : list (N * N)) : option (list (N * N) * list N) :=
  handle_double_signers (drop_known index ds) index [].

(* the per-block slash budget of one committee: SlashValidator with the tracker *)
Definition effective (cap already percent : N) : N :=
  if cap <=? already then 0 else if cap <=? already + percent then cap - already else percent.
Fixpoint slash_block (cap : N) (tracker : list (N * N)) (reqs : list (N * N)) : list (N * N) :=   (* (validator, percent) *)
  match reqs with
  | [] => []
  | (k, p) :: r =>
    let already := fold_right (fun e acc => if fst e =? k then snd e + acc else acc) 0 tracker in
    let e := effective cap already p in
    (k, e) :: slash_block cap ((k, e) :: tracker) r
  end.
Definition slashed_total (k : N) (effs : list (N * N)) : N := fold_right (fun e acc => if fst e =? k then snd e + acc else acc) 0 effs.

(* ---- correspondence cases *)
Record ev_case := mkEC { ec_powers : list N; ec_min : N; ec_evidence : list (qc * qc); ec_invalid : list (N * N);
                         ec_obs : option (list (N * list N)) }.     (* what the real ProcessDSE returned (None = error) *)
Fixpoint dsl_eqb (a b : list (N * list N)) : bool :=
  match a, b with
  | [], [] => true
  | (k, hs) :: a', (k', hs') :: b' =>
      (k =? k') && (fix eq (x y : list N) : bool := match x, y with [], [] => true | u :: x', v :: y' => (u =? v) && eq x' y' | _, _ => false end) hs hs' && dsl_eqb a' b'
  | _, _ => false
  end.
Definition ev_agrees (c : ev_case) : bool :=
  let valid := fun k h => negb (existsb (fun e => (fst e =? k) && (snd e =? h)) (ec_invalid c)) in
  match process_dse (mkConf 0 (ec_powers c) 0) (ec_min c) valid (ec_evidence c) [], ec_obs c with
  | Some l, Some l' => dsl_eqb l l'
  | None, None => true
  | _, _ => false
  end.
Fixpoint idxe {A} (bad : A -> bool) (i : N) (l : list A) : list N :=
  match l with [] => [] | x :: r => if bad x then i :: idxe bad (i + 1) r else idxe bad (i + 1) r end.
Definition ev_mismatches (cs : list ev_case) : list N := idxe (fun c => negb (ev_agrees c)) 0 cs.

(* ---- the collection of evidence (bft/evidence.go AddDSE, DoubleSignEvidences): a piece is kept when it is valid on its own,
   accuses somebody who may still be slashed, and is not IDENTICAL to a piece already kept - identical meaning the whole
   evidence (views, payloads, aggregate signatures, signer bitmaps), not only what the two certificates say.  Two pieces about
   the same pair of payloads under different signer sets accuse different validators: both stay. *)
Fixpoint nlist_eqb (x y : list N) : bool :=
  match x, y with [], [] => true | u :: x', v :: y' => (u =? v) && nlist_eqb x' y' | _, _ => false end.
Definition qc_same (a b : qc) : bool :=
  view_eqb3 (q_view a) (q_view b) && payload_eqb a b && nlist_eqb (q_signers a) (q_signers b) && Bool.eqb (q_sigok a) (q_sigok b).
Definition ev_same (e f : qc * qc) : bool := qc_same (fst e) (fst f) && qc_same (snd e) (snd f).
Definition accuses_somebody (c : conf) (min_height : N) (valid : N -> N -> bool) (e : qc * qc) : bool :=
  match process_dse c min_height valid [e] [] with Some (_ :: _) => true | _ => false end.
Definition add_dse (c : conf) (min_height : N) (valid : N -> N -> bool) (acc : list (qc * qc)) (e : qc * qc) : list (qc * qc) :=
  if accuses_somebody c min_height valid e then (if existsb (ev_same e) acc then acc else acc ++ [e]) else acc.
Definition collect (c : conf) (min_height : N) (valid : N -> N -> bool) (es : list (qc * qc)) : list (qc * qc) :=
  fold_left (add_dse c min_height valid) es [].
(* what a collection reports: does the derived list name validator k for height h *)
Definition names (l : list (N * list N)) (k h : N) : bool := existsb (fun d => (fst d =? k) && existsb (N.eqb h) (snd d)) l.

(* the de-duplication some refactoring might prefer - by what the two certificates SAY (view, payload), ignoring who signed -
   kept as a variant: it loses accused validators (Evidence proofs: old variant refuted) *)
Definition ev_same_content (e f : qc * qc) : bool :=
  view_eqb3 (q_view (fst e)) (q_view (fst f)) && payload_eqb (fst e) (fst f) &&
  view_eqb3 (q_view (snd e)) (q_view (snd f)) && payload_eqb (snd e) (snd f).
Definition add_dse_by_content c min_height valid (acc : list (qc * qc)) (e : qc * qc) : list (qc * qc) :=
  if accuses_somebody c min_height valid e then (if existsb (ev_same_content e) acc then acc else acc ++ [e]) else acc.
Definition collect_by_content c min_height valid (es : list (qc * qc)) : list (qc * qc) :=
  fold_left (add_dse_by_content c min_height valid) es [].

(* correspondence cases: pieces offered one by one to the real AddDSE on one collection; observed: how many were kept and what the
   real ProcessDSE derives from the collection *)
Record col_case := mkCol { cl_powers : list N; cl_min : N; cl_evidence : list (qc * qc); cl_invalid : list (N * N);
                           cl_kept : N; cl_obs : option (list (N * list N)) }.
Definition col_valid (c : col_case) : N -> N -> bool :=
  fun k h => negb (existsb (fun e => (fst e =? k) && (snd e =? h)) (cl_invalid c)).
Definition col_agrees (c : col_case) : bool :=
  let cf := mkConf 0 (cl_powers c) 0 in
  let kept := collect cf (cl_min c) (col_valid c) (cl_evidence c) in
  (N.of_nat (length kept) =? cl_kept c) &&
  match process_dse cf (cl_min c) (col_valid c) kept [], cl_obs c with
  | Some l, Some l' => dsl_eqb l l'
  | None, None => true
  | _, _ => false
  end.
(* the property on the observation alone: whoever any single offered piece accuses is named by the collection's report *)
Definition col_ok (c : col_case) : bool :=
  let cf := mkConf 0 (cl_powers c) 0 in
  match cl_obs c with
  | None => false
  | Some rep =>
    forallb (fun e => match process_dse cf (cl_min c) (col_valid c) [e] [] with
                      | Some l => forallb (fun d => forallb (fun h => names rep (fst d) h) (snd d)) l
                      | None => true
                      end) (cl_evidence c)
  end.
Definition col_mismatches (cs : list col_case) : list N := idxe (fun c => negb (col_agrees c)) 0 cs.
Definition col_violations (cs : list col_case) : list N := idxe (fun c => negb (col_ok c)) 0 cs.
