(* Dex.v — executable model of the AMM arithmetic and liquidity-point bookkeeping (property C20).
   mirrors: fsm/dex.go:HandleDexBatchOrders (the swap loop over the pseudorandomly ordered batch),
            fsm/dex.go:handleBatchWithdraw, fsm/dex.go:handleBatchDeposit pass 2 (+ liquidityDepositPoints),
            fsm/account.go:Pool.AddPoints.
   Generated from source (Extracted.v): SafeComputeDY, SafeMulDiv, SqrtProductUint64, MaxOrdersSettledPerBlock,
   MaxLiquidityProviders.  Machine arithmetic: unchecked Go uint64 operations are written with add64/sub64; checked
   ones (lib.AddUint64 overflow flag) return None, which models the handler returning an error. *)
From Coq Require Import NArith List Bool.
From V Require Import U64 Extracted.
Import ListNotations.
Local Open Scope N_scope.

(* ---------------------------------------------------------------- swaps *)
Record order := mkOrder { o_amount : N; o_requested : N }.

(* one iteration of the loop body of HandleDexBatchOrders: returns the new (x, y) and the receipt *)
Definition swap1 (x y : N) (o : order) : option (N * N * N) :=
  let dX := o_amount o in
  let dY := SafeComputeDY x y dX in
  let dY := if dY <? o_requested o then 0 else dY in
  if dY =? 0 then Some (x, y, 0)
  else if two64 <=? x + dX then None                     (* lib.AddUint64 overflow -> ErrInvalidLiquidityPool *)
  else Some (x + dX, sub64 y dY, dY).                    (* *y - dY is unchecked in the code *)

(* the loop: orders beyond the per-block settlement cap keep a zero receipt *)
Fixpoint swaps (budget : nat) (x y : N) (os : list order) : option (N * N * list N) :=
  match os with
  | [] => Some (x, y, [])
  | o :: rest =>
    match budget with
    | O => Some (x, y, map (fun _ => 0) os)
    | S b =>
      match swap1 x y o with
      | None => None
      | Some (x', y', r) =>
        match swaps b x' y' rest with
        | None => None
        | Some (x'', y'', rs) => Some (x'', y'', r :: rs)
        end
      end
    end
  end.
Definition handle_orders (x y : N) (os : list order) : option (N * N * list N) :=
  if (x =? 0) || (y =? 0) then None                      (* ErrInvalidLiquidityPool *)
  else swaps (N.to_nat MaxOrdersSettledPerBlock) x y os.

(* ---------------------------------------------------------------- liquidity points *)
Definition points := list (N * N).                       (* (address, points), in slice order *)
Record pool := mkPool { p_points : points; p_total : N }.

Fixpoint lookup (a : N) (ps : points) : option N :=
  match ps with
  | [] => None
  | (b, v) :: r => if a =? b then Some v else lookup a r
  end.
Fixpoint update (a v : N) (ps : points) : points :=
  match ps with
  | [] => []
  | (b, w) :: r => if a =? b then (b, v) :: r else (b, w) :: update a v r
  end.
Definition sum_points (ps : points) : N := fold_right (fun e acc => snd e + acc) 0 ps.
Definition drop_zero (ps : points) : points := filter (fun e => negb (snd e =? 0)) ps.

(* Pool.AddPoints *)
Definition add_points (p : pool) (a pts : N) : option pool :=
  if pts =? 0 then Some p
  else match lookup a (p_points p) with
       | Some v =>
         if (two64 <=? p_total p + pts) || (two64 <=? v + pts) then None
         else Some (mkPool (update a (v + pts) (p_points p)) (p_total p + pts))
       | None =>
         if two64 <=? p_total p + pts then None
         else if MaxLiquidityProviders <=? N.of_nat (length (p_points p)) then None
         else Some (mkPool (p_points p ++ [(a, pts)]) (p_total p + pts))
       end.

(* ---- withdrawals: requests are (address, percent) *)
Definition wreq := (N * N)%type.

(* first loop: total points to remove, computed against the UNmodified holder points *)
Fixpoint total_to_remove (ps : points) (ws : list wreq) (acc : N) : option N :=
  match ws with
  | [] => Some acc
  | (a, pct) :: r =>
    match lookup a ps with
    | None => total_to_remove ps r acc
    | Some v => let t := acc + SafeMulDiv v pct 100 in
                if two64 <=? t then None else total_to_remove ps r t
    end
  end.

(* second loop: sequential, holder points are updated as it goes; returns pool, paidX, paidY and the payouts
   (address, points burned, xShare, yShare) *)
Fixpoint pay_withdrawals (p : pool) (totX totY totRemove : N) (ws : list wreq) (paidX paidY : N)
  : pool * N * N * list (N * N * N * N) :=
  match ws with
  | [] => (p, paidX, paidY, [])
  | (a, pct) :: r =>
    match lookup a (p_points p) with
    | None => pay_withdrawals p totX totY totRemove r paidX paidY
    | Some v =>
      let pts := SafeMulDiv v pct 100 in
      let yShare := SafeMulDiv totY pts totRemove in
      let xShare := SafeMulDiv totX pts totRemove in
      let p' := mkPool (update a (sub64 v pts) (p_points p)) (sub64 (p_total p) pts) in
      let '(pf, px, py, outs) := pay_withdrawals p' totX totY totRemove r (add64 paidX xShare) (add64 paidY yShare) in
      (pf, px, py, (a, pts, xShare, yShare) :: outs)
    end
  end.

Inductive wresult :=
| WUnchanged (p : pool)                                   (* nothing to remove: only ghost entries are dropped *)
| WDone (p : pool) (x y : N) (outs : list (N * N * N * N))
| WError.

Definition handle_withdraw (p : pool) (x y : N) (ws : list wreq) : wresult :=
  match ws with
  | [] => WUnchanged p
  | _ =>
    let p0 := mkPool (drop_zero (p_points p)) (p_total p) in
    match total_to_remove (p_points p0) ws 0 with
    | None => WError
    | Some tot =>
      if (tot =? 0) || (p_total p0 =? 0) then WUnchanged p0
      else
        let totY := SafeMulDiv y tot (p_total p0) in
        let totX := SafeMulDiv x tot (p_total p0) in
        let '(p1, paidX, paidY, outs) := pay_withdrawals p0 totX totY tot ws 0 0 in
        let p2 := mkPool (drop_zero (p_points p1)) (p_total p1) in
        if p_total p2 =? 0 then WError                      (* lib.ErrZeroLiquidityPool *)
        else WDone p2 (sub64 x paidX) (sub64 y paidY) outs
    end
  end.

(* ---- deposits, pass 2 of handleBatchDeposit for the accepted deposits (address, amount); dead = the dead address *)
Definition deposit_points (totalPoints x y amount : N) : option N :=          (* liquidityDepositPoints *)
  if two64 <=? x + amount then None
  else let oldK := SqrtProductUint64 x y in
       let newK := SqrtProductUint64 (x + amount) y in
       if (oldK =? 0) || (newK <? oldK) then None
       else Some (SafeMulDiv totalPoints (newK - oldK) oldK).

Fixpoint distribute (p : pool) (x totalDL totalDeposit : N) (ds : list (N * N)) (distributed : N)
  : option (pool * N * N) :=
  match ds with
  | [] => Some (p, x, distributed)
  | (a, amt) :: r =>
    let share := SafeMulDiv totalDL amt totalDeposit in
    match add_points p a share with
    | None => None
    | Some p' =>
      if two64 <=? x + amt then None
      else distribute p' (x + amt) totalDL totalDeposit r (add64 distributed share)
    end
  end.

Definition sum_amounts (ds : list (N * N)) : N := fold_right (fun e acc => snd e + acc) 0 ds.

Definition handle_deposit (dead : N) (p : pool) (x y : N) (ds : list (N * N)) : option (pool * N) :=
  let total := sum_amounts ds in
  if two64 <=? total then None
  else if (total =? 0) || (x =? 0) || (y =? 0) then Some (p, x)
  else
    let L := p_total p in
    match (if L =? 0 then add_points p dead (SqrtProductUint64 x y) else Some p) with
    | None => None
    | Some p0 =>
      let L := if L =? 0 then SqrtProductUint64 x y else L in
      match deposit_points L x y total with
      | None => None
      | Some totalDL =>
        match distribute p0 x totalDL total ds 0 with
        | None => None
        | Some (p1, x1, distributed) =>
          match add_points p1 dead (sub64 totalDL distributed) with
          | None => None
          | Some p2 => Some (p2, x1)
          end
        end
      end
    end.

(* ---------------------------------------------------------------- invariants the theorems speak about *)
Definition pool_ok (p : pool) : Prop := sum_points (p_points p) = p_total p /\ p_total p < two64.
Definition sum_receipts (rs : list N) : N := fold_right N.add 0 rs.
Definition sum_y (outs : list (N * N * N * N)) : N := fold_right (fun e acc => snd e + acc) 0 outs.
Definition sum_x (outs : list (N * N * N * N)) : N := fold_right (fun e acc => snd (fst e) + acc) 0 outs.
Definition sum_burned (outs : list (N * N * N * N)) : N := fold_right (fun e acc => snd (fst (fst e)) + acc) 0 outs.
Definition pct_ok (ws : list wreq) : Prop := Forall (fun w => 1 <= snd w <= 100) ws.
