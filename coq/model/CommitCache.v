(* CommitCache.v — the validated-result cache of a replica (properties C03 / C11: what a node commits for a block is the application
   of that block to its committed state, on every path).
   mirrors: bft/bft.go StartProposeVotePhase (b.BlockResult, err = ValidateProposal(..): the state machine is reset, the block applied
            and left applied; the result is cached), RoundInterrupt (cache cleared, state machine reset), NewRound (cache cleared
            since the repair recorded in KNOWN_FINDINGS.txt), StartProposePhase -> controller ProduceProposal (builds a block on the
            state machine and RESETS it when done); controller/block.go HandlePeerBlock (the cached result is used when its block
            hash equals the peer block's) and CommitCertificate (with a cached result the store is committed AS IT IS; without, the
            state machine is reset and the block applied).
   The state machine is abstract: [apply] is any function. Within a round the phases are sequential: a replica builds a proposal
   (if it is the leader) before it validates one. *)
From Coq Require Import List Bool.
Import ListNotations.

Section CC.
Variable S B : Type.                      (* states, blocks *)
Variable apply : S -> B -> S.
Variable beq : B -> B -> bool.

Record rep := mkRep { committed : S; working : S; cache : option B; validated : bool (* a proposal was validated in this round *) }.
Inductive cop := OValidate (b : B) | OProduce | ONewRound | ORoundInterrupt | OCommitPeer (b : B).

(* clear_on_new_round = true: the code as repaired; false: before (the cache survived NewHeight / NewRound) *)
Definition cstep (clear_on_new_round : bool) (r : rep) (o : cop) : rep :=
  match o with
  | OValidate b => mkRep (committed r) (apply (committed r) b) (Some b) true
  | OProduce => if validated r then r else mkRep (committed r) (committed r) (cache r) false
  | ONewRound => mkRep (committed r) (working r) (if clear_on_new_round then None else cache r) false
  | ORoundInterrupt => mkRep (committed r) (committed r) None (validated r)
  | OCommitPeer b =>
      let s' := match cache r with
                | Some b' => if beq b' b then working r else apply (committed r) b
                | None => apply (committed r) b
                end in
      mkRep s' s' None false
  end.
(* what the commit of block b must produce *)
Definition commit_ok (r : rep) (o : cop) (r' : rep) : Prop :=
  match o with OCommitPeer b => committed r' = apply (committed r) b | _ => True end.
Fixpoint crun (clear : bool) (r : rep) (ops : list cop) : Prop :=
  match ops with
  | [] => True
  | o :: rest => commit_ok r o (cstep clear r o) /\ crun clear (cstep clear r o) rest
  end.
End CC.
Arguments OValidate {B}. Arguments OProduce {B}. Arguments ONewRound {B}. Arguments ORoundInterrupt {B}. Arguments OCommitPeer {B}.
Arguments mkRep {S B}. Arguments committed {S B}. Arguments working {S B}. Arguments cache {S B}. Arguments validated {S B}.
Arguments cstep {S B}. Arguments commit_ok {S B}. Arguments crun {S B}.

(* correspondence: a history driven on a real node (c03: validate / new round + produce proposal / commit of the peer block) and whether
   the state root committed with each block was the block's *)
Definition app_l (s : list nat) (b : nat) : list nat := s ++ [b].
Record cc_case := mkCCase { cc_ops : list (cop nat); cc_committed_root_is_header_root : bool }.
Definition cc_ok (c : cc_case) : bool := cc_committed_root_is_header_root c.
