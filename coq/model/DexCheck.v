(* DexCheck.v — correspondence (M) and property-predicate (V) evaluators for the C20 cases. *)
From Coq Require Import NArith List Bool.
From V Require Import U64 Extracted Dex.
Import ListNotations.
Local Open Scope N_scope.

Fixpoint idx_filter {A} (bad : A -> bool) (i : N) (l : list A) : list N :=
  match l with
  | [] => []
  | x :: r => if bad x then i :: idx_filter bad (i + 1) r else idx_filter bad (i + 1) r
  end.
Fixpoint nlist_eqb (a b : list N) : bool :=
  match a, b with [], [] => true | x :: a', y :: b' => (x =? y) && nlist_eqb a' b' | _, _ => false end.
Fixpoint plist_eqb (a b : list (N * N)) : bool :=
  match a, b with [], [] => true | (x, u) :: a', (y, v) :: b' => (x =? y) && (u =? v) && plist_eqb a' b' | _, _ => false end.
Definition pool_eqb (p q : pool) : bool := plist_eqb (p_points p) (p_points q) && (p_total p =? p_total q).

(* ---- generated functions evaluated on the same arguments as the Go functions (translator self-validation) *)
Inductive fn_case :=
| FnDY (x y dX r : N) | FnMulDiv (a b c r : N) | FnSqrt (x y r : N)
| FnPct (a b r : N) | FnReduce (a b r : N) | FnPctDiv (a b r : N) | FnMaj23 (t r : N).
Definition fn_agrees (c : fn_case) : bool :=
  match c with
  | FnDY x y dX r => SafeComputeDY x y dX =? r
  | FnMulDiv a b c r => SafeMulDiv a b c =? r
  | FnSqrt x y r => SqrtProductUint64 x y =? r
  | FnPct a b r => Uint64Percentage a b =? r
  | FnReduce a b r => Uint64ReducePercentage a b =? r
  | FnPctDiv a b r => Uint64PercentageDiv a b =? r
  | FnMaj23 t r => minimumMaj23 t =? r
  end.
Definition fn_mismatches (cs : list fn_case) : list N := idx_filter (fun c => negb (fn_agrees c)) 0 cs.
(* property reading of the formula itself: a swap output is below the reserve and does not lower the product *)
Definition fn_ok (c : fn_case) : bool :=
  match c with
  | FnDY x y dX r => if (0 <? x) && (0 <? y) then (r <? y) && (x * y <=? (x + dX) * (y - r)) else true
  | _ => true
  end.
Definition fn_violations (cs : list fn_case) : list N := idx_filter (fun c => negb (fn_ok c)) 0 cs.

(* ---- swap batches: orders are given in PROCESSING order (the harness applies the implementation's own pseudorandom
   permutation), receipts observed are mapped back to that order *)
Record swap_case := mkSwap { sw_x : N; sw_y : N; sw_orders : list order; sw_obs : option (N * N * list N) }.
Definition swap_agrees (c : swap_case) : bool :=
  match handle_orders (sw_x c) (sw_y c) (sw_orders c), sw_obs c with
  | None, None => true
  | Some (x, y, rs), Some (x', y', rs') => (x =? x') && (y =? y') && nlist_eqb rs rs'
  | _, _ => false
  end.
Definition swap_mismatches (cs : list swap_case) : list N := idx_filter (fun c => negb (swap_agrees c)) 0 cs.
Fixpoint receipts_ok (os : list order) (rs : list N) : bool :=
  match os, rs with
  | [], [] => true
  | o :: os', r :: rs' => ((r =? 0) || (o_requested o <=? r)) && receipts_ok os' rs'
  | _, _ => false
  end.
Definition swap_ok (c : swap_case) : bool :=
  match sw_obs c with
  | None => true
  | Some (x', y', rs) =>
    let paid := fold_right N.add 0 rs in
    (paid <? sw_y c) && (y' + paid =? sw_y c) && (sw_x c * sw_y c <=? x' * y') && receipts_ok (sw_orders c) rs
  end.
Definition swap_violations (cs : list swap_case) : list N := idx_filter (fun c => negb (swap_ok c)) 0 cs.

(* ---- withdrawals.  Observation: kind 0 = pool untouched apart from ghost removal, 1 = done, 2 = error;
   credits are per-address account credit totals, sorted by address *)
Record wd_case := mkWd { wd_pool : pool; wd_x : N; wd_y : N; wd_local : bool; wd_reqs : list wreq;
                         wd_kind : N; wd_pool' : pool; wd_x' : N; wd_y' : N; wd_credits : list (N * N) }.

Fixpoint credit_add (a v : N) (l : list (N * N)) : list (N * N) :=
  match l with
  | [] => [(a, v)]
  | (b, w) :: r => if a =? b then (b, w + v) :: r else if a <? b then (a, v) :: l else (b, w) :: credit_add a v r
  end.
Definition credits_of (local : bool) (outs : list (N * N * N * N)) : list (N * N) :=
  fold_left (fun acc o => let '(a, _, xs, ys) := o in credit_add a (if local then xs else ys) acc) outs [].
Definition nonzero_credits (l : list (N * N)) : list (N * N) := filter (fun e => negb (snd e =? 0)) l.

Definition wd_agrees (c : wd_case) : bool :=
  match handle_withdraw (wd_pool c) (wd_x c) (wd_y c) (wd_reqs c) with
  | WError => wd_kind c =? 2
  | WUnchanged p =>
    negb (wd_kind c =? 2) && pool_eqb p (wd_pool' c) && (wd_x c =? wd_x' c) && (wd_y c =? wd_y' c) &&
    plist_eqb [] (nonzero_credits (wd_credits c))
  | WDone p x y outs =>
    negb (wd_kind c =? 2) && pool_eqb p (wd_pool' c) && (x =? wd_x' c) && (y =? wd_y' c) &&
    plist_eqb (nonzero_credits (credits_of (wd_local c) outs)) (nonzero_credits (wd_credits c))
  end.
Definition wd_mismatches (cs : list wd_case) : list N := idx_filter (fun c => negb (wd_agrees c)) 0 cs.
Definition wd_ok (c : wd_case) : bool :=
  if wd_kind c =? 2 then true else
    let paid := fold_right (fun e acc => snd e + acc) 0 (wd_credits c) in
    let reserve := if wd_local c then wd_x c else wd_y c in
    let reserve' := if wd_local c then wd_x' c else wd_y' c in
    (sum_points (p_points (wd_pool' c)) =? p_total (wd_pool' c)) &&      (* points still sum to the total *)
    (reserve' + paid =? reserve) &&                                       (* reserve debited by exactly what was paid *)
    (p_total (wd_pool' c) <=? p_total (wd_pool c)) &&
    (* the batch never takes more than the burned fraction of the reserve *)
    (paid * p_total (wd_pool c) <=? reserve * (p_total (wd_pool c) - p_total (wd_pool' c))).
Definition wd_violations (cs : list wd_case) : list N := idx_filter (fun c => negb (wd_ok c)) 0 cs.

(* ---- deposits *)
Record dep_case := mkDep { dp_dead : N; dp_pool : pool; dp_x : N; dp_y : N; dp_deps : list (N * N);
                           dp_obs : option (pool * N) }.
Definition dep_agrees (c : dep_case) : bool :=
  match handle_deposit (dp_dead c) (dp_pool c) (dp_x c) (dp_y c) (dp_deps c), dp_obs c with
  | None, None => true
  | Some (p, x), Some (p', x') => pool_eqb p p' && (x =? x')
  | _, _ => false
  end.
Definition dep_mismatches (cs : list dep_case) : list N := idx_filter (fun c => negb (dep_agrees c)) 0 cs.
Definition dep_ok (c : dep_case) : bool :=
  match dp_obs c with
  | None => true
  | Some (p', x') => (sum_points (p_points p') =? p_total p') && (p_total (dp_pool c) <=? p_total p') &&
                     ((x' =? dp_x c) || (x' =? dp_x c + sum_amounts (dp_deps c)))
  end.
Definition dep_violations (cs : list dep_case) : list N := idx_filter (fun c => negb (dep_ok c)) 0 cs.
