(* TrieCheck.v — correspondence (M) and property-predicate (V) evaluators for the tree cases (C08, C03). *)
From Coq Require Import NArith List Bool.
From V Require Import Trie.
Import ListNotations.

Fixpoint idx_filter {A} (bad : A -> bool) (i : N) (l : list A) : list N :=
  match l with
  | [] => []
  | x :: r => if bad x then i :: idx_filter bad (i + 1)%N r else idx_filter bad (i + 1)%N r
  end.

(* a key of width w given as a number (MSB first) *)
Fixpoint nbits (w : nat) (n : N) : bits :=
  match w with O => [] | S w' => N.testbit n (N.of_nat w') :: nbits w' n end.
Definition kb := nbits.

Fixpoint tree_eqb (a b : tree) : bool :=
  match a, b with
  | Leaf k v, Leaf k' v' => bits_eqb k k' && (v =? v')%N
  | Node p l r, Node p' l' r' => bits_eqb p p' && tree_eqb l l' && tree_eqb r r'
  | _, _ => false
  end.

(* a history is a list of batches; a batch is committed sequentially or in parallel (the model result is the same) *)
Record trie_case := mkTrie {
  tc_w : nat; tc_vmin : N; tc_vmax : N;
  tc_batches : list (list op);
  tc_obs : tree }.                      (* the implementation's persisted tree after the last batch *)

Definition run_history (c : trie_case) : tree :=
  fold_left commit (tc_batches c) (empty_tree (tc_w c) (tc_vmin c) (tc_vmax c)).
Definition trie_agrees (c : trie_case) : bool := tree_eqb (run_history c) (tc_obs c).
Definition trie_mismatches (cs : list trie_case) : list N := idx_filter (fun c => negb (trie_agrees c)) 0%N cs.

(* ---- the property read off the implementation's tree alone: it is in canonical form and its leaves are exactly the
   key/value set the history ends in (computed here by plain association-list updates, no tree algorithm involved) *)
Fixpoint all_leavesb (P : bits -> bool) (t : tree) : bool :=
  match t with Leaf k _ => P k | Node _ l r => all_leavesb P l && all_leavesb P r end.
Fixpoint canonicalb (w : nat) (t : tree) : bool :=
  match t with
  | Leaf k _ => Nat.eqb (length k) w
  | Node p l r =>
    Nat.ltb (length p) w &&
    all_leavesb (is_prefixb (p ++ [false])) l && all_leavesb (is_prefixb (p ++ [true])) r &&
    canonicalb w l && canonicalb w r
  end.

Fixpoint set_assoc (k : bits) (v : N) (l : list (bits * N)) : list (bits * N) :=   (* sorted insert / overwrite *)
  match l with
  | [] => [(k, v)]
  | (k', v') :: r => if bits_eqb k k' then (k, v) :: r
                     else if bits_ltb k k' then (k, v) :: l else (k', v') :: set_assoc k v r
  end.
Fixpoint del_assoc (k : bits) (l : list (bits * N)) : list (bits * N) :=
  match l with
  | [] => []
  | (k', v') :: r => if bits_eqb k k' then r else (k', v') :: del_assoc k r
  end.
Definition map_op (m : list (bits * N)) (o : op) : list (bits * N) :=
  match o with OSet k v => set_assoc k v m | ODel k => del_assoc k m end.
Definition final_map (c : trie_case) : list (bits * N) :=
  fold_left (fun m b => fold_left map_op b m) (tc_batches c)
            [(min_key (tc_w c), tc_vmin c); (max_key (tc_w c), tc_vmax c)].
Fixpoint kvs_eqb (a b : list (bits * N)) : bool :=
  match a, b with
  | [], [] => true
  | (k, v) :: a', (k', v') :: b' => bits_eqb k k' && (v =? v')%N && kvs_eqb a' b'
  | _, _ => false
  end.
Definition trie_ok (c : trie_case) : bool :=
  canonicalb (tc_w c) (tc_obs c) && bits_eqb (tkey (tc_obs c)) [] && kvs_eqb (leaves (tc_obs c)) (final_map c).
Definition trie_violations (cs : list trie_case) : list N := idx_filter (fun c => negb (trie_ok c)) 0%N cs.
