(* BlockAuth.v — the two passes of fsm/state.go ApplyTransactions as far as AUTHORIZATION goes (property C05, block level).
   mirrors: ApplyTransactions: pass 1 runs CheckTx of EVERY transaction against the state at the start of the block; CheckTx
            either fails before any signature is looked at (the authorized signers cannot be resolved, the signer is not among
            them, stateless checks fail, ...) or hands the transaction's signature job(s) to the batch verifier; the batch
            positions are mapped back to transaction indices through the verifier's count before / after each CheckTx
            (batchToTxIdx); BatchVerifier.Verify returns the positions that do not verify; a transaction is "failed" when its
            CheckTx failed or one of its positions did not verify.  Pass 2 executes the transactions that are not failed with a
            no-op verifier - it never looks at a signature again.
   So that only authorized transactions execute is a NON-LOCAL invariant of the two passes: every transaction that reaches pass 2
   either was refused in pass 1 or had ALL its signature jobs in the batch, under ITS index.  The stateful part of pass 2 (a
   transaction that passed pass 1 may still fail on funds etc.) is an arbitrary predicate here. *)
From Coq Require Import NArith List Bool Arith.
Import ListNotations.

(* what pass 1 sees of a transaction: whether CheckTx returned without error, and the signature jobs it handed to the batch
   verifier on the way (true = the signature verifies).  CheckSignature adds the job BEFORE it compares the signer with the
   authorized signers, so a transaction whose CheckTx fails may still have a job in the batch; one that fails earlier (unknown
   validator / order, stateless checks) has none *)
Record tx := mkTx { t_ok : bool; t_jobs : list bool }.
Definition no_tx : tx := mkTx false [].
Definition authorized (t : tx) : bool := t_ok t && forallb (fun b => b) (t_jobs t).

(* pass 1: (indices whose CheckTx failed, batchToTxIdx, the batch) *)
Fixpoint pass1 (txs : list tx) (i : nat) : list nat * list nat * list bool :=
  match txs with
  | [] => ([], [], [])
  | t :: rest =>
    let '(failed, owner, batch) := pass1 rest (S i) in
    ((if t_ok t then failed else i :: failed), repeat i (length (t_jobs t)) ++ owner, t_jobs t ++ batch)
  end.
(* BatchVerifier.Verify: the positions that do not verify *)
Fixpoint bad_positions (batch : list bool) (k : nat) : list nat :=
  match batch with [] => [] | b :: r => if b then bad_positions r (S k) else k :: bad_positions r (S k) end.
Definition failed_set (txs : list tx) : list nat :=
  let '(failed, owner, batch) := pass1 txs 0 in
  failed ++ map (fun p => nth p owner 0) (bad_positions batch 0).
Definition reaches_pass2 (txs : list tx) (i : nat) : bool := negb (existsb (Nat.eqb i) (failed_set txs)).
(* pass 2: whatever the stateful execution decides, among the transactions that reach it *)
Definition executed (txs : list tx) (stateful_ok : nat -> bool) : list nat :=
  filter (fun i => reaches_pass2 txs i && stateful_ok i) (seq 0 (length txs)).

(* ---- variants that looked harmless (seeded changes of earlier rounds): *)
(* the batch position mapped to the NEXT transaction (slot bookkeeping shifted by one) *)
Definition failed_set_shifted (txs : list tx) : list nat :=
  let '(failed, owner, batch) := pass1 txs 0 in
  failed ++ map (fun p => nth (S p) owner 0) (bad_positions batch 0).
(* a pass-1 failure of a transaction is forgotten when "an earlier transaction of the block may create what it needs" *)
Fixpoint pass1_forgetful (forget : nat -> bool) (txs : list tx) (i : nat) : list nat * list nat * list bool :=
  match txs with
  | [] => ([], [], [])
  | t :: rest =>
    let '(failed, owner, batch) := pass1_forgetful forget rest (S i) in
    ((if t_ok t || forget i then failed else i :: failed), repeat i (length (t_jobs t)) ++ owner, t_jobs t ++ batch)
  end.
Definition failed_set_forgetful forget (txs : list tx) : list nat :=
  let '(failed, owner, batch) := pass1_forgetful forget txs 0 in
  failed ++ map (fun p => nth p owner 0) (bad_positions batch 0).

(* ---- correspondence cases: blocks run through the real ApplyTransactions; per transaction the harness knows what pass 1 must
   see (whether CheckTx passes on the start state, which signature jobs it submits and whether they verify - it made the
   signatures) and observes: 0 = executed, 1 = failed with the batch verifier's "invalid signature", 2 = failed otherwise *)
Record ba_case := mkBAC { ba_txs : list (bool * list bool * N) }.
Definition ba_model (c : ba_case) : list tx := map (fun e => mkTx (fst (fst e)) (snd (fst e))) (ba_txs c).
Definition sig_failed (txs : list tx) (i : nat) : bool :=
  let '(_, owner, batch) := pass1 txs 0 in existsb (Nat.eqb i) (map (fun p => nth p owner 0) (bad_positions batch 0)).
Definition ba_agrees (c : ba_case) : bool :=
  let txs := ba_model c in
  forallb (fun ie => let '(i, e) := ie in
                     let code := snd e in
                     Bool.eqb (N.eqb code 1) (sig_failed txs i) &&           (* exactly the owners of bad jobs fail on the signature *)
                     (negb (N.eqb code 0) || reaches_pass2 txs i))            (* what executed had reached the second pass *)
          (combine (seq 0 (length (ba_txs c))) (ba_txs c)).
(* the property on the observation alone: what executed was authorized *)
Definition ba_ok (c : ba_case) : bool :=
  forallb (fun e => negb (N.eqb (snd e) 0) || (fst (fst e) && forallb (fun b => b) (snd (fst e)))) (ba_txs c).
Fixpoint idxba {A} (bad : A -> bool) (i : N) (l : list A) : list N :=
  match l with [] => [] | x :: r => if bad x then i :: idxba bad (i + 1)%N r else idxba bad (i + 1)%N r end.
Definition ba_mismatches (cs : list ba_case) : list N := idxba (fun c => negb (ba_agrees c)) 0%N cs.
Definition ba_violations (cs : list ba_case) : list N := idxba (fun c => negb (ba_ok c)) 0%N cs.
