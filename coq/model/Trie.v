(* Trie.v — the state-commitment tree as a mathematical object (properties C08, C03, C16).
   mirrors: store/smt.go: set(), delete(), traverse() (structure only), initializeTree(), updateParentValue() (what a
            parent's value is a hash OF), Commit/CommitParallel/addSyntheticBorders (as op sequences), valueOpToSMTNode.
   A compressed binary trie over fixed-width bit keys (MSB first).  Internal nodes are keyed by the greatest common
   prefix of the keys below them; the root is the node with the empty prefix (its stored key, RootKey, never enters any
   hash).  The tree always contains the two sentinel leaves min = 0...0 and max = 1...1.
   Hashing is symbolic: [hash] returns a term, i.e. an ideal (injective by construction) hash of the 4-tuple
   (left key, left value, right key, right value) — the code hashes the concatenation of those four byte strings. *)
From Coq Require Import NArith List Bool.
Import ListNotations.

Definition bits := list bool.

Fixpoint bits_eqb (a b : bits) : bool :=
  match a, b with
  | [], [] => true
  | x :: a', y :: b' => Bool.eqb x y && bits_eqb a' b'
  | _, _ => false
  end.
Fixpoint is_prefixb (p k : bits) : bool :=
  match p, k with
  | [], _ => true
  | x :: p', y :: k' => Bool.eqb x y && is_prefixb p' k'
  | _ :: _, [] => false
  end.
(* greatest common prefix *)
Fixpoint gcp (a b : bits) : bits :=
  match a, b with
  | x :: a', y :: b' => if Bool.eqb x y then x :: gcp a' b' else []
  | _, _ => []
  end.
(* bit of k at position n (false past the end; never used past the end for well-formed trees) *)
Definition bit_at (n : nat) (k : bits) : bool := nth n k false.
(* numeric (lexicographic for equal width) order on bit strings: key.cmp *)
Fixpoint bits_ltb (a b : bits) : bool :=
  match a, b with
  | x :: a', y :: b' => (negb x && y) || (Bool.eqb x y && bits_ltb a' b')
  | [], _ :: _ => true
  | _, [] => false
  end.

Inductive tree :=
| Leaf (k : bits) (v : N)
| Node (p : bits) (l r : tree).

Definition tkey (t : tree) : bits := match t with Leaf k _ => k | Node p _ _ => p end.

(* new parent of target leaf and current subtree: keyed by their gcp, children ordered by the target's next bit *)
Definition mkparent (k : bits) (v : N) (t : tree) : tree :=
  let g := gcp k (tkey t) in
  if bit_at (length g) k then Node g t (Leaf k v) else Node g (Leaf k v) t.

(* set(): update in place when the key exists, otherwise splice a new parent in at the point of divergence *)
Fixpoint ins (k : bits) (v : N) (t : tree) : tree :=
  match t with
  | Leaf k' _ => if bits_eqb k k' then Leaf k v else mkparent k v t
  | Node p l r =>
    if is_prefixb p k
    then if bit_at (length p) k then Node p l (ins k v r) else Node p (ins k v l) r
    else mkparent k v t
  end.

(* delete(): the parent of the deleted leaf is replaced by the leaf's sibling; absent keys are a no-op *)
Definition is_leaf_with (k : bits) (t : tree) : bool :=
  match t with Leaf k' _ => bits_eqb k k' | Node _ _ _ => false end.
Fixpoint del (k : bits) (t : tree) : tree :=
  match t with
  | Leaf _ _ => t
  | Node p l r =>
    if is_prefixb p k
    then if bit_at (length p) k
         then (if is_leaf_with k r then l else Node p l (del k r))
         else (if is_leaf_with k l then r else Node p (del k l) r)
    else t
  end.

(* leaves, left to right *)
Fixpoint leaves (t : tree) : list (bits * N) :=
  match t with
  | Leaf k v => [(k, v)]
  | Node _ l r => leaves l ++ leaves r
  end.
Definition keys (t : tree) : list bits := map fst (leaves t).

(* the empty tree of width w: root with the two sentinels (initializeTree) *)
Definition min_key (w : nat) : bits := repeat false w.
Definition max_key (w : nat) : bits := repeat true w.
Definition empty_tree (w : nat) (vmin vmax : N) : tree := Node [] (Leaf (min_key w) vmin) (Leaf (max_key w) vmax).

(* ---- canonical form: every internal node is keyed by the gcp of everything below it, the left subtree continues with
   bit 0 and the right with bit 1 *)
Fixpoint all_leaves (P : bits -> Prop) (t : tree) : Prop :=
  match t with
  | Leaf k _ => P k
  | Node _ l r => all_leaves P l /\ all_leaves P r
  end.
Fixpoint canonical (w : nat) (t : tree) : Prop :=
  match t with
  | Leaf k _ => length k = w
  | Node p l r =>
    (length p < w)%nat /\
    all_leaves (fun k => is_prefixb (p ++ [false]) k = true) l /\
    all_leaves (fun k => is_prefixb (p ++ [true]) k = true) r /\
    canonical w l /\ canonical w r
  end.

(* ---- symbolic Merkle hashing (updateParentValue): a node's value commits to both children's keys and values *)
Inductive digest :=
| DLeaf (v : N)                                         (* a leaf's value is the (real) hash of the stored value: opaque N *)
| DNode (lk : bits) (lv : digest) (rk : bits) (rv : digest).
Fixpoint hash (t : tree) : digest :=
  match t with
  | Leaf _ v => DLeaf v
  | Node _ l r => DNode (tkey l) (hash l) (tkey r) (hash r)
  end.
Definition root_digest (t : tree) : digest := hash t.

(* ---- batches.  An operation is a set or a delete of a (hashed) key *)
Inductive op := OSet (k : bits) (v : N) | ODel (k : bits).
Definition op_key (o : op) : bits := match o with OSet k _ => k | ODel k => k end.
Definition apply_op (t : tree) (o : op) : tree :=
  match o with OSet k v => ins k v t | ODel k => del k t end.
Definition apply_ops (t : tree) (os : list op) : tree := fold_left apply_op os t.

(* sequential Commit: the pending operations (one per key, arbitrary map order) are sorted by key and applied left to right *)
Fixpoint insert_sorted (o : op) (l : list op) : list op :=
  match l with
  | [] => [o]
  | x :: r => if bits_ltb (op_key x) (op_key o) then x :: insert_sorted o r else o :: l
  end.
Definition sort_ops (os : list op) : list op := fold_right insert_sorted [] os.
Definition commit (t : tree) (os : list op) : tree := apply_ops t (sort_ops os).

(* CommitParallel: synthetic borders are inserted (low/high key of each 3-bit prefix range, except the two that coincide
   with the sentinels), each of the 8 groups is applied by its own worker — modelled as ANY interleaving [sched] of the
   sorted per-prefix groups — and the borders are deleted again. *)
Definition prefix3 (k : bits) : bits := firstn 3 k.
Definition border_low (w : nat) (p : bits) : bits := p ++ repeat false (w - 3).
Definition border_high (w : nat) (p : bits) : bits := p ++ repeat true (w - 3).
Definition all_prefix3 : list bits :=
  [[false;false;false];[false;false;true];[false;true;false];[false;true;true];
   [true;false;false];[true;false;true];[true;true;false];[true;true;true]].
Definition borders (w : nat) : list bits :=
  flat_map (fun p => (if bits_eqb p [false;false;false] then [] else [border_low w p]) ++
                     (if bits_eqb p [true;true;true] then [] else [border_high w p])) all_prefix3.
Definition add_borders (w : nat) (bv : N) (t : tree) : tree := fold_left (fun t b => ins b bv t) (borders w) t.
Definition remove_borders (w : nat) (t : tree) : tree := fold_left (fun t b => del b t) (borders w) t.
(* [sched] is the order in which the workers' individual operations take effect: any list that is a permutation of the
   batch keeping each group's sorted order is a possible schedule *)
Definition commit_parallel (w : nat) (bv : N) (t : tree) (sched : list op) : tree :=
  remove_borders w (apply_ops (add_borders w bv t) sched).

(* the abstract content of a tree: a finite map from keys to values, as the sorted association list of its leaves *)
Fixpoint assoc (k : bits) (l : list (bits * N)) : option N :=
  match l with
  | [] => None
  | (k', v) :: r => if bits_eqb k k' then Some v else assoc k r
  end.
Definition lookup (k : bits) (t : tree) : option N := assoc k (leaves t).
