(* FramesCheck.v — handshake correspondence cases for Frames.v (property C17): an honest endpoint B (identity 3, ephemeral key 10,
   network 1, chain 1) against a misbehaving endpoint M (identity 2, ephemeral key 20) that may present the honest identity A
   (identity 1; A's own session with M used the ephemeral keys 30 and 21). *)
From Coq Require Import NArith List Bool.
From V Require Import Bytes Frames.
Import ListNotations.
Local Open Scope N_scope.

(* an injective, symmetric pairing of two small key numbers *)
Definition dh (a b : N) : N := if a <? b then a * 1000 + b else b * 1000 + a.
Definition endpoint_b : party := mkParty 3 10 1 1.
Record hs_case := mkHC { hc_hello : hello; hc_accepted : bool; hc_as : N }.
Definition hs_agrees (c : hs_case) : bool :=
  Bool.eqb (accepts dh endpoint_b (hc_hello c)) (hc_accepted c) &&
  (negb (hc_accepted c) || (hc_as c =? h_signer (hc_hello c))).
Fixpoint idxh {A} (bad : A -> bool) (i : N) (l : list A) : list N :=
  match l with [] => [] | x :: r => if bad x then i :: idxh bad (i + 1) r else idxh bad (i + 1) r end.
Definition hs_mismatches (cs : list hs_case) : list N := idxh (fun c => negb (hs_agrees c)) 0 cs.
(* the property: B never accepts the session as coming from A (who never talked to B), nor from another network / chain, nor as
   coming from B itself (identity 3: a reflected proof) *)
Definition hs_violations (cs : list hs_case) : list N :=
  idxh (fun c => hc_accepted c && ((hc_as c =? 1) || (hc_as c =? 3) || negb (h_net (hc_hello c) =? 1) || negb (h_chain (hc_hello c) =? 1))) 0 cs.
