(* EvidenceCheck.v — correspondence cases for the double-signer index (property C14): the real fsm.HandleDoubleSigners called
   several times within one block on a real FSM (protocol v1: no per-committee cap), each call in a nested transaction that is
   discarded when the call fails. *)
From Coq Require Import NArith List Bool.
From V Require Import U64 Extracted Bft BftNet Evidence.
Import ListNotations.
Local Open Scope N_scope.

(* calls of one block: nested certificate-results transactions (refused as a whole on a known pair) and the chain's own certificate *)
Record ox_case := mkOX { ox_calls : list (bool * list (N * list N)); (* own?, double signers *) ox_obs : list bool; ox_percent : N; ox_stakes : list N }.
Fixpoint ox_run (calls : list (bool * list (N * list N))) (index : list (N * N)) (slashes : list N) : list bool * list N :=
  match calls with
  | [] => ([], slashes)
  | (own, ds) :: r => match (if own then handle_own_double_signers ds index else handle_double_signers ds index []) with
               | Some (index', out) => let '(oks, sl) := ox_run r index' (slashes ++ out) in (true :: oks, sl)
               | None => let '(oks, sl) := ox_run r index slashes in (false :: oks, sl)
               end
  end.
Record ix_case := mkIC { ix_calls : list (list (N * list N)); ix_obs : list bool; ix_percent : N; ix_stakes : list N }.
(* run the calls: (index, slashes so far, per call success) *)
Fixpoint ix_run (calls : list (list (N * list N))) (index : list (N * N)) (slashes : list N) : list bool * list N :=
  match calls with
  | [] => ([], slashes)
  | ds :: r => match handle_double_signers ds index [] with
               | Some (index', out) => let '(oks, sl) := ix_run r index' (slashes ++ out) in (true :: oks, sl)
               | None => let '(oks, sl) := ix_run r index slashes in (false :: oks, sl)
               end
  end.
Fixpoint slash_n (n : nat) (percent stake : N) : N :=
  match n with O => stake | S k => slash_n k percent (if (100 <=? percent) || (stake =? 0) then 0 else if percent =? 0 then stake else SafeMulDiv stake (100 - percent) 100) end.
Fixpoint bools_eqb (a b : list bool) : bool := match a, b with [], [] => true | x :: a', y :: b' => Bool.eqb x y && bools_eqb a' b' | _, _ => false end.
Definition ix_agrees (c : ix_case) : bool :=
  let '(oks, sl) := ix_run (ix_calls c) [] [] in
  bools_eqb oks (ix_obs c) &&
  forallb (fun e => let '(i, st) := e in
                    slash_n (length (filter (N.eqb (N.of_nat i)) sl)) (ix_percent c) 1000000 =? st)
          (combine (seq 0 (length (ix_stakes c))) (ix_stakes c)).
Definition ox_agrees (c : ox_case) : bool :=
  let '(oks, sl) := ox_run (ox_calls c) [] [] in
  bools_eqb oks (ox_obs c) &&
  forallb (fun e => let '(i, st) := e in
                    slash_n (length (filter (N.eqb (N.of_nat i)) sl)) (ox_percent c) 1000000 =? st)
          (combine (seq 0 (length (ox_stakes c))) (ox_stakes c)).
Fixpoint idxi {A} (bad : A -> bool) (i : N) (l : list A) : list N :=
  match l with [] => [] | x :: r => if bad x then i :: idxi bad (i + 1) r else idxi bad (i + 1) r end.
Definition ix_mismatches (cs : list ix_case) : list N := idxi (fun c => negb (ix_agrees c)) 0 cs.
(* the property on the observation alone: no (validator, height) pair is accepted twice *)
Definition pairs_of (ds : list (N * list N)) : list (N * N) := flat_map (fun d => map (fun h => (fst d, h)) (snd d)) ds.
Fixpoint has_dup (l : list (N * N)) : bool :=
  match l with [] => false | x :: r => existsb (fun y => (fst x =? fst y) && (snd x =? snd y)) r || has_dup r end.
Definition ix_ok (c : ix_case) : bool :=
  negb (has_dup (flat_map (fun e : list (N * list N) * bool => if snd e then pairs_of (fst e) else []) (combine (ix_calls c) (ix_obs c)))).
Definition ix_violations (cs : list ix_case) : list N := idxi (fun c => negb (ix_ok c)) 0 cs.

Definition ox_mismatches (cs : list ox_case) : list N := idxi (fun c => negb (ox_agrees c)) 0 cs.
(* the property on the observation alone: the chain's own certificate is never refused when its entries are well formed (every
   entry names at least one height, no pair twice within the list) *)
Definition ox_ok (c : ox_case) : bool :=
  forallb (fun e : (bool * list (N * list N)) * bool =>
             let '((own, ds), ok) := e in
             negb own || ok || existsb (fun d => match snd d with [] => true | _ => false end) ds || has_dup (pairs_of ds))
          (combine (ox_calls c) (ox_obs c)).
Definition ox_violations (cs : list ox_case) : list N := idxi (fun c => negb (ox_ok c)) 0 cs.
