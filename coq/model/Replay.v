(* Replay.v — replay protection (property C06).
   mirrors: fsm/transaction.go CheckTx (canonical encoding, CheckReplay: network id, chain id, transaction-hash lookup,
            creation-height window), CheckSignature (canonical public key, signature), fsm/state.go ApplyTransactions
            (same-block de-duplication by hash), the transaction index (never pruned).
   The hash is ideal (two byte strings have the same hash iff they are equal).  Signature verification and the decoding of
   public keys are parameters: [verify pk msg sig], [pk_canon pk] (the bytes are the canonical representation of the key they
   decode to) and [key_of pk] (the abstract key); the crypto assumptions are hypotheses of the theorems, never axioms. *)
From Coq Require Import NArith List Bool.
From V Require Import Bytes Proto.
Import ListNotations.
Local Open Scope N_scope.

Section Replay.
Variable verify : bytes -> bytes -> bytes -> bool.      (* public key bytes, message, signature *)
Variable pk_canon : bytes -> bool.
Variable key_of : bytes -> N.

Record rconf := mkRC { rc_net : N; rc_chain : N; rc_range : N }.

(* CheckReplay at [height] against everything included in earlier blocks *)
Definition check_replay (cf : rconf) (height : N) (included : list bytes) (bs : bytes) (t : ptx) : bool :=
  (t_net t =? rc_net cf) && (t_chain t =? rc_chain cf) &&
  ((height <? 2) ||
   (negb (existsb (bytes_eqb bs) included) &&
    (t_created t <=? height + rc_range cf) && ((if rc_range cf <? height then height - rc_range cf else 0) <=? t_created t))).

(* CheckTx as far as replay and authenticity are concerned (fees, message checks and authorization are other properties) *)
Definition accept (cf : rconf) (height : N) (included : list bytes) (bs : bytes) : option ptx :=
  match decode_tx bs with
  | Some t =>
    if canonical bs && check_replay cf height included bs t &&
       (match t_sig t with Some s => pk_canon (s_pk s) && verify (s_pk s) (sign_bytes t) (s_sig s) | None => false end)
    then Some t else None
  | None => None
  end.

(* a block: the byte strings offered, in order; a byte string already executed in this block stops nothing here: it is simply
   not executed again (ApplyTransactions rejects the whole block; a rejected block executes nothing, which is even stronger) *)
Fixpoint exec_block (cf : rconf) (height : N) (included seen : list bytes) (offered : list bytes) : list bytes :=
  match offered with
  | [] => []
  | b :: r =>
    if existsb (bytes_eqb b) seen then exec_block cf height included seen r
    else match accept cf height included b with
         | Some _ => b :: exec_block cf height included (b :: seen) r
         | None => exec_block cf height included seen r
         end
  end.
(* a chain: blocks at heights first, first+1, ...; returns the executed byte strings with their heights *)
Fixpoint exec_chain (cf : rconf) (height : N) (included : list bytes) (blocks : list (list bytes)) : list (N * bytes) :=
  match blocks with
  | [] => []
  | blk :: r => let ex := exec_block cf height included [] blk in
                map (fun b => (height, b)) ex ++ exec_chain cf (height + 1) (ex ++ included) r
  end.

(* the signed content of an executed byte string: what was signed, by which key, with which signature *)
Definition signed_content (bs : bytes) : option (bytes * N * bytes) :=
  match decode_tx bs with
  | Some t => match t_sig t with Some s => Some (sign_bytes t, key_of (s_pk s), s_sig s) | None => None end
  | None => None
  end.
End Replay.
