(* Commit.v — crash-consistent, all-or-nothing block commit (property C09).
   mirrors: store/store.go Commit / Flush: every component of a block - latest state (with tombstone purge), historical state,
            state-commitment tree nodes, block / transaction / certificate / event indexes, commit id and version - is written
            into ONE pebble batch, applied with db.Apply(batch, Sync); controller/block.go indexes the certificate and the block
            before Commit, into the same batch; store/store.go NewStoreWithDB re-opens at the version found in the database.
   The database is a write-ahead log of records; a record is one atomic batch.  A crash keeps a prefix of the records (a torn
   last record is dropped by the log reader) - pebble's contract, assumed.  What the node reads after a restart is the fold of
   the surviving records. *)
From Coq Require Import NArith List Bool.
Import ListNotations.
Local Open Scope N_scope.

(* keys are (component, key); components: 0 version, 1 latest state, 2 historical state (key, version), 3 tree, 4 index *)
Definition dbkey := (N * N * N)%type.             (* component, key, version (0 where unused) *)
Definition write := (dbkey * option N)%type.      (* Some v = set, None = delete *)
Definition batch := list write.
Definition db := list (dbkey * N).

Definition key_eqb (a b : dbkey) : bool :=
  (fst (fst a) =? fst (fst b)) && (snd (fst a) =? snd (fst b)) && (snd a =? snd b).
Fixpoint db_del (k : dbkey) (d : db) : db := match d with [] => [] | (k', v) :: r => if key_eqb k k' then db_del k r else (k', v) :: db_del k r end.
Definition db_set (k : dbkey) (v : N) (d : db) : db := (k, v) :: db_del k d.
Fixpoint db_get (k : dbkey) (d : db) : option N := match d with [] => None | (k', v) :: r => if key_eqb k k' then Some v else db_get k r end.
Definition apply_write (d : db) (w : write) : db := match snd w with Some v => db_set (fst w) v d | None => db_del (fst w) d end.
Definition apply_batch (d : db) (b : batch) : db := fold_left apply_write b d.
(* recovery: the surviving prefix of the log *)
Definition recover (log : list batch) (k : nat) : db := fold_left apply_batch (firstn k log) [].

(* ---- a block: the state operations it performs and the index entries it adds *)
Record block := mkBlk { b_sets : list (N * N); b_dels : list N; b_index : N; b_root : N }.
(* the single batch of Commit for the block that becomes version v *)
Definition commit_batch (v : N) (b : block) : batch :=
  map (fun e => ((1, fst e, 0), Some (snd e))) (b_sets b) ++ map (fun k => ((1, k, 0), None)) (b_dels b) ++        (* latest state *)
  map (fun e => ((2, fst e, v), Some (snd e))) (b_sets b) ++ map (fun k => ((2, k, v), Some 0)) (b_dels b) ++      (* history: 0 = tombstone *)
  [((3, 0, v), Some (b_root b)); ((4, v, 0), Some (b_index b)); ((0, 0, 0), Some v)].
Fixpoint log_of (v : N) (bs : list block) : list batch :=
  match bs with [] => [] | b :: r => commit_batch v b :: log_of (v + 1) r end.

(* ---- what a restarted node reads *)
Definition version_of (d : db) : N := match db_get (0, 0, 0) d with Some v => v | None => 0 end.
Definition latest_of (d : db) (k : N) : option N := db_get (1, k, 0) d.
Definition root_of (d : db) (v : N) : option N := db_get (3, 0, v) d.
Definition index_of (d : db) (v : N) : option N := db_get (4, v, 0) d.
(* the reference: the state after the first n blocks *)
Fixpoint ref_state (bs : list block) (n : nat) (k : N) : option N :=
  match n, bs with
  | O, _ => None
  | S m, [] => None
  | S m, _ =>
    let b := nth m bs (mkBlk [] [] 0 0) in
    if existsb (N.eqb k) (b_dels b) then None
    else match find (fun e => fst e =? k) (rev (b_sets b)) with
         | Some e => Some (snd e)
         | None => ref_state bs m k
         end
  end.

(* ---- the defect a seeded change introduced, as a model variant: the latest-state deletes go to the log as their own record
   BEFORE the block's batch *)
Definition commit_split (v : N) (b : block) : list batch :=
  [map (fun k => ((1, k, 0), None)) (b_dels b); commit_batch v b].
Fixpoint log_split (v : N) (bs : list block) : list batch :=
  match bs with [] => [] | b :: r => commit_split v b ++ log_split (v + 1) r end.

(* ---- correspondence cases: a crash image of a real node, re-opened *)
Record img_case := mkImg { im_blocks : N;          (* blocks the reference run committed *)
                           im_version : N;          (* the version the re-opened node reports *)
                           im_state_ok : bool;      (* latest-state scan = the reference scan at that version *)
                           im_root_ok : bool;       (* recomputed / recorded root = the reference root at that version *)
                           im_hist_ok : bool;       (* historical scans at every earlier version = the reference *)
                           im_index_ok : bool;      (* block / certificate index: exactly the heights <= version, right hashes *)
                           im_continue_ok : bool;   (* applying the next block gives the reference's next root *)
                           im_prev_version : N }.   (* the version of the previous (shorter) crash image *)
Definition img_ok (c : img_case) : bool :=
  (im_version c <=? im_blocks c) && im_state_ok c && im_root_ok c && im_hist_ok c && im_index_ok c && im_continue_ok c &&
  (im_prev_version c <=? im_version c).
Fixpoint idxc {A} (bad : A -> bool) (i : N) (l : list A) : list N :=
  match l with [] => [] | x :: r => if bad x then i :: idxc bad (i + 1) r else idxc bad (i + 1) r end.
Definition img_violations (cs : list img_case) : list N := idxc (fun c => negb (img_ok c)) 0 cs.
Definition img_mismatches (cs : list img_case) : list N := img_violations cs.
