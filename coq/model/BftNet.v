(* BftNet.v — several correct replicas (Bft.v) under an adversary that owns the network, the timers, the root-chain
   notifications, every oracle value, and a set of Byzantine validators (properties C01, C15).
   The adversary delivers ANY message it likes to any correct replica, at any time, any number of times; the only thing it
   cannot do is forge signatures: a certificate whose aggregate verifies can name a correct replica as signer only if that
   replica really sent that very vote ([genuine]).  Correct replicas' own messages need not be modelled as deliveries: an
   honest leader's message is one of the messages the adversary may deliver. *)
From Coq Require Import NArith List Bool.
From V Require Import U64 Extracted Bft.
Import ListNotations.
Local Open Scope N_scope.

(* a vote a correct replica has sent (PROPOSE_VOTE or PRECOMMIT_VOTE; election votes carry no value) *)
Record hvote := mkHV { hv_from : N; hv_view : view; hv_block : N; hv_results : N; hv_proposer : N }.

Record net := mkNet {
  n_reps : list (N * rstate);      (* the correct replicas: validator index and state *)
  n_votes : list hvote }.          (* every PROPOSE / PRECOMMIT vote sent by a correct replica so far *)

Inductive action :=
| AStep (i : N) (o : oracle)       (* replica i's phase timer fires *)
| ALeader (i : N) (m : lmsg)       (* a leader message reaches replica i *)
| AVote (i : N) (v : vmsg)         (* a replica message reaches replica i *)
| ARoot (i : N) (root : N).        (* a root-chain notification reaches replica i *)

Definition get_rep (n : net) (i : N) : option rstate :=
  match find (fun e => fst e =? i) (n_reps n) with Some e => Some (snd e) | None => None end.
Definition set_rep (n : net) (i : N) (r : rstate) : list (N * rstate) :=
  map (fun e => if fst e =? i then (i, r) else e) (n_reps n).

Definition votes_of (i : N) (outs : list out) : list hvote :=
  flat_map (fun o => match o with
                     | OVote ph root round b s pr _ =>
                       if (ph =? Phase_PROPOSE_VOTE) || (ph =? Phase_PRECOMMIT_VOTE) then [mkHV i (mkView root round ph) b s pr] else []
                     | _ => []
                     end) outs.

(* the validator set and LastRootHeightUpdated are the same at every replica (committee-preserving root-chain updates) *)
Definition conf_of (powers : list N) (lru : N) (i : N) : conf := mkConf i powers lru.

Definition net_step (powers : list N) (lru : N) (n : net) (a : action) : net :=
  match a with
  | AStep i o => match get_rep n i with
                 | Some r => let '(r', outs) := step (conf_of powers lru i) r o in mkNet (set_rep n i r') (votes_of i outs ++ n_votes n)
                 | None => n
                 end
  | ALeader i m => match get_rep n i with
                   | Some r => mkNet (set_rep n i (recv_lmsg (conf_of powers lru i) r m)) (n_votes n)
                   | None => n
                   end
  | AVote i v => match get_rep n i with
                 | Some r => mkNet (set_rep n i (recv_vote (conf_of powers lru i) r v)) (n_votes n)
                 | None => n
                 end
  | ARoot i root => match get_rep n i with
                    | Some r => mkNet (set_rep n i (root_update r root)) (n_votes n)
                    | None => n
                    end
  end.

(* ---- what the adversary cannot do *)
Definition is_correct (n : net) (i : N) : bool := existsb (fun e => fst e =? i) (n_reps n).
(* a verifying PROPOSE_VOTE / PRECOMMIT_VOTE certificate names a correct signer only if that replica sent exactly this vote
   (the signed payload is the view, both hashes and the proposer key) *)
Definition genuine (n : net) (q : qc) : Prop :=
  q_sigok q = true ->
  (vw_phase (q_view q) = Phase_PROPOSE_VOTE \/ vw_phase (q_view q) = Phase_PRECOMMIT_VOTE) ->
  forall s, In s (q_signers q) -> is_correct n s = true ->
            In (mkHV s (q_view q) (q_block q) (q_results q) (q_proposer q)) (n_votes n).
Definition genuine_opt (n : net) (q : option qc) : Prop := match q with Some h => genuine n h | None => True end.

Definition action_ok (n : net) (a : action) : Prop :=
  match a with
  | AStep i o => (* the controller's root height never goes back *)
                 match get_rep n i with Some r => r_root r <= o_root o | None => True end
  | ALeader _ m => genuine n (m_qc m) /\ genuine_opt n (m_high m)
  | AVote _ v => genuine_opt n (v_high v)
  | ARoot _ _ => True
  end.

(* executions *)
Fixpoint run (powers : list N) (lru : N) (n : net) (acts : list action) : net :=
  match acts with [] => n | a :: r => run powers lru (net_step powers lru n a) r end.
Fixpoint run_ok (powers : list N) (lru : N) (n : net) (acts : list action) : Prop :=
  match acts with [] => True | a :: r => action_ok n a /\ run_ok powers lru (net_step powers lru n a) r end.

(* the initial network: the correct replicas (distinct validator indices), each at its own root height, unlocked *)
Definition init_net (correct : list (N * N)) : net := mkNet (map (fun e => (fst e, r_init (snd e))) correct) [].

(* Byzantine validators: every validator that is not correct *)
Definition byz_power (powers : list N) (correct : list N) : N :=
  fold_right N.add 0 (map (fun i => if existsb (N.eqb i) correct then 0 else nth (N.to_nat i) powers 0)
                          (map N.of_nat (seq 0 (length powers)))).

Definition commits (n : net) : list (N * (N * N)) :=
  flat_map (fun e => match r_commit (snd e) with Some v => [(fst e, v)] | None => [] end) (n_reps n).
