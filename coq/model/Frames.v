(* Frames.v — the encrypted transport (property C17).
   mirrors: p2p/encrypt.go EncryptedConn.Write (plaintext cut into chunks of at most MaxDataSize bytes; each chunk gets a 4-byte
            length header, is padded to the fixed frame size and sealed under a nonce that counts frames), EncryptedConn.Read
            (one sealed frame is read whole, opened under the expected nonce, the declared length checked, the chunk copied
            into the caller's buffer and the rest kept for the next Read), NewHandshake (ephemeral key swap, shared secret,
            HKDF -> two keys and a challenge, identity key signs the challenge inside the encrypted channel, signed peer
            meta with network and chain id).
   The AEAD is ideal: a sealed frame is the term (key, nonce, plaintext); opening under (key', nonce') succeeds iff both are
   the ones it was sealed with.  An adversary on the wire can do anything with sealed frames but cannot make new ones under
   a key it does not have: its own frames are terms sealed under other keys. *)
From Coq Require Import NArith List Bool Arith.
From V Require Import Bytes.
Import ListNotations.

(* ---- writing *)
Record frame := mkF { f_key : N; f_nonce : N; f_len : N; f_data : bytes }.   (* sealed: key, nonce, declared length, chunk *)
Fixpoint cut (fuel : nat) (maxd : nat) (data : bytes) : list bytes :=
  match fuel with
  | O => []
  | S f => match data with
           | [] => []
           | _ => if Nat.ltb (length data) maxd then [data] else firstn maxd data :: cut f maxd (skipn maxd data)
           end
  end.
(* Write(data): the frames put on the wire, starting at nonce n *)
Fixpoint seal_all (key : N) (n : N) (cs : list bytes) : list frame :=
  match cs with [] => [] | c :: r => mkF key n (N.of_nat (length c)) c :: seal_all key (N.succ n) r end.
Definition write (maxd : nat) (key : N) (n : N) (data : bytes) : list frame * N :=
  let cs := cut (S (length data)) maxd data in (seal_all key n cs, (n + N.of_nat (length cs))%N).
Fixpoint write_all (maxd : nat) (key : N) (n : N) (ws : list bytes) : list frame :=
  match ws with [] => [] | w :: r => let '(fs, n') := write maxd key n w in fs ++ write_all maxd key n' r end.

(* ---- reading *)
Record rd := mkRd { rd_nonce : N; rd_unread : bytes }.
Inductive rout := RData (b : bytes) | RErr | RWait.          (* data copied, read error, or blocked on an incomplete wire *)
(* Read(buf of size sz) against the frames still on the wire *)
Definition read (maxd : nat) (key : N) (s : rd) (wire : list frame) (sz : nat) : rout * rd * list frame :=
  match rd_unread s with
  | _ :: _ => (RData (firstn sz (rd_unread s)), mkRd (rd_nonce s) (skipn sz (rd_unread s)), wire)
  | [] =>
    match wire with
    | [] => (RWait, s, wire)
    | f :: r =>
      if negb (N.eqb (f_key f) key) || negb (N.eqb (f_nonce f) (rd_nonce s)) then (RErr, s, r)
      else if Nat.ltb maxd (N.to_nat (f_len f)) then (RErr, mkRd (N.succ (rd_nonce s)) [], r)
      else let chunk := firstn (N.to_nat (f_len f)) (f_data f) in
           (RData (firstn sz chunk), mkRd (N.succ (rd_nonce s)) (skipn sz chunk), r)
    end
  end.
(* a sequence of Reads with the given buffer sizes: everything delivered until an error or the sizes run out *)
Fixpoint read_all (maxd : nat) (key : N) (s : rd) (wire : list frame) (szs : list nat) : bytes * bool :=
  match szs with
  | [] => ([], true)
  | sz :: r => match read maxd key s wire sz with
               | (RData b, s', w') => let '(rest, ok) := read_all maxd key s' w' r in (b ++ rest, ok)
               | (RErr, _, _) => ([], false)
               | (RWait, _, _) => ([], true)
               end
  end.

(* ---- correspondence cases: writes, read buffer sizes, a fault on the wire (frame index, kind), the bytes delivered and
   whether a read error occurred, as observed on a real EncryptedConn pair *)
Inductive fault := NoFault | Flip (i : nat) | Drop (i : nat) | Dup (i : nat) | Swap (i : nat) | Cutoff (i : nat) | Replay (i j : nat).
Definition apply_fault (f : fault) (w : list frame) : list frame :=
  match f with
  | NoFault => w
  | Flip i => firstn i w ++ match nth_error w i with Some x => [mkF (f_key x + 1) (f_nonce x) (f_len x) (f_data x)] | None => [] end ++ skipn (S i) w
  | Drop i => firstn i w ++ skipn (S i) w
  | Dup i => firstn (S i) w ++ skipn i w
  | Swap i => firstn i w ++ match nth_error w (S i), nth_error w i with Some b, Some a => [b; a] | _, _ => skipn i (firstn (S (S i)) w) end ++ skipn (S (S i)) w
  | Cutoff i => firstn i w ++ [mkF 0 0 0 []]        (* the connection is cut inside the next frame: garbage / end of stream *)
  | Replay i j => firstn j w ++ match nth_error w i with Some x => [x] | None => [] end ++ skipn j w
  end.
Record fr_case := mkFC { fc_writes : list N; fc_reads : list N; fc_fault : fault; fc_delivered : N; fc_content_ok : bool; fc_error : bool }.
   (* writes: lengths (the content is a running byte counter); delivered: number of bytes the reader got, all of them equal to
      the stream the writer sent; error: a read returned an error *)
Fixpoint counter_bytes (from : N) (n : nat) : bytes := match n with O => [] | S k => N.modulo from 251 :: counter_bytes (N.succ from) k end.
Fixpoint gen_writes (from : N) (ls : list N) : list bytes :=
  match ls with [] => [] | l :: r => counter_bytes from (N.to_nat l) :: gen_writes (from + l)%N r end.
Definition fr_model (c : fr_case) : bytes * bool :=
  let ws := gen_writes 0 (fc_writes c) in
  read_all 1024 1 (mkRd 0 []) (apply_fault (fc_fault c) (write_all 1024 1 0 ws)) (map N.to_nat (fc_reads c)).
Definition fr_agrees (c : fr_case) : bool :=
  let '(d, ok) := fr_model c in
  N.eqb (N.of_nat (length d)) (fc_delivered c) && Bool.eqb (negb ok) (fc_error c) &&
  (negb (fc_content_ok c) || bytes_eqb d (firstn (length d) (concat (gen_writes 0 (fc_writes c))))).
Fixpoint idxf2 {A} (bad : A -> bool) (i : N) (l : list A) : list N :=
  match l with [] => [] | x :: r => if bad x then i :: idxf2 bad (N.succ i) r else idxf2 bad (N.succ i) r end.
Definition fr_mismatches (cs : list fr_case) : list N := idxf2 (fun c => negb (fr_agrees c)) 0%N cs.
(* property on the observation alone: what was delivered is a prefix of what was written *)
Definition fr_violations (cs : list fr_case) : list N := idxf2 (fun c => negb (fc_content_ok c)) 0%N cs.

(* ---- the handshake, symbolically.  Ephemeral keys and identities are numbers; dh a b is the shared secret of the ephemeral
   private keys a and b (commutative); the challenge and the channel keys are injective functions of the secret. *)
Section Handshake.
Variable dh : N -> N -> N.                 (* shared secret from two ephemeral private keys (by their indices) *)
Record party := mkParty { pa_id : N; pa_eph : N; pa_net : N; pa_chain : N }.
(* what an endpoint sees of its peer: the ephemeral key it received, the identity that signed, the challenge that was signed
   (a signature is the pair (identity, message): only the identity's owner can produce it), and the signed meta *)
Record hello := mkHello { h_eph : N; h_signer : N; h_signed_challenge : N; h_net : N; h_chain : N; h_meta_signer : N }.
Definition accepts (me : party) (h : hello) : bool :=
  N.eqb (h_signed_challenge h) (dh (pa_eph me) (h_eph h)) &&     (* the peer signed the challenge of THIS session *)
  N.eqb (h_meta_signer h) (h_signer h) &&                         (* the meta is signed by the same identity *)
  N.eqb (h_net h) (pa_net me) && N.eqb (h_chain h) (pa_chain me) &&
  negb (N.eqb (h_signer h) (pa_id me)).                           (* ... which is not this node's own (a reflected proof) *)
(* the handshake before the repair recorded in KNOWN_FINDINGS.txt (no own-identity test) *)
Definition accepts_old (me : party) (h : hello) : bool :=
  N.eqb (h_signed_challenge h) (dh (pa_eph me) (h_eph h)) && N.eqb (h_meta_signer h) (h_signer h) &&
  N.eqb (h_net h) (pa_net me) && N.eqb (h_chain h) (pa_chain me).
(* what a keyless endpoint with ephemeral key e can send back to [me]: me's own proof and meta of this very session *)
Definition reflected (me : party) (e : N) : hello :=
  mkHello e (pa_id me) (dh (pa_eph me) e) (pa_net me) (pa_chain me) (pa_id me).
End Handshake.
