(* Paths.v — the execution-path part of C03 / C11: "the header is a function of (prefix, block)".  In the model every execution
   path (propose, validate, commit with cached result, commit by replay, restart + replay) evaluates the same function
   apply_block, so all reports for one block are equal; a case records what each path of the real node reported. *)
From Coq Require Import NArith List Bool.
Import ListNotations.
Local Open Scope N_scope.

Record path_case := mkPath { pc_height : N; pc_reports : list (N * N * N * N) }.   (* path id, block hash, state root, results hash *)

Definition same_report (a b : N * N * N * N) : bool :=
  let '(_, bh, sr, rh) := a in let '(_, bh', sr', rh') := b in (bh =? bh') && (sr =? sr') && (rh =? rh').
Definition path_ok (c : path_case) : bool :=
  match pc_reports c with
  | [] => false
  | r :: rest => forallb (same_report r) rest && negb (let '(_, bh, _, _) := r in bh =? 0)
  end.
Fixpoint idx_filter {A} (bad : A -> bool) (i : N) (l : list A) : list N :=
  match l with
  | [] => []
  | x :: r => if bad x then i :: idx_filter bad (i + 1) r else idx_filter bad (i + 1) r
  end.
Definition path_violations (cs : list path_case) : list N := idx_filter (fun c => negb (path_ok c)) 0 cs.
Definition path_mismatches := path_violations.
