(* EvidenceProofs.v — slashing accountability (property C14): only provable equivocation, once, within caps. *)
From Coq Require Import NArith List Bool Lia.
From V Require Import U64 Extracted Bft BftNet Evidence BftArith BftInv BftLocal BftSafety.
Import ListNotations.
Local Open Scope N_scope.

(* unforgeability for certificates of ANY phase: a verifying aggregate names a correct signer only if that replica sent exactly
   that vote (correct replicas only ever send PROPOSE and PRECOMMIT votes, so for other phases no correct signer can appear) *)
Definition genuine_any (n : net) (q : qc) : Prop :=
  q_sigok q = true -> forall s, In s (q_signers q) -> is_correct n s = true ->
  In (mkHV s (q_view q) (q_block q) (q_results q) (q_proposer q)) (n_votes n).

Lemma dedup_In x l : In x (dedup l) -> In x l.
Proof.
  induction l as [|y l IH]; simpl; [auto|].
  destruct (existsb (N.eqb y) l); simpl; intros H; [right; auto|]. destruct H; auto.
Qed.
Lemma common_signers_In a b k : In k (common_signers a b) -> In k (q_signers a) /\ In k (q_signers b).
Proof.
  unfold common_signers. intros H. apply filter_In in H. destruct H as [H1 H2]. split; [now apply dedup_In|].
  apply existsb_exists in H2. destruct H2 as [x [Hx E]]. apply N.eqb_eq in E. now subst.
Qed.
Lemma verifies_sigok c q : verifies c q = true -> q_sigok q = true.
Proof. unfold verifies, qc_check. destruct (q_sigok q); [reflexivity|simpl; discriminate]. Qed.
Lemma view_eqb3_eq a b : view_eqb3 a b = true -> a = b.
Proof.
  unfold view_eqb3. destruct a, b. simpl. rewrite !andb_true_iff, !N.eqb_eq. intros [[-> ->] ->]. reflexivity.
Qed.
Lemma ev_check_spec c mh a b : ev_check c mh a b = true ->
  q_view a = q_view b /\ q_sigok a = true /\ q_sigok b = true /\ payload_eqb a b = false.
Proof.
  unfold ev_check. rewrite !andb_true_iff. intros [[[[[H1 _] H3] H4] H5] _].
  repeat split; eauto using view_eqb3_eq, verifies_sigok. now apply negb_true_iff.
Qed.
Lemma reach_InvL powers lru correct acts : run_ok powers lru (init_net correct) acts ->
  InvL powers lru (run powers lru (init_net correct) acts).
Proof. intros H. apply run_InvL; [apply init_InvL|exact H]. Qed.

(* MAIN THEOREM: in every reachable network, whatever evidence is assembled from signatures that really exist - re-ordered,
   re-paired, cross-view, partial, replayed certificates - a correct replica is never among the double signers of evidence that
   passes the check: it signs at most one payload per view. *)
Theorem no_false_accusation powers lru (correct : list (N * N)) acts :
  NoDup (map fst correct) -> run_ok powers lru (init_net correct) acts ->
  let n := run powers lru (init_net correct) acts in
  forall c min_height a b k, genuine_any n a -> genuine_any n b ->
    ev_check c min_height a b = true -> In k (common_signers a b) -> is_correct n k = false.
Proof.
  intros Hnd Hok n c mh a b k Ha Hb Hev Hk.
  pose proof (reach_InvL powers lru correct acts Hok) as HL. fold n in HL.
  destruct (is_correct n k) eqn:Ec; [exfalso|reflexivity].
  pose proof Ec as Ec'. rewrite is_correct_get_rep in Ec'. destruct (get_rep n k) as [r|] eqn:Ek; [|discriminate].
  destruct (ev_check_spec _ _ _ _ Hev) as [Hv [Hsa [Hsb Hpay]]].
  destruct (common_signers_In _ _ _ Hk) as [Hka Hkb].
  pose proof (Ha Hsa k Hka Ec) as Va. pose proof (Hb Hsb k Hkb Ec) as Vb.
  pose proof (proj2 (proj2 (proj2 HL)) k r _ _ Ek Va Vb eq_refl eq_refl Hv) as E.
  injection E as _ E1 E2 E3. unfold payload_eqb in Hpay. rewrite E1, E2, E3, !N.eqb_refl in Hpay. discriminate.
Qed.

Lemma add_height_sound k h acc k' hs' h' : In (k', hs') (add_height k h acc) -> In h' hs' ->
  (exists hs0, In (k', hs0) acc /\ In h' hs0) \/ (k' = k /\ h' = h).
Proof.
  induction acc as [|[k0 hs0] acc IH]; simpl.
  - intros [E|[]] Hh. injection E as <- <-. destruct Hh as [<-|[]]. auto.
  - destruct (N.eqb_spec k k0) as [->|Hne]; simpl.
    + intros [E|Hin] Hh.
      * injection E as <- <-. destruct (existsb (N.eqb h) hs0).
        -- left. exists hs0. auto.
        -- apply in_app_iff in Hh. destruct Hh as [Hh|[<-|[]]]; [left; exists hs0; auto|auto].
      * left. exists hs'. auto.
    + intros [E|Hin] Hh.
      * injection E as <- <-. left. exists hs0. auto.
      * destruct (IH Hin Hh) as [[hs1 [H1 H2]]|H]; [left; exists hs1; auto|auto].
Qed.

Lemma fold_signers_sound (valid : N -> N -> bool) h ks : forall acc k' hs' h',
  In (k', hs') (fold_left (fun ac k => if valid k h then add_height k h ac else ac) ks acc) -> In h' hs' ->
  (exists hs0, In (k', hs0) acc /\ In h' hs0) \/ (In k' ks /\ h' = h /\ valid k' h = true).
Proof.
  induction ks as [|k ks IH]; simpl; intros acc k' hs' h' Hin Hh.
  - left. eauto.
  - destruct (IH _ _ _ _ Hin Hh) as [[hs0 [H1 H2]]|[H1 [H2 H3]]]; [|right; auto].
    destruct (valid k h) eqn:Ev; [|left; eauto].
    destruct (add_height_sound _ _ _ _ _ _ H1 H2) as [H|[-> ->]]; [left; exact H|right; auto].
Qed.

Lemma process_dse_sound_gen c min_height valid es : forall acc l k hs h,
  process_dse c min_height valid es acc = Some l -> In (k, hs) l -> In h hs ->
  (exists hs0, In (k, hs0) acc /\ In h hs0) \/
  exists a b, In (a, b) es /\ ev_check c min_height a b = true /\ In k (common_signers a b) /\ h = vw_root (q_view a) /\ valid k h = true.
Proof.
  induction es as [|[a b] es IH]; simpl; intros acc l k hs h Hp Hin Hh.
  - injection Hp as <-. left. eauto.
  - destruct (ev_check c min_height a b) eqn:Ev; [|discriminate].
    destruct (IH _ _ _ _ _ Hp Hin Hh) as [[hs0 [H1 H2]]|[a' [b' [H1 H2]]]].
    + destruct (fold_signers_sound _ _ _ _ _ _ _ H1 H2) as [H|[H3 [H4 H5]]]; [left; exact H|].
      right. exists a, b. subst h. auto 6.
    + right. exists a', b'. split; [now right|exact H2].
Qed.

(* everything ProcessDSE reports comes from a pair that passed the check, names a common signer, at the pair's root height *)
Theorem process_dse_sound c min_height valid es l k hs h :
  process_dse c min_height valid es [] = Some l -> In (k, hs) l -> In h hs ->
  exists a b, In (a, b) es /\ ev_check c min_height a b = true /\ In k (common_signers a b) /\ h = vw_root (q_view a) /\ valid k h = true.
Proof.
  intros Hp Hin Hh.
  destruct (process_dse_sound_gen _ _ _ _ _ _ _ _ _ Hp Hin Hh) as [[hs0 [[] _]]|H]. exact H.
Qed.

(* hence no correct replica is ever reported, whatever the adversary submits *)
Theorem honest_never_reported powers lru (correct : list (N * N)) acts :
  NoDup (map fst correct) -> run_ok powers lru (init_net correct) acts ->
  let n := run powers lru (init_net correct) acts in
  forall c min_height valid es l k hs, Forall (fun e => genuine_any n (fst e) /\ genuine_any n (snd e)) es ->
    process_dse c min_height valid es [] = Some l -> In (k, hs) l -> hs <> [] -> is_correct n k = false.
Proof.
  intros Hnd Hok n c mh valid es l k hs Hall Hp Hin Hne.
  destruct hs as [|h hs']; [congruence|].
  destruct (process_dse_sound c mh valid es l k (h :: hs') h Hp Hin (or_introl eq_refl)) as [a [b [Hab [Hev [Hk _]]]]].
  rewrite Forall_forall in Hall. destruct (Hall _ Hab) as [Ga Gb]. simpl in Ga, Gb.
  exact (no_false_accusation powers lru correct acts Hnd Hok c mh a b k Ga Gb Hev Hk).
Qed.

(* expired evidence and evidence of the election / proposal phases is refused *)
Theorem expired_or_early_evidence_refused c min_height a b :
  vw_root (q_view a) < min_height \/ vw_phase (q_view a) <= Phase_PROPOSE -> ev_check c min_height a b = false.
Proof.
  unfold ev_check. intros [H|H].
  - assert (E : (min_height <=? vw_root (q_view a)) = false) by (apply N.leb_gt; exact H).
    rewrite E, andb_false_r. reflexivity.
  - assert (E : (Phase_PROPOSE <? vw_phase (q_view a)) = false) by (apply N.ltb_ge; exact H).
    rewrite E, andb_false_r. reflexivity.
Qed.

Lemma idx_existsb k h (index : list (N * N)) :
  existsb (fun e => (fst e =? k) && (snd e =? h)) index = true <-> In (k, h) index.
Proof.
  rewrite existsb_exists. split.
  - intros [[a b] [Hin E]]. simpl in E. apply andb_true_iff in E. destruct E as [E1 E2].
    apply N.eqb_eq in E1, E2. now subst.
  - intros H. exists (k, h). simpl. rewrite !N.eqb_refl. auto.
Qed.

Lemma handle_heights_spec k hs : forall index out index' out',
  handle_heights k hs index out = Some (index', out') ->
  (forall e, In e index -> In e index') /\
  (forall h, In h hs -> In (k, h) index' /\ ~ In (k, h) index) /\
  length out' = (length out + length hs)%nat /\
  (forall x, In x out' -> In x out \/ (x = k /\ hs <> [])).
Proof.
  induction hs as [|h hs IH]; simpl; intros index out index' out' H.
  - injection H as <- <-. split; [auto|split; [intros h' []|split; [simpl; lia|auto]]].
  - destruct (existsb (fun e => (fst e =? k) && (snd e =? h)) index) eqn:E; [discriminate|].
    assert (Hni : ~ In (k, h) index) by (intros Hc; apply idx_existsb in Hc; congruence).
    destruct (IH _ _ _ _ H) as [Hm [Hh [Hl Ho]]]. split; [|split; [|split]].
    + intros e He. apply Hm. now right.
    + intros h' [<-|Hin].
      * split; [apply Hm; now left|exact Hni].
      * destruct (Hh h' Hin) as [H1 H2]. split; [exact H1|]. intros Hc. apply H2. now right.
    + rewrite Hl, app_length. simpl. lia.
    + intros x Hx. destruct (Ho x Hx) as [Hin|[-> _]].
      * apply in_app_iff in Hin. destruct Hin as [Hin|[<-|[]]]; [auto|right; split; [auto|discriminate]].
      * right. split; [auto|discriminate].
Qed.

Lemma hds_spec ds : forall index out index' out',
  handle_double_signers ds index out = Some (index', out') ->
  (forall e, In e index -> In e index') /\
  (forall k hs h, In (k, hs) ds -> In h hs -> In (k, h) index' /\ ~ In (k, h) index) /\
  length out' = (length out + length (flat_map snd ds))%nat /\
  (forall x, In x out' -> In x out \/ exists hs, In (x, hs) ds).
Proof.
  induction ds as [|[k hs] ds IH]; simpl; intros index out index' out' H.
  - injection H as <- <-. split; [auto|split; [intros k' hs' h' []|split; [simpl; lia|auto]]].
  - destruct hs as [|h0 hs0]; [discriminate|].
    destruct (handle_heights k (h0 :: hs0) index out) as [[index1 out1]|] eqn:E; [|discriminate].
    destruct (handle_heights_spec _ _ _ _ _ _ E) as [Hm1 [Hh1 [Hl1 Ho1]]].
    destruct (IH _ _ _ _ H) as [Hm [Hh [Hl Ho]]]. split; [|split; [|split]].
    + auto.
    + intros k' hs' h' [Heq|Hin] Hh'.
      * injection Heq as <- <-. destruct (Hh1 h' Hh') as [H1 H2]. split; auto.
      * destruct (Hh _ _ _ Hin Hh') as [H1 H2]. split; auto.
    + rewrite Hl, Hl1, app_length. lia.
    + intros x Hx. destruct (Ho x Hx) as [Hin|[hs' Hin]].
      * destruct (Ho1 x Hin) as [H1|[-> _]]; [auto|right; eauto].
      * right. eauto.
Qed.

Lemma handle_heights_None k h hs : In h hs -> forall index out, In (k, h) index -> handle_heights k hs index out = None.
Proof.
  induction hs as [|h0 hs IH]; simpl; intros Hin index out Hidx; [contradiction|].
  destruct (existsb (fun e => (fst e =? k) && (snd e =? h0)) index) eqn:E; [reflexivity|].
  destruct Hin as [->|Hin].
  - apply idx_existsb in Hidx. congruence.
  - apply IH; [exact Hin|now right].
Qed.

Lemma hds_None k h hs2 ds2 : In (k, hs2) ds2 -> In h hs2 -> forall index out, In (k, h) index ->
  handle_double_signers ds2 index out = None.
Proof.
  induction ds2 as [|[k' hs'] ds2 IH]; simpl; intros Hin Hh index out Hidx; [contradiction|].
  destruct hs' as [|h0 hs0]; [reflexivity|].
  destruct Hin as [Heq|Hin].
  - injection Heq as -> <-. rewrite (handle_heights_None k h (h0 :: hs0) Hh index out Hidx). reflexivity.
  - destruct (handle_heights k' (h0 :: hs0) index out) as [[index1 out1]|] eqn:E; [|reflexivity].
    apply IH; auto. apply (proj1 (handle_heights_spec _ _ _ _ _ _ E)). exact Hidx.
Qed.

(* once: a (validator, height) pair that was slashed is indexed, and a block that names an indexed pair - or names a pair twice -
   is rejected as a whole *)
Theorem slashed_pairs_are_indexed ds index index' out k hs h :
  handle_double_signers ds index [] = Some (index', out) -> In (k, hs) ds -> In h hs ->
  In (k, h) index' /\ ~ In (k, h) index.
Proof.
  intros H Hin Hh. exact (proj1 (proj2 (hds_spec _ _ _ _ _ H)) _ _ _ Hin Hh).
Qed.
Theorem slashed_at_most_once ds index index' out ds2 k hs hs2 h :
  handle_double_signers ds index [] = Some (index', out) -> In (k, hs) ds -> In h hs ->
  In (k, hs2) ds2 -> In h hs2 -> handle_double_signers ds2 index' [] = None.
Proof.
  intros H Hin Hh Hin2 Hh2.
  apply (hds_None k h hs2 ds2 Hin2 Hh2). exact (proj1 (slashed_pairs_are_indexed _ _ _ _ _ _ _ H Hin Hh)).
Qed.
(* one slash per (validator, height) named: the slash list has exactly one entry per pair *)
Theorem one_slash_per_pair ds index index' out :
  handle_double_signers ds index [] = Some (index', out) ->
  length out = length (flat_map snd ds) /\ forall k, In k out -> exists hs, In (k, hs) ds.
Proof.
  intros H. destruct (hds_spec _ _ _ _ _ H) as [_ [_ [Hl Ho]]]. split; [exact Hl|].
  intros k Hk. destruct (Ho k Hk) as [[]|Hx]. exact Hx.
Qed.

Lemma effective_le cap already p : already <= cap -> already + effective cap already p <= cap.
Proof.
  unfold effective. intros H.
  destruct (N.leb_spec cap already); [lia|]. destruct (N.leb_spec cap (already + p)); lia.
Qed.

Lemma slash_budget_gen cap k reqs : forall tracker,
  slashed_total k tracker <= cap -> slashed_total k tracker + slashed_total k (slash_block cap tracker reqs) <= cap.
Proof.
  induction reqs as [|[k' p] reqs IH]; intros tracker Ht.
  - simpl. lia.
  - cbn [slash_block].
    set (already := fold_right (fun e acc => if fst e =? k' then snd e + acc else acc) 0 tracker).
    set (e := effective cap already p).
    specialize (IH ((k', e) :: tracker)).
    unfold slashed_total in *. cbn [fold_right fst snd] in *.
    destruct (N.eqb_spec k' k) as [->|Hne].
    + fold already in Ht.
      pose proof (effective_le cap already p Ht) as He. fold e in He.
      fold already in IH. fold already. lia.
    + apply IH. exact Ht.
Qed.

(* within caps: in one block a committee never slashes a validator by more than the cap, whatever the list of requests *)
Theorem slash_budget cap reqs k : slashed_total k (slash_block cap [] reqs) <= cap.
Proof.
  pose proof (slash_budget_gen cap k reqs [] ltac:(simpl; lia)) as H. simpl in H. exact H.
Qed.

(* non-vacuity: a Byzantine validator (3) that signed two payloads in one view is reported; the correct ones (who signed one) are not *)
Example evidence_nonvacuous :
  let qa := mkQC (mkView 5 0 Phase_PRECOMMIT_VOTE) 7 8 3 [0; 1; 3] true in
  let qb := mkQC (mkView 5 0 Phase_PRECOMMIT_VOTE) 9 8 3 [2; 3] true in
  process_dse (mkConf 0 [100; 100; 100; 100] 0) 0 (fun _ _ => true) [(qa, qb)] [] = Some [(3, [5])] /\
  handle_double_signers [(3, [5])] [] [] = Some ([(3, 5)], [3]) /\
  handle_double_signers [(3, [5])] [(3, 5)] [] = None /\
  slash_block 15 [] [(3, 10); (3, 10); (3, 10)] = [(3, 10); (3, 5); (3, 0)].
Proof.
  vm_compute. repeat split; reflexivity.
Qed.

Print Assumptions agreement.
Print Assumptions no_false_accusation.
Print Assumptions honest_never_reported.
Print Assumptions slash_budget.

(* ---------------------------------------------------------------- the chain's own certificate (begin-block) never fails *)
Definition pairs (ds : list (N * list N)) : list (N * N) := flat_map (fun d => map (fun h => (fst d, h)) (snd d)) ds.
Lemma pairs_cons k hs ds : pairs ((k, hs) :: ds) = map (fun h => (k, h)) hs ++ pairs ds.
Proof. reflexivity. Qed.
Lemma pairs_app a b : pairs (a ++ b) = pairs a ++ pairs b.
Proof. unfold pairs. apply flat_map_app. Qed.
Lemma pairs_In ds k h : In (k, h) (pairs ds) <-> exists hs, In (k, hs) ds /\ In h hs.
Proof.
  unfold pairs. rewrite in_flat_map. split.
  - intros [[k' hs] [Hin Hm]]. simpl in Hm. apply in_map_iff in Hm. destruct Hm as [h' [E Hh]].
    injection E as -> ->. exists hs. auto.
  - intros [hs [Hin Hh]]. exists (k, hs). split; [exact Hin|]. simpl. apply in_map_iff. exists h. auto.
Qed.
Lemma pairs_length ds : length (pairs ds) = length (flat_map snd ds).
Proof.
  induction ds as [|[k hs] ds IH]; [reflexivity|].
  rewrite pairs_cons. cbn [flat_map snd]. rewrite !app_length, map_length, IH. reflexivity.
Qed.
Lemma NoDup_app_inv {A} (l l' : list A) : NoDup (l ++ l') -> NoDup l /\ NoDup l' /\ forall x, In x l -> ~ In x l'.
Proof.
  induction l as [|a l IH]; simpl; intros H.
  - split; [constructor|split; [exact H|intros x []]].
  - inversion H as [|x xs Hni Hnd]; subst. destruct (IH Hnd) as [A1 [A2 A3]]. split; [|split; [exact A2|]].
    + constructor; [|exact A1]. intros Hc. apply Hni. apply in_or_app. auto.
    + intros x [->|Hx] Hc; [apply Hni; apply in_or_app; auto|exact (A3 x Hx Hc)].
Qed.
Lemma filter_map_pair (f : N * N -> bool) k hs :
  filter f (map (fun h => (k, h)) hs) = map (fun h => (k, h)) (filter (fun h => f (k, h)) hs).
Proof.
  induction hs as [|h hs IH]; simpl; [reflexivity|]. destruct (f (k, h)); simpl; rewrite IH; reflexivity.
Qed.
Lemma known_false_iff index k h : known index k h = false <-> ~ In (k, h) index.
Proof.
  unfold known. rewrite <- idx_existsb.
  destruct (existsb (fun e => (fst e =? k) && (snd e =? h)) index); split; intros H.
  - discriminate.
  - exfalso. apply H. reflexivity.
  - discriminate.
  - reflexivity.
Qed.

(* success of handle_heights on fresh, pairwise distinct heights *)
Lemma handle_heights_ok k hs : forall index out, NoDup hs -> (forall h, In h hs -> ~ In (k, h) index) ->
  exists index' out', handle_heights k hs index out = Some (index', out') /\
    forall e, In e index' -> In e index \/ exists h, In h hs /\ e = (k, h).
Proof.
  induction hs as [|h hs IH]; intros index out Hnd Hfresh.
  - exists index, out. split; [reflexivity|auto].
  - cbn [handle_heights].
    assert (E : existsb (fun e => (fst e =? k) && (snd e =? h)) index = false).
    { apply known_false_iff. apply Hfresh. now left. }
    rewrite E. inversion Hnd as [|x xs Hni Hnd']; subst.
    destruct (IH ((k, h) :: index) (out ++ [k]) Hnd') as [index' [out' [E' Hsub]]].
    + intros h' Hh' [Heq|Hc].
      * injection Heq as ->. contradiction.
      * apply (Hfresh h'); [now right|exact Hc].
    + exists index', out'. split; [exact E'|]. intros e He.
      destruct (Hsub e He) as [[<-|Hi]|[h' [Hh' ->]]].
      * right. exists h. split; [now left|reflexivity].
      * now left.
      * right. exists h'. split; [now right|reflexivity].
Qed.

(* success of handle_double_signers on a well-formed list of fresh pairs *)
Lemma hds_ok ds : forall index out, (forall d, In d ds -> snd d <> []) -> NoDup (pairs ds) ->
  (forall e, In e (pairs ds) -> ~ In e index) ->
  exists index' out', handle_double_signers ds index out = Some (index', out').
Proof.
  induction ds as [|[k hs] ds IH]; intros index out Hne Hnd Hfresh.
  - exists index, out. reflexivity.
  - rewrite pairs_cons in Hnd, Hfresh. destruct (NoDup_app_inv _ _ Hnd) as [N1 [N2 N3]].
    apply NoDup_map_inv in N1.
    destruct (handle_heights_ok k hs index out N1) as [index1 [out1 [E Hsub]]].
    { intros h Hh. apply Hfresh. apply in_or_app. left. apply in_map_iff. exists h. auto. }
    assert (Hhs : hs <> []) by (apply (Hne (k, hs)); now left).
    cbn [handle_double_signers]. destruct hs as [|h0 hs0]; [congruence|]. rewrite E.
    apply IH.
    + intros d Hd. apply Hne. now right.
    + exact N2.
    + intros e He Hc. destruct (Hsub e Hc) as [Hi|[h [Hh ->]]].
      * apply (Hfresh e); [apply in_or_app; now right|exact Hi].
      * apply (N3 (k, h)); [apply in_map_iff; exists h; auto|exact He].
Qed.

Lemma drop_known_cons index d ds : drop_known index (d :: ds) = drop_known index [d] ++ drop_known index ds.
Proof. unfold drop_known. cbn [flat_map]. rewrite app_nil_r. reflexivity. Qed.
Lemma pairs_drop_known1 index k hs :
  pairs (drop_known index [(k, hs)]) = filter (fun e => negb (known index (fst e) (snd e))) (map (fun h => (k, h)) hs).
Proof.
  rewrite filter_map_pair. cbn [fst snd]. unfold drop_known. cbn [flat_map fst snd]. rewrite app_nil_r.
  destruct hs as [|h0 hs0]; [reflexivity|].
  destruct (filter (fun h => negb (known index k h)) (h0 :: hs0)) as [|h1 hs1]; [reflexivity|].
  unfold pairs. cbn [flat_map fst snd]. rewrite app_nil_r. reflexivity.
Qed.
(* the pairs of the filtered list are exactly the pairs that are not indexed yet, in order *)
Lemma pairs_drop_known index ds :
  pairs (drop_known index ds) = filter (fun e => negb (known index (fst e) (snd e))) (pairs ds).
Proof.
  induction ds as [|[k hs] ds IH]; [reflexivity|].
  rewrite drop_known_cons, pairs_app, pairs_cons, filter_app, IH, pairs_drop_known1. reflexivity.
Qed.
Lemma drop_known_nonempty index ds : (forall d, In d ds -> snd d <> []) ->
  forall d, In d (drop_known index ds) -> snd d <> [].
Proof.
  intros Hne d Hd. unfold drop_known in Hd. apply in_flat_map in Hd. destruct Hd as [[k hs] [Hin Hd]].
  cbn [fst snd] in Hd. specialize (Hne _ Hin). cbn [snd] in Hne.
  destruct hs as [|h0 hs0]; [congruence|].
  destruct (filter (fun h => negb (known index k h)) (h0 :: hs0)) as [|h1 hs1]; [destruct Hd|].
  destruct Hd as [<-|[]]. discriminate.
Qed.
(* a well-formed own list (every entry names a height, no (validator, height) pair twice) is never refused, whatever is indexed *)
Theorem own_never_refused ds index :
  (forall d, In d ds -> snd d <> []) -> NoDup (pairs ds) ->
  exists index' out, handle_own_double_signers ds index = Some (index', out).
Proof.
  intros Hne Hnd. unfold handle_own_double_signers. apply hds_ok.
  - apply drop_known_nonempty. exact Hne.
  - rewrite pairs_drop_known. apply NoDup_filter. exact Hnd.
  - intros [k h] He. rewrite pairs_drop_known in He. apply filter_In in He. destruct He as [_ He].
    cbn [fst snd] in He. apply negb_true_iff in He. apply known_false_iff. exact He.
Qed.
(* what it slashes: exactly the pairs that were not indexed yet, each once; nothing that was indexed is slashed again *)
Theorem own_slashes_only_new ds index index' out k hs h :
  handle_own_double_signers ds index = Some (index', out) -> In (k, hs) ds -> In h hs ->
  In (k, h) index' /\ (In (k, h) index -> forall hs', In (k, hs') (drop_known index ds) -> ~ In h hs').
Proof.
  unfold handle_own_double_signers. intros H Hin Hh.
  destruct (hds_spec _ _ _ _ _ H) as [Hm [Hp _]]. split.
  - destruct (known index k h) eqn:Ek.
    + apply Hm. apply idx_existsb. exact Ek.
    + assert (Hq : In (k, h) (pairs (drop_known index ds))).
      { rewrite pairs_drop_known. apply filter_In. split; [apply pairs_In; eauto|]. cbn [fst snd]. now rewrite Ek. }
      apply pairs_In in Hq. destruct Hq as [hs' [H1 H2]]. exact (proj1 (Hp _ _ _ H1 H2)).
  - intros Hidx hs' H1 H2. exact (proj2 (Hp _ _ _ H1 H2) Hidx).
Qed.
Theorem own_one_slash_per_new_pair ds index index' out :
  handle_own_double_signers ds index = Some (index', out) ->
  length out = length (filter (fun e => negb (known index (fst e) (snd e))) (pairs ds)).
Proof.
  unfold handle_own_double_signers. intros H.
  destruct (hds_spec _ _ _ _ _ H) as [_ [_ [Hl _]]].
  rewrite Hl, <- pairs_drop_known, pairs_length. reflexivity.
Qed.
(* the repaired halt, in the model: the old begin-block (handle_double_signers on the raw list) fails on a pair a transaction of the
   same block had indexed; the new one succeeds and slashes nothing for it *)
Example old_own_certificate_halts :
  handle_double_signers [(3, [5])] [(3, 5)] [] = None /\ handle_own_double_signers [(3, [5]); (4, [5])] [(3, 5)] = Some ([(4, 5); (3, 5)], [4]).
Proof. vm_compute. split; reflexivity. Qed.

Print Assumptions own_never_refused.
Print Assumptions own_slashes_only_new.
Print Assumptions own_one_slash_per_new_pair.
