(* BlockAuthProofs.v — only authorized transactions reach the second pass of ApplyTransactions, and every authorized one does
   (nobody is failed for somebody else's bad signature); the two variants that looked harmless are refuted. *)
From Coq Require Import NArith List Bool Arith Lia.
From V Require Import BlockAuth.
Import ListNotations.

Definition bad_owners (batch : list bool) (owner : list nat) : list nat :=
  map snd (filter (fun x => negb (fst x)) (combine batch owner)).

Lemma combine_app_eq (A B : Type) (a b : list A) (c d : list B) :
  length a = length c -> combine (a ++ b) (c ++ d) = combine a c ++ combine b d.
Proof.
  revert c. induction a as [|x a IH]; intros [|y c] H; cbn in *; try discriminate; [reflexivity|].
  f_equal. apply IH. lia.
Qed.

(* Verify's positions mapped through batchToTxIdx are the owners of the jobs that do not verify, in order *)
Lemma positions_to_owners : forall batch owner pre,
  length owner = length batch ->
  map (fun p => nth p (pre ++ owner) 0) (bad_positions batch (length pre)) = bad_owners batch owner.
Proof.
  induction batch as [|b batch IH]; intros [|o owner] pre Hlen; cbn in Hlen; try discriminate; [reflexivity|].
  assert (Hrec : map (fun p => nth p (pre ++ o :: owner) 0) (bad_positions batch (S (length pre))) = bad_owners batch owner).
  { specialize (IH owner (pre ++ [o])). rewrite app_length in IH. cbn [length] in IH.
    replace (length pre + 1) with (S (length pre)) in IH by lia.
    rewrite <- app_assoc in IH. cbn [app] in IH. apply IH. lia. }
  unfold bad_owners in *. cbn [bad_positions combine filter fst snd map].
  destruct b; cbn [negb map snd].
  - exact Hrec.
  - cbn [map]. rewrite Hrec. f_equal. rewrite app_nth2 by lia. rewrite Nat.sub_diag. reflexivity.
Qed.

Lemma jobs_owner (jobs : list bool) (k j : nat) :
  In j (bad_owners jobs (repeat k (length jobs))) <-> j = k /\ forallb (fun b => b) jobs = false.
Proof.
  unfold bad_owners. induction jobs as [|b jobs IH]; cbn [length repeat combine filter fst snd map forallb].
  - split; [intros []|intros [_ H]; discriminate].
  - destruct b; cbn [negb andb map snd In].
    + exact IH.
    + rewrite IH. split; [intros [H|[H _]]; split; congruence|intros [H _]; left; congruence].
Qed.

Lemma pass1_mem : forall txs k failed owner batch, pass1 txs k = (failed, owner, batch) ->
  length owner = length batch /\
  forall j, (In j failed \/ In j (bad_owners batch owner)) <->
            (k <= j < k + length txs /\ authorized (nth (j - k) txs no_tx) = false).
Proof.
  induction txs as [|t rest IH]; intros k failed owner batch H.
  - cbn in H. injection H as <- <- <-. split; [reflexivity|]. intros j. cbn. split; [intros [[]|[]]|intros [Hr _]; lia].
  - cbn [pass1] in H. destruct (pass1 rest (S k)) as [[f' o'] b'] eqn:E.
    destruct (IH (S k) f' o' b' E) as [Hlen Hmem]. clear IH.
    assert (Hshift : forall j, k < j -> nth (j - k) (t :: rest) no_tx = nth (j - S k) rest no_tx).
    { intros j Hj. replace (j - k) with (S (j - S k)) by lia. reflexivity. }
    injection H as <- <- <-. split; [rewrite !app_length, repeat_length; lia|].
    intros j. unfold bad_owners. rewrite combine_app_eq by (rewrite repeat_length; reflexivity).
    rewrite filter_app, map_app, in_app_iff. fold (bad_owners (t_jobs t) (repeat k (length (t_jobs t)))). fold (bad_owners b' o').
    rewrite jobs_owner. cbn [length].
    assert (Hhere : (In k (if t_ok t then f' else k :: f') \/ forallb (fun b => b) (t_jobs t) = false) <-> authorized t = false).
    { unfold authorized. destruct (t_ok t); cbn [andb In].
      - split; [intros [Hf|Hj]; [|exact Hj]|intros Hj; right; exact Hj].
        destruct (proj1 (Hmem k) (or_introl Hf)) as [Hr _]. lia.
      - split; [reflexivity|intros _; left; left; reflexivity]. }
    assert (Hf'k : forall x, In x f' -> S k <= x) by (intros x Hx; destruct (proj1 (Hmem x) (or_introl Hx)) as [Hr _]; lia).
    split.
    * intros [Hf|[[-> Hj]|Hb]].
      -- destruct (Nat.eq_dec j k) as [->|Hne].
         ++ split; [lia|]. rewrite Nat.sub_diag. cbn [nth]. apply Hhere. left. exact Hf.
         ++ assert (Hf2 : In j f') by (destruct (t_ok t); [exact Hf|destruct Hf as [He|Hf]; [congruence|exact Hf]]).
            destruct (proj1 (Hmem j) (or_introl Hf2)) as [Hr Ha]. split; [lia|]. rewrite Hshift by lia. exact Ha.
      -- split; [lia|]. rewrite Nat.sub_diag. cbn [nth]. apply Hhere. right. exact Hj.
      -- destruct (proj1 (Hmem j) (or_intror Hb)) as [Hr Ha]. split; [lia|]. rewrite Hshift by lia. exact Ha.
    * intros [Hr Ha]. destruct (Nat.eq_dec j k) as [->|Hne].
      -- rewrite Nat.sub_diag in Ha. cbn [nth] in Ha. apply Hhere in Ha. destruct Ha as [Hf|Hj]; [left; exact Hf|right; left; split; [reflexivity|exact Hj]].
      -- rewrite Hshift in Ha by lia.
         destruct (proj2 (Hmem j) (conj (ltac:(lia) : S k <= j < S k + length rest) Ha)) as [Hf|Hb].
         ++ left. destruct (t_ok t); [exact Hf|right; exact Hf].
         ++ right; right; exact Hb.
Qed.

Lemma failed_set_spec (txs : list tx) (i : nat) :
  In i (failed_set txs) <-> (i < length txs /\ authorized (nth i txs no_tx) = false).
Proof.
  unfold failed_set. destruct (pass1 txs 0) as [[failed owner] batch] eqn:E.
  destruct (pass1_mem txs 0 failed owner batch E) as [Hlen Hmem].
  rewrite in_app_iff. pose proof (positions_to_owners batch owner [] Hlen) as Hpo. cbn [app length] in Hpo. rewrite Hpo.
  rewrite Hmem. rewrite Nat.sub_0_r. split; [intros [Hr Ha]; split; [lia|exact Ha]|intros [Hr Ha]; split; [lia|exact Ha]].
Qed.

Lemma existsb_eqb_in (i : nat) (l : list nat) : existsb (Nat.eqb i) l = true <-> In i l.
Proof.
  rewrite existsb_exists. split; [intros [x [Hx He]]; apply Nat.eqb_eq in He; subst; exact Hx|intros H; exists i; split; [exact H|apply Nat.eqb_refl]].
Qed.

(* the central fact: a transaction of the block reaches pass 2 exactly when its CheckTx passed and ALL its signature jobs verify *)
Theorem reaches_pass2_iff (txs : list tx) (i : nat) : i < length txs ->
  (reaches_pass2 txs i = true <-> authorized (nth i txs no_tx) = true).
Proof.
  intros Hi. unfold reaches_pass2. rewrite negb_true_iff.
  split.
  - intros H. destruct (authorized (nth i txs no_tx)) eqn:Ea; [reflexivity|].
    assert (Hin : In i (failed_set txs)) by (apply failed_set_spec; split; assumption).
    apply existsb_eqb_in in Hin. congruence.
  - intros Ha. destruct (existsb (Nat.eqb i) (failed_set txs)) eqn:Ee; [|reflexivity].
    apply existsb_eqb_in, failed_set_spec in Ee. destruct Ee as [_ Hf]. congruence.
Qed.

Theorem executed_authorized (txs : list tx) (stateful_ok : nat -> bool) (i : nat) :
  In i (executed txs stateful_ok) -> i < length txs /\ authorized (nth i txs no_tx) = true.
Proof.
  unfold executed. rewrite filter_In, in_seq, andb_true_iff. intros [[_ Hi] [Hr _]].
  split; [lia|]. apply reaches_pass2_iff; [lia|exact Hr].
Qed.

Theorem authorized_executes_when_stateful_ok (txs : list tx) (stateful_ok : nat -> bool) (i : nat) :
  i < length txs -> authorized (nth i txs no_tx) = true -> stateful_ok i = true -> In i (executed txs stateful_ok).
Proof.
  intros Hi Ha Hs. unfold executed. rewrite filter_In, in_seq, andb_true_iff.
  split; [lia|]. split; [apply reaches_pass2_iff; assumption|exact Hs].
Qed.

(* the shifted slot bookkeeping lets a forged transaction through (and fails an honest one) *)
Theorem shifted_lets_a_forgery_through :
  exists txs i, i < length txs /\ authorized (nth i txs no_tx) = false /\
                existsb (Nat.eqb i) (failed_set_shifted txs) = false.
Proof. exists [mkTx true [false]; mkTx true [true]], 0. vm_compute. repeat split; auto. Qed.

(* forgetting a pass-1 failure lets a transaction through whose signature was never looked at *)
Theorem forgetful_lets_an_unchecked_transaction_through :
  exists forget txs i, i < length txs /\ t_ok (nth i txs no_tx) = false /\
                existsb (Nat.eqb i) (failed_set_forgetful forget txs) = false.
Proof. exists (fun _ => true), [mkTx false []], 0. vm_compute. repeat split; auto. Qed.
