(* BftGen.v — the decision functions of the replica that the agreement proof turns on, TRANSLATED from the source on every run
   (gen/Extracted.v: lib.View.Less, lib.View.Equals, bft.BFT.SafeNode, statement by statement, with every field path flattened
   into one parameter and nil tests into boolean parameters), are the ones the replica model of Bft.v uses.  Hashes are compared
   by id (bytes.Equal -> N.eqb: the ideal-hash assumption of the model).  A change of the order in which views are compared, of a
   comparison operator, or of what SafeNode compares with what regenerates another definition and a lemma here stops checking. *)
From Coq Require Import NArith List Bool Lia.
From V Require Import U64 Extracted Bft.
Import ListNotations.
Local Open Scope N_scope.

(* lib.View.Less on two non-nil views of one height is the model's order (root height, round, phase) *)
Theorem src_view_less h a b :
  View_Less false h (vw_phase a) (vw_root a) (vw_round a) false h (vw_phase b) (vw_root b) (vw_round b) = view_less a b.
Proof.
  unfold View_Less, view_less. rewrite N.ltb_irrefl.
  repeat match goal with |- context [N.ltb ?x ?y] => destruct (N.ltb x y) end; reflexivity.
Qed.

(* the height dominates, a nil view is below every non-nil view, nothing is below nil *)
Theorem src_view_less_height ha a hb b : ha < hb ->
  View_Less false ha (vw_phase a) (vw_root a) (vw_round a) false hb (vw_phase b) (vw_root b) (vw_round b) = true.
Proof. intros H. unfold View_Less. apply N.ltb_lt in H. rewrite H. reflexivity. Qed.
Theorem src_view_less_nil xn xh xp xr xo vh vp vr vo : View_Less xn xh xp xr xo true vh vp vr vo = false.
Proof. reflexivity. Qed.

(* lib.View.Less is a strict order on non-nil views: irreflexive, transitive, total up to equality of the four compared fields *)
Theorem src_view_less_irrefl h p r o : View_Less false h p r o false h p r o = false.
Proof. unfold View_Less. rewrite !N.ltb_irrefl. reflexivity. Qed.
Theorem src_view_less_trans h1 p1 r1 o1 h2 p2 r2 o2 h3 p3 r3 o3 :
  View_Less false h1 p1 r1 o1 false h2 p2 r2 o2 = true -> View_Less false h2 p2 r2 o2 false h3 p3 r3 o3 = true ->
  View_Less false h1 p1 r1 o1 false h3 p3 r3 o3 = true.
Proof.
  unfold View_Less.
  repeat match goal with |- context [N.ltb ?a ?b] => destruct (N.ltb_spec a b) end; intros; try reflexivity; try discriminate; lia.
Qed.
Theorem src_view_less_total h1 p1 r1 o1 h2 p2 r2 o2 :
  View_Less false h1 p1 r1 o1 false h2 p2 r2 o2 = false -> View_Less false h2 p2 r2 o2 false h1 p1 r1 o1 = false ->
  h1 = h2 /\ p1 = p2 /\ r1 = r2 /\ o1 = o2.
Proof.
  unfold View_Less.
  repeat match goal with |- context [N.ltb ?a ?b] => destruct (N.ltb_spec a b) end; intros; try discriminate; lia.
Qed.

(* lib.View.Equals on non-nil views is equality of all six fields *)
Theorem src_view_equals c h n p r o c' h' n' p' r' o' :
  View_Equals false c h n p r o false c' h' n' p' r' o' = true <-> (c = c' /\ h = h' /\ n = n' /\ p = p' /\ r = r' /\ o = o').
Proof.
  unfold View_Equals. cbn [orb].
  repeat match goal with |- context [N.eqb ?a ?b] => destruct (N.eqb_spec a b) end; cbn [negb]; split; intros H;
    try discriminate; try reflexivity; try (repeat split; assumption); destruct H as (?&?&?&?&?&?); congruence.
Qed.

(* bft.BFT.SafeNode, for a replica locked on [l] and a PROPOSE message [m] whose certificate names the attached proposal, is the
   model's [safe_node]; [h] is the height (equal on both sides: CheckHighQC / the view check admit no other) *)
Definition src_safe_node (h : N) (l : qc) (m : lmsg) : bool :=
  match m_high m with
  | None => BFT_SafeNode false (q_block l) h (vw_phase (q_view l)) (vw_root (q_view l)) (vw_round (q_view l)) (q_results l)
              true true false false 0 0 0 0 0 0 (q_block (m_qc m)) (q_results (m_qc m))
  | Some hq => BFT_SafeNode false (q_block l) h (vw_phase (q_view l)) (vw_root (q_view l)) (vw_round (q_view l)) (q_results l)
              false false false false (q_block hq) h (vw_phase (q_view hq)) (vw_root (q_view hq)) (vw_round (q_view hq)) (q_results hq)
              (q_block (m_qc m)) (q_results (m_qc m))
  end.

Theorem src_safe_node_is_model h l m : src_safe_node h l m = safe_node l m.
Proof.
  unfold src_safe_node, safe_node. destruct (m_high m) as [hq|]; [|reflexivity].
  unfold BFT_SafeNode. cbn [orb]. rewrite src_view_less.
  destruct (q_block (m_qc m) =? q_block hq), (q_results (m_qc m) =? q_results hq); cbn [negb orb andb]; try reflexivity.
  destruct (q_block l =? q_block hq), (q_results l =? q_results hq); cbn [andb orb]; try reflexivity;
    destruct (view_less (q_view l) (q_view hq)); reflexivity.
Qed.

(* what the agreement proof needs of SafeNode, stated over the source's own function: a locked replica accepts a proposal for
   another value only under a certificate of a strictly higher view than its lock *)
Theorem src_safe_node_unlock_needs_higher_view h l m hq :
  m_high m = Some hq -> src_safe_node h l m = true ->
  (q_block l = q_block hq /\ q_results l = q_results hq) \/ view_less (q_view l) (q_view hq) = true.
Proof.
  intros Hh. rewrite src_safe_node_is_model. unfold safe_node. rewrite Hh.
  intros H. apply andb_true_iff in H as [_ H]. apply orb_true_iff in H as [H|H]; [left|right; exact H].
  apply andb_true_iff in H as [H1 H2]. apply N.eqb_eq in H1, H2. split; assumption.
Qed.
