(* BftRunOk.v — a boolean checker of BftNet.action_ok / run_ok, for concrete executions. *)
From Coq Require Import NArith List Bool Lia.
From V Require Import U64 Extracted Bft BftNet BftInv.
Import ListNotations.
Local Open Scope N_scope.

Definition genuineb (n : net) (q : qc) : bool :=
  negb (q_sigok q) ||
  negb ((vw_phase (q_view q) =? Phase_PROPOSE_VOTE) || (vw_phase (q_view q) =? Phase_PRECOMMIT_VOTE)) ||
  forallb (fun s => negb (is_correct n s) || existsb (hv_eqb (mkHV s (q_view q) (q_block q) (q_results q) (q_proposer q))) (n_votes n))
          (q_signers q).
Definition genuine_optb (n : net) (q : option qc) : bool := match q with Some h => genuineb n h | None => true end.
Definition action_okb (n : net) (a : action) : bool :=
  match a with
  | AStep i o => match get_rep n i with Some r => r_root r <=? o_root o | None => true end
  | ALeader _ m => genuineb n (m_qc m) && genuine_optb n (m_high m)
  | AVote _ v => genuine_optb n (v_high v)
  | ARoot _ _ => true
  end.
Fixpoint run_okb (powers : list N) (lru : N) (n : net) (acts : list action) : bool :=
  match acts with [] => true | a :: r => action_okb n a && run_okb powers lru (net_step powers lru n a) r end.

Lemma genuineb_sound n q : genuineb n q = true -> genuine n q.
Proof.
  unfold genuineb, genuine. intros H Hs Hp s Hin Hc.
  rewrite Hs in H. simpl in H.
  assert (Hph : (vw_phase (q_view q) =? Phase_PROPOSE_VOTE) || (vw_phase (q_view q) =? Phase_PRECOMMIT_VOTE) = true).
  { apply orb_true_iff. destruct Hp as [Hp|Hp]; [left|right]; now apply N.eqb_eq. }
  rewrite Hph in H. simpl in H.
  rewrite forallb_forall in H. specialize (H s Hin). rewrite Hc in H. simpl in H.
  apply existsb_exists in H. destruct H as [x [Hx He]]. apply hv_eqb_eq in He. now subst.
Qed.
Lemma genuine_optb_sound n q : genuine_optb n q = true -> genuine_opt n q.
Proof. destruct q; simpl; [apply genuineb_sound|auto]. Qed.
Lemma action_okb_sound n a : action_okb n a = true -> action_ok n a.
Proof.
  destruct a as [i o|i m|i v|i root]; simpl; auto.
  - destruct (get_rep n i); [apply N.leb_le|auto].
  - intros H. apply andb_true_iff in H. destruct H. split; [now apply genuineb_sound|now apply genuine_optb_sound].
  - apply genuine_optb_sound.
Qed.
Lemma run_okb_sound powers lru acts : forall n, run_okb powers lru n acts = true -> run_ok powers lru n acts.
Proof.
  induction acts as [|a acts IH]; intros n H; simpl in *; [exact I|].
  apply andb_true_iff in H. destruct H as [H1 H2]. split; [now apply action_okb_sound|now apply IH].
Qed.

