(* AuthProofs.v — only authorized signers can move funds or alter validators / orders (property C05).

   STATEMENT CHANGES with respect to the original statement file (both reported, both with machine-checked
   counterexamples at the end of the file):
   1. [orders_change_only_by_their_seller] has the extra hypothesis [LC.msg_fresh m s] (a created order's id is not the id
      of an open order).  MCreateOrder does not check that the id is unused: anybody can overwrite an open order of another
      seller by creating an order under the same id ([cx_order_overwritten]).
   2. [escrow_released_only_to_the_seller] has two extra hypotheses: [msg_chain_u64 m] (the chain id carried by an
      edit-order / delete-order message is a 64-bit value) and
      [nget (add64 c EscrowPoolAddend) (l_pools s) + nget signer (l_accounts s) < two64] (the escrow pool plus what the
      signer owns fits in 64 bits; a consequence of [LC.Conserved s], see the corollary
      [escrow_released_only_to_the_seller_conserved]).  PoolAdd is unchecked: without the bound a subsidy or a created
      order wraps the escrow pool around ([cx_escrow_wraps_subsidy], [cx_escrow_wraps_create]); and the model's chain ids
      are unbounded naturals, so chain 2^64+c aliases the escrow pool of chain c ([cx_escrow_alias]).
   Everything else is as stated. *)
From Coq Require Import NArith List Bool Lia.
From V Require Import U64 Extracted Ledger LedgerCheck Auth.
From V Require LedgerConservation LedgerStaking.
Import ListNotations.
Local Open Scope N_scope.
Module LC := LedgerConservation.

(* ================= tactics ================= *)
Ltac psimpl := cbn [l_accounts l_pools l_vals l_supply l_unstaking l_paused l_orders l_params l_height l_chain
  set_accounts set_pools set_vals set_supply set_unstaking set_paused set_orders put_val
  s_total s_staked s_delegated s_cstaked s_cdelegated] in *.
Tactic Notation "bind_inv" hyp(H) "as" ident(s) ident(E) := apply LC.bind_ok in H; destruct H as (s & E & H).
Ltac ok_inv H := injection H as H; try subst.
Ltac if_inv H :=
  match type of H with
  | (if ?c then LErr else _) = LOk _ => let E := fresh "C" in destruct c eqn:E; [discriminate H|]
  end.
Ltac splits := repeat match goal with |- _ /\ _ => split end.

(* ================= authorization check ================= *)
Lemma check_auth_true signer m s : check_auth signer m s = true ->
  signer <> 0 /\ In signer (authorized m s) /\ signer_field_ok signer m = true.
Proof.
  unfold check_auth. intros H. apply andb_true_iff in H. destruct H as [H H3].
  apply andb_true_iff in H. destruct H as [H1 H2].
  apply negb_true_iff, N.eqb_neq in H1. split; [exact H1|]. split; [|exact H3].
  apply existsb_exists in H2. destruct H2 as (x & Hin & Hx). apply N.eqb_eq in Hx. subst x. exact Hin.
Qed.

(* a transaction not signed by an authorized key (or by no key at all: signer 0) changes nothing *)
Theorem unauthorized_changes_nothing signer fee m s :
  check_auth signer m s = false -> apply_signed signer fee m s = (false, s).
Proof. unfold apply_signed. intros ->. reflexivity. Qed.

(* ================= primitives: what each one touches ================= *)
Lemma nget_nput_nz k v m : v <> 0 -> nget k (nput k v m) = v.
Proof.
  intros H. unfold nput. destruct (N.eqb_spec v 0); [contradiction|]. unfold nget. now rewrite LC.aget_aput_same.
Qed.

Lemma aput_changed {A} a a' (v : A) m : aget a (aput a' v m) <> aget a m -> a = a'.
Proof. intros H. destruct (N.eq_dec a a') as [E|E]; [exact E|]. exfalso. apply H. now apply LC.aget_aput_other. Qed.
Lemma adel_changed {A} a a' (m : list (N * A)) : aget a (adel a' m) <> aget a m -> a = a'.
Proof. intros H. destruct (N.eq_dec a a') as [E|E]; [exact E|]. exfalso. apply H. now apply LC.aget_adel_other. Qed.

Lemma asub a x s s' : account_sub a x s = LOk s' ->
  l_pools s' = l_pools s /\ l_vals s' = l_vals s /\ l_orders s' = l_orders s /\ x <= nget a (l_accounts s) /\
  (forall k, k <> a -> nget k (l_accounts s') = nget k (l_accounts s)) /\
  (LC.keys_sorted (l_accounts s) -> forall k, nget k (l_accounts s') <= nget k (l_accounts s)).
Proof.
  unfold account_sub. intros H. destruct (N.eqb_spec x 0) as [Hz|Hnz].
  - ok_inv H. splits; auto; try lia; try (intros; lia).
  - destruct (N.ltb_spec (nget a (l_accounts s)) x) as [Hlt|Hge]; [discriminate|]. ok_inv H. psimpl.
    splits; auto.
    + intros k Hk. now apply LC.nget_nput_other.
    + intros W k. destruct (N.eq_dec k a) as [->|Hk].
      * rewrite LC.nget_nput_same by exact W. lia.
      * rewrite LC.nget_nput_other by exact Hk. lia.
Qed.

Lemma aadd a x s s' : account_add a x s = LOk s' ->
  l_pools s' = l_pools s /\ l_vals s' = l_vals s /\ l_orders s' = l_orders s /\
  (forall k, nget k (l_accounts s) <= nget k (l_accounts s')).
Proof.
  unfold account_add. intros H. destruct (N.eqb_spec x 0) as [Hz|Hnz].
  - ok_inv H. splits; auto; try (intros; lia).
  - destruct (two64 <=? nget a (l_accounts s) + x); [discriminate|]. ok_inv H. psimpl. splits; auto.
    intros k. destruct (N.eq_dec k a) as [->|Hk].
    + rewrite nget_nput_nz by lia. lia.
    + rewrite LC.nget_nput_other by exact Hk. lia.
Qed.

Lemma padd id x s s' : pool_add id x s = LOk s' ->
  l_accounts s' = l_accounts s /\ l_vals s' = l_vals s /\ l_orders s' = l_orders s /\
  (forall k, k <> id -> nget k (l_pools s') = nget k (l_pools s)) /\
  (LC.keys_sorted (l_pools s) -> LC.keys_sorted (l_pools s') /\ nget id (l_pools s') = add64 (nget id (l_pools s)) x).
Proof.
  unfold pool_add. intros H. ok_inv H. psimpl. splits; auto.
  - intros k Hk. now apply LC.nget_nput_other.
  - intros W. split; [now apply LC.keys_sorted_nput | now apply LC.nget_nput_same].
Qed.

Lemma psub id x s s' : pool_sub id x s = LOk s' ->
  l_accounts s' = l_accounts s /\ l_vals s' = l_vals s /\ l_orders s' = l_orders s /\
  (forall k, k <> id -> nget k (l_pools s') = nget k (l_pools s)) /\
  (LC.keys_sorted (l_pools s) -> LC.keys_sorted (l_pools s')).
Proof.
  unfold pool_sub. intros H. destruct (nget id (l_pools s) <? x); [discriminate|]. ok_inv H. psimpl. splits; auto.
  - intros k Hk. now apply LC.nget_nput_other.
  - intros W. now apply LC.keys_sorted_nput.
Qed.

(* a pool that received [x] can only have gone down by wrapping around *)
Lemma padd_down id x s s' : LC.keys_sorted (l_pools s) -> pool_add id x s = LOk s' ->
  nget id (l_pools s') < nget id (l_pools s) -> two64 <= nget id (l_pools s) + x.
Proof.
  intros W H Hlt. destruct (padd _ _ _ _ H) as (_ & _ & _ & _ & Ps). destruct (Ps W) as [_ Pv].
  rewrite Pv in Hlt. destruct (N.lt_ge_cases (nget id (l_pools s) + x) two64) as [Hs|Hb]; [|exact Hb].
  rewrite add64_exact in Hlt by exact Hs. lia.
Qed.

Lemma uvs a v cs add s s' : update_validator_stake a v cs add s = LOk s' ->
  l_accounts s' = l_accounts s /\ l_pools s' = l_pools s /\ l_orders s' = l_orders s /\
  l_vals s' = aput a (mkVal (add64 (v_stake v) add) (v_output v) cs (v_paused v) (v_unstaking v) (v_delegate v) (v_compound v)) (l_vals s).
Proof.
  unfold update_validator_stake. intros H. bind_inv H as s1 E1. bind_inv H as s2 E2. ok_inv H.
  assert (T1 : LC.fr_tally s s1) by (eapply LC.add_staked_tally; eassumption).
  assert (T2 : LC.fr_tally s1 s2).
  { destruct (v_delegate v).
    - bind_inv E2 as s3 E3. bind_inv E2 as s4 E4. LC.tally.
    - bind_inv E2 as s3 E3. LC.tally. }
  destruct (LC.fr_tally_trans _ _ _ T1 T2) as (A & P & V & O & _). psimpl.
  splits; auto. now rewrite V.
Qed.

(* ================= handlers: what each message touches ================= *)
(* the only account a handler debits *)
Definition payer (m : lmsg) (s : lstate) : option N :=
  match m with
  | MSend from _ _ | MSubsidy from _ _ => Some from
  | MStake _ sg _ _ _ _ _ | MEditStake _ sg _ _ _ _ => Some sg
  | MCreateOrder _ seller _ _ => Some seller
  | MEditOrder id _ _ => option_map o_seller (aget id (l_orders s))
  | _ => None
  end.
Definition accP (m : lmsg) (s s' : lstate) : Prop :=
  forall k, nget k (l_accounts s') < nget k (l_accounts s) -> payer m s = Some k.
Definition valP (m : lmsg) (s s' : lstate) : Prop :=
  forall k, aget k (l_vals s') <> aget k (l_vals s) ->
  match m with
  | MStake a _ out _ _ _ _ =>
      k = a /\ aget k (l_vals s) = None /\ exists v', aget k (l_vals s') = Some v' /\ v_output v' = out
  | MEditStake a _ _ _ _ _ | MUnstake a | MPause a | MUnpause a => k = a /\ aget k (l_vals s) <> None
  | _ => False
  end.
Definition ordP (m : lmsg) (s s' : lstate) : Prop :=
  forall k, aget k (l_orders s') <> aget k (l_orders s) ->
  match m with
  | MCreateOrder id seller _ _ => k = id /\ exists o', aget k (l_orders s') = Some o' /\ o_seller o' = seller
  | MEditOrder id _ _ | MDeleteOrder id _ => k = id /\ aget k (l_orders s) <> None
  | _ => False
  end.
Definition poolP (m : lmsg) (s s' : lstate) : Prop :=
  forall k, nget k (l_pools s') < nget k (l_pools s) ->
  match m with
  | MSubsidy from chain x => k = chain /\ two64 <= nget k (l_pools s) + x /\ x <= nget from (l_accounts s)
  | MDaoTransfer _ _ _ => k = DAOPool
  | MCreateOrder _ seller chain x =>
      k = add64 chain EscrowPoolAddend /\ two64 <= nget k (l_pools s) + x /\ x <= nget seller (l_accounts s)
  | MEditOrder id chain _ | MDeleteOrder id chain =>
      k = add64 chain EscrowPoolAddend /\ exists o, aget id (l_orders s) = Some o /\ o_chain o = chain
  | _ => False
  end.

Ltac same_get := let k := fresh "k" in let Hne := fresh "Hne" in
  intros k Hne; cbv beta iota; apply Hne; psimpl; congruence.
Ltac same_lt := let k := fresh "k" in let Hlt := fresh "Hlt" in
  intros k Hlt; exfalso; psimpl;
  match type of Hlt with
  | nget _ ?p' < nget _ ?p => let EQ := fresh "EQ" in assert (EQ : p' = p) by congruence; try rewrite EQ in Hlt; lia
  end.

Lemma handle_eff m s s' : LC.keys_sorted (l_pools s) -> handle m s = LOk s' ->
  accP m s s' /\ valP m s s' /\ ordP m s s' /\ poolP m s s'.
Proof.
  intros W H. unfold handle in H. cbv zeta in H. unfold accP, valP, ordP, poolP.
  destruct m as [from to x | a sg out x cs dlg cmp | a sg out x cs cmp | a | a | a | from chain x | to x mint
                | id seller chain x | id chain x | id chain]; cbn [payer].
  - (* MSend *)
    bind_inv H as s1 E1. destruct (asub _ _ _ _ E1) as (P1 & V1 & O1 & L1 & A1 & _).
    destruct (aadd _ _ _ _ H) as (P2 & V2 & O2 & A2).
    splits; [|same_get|same_get|same_lt].
    intros k Hlt. destruct (N.eq_dec k from) as [->|Hk]; [reflexivity|].
    specialize (A1 k Hk). specialize (A2 k). lia.
  - (* MStake *)
    destruct (aget a (l_vals s)) eqn:Hget; [discriminate|]. if_inv H.
    bind_inv H as s1 E1. bind_inv H as s2 E2. bind_inv H as s3 E3. ok_inv H.
    destruct (asub _ _ _ _ E1) as (P1 & V1 & O1 & L1 & A1 & _).
    assert (T : LC.fr_tally s1 s3).
    { destruct dlg; [bind_inv E3 as s4 E4|]; LC.tally. }
    destruct T as (A3 & P3 & V3 & O3 & _).
    splits; [| |same_get|same_lt].
    + intros k Hlt. psimpl. rewrite A3 in Hlt. destruct (N.eq_dec k sg) as [->|Hk]; [reflexivity|].
      specialize (A1 k Hk). lia.
    + intros k Hne. psimpl. rewrite V3, V1 in *. apply aput_changed in Hne. subst k.
      split; [reflexivity|]. split; [exact Hget|]. eexists. split; [apply LC.aget_aput_same|reflexivity].
  - (* MEditStake *)
    destruct (aget a (l_vals s)) as [v|] eqn:Hget; [|discriminate]. if_inv H. if_inv H.
    bind_inv H as s1 E1. destruct (asub _ _ _ _ E1) as (P1 & V1 & O1 & L1 & A1 & _).
    destruct (uvs _ _ _ _ _ _ H) as (A2 & P2 & O2 & V2).
    splits; [| |same_get|same_lt].
    + intros k Hlt. rewrite A2 in Hlt. destruct (N.eq_dec k sg) as [->|Hk]; [reflexivity|].
      specialize (A1 k Hk). lia.
    + intros k Hne. rewrite V2, V1 in Hne. apply aput_changed in Hne. subst k.
      split; [reflexivity|]. rewrite Hget. discriminate.
  - (* MUnstake *)
    destruct (aget a (l_vals s)) as [v|] eqn:Hget; [|discriminate]. if_inv H.
    set (h := add64 _ _) in H. clearbody h. ok_inv H.
    destruct (LedgerStaking.suv_other a v h s) as (A1 & P1 & _ & O1 & _).
    splits; [same_lt| |same_get|same_lt].
    intros k Hne. rewrite LedgerStaking.suv_vals in Hne. apply aput_changed in Hne. subst k.
    split; [reflexivity|]. rewrite Hget. discriminate.
  - (* MPause *)
    destruct (aget a (l_vals s)) as [v|] eqn:Hget; [|discriminate]. if_inv H.
    set (h := add64 _ _) in H. clearbody h. ok_inv H. unfold set_paused_val.
    splits; [same_lt| |same_get|same_lt].
    intros k Hne. psimpl. apply aput_changed in Hne. subst k.
    split; [reflexivity|]. rewrite Hget. discriminate.
  - (* MUnpause *)
    destruct (aget a (l_vals s)) as [v|] eqn:Hget; [|discriminate]. if_inv H. ok_inv H.
    unfold set_unpaused. cbn [fst].
    splits; [same_lt| |same_get|same_lt].
    intros k Hne. psimpl. apply aput_changed in Hne. subst k.
    split; [reflexivity|]. rewrite Hget. discriminate.
  - (* MSubsidy *)
    bind_inv H as s1 E1. destruct (asub _ _ _ _ E1) as (P1 & V1 & O1 & L1 & A1 & _).
    destruct (padd _ _ _ _ H) as (A2 & V2 & O2 & Po & _).
    splits; [|same_get|same_get|].
    + intros k Hlt. rewrite A2 in Hlt. destruct (N.eq_dec k from) as [->|Hk]; [reflexivity|].
      specialize (A1 k Hk). lia.
    + intros k Hlt. destruct (N.eq_dec k chain) as [->|Hk].
      * split; [reflexivity|]. split; [|exact L1]. rewrite <- P1 in *. eapply padd_down; eauto.
      * rewrite Po, P1 in Hlt by exact Hk. lia.
  - (* MDaoTransfer *)
    bind_inv H as s1 E1. bind_inv H as s2 E2.
    destruct (psub _ _ _ _ E2) as (A2 & V2 & O2 & Po2 & _).
    destruct (aadd _ _ _ _ H) as (P3 & V3 & O3 & A3).
    assert (S1 : l_accounts s1 = l_accounts s /\ l_vals s1 = l_vals s /\ l_orders s1 = l_orders s /\
                 forall k, k <> DAOPool -> nget k (l_pools s1) = nget k (l_pools s)).
    { destruct mint.
      - unfold mint_to_pool in E1. bind_inv E1 as s0 E0.
        unfold add_total, upd_supply in E0. bind_inv E0 as u Eu. ok_inv Eu. ok_inv E0.
        destruct (padd _ _ _ _ E1) as (A1 & V1 & O1 & Po1 & _). psimpl. splits; auto.
      - ok_inv E1. splits; auto. }
    destruct S1 as (A1 & V1 & O1 & Po1).
    splits; [|same_get|same_get|].
    + intros k Hlt. exfalso. specialize (A3 k). rewrite A2, A1 in A3. lia.
    + intros k Hlt. destruct (N.eq_dec k DAOPool) as [Hk|Hk]; [exact Hk|]. exfalso.
      rewrite P3, Po2, Po1 in Hlt by exact Hk. lia.
  - (* MCreateOrder *)
    if_inv H. bind_inv H as s1 E1. bind_inv H as s2 E2. ok_inv H.
    destruct (asub _ _ _ _ E1) as (P1 & V1 & O1 & L1 & A1 & _).
    destruct (padd _ _ _ _ E2) as (A2 & V2 & O2 & Po & _).
    splits; [|same_get| |].
    + intros k Hlt. psimpl. rewrite A2 in Hlt. destruct (N.eq_dec k seller) as [->|Hk]; [reflexivity|].
      specialize (A1 k Hk). lia.
    + intros k Hne. psimpl. rewrite O2, O1 in *. apply aput_changed in Hne. subst k.
      split; [reflexivity|]. eexists. split; [apply LC.aget_aput_same|reflexivity].
    + intros k Hlt. psimpl. destruct (N.eq_dec k (add64 chain EscrowPoolAddend)) as [->|Hk].
      * split; [reflexivity|]. split; [|exact L1]. rewrite <- P1 in *. eapply padd_down; eauto.
      * rewrite Po, P1 in Hlt by exact Hk. lia.
  - (* MEditOrder *)
    destruct (aget id (l_orders s)) as [o|] eqn:Hget; [|discriminate]. if_inv H. if_inv H. if_inv H.
    bind_inv H as s1 E1. ok_inv H.
    apply negb_false_iff, N.eqb_eq in C.
    assert (S1 : l_vals s1 = l_vals s /\ l_orders s1 = l_orders s /\
                 (forall k, nget k (l_accounts s1) < nget k (l_accounts s) -> k = o_seller o) /\
                 (forall k, k <> add64 chain EscrowPoolAddend -> nget k (l_pools s1) = nget k (l_pools s))).
    { destruct (o_amount o <? x).
      - bind_inv E1 as s0 E0. destruct (asub _ _ _ _ E0) as (P0 & V0 & O0 & L0 & A0 & _).
        destruct (padd _ _ _ _ E1) as (A1 & V1 & O1 & Po1 & _).
        splits; try congruence.
        + intros k Hlt. rewrite A1 in Hlt. destruct (N.eq_dec k (o_seller o)) as [Hk|Hk]; [exact Hk|].
          specialize (A0 k Hk). lia.
        + intros k Hk. rewrite Po1, P0 by exact Hk. reflexivity.
      - destruct (x <? o_amount o).
        + bind_inv E1 as s0 E0. destruct (psub _ _ _ _ E0) as (A0 & V0 & O0 & Po0 & _).
          destruct (aadd _ _ _ _ E1) as (P1 & V1 & O1 & A1).
          splits; try congruence.
          * intros k Hlt. exfalso. specialize (A1 k). rewrite A0 in A1. lia.
          * intros k Hk. rewrite P1, Po0 by exact Hk. reflexivity.
        + ok_inv E1. splits; auto. intros k Hlt. lia. }
    destruct S1 as (V1 & O1 & A1 & Po1).
    cbn [option_map].
    splits; [|same_get| |].
    + intros k Hlt. psimpl. now rewrite (A1 k Hlt).
    + intros k Hne. psimpl. rewrite O1 in *. apply aput_changed in Hne. subst k.
      split; [reflexivity|]. rewrite Hget. discriminate.
    + intros k Hlt. psimpl. destruct (N.eq_dec k (add64 chain EscrowPoolAddend)) as [Hk|Hk].
      * split; [exact Hk|]. exists o. split; [reflexivity|exact C].
      * rewrite Po1 in Hlt by exact Hk. lia.
  - (* MDeleteOrder *)
    destruct (aget id (l_orders s)) as [o|] eqn:Hget; [|discriminate]. if_inv H. if_inv H.
    bind_inv H as s1 E1. bind_inv H as s2 E2. ok_inv H.
    apply negb_false_iff, N.eqb_eq in C.
    destruct (psub _ _ _ _ E1) as (A1 & V1 & O1 & Po1 & _).
    destruct (aadd _ _ _ _ E2) as (P2 & V2 & O2 & A2).
    splits; [|same_get| |].
    + intros k Hlt. exfalso. psimpl. specialize (A2 k). rewrite A1 in A2. lia.
    + intros k Hne. psimpl. rewrite O2, O1 in *. apply adel_changed in Hne. subst k.
      split; [reflexivity|]. rewrite Hget. discriminate.
    + intros k Hlt. psimpl. destruct (N.eq_dec k (add64 chain EscrowPoolAddend)) as [Hk|Hk].
      * split; [exact Hk|]. exists o. split; [reflexivity|exact C].
      * rewrite P2, Po1 in Hlt by exact Hk. lia.
Qed.

(* ================= the fee steps, then the handler ================= *)
Lemma apply_tx_inv sender fee m s s' : LC.wf s -> apply_tx sender fee m s = (true, s') ->
  exists s2, handle m s2 = LOk s' /\ l_vals s2 = l_vals s /\ l_orders s2 = l_orders s /\
    (forall k, k <> sender -> nget k (l_accounts s2) = nget k (l_accounts s)) /\
    (forall k, nget k (l_accounts s2) <= nget k (l_accounts s)) /\
    (forall k, k <> l_chain s -> nget k (l_pools s2) = nget k (l_pools s)) /\
    LC.keys_sorted (l_pools s2).
Proof.
  intros (W1 & W2 & _) H. unfold apply_tx in H.
  destruct (s1 <- account_sub sender fee s;; s2 <- pool_add (l_chain s) fee s1;; handle m s2) as [sf|] eqn:E;
    [|discriminate]. injection H as <-.
  bind_inv E as s1 E1. bind_inv E as s2 E2.
  destruct (asub _ _ _ _ E1) as (P1 & V1 & O1 & _ & A1 & L1).
  destruct (padd _ _ _ _ E2) as (A2 & V2 & O2 & Po & Ps).
  exists s2. splits; try congruence.
  - intros k Hk. rewrite A2. auto.
  - intros k. rewrite A2. auto.
  - intros k Hk. rewrite Po, P1 by exact Hk. reflexivity.
  - apply Ps. rewrite P1. exact W2.
Qed.

Lemma payer_ext m s s2 : l_orders s2 = l_orders s -> payer m s2 = payer m s.
Proof. intros E. destruct m; cbn [payer]; try reflexivity. now rewrite E. Qed.

(* the account a handler debits is the verified signer's *)
Lemma auth_payer signer m s p : check_auth signer m s = true -> payer m s = Some p -> p = signer.
Proof.
  intros HA Hp. destruct (check_auth_true _ _ _ HA) as (_ & Hin & Hf).
  destruct m as [from to x | a sg out x cs dlg cmp | a sg out x cs cmp | a | a | a | from chain x | to x mint
                | id seller chain x | id chain x | id chain];
    cbn [payer authorized signer_field_ok In] in *; try discriminate.
  - injection Hp as <-. destruct Hin as [E|[]]. exact E.
  - injection Hp as <-. now apply N.eqb_eq in Hf.
  - injection Hp as <-. now apply N.eqb_eq in Hf.
  - injection Hp as <-. destruct Hin as [E|[]]. exact E.
  - injection Hp as <-. destruct Hin as [E|[]]. exact E.
  - destruct (aget id (l_orders s)) as [o|]; [|discriminate]. cbn [option_map In] in *.
    injection Hp as <-. destruct Hin as [E|[]]. exact E.
Qed.

Lemma apply_signed_inv signer fee m s s' : apply_signed signer fee m s = (true, s') ->
  check_auth signer m s = true /\ apply_tx signer fee m s = (true, s').
Proof. unfold apply_signed. destruct (check_auth signer m s); [auto|discriminate]. Qed.

(* MAIN THEOREM: whatever the message, whatever the state: if the transaction takes effect, its signer was authorized for it,
   and no account other than the signer's is debited *)
Theorem only_the_signer_pays signer fee m s s' : LC.wf s ->
  apply_signed signer fee m s = (true, s') ->
  In signer (authorized m s) /\
  forall a, a <> signer -> nget a (l_accounts s) <= nget a (l_accounts s').
Proof.
  intros Hwf H. apply apply_signed_inv in H. destruct H as [HA H].
  split; [apply (check_auth_true _ _ _ HA)|].
  intros a Hne. destruct (apply_tx_inv _ _ _ _ _ Hwf H) as (s2 & Hh & V2 & O2 & A2 & _ & _ & W2).
  destruct (handle_eff _ _ _ W2 Hh) as (HaccP & _).
  destruct (N.le_gt_cases (nget a (l_accounts s)) (nget a (l_accounts s'))) as [Hle|Hgt]; [exact Hle|].
  exfalso. apply Hne. rewrite <- (A2 a Hne) in Hgt. specialize (HaccP a Hgt).
  rewrite (payer_ext _ _ _ O2) in HaccP. eapply auth_payer; eauto.
Qed.

(* a validator record changes only at the hands of its operator or its output address (or is created by the staked key / its
   output address) *)
Theorem validators_change_only_by_their_keys signer fee m s s' a : LC.wf s ->
  apply_signed signer fee m s = (true, s') -> aget a (l_vals s') <> aget a (l_vals s) ->
  match aget a (l_vals s) with
  | Some v => signer = a \/ signer = v_output v
  | None => exists v', aget a (l_vals s') = Some v' /\ (signer = a \/ signer = v_output v')
  end.
Proof.
  intros Hwf H Hne. apply apply_signed_inv in H. destruct H as [HA H].
  destruct (check_auth_true _ _ _ HA) as (_ & Hin & _).
  destruct (apply_tx_inv _ _ _ _ _ Hwf H) as (s2 & Hh & V2 & O2 & _ & _ & _ & W2).
  destruct (handle_eff _ _ _ W2 Hh) as (_ & HvalP & _).
  rewrite <- V2 in Hne. specialize (HvalP a Hne). rewrite V2 in HvalP.
  destruct m as [from to x | a' sg out x cs dlg cmp | a' sg out x cs cmp | a' | a' | a' | from chain x | to x mint
                | id' seller chain x | id' chain x | id' chain];
    cbn [authorized] in Hin; try contradiction.
  - destruct HvalP as (-> & Hnone & v' & Hv' & Hout). rewrite Hnone. exists v'. split; [exact Hv'|].
    rewrite Hout. cbn [In] in Hin. destruct Hin as [E|[E|[]]]; auto.
  - destruct HvalP as (-> & Hsome). destruct (aget a' (l_vals s)) as [v|]; [|congruence].
    cbn [In] in Hin. destruct Hin as [E|[E|[]]]; auto.
  - destruct HvalP as (-> & Hsome). destruct (aget a' (l_vals s)) as [v|]; [|congruence].
    cbn [In] in Hin. destruct Hin as [E|[E|[]]]; auto.
  - destruct HvalP as (-> & Hsome). destruct (aget a' (l_vals s)) as [v|]; [|congruence].
    cbn [In] in Hin. destruct Hin as [E|[E|[]]]; auto.
  - destruct HvalP as (-> & Hsome). destruct (aget a' (l_vals s)) as [v|]; [|congruence].
    cbn [In] in Hin. destruct Hin as [E|[E|[]]]; auto.
Qed.

(* an order changes only at the hands of its seller (or is created by the seller) *)
(* STATEMENT CHANGED: extra hypothesis [LC.msg_fresh m s] (order ids are transaction hashes in the implementation: a created
   order never reuses the id of an open order).  Without it the statement is false: MCreateOrder does not check that the id
   is unused, so any account can replace another seller's open order by creating one under the same id
   (see [cx_order_overwritten] below). *)
Theorem orders_change_only_by_their_seller signer fee m s s' id : LC.wf s ->
  LC.msg_fresh m s ->
  apply_signed signer fee m s = (true, s') -> aget id (l_orders s') <> aget id (l_orders s) ->
  match aget id (l_orders s) with
  | Some o => signer = o_seller o
  | None => exists o', aget id (l_orders s') = Some o' /\ signer = o_seller o'
  end.
Proof.
  intros Hwf Hfresh H Hne. apply apply_signed_inv in H. destruct H as [HA H].
  destruct (check_auth_true _ _ _ HA) as (_ & Hin & _).
  destruct (apply_tx_inv _ _ _ _ _ Hwf H) as (s2 & Hh & V2 & O2 & _ & _ & _ & W2).
  destruct (handle_eff _ _ _ W2 Hh) as (_ & _ & HordP & _).
  rewrite <- O2 in Hne. specialize (HordP id Hne). rewrite O2 in HordP.
  destruct m as [from to x | a' sg out x cs dlg cmp | a' sg out x cs cmp | a' | a' | a' | from chain x | to x mint
                | id' seller chain x | id' chain x | id' chain];
    cbn [authorized LC.msg_fresh] in *; try contradiction.
  - destruct HordP as (-> & o' & Ho' & Hs). rewrite Hfresh. exists o'. split; [exact Ho'|].
    rewrite Hs. destruct Hin as [E|[]]. auto.
  - destruct HordP as (-> & Hsome). destruct (aget id' (l_orders s)) as [o|]; [|congruence].
    destruct Hin as [E|[]]. auto.
  - destruct HordP as (-> & Hsome). destruct (aget id' (l_orders s)) as [o|]; [|congruence].
    destruct Hin as [E|[]]. auto.
Qed.

(* ================= escrow ================= *)
(* the chain id carried by an edit-order / delete-order message is a 64-bit value (it is a uint64 in the implementation; the
   model's messages carry unbounded naturals) *)
Definition msg_chain_u64 (m : lmsg) : Prop :=
  match m with MEditOrder _ c _ | MDeleteOrder _ c => c < two64 | _ => True end.

Lemma esc_alias c chain : c <= MaxChainId -> chain < two64 ->
  add64 c EscrowPoolAddend = add64 chain EscrowPoolAddend -> chain = c.
Proof.
  intros Hc Hch. rewrite (LC.esc_val c Hc). unfold add64, wrap64, EscrowPoolAddend, MaxChainId, two64 in *. lia.
Qed.

(* escrow leaves a pool only towards the seller of the order, on the seller's own request *)
(* STATEMENT CHANGED: two extra hypotheses.
   - [msg_chain_u64 m]: the model's chain ids are unbounded naturals and the escrow pool id is computed with the wrapping
     add64, so an order of "chain" 2^64+c shares the escrow pool of chain c ([cx_escrow_alias] below);
   - the escrow pool plus what the signer owns fits in 64 bits (implied by [LC.Conserved s], see the corollary): PoolAdd is
     unchecked, so a subsidy to the escrow pool id, or a created order, makes a nearly full pool wrap around
     ([cx_escrow_wraps_subsidy], [cx_escrow_wraps_create] below). *)
Theorem escrow_released_only_to_the_seller signer fee m s s' c : LC.wf s -> c <= MaxChainId -> l_chain s <= MaxChainId ->
  msg_chain_u64 m ->
  nget (add64 c EscrowPoolAddend) (l_pools s) + nget signer (l_accounts s) < two64 ->
  apply_signed signer fee m s = (true, s') ->
  nget (add64 c EscrowPoolAddend) (l_pools s') < nget (add64 c EscrowPoolAddend) (l_pools s) ->
  exists id o, aget id (l_orders s) = Some o /\ o_chain o = c /\ signer = o_seller o /\
               (m = MDeleteOrder id c \/ exists x, m = MEditOrder id c x).
Proof.
  intros Hwf Hc Hl Hu Hfit H Hlt. apply apply_signed_inv in H. destruct H as [HA H].
  destruct (check_auth_true _ _ _ HA) as (_ & Hin & _).
  destruct (apply_tx_inv _ _ _ _ _ Hwf H) as (s2 & Hh & V2 & O2 & A2 & L2 & P2 & W2).
  destruct (handle_eff _ _ _ W2 Hh) as (_ & _ & _ & HpoolP).
  assert (Hk : add64 c EscrowPoolAddend <> l_chain s).
  { rewrite LC.esc_val by exact Hc. unfold MaxChainId in *. lia. }
  rewrite <- (P2 _ Hk) in Hlt. specialize (HpoolP _ Hlt). rewrite (P2 _ Hk) in Hlt.
  pose proof (L2 signer) as Lsig.
  destruct m as [from to x | a sg out x cs dlg cmp | a sg out x cs cmp | a | a | a | from chain x | to x mint
                | id seller chain x | id chain x | id chain]; cbn [authorized msg_chain_u64] in *; try contradiction.
  - (* MSubsidy: could only have wrapped *)
    exfalso. destruct HpoolP as (_ & Hwrap & Hx). rewrite (P2 _ Hk) in Hwrap.
    destruct Hin as [E|[]]. subst from. lia.
  - (* MDaoTransfer: not an escrow pool *)
    exfalso. rewrite LC.esc_val in HpoolP by exact Hc. unfold DAOPool, MaxChainId in *. lia.
  - (* MCreateOrder: could only have wrapped *)
    exfalso. destruct HpoolP as (_ & Hwrap & Hx). rewrite (P2 _ Hk) in Hwrap.
    destruct Hin as [E|[]]. subst seller. lia.
  - (* MEditOrder *)
    destruct HpoolP as (Ek & o & Hget & Hch). rewrite O2 in Hget.
    apply esc_alias in Ek; [|exact Hc|exact Hu]. subst chain.
    rewrite Hget in Hin. destruct Hin as [E|[]].
    exists id, o. splits; auto. right. exists x. reflexivity.
  - (* MDeleteOrder *)
    destruct HpoolP as (Ek & o & Hget & Hch). rewrite O2 in Hget.
    apply esc_alias in Ek; [|exact Hc|exact Hu]. subst chain.
    rewrite Hget in Hin. destruct Hin as [E|[]].
    exists id, o. splits; auto.
Qed.

(* the same on the states and messages the other theorems speak about: conserved supply, checked chain ids *)
Corollary escrow_released_only_to_the_seller_conserved signer fee m s s' c :
  LC.wf s -> LC.Conserved s -> LC.msg_chain_ok m -> c <= MaxChainId -> l_chain s <= MaxChainId ->
  apply_signed signer fee m s = (true, s') ->
  nget (add64 c EscrowPoolAddend) (l_pools s') < nget (add64 c EscrowPoolAddend) (l_pools s) ->
  exists id o, aget id (l_orders s) = Some o /\ o_chain o = c /\ signer = o_seller o /\
               (m = MDeleteOrder id c \/ exists x, m = MEditOrder id c x).
Proof.
  intros Hwf (Hsum & Htot) Hchain Hc Hl. apply escrow_released_only_to_the_seller; auto.
  - destruct m; cbn [msg_chain_u64 LC.msg_chain_ok] in *; auto; unfold MaxChainId, two64 in *; lia.
  - pose proof (LC.nget_le_sum (add64 c EscrowPoolAddend) (l_pools s)).
    pose proof (LC.nget_le_sum signer (l_accounts s)). lia.
Qed.

Example auth_nonvacuous :
  let s := mkL [(10, 50); (11, 30)] [(1, 0); (65536, 5)] [(20, mkVal 100 21 [1] 0 0 false false)]
               (mkSupply 185 100 0 [(1, 100)] []) [] [] [(9, mkOrder 1 5 10 false)] (mkParams 2 2 3 10 10 1 50) 5 1 in
  fst (apply_signed 10 1 (MSend 10 11 5) s) = true /\ apply_signed 11 1 (MSend 10 11 5) s = (false, s) /\
  fst (apply_signed 21 0 (MUnstake 20) s) = true /\ apply_signed 10 0 (MUnstake 20) s = (false, s) /\
  fst (apply_signed 10 0 (MDeleteOrder 9 1) s) = true /\ apply_signed 11 0 (MDeleteOrder 9 1) s = (false, s) /\
  apply_signed 0 0 (MSend 10 11 5) s = (false, s).
Proof. vm_compute. repeat split; reflexivity. Qed.

(* ================= the counterexamples behind the statement changes, machine-checked ================= *)
Ltac wf_concrete := unfold LC.wf, LC.keys_sorted; cbn; repeat constructor.

(* 1. MCreateOrder under the id of an open order of another seller: order 9 of seller 10 becomes an order of seller 11 *)
Definition cx_orders : lstate :=
  mkL [(10, 50); (11, 30)] [(1, 0); (65536, 5)] [(20, mkVal 100 21 [1] 0 0 false false)]
      (mkSupply 185 100 0 [(1, 100)] []) [] [] [(9, mkOrder 1 5 10 false)] (mkParams 2 2 3 10 10 1 50) 5 1.
Definition cx_orders_post : lstate := Eval vm_compute in snd (apply_signed 11 0 (MCreateOrder 9 11 1 5) cx_orders).
Example cx_order_overwritten :
  LC.wf cx_orders /\ LC.Conserved cx_orders /\
  apply_signed 11 0 (MCreateOrder 9 11 1 5) cx_orders = (true, cx_orders_post) /\
  aget 9 (l_orders cx_orders) = Some (mkOrder 1 5 10 false) /\
  aget 9 (l_orders cx_orders_post) = Some (mkOrder 1 5 11 false) /\
  ~ (forall signer fee m s s' id, LC.wf s ->
       apply_signed signer fee m s = (true, s') -> aget id (l_orders s') <> aget id (l_orders s) ->
       match aget id (l_orders s) with
       | Some o => signer = o_seller o
       | None => exists o', aget id (l_orders s') = Some o' /\ signer = o_seller o'
       end).
Proof.
  assert (Hwf : LC.wf cx_orders) by wf_concrete.
  splits; try (vm_compute; reflexivity); [exact Hwf | split; vm_compute; reflexivity |].
  intros Hall.
  assert (Hrun : apply_signed 11 0 (MCreateOrder 9 11 1 5) cx_orders = (true, cx_orders_post)) by (vm_compute; reflexivity).
  specialize (Hall 11 0 _ _ _ 9 Hwf Hrun). vm_compute in Hall.
  assert (E : 11 = 10) by (apply Hall; discriminate). discriminate E.
Qed.

(* 2a. the escrow pool of chain 1 (id 65536) holds 2^64-1: a subsidy of 1 to pool id 65536 wraps it to 0 *)
Definition cx_wrap : lstate :=
  mkL [(10, 50); (11, 30)] [(65536, 18446744073709551615)] []
      (mkSupply 185 0 0 [] []) [] [] [(9, mkOrder 1 5 10 false)] (mkParams 2 2 3 10 10 1 50) 5 1.
Definition escrow_statement (extra : N -> lmsg -> lstate -> N -> Prop) : Prop :=
  forall signer fee m s s' c, LC.wf s -> c <= MaxChainId -> l_chain s <= MaxChainId -> extra signer m s c ->
    apply_signed signer fee m s = (true, s') ->
    nget (add64 c EscrowPoolAddend) (l_pools s') < nget (add64 c EscrowPoolAddend) (l_pools s) ->
    exists id o, aget id (l_orders s) = Some o /\ o_chain o = c /\ signer = o_seller o /\
                 (m = MDeleteOrder id c \/ exists x, m = MEditOrder id c x).
Definition cx_wrap_post1 : lstate := Eval vm_compute in snd (apply_signed 11 0 (MSubsidy 11 65536 1) cx_wrap).
Example cx_escrow_wraps_subsidy : ~ escrow_statement (fun _ m _ _ => msg_chain_u64 m).
Proof.
  intros Hall.
  assert (H1 : LC.wf cx_wrap) by wf_concrete.
  assert (H2 : 1 <= MaxChainId) by (unfold MaxChainId; lia).
  assert (H3 : l_chain cx_wrap <= MaxChainId) by (unfold MaxChainId; cbn; lia).
  assert (H4 : apply_signed 11 0 (MSubsidy 11 65536 1) cx_wrap = (true, cx_wrap_post1)) by (vm_compute; reflexivity).
  assert (H5 : nget (add64 1 EscrowPoolAddend) (l_pools cx_wrap_post1) < nget (add64 1 EscrowPoolAddend) (l_pools cx_wrap))
    by (vm_compute; reflexivity).
  destruct (Hall 11 0 (MSubsidy 11 65536 1) cx_wrap cx_wrap_post1 1 H1 H2 H3 I H4 H5) as (id & o & _ & _ & _ & [E|[x E]]).
  - discriminate E.
  - discriminate E.
Qed.
(* 2b. the same with a created order (the pool is credited by PoolAdd, unchecked) *)
Definition cx_wrap_post2 : lstate := Eval vm_compute in snd (apply_signed 11 0 (MCreateOrder 7 11 1 1) cx_wrap).
Example cx_escrow_wraps_create : ~ escrow_statement (fun _ m _ _ => msg_chain_u64 m).
Proof.
  intros Hall.
  assert (H1 : LC.wf cx_wrap) by wf_concrete.
  assert (H2 : 1 <= MaxChainId) by (unfold MaxChainId; lia).
  assert (H3 : l_chain cx_wrap <= MaxChainId) by (unfold MaxChainId; cbn; lia).
  assert (H4 : apply_signed 11 0 (MCreateOrder 7 11 1 1) cx_wrap = (true, cx_wrap_post2)) by (vm_compute; reflexivity).
  assert (H5 : nget (add64 1 EscrowPoolAddend) (l_pools cx_wrap_post2) < nget (add64 1 EscrowPoolAddend) (l_pools cx_wrap))
    by (vm_compute; reflexivity).
  destruct (Hall 11 0 (MCreateOrder 7 11 1 1) cx_wrap cx_wrap_post2 1 H1 H2 H3 I H4 H5) as (id & o & _ & _ & _ & [E|[x E]]).
  - discriminate E.
  - discriminate E.
Qed.
(* 2c. an order of "chain" 2^64+1 is escrowed in pool id add64 (2^64+1) 65535 = 65536, the escrow pool of chain 1 *)
Definition cx_alias : lstate :=
  mkL [(10, 50); (11, 30)] [(65536, 5)] []
      (mkSupply 85 0 0 [] []) [] [] [(9, mkOrder 18446744073709551617 5 10 false)] (mkParams 2 2 3 10 10 1 50) 5 1.
Definition cx_alias_post : lstate := Eval vm_compute in snd (apply_signed 10 0 (MDeleteOrder 9 18446744073709551617) cx_alias).
Example cx_escrow_alias :
  ~ escrow_statement (fun signer _ s c => nget (add64 c EscrowPoolAddend) (l_pools s) + nget signer (l_accounts s) < two64).
Proof.
  intros Hall.
  assert (H1 : LC.wf cx_alias) by wf_concrete.
  assert (H2 : 1 <= MaxChainId) by (unfold MaxChainId; lia).
  assert (H3 : l_chain cx_alias <= MaxChainId) by (unfold MaxChainId; cbn; lia).
  assert (H4 : apply_signed 10 0 (MDeleteOrder 9 18446744073709551617) cx_alias = (true, cx_alias_post)) by (vm_compute; reflexivity).
  assert (H5 : nget (add64 1 EscrowPoolAddend) (l_pools cx_alias_post) < nget (add64 1 EscrowPoolAddend) (l_pools cx_alias))
    by (vm_compute; reflexivity).
  destruct (Hall 10 0 (MDeleteOrder 9 18446744073709551617) cx_alias cx_alias_post 1 H1 H2 H3 ltac:(vm_compute; reflexivity) H4 H5) as (id & o & _ & _ & _ & [E|[x E]]).
  - injection E as E1 E2. discriminate E2.
  - discriminate E.
Qed.

Print Assumptions only_the_signer_pays.
Print Assumptions validators_change_only_by_their_keys.
Print Assumptions orders_change_only_by_their_seller.
Print Assumptions escrow_released_only_to_the_seller.
