(* LedgerHistory.v — the per-operation ledger theorems (LedgerConservation, LedgerStaking) composed over whole histories:
   every state reachable by transactions (applied or failed), slashes, the two deferred end-block actions and height
   changes satisfies conservation (C04), staking-bookkeeping consistency (C12), the escrow identity (C20), and the deferred
   actions never fail (C12 liveness: the chain cannot wedge in EndBlock). *)
From Coq Require Import NArith List Bool Lia.
From V Require Import U64 Extracted Ledger LedgerCheck.
From V Require LedgerConservation LedgerStaking.
Import ListNotations.
Local Open Scope N_scope.

Module LC := LedgerConservation.
Module LS := LedgerStaking.

Inductive lop :=
| OpTx (sender fee : N) (m : lmsg)                 (* a transaction: applied, or rejected leaving the state untouched *)
| OpSlash (a chain percent already : N)            (* a double-sign / non-sign slash of a committee member *)
| OpForce                                          (* BeginBlock/EndBlock: force-unstake validators paused for too long *)
| OpFinish                                         (* EndBlock: pay out and delete validators whose unstaking finished *)
| OpHeight.                                        (* the next block begins *)

Definition set_height (h : N) (s : lstate) : lstate :=
  mkL (l_accounts s) (l_pools s) (l_vals s) (l_supply s) (l_unstaking s) (l_paused s) (l_orders s) (l_params s) h (l_chain s).

Definition lapply (o : lop) (s : lstate) : res lstate :=
  match o with
  | OpTx sender fee m => LOk (snd (apply_tx sender fee m s))
  | OpSlash a chain percent already => slash_validator a chain percent already s
  | OpForce => force_unstake_max_paused s
  | OpFinish => delete_finished_unstaking s
  | OpHeight => LOk (set_height (l_height s + 1) s)
  end.
Fixpoint lrun (ops : list lop) (s : lstate) : res lstate :=
  match ops with
  | [] => LOk s
  | o :: r => match lapply o s with LOk s' => lrun r s' | LErr => LErr end
  end.

(* what the implementation guarantees about each input before it reaches the ledger (message Check functions, uint64 ranges,
   order ids are transaction hashes) *)
Definition op_ok (o : lop) (s : lstate) : Prop :=
  match o with
  | OpTx sender fee m =>
      LC.msg_bounded m /\ LS.msg_wf m /\ LC.msg_chain_ok m /\ LC.msg_fresh m s /\ fee < two64 /\
      LC.total s + LC.mint_of m < two64
  | _ => True        (* a slash needs no side condition: since the repair of SlashValidator it handles delegates as well *)
  end.
Fixpoint hist_ok (ops : list lop) (s : lstate) : Prop :=
  match ops with
  | [] => True
  | o :: r => LS.heights_ok s /\ op_ok o s /\ match lapply o s with LOk s' => hist_ok r s' | LErr => True end
  end.

Definition orders_bounded (s : lstate) : Prop := forall id o, aget id (l_orders s) = Some o -> o_chain o <= MaxChainId.

Definition LInv (s : lstate) : Prop :=
  LS.wf s /\ LC.Conserved s /\ LS.Consistent s /\ LS.exclusive s /\ LC.Escrow s /\ orders_bounded s /\ l_chain s <= MaxChainId.


(* ================= auxiliary lemmas ================= *)
Ltac binv H := let st := fresh "st" in let Eb := fresh "Eb" in apply LC.bind_ok in H; destruct H as (st & Eb & H).

(* ---- the two files' sortedness notions agree in the direction needed: LS.wf is stronger than LC.wf *)
Lemma ks_LS_LC {A} (m : list (N * A)) : LS.keys_sorted m -> LC.keys_sorted m.
Proof.
  unfold LC.keys_sorted. induction m as [|e r IH]; cbn [LS.keys_sorted map]; intros H.
  - constructor.
  - destruct H as [H1 H2]. constructor; auto. apply Forall_forall. exact H1.
Qed.
Lemma wf_LS_LC s : LS.wf s -> LC.wf s.
Proof.
  intros (W1 & W2 & W3 & W4 & W5 & W6 & _ & _). unfold LC.wf. repeat split; apply ks_LS_LC; assumption.
Qed.
Lemma solvent_of_conserved s : LC.Conserved s -> LS.Solvent s.
Proof. unfold LC.Conserved, LS.Solvent. intros [H1 H2]. lia. Qed.

(* ---- frame: pools, orders and the chain id are untouched *)
Definition fpoc (s s' : lstate) : Prop := l_pools s' = l_pools s /\ l_orders s' = l_orders s /\ l_chain s' = l_chain s.
Lemma fpoc_refl s : fpoc s s.
Proof. unfold fpoc; auto. Qed.
Lemma fpoc_trans s1 s2 s3 : fpoc s1 s2 -> fpoc s2 s3 -> fpoc s1 s3.
Proof. unfold fpoc. intros (A1 & A2 & A3) (B1 & B2 & B3). repeat split; congruence. Qed.
Lemma fpoc_upd f s s' : upd_supply f s = LOk s' -> fpoc s s'.
Proof.
  unfold upd_supply. intros H. destruct (f (l_supply s)); cbn [bind] in H; [|discriminate].
  inversion H; subst s'. unfold fpoc. cbn. auto.
Qed.
Lemma fpoc_each f l : (forall c s s', f c s = LOk s' -> fpoc s s') -> forall s s', each f l s = LOk s' -> fpoc s s'.
Proof.
  intros Hf. induction l as [|c r IH]; intros s s' H; cbn [each] in H.
  - inversion H; subst. apply fpoc_refl.
  - binv H. eapply fpoc_trans; [eapply Hf; exact Eb|eapply IH; exact H].
Qed.
Lemma fpoc_set_committees x cs s s' : set_committees x cs s = LOk s' -> fpoc s s'.
Proof. apply fpoc_each. intros c s0 s1 H. eapply fpoc_upd; exact H. Qed.
Lemma fpoc_delete_committees x cs s s' : delete_committees x cs s = LOk s' -> fpoc s s'.
Proof. apply fpoc_each. intros c s0 s1 H. eapply fpoc_upd; exact H. Qed.
Lemma fpoc_set_delegations x cs s s' : set_delegations x cs s = LOk s' -> fpoc s s'.
Proof.
  apply fpoc_each. intros c s0 s1 H. binv H. eapply fpoc_trans; [eapply fpoc_upd; exact Eb|eapply fpoc_upd; exact H].
Qed.
Lemma fpoc_delete_delegations x cs s s' : delete_delegations x cs s = LOk s' -> fpoc s s'.
Proof.
  apply fpoc_each. intros c s0 s1 H. binv H. eapply fpoc_trans; [eapply fpoc_upd; exact Eb|eapply fpoc_upd; exact H].
Qed.
Lemma fpoc_account_sub a x s s' : account_sub a x s = LOk s' -> fpoc s s'.
Proof.
  unfold account_sub. destruct (x =? 0); [intros H; inversion H; subst; apply fpoc_refl|].
  destruct (_ <? _); [discriminate|]. intros H; inversion H; subst. unfold fpoc; cbn; auto.
Qed.
Lemma fpoc_account_add a x s s' : account_add a x s = LOk s' -> fpoc s s'.
Proof.
  unfold account_add. destruct (x =? 0); [intros H; inversion H; subst; apply fpoc_refl|].
  destruct (_ <=? _); [discriminate|]. intros H; inversion H; subst. unfold fpoc; cbn; auto.
Qed.
Lemma fpoc_put_val a v s : fpoc s (put_val a v s).
Proof. unfold fpoc; cbn; auto. Qed.
Lemma fpoc_suv a v h s : fpoc s (set_unstaking_val a v h s).
Proof. destruct (LS.suv_other a v h s) as (_ & P & _ & O & _ & _ & C). unfold fpoc. auto. Qed.
Lemma fpoc_delete_validator a v s s' : delete_validator a v s = LOk s' -> fpoc s s'.
Proof.
  unfold delete_validator. intros H. binv H. binv H. inversion H; subst s'; clear H.
  assert (F1 : fpoc s st) by (eapply fpoc_upd; exact Eb).
  assert (F2 : fpoc st st0).
  { destruct (v_delegate v).
    - binv Eb0. eapply fpoc_trans; [eapply fpoc_upd; exact Eb1|eapply fpoc_delete_delegations; exact Eb0].
    - eapply fpoc_delete_committees; exact Eb0. }
  pose proof (fpoc_trans _ _ _ F1 F2) as (A1 & A2 & A3).
  unfold fpoc. destruct (v_unstaking v =? 0), (v_paused v =? 0); cbn; auto.
Qed.
Lemma fpoc_uvs a v cs add s s' : update_validator_stake a v cs add s = LOk s' -> fpoc s s'.
Proof.
  unfold update_validator_stake. intros H. binv H. binv H. inversion H; subst s'; clear H.
  assert (F1 : fpoc s st) by (eapply fpoc_upd; exact Eb).
  assert (F2 : fpoc st st0).
  { destruct (v_delegate v).
    - binv Eb0. binv Eb0. eapply fpoc_trans; [eapply fpoc_upd; exact Eb1|].
      eapply fpoc_trans; [eapply fpoc_delete_delegations; exact Eb2|eapply fpoc_set_delegations; exact Eb0].
    - binv Eb0. eapply fpoc_trans; [eapply fpoc_delete_committees; exact Eb1|eapply fpoc_set_committees; exact Eb0]. }
  eapply fpoc_trans; [exact F1|]. eapply fpoc_trans; [exact F2|]. apply fpoc_put_val.
Qed.

Lemma Escrow_fpoc s s' : fpoc s s' -> LC.Escrow s -> LC.Escrow s'.
Proof. intros (P & O & _). now apply LC.Escrow_same. Qed.
Lemma orders_bounded_same s s' : l_orders s' = l_orders s -> orders_bounded s -> orders_bounded s'.
Proof. unfold orders_bounded. intros ->. auto. Qed.
Lemma tail_fpoc s s' : fpoc s s' -> LC.Escrow s /\ orders_bounded s /\ l_chain s <= MaxChainId ->
  LC.Escrow s' /\ orders_bounded s' /\ l_chain s' <= MaxChainId.
Proof.
  intros F (HE & HO & HC). pose proof F as (P & O & C). split; [eapply Escrow_fpoc; eauto|].
  split; [eapply orders_bounded_same; eauto|]. now rewrite C.
Qed.

(* ---- the handlers *)
Lemma handle_fpoc_staking m s s' : LS.staking_msg m = true -> handle m s = LOk s' -> fpoc s s'.
Proof.
  intros Hm H. destruct m; try discriminate Hm; clear Hm; cbn [handle] in H; cbv zeta in H.
  - destruct (aget addr (l_vals s)); [discriminate|]. destruct (amount <? _); [discriminate|].
    binv H. binv H. binv H. inversion H; subst s'; clear H.
    eapply fpoc_trans; [eapply fpoc_account_sub; exact Eb|].
    eapply fpoc_trans; [eapply fpoc_upd; exact Eb0|].
    eapply fpoc_trans; [|apply fpoc_put_val].
    destruct delegate.
    + binv Eb1. eapply fpoc_trans; [eapply fpoc_upd; exact Eb2|eapply fpoc_set_delegations; exact Eb1].
    + eapply fpoc_set_committees; exact Eb1.
  - destruct (aget addr (l_vals s)) as [v|]; [|discriminate].
    destruct (negb (v_unstaking v =? 0)); [discriminate|].
    destruct (negb (v_output v =? output) && negb (v_output v =? signer)); [discriminate|].
    binv H. eapply fpoc_trans; [eapply fpoc_account_sub; exact Eb|eapply fpoc_uvs; exact H].
  - destruct (aget addr (l_vals s)) as [v|]; [|discriminate].
    destruct (negb (v_unstaking v =? 0)); [discriminate|]. inversion H; subst s'. apply fpoc_suv.
  - destruct (aget addr (l_vals s)) as [v|]; [|discriminate].
    destruct (_ || _); [discriminate|]. inversion H; subst s'. unfold fpoc, set_paused_val; cbn; auto.
  - destruct (aget addr (l_vals s)) as [v|]; [|discriminate].
    destruct (_ || _); [discriminate|]. inversion H; subst s'. unfold fpoc, set_unpaused; cbn; auto.
Qed.

Lemma handle_chain m s s' : handle m s = LOk s' -> l_chain s' = l_chain s.
Proof.
  intros H. destruct (LS.staking_msg m) eqn:E.
  - apply (handle_fpoc_staking m s s' E H).
  - apply (LS.handle_nst m s s' E H).
Qed.

Lemma ob_aput id o s : orders_bounded s -> o_chain o <= MaxChainId ->
  forall id' o', aget id' (aput id o (l_orders s)) = Some o' -> o_chain o' <= MaxChainId.
Proof.
  intros HO Hc id' o' Hg. destruct (N.eq_dec id' id) as [->|Hne].
  - rewrite LC.aget_aput_same in Hg. inversion Hg; subst. exact Hc.
  - rewrite LC.aget_aput_other in Hg by exact Hne. eapply HO; eauto.
Qed.
Lemma ob_adel id s : LC.keys_sorted (l_orders s) -> orders_bounded s ->
  forall id' o', aget id' (adel id (l_orders s)) = Some o' -> o_chain o' <= MaxChainId.
Proof.
  intros W HO id' o' Hg. destruct (N.eq_dec id' id) as [->|Hne].
  - rewrite LC.aget_adel_same in Hg by exact W. discriminate.
  - rewrite LC.aget_adel_other in Hg by exact Hne. eapply HO; eauto.
Qed.

Lemma handle_orders_bounded m s s' : LC.keys_sorted (l_orders s) -> LC.msg_chain_ok m -> orders_bounded s ->
  handle m s = LOk s' -> orders_bounded s'.
Proof.
  intros W Hc HO H. pose proof (LC.handle_po_same m s s' H) as Hsame.
  destruct m; try (eapply orders_bounded_same; [apply Hsame|exact HO]); clear Hsame;
    cbn [handle] in H; cbv zeta in H; cbn [LC.msg_chain_ok] in Hc.
  - (* MSubsidy *)
    binv H. destruct (LC.account_sub_spec _ _ _ _ Eb) as [(_ & _ & O1 & _) _].
    destruct (LC.pool_add_spec _ _ _ _ H) as [(_ & _ & O2 & _) _].
    eapply orders_bounded_same; [|exact HO]. congruence.
  - (* MDaoTransfer *)
    binv H. binv H.
    destruct (LC.pool_sub_spec _ _ _ _ Eb0) as ((_ & _ & O2 & _) & _).
    destruct (LC.account_add_spec _ _ _ _ H) as [(_ & _ & O3 & _) _].
    assert (O1 : l_orders st = l_orders s).
    { destruct mint.
      - unfold mint_to_pool in Eb. binv Eb. destruct (fpoc_upd _ _ _ Eb1) as (_ & O0 & _).
        destruct (LC.pool_add_spec _ _ _ _ Eb) as [(_ & _ & O1 & _) _]. congruence.
      - inversion Eb; subst. reflexivity. }
    eapply orders_bounded_same; [|exact HO]. congruence.
  - (* MCreateOrder *)
    destruct (amount <? _); [discriminate|]. binv H. binv H. inversion H; subst s'; clear H.
    destruct (LC.account_sub_spec _ _ _ _ Eb) as [(_ & _ & O1 & _) _].
    destruct (LC.pool_add_spec _ _ _ _ Eb0) as [(_ & _ & O2 & _) _].
    assert (HO' : orders_bounded st0) by (eapply orders_bounded_same; [|exact HO]; congruence).
    unfold orders_bounded. cbn [l_orders set_orders]. apply ob_aput; auto.
  - (* MEditOrder *)
    destruct (aget id (l_orders s)) as [o|]; [|discriminate].
    destruct (negb _); [discriminate|]. destruct (o_locked o); [discriminate|]. destruct (amount <? _); [discriminate|].
    binv H. inversion H; subst s'; clear H.
    assert (O1 : l_orders st = l_orders s).
    { destruct (o_amount o <? amount).
      - binv Eb. destruct (LC.account_sub_spec _ _ _ _ Eb0) as [(_ & _ & O1 & _) _].
        destruct (LC.pool_add_spec _ _ _ _ Eb) as [(_ & _ & O2 & _) _]. congruence.
      - destruct (amount <? o_amount o).
        + binv Eb. destruct (LC.pool_sub_spec _ _ _ _ Eb0) as ((_ & _ & O1 & _) & _).
          destruct (LC.account_add_spec _ _ _ _ Eb) as [(_ & _ & O2 & _) _]. congruence.
        + inversion Eb; subst. reflexivity. }
    assert (HO' : orders_bounded st) by (eapply orders_bounded_same; [|exact HO]; congruence).
    unfold orders_bounded. cbn [l_orders set_orders]. apply ob_aput; auto.
  - (* MDeleteOrder *)
    destruct (aget id (l_orders s)) as [o|]; [|discriminate].
    destruct (negb _); [discriminate|]. destruct (o_locked o); [discriminate|].
    binv H. binv H. inversion H; subst s'; clear H.
    destruct (LC.pool_sub_spec _ _ _ _ Eb) as ((_ & _ & O1 & _) & _).
    destruct (LC.account_add_spec _ _ _ _ Eb0) as [(_ & _ & O2 & _) _].
    assert (O : l_orders st0 = l_orders s) by congruence.
    assert (HO' : orders_bounded st0) by (eapply orders_bounded_same; [|exact HO]; congruence).
    unfold orders_bounded. cbn [l_orders set_orders]. apply ob_adel; auto. now rewrite O.
Qed.

(* ---- a transaction: escrow identity, order bound and chain id *)
Lemma apply_tx_tail sender fee m s : LInv s -> LC.msg_bounded m -> LC.msg_chain_ok m -> LC.msg_fresh m s ->
  LC.Escrow (snd (apply_tx sender fee m s)) /\ orders_bounded (snd (apply_tx sender fee m s)) /\
  l_chain (snd (apply_tx sender fee m s)) <= MaxChainId.
Proof.
  intros (W & Hc & _ & _ & HE & HO & HCh) Hmb Hmc Hmf. unfold apply_tx.
  destruct (s1 <- account_sub sender fee s ;; s2 <- pool_add (l_chain s) fee s1 ;; handle m s2) as [s'|] eqn:H;
    cbn [snd]; [|auto].
  binv H. binv H.
  assert (HB : LC.Bal 0 0 s) by (apply LC.Bal_0; split; [apply wf_LS_LC|]; assumption).
  destruct (LC.account_sub_spec _ _ _ _ Eb) as [(P1 & _ & O1 & _) B1].
  destruct (LC.pool_add_spec _ _ _ _ Eb0) as [(_ & _ & O2 & _) B2].
  destruct (B2 0 (B1 0 0 HB)) as [HB2 _]. apply LC.Bal_0 in HB2. destruct HB2 as [W2 C2].
  assert (C1 : l_chain st0 = l_chain s).
  { destruct (fpoc_account_sub _ _ _ _ Eb) as (_ & _ & C1).
    destruct (LS.nst_pool_add _ _ _ _ Eb0) as (_ & _ & _ & C2' & _). congruence. }
  assert (O : l_orders st0 = l_orders s) by congruence.
  assert (HO2 : orders_bounded st0) by (eapply orders_bounded_same; eauto).
  assert (HE2 : LC.Escrow st0).
  { intros c Hcc. rewrite (LC.pool_add_other _ _ _ _ _ Eb0), P1.
    - rewrite (LC.escrow_sum_ext c s st0 O). auto.
    - rewrite LC.esc_val by auto. unfold MaxChainId in *. lia. }
  split; [|split].
  - eapply (LC.handle_escrow m st0 s'); eauto.
    + rewrite C1. exact HCh.
    + destruct m; cbn [LC.msg_fresh] in *; auto. now rewrite O.
  - eapply handle_orders_bounded; eauto. apply W2.
  - rewrite (handle_chain _ _ _ H), C1. exact HCh.
Qed.

(* ---- slashing, the deferred actions *)
Lemma fpoc_slash_tail a v after newcs s s' : LS.slash_tail a v after newcs s = LOk s' -> fpoc s s'.
Proof.
  unfold LS.slash_tail. cbv zeta. intros H. binv H.
  assert (F1 : fpoc s st) by (eapply fpoc_upd; exact Eb).
  eapply fpoc_trans; [exact F1|].
  destruct (after =? 0); [eapply fpoc_delete_validator; exact H|].
  binv H. binv H.
  eapply fpoc_trans; [eapply fpoc_upd; exact Eb0|].
  assert (F2 : fpoc st0 st1).
  { destruct (v_delegate v).
    - binv Eb1. binv Eb1. eapply fpoc_trans; [eapply fpoc_upd; exact Eb2|].
      eapply fpoc_trans; [eapply fpoc_delete_delegations; exact Eb3|eapply fpoc_set_delegations; exact Eb1].
    - binv Eb1. eapply fpoc_trans; [eapply fpoc_delete_committees; exact Eb2|eapply fpoc_set_committees; exact Eb1]. }
  eapply fpoc_trans; [exact F2|].
  destruct (_ && _); inversion H; subst s'; [apply fpoc_suv|apply fpoc_put_val].
Qed.
Lemma fpoc_slash a chain percent already s s' : slash_validator a chain percent already s = LOk s' -> fpoc s s'.
Proof.
  rewrite LS.slash_validator_eq. intros H.
  destruct (aget a (l_vals s)) as [v|]; [|inversion H; subst; apply fpoc_refl].
  destruct (negb _); [inversion H; subst; apply fpoc_refl|]. cbv zeta in H.
  destruct (_ <=? already); [inversion H; subst; apply fpoc_refl|].
  eapply fpoc_slash_tail; exact H.
Qed.
Lemma fpoc_pstep st e : fpoc st (LS.pstep st e).
Proof.
  unfold LS.pstep. destruct (aget (snd e) (l_vals st)) as [v|]; [|apply fpoc_refl].
  destruct (negb _); [apply fpoc_refl|apply fpoc_suv].
Qed.
Lemma fpoc_fold_pstep due : forall st, fpoc st (fold_left LS.pstep due st).
Proof.
  induction due as [|e r IH]; intros st; cbn [fold_left]; [apply fpoc_refl|].
  eapply fpoc_trans; [apply fpoc_pstep|apply IH].
Qed.
Lemma fpoc_force s s' : force_unstake_max_paused s = LOk s' -> fpoc s s'.
Proof.
  unfold force_unstake_max_paused. cbv zeta. intros H.
  change (LOk (set_paused (filter (fun e => negb (fst e =? l_height s))
     (l_paused (fold_left LS.pstep (filter (fun e => fst e =? l_height s) (l_paused s)) s)))
     (fold_left LS.pstep (filter (fun e => fst e =? l_height s) (l_paused s)) s)) = LOk s') in H.
  inversion H; subst s'; clear H.
  destruct (fpoc_fold_pstep (filter (fun e => fst e =? l_height s) (l_paused s)) s) as (A1 & A2 & A3).
  unfold fpoc. cbn [l_pools l_orders l_chain set_paused]. auto.
Qed.
Lemma fpoc_fold_fstep due : forall st s1, fold_left LS.fstep due (LOk st) = LOk s1 -> fpoc st s1.
Proof.
  induction due as [|e r IH]; intros st s1 H; cbn [fold_left] in H.
  - inversion H; subst. apply fpoc_refl.
  - destruct (LS.fstep (LOk st) e) as [st1|] eqn:E; [|rewrite LS.fold_fstep_err in H; discriminate].
    eapply fpoc_trans; [|eapply IH; exact H].
    unfold LS.fstep in E. cbn [bind] in E. destruct (aget (snd e) (l_vals st)) as [v|]; [|discriminate].
    binv E. eapply fpoc_trans; [eapply fpoc_account_add; exact Eb|eapply fpoc_delete_validator; exact E].
Qed.
Lemma fpoc_finish s s' : delete_finished_unstaking s = LOk s' -> fpoc s s'.
Proof.
  unfold delete_finished_unstaking. cbv zeta. intros H. binv H. inversion H; subst s'; clear H.
  change (fold_left LS.fstep (filter (fun e => fst e =? l_height s) (l_unstaking s)) (LOk s) = LOk st) in Eb.
  destruct (fpoc_fold_fstep _ _ _ Eb) as (A1 & A2 & A3).
  unfold fpoc. cbn [l_pools l_orders l_chain set_unstaking]. auto.
Qed.

(* ---- slash_validator cannot fail on a state satisfying the invariant *)
Lemma sub_total_eq x s : sub_total x s =
  if s_total (l_supply s) <? x then LErr else LOk (LS.with_total (s_total (l_supply s) - x) s).
Proof. unfold sub_total, upd_supply. destruct (_ <? _); reflexivity. Qed.
Lemma sw_le_Pt P m : LS.sw P m <= LS.sw LS.Pt m.
Proof.
  induction m as [|[k v] r IH]; [cbn; lia|]. rewrite !LS.sw_cons. unfold LS.wv. change (LS.Pt v) with true. cbv iota. destruct (P v); lia.
Qed.
Lemma each_add_ok x : forall cs s, NoDup cs -> LS.keys_sorted (LS.cst s) -> LS.keys_sorted (LS.cdl s) ->
  (forall c, In c cs -> nget c (LS.cst s) + x < two64) -> exists s', each (fun c => add_cstaked c x) cs s = LOk s'.
Proof.
  induction cs as [|c r IH]; intros s Hnd H1 H2 Hb.
  - cbn. eauto.
  - cbn [each]. inversion Hnd as [|? ? Hnin Hnd']; subst. rewrite LS.add_cstaked_eq.
    destruct (N.leb_spec two64 (nget c (LS.cst s) + x)) as [Hle|Hlt].
    { specialize (Hb c (or_introl eq_refl)). lia. }
    cbn [bind]. apply IH; auto.
    + change (LS.keys_sorted (nput c (nget c (LS.cst s) + x) (LS.cst s))). now apply LS.sorted_nput.
    + intros c' Hc'. change (nget c' (nput c (nget c (LS.cst s) + x) (LS.cst s)) + x < two64).
      rewrite LS.nget_nput by auto. destruct (N.eqb_spec c' c) as [->|Hne]; [contradiction|]. apply Hb. now right.
Qed.

Lemma each_add_deleg_ok x : forall cs s, NoDup cs -> LS.keys_sorted (LS.cst s) -> LS.keys_sorted (LS.cdl s) ->
  (forall c, In c cs -> nget c (LS.cst s) + x < two64 /\ nget c (LS.cdl s) + x < two64) ->
  exists s', each (fun c s => s1 <- add_cdelegated c x s ;; add_cstaked c x s1) cs s = LOk s'.
Proof.
  induction cs as [|c r IH]; intros s Hnd H1 H2 Hb.
  - cbn. eauto.
  - cbn [each]. inversion Hnd as [|? ? Hnin Hnd']; subst.
    destruct (Hb c (or_introl eq_refl)) as [B1 B2].
    rewrite LS.add_cdelegated_eq.
    destruct (N.leb_spec two64 (nget c (LS.cdl s) + x)) as [Hle|_]; [lia|]. cbn [bind].
    rewrite LS.add_cstaked_eq.
    change (LS.cst (LS.with_c ?m1 ?m2 ?s0)) with m1. change (LS.cdl (LS.with_c ?m1 ?m2 ?s0)) with m2.
    destruct (N.leb_spec two64 (nget c (LS.cst s) + x)) as [Hle|_]; [lia|]. cbn [bind].
    apply IH; auto.
    + change (LS.keys_sorted (nput c (nget c (LS.cst s) + x) (LS.cst s))). now apply LS.sorted_nput.
    + change (LS.keys_sorted (nput c (nget c (LS.cdl s) + x) (LS.cdl s))). now apply LS.sorted_nput.
    + intros c' Hc'.
      change (nget c' (nput c (nget c (LS.cst s) + x) (LS.cst s)) + x < two64 /\
              nget c' (nput c (nget c (LS.cdl s) + x) (LS.cdl s)) + x < two64).
      rewrite !LS.nget_nput by auto. destruct (N.eqb_spec c' c) as [->|Hne]; [contradiction|]. apply Hb. now right.
Qed.

Lemma slash_tail_ok a v after newcs s : LS.wf s -> LS.Consistent s -> LC.Conserved s ->
  aget a (l_vals s) = Some v -> after <= v_stake v -> NoDup newcs -> incl newcs (v_committees v) ->
  exists s', LS.slash_tail a v after newcs s = LOk s'.
Proof.
  intros W HC [Hcons Hlt] Hg Hle Hncs Hincl. unfold LS.slash_tail. cbv zeta.
  pose proof (LC.stake_le_sum _ _ _ Hg) as Hst.
  rewrite sub_total_eq. destruct (N.ltb_spec (s_total (l_supply s)) (v_stake v - after)) as [Hbad|_]; [lia|].
  cbn [bind]. set (s1 := LS.with_total _ s).
  destruct (LS.nst_done _ _ (LS.nst_with_total (s_total (l_supply s) - (v_stake v - after)) s) W HC) as [W' HC'].
  fold s1 in W', HC'. change (l_vals s) with (l_vals s1) in Hg.
  destruct (after =? 0).
  { destruct (LS.delete_validator_spec a v s1 W' HC' Hg) as (s'' & E & _). eauto. }
  destruct W' as (W1 & W2 & W3 & W4 & W5 & W6 & W7 & W8).
  apply LS.Consistent_iff in HC'. destruct HC' as (T & M1 & M2). pose proof T as [T1 T2 T3 T4 T5].
  pose proof (LS.Forall_aget _ _ _ _ W7 Hg) as Hnd. cbn [snd] in Hnd.
  pose proof (LS.wv_le_sw LS.Pt a v _ Hg) as G1. change (LS.wv LS.Pt v) with (v_stake v) in G1.
  rewrite LS.sub_staked_iff. destruct (N.ltb_spec (s_staked (l_supply s1)) (v_stake v - after)) as [Hbad|_]; [lia|].
  cbn [bind]. set (s2 := LS.with_staked _ s1).
  assert (G3 : forall c, In c (v_committees v) -> v_stake v <= nget c (s_cstaked (l_supply s1))).
  { intros c Hc. rewrite T3. pose proof (LS.wv_le_sw (LS.Pc c) a v _ Hg) as H. unfold LS.wv in H.
    change (LS.Pc c v) with (existsb (N.eqb c) (v_committees v)) in H.
    apply LS.existsb_eqb_In in Hc. now rewrite Hc in H. }
  assert (Hmid : exists s4,
    (if v_delegate v
     then (d1 <- sub_delegated (v_stake v - after) s2 ;; d2 <- delete_delegations (v_stake v) (v_committees v) d1 ;; set_delegations after newcs d2)
     else (s3 <- delete_committees (v_stake v) (v_committees v) s2 ;; set_committees after newcs s3)) = LOk s4).
  { destruct (v_delegate v) eqn:Ed.
    - assert (G2 : v_stake v <= s_delegated (l_supply s1)).
      { rewrite T2. pose proof (LS.wv_le_sw v_delegate a v _ Hg) as H. unfold LS.wv in H. now rewrite Ed in H. }
      assert (G4 : forall c, In c (v_committees v) -> v_stake v <= nget c (s_cdelegated (l_supply s1))).
      { intros c Hc. rewrite T4. pose proof (LS.wv_le_sw (LS.Pd c) a v _ Hg) as H. unfold LS.wv in H.
        change (LS.Pd c v) with (v_delegate v && existsb (N.eqb c) (v_committees v)) in H.
        apply LS.existsb_eqb_In in Hc. now rewrite Hc, Ed in H. }
      rewrite LS.sub_delegated_iff. change (s_delegated (l_supply s2)) with (s_delegated (l_supply s1)).
      destruct (N.ltb_spec (s_delegated (l_supply s1)) (v_stake v - after)) as [Hbad|_]; [lia|].
      cbn [bind]. set (s3 := LS.with_delegated _ s2).
      destruct (LS.each_ok _ _ _ (LS.step_sub_deleg (v_stake v)) (LS.ok_sub_deleg (v_stake v)) (v_committees v) s3 Hnd W5 W6) as [s5 Hs5].
      { intros c Hc. split; [apply G3|apply G4]; auto. }
      unfold delete_delegations. rewrite Hs5. cbn [bind].
      destruct (LS.each_spec _ _ _ _ _ (LS.step_sub_deleg (v_stake v)) (v_committees v) s3 s5 Hnd W5 W6 Hs5)
        as (n1 & n2 & -> & S1 & S2 & F1 & F2).
      apply each_add_deleg_ok; auto.
      intros c Hc. change (LS.cst (LS.with_c n1 n2 s3)) with n1. change (LS.cdl (LS.with_c n1 n2 s3)) with n2.
      specialize (F1 c). specialize (F2 c).
      change (LS.cst s3) with (s_cstaked (l_supply s1)) in F1. change (LS.cdl s3) with (s_cdelegated (l_supply s1)) in F2.
      assert (Hin : In c (v_committees v)) by (apply Hincl; exact Hc).
      apply LS.existsb_eqb_In in Hin. rewrite Hin in F1, F2. cbn [LS.ind] in F1, F2.
      pose proof (sw_le_Pt (LS.Pc c) (l_vals s1)). pose proof (sw_le_Pt (LS.Pd c) (l_vals s1)).
      rewrite (T3 c) in F1. rewrite (T4 c) in F2. lia.
    - destruct (LS.each_ok _ _ _ (LS.step_sub_cstaked (v_stake v)) (LS.ok_sub_cstaked (v_stake v)) (v_committees v) s2 Hnd W5 W6) as [s3 Hs3].
      { intros c Hc. split; [apply G3; auto|lia]. }
      unfold delete_committees. rewrite Hs3. cbn [bind].
      destruct (LS.each_spec _ _ _ _ _ (LS.step_sub_cstaked (v_stake v)) (v_committees v) s2 s3 Hnd W5 W6 Hs3)
        as (n1 & n2 & -> & S1 & S2 & F1 & F2).
      apply each_add_ok; auto.
      intros c Hc. change (LS.cst (LS.with_c n1 n2 s2)) with n1. specialize (F1 c).
      change (LS.cst s2) with (s_cstaked (l_supply s1)) in F1.
      assert (Hin : In c (v_committees v)) by (apply Hincl; exact Hc).
      apply LS.existsb_eqb_In in Hin. rewrite Hin in F1. cbn [LS.ind] in F1.
      pose proof (sw_le_Pt (LS.Pc c) (l_vals s1)). rewrite (T3 c) in F1. lia. }
  destruct Hmid as [s4 ->]. cbn [bind].
  destruct (_ && _); eauto.
Qed.

Lemma slash_never_fails a chain percent already s : LS.wf s -> LS.Consistent s -> LC.Conserved s ->
  exists s', slash_validator a chain percent already s = LOk s'.
Proof.
  intros W HC Hc. rewrite LS.slash_validator_eq.
  destruct (aget a (l_vals s)) as [v|] eqn:Hg; [|eauto].
  destruct (negb _); [eauto|]. cbv zeta.
  destruct (_ <=? already); [eauto|].
  apply slash_tail_ok; auto.
  - destruct (_ || _); [lia|]. destruct (_ =? 0); [lia|]. apply LS.SafeMulDiv_le. lia.
  - pose proof (LS.Forall_aget _ _ _ _ (proj1 (proj2 (proj2 (proj2 (proj2 (proj2 (proj2 W))))))) Hg) as Hn. cbn [snd] in Hn.
    destruct (p_max_slash_per_committee (l_params s) <=? already + percent); auto. now apply LS.NoDup_rm_chain.
  - destruct (p_max_slash_per_committee (l_params s) <=? already + percent); [|apply incl_refl].
    intros x Hx. eapply LS.In_rm_chain; exact Hx.
Qed.

(* ---- a new block begins *)
Lemma set_height_inv h s : LInv s -> LInv (set_height h s).
Proof.
  intros (W & Hc & HC & Hx & HE & HO & HCh). unfold LInv.
  split; [exact W|]. split; [exact Hc|].
  split. { eapply LS.Consistent_frame; [|exact HC]. unfold LS.stk_same. cbn. repeat split; reflexivity. }
  split. { eapply LS.exclusive_same; [|exact Hx]. reflexivity. }
  split. { eapply LC.Escrow_same; [| |exact HE]; reflexivity. }
  split; [exact HO|exact HCh].
Qed.

(* one step *)
Theorem lapply_invariant o s s' : LInv s -> LS.heights_ok s -> op_ok o s -> lapply o s = LOk s' -> LInv s'.
Proof.
  intros HI Hh Hop H. pose proof HI as (W & Hc & HC & Hx & HE & HO & HCh).
  pose proof (wf_LS_LC _ W) as Wc.
  destruct o as [sender fee m|a chain percent already| | |]; cbn [lapply op_ok] in *.
  - (* a transaction *)
    destruct Hop as (Hmb & Hmw & Hmc & Hmf & Hfee & Hmint). inversion H; subst s'; clear H.
    pose proof (LS.apply_tx_consistent sender fee m s W HC Hmw Hh) as A.
    pose proof (LS.apply_tx_exclusive sender fee m s W HC Hmw Hh Hx) as B.
    pose proof (LC.apply_tx_conserves sender fee m s Wc Hc Hmb Hfee Hmint) as C.
    pose proof (apply_tx_tail sender fee m s HI Hmb Hmc Hmf) as D.
    destruct (apply_tx sender fee m s) as [ok s1]. cbn [snd] in *.
    destruct A as [A1 A2]. destruct C as (_ & C2 & _). unfold LInv. tauto.
  - (* a slash *)
    destruct (LS.slash_consistent _ _ _ _ _ _ W HC Hh H) as [A1 A2].
    pose proof (LS.slash_exclusive _ _ _ _ _ _ W HC Hh Hx H) as B.
    destruct (LC.slash_conserves _ _ _ _ _ _ Wc Hc H) as (_ & C2 & _).
    pose proof (tail_fpoc _ _ (fpoc_slash _ _ _ _ _ _ H) (conj HE (conj HO HCh))) as D.
    unfold LInv. tauto.
  - (* force-unstake *)
    destruct (LS.force_unstake_consistent _ _ W HC Hh Hx H) as [A1 A2].
    pose proof (LS.force_unstake_exclusive _ _ W HC Hh Hx H) as B.
    destruct (LC.force_unstake_conserves _ _ Wc Hc H) as (_ & C2 & _).
    pose proof (tail_fpoc _ _ (fpoc_force _ _ H) (conj HE (conj HO HCh))) as D.
    unfold LInv. tauto.
  - (* finish unstaking *)
    destruct (LS.finish_unstaking_consistent _ _ W HC H) as [A1 A2].
    pose proof (LS.finish_unstaking_exclusive _ _ W HC Hx H) as B.
    destruct (LC.finish_unstaking_conserves _ _ Wc Hc H) as (_ & C2 & _).
    pose proof (tail_fpoc _ _ (fpoc_finish _ _ H) (conj HE (conj HO HCh))) as D.
    unfold LInv. tauto.
  - (* next height *)
    inversion H; subst s'. apply set_height_inv. exact HI.
Qed.

(* on a state satisfying the invariant no single operation fails (slashes included) *)
Lemma lapply_never_fails o s : LInv s -> exists s', lapply o s = LOk s'.
Proof.
  intros (W & Hc & HC & _). destruct o as [sender fee m|a chain percent already| | |]; cbn [lapply].
  - eauto.
  - apply slash_never_fails; auto.
  - apply LS.force_unstake_never_fails; auto.
  - apply LS.finish_unstaking_never_fails; auto. now apply solvent_of_conserved.
  - eauto.
Qed.

(* every reachable state *)
Theorem history_invariant ops : forall s s', LInv s -> hist_ok ops s -> lrun ops s = LOk s' -> LInv s'.
Proof.
  induction ops as [|o r IH]; intros s s' HI Hok Hrun; cbn [lrun hist_ok] in *.
  - inversion Hrun; subst. exact HI.
  - destruct Hok as (Hh & Hop & Hrest). destruct (lapply o s) as [s1|] eqn:E; [|discriminate].
    eapply IH; [eapply lapply_invariant; eauto|exact Hrest|exact Hrun].
Qed.

(* the chain never wedges: on a reachable state none of the operations can fail *)
Theorem history_never_fails ops : forall s, LInv s -> hist_ok ops s -> exists s', lrun ops s = LOk s'.
Proof.
  induction ops as [|o r IH]; intros s HI Hok; cbn [lrun hist_ok] in *.
  - eauto.
  - destruct Hok as (Hh & Hop & Hrest). destruct (lapply_never_fails o s HI) as [s1 E]. rewrite E in *.
    apply IH; [eapply lapply_invariant; eauto|exact Hrest].
Qed.

(* the boolean predicates the correspondence harness evaluates on scanned implementation states follow from the invariant *)
Theorem LInv_predicates s : LInv s -> conservation_ok s = true /\ staking_ok s = true.
Proof.
  intros (W & Hc & HC & _). split.
  - apply LC.conservation_ok_iff. apply Hc.
  - now apply LS.staking_ok_of_consistent.
Qed.

(* the total supply changes exactly by what was minted by applied DAO transfers and burned by slashes *)
Theorem history_total_tx_only txs : forall s s', LInv s ->
  hist_ok (map (fun t => let '(sd, fee, m) := t in OpTx sd fee m) txs) s ->
  lrun (map (fun t => let '(sd, fee, m) := t in OpTx sd fee m) txs) s = LOk s' ->
  LC.total s' = (LC.total s + snd (LC.apply_txs txs s))%N.
Proof.
  induction txs as [|[[sd fee] m] r IH]; intros s s' HI Hok Hrun; cbn [map lrun hist_ok LC.apply_txs] in *.
  - inversion Hrun; subst. cbn [snd]. lia.
  - destruct Hok as (Hh & Hop & Hrest). cbn [lapply] in *.
    pose proof (lapply_invariant (OpTx sd fee m) s _ HI Hh Hop eq_refl) as HI1.
    specialize (IH _ _ HI1 Hrest Hrun).
    destruct HI as (W & Hc & _). cbn [op_ok] in Hop. destruct Hop as (Hmb & _ & _ & _ & Hfee & Hmint).
    pose proof (LC.apply_tx_conserves sd fee m s (wf_LS_LC _ W) Hc Hmb Hfee Hmint) as C.
    destruct (apply_tx sd fee m s) as [ok s1]. cbn [snd] in *.
    destruct (LC.apply_txs r s1) as [s2 minted]. cbn [snd] in *.
    destruct C as (_ & _ & T & _). destruct ok; lia.
Qed.

(* non-vacuity: a concrete state with a validator, an open order and its escrow satisfies LInv, and a history with every
   kind of operation (an applied transfer, a failing transfer, a stake, an unstake, a slash, the end-block actions over
   enough heights for the unstaking to finish, order creation and deletion) is admissible from it and runs to the end *)
Definition ex_state : lstate :=
  mkL [(10, 50); (11, 30)] [(1, 0); (65536, 5)]
      [(20, mkVal 100 20 [1] 0 0 false false)]
      (mkSupply 185 100 0 [(1, 100)] [])
      [] [] [(9, mkOrder 1 5 10 false)]
      (mkParams 2 2 3 10 10 1 50) 5 1.
Definition ex_ops : list lop :=
  [OpTx 10 1 (MSend 10 11 5); OpTx 11 1 (MSend 11 10 1000); OpTx 10 1 (MStake 30 10 10 20 [1; 2] false false);
   OpHeight; OpSlash 20 1 10 0; OpTx 10 1 (MUnstake 30); OpForce; OpFinish; OpHeight; OpForce; OpFinish; OpHeight; OpForce; OpFinish;
   OpTx 10 1 (MCreateOrder 7 10 1 4); OpTx 10 1 (MDeleteOrder 9 1); OpHeight; OpForce; OpFinish].
Ltac conc := vm_compute; repeat split; try reflexivity; try (let X := fresh in intro X; discriminate X);
  try (repeat constructor; cbn; intuition discriminate).
Ltac ks := cbn [LS.keys_sorted map fst]; repeat split;
  try (let k := fresh "k" in let Hk := fresh "Hk" in intros k Hk; cbn in Hk; intuition (subst; reflexivity)).

Lemma ex_state_inv : LInv ex_state.
Proof.
  unfold LInv. split; [|split; [|split; [|split; [|split; [|split]]]]].
  - unfold LS.wf, ex_state. cbn [l_accounts l_pools l_vals l_orders l_supply l_unstaking s_cstaked s_cdelegated].
    split; [ks|]. split; [ks|]. split; [ks|]. split; [ks|]. split; [ks|]. split; [ks|].
    split; [|constructor]. repeat constructor; cbn; tauto.
  - split; reflexivity.
  - constructor.
    + reflexivity.
    + reflexivity.
    + intros c. unfold nget, LS.stake_where, ex_state.
      cbn [l_supply l_vals s_cstaked aget fold_right snd v_committees v_stake existsb orb].
      destruct (c =? 1); reflexivity.
    + intros c. unfold nget, LS.stake_where. reflexivity.
    + intros h a. cbn [ex_state l_unstaking l_vals In aget]. split; [tauto|].
      intros (v & Hg & Hu & Hn). destruct (a =? 20); inversion Hg; subst; cbn in Hn; congruence.
    + intros h a. cbn [ex_state l_paused l_vals In aget]. split; [tauto|].
      intros (v & Hg & Hu & Hn). destruct (a =? 20); inversion Hg; subst; cbn in Hn; congruence.
    + reflexivity.
  - intros a v Hg Hp. cbn [ex_state l_vals aget] in Hg. destruct (a =? 20); inversion Hg; subst; cbn in Hp; congruence.
  - intros c Hc. rewrite LC.esc_val by exact Hc. unfold nget, LC.escrow_sum, ex_state.
    cbn [l_pools l_orders aget fold_right snd o_chain o_amount].
    destruct (N.eqb_spec (c + 65535) 1) as [E1|E1]; [lia|].
    destruct (N.eqb_spec (c + 65535) 65536) as [E2|E2], (N.eqb_spec 1 c) as [E3|E3]; try lia; reflexivity.
  - intros id o Hg. cbn [ex_state l_orders aget] in Hg. destruct (id =? 9); inversion Hg; subst.
    cbn [o_chain]. unfold MaxChainId. lia.
  - cbn [ex_state l_chain]. unfold MaxChainId. lia.
Qed.

(* evaluate the head operation of a concrete admissibility goal *)
Ltac hstep :=
  cbn [hist_ok]; split; [conc|]; split;
  [ first [ (cbn [op_ok]; let v := fresh "v" in let Hv := fresh "Hv" in intros v Hv; vm_compute in Hv; inversion Hv; reflexivity) | conc ]
  | match goal with |- match ?e with LOk _ => _ | LErr => _ end =>
      let x := eval vm_compute in e in replace e with x by (vm_compute; reflexivity); cbv beta iota end ].

Example history_nonvacuous :
  LInv ex_state /\ hist_ok ex_ops ex_state /\
  exists s', lrun ex_ops ex_state = LOk s' /\ conservation_ok s' = true /\ staking_ok s' = true /\
             aget 30 (l_vals s') = None /\ aget 9 (l_orders s') = None.
Proof.
  split; [exact ex_state_inv|]. split.
  - unfold ex_ops. do 19 hstep. exact I.
  - exists (match lrun ex_ops ex_state with LOk s => s | LErr => ex_state end).
    split; [vm_compute; reflexivity|]. repeat split; vm_compute; reflexivity.
Qed.

Print Assumptions history_invariant.
Print Assumptions history_never_fails.
Print Assumptions LInv_predicates.
Print Assumptions history_total_tx_only.
Print Assumptions history_nonvacuous.
