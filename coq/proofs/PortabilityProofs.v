(* PortabilityProofs.v — re-marshalling canonical bytes is the identity (property C11, encoding part). *)
From Coq Require Import NArith List Bool.
From V Require Import Bytes Proto ProtoProofs.
Import ListNotations.

Lemma remarshal_is_identity : forall b, canonical b = true -> exists t, decode_tx b = Some t /\ encode_tx t = b.
Proof.
  intros b H. unfold canonical in H. destruct (decode_tx b) as [t|] eqn:E; [|discriminate].
  exists t. split; [reflexivity|]. now apply bytes_eqb_eq.
Qed.
Lemma block_remarshal_is_identity : forall txs, Forall (fun b => canonical b = true) txs ->
  map (fun b => match decode_tx b with Some t => encode_tx t | None => [] end) txs = txs.
Proof.
  induction txs as [|b r IH]; intros H; [reflexivity|]. inversion H as [|? ? Hb Hr]; subst. cbn [map].
  destruct (remarshal_is_identity b Hb) as (t & E & Ee). rewrite E, Ee. f_equal. now apply IH.
Qed.
Lemma noncanonical_changes_under_remarshal : forall b t, decode_tx b = Some t -> canonical b = false -> encode_tx t <> b.
Proof.
  intros b t E H Heq. unfold canonical in H. rewrite E in H. rewrite Heq in H. now rewrite bytes_eqb_refl in H.
Qed.
Lemma portability_nonvacuous : canonical (encode_tx ex_tx) = true /\ canonical (encode_tx ex_tx ++ [58; 0]%N) = false.
Proof. split; vm_compute; reflexivity. Qed.
