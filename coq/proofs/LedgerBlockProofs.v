(* LedgerBlockProofs.v — the block-level mint and reward distribution keep the ledger invariants (C04, C12, C20) and never
   fail on a reachable state; composed with the per-operation theorems of LedgerHistory into histories of whole blocks. *)
From Coq Require Import NArith List Bool Lia.
From V Require Import U64 Extracted Ledger LedgerCheck LedgerBlock.
From V Require LedgerConservation LedgerStaking LedgerHistory.
Import ListNotations.
Local Open Scope N_scope.

Module LC := LedgerConservation.
Module LS := LedgerStaking.
Module LH := LedgerHistory.

(* ================= auxiliary lemmas ================= *)
Ltac splits := repeat match goal with |- _ /\ _ => split end.
Ltac binv H := let st := fresh "st" in let Eb := fresh "Eb" in apply LC.bind_ok in H; destruct H as (st & Eb & H).

(* the part of the invariant that the credits of a distribution touch, and what they leave alone *)
Definition Good (s : lstate) : Prop := LS.wf s /\ LS.Consistent s /\ LS.exclusive s.
Definition frame (s s' : lstate) : Prop :=
  l_pools s' = l_pools s /\ l_orders s' = l_orders s /\ l_chain s' = l_chain s /\
  s_total (l_supply s') = s_total (l_supply s).
Definition AS (s : lstate) : N := sum_snd (l_accounts s) + sum_stake (l_vals s).

Lemma frame_refl s : frame s s.
Proof. unfold frame; auto. Qed.
Lemma frame_trans s1 s2 s3 : frame s1 s2 -> frame s2 s3 -> frame s1 s3.
Proof. unfold frame. intros (A1 & A2 & A3 & A4) (B1 & B2 & B3 & B4). splits; congruence. Qed.

(* ---- arithmetic of the reward shares *)
Definition sumpct (stubs : list (N * N)) : N := fold_right (fun e acc => snd e + acc) 0 stubs.
Definition sumfull (pool samples : N) (stubs : list (N * N)) : N :=
  fold_right (fun e acc => full_reward (snd e) pool samples + acc) 0 stubs.

Lemma full_reward_mul pct pool samples : full_reward pct pool samples * (samples * 100) <= pct * pool.
Proof.
  unfold full_reward. destruct (N.eqb_spec samples 0) as [->|Hs]; [lia|].
  set (D := samples * 100). assert (HD : D <> 0) by (unfold D; lia).
  set (a := pct * pool).
  assert (H1 : wrap64 (a / D) <= a / D) by (unfold wrap64; apply N.mod_le; discriminate).
  etransitivity; [apply N.mul_le_mono_r; exact H1|].
  rewrite N.mul_comm. apply N.mul_div_le. exact HD.
Qed.

Lemma sumfull_mul pool samples stubs : sumfull pool samples stubs * (samples * 100) <= sumpct stubs * pool.
Proof.
  induction stubs as [|[a pct] r IH]; cbn [sumfull sumpct fold_right snd].
  - lia.
  - fold (sumfull pool samples r). fold (sumpct r).
    pose proof (full_reward_mul pct pool samples) as H.
    rewrite !N.mul_add_distr_r. lia.
Qed.

Lemma sumfull_samples0 pool stubs : sumfull pool 0 stubs = 0.
Proof. induction stubs as [|[a pct] r IH]; cbn [sumfull fold_right]; auto. Qed.

Lemma sumfull_le pool samples stubs : stubs_ok stubs samples -> sumfull pool samples stubs <= pool.
Proof.
  intros (Hsum & _ & _). fold (sumpct stubs) in Hsum.
  destruct (N.eqb_spec samples 0) as [->|Hs].
  - rewrite sumfull_samples0. lia.
  - pose proof (sumfull_mul pool samples stubs) as H.
    assert (H2 : sumpct stubs * pool <= pool * (samples * 100)).
    { rewrite (N.mul_comm pool). apply N.mul_le_mono_r. lia. }
    assert (H3 : sumfull pool samples stubs * (samples * 100) <= pool * (samples * 100)) by lia.
    apply N.mul_le_mono_pos_r in H3; [exact H3|lia].
Qed.

Lemma early_reward_le full penalty : early_reward full penalty <= full.
Proof.
  unfold early_reward. destruct (_ || _); [lia|]. destruct (penalty =? 0); [lia|].
  apply LS.SafeMulDiv_le. lia.
Qed.

Lemma wrap_burn pool tot : pool < two64 -> tot <= pool -> wrap64 (pool + two64 - tot) = pool - tot.
Proof. intros H1 H2. unfold wrap64, two64 in *. lia. Qed.

(* ---- credits: to an account *)
Lemma credit_spec a x s : Good s -> AS s + x < two64 ->
  exists s', account_add a x s = LOk s' /\ Good s' /\ frame s s' /\ AS s' = AS s + x.
Proof.
  intros (W & HC & Hx) Hb.
  destruct (LS.account_add_spec a x s) as (acc & E & Sacc & Hsum).
  { apply W. }
  { pose proof (LS.nget_le_sum a (l_accounts s)). unfold AS in Hb. lia. }
  exists (set_accounts acc s). split; [exact E|].
  pose proof (LS.nst_set_accounts acc s (fun _ => Sacc)) as N1.
  destruct (LS.nst_done _ _ N1 W HC) as [W' HC'].
  split. { split; [exact W'|]. split; [exact HC'|]. eapply LS.nst_exclusive; eauto. }
  split. { unfold frame. cbn. auto. }
  unfold AS. cbn [l_accounts l_vals set_accounts]. lia.
Qed.

(* ---- credits: to the stake of a compounding validator (UpdateValidatorStake with unchanged committees) *)
Lemma each_add_deleg_ok x : forall cs s, NoDup cs -> LS.keys_sorted (LS.cst s) -> LS.keys_sorted (LS.cdl s) ->
  (forall c, In c cs -> nget c (LS.cst s) + x < two64 /\ nget c (LS.cdl s) + x < two64) ->
  exists s', each (fun c s0 => s1 <- add_cdelegated c x s0 ;; add_cstaked c x s1) cs s = LOk s'.
Proof.
  induction cs as [|c r IH]; intros s Hnd H1 H2 Hb.
  - cbn. eauto.
  - cbn [each]. inversion Hnd as [|? ? Hnin Hnd']; subst.
    destruct (Hb c (or_introl eq_refl)) as [B1 B2].
    rewrite LS.add_cdelegated_eq. destruct (N.leb_spec two64 (nget c (LS.cdl s) + x)); [lia|]. cbn [bind].
    rewrite LS.add_cstaked_eq.
    change (LS.cst (LS.with_c (LS.cst s) (nput c (nget c (LS.cdl s) + x) (LS.cdl s)) s)) with (LS.cst s).
    destruct (N.leb_spec two64 (nget c (LS.cst s) + x)); [lia|]. cbn [bind].
    apply IH; auto.
    + change (LS.keys_sorted (nput c (nget c (LS.cst s) + x) (LS.cst s))). now apply LS.sorted_nput.
    + change (LS.keys_sorted (nput c (nget c (LS.cdl s) + x) (LS.cdl s))). now apply LS.sorted_nput.
    + intros c' Hc'.
      change (nget c' (nput c (nget c (LS.cst s) + x) (LS.cst s)) + x < two64 /\
              nget c' (nput c (nget c (LS.cdl s) + x) (LS.cdl s)) + x < two64).
      rewrite !LS.nget_nput by auto. destruct (N.eqb_spec c' c) as [->|Hne]; [contradiction|]. apply Hb. now right.
Qed.

Lemma uvs_ok a v x s : LS.wf s -> LS.Consistent s -> aget a (l_vals s) = Some v ->
  s_staked (l_supply s) + x < two64 -> exists s', update_validator_stake a v (v_committees v) x s = LOk s'.
Proof.
  intros (W1 & W2 & W3 & W4 & W5 & W6 & W7 & W8) HC Hg Hb.
  apply LS.Consistent_iff in HC. destruct HC as (T & _ & _). pose proof T as [T1 T2 T3 T4 T5].
  pose proof (LS.Forall_aget _ _ _ _ W7 Hg) as Hnd. cbn [snd] in Hnd.
  pose proof (LS.wv_le_sw LS.Pt a v _ Hg) as G1. change (LS.wv LS.Pt v) with (v_stake v) in G1.
  assert (G3 : forall c, In c (v_committees v) -> v_stake v <= nget c (s_cstaked (l_supply s))).
  { intros c Hc. rewrite T3. pose proof (LS.wv_le_sw (LS.Pc c) a v _ Hg) as H. unfold LS.wv in H.
    change (LS.Pc c v) with (existsb (N.eqb c) (v_committees v)) in H.
    apply LS.existsb_eqb_In in Hc. now rewrite Hc in H. }
  unfold update_validator_stake.
  assert (E1 : add_staked x s = LOk (LS.with_staked (s_staked (l_supply s) + x) s)).
  { unfold add_staked, upd_supply. destruct (N.leb_spec two64 (s_staked (l_supply s) + x)); [lia|reflexivity]. }
  rewrite E1. cbn [bind]. rewrite add64_exact by lia.
  set (s1 := LS.with_staked (s_staked (l_supply s) + x) s).
  destruct (v_delegate v) eqn:Ed.
  - assert (G2 : s_delegated (l_supply s) <= s_staked (l_supply s)).
    { rewrite T1, T2. apply LH.sw_le_Pt. }
    assert (G4 : forall c, In c (v_committees v) -> v_stake v <= nget c (s_cdelegated (l_supply s))).
    { intros c Hc. rewrite T4. pose proof (LS.wv_le_sw (LS.Pd c) a v _ Hg) as H'. unfold LS.wv in H'.
      change (LS.Pd c v) with (v_delegate v && existsb (N.eqb c) (v_committees v)) in H'.
      apply LS.existsb_eqb_In in Hc. now rewrite Hc, Ed in H'. }
    assert (E2 : add_delegated x s1 = LOk (LS.with_delegated (s_delegated (l_supply s) + x) s1)).
    { unfold add_delegated, upd_supply. subst s1. cbn [l_supply LS.with_staked set_supply s_delegated].
      destruct (N.leb_spec two64 (s_delegated (l_supply s) + x)); [lia|reflexivity]. }
    rewrite E2. cbn [bind].
    set (s2 := LS.with_delegated (s_delegated (l_supply s) + x) s1).
    destruct (LS.each_ok _ _ _ (LS.step_sub_deleg (v_stake v)) (LS.ok_sub_deleg (v_stake v)) (v_committees v) s2 Hnd W5 W6)
      as [s3 Hs3].
    { intros c Hc. split; [apply G3|apply G4]; auto. }
    unfold delete_delegations. rewrite Hs3. cbn [bind].
    destruct (LS.each_spec _ _ _ _ _ (LS.step_sub_deleg (v_stake v)) (v_committees v) s2 s3 Hnd W5 W6 Hs3)
      as (n1 & n2 & -> & S1 & S2 & F1 & F2).
    destruct (each_add_deleg_ok (v_stake v + x) (v_committees v) (LS.with_c n1 n2 s2) Hnd S1 S2) as [s4 Hs4].
    { intros c Hc. change (LS.cst (LS.with_c n1 n2 s2)) with n1. change (LS.cdl (LS.with_c n1 n2 s2)) with n2.
      specialize (F1 c). specialize (F2 c).
      change (LS.cst s2) with (s_cstaked (l_supply s)) in F1. change (LS.cdl s2) with (s_cdelegated (l_supply s)) in F2.
      apply LS.existsb_eqb_In in Hc. rewrite Hc in F1, F2. cbn [LS.ind] in F1, F2.
      pose proof (LH.sw_le_Pt (LS.Pc c) (l_vals s)). pose proof (LH.sw_le_Pt (LS.Pd c) (l_vals s)).
      rewrite (T3 c) in F1. rewrite (T4 c) in F2. lia. }
    unfold set_delegations. rewrite Hs4. cbn [bind]. eauto.
  - destruct (LS.each_ok _ _ _ (LS.step_sub_cstaked (v_stake v)) (LS.ok_sub_cstaked (v_stake v)) (v_committees v) s1 Hnd W5 W6)
      as [s3 Hs3].
    { intros c Hc. split; [apply G3; auto|lia]. }
    unfold delete_committees. rewrite Hs3. cbn [bind].
    destruct (LS.each_spec _ _ _ _ _ (LS.step_sub_cstaked (v_stake v)) (v_committees v) s1 s3 Hnd W5 W6 Hs3)
      as (n1 & n2 & -> & S1 & S2 & F1 & F2).
    destruct (LH.each_add_ok (v_stake v + x) (v_committees v) (LS.with_c n1 n2 s1) Hnd S1 S2) as [s4 Hs4].
    { intros c Hc. change (LS.cst (LS.with_c n1 n2 s1)) with n1. specialize (F1 c).
      change (LS.cst s1) with (s_cstaked (l_supply s)) in F1.
      apply LS.existsb_eqb_In in Hc. rewrite Hc in F1. cbn [LS.ind] in F1.
      pose proof (LH.sw_le_Pt (LS.Pc c) (l_vals s)). rewrite (T3 c) in F1. lia. }
    unfold set_committees. rewrite Hs4. cbn [bind]. eauto.
Qed.

Lemma compound_spec a v x s : Good s -> aget a (l_vals s) = Some v -> AS s + x < two64 ->
  exists s', update_validator_stake a v (v_committees v) x s = LOk s' /\ Good s' /\ frame s s' /\ AS s' = AS s + x.
Proof.
  intros (W & HC & Hx) Hg Hb.
  assert (Hst : s_staked (l_supply s) + x < two64).
  { rewrite (LS.k_staked _ HC). unfold AS in Hb. lia. }
  destruct (uvs_ok a v x s W HC Hg Hst) as [s' E]. exists s'. split; [exact E|].
  pose proof (LS.Forall_aget _ _ _ _ (proj1 (proj2 (proj2 (proj2 (proj2 (proj2 (proj2 W))))))) Hg) as Hnd. cbn [snd] in Hnd.
  pose proof (Hx a v Hg) as Hxv.
  destruct (LC.update_validator_stake_fr _ _ _ _ _ _ E) as (FA & FP & FO & FT). unfold LC.total in FT.
  destruct (LH.fpoc_uvs _ _ _ _ _ _ E) as (_ & _ & FC).
  destruct v as [st out cs p u d c]. cbn [v_committees v_paused v_unstaking] in *.
  destruct (LS.uvs_consistent a (mkVal st out cs p u d c) out c cs x s s' W HC Hg Hnd E) as (W' & C' & EV & _).
  cbn [v_stake v_paused v_unstaking v_delegate] in EV.
  split; [|split].
  - split; [exact W'|]. split; [exact C'|].
    eapply LS.exclusive_put; [exact EV|exact Hx|]. cbn [v_paused v_unstaking]. exact Hxv.
  - unfold frame. auto.
  - unfold AS. rewrite FA, EV.
    pose proof (LS.sw_aput LS.Pt a (mkVal (st + x) out cs p u d c) (l_vals s) (proj1 (proj2 (proj2 W)))) as H.
    rewrite Hg in H. cbn [LS.wo] in H. unfold LS.wv in H. change (LS.Pt _) with true in H. cbn [v_stake] in H.
    rewrite (LS.sum_stake_sw (l_vals s)), (LS.sum_stake_sw (aput _ _ _)). lia.
Qed.

(* ---- DistributeCommitteeReward: one payment percent *)
Lemma distribute_one_spec addr pct pool samples penalty s :
  Good s -> AS s + full_reward pct pool samples < two64 ->
  exists s' d, distribute_one addr pct pool samples penalty s = LOk (s', d) /\ Good s' /\ frame s s' /\
    d <= full_reward pct pool samples /\ AS s' = AS s + d.
Proof.
  intros HG Hb. unfold distribute_one. cbv zeta.
  set (full := full_reward pct pool samples) in *.
  pose proof (early_reward_le full penalty) as Hearly.
  destruct (aget addr (l_vals s)) as [v|] eqn:Hg.
  - destruct (v_compound v && (v_unstaking v =? 0)).
    + destruct (compound_spec addr v full s HG Hg Hb) as (s' & E & HG' & F & HAS).
      exists s', full. rewrite E. cbn [bind]. splits; auto. lia.
    + destruct (credit_spec (v_output v) (early_reward full penalty) s HG) as (s' & E & HG' & F & HAS); [lia|].
      exists s', (early_reward full penalty). rewrite E. cbn [bind]. splits; auto.
  - destruct (credit_spec addr (early_reward full penalty) s HG) as (s' & E & HG' & F & HAS); [lia|].
    exists s', (early_reward full penalty). rewrite E. cbn [bind]. splits; auto.
Qed.

Lemma distribute_stubs_spec pool samples penalty stubs : forall acc s,
  Good s -> AS s + sumfull pool samples stubs < two64 -> acc + sumfull pool samples stubs < two64 ->
  exists s' tot, distribute_stubs stubs pool samples penalty acc s = LOk (s', tot) /\ Good s' /\ frame s s' /\
    acc <= tot /\ tot <= acc + sumfull pool samples stubs /\ AS s' + acc = AS s + tot.
Proof.
  induction stubs as [|[addr pct] r IH]; intros acc s HG HA Hacc; cbn [distribute_stubs sumfull fold_right snd] in *.
  - exists s, acc. splits; auto using frame_refl; lia.
  - fold (sumfull pool samples r) in *.
    destruct (distribute_one_spec addr pct pool samples penalty s HG) as (s1 & d & E & HG1 & F1 & Hd & HAS); [lia|].
    rewrite E. cbn [bind]. cbv beta iota.
    destruct (N.leb_spec two64 (acc + d)); [lia|].
    destruct (IH (acc + d) s1 HG1) as (s' & tot & E' & HG' & F' & L1 & L2 & HAS'); [lia|lia|].
    exists s', tot. split; [exact E'|]. splits; eauto using frame_trans; lia.
Qed.

(* pools hold no zero entries (SetPool deletes an emptied pool); needed only for the boolean escrow predicate, see
   block_history_predicates below *)
Definition pools_nz (s : lstate) : Prop := Forall (fun e : N * N => snd e <> 0) (l_pools s).
Lemma nz_nput k v m : Forall (fun e : N * N => snd e <> 0) m -> Forall (fun e : N * N => snd e <> 0) (nput k v m).
Proof.
  intros H. unfold nput. destruct (N.eqb_spec v 0) as [Hz|Hnz].
  - now apply LS.Forall_adel.
  - apply LS.Forall_aput; auto.
Qed.
Lemma pnz_same s s' : l_pools s' = l_pools s -> pools_nz s -> pools_nz s'.
Proof. unfold pools_nz. now intros ->. Qed.

(* ---- EndBlock: total correctness of the distribution of one committee *)
Lemma distribute_total chain stubs samples penalty s :
  LH.LInv s -> stubs_ok stubs samples -> chain <= MaxChainId ->
  exists s', distribute_committee chain stubs samples penalty s = LOk s' /\ LH.LInv s' /\
    LC.total s' <= LC.total s /\ LC.total s - LC.total s' <= nget chain (l_pools s) /\
    (stubs <> [] -> nget chain (l_pools s') = 0) /\ (pools_nz s -> pools_nz s').
Proof.
  intros HI Hok Hch. pose proof HI as (W & Hc & HC & Hx & HE & HO & HCh).
  destruct stubs as [|e r].
  { exists s. cbn [distribute_committee]. splits; auto; try lia. intros H; congruence. }
  unfold distribute_committee. cbv zeta.
  set (stubs := e :: r) in *. clearbody stubs.
  set (pool := nget chain (l_pools s)).
  destruct Hc as [Hcons Hlt].
  assert (Hpool : pool <= sum_snd (l_pools s)) by apply LS.nget_le_sum.
  pose proof (sumfull_le pool samples stubs Hok) as Hsf.
  destruct (distribute_stubs_spec pool samples penalty stubs 0 s) as (s1 & tot & E & HG1 & F1 & _ & L2 & HAS).
  { exact (conj W (conj HC Hx)). }
  { unfold AS. lia. }
  { lia. }
  rewrite E. cbn [bind]. cbv beta iota.
  destruct HG1 as (W1 & C1 & X1). destruct F1 as (FP & FO & FC & FT).
  rewrite wrap_burn by lia.
  rewrite LH.sub_total_eq. destruct (N.ltb_spec (s_total (l_supply s1)) (pool - tot)) as [Hbad|_]; [lia|].
  cbn [bind].
  set (t := s_total (l_supply s1) - (pool - tot)).
  eexists. split; [reflexivity|].
  cbn [l_pools LS.with_total set_supply].
  set (s' := set_pools (nput chain 0 (l_pools s1)) (LS.with_total t s1)).
  assert (N1 : LS.nst s1 s').
  { eapply LS.nst_trans; [apply (LS.nst_with_total t s1)|].
    apply (LS.nst_set_pools (nput chain 0 (l_pools s1)) (LS.with_total t s1)).
    cbn [l_pools LS.with_total set_supply]. apply LS.sorted_nput. }
  destruct (LS.nst_done _ _ N1 W1 C1) as [W' C'].
  pose proof (LS.sum_snd_nput chain 0 (l_pools s) (proj1 (proj2 W))) as Hsum. fold pool in Hsum.
  assert (Htot : LC.total s' = t) by reflexivity.
  splits.
  - refine (conj W' (conj _ (conj C' (conj _ (conj _ (conj _ _)))))).
    + unfold LC.Conserved, s'. cbn [l_supply l_accounts l_pools l_vals set_pools LS.with_total set_supply s_total].
      rewrite FP. unfold AS in HAS. unfold t. lia.
    + eapply LS.nst_exclusive; eauto.
    + intros c Hcc. unfold s'. cbn [l_pools set_pools]. rewrite FP.
      rewrite LC.nget_nput_other.
      * rewrite (LC.escrow_sum_ext c s); [apply HE; exact Hcc|]. cbn [l_orders set_pools LS.with_total set_supply]. exact FO.
      * rewrite LC.esc_val by exact Hcc. unfold MaxChainId in *. lia.
    + eapply LH.orders_bounded_same; [|exact HO]. cbn [s' l_orders set_pools LS.with_total set_supply]. exact FO.
    + cbn [s' l_chain set_pools LS.with_total set_supply]. rewrite FC. exact HCh.
  - rewrite Htot. unfold LC.total, t. lia.
  - rewrite Htot. unfold LC.total, t. lia.
  - intros _. unfold s'. cbn [l_pools set_pools]. rewrite FP.
    rewrite LS.nget_nput by apply W. now rewrite N.eqb_refl.
  - intros Hnz. unfold pools_nz, s'. cbn [l_pools set_pools]. rewrite FP. now apply nz_nput.
Qed.

(* ---- EndBlock: reward distribution of one committee *)
Theorem distribute_invariant chain stubs samples penalty s s' :
  LH.LInv s -> LS.heights_ok s -> stubs_ok stubs samples -> penalty < two64 -> chain <= MaxChainId ->
  distribute_committee chain stubs samples penalty s = LOk s' -> LH.LInv s'.
Proof.
  intros HI _ Hok _ Hch H.
  destruct (distribute_total chain stubs samples penalty s HI Hok Hch) as (s'' & E & HI' & _).
  rewrite E in H. inversion H; subst. exact HI'.
Qed.

(* nothing is created; what is not paid out is burned; the pool is emptied *)
Theorem distribute_burns chain stubs samples penalty s s' :
  LH.LInv s -> LS.heights_ok s -> stubs_ok stubs samples -> penalty < two64 -> chain <= MaxChainId ->
  distribute_committee chain stubs samples penalty s = LOk s' ->
  LC.total s' <= LC.total s /\ LC.total s - LC.total s' <= nget chain (l_pools s) /\
  (stubs <> [] -> nget chain (l_pools s') = 0).
Proof.
  intros HI _ Hok _ Hch H.
  destruct (distribute_total chain stubs samples penalty s HI Hok Hch) as (s'' & E & _ & A & B & C & _).
  rewrite E in H. inversion H; subst. auto.
Qed.

(* the chain cannot wedge in EndBlock: on a reachable state a well-formed distribution never fails *)
Theorem distribute_never_fails chain stubs samples penalty s :
  LH.LInv s -> LS.heights_ok s -> stubs_ok stubs samples -> penalty < two64 -> chain <= MaxChainId ->
  exists s', distribute_committee chain stubs samples penalty s = LOk s'.
Proof.
  intros HI _ Hok _ Hch.
  destruct (distribute_total chain stubs samples penalty s HI Hok Hch) as (s'' & E & _). eauto.
Qed.

(* ---- BeginBlock: the scheduled mint *)
Definition chains_ok (chains : list N) : Prop := Forall (fun c => c <= MaxChainId) chains.

Lemma mint_spec id x s : LH.LInv s -> id <= MaxChainId \/ id = DAOPool -> LC.total s + x < two64 ->
  exists s', mint_to_pool id x s = LOk s' /\ LH.LInv s' /\ LC.total s' = LC.total s + x /\ (pools_nz s -> pools_nz s').
Proof.
  intros (W & Hc & HC & Hx & HE & HO & HCh) Hid Hb.
  assert (Hex : exists s', mint_to_pool id x s = LOk s').
  { unfold mint_to_pool, add_total, upd_supply, pool_add. cbn [bind]. eauto. }
  destruct Hex as [s' E]. exists s'. split; [exact E|].
  pose proof (LS.nst_mint_to_pool _ _ _ _ E) as N1.
  destruct (LS.nst_done _ _ N1 W HC) as [W' C'].
  pose proof N1 as (_ & _ & _ & FC & _).
  unfold mint_to_pool in E. binv E.
  destruct (LC.add_total_spec _ _ _ Eb Hb) as (_ & P0 & _ & O0 & T0 & B0).
  destruct (LC.pool_add_spec _ _ _ _ E) as [(_ & _ & O1 & T1) B1].
  assert (HB : LC.Bal 0 0 s) by (apply LC.Bal_0; split; [apply LH.wf_LS_LC|]; assumption).
  destruct (B1 0 (B0 0 HB)) as [HB' EP]. apply LC.Bal_0 in HB'. destruct HB' as [_ Hc'].
  splits.
  - refine (conj W' (conj Hc' (conj C' (conj _ (conj _ (conj _ _)))))).
    + eapply LS.nst_exclusive; eauto.
    + intros c Hcc. rewrite (LC.pool_add_other _ _ _ _ _ E), P0.
      * rewrite (LC.escrow_sum_ext c s s') by congruence. auto.
      * rewrite LC.esc_val by exact Hcc. unfold MaxChainId, DAOPool in *. lia.
    + eapply LH.orders_bounded_same; [|exact HO]. congruence.
    + rewrite FC. exact HCh.
  - lia.
  - intros Hnz. unfold pools_nz. rewrite EP, P0. now apply nz_nput.
Qed.

Lemma fund_each per chains : forall s, LH.LInv s -> chains_ok chains ->
  LC.total s + N.of_nat (length chains) * per < two64 ->
  exists s', each (fun c => mint_to_pool c per) chains s = LOk s' /\ LH.LInv s' /\
    LC.total s' = LC.total s + N.of_nat (length chains) * per /\ (pools_nz s -> pools_nz s').
Proof.
  induction chains as [|c r IH]; intros s HI Hok Hb.
  - exists s. cbn [each length N.of_nat]. splits; auto. lia.
  - cbn [length] in *. rewrite Nat2N.inj_succ, N.mul_succ_l in *.
    apply Forall_cons_iff in Hok. destruct Hok as [Hc Hr].
    destruct (mint_spec c per s HI (or_introl Hc)) as (s1 & E1 & HI1 & T1 & Z1); [lia|].
    destruct (IH s1 HI1 Hr) as (s' & E' & HI' & T' & Z'); [lia|].
    exists s'. cbn [each]. rewrite E1. cbn [bind]. splits; auto. lia.
Qed.

Lemma mint_after_le total dao_pct :
  (if (100 <=? dao_pct) || (total =? 0) then 0 else if dao_pct =? 0 then total else SafeMulDiv total (100 - dao_pct) 100) <= total.
Proof.
  destruct (_ || _); [lia|]. destruct (dao_pct =? 0); [lia|]. apply LS.SafeMulDiv_le. lia.
Qed.

(* the split never exceeds the scheduled amount (the bounds on the inputs are not needed) *)
Lemma mint_split_le total dao_pct count : count <> 0 ->
  fst (mint_split total dao_pct count) + count * snd (mint_split total dao_pct count) <= total.
Proof.
  intros Hc. unfold mint_split. cbn [fst snd].
  pose proof (mint_after_le total dao_pct) as H.
  set (after := if (100 <=? dao_pct) || (total =? 0) then 0 else if dao_pct =? 0 then total else SafeMulDiv total (100 - dao_pct) 100) in *.
  pose proof (N.mul_div_le after count Hc) as H2.
  set (q := after / count) in *. lia.
Qed.

Lemma fund_total total dao_pct chains s :
  LH.LInv s -> chains_ok chains -> LC.total s + total < two64 ->
  exists s', fund_pools total dao_pct chains s = LOk s' /\ LH.LInv s' /\
    LC.total s <= LC.total s' /\ LC.total s' <= LC.total s + total /\ (pools_nz s -> pools_nz s').
Proof.
  intros HI Hok Hb. unfold fund_pools. cbv zeta.
  destruct (N.eqb_spec (N.of_nat (length chains)) 0) as [Hz|Hnz]; cbn [orb].
  { exists s. splits; auto; lia. }
  destruct (total =? 0).
  { exists s. splits; auto; lia. }
  pose proof (mint_split_le total dao_pct (N.of_nat (length chains)) Hnz) as Hsplit.
  destruct (mint_split total dao_pct (N.of_nat (length chains))) as [dao per]. cbn [fst snd] in Hsplit.
  destruct (mint_spec DAOPool dao s HI (or_intror eq_refl)) as (s1 & E1 & HI1 & T1 & Z1); [lia|].
  rewrite E1. cbn [bind].
  destruct (fund_each per chains s1 HI1 Hok) as (s' & E' & HI' & T' & Z'); [lia|].
  exists s'. splits; auto; lia.
Qed.

Theorem fund_invariant total dao_pct chains s s' :
  LH.LInv s -> chains_ok chains -> LC.total s + total < two64 -> dao_pct < two64 ->
  fund_pools total dao_pct chains s = LOk s' ->
  LH.LInv s' /\ LC.total s <= LC.total s' /\ LC.total s' <= LC.total s + total.
Proof.
  intros HI Hok Hb _ H.
  destruct (fund_total total dao_pct chains s HI Hok Hb) as (s'' & E & HI' & A & B & _).
  rewrite E in H. inversion H; subst. auto.
Qed.
Theorem fund_never_fails total dao_pct chains s :
  LH.LInv s -> chains_ok chains -> LC.total s + total < two64 -> dao_pct < two64 ->
  exists s', fund_pools total dao_pct chains s = LOk s'.
Proof.
  intros HI Hok Hb _.
  destruct (fund_total total dao_pct chains s HI Hok Hb) as (s'' & E & _). eauto.
Qed.
(* the split never exceeds the scheduled amount *)
Theorem mint_split_bounded total dao_pct count : total < two64 -> dao_pct < two64 -> 0 < count ->
  fst (mint_split total dao_pct count) + count * snd (mint_split total dao_pct count) <= total.
Proof. intros _ _ Hc. apply mint_split_le. lia. Qed.

(* ---- whole histories: transactions, slashes, deferred actions, height changes, mints and reward distributions *)
Inductive bop :=
| BOp (o : LH.lop)
| BReward (chain : N) (stubs : list (N * N)) (samples penalty : N)
| BMint (total dao_pct : N) (chains : list N).
Definition bapply (o : bop) (s : lstate) : res lstate :=
  match o with
  | BOp o => LH.lapply o s
  | BReward chain stubs samples penalty => distribute_committee chain stubs samples penalty s
  | BMint total dao_pct chains => fund_pools total dao_pct chains s
  end.
Fixpoint brun (ops : list bop) (s : lstate) : res lstate :=
  match ops with
  | [] => LOk s
  | o :: r => match bapply o s with LOk s' => brun r s' | LErr => LErr end
  end.
Definition bop_ok (o : bop) (s : lstate) : Prop :=
  match o with
  | BOp o => LH.op_ok o s
  | BReward chain stubs samples penalty => stubs_ok stubs samples /\ penalty < two64 /\ chain <= MaxChainId
  | BMint total dao_pct chains => chains_ok chains /\ LC.total s + total < two64 /\ dao_pct < two64
  end.
Fixpoint bhist_ok (ops : list bop) (s : lstate) : Prop :=
  match ops with
  | [] => True
  | o :: r => LS.heights_ok s /\ bop_ok o s /\ match bapply o s with LOk s' => bhist_ok r s' | LErr => True end
  end.

Lemma bapply_invariant o s s' : LH.LInv s -> LS.heights_ok s -> bop_ok o s -> bapply o s = LOk s' -> LH.LInv s'.
Proof.
  intros HI Hh Hop H. destruct o as [o|chain stubs samples penalty|total dao_pct chains]; cbn [bapply bop_ok] in *.
  - eapply LH.lapply_invariant; eauto.
  - destruct Hop as (A & B & C). eapply distribute_invariant; eauto.
  - destruct Hop as (A & B & C). eapply fund_invariant; eauto.
Qed.
Lemma bapply_never_fails o s : LH.LInv s -> LS.heights_ok s -> bop_ok o s -> exists s', bapply o s = LOk s'.
Proof.
  intros HI Hh Hop. destruct o as [o|chain stubs samples penalty|total dao_pct chains]; cbn [bapply bop_ok] in *.
  - now apply LH.lapply_never_fails.
  - destruct Hop as (A & B & C). now apply distribute_never_fails.
  - destruct Hop as (A & B & C). now apply fund_never_fails.
Qed.

Theorem block_history_invariant ops : forall s s', LH.LInv s -> bhist_ok ops s -> brun ops s = LOk s' -> LH.LInv s'.
Proof.
  induction ops as [|o r IH]; intros s s' HI Hok Hrun; cbn [brun bhist_ok] in *.
  - inversion Hrun; subst. exact HI.
  - destruct Hok as (Hh & Hop & Hrest). destruct (bapply o s) as [s1|] eqn:E; [|discriminate].
    eapply IH; [eapply bapply_invariant; eauto|exact Hrest|exact Hrun].
Qed.
Theorem block_history_never_fails ops : forall s, LH.LInv s -> bhist_ok ops s -> exists s', brun ops s = LOk s'.
Proof.
  induction ops as [|o r IH]; intros s HI Hok; cbn [brun bhist_ok] in *.
  - eauto.
  - destruct Hok as (Hh & Hop & Hrest). destruct (bapply_never_fails o s HI Hh Hop) as [s1 E]. rewrite E in *.
    apply IH; [eapply bapply_invariant; eauto|exact Hrest].
Qed.

(* ---- the boolean escrow predicate.  LC.Escrow (part of LInv) says every escrow pool equals the sum of its chain's open
   orders; escrow_ok asks in addition that no entry of the pool list with an id in the escrow range belongs to a chain
   without open orders.  A zero-valued entry (which nput never creates) satisfies the former and not the latter. *)
Lemma pnz_pool_add id x s s' : pool_add id x s = LOk s' -> pools_nz s -> pools_nz s'.
Proof. unfold pool_add. intros H Hz. inversion H; subst. unfold pools_nz. cbn [l_pools set_pools]. now apply nz_nput. Qed.
Lemma pnz_pool_sub id x s s' : pool_sub id x s = LOk s' -> pools_nz s -> pools_nz s'.
Proof.
  unfold pool_sub. destruct (_ <? _); [discriminate|]. intros H Hz. inversion H; subst.
  unfold pools_nz. cbn [l_pools set_pools]. now apply nz_nput.
Qed.
Lemma pnz_fpoc s s' : LH.fpoc s s' -> pools_nz s -> pools_nz s'.
Proof. intros (P & _). now apply pnz_same. Qed.
Lemma pnz_account_sub a x s s' : account_sub a x s = LOk s' -> pools_nz s -> pools_nz s'.
Proof. intros H. apply pnz_fpoc. eapply LH.fpoc_account_sub; eauto. Qed.
Lemma pnz_account_add a x s s' : account_add a x s = LOk s' -> pools_nz s -> pools_nz s'.
Proof. intros H. apply pnz_fpoc. eapply LH.fpoc_account_add; eauto. Qed.
Lemma pnz_mint id x s s' : mint_to_pool id x s = LOk s' -> pools_nz s -> pools_nz s'.
Proof.
  unfold mint_to_pool. intros H Hz. binv H. eapply pnz_pool_add; [exact H|].
  eapply pnz_fpoc; [|exact Hz]. eapply LH.fpoc_upd. exact Eb.
Qed.
Lemma pnz_set_orders o s : pools_nz s -> pools_nz (set_orders o s).
Proof. exact (fun H => H). Qed.

Lemma pnz_handle m s s' : handle m s = LOk s' -> pools_nz s -> pools_nz s'.
Proof.
  intros H Hz. destruct (LS.staking_msg m) eqn:Es.
  { eapply pnz_fpoc; [|exact Hz]. eapply LH.handle_fpoc_staking; eauto. }
  destruct m; try discriminate Es; clear Es; cbn [handle] in H; cbv zeta in H.
  - (* MSend *) binv H. eapply pnz_account_add; [exact H|]. eapply pnz_account_sub; eauto.
  - (* MSubsidy *) binv H. eapply pnz_pool_add; [exact H|]. eapply pnz_account_sub; eauto.
  - (* MDaoTransfer *) binv H. binv H.
    eapply pnz_account_add; [exact H|]. eapply pnz_pool_sub; [exact Eb0|].
    destruct mint; [eapply pnz_mint; eauto|]. inversion Eb; subst. exact Hz.
  - (* MCreateOrder *) destruct (_ <? _); [discriminate|]. binv H. binv H. inversion H; subst s'.
    apply pnz_set_orders. eapply pnz_pool_add; [exact Eb0|]. eapply pnz_account_sub; eauto.
  - (* MEditOrder *) destruct (aget id (l_orders s)) as [o|]; [|discriminate].
    destruct (negb _); [discriminate|]. destruct (o_locked o); [discriminate|]. destruct (amount <? _); [discriminate|].
    binv H. inversion H; subst s'. apply pnz_set_orders.
    destruct (o_amount o <? amount).
    + binv Eb. eapply pnz_pool_add; [exact Eb|]. eapply pnz_account_sub; eauto.
    + destruct (amount <? o_amount o).
      * binv Eb. eapply pnz_account_add; [exact Eb|]. eapply pnz_pool_sub; eauto.
      * inversion Eb; subst. exact Hz.
  - (* MDeleteOrder *) destruct (aget id (l_orders s)) as [o|]; [|discriminate].
    destruct (negb _); [discriminate|]. destruct (o_locked o); [discriminate|].
    binv H. binv H. inversion H; subst s'. apply pnz_set_orders.
    eapply pnz_account_add; [exact Eb0|]. eapply pnz_pool_sub; eauto.
Qed.

Lemma pnz_apply_tx sender fee m s : pools_nz s -> pools_nz (snd (apply_tx sender fee m s)).
Proof.
  intros Hz. unfold apply_tx.
  destruct (s1 <- account_sub sender fee s ;; s2 <- pool_add (l_chain s) fee s1 ;; handle m s2) as [s'|] eqn:H;
    cbn [snd]; [|exact Hz].
  binv H. binv H. eapply pnz_handle; [exact H|]. eapply pnz_pool_add; [exact Eb0|]. eapply pnz_account_sub; eauto.
Qed.

Lemma pnz_lapply o s s' : LH.lapply o s = LOk s' -> pools_nz s -> pools_nz s'.
Proof.
  intros H Hz. destruct o as [sender fee m|a chain percent already| | |]; cbn [LH.lapply] in H.
  - inversion H; subst s'. now apply pnz_apply_tx.
  - eapply pnz_fpoc; [|exact Hz]. eapply LH.fpoc_slash; eauto.
  - eapply pnz_fpoc; [|exact Hz]. eapply LH.fpoc_force; eauto.
  - eapply pnz_fpoc; [|exact Hz]. eapply LH.fpoc_finish; eauto.
  - inversion H; subst s'. exact Hz.
Qed.

Lemma pnz_bapply o s s' : LH.LInv s -> bop_ok o s -> bapply o s = LOk s' -> pools_nz s -> pools_nz s'.
Proof.
  intros HI Hop H Hz. destruct o as [o|chain stubs samples penalty|total dao_pct chains]; cbn [bapply bop_ok] in *.
  - eapply pnz_lapply; eauto.
  - destruct Hop as (A & B & C).
    destruct (distribute_total chain stubs samples penalty s HI A C) as (s'' & E & _ & _ & _ & _ & Z).
    rewrite E in H. inversion H; subst. auto.
  - destruct Hop as (A & B & C).
    destruct (fund_total total dao_pct chains s HI A B) as (s'' & E & _ & _ & _ & Z).
    rewrite E in H. inversion H; subst. auto.
Qed.

Lemma escrow_sum_pos c s : LC.escrow_sum c s <> 0 -> exists e, In e (l_orders s) /\ o_chain (snd e) = c.
Proof.
  unfold LC.escrow_sum. induction (l_orders s) as [|e r IH]; cbn [fold_right]; [congruence|].
  destruct (N.eqb_spec (o_chain (snd e)) c) as [Heq|Hne].
  - intros _. exists e. split; [now left|exact Heq].
  - intros H. destruct (IH H) as (e' & Hin & He'). exists e'. split; [now right|exact He'].
Qed.

Lemma escrow_ok_of_inv s : LH.LInv s -> pools_nz s -> escrow_ok s = true.
Proof.
  intros (W & _ & _ & _ & HE & HO & _) Hz. destruct W as (_ & W2 & _ & W4 & _).
  unfold escrow_ok. apply andb_true_iff. split.
  - apply forallb_forall. intros c Hin. unfold chains_of_orders in Hin. apply in_map_iff in Hin.
    destruct Hin as ([id o] & <- & Hin). cbn [snd].
    assert (Hc : o_chain o <= MaxChainId) by (eapply HO; apply LS.In_aget; eauto).
    apply N.eqb_eq. exact (HE _ Hc).
  - apply forallb_forall. intros [p x] Hin. cbn [fst].
    destruct ((EscrowPoolAddend <=? p) && (p <? EscrowPoolAddend + MaxChainId + 1)) eqn:Er; [|reflexivity].
    apply andb_true_iff in Er. destruct Er as [R1 R2]. apply N.leb_le in R1. apply N.ltb_lt in R2.
    assert (Hc : p - EscrowPoolAddend <= MaxChainId) by (unfold EscrowPoolAddend, MaxChainId in *; lia).
    assert (Hp : add64 (p - EscrowPoolAddend) EscrowPoolAddend = p).
    { rewrite LC.esc_val by exact Hc. unfold EscrowPoolAddend in *. lia. }
    pose proof (HE _ Hc) as Hesc. rewrite Hp in Hesc.
    assert (Hx : nget p (l_pools s) = x) by (unfold nget; now rewrite (LS.In_aget p x _ W2 Hin)).
    assert (Hnz : x <> 0).
    { unfold pools_nz in Hz. rewrite Forall_forall in Hz. exact (Hz _ Hin). }
    destruct (escrow_sum_pos (p - EscrowPoolAddend) s) as (e & He & Hch); [congruence|].
    apply existsb_exists. exists (o_chain (snd e)). split.
    + unfold chains_of_orders. apply in_map_iff. exists e. auto.
    + rewrite Hch, Hp. apply N.eqb_refl.
Qed.

(* STATEMENT CHANGED: added the hypothesis [pools_nz s] (the pool list of the start state has no zero-valued entry, the
   representation convention of model/Ledger.v: "accounts/pools with amount 0 are absent").  Without it the escrow_ok
   conjunct is false already for the empty history: see escrow_ok_needs_nz below.  The hypothesis is only about the start
   state; it is preserved by every operation (pnz_bapply). *)
Theorem block_history_predicates ops s s' : LH.LInv s -> pools_nz s -> bhist_ok ops s -> brun ops s = LOk s' ->
  conservation_ok s' = true /\ staking_ok s' = true /\ escrow_ok s' = true.
Proof.
  intros HI Hz Hok Hrun.
  assert (H : LH.LInv s' /\ pools_nz s').
  { revert s HI Hz Hok Hrun. induction ops as [|o r IH]; intros s HI Hz Hok Hrun; cbn [brun bhist_ok] in *.
    - inversion Hrun; subst. auto.
    - destruct Hok as (Hh & Hop & Hrest). destruct (bapply o s) as [s1|] eqn:E; [|discriminate].
      eapply (IH s1); [eapply bapply_invariant; eauto|eapply pnz_bapply; eauto|exact Hrest|exact Hrun]. }
  destruct H as [HI' Hz']. destruct (LH.LInv_predicates s' HI') as [A B].
  split; [exact A|]. split; [exact B|]. now apply escrow_ok_of_inv.
Qed.

(* the counterexample behind the statement change: a zero-valued entry under an escrow pool id *)
Definition cx_zero_pool : lstate :=
  mkL [] [(65536, 0)] [] (mkSupply 0 0 0 [] []) [] [] [] (mkParams 0 0 0 0 0 0 0) 1 1.
Example escrow_ok_needs_nz :
  LH.LInv cx_zero_pool /\ bhist_ok [] cx_zero_pool /\ brun [] cx_zero_pool = LOk cx_zero_pool /\
  escrow_ok cx_zero_pool = false.
Proof.
  split; [|split; [exact I|split; reflexivity]].
  unfold LH.LInv. split; [|split; [|split; [|split; [|split; [|split]]]]].
  - unfold LS.wf, cx_zero_pool. cbn. splits; auto; try constructor. intros k [].
  - split; reflexivity.
  - constructor; try reflexivity.
    + intros h a. cbn. split; [tauto|]. intros (v & Hg & _). discriminate.
    + intros h a. cbn. split; [tauto|]. intros (v & Hg & _). discriminate.
  - intros a v Hg. discriminate.
  - intros c Hc. rewrite LC.esc_val by exact Hc. unfold nget, LC.escrow_sum, cx_zero_pool. cbn [l_pools l_orders aget fold_right].
    destruct (c + 65535 =? 65536); reflexivity.
  - intros id o Hg. discriminate.
  - cbn. unfold MaxChainId. lia.
Qed.

(* non-vacuity: a state with a compounding validator, a non-compounding one, an unstaking one and a plain account; a mint and a
   distribution to all four; the result satisfies the predicates and the burn is positive *)
Definition bx_state : lstate :=
  mkL [(10, 50)] []
      [(20, mkVal 100 20 [1] 0 0 false true); (21, mkVal 100 31 [1] 0 0 false false); (22, mkVal 100 32 [1] 0 9 false true)]
      (mkSupply 350 300 0 [(1, 300)] [])
      [(9, 22)] [] []
      (mkParams 2 2 3 10 10 1 50) 5 1.
Definition bx_ops : list bop := [BMint 1000 10 [1]; BReward 1 [(20, 25); (21, 25); (22, 25); (10, 24)] 1 20].

Ltac ks := cbn [LS.keys_sorted map fst]; repeat split;
  try (let k := fresh "k" in let Hk := fresh "Hk" in intros k Hk; cbn in Hk; intuition (subst; reflexivity)).

Lemma bx_state_inv : LH.LInv bx_state.
Proof.
  unfold LH.LInv. split; [|split; [|split; [|split; [|split; [|split]]]]].
  - unfold LS.wf, bx_state. cbn [l_accounts l_pools l_vals l_orders l_supply l_unstaking s_cstaked s_cdelegated].
    split; [ks|]. split; [ks|]. split; [ks|]. split; [ks|]. split; [ks|]. split; [ks|].
    split; [repeat constructor; cbn; tauto|]. repeat constructor. cbn. tauto.
  - split; reflexivity.
  - constructor.
    + reflexivity.
    + reflexivity.
    + intros c. unfold nget, LS.stake_where, bx_state.
      cbn [l_supply l_vals s_cstaked aget fold_right snd v_committees v_stake existsb orb].
      destruct (c =? 1); reflexivity.
    + intros c. unfold nget, LS.stake_where. reflexivity.
    + intros h a. cbn [bx_state l_unstaking l_vals In aget]. split.
      * intros [E|[]]. inversion E; subst. eexists. split; [reflexivity|]. split; [reflexivity|discriminate].
      * intros (v & Hg & Hu & Hn).
        destruct (a =? 20); [inversion Hg; subst; cbn in Hn; congruence|].
        destruct (a =? 21); [inversion Hg; subst; cbn in Hn; congruence|].
        destruct (N.eqb_spec a 22) as [->|]; [|discriminate]. inversion Hg; subst. cbn. now left.
    + intros h a. cbn [bx_state l_paused l_vals In aget]. split; [tauto|].
      intros (v & Hg & Hu & Hn).
      destruct (a =? 20); [inversion Hg; subst; cbn in Hn; congruence|].
      destruct (a =? 21); [inversion Hg; subst; cbn in Hn; congruence|].
      destruct (a =? 22); [inversion Hg; subst; cbn in Hn; congruence|discriminate].
    + reflexivity.
  - intros a v Hg Hp. cbn [bx_state l_vals aget] in Hg.
    destruct (a =? 20); [inversion Hg; subst; cbn in Hp; congruence|].
    destruct (a =? 21); [inversion Hg; subst; cbn in Hp; congruence|].
    destruct (a =? 22); [inversion Hg; subst; cbn in Hp; congruence|discriminate].
  - intros c Hc. reflexivity.
  - intros id o Hg. discriminate.
  - cbn [bx_state l_chain]. unfold MaxChainId. lia.
Qed.

Example block_history_nonvacuous : exists s ops s',
  LH.LInv s /\ bhist_ok ops s /\ brun ops s = LOk s' /\ LC.total s' < LC.total s + 1000 /\ LC.total s < LC.total s' /\
  conservation_ok s' = true.
Proof.
  exists bx_state, bx_ops, (match brun bx_ops bx_state with LOk s => s | LErr => bx_state end).
  split; [exact bx_state_inv|]. split; [|split; [vm_compute; reflexivity|]].
  - unfold bx_ops. cbn [bhist_ok]. split; [vm_compute; repeat split; reflexivity|]. split.
    { cbn [bop_ok]. split; [repeat constructor; unfold MaxChainId; lia|]. split; [vm_compute; reflexivity|reflexivity]. }
    match goal with |- match ?e with LOk _ => _ | LErr => _ end =>
      let x := eval vm_compute in e in replace e with x by (vm_compute; reflexivity); cbv beta iota end.
    split; [vm_compute; repeat split; reflexivity|]. split.
    { cbn [bop_ok]. split; [|split; [reflexivity|unfold MaxChainId; lia]].
      unfold stubs_ok. split; [vm_compute; discriminate|]. split; [reflexivity|]. repeat constructor. }
    match goal with |- match ?e with LOk _ => _ | LErr => _ end =>
      let x := eval vm_compute in e in replace e with x by (vm_compute; reflexivity); cbv beta iota end.
    exact I.
  - split; [vm_compute; reflexivity|]. split; vm_compute; reflexivity.
Qed.

(* the example spelled out: 1000 minted (100 to the DAO pool, 900 to committee 1), 757 paid, 143 burned *)
Example block_history_nonvacuous_numbers :
  match brun bx_ops bx_state with
  | LOk s' => LC.total s' = 1207 /\ nget 1 (l_pools s') = 0 /\ nget DAOPool (l_pools s') = 100 /\
              LC.stake_of (aget 20 (l_vals s')) = 325 /\ nget 31 (l_accounts s') = 180 /\ nget 32 (l_accounts s') = 180 /\
              nget 10 (l_accounts s') = 222 /\ staking_ok s' = true /\ escrow_ok s' = true
  | LErr => False
  end.
Proof. vm_compute. repeat split; reflexivity. Qed.

Print Assumptions distribute_invariant.
Print Assumptions distribute_never_fails.
Print Assumptions fund_invariant.
Print Assumptions block_history_invariant.
Print Assumptions block_history_never_fails.
Print Assumptions block_history_predicates.
Print Assumptions block_history_nonvacuous.
