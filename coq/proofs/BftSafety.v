(* BftSafety.v — agreement (property C01): under any adversarial schedule, any Byzantine behaviour of validators holding less
   than one third of the power, any root-chain updates, no two correct replicas commit different (block, results) pairs. *)
From Coq Require Import NArith List Bool Lia.
From V Require Import U64 Extracted Bft BftNet BftArith BftInv BftLocal BftRunOk.
Import ListNotations.
Local Open Scope N_scope.

Definition total (powers : list N) : N := fold_right N.add 0 powers.


(* ---- every action of the model is a local transition (BftInv.ltrans) of the replica it is delivered to *)
Lemma net_step_cases P lru n a : action_ok n a ->
  net_step P lru n a = n \/
  exists i r r' nv, get_rep n i = Some r /\ net_step P lru n a = upd n i r' nv /\ ltrans P lru n i r r' nv.
Proof.
  destruct a as [i o|i m|i v|i root]; simpl; intros Hok; destruct (get_rep n i) as [r|] eqn:E; auto; right.
  - destruct (step (conf_of P lru i) r o) as [r' outs] eqn:Es.
    exists i, r, r', (votes_of i outs). repeat split; auto. eapply step_ltrans; eauto.
  - destruct Hok as [Hq Hh]. exists i, r, (recv_lmsg (conf_of P lru i) r m), []. repeat split; auto.
    now apply recv_lmsg_ltrans.
  - exists i, r, (recv_vote (conf_of P lru i) r v), []. repeat split; auto. now apply recv_vote_ltrans.
  - exists i, r, (root_update r root), []. repeat split; auto. apply root_update_ltrans.
Qed.

Lemma net_step_ids P lru n a : ids (net_step P lru n a) = ids n.
Proof.
  destruct a as [i o|i m|i v|i root]; simpl; destruct (get_rep n i) as [r|]; auto.
  - destruct (step (conf_of P lru i) r o) as [r' outs]. apply (ids_upd n i r' (votes_of i outs)).
  - apply (ids_upd n i _ []).
  - apply (ids_upd n i _ []).
  - apply (ids_upd n i _ []).
Qed.

Lemma run_ids P lru acts : forall n, ids (run P lru n acts) = ids n.
Proof. induction acts as [|a acts IH]; intros n; simpl; [reflexivity|]. now rewrite IH, net_step_ids. Qed.

Lemma run_InvL P lru acts : forall n, InvL P lru n -> run_ok P lru n acts -> InvL P lru (run P lru n acts).
Proof.
  induction acts as [|a acts IH]; intros n HI Hok; simpl; [exact HI|]. destruct Hok as [Ha Hok].
  apply IH; [|exact Hok].
  destruct (net_step_cases P lru n a Ha) as [->|[i [r [r' [nv [Hi [-> Ht]]]]]]]; [exact HI|].
  eapply InvL_step; eauto.
Qed.

Lemma run_Inv P lru cids acts : ptotal P < two64 -> 3 * byz_power P cids < ptotal P ->
  forall n, Inv P lru cids n -> run_ok P lru n acts -> Inv P lru cids (run P lru n acts).
Proof.
  intros Hw Hb. induction acts as [|a acts IH]; intros n HI Hok; simpl; [exact HI|]. destruct Hok as [Ha Hok].
  apply IH; [|exact Hok].
  destruct (net_step_cases P lru n a Ha) as [->|[i [r [r' [nv [Hi [-> Ht]]]]]]]; [exact HI|].
  eapply Inv_step; eauto.
Qed.

(* ---- the initial network *)
Lemma init_ids correct : ids (init_net correct) = map fst correct.
Proof. unfold ids, init_net. simpl. rewrite map_map. apply map_ext. reflexivity. Qed.

Lemma init_rep correct k r : get_rep (init_net correct) k = Some r -> exists root, r = r_init root.
Proof.
  intros H. apply get_rep_In in H. unfold init_net in H. simpl in H. apply in_map_iff in H.
  destruct H as [e [He _]]. injection He as _ <-. eauto.
Qed.

Lemma init_InvL P lru correct : InvL P lru (init_net correct).
Proof.
  split; [|split; [|split]].
  - intros k r rd ph m Hk Hin. destruct (init_rep _ _ _ Hk) as [root ->]. contradiction.
  - intros k r b s Hk Hc. destruct (init_rep _ _ _ Hk) as [root ->]. discriminate.
  - intros k r hv Hk Hin. simpl in Hin. contradiction.
  - intros k r hv1 hv2 Hk Hin. simpl in Hin. contradiction.
Qed.

Lemma init_Inv P lru correct : Inv P lru (map fst correct) (init_net correct).
Proof.
  constructor.
  - apply init_ids.
  - intros k r l Hk Hl. destruct (init_rep _ _ _ Hk) as [root ->]. discriminate.
  - apply init_InvL.
  - intros k r R rd b s Hk Hv. unfold VIn in Hv. simpl in Hv. contradiction.
  - intros k R rd b s Hv. unfold VIn in Hv. simpl in Hv. contradiction.
  - intros R rd b s _ k r Hk Hv. unfold VIn in Hv. simpl in Hv. contradiction.
Qed.

Lemma commits_In n i v : In (i, v) (commits n) <-> exists r, In (i, r) (n_reps n) /\ r_commit r = Some v.
Proof.
  unfold commits. rewrite in_flat_map. split.
  - intros [[k r] [Hin Hv]]. simpl in Hv. destruct (r_commit r) as [w|] eqn:E; [|contradiction].
    destruct Hv as [Hv|[]]. injection Hv as -> ->. eauto.
  - intros [r [Hin Hc]]. exists (i, r). split; [exact Hin|]. simpl. rewrite Hc. now left.
Qed.

(* MAIN THEOREM *)
Theorem agreement powers lru (correct : list (N * N)) acts :
  NoDup (map fst correct) ->
  Forall (fun e => fst e < N.of_nat (length powers)) correct ->
  total powers < two64 ->                                        (* the threshold expression does not wrap *)
  3 * byz_power powers (map fst correct) < total powers ->           (* Byzantine validators hold less than 1/3 *)
  run_ok powers lru (init_net correct) acts ->
  forall i j v1 v2, In (i, v1) (commits (run powers lru (init_net correct) acts)) ->
                    In (j, v2) (commits (run powers lru (init_net correct) acts)) -> v1 = v2.
Proof.
  intros Hnd _ Hw Hb Hok i j v1 v2 H1 H2.
  set (n := run powers lru (init_net correct) acts) in *.
  assert (HI : Inv powers lru (map fst correct) n) by (apply run_Inv; auto; apply init_Inv).
  assert (Hids : NoDup (ids n)) by (rewrite (I_ids _ _ _ _ HI); exact Hnd).
  apply commits_In in H1, H2. destruct H1 as [ri [Hi Hc1]]. destruct H2 as [rj [Hj Hc2]].
  apply In_get_rep in Hi, Hj; auto.
  exact (Inv_agree powers lru (map fst correct) Hw Hb n i ri j rj v1 v2 HI Hi Hj Hc1 Hc2).
Qed.

(* a committed value stays committed and a replica commits at most once *)
Theorem commit_stable powers lru n a i v : In (i, v) (commits n) -> NoDup (map fst (n_reps n)) ->
  In (i, v) (commits (net_step powers lru n a)).
Proof.
  intros Hin Hnd. apply commits_In in Hin. destruct Hin as [r [Hin Hc]].
  assert (Hg : get_rep n i = Some r) by (apply In_get_rep; auto).
  assert (Hset : forall i0 r0 vs, (i0 = i -> r_commit r0 = Some v) -> In (i, v) (commits (mkNet (set_rep n i0 r0) vs))).
  { intros i0 r0 vs H0. apply commits_In. simpl. unfold set_rep.
    destruct (N.eqb_spec i i0) as [<-|Hne].
    - exists r0. split; [|auto]. apply in_map_iff. exists (i, r). simpl. rewrite N.eqb_refl. auto.
    - exists r. split; [|auto]. apply in_map_iff. exists (i, r). simpl.
      destruct (N.eqb_spec i i0); [contradiction|auto]. }
  destruct a as [i0 o|i0 m|i0 v0|i0 root]; simpl; destruct (get_rep n i0) as [r0|] eqn:E;
    try (apply commits_In; solve [eauto]).
  - destruct (step (conf_of powers lru i0) r0 o) as [r' outs] eqn:Es. apply Hset. intros ->.
    rewrite Hg in E. injection E as <-. unfold step in Es. rewrite Hc in Es. injection Es as <- _. exact Hc.
  - apply Hset. intros ->. rewrite Hg in E. injection E as <-. unfold recv_lmsg. now rewrite Hc.
  - apply Hset. intros ->. rewrite Hg in E. injection E as <-. unfold recv_vote. now rewrite Hc.
  - apply Hset. intros ->. rewrite Hg in E. injection E as <-. unfold root_update. now rewrite Hc.
Qed.

(* every commit is backed by +2/3 PRECOMMIT votes of which every correct signer really voted (the certificate that passed
   the gate) *)
Theorem commit_certified powers lru (correct : list (N * N)) acts :
  NoDup (map fst correct) -> run_ok powers lru (init_net correct) acts ->
  forall i b s, In (i, (b, s)) (commits (run powers lru (init_net correct) acts)) ->
  exists root round proposer signers,
    maj23 (mkConf i powers lru) <= set_power (mkConf i powers lru) signers /\
    forall k, In k signers -> existsb (N.eqb k) (map fst correct) = true ->
      In (mkHV k (mkView root round Phase_PRECOMMIT_VOTE) b s proposer) (n_votes (run powers lru (init_net correct) acts)).
Proof.
  intros Hnd Hok i b s Hin.
  set (n := run powers lru (init_net correct) acts) in *.
  assert (HL : InvL powers lru n) by (apply run_InvL; auto; apply init_InvL).
  assert (Hids : ids n = map fst correct) by (unfold n; rewrite run_ids; apply init_ids).
  apply commits_In in Hin. destruct Hin as [r [Hin Hc]].
  apply In_get_rep in Hin; [|rewrite Hids; exact Hnd].
  destruct (proj1 (proj2 HL) _ _ _ _ Hin Hc) as [q [[Hf [Hp Hg]] [Hb Hs]]].
  exists (vw_root (q_view q)), (vw_round (q_view q)), (q_proposer q), (q_signers q). split.
  - pose proof Hf as Hf'. unfold full, qc_check in Hf'.
    destruct (negb (q_sigok q) || negb (forallb (is_validator (cf0 powers lru)) (q_signers q))); [discriminate|].
    destruct (N.leb_spec (maj23 (cf0 powers lru)) (set_power (cf0 powers lru) (q_signers q))) as [Hle|]; [|discriminate].
    exact Hle.
  - intros k Hk Hcor.
    assert (Hv : q_view q = mkView (vw_root (q_view q)) (vw_round (q_view q)) Phase_PRECOMMIT_VOTE)
      by (destruct (q_view q); simpl in *; unfold Phase_PRECOMMIT_VOTE; congruence).
    rewrite <- Hv, <- Hb, <- Hs. apply Hg.
    + eapply full_sigok; eauto.
    + right. rewrite Hp. reflexivity.
    + exact Hk.
    + rewrite is_correct_get_rep.
      apply (memb_In (map fst correct) k) in Hcor. rewrite <- Hids in Hcor.
      destruct (In_ids_get_rep n k Hcor) as [rk ->]. reflexivity.
Qed.

(* ---- non-vacuity: 4 validators of power 100, validator 3 Byzantine and leader of round 0 at root height 5; the three correct
   replicas go through a whole round and all commit (7, 8) *)
Definition ex_powers : list N := [100; 100; 100; 100].
Definition ex_o : oracle := mkO 3 false (0, 0) true 5 0.
Definition qc_elect : qc := mkQC (mkView 5 0 Phase_ELECTION_VOTE) 7 8 3 [0; 1; 2; 3] true.
Definition qc_prop : qc := mkQC (mkView 5 0 Phase_PROPOSE_VOTE) 7 8 3 [0; 1; 2] true.
Definition qc_prec : qc := mkQC (mkView 5 0 Phase_PRECOMMIT_VOTE) 7 8 3 [0; 1; 2] true.
Definition m_propose : lmsg := mkLM 3 true 0 Phase_PROPOSE qc_elect true None 5.
Definition m_precommit : lmsg := mkLM 3 true 0 Phase_PRECOMMIT qc_prop false None 5.
Definition m_commit : lmsg := mkLM 3 true 0 Phase_COMMIT qc_prec false None 5.
Definition each (f : N -> action) : list action := [f 0; f 1; f 2].
Definition ex_acts : list action :=
  each (fun i => AStep i ex_o) ++ each (fun i => AStep i ex_o) ++ each (fun i => AStep i ex_o) ++   (* ELECTION, ELECTION_VOTE, PROPOSE *)
  each (fun i => ALeader i m_propose) ++ each (fun i => AStep i ex_o) ++                            (* PROPOSE_VOTE *)
  each (fun i => AStep i ex_o) ++                                                                   (* PRECOMMIT *)
  each (fun i => ALeader i m_precommit) ++ each (fun i => AStep i ex_o) ++                          (* PRECOMMIT_VOTE: lock *)
  each (fun i => AStep i ex_o) ++                                                                   (* COMMIT *)
  each (fun i => ALeader i m_commit) ++ each (fun i => AStep i ex_o).                               (* COMMIT_PROCESS *)
Example agreement_nonvacuous :
  run_ok ex_powers 0 (init_net [(0, 5); (1, 5); (2, 5)]) ex_acts /\
  commits (run ex_powers 0 (init_net [(0, 5); (1, 5); (2, 5)]) ex_acts) = [(0, (7, 8)); (1, (7, 8)); (2, (7, 8))] /\
  3 * byz_power ex_powers [0; 1; 2] < total ex_powers.
Proof.
  split; [|split].
  - apply run_okb_sound. vm_compute. reflexivity.
  - vm_compute. reflexivity.
  - vm_compute. reflexivity.
Qed.

Print Assumptions agreement.
Print Assumptions commit_certified.
Print Assumptions commit_stable.
