(* LedgerConservation.v — lemmas for property C04 (token supply conservation) and the escrow identity of C20, over
   model/Ledger.v and the scan predicates of model/LedgerCheck.v.

   STATEMENT CHANGES with respect to the original statement file (both reported, both with counterexamples below):
   1. [wf] requires strictly sorted keys ([keys_sorted]) instead of pairwise distinct keys ([keys_nodup]);
      [keys_sorted_nodup] shows the new notion implies the old one.
   2. [handle_escrow] has the extra hypothesis [msg_fresh m s] (a created order's id is not the id of an open order).
   Everything else is as stated.  Hypotheses [msg_bounded], [fee < two64], the bound on stored order chains and
   [l_chain s <= MaxChainId] are kept in the statements but turn out not to be needed by the proofs. *)
From Coq Require Import NArith List Bool Lia Sorted.
From V Require Import U64 Extracted Ledger LedgerCheck.
Import ListNotations.
Local Open Scope N_scope.

(* maps are association lists; the model's representation invariant is that keys are strictly ascending *)
Definition keys_nodup {A} (m : list (N * A)) : Prop := NoDup (map fst m).
Definition keys_sorted {A} (m : list (N * A)) : Prop := StronglySorted N.lt (map fst m).

(* ================= library: association-list maps ================= *)
Section AMapFacts.
  Context {A : Type}.
  Implicit Types (m : list (N * A)) (k : N) (v : A).

  Definition lbk k m : Prop := Forall (fun e => k < fst e) m.

  Lemma keys_sorted_nil : keys_sorted (@nil (N * A)).
  Proof. constructor. Qed.

  Lemma keys_sorted_cons_iff k v m : keys_sorted ((k, v) :: m) <-> keys_sorted m /\ lbk k m.
  Proof.
    unfold keys_sorted, lbk. cbn [map fst]. split.
    - intros H. apply StronglySorted_inv in H. destruct H as [H1 H2]. split; auto.
      rewrite Forall_map in H2. exact H2.
    - intros [H1 H2]. constructor; auto. rewrite Forall_map; auto.
  Qed.

  Lemma lbk_not_in k m : lbk k m -> ~ In k (map fst m).
  Proof.
    unfold lbk. intros H Hin. apply in_map_iff in Hin. destruct Hin as (e & He & Hin).
    rewrite Forall_forall in H. specialize (H e Hin). lia.
  Qed.

  Lemma keys_sorted_nodup m : keys_sorted m -> keys_nodup m.
  Proof.
    unfold keys_nodup. induction m as [|[k v] r IH]; intros H; cbn [map fst].
    - constructor.
    - apply keys_sorted_cons_iff in H. destruct H as [Hs Hl]. constructor; auto using lbk_not_in.
  Qed.

  Lemma lbk_weaken k k' m : lbk k m -> k' <= k -> lbk k' m.
  Proof. unfold lbk. intros H Hle. eapply Forall_impl; [|exact H]. cbv beta. intros e He. lia. Qed.

  Lemma aget_lbk k k' m : lbk k m -> k' <= k -> aget k' m = None.
  Proof.
    unfold lbk. induction m as [|[k0 v0] r IH]; intros H Hle; cbn [aget]; auto.
    apply Forall_cons_iff in H. destruct H as [H0 Hr]. cbn [fst] in H0.
    destruct (N.eqb_spec k' k0); [lia|]. auto.
  Qed.

  Lemma aget_aput_same k v m : aget k (aput k v m) = Some v.
  Proof.
    induction m as [|[k0 v0] r IH]; cbn [aput aget].
    - now rewrite N.eqb_refl.
    - destruct (N.eqb_spec k k0) as [Heq|Hne]; cbn [aget]. { now rewrite N.eqb_refl. }
      destruct (N.ltb_spec k k0); cbn [aget]. { now rewrite N.eqb_refl. }
      destruct (N.eqb_spec k k0); [contradiction|]. exact IH.
  Qed.

  Lemma aget_aput_other k k' v m : k <> k' -> aget k (aput k' v m) = aget k m.
  Proof.
    intros Hne. induction m as [|[k0 v0] r IH]; cbn [aput aget].
    - destruct (N.eqb_spec k k'); [contradiction|reflexivity].
    - destruct (N.eqb_spec k' k0) as [Heq|Hne0]; cbn [aget].
      { subst k0. destruct (N.eqb_spec k k'); [contradiction|reflexivity]. }
      destruct (N.ltb_spec k' k0); cbn [aget].
      { destruct (N.eqb_spec k k'); [contradiction|reflexivity]. }
      destruct (N.eqb_spec k k0); auto.
  Qed.

  Lemma aget_adel_other k k' m : k <> k' -> aget k (adel k' m) = aget k m.
  Proof.
    intros Hne. induction m as [|[k0 v0] r IH]; cbn [adel aget]; auto.
    destruct (N.eqb_spec k' k0) as [Heq|Hne0]; cbn [aget].
    { subst k0. destruct (N.eqb_spec k k'); [contradiction|reflexivity]. }
    destruct (N.eqb_spec k k0); auto.
  Qed.

  Lemma aget_adel_same k m : keys_sorted m -> aget k (adel k m) = None.
  Proof.
    induction m as [|[k0 v0] r IH]; intros H; cbn [adel aget]; auto.
    apply keys_sorted_cons_iff in H. destruct H as [Hs Hl].
    destruct (N.eqb_spec k k0) as [Heq|Hne]; cbn [aget].
    { subst k0. eapply aget_lbk; eauto. lia. }
    destruct (N.eqb_spec k k0); [contradiction|]. auto.
  Qed.

  Lemma lbk_aput k0 k v m : lbk k0 m -> k0 < k -> lbk k0 (aput k v m).
  Proof.
    unfold lbk. induction m as [|[k1 v1] r IH]; intros H Hlt; cbn [aput].
    - constructor; auto.
    - apply Forall_cons_iff in H. destruct H as [H1 Hr]. cbn [fst] in H1.
      destruct (k =? k1). { constructor; auto. }
      destruct (k <? k1). { constructor; auto. }
      constructor; auto.
  Qed.

  Lemma lbk_adel k0 k m : lbk k0 m -> lbk k0 (adel k m).
  Proof.
    unfold lbk. induction m as [|[k1 v1] r IH]; intros H; cbn [adel]; auto.
    apply Forall_cons_iff in H. destruct H as [H1 Hr].
    destruct (k =? k1); auto.
  Qed.

  Lemma keys_sorted_aput k v m : keys_sorted m -> keys_sorted (aput k v m).
  Proof.
    induction m as [|[k1 v1] r IH]; intros H; cbn [aput].
    - apply keys_sorted_cons_iff. split; [apply keys_sorted_nil|constructor].
    - pose proof H as H'. apply keys_sorted_cons_iff in H'. destruct H' as [Hs Hl].
      destruct (N.eqb_spec k k1) as [Heq|Hne].
      { subst k1. apply keys_sorted_cons_iff. auto. }
      destruct (N.ltb_spec k k1) as [Hlt|Hge].
      { apply keys_sorted_cons_iff. split; auto. constructor; auto.
        eapply lbk_weaken; eauto. lia. }
      apply keys_sorted_cons_iff. split; auto. apply lbk_aput; auto. lia.
  Qed.

  Lemma keys_sorted_adel k m : keys_sorted m -> keys_sorted (adel k m).
  Proof.
    induction m as [|[k1 v1] r IH]; intros H; cbn [adel]; auto.
    apply keys_sorted_cons_iff in H. destruct H as [Hs Hl].
    destruct (k =? k1); auto.
    apply keys_sorted_cons_iff. split; auto using lbk_adel.
  Qed.

  (* weighted sums *)
  Variable f : A -> N.
  Definition wsum m : N := fold_right (fun e acc => f (snd e) + acc) 0 m.
  Definition wof (o : option A) : N := match o with Some v => f v | None => 0 end.

  Lemma wsum_adel k m : wsum (adel k m) + wof (aget k m) = wsum m.
  Proof.
    induction m as [|[k1 v1] r IH]; cbn [adel aget wsum fold_right snd]; auto.
    destruct (k =? k1); cbn [wof wsum fold_right snd].
    - fold (wsum r). lia.
    - fold (wsum (adel k r)). fold (wsum r). lia.
  Qed.

  Lemma wsum_aput k v m : keys_sorted m -> wsum (aput k v m) + wof (aget k m) = wsum m + f v.
  Proof.
    induction m as [|[k1 v1] r IH]; intros H; cbn [aput aget wsum fold_right snd wof]; [lia|].
    apply keys_sorted_cons_iff in H. destruct H as [Hs Hl].
    destruct (N.eqb_spec k k1) as [Heq|Hne]; cbn [wof wsum fold_right snd].
    { fold (wsum r). lia. }
    destruct (N.ltb_spec k k1) as [Hlt|Hge]; cbn [wof wsum fold_right snd].
    { fold (wsum r). rewrite (aget_lbk k1 k r Hl) by lia. cbn [wof]. lia. }
    fold (wsum (aput k v r)). fold (wsum r). specialize (IH Hs). lia.
  Qed.

  Lemma wof_le_wsum k m : wof (aget k m) <= wsum m.
  Proof. pose proof (wsum_adel k m). lia. Qed.
End AMapFacts.

(* ---- instances: N-valued maps, validators *)
Lemma sum_snd_wsum m : sum_snd m = wsum (fun x => x) m.
Proof. reflexivity. Qed.
Lemma sum_stake_wsum m : sum_stake m = wsum v_stake m.
Proof. reflexivity. Qed.
Lemma nget_wof k m : nget k m = wof (fun x => x) (aget k m).
Proof. reflexivity. Qed.
Definition stake_of (o : option validator) : N := match o with Some v => v_stake v | None => 0 end.

Lemma keys_sorted_nput k v m : keys_sorted m -> keys_sorted (nput k v m).
Proof. intros H. unfold nput. destruct (v =? 0); auto using keys_sorted_adel, keys_sorted_aput. Qed.

Lemma sum_nput k v m : keys_sorted m -> sum_snd (nput k v m) + nget k m = sum_snd m + v.
Proof.
  intros H. unfold nput. destruct (N.eqb_spec v 0) as [Hz|Hnz].
  - subst v. pose proof (wsum_adel (fun x : N => x) k m : sum_snd (adel k m) + nget k m = sum_snd m). lia.
  - exact (wsum_aput (fun x : N => x) k v m H).
Qed.

Lemma nget_le_sum k m : nget k m <= sum_snd m.
Proof. exact (wof_le_wsum (fun x : N => x) k m). Qed.

Lemma nget_nput_same k v m : keys_sorted m -> nget k (nput k v m) = v.
Proof.
  intros H. unfold nput, nget. destruct (N.eqb_spec v 0) as [Hz|Hnz].
  - rewrite aget_adel_same by auto. auto.
  - now rewrite aget_aput_same.
Qed.

Lemma nget_nput_other k k' v m : k <> k' -> nget k (nput k' v m) = nget k m.
Proof.
  intros H. unfold nput, nget. destruct (v =? 0).
  - now rewrite aget_adel_other.
  - now rewrite aget_aput_other.
Qed.

Lemma sum_stake_aput a v m : keys_sorted m -> sum_stake (aput a v m) + stake_of (aget a m) = sum_stake m + v_stake v.
Proof. intros H. exact (wsum_aput v_stake a v m H). Qed.

Lemma sum_stake_adel a m : sum_stake (adel a m) + stake_of (aget a m) = sum_stake m.
Proof. exact (wsum_adel v_stake a m). Qed.

Lemma stake_le_sum a v m : aget a m = Some v -> v_stake v <= sum_stake m.
Proof. intros H. pose proof (sum_stake_adel a m) as E. rewrite H in E. cbn [stake_of] in E. lia. Qed.

(* ================= the ledger invariant ================= *)
(* STATEMENT CHANGED: wf requires strictly sorted keys (the representation invariant of the model's association lists;
   with pairwise distinct but unsorted keys, aput inserts a second entry for an existing key: accounts [(5,10);(3,10)],
   total 20, MSend 3 7 4 yields accounts [(3,6);(5,10);(3,10);(7,4)], sum 30). keys_sorted implies keys_nodup. *)
Definition wf (s : lstate) : Prop :=
  keys_sorted (l_accounts s) /\ keys_sorted (l_pools s) /\ keys_sorted (l_vals s) /\ keys_sorted (l_orders s) /\
  keys_sorted (s_cstaked (l_supply s)) /\ keys_sorted (s_cdelegated (l_supply s)).
Definition Conserved (s : lstate) : Prop :=
  s_total (l_supply s) = sum_snd (l_accounts s) + sum_snd (l_pools s) + sum_stake (l_vals s) /\ s_total (l_supply s) < two64.
Definition total (s : lstate) : N := s_total (l_supply s).

Lemma conservation_ok_iff s : conservation_ok s = true <-> s_total (l_supply s) = sum_snd (l_accounts s) + sum_snd (l_pools s) + sum_stake (l_vals s).
Proof. unfold conservation_ok. apply N.eqb_eq. Qed.

(* [Bal e d s]: the ledger is consistent up to [d] tokens "in flight" (taken out of one place, not yet put into another)
   and [e] tokens of "debt" (already burned from the total, or already credited, but not yet taken from their source);
   [Bal 0 0 s] is [wf s /\ Conserved s].  Every primitive moves tokens between a component and [d] or [e]; because the
   total stays below 2^64 the unchecked add64 of PoolAdd / UpdateValidatorStake cannot wrap. *)
Definition Bal (e d : N) (s : lstate) : Prop :=
  wf s /\ total s + e = sum_snd (l_accounts s) + sum_snd (l_pools s) + sum_stake (l_vals s) + d /\ total s < two64.

Lemma Bal_0 s : Bal 0 0 s <-> wf s /\ Conserved s.
Proof. unfold Bal, Conserved, total. rewrite !N.add_0_r. tauto. Qed.
Lemma Bal_eq e d d' s : Bal e d s -> d = d' -> Bal e d' s.
Proof. now intros H <-. Qed.

Ltac psimpl := cbn [l_accounts l_pools l_vals l_supply l_unstaking l_paused l_orders l_params l_height l_chain
  set_accounts set_pools set_vals set_supply set_unstaking set_paused set_orders put_val
  s_total s_staked s_delegated s_cstaked s_cdelegated] in *.

Lemma bind_ok {X Y} (r : res X) (f : X -> res Y) y : bind r f = LOk y -> exists x, r = LOk x /\ f x = LOk y.
Proof. destruct r as [x|]; cbn; [eauto|discriminate]. Qed.
Ltac bind_inv H := let s := fresh "s" in let E := fresh "E" in apply bind_ok in H; destruct H as (s & E & H).
Ltac ok_inv H := injection H as H; try subst.

(* frames *)
Definition fr_acc (s s' : lstate) : Prop :=
  l_pools s' = l_pools s /\ l_vals s' = l_vals s /\ l_orders s' = l_orders s /\ total s' = total s.
Definition fr_pool (s s' : lstate) : Prop :=
  l_accounts s' = l_accounts s /\ l_vals s' = l_vals s /\ l_orders s' = l_orders s /\ total s' = total s.
Definition fr_tally (s s' : lstate) : Prop :=
  l_accounts s' = l_accounts s /\ l_pools s' = l_pools s /\ l_vals s' = l_vals s /\ l_orders s' = l_orders s /\ total s' = total s /\
  (wf s -> wf s').
Definition fr_val (s s' : lstate) : Prop :=
  l_accounts s' = l_accounts s /\ l_pools s' = l_pools s /\ l_orders s' = l_orders s /\ total s' = total s.

Lemma account_sub_spec a x s s' : account_sub a x s = LOk s' ->
  fr_acc s s' /\ forall e d, Bal e d s -> Bal e (d + x) s'.
Proof.
  unfold account_sub, fr_acc. intros H. destruct (N.eqb_spec x 0) as [Hz|Hnz].
  - ok_inv H. split; [repeat split; auto|]. intros e d HB. eapply Bal_eq; eauto. lia.
  - destruct (N.ltb_spec (nget a (l_accounts s)) x) as [Hlt|Hge]; [discriminate|]. ok_inv H.
    unfold total. psimpl. split; [repeat split; auto|]. intros e d (Hwf & HT & Hlt). unfold Bal, wf, total in *. psimpl.
    destruct Hwf as (W1 & W2 & W3 & W4 & W5 & W6).
    pose proof (sum_nput a (nget a (l_accounts s) - x) _ W1).
    split; [|split]; [repeat split; auto using keys_sorted_nput | lia | lia].
Qed.

Lemma account_add_spec a x s s' : account_add a x s = LOk s' ->
  fr_acc s s' /\ (forall e d, Bal e (d + x) s -> Bal e d s') /\ (forall e d, Bal e d s -> Bal (e + x) d s').
Proof.
  unfold account_add, fr_acc. intros H. destruct (N.eqb_spec x 0) as [Hz|Hnz].
  - ok_inv H. split; [repeat split; auto|]. split; intros e d HB.
    + eapply Bal_eq; eauto. lia.
    + rewrite N.add_0_r. exact HB.
  - destruct (N.leb_spec two64 (nget a (l_accounts s) + x)) as [Hlt|Hge]; [discriminate|]. ok_inv H.
    unfold total. psimpl. split; [repeat split; auto|].
    split; intros e d (Hwf & HT & Hlt); unfold Bal, wf, total in *; psimpl;
      destruct Hwf as (W1 & W2 & W3 & W4 & W5 & W6);
      pose proof (sum_nput a (nget a (l_accounts s) + x) _ W1);
      (split; [|split]; [repeat split; auto using keys_sorted_nput | lia | lia]).
Qed.

Lemma pool_add_spec id x s s' : pool_add id x s = LOk s' ->
  fr_pool s s' /\ forall d, Bal 0 (d + x) s -> Bal 0 d s' /\ l_pools s' = nput id (nget id (l_pools s) + x) (l_pools s).
Proof.
  unfold pool_add, fr_pool. intros H. ok_inv H. unfold total. psimpl. split; [repeat split; auto|].
  intros d (Hwf & HT & Hlt). unfold Bal, wf, total in *. psimpl.
  destruct Hwf as (W1 & W2 & W3 & W4 & W5 & W6).
  pose proof (nget_le_sum id (l_pools s)).
  rewrite add64_exact by lia.
  pose proof (sum_nput id (nget id (l_pools s) + x) _ W2).
  split; [|reflexivity].
  split; [|split]; [repeat split; auto using keys_sorted_nput | lia | lia].
Qed.

Lemma pool_sub_spec id x s s' : pool_sub id x s = LOk s' ->
  fr_pool s s' /\ (forall e d, Bal e d s -> Bal e (d + x) s') /\
  x <= nget id (l_pools s) /\ l_pools s' = nput id (nget id (l_pools s) - x) (l_pools s).
Proof.
  unfold pool_sub, fr_pool. intros H.
  destruct (N.ltb_spec (nget id (l_pools s)) x) as [Hlt|Hge]; [discriminate|]. ok_inv H.
  unfold total. psimpl. split; [repeat split; auto|]. split; [|split; [lia|reflexivity]].
  intros e d (Hwf & HT & Hlt). unfold Bal, wf, total in *. psimpl.
  destruct Hwf as (W1 & W2 & W3 & W4 & W5 & W6).
  pose proof (sum_nput id (nget id (l_pools s) - x) _ W2).
  split; [|split]; [repeat split; auto using keys_sorted_nput | lia | lia].
Qed.

(* ---- supply tallies *)
Definition tally_ok (f : supply -> res supply) : Prop := forall u u', f u = LOk u' ->
  s_total u' = s_total u /\ (keys_sorted (s_cstaked u) -> keys_sorted (s_cstaked u')) /\
  (keys_sorted (s_cdelegated u) -> keys_sorted (s_cdelegated u')).

Lemma upd_supply_tally f s s' : tally_ok f -> upd_supply f s = LOk s' -> fr_tally s s'.
Proof.
  unfold upd_supply, fr_tally. intros Hf H. bind_inv H. ok_inv H. destruct (Hf _ _ E) as (HT & H1 & H2).
  unfold total, wf. psimpl. repeat split; auto; tauto.
Qed.

Ltac tally_tac :=
  intros u u' Hf; cbv beta zeta in Hf;
  match type of Hf with
  | (if ?c then LErr else _) = _ => destruct c; [discriminate Hf|]
  end; injection Hf as <-; cbn [s_total s_cstaked s_cdelegated]; repeat split; auto using keys_sorted_nput.

Lemma add_staked_tally x s s' : add_staked x s = LOk s' -> fr_tally s s'.
Proof. apply upd_supply_tally. tally_tac. Qed.
Lemma sub_staked_tally x s s' : sub_staked x s = LOk s' -> fr_tally s s'.
Proof. apply upd_supply_tally. tally_tac. Qed.
Lemma add_delegated_tally x s s' : add_delegated x s = LOk s' -> fr_tally s s'.
Proof. apply upd_supply_tally. tally_tac. Qed.
Lemma sub_delegated_tally x s s' : sub_delegated x s = LOk s' -> fr_tally s s'.
Proof. apply upd_supply_tally. tally_tac. Qed.
Lemma add_cstaked_tally c x s s' : add_cstaked c x s = LOk s' -> fr_tally s s'.
Proof. apply upd_supply_tally. tally_tac. Qed.
Lemma sub_cstaked_tally c x s s' : sub_cstaked c x s = LOk s' -> fr_tally s s'.
Proof. apply upd_supply_tally. tally_tac. Qed.
Lemma add_cdelegated_tally c x s s' : add_cdelegated c x s = LOk s' -> fr_tally s s'.
Proof. apply upd_supply_tally. tally_tac. Qed.
Lemma sub_cdelegated_tally c x s s' : sub_cdelegated c x s = LOk s' -> fr_tally s s'.
Proof. apply upd_supply_tally. tally_tac. Qed.

Lemma fr_tally_refl s : fr_tally s s.
Proof. unfold fr_tally. do 5 (split; [reflexivity|]). auto. Qed.
Lemma fr_tally_trans s1 s2 s3 : fr_tally s1 s2 -> fr_tally s2 s3 -> fr_tally s1 s3.
Proof.
  unfold fr_tally. intros (A1 & A2 & A3 & A4 & A5 & A6) (B1 & B2 & B3 & B4 & B5 & B6).
  do 5 (split; [congruence|]). auto.
Qed.

Lemma each_tally f l : (forall c s s', f c s = LOk s' -> fr_tally s s') ->
  forall s s', each f l s = LOk s' -> fr_tally s s'.
Proof.
  intros Hf. induction l as [|c r IH]; intros s s' H; cbn [each] in H.
  - ok_inv H. apply fr_tally_refl.
  - bind_inv H. eapply fr_tally_trans; eauto.
Qed.

Lemma set_committees_tally x cs s s' : set_committees x cs s = LOk s' -> fr_tally s s'.
Proof. apply each_tally. intros c s0 s1. apply add_cstaked_tally. Qed.
Lemma delete_committees_tally x cs s s' : delete_committees x cs s = LOk s' -> fr_tally s s'.
Proof. apply each_tally. intros c s0 s1. apply sub_cstaked_tally. Qed.
Lemma set_delegations_tally x cs s s' : set_delegations x cs s = LOk s' -> fr_tally s s'.
Proof.
  apply each_tally. intros c s0 s1 H. bind_inv H.
  eapply fr_tally_trans; eauto using add_cdelegated_tally, add_cstaked_tally.
Qed.
Lemma delete_delegations_tally x cs s s' : delete_delegations x cs s = LOk s' -> fr_tally s s'.
Proof.
  apply each_tally. intros c s0 s1 H. bind_inv H.
  eapply fr_tally_trans; eauto using sub_cdelegated_tally, sub_cstaked_tally.
Qed.

Ltac tally1 := solve
  [ eapply add_staked_tally; eassumption | eapply sub_staked_tally; eassumption
  | eapply add_delegated_tally; eassumption | eapply sub_delegated_tally; eassumption
  | eapply set_committees_tally; eassumption | eapply delete_committees_tally; eassumption
  | eapply set_delegations_tally; eassumption | eapply delete_delegations_tally; eassumption ].
Ltac tally := first [ tally1 | eapply fr_tally_trans; [tally1 | tally] ].

Lemma Bal_tally e d s s' : fr_tally s s' -> Bal e d s -> Bal e d s'.
Proof.
  unfold fr_tally, Bal. intros (A1 & A2 & A3 & A4 & A5 & A6) (Hwf & HT & Hlt).
  rewrite A1, A2, A3, A5. auto.
Qed.

Lemma add_total_spec x s s' : add_total x s = LOk s' -> total s + x < two64 ->
  l_accounts s' = l_accounts s /\ l_pools s' = l_pools s /\ l_vals s' = l_vals s /\ l_orders s' = l_orders s /\
  total s' = total s + x /\ forall d, Bal 0 d s -> Bal 0 (d + x) s'.
Proof.
  unfold add_total, upd_supply. intros H Hb. bind_inv H. ok_inv E. ok_inv H. unfold total in *. psimpl.
  rewrite add64_exact by lia.
  do 5 (split; [reflexivity|]). intros d (Hwf & HT & Hlt). unfold Bal, wf, total in *. psimpl.
  split; [exact Hwf|]. split; lia.
Qed.

Lemma sub_total_spec x s s' : sub_total x s = LOk s' ->
  l_accounts s' = l_accounts s /\ l_pools s' = l_pools s /\ l_vals s' = l_vals s /\ l_orders s' = l_orders s /\
  total s' + x = total s /\ (forall e d, Bal e (d + x) s -> Bal e d s') /\ (forall e d, Bal e d s -> Bal (e + x) d s').
Proof.
  unfold sub_total, upd_supply. intros H. bind_inv H.
  destruct (N.ltb_spec (s_total (l_supply s)) x) as [Hlt|Hge]; [discriminate|].
  ok_inv E. ok_inv H. unfold total in *. psimpl.
  do 4 (split; [reflexivity|]). split; [lia|].
  split; intros e d (Hwf & HT & Hlt); unfold Bal, wf, total in *; psimpl; (split; [exact Hwf|]); split; lia.
Qed.

(* ---- validator records *)
Lemma put_val_bal a v' s e d d' : Bal e d s -> d + stake_of (aget a (l_vals s)) = d' + v_stake v' -> Bal e d' (put_val a v' s).
Proof.
  intros (Hwf & HT & Hlt) Hd. unfold Bal, wf, total in *. psimpl.
  destruct Hwf as (W1 & W2 & W3 & W4 & W5 & W6).
  pose proof (sum_stake_aput a v' _ W3).
  split; [|split]; [repeat split; auto using keys_sorted_aput | lia | lia].
Qed.

Lemma del_val_bal a s e d : Bal e d s -> Bal e (d + stake_of (aget a (l_vals s))) (set_vals (adel a (l_vals s)) s).
Proof.
  intros (Hwf & HT & Hlt). unfold Bal, wf, total in *. psimpl.
  destruct Hwf as (W1 & W2 & W3 & W4 & W5 & W6).
  pose proof (sum_stake_adel a (l_vals s)).
  split; [|split]; [repeat split; auto using keys_sorted_adel | lia | lia].
Qed.

Lemma Bal_set_unstaking e d u s : Bal e d (set_unstaking u s) <-> Bal e d s.
Proof. reflexivity. Qed.
Lemma Bal_set_paused e d u s : Bal e d (set_paused u s) <-> Bal e d s.
Proof. reflexivity. Qed.
Lemma Bal_set_orders e d o s : keys_sorted o -> Bal e d s -> Bal e d (set_orders o s).
Proof. unfold Bal, wf, total. psimpl. tauto. Qed.

Lemma fr_val_refl s : fr_val s s.
Proof. unfold fr_val; auto. Qed.
Lemma fr_val_trans s1 s2 s3 : fr_val s1 s2 -> fr_val s2 s3 -> fr_val s1 s3.
Proof. unfold fr_val. intros (A1 & A2 & A3 & A4) (B1 & B2 & B3 & B4). repeat split; congruence. Qed.
Lemma fr_tally_val s s' : fr_tally s s' -> fr_val s s'.
Proof. unfold fr_tally, fr_val. tauto. Qed.

Lemma update_validator_stake_spec a v cs add s s' v0 :
  update_validator_stake a v cs add s = LOk s' -> aget a (l_vals s) = Some v0 -> v_stake v0 = v_stake v ->
  fr_val s s' /\ forall d, Bal 0 (d + add) s -> Bal 0 d s'.
Proof.
  unfold update_validator_stake. intros H Hget Hst. bind_inv H. bind_inv H. ok_inv H.
  assert (T1 : fr_tally s s0) by eauto using add_staked_tally.
  assert (T2 : fr_tally s0 s1).
  { destruct (v_delegate v).
    - bind_inv E0. bind_inv E0. tally.
    - bind_inv E0. tally. }
  pose proof (fr_tally_trans _ _ _ T1 T2) as T.
  split.
  - apply fr_tally_val in T. unfold fr_val, total in *. psimpl. exact T.
  - intros d HB. pose proof (Bal_tally _ _ _ _ T HB) as HB1.
    destruct T as (_ & _ & Hv & _).
    apply put_val_bal with (d := d + add); auto. rewrite Hv, Hget. cbn [stake_of v_stake].
    destruct HB as (_ & HT & Hlt). pose proof (stake_le_sum _ _ _ Hget).
    rewrite add64_exact by lia. lia.
Qed.

Lemma delete_validator_spec a v s s' : delete_validator a v s = LOk s' ->
  fr_val s s' /\ l_vals s' = adel a (l_vals s) /\ forall e d, Bal e d s -> Bal e (d + stake_of (aget a (l_vals s))) s'.
Proof.
  unfold delete_validator. intros H. bind_inv H. bind_inv H. ok_inv H.
  assert (T1 : fr_tally s s0) by eauto using sub_staked_tally.
  assert (T2 : fr_tally s0 s1).
  { destruct (v_delegate v).
    - bind_inv E0. tally.
    - tally. }
  pose proof (fr_tally_trans _ _ _ T1 T2) as T.
  assert (Hv : l_vals s1 = l_vals s) by (destruct T as (_ & _ & Hv & _); exact Hv).
  split; [|split].
  - apply fr_tally_val in T. unfold fr_val, total in *.
    destruct (v_unstaking v =? 0), (v_paused v =? 0); psimpl; exact T.
  - destruct (v_unstaking v =? 0), (v_paused v =? 0); psimpl; now rewrite Hv.
  - intros e d HB. pose proof (Bal_tally _ _ _ _ T HB) as HB1. rewrite <- Hv.
    pose proof (del_val_bal a s1 e d HB1) as HB2.
    destruct (v_unstaking v =? 0), (v_paused v =? 0); exact HB2.
Qed.

(* status changes: the stored record is replaced by one of stake [v_stake v] *)
Definition restake (a : N) (st : N) (s s' : lstate) : Prop :=
  fr_val s s' /\ stake_of (aget a (l_vals s')) = st /\
  forall e d d', Bal e d s -> d + stake_of (aget a (l_vals s)) = d' + st -> Bal e d' s'.

Lemma put_val_restake a v s : restake a (v_stake v) s (put_val a v s).
Proof.
  unfold restake. split; [|split].
  - unfold fr_val, total. psimpl. auto.
  - psimpl. now rewrite aget_aput_same.
  - intros e d d' HB Hd. eapply put_val_bal; eauto.
Qed.

Lemma restake_trans a st s1 s2 s3 : restake a st s1 s2 -> restake a st s2 s3 -> restake a st s1 s3.
Proof.
  intros (F1 & G1 & B1) (F2 & G2 & B2). split; [|split]; eauto using fr_val_trans.
  intros e d d' HB Hd. apply (B2 e d' d').
  - apply (B1 e d); auto.
  - lia.
Qed.

Lemma restake_markers_u a st u s s' : restake a st (set_unstaking u s) s' -> restake a st s s'.
Proof. exact (fun H => H). Qed.
Lemma restake_markers_p a st u s s' : restake a st (set_paused u s) s' -> restake a st s s'.
Proof. exact (fun H => H). Qed.

Lemma set_unpaused_restake a v s : restake a (v_stake v) s (fst (set_unpaused a v s)) /\ v_stake (snd (set_unpaused a v s)) = v_stake v.
Proof.
  unfold set_unpaused. cbn [fst snd v_stake]. split; [|reflexivity].
  apply restake_markers_p with (u := marker_del (v_paused v) a (l_paused s)).
  exact (put_val_restake a (mkVal (v_stake v) (v_output v) (v_committees v) 0 (v_unstaking v) (v_delegate v) (v_compound v)) _).
Qed.

Lemma set_unstaking_val_restake a v h s : restake a (v_stake v) s (set_unstaking_val a v h s).
Proof.
  unfold set_unstaking_val.
  apply restake_markers_u with (u := marker_add h a (l_unstaking s)).
  destruct (v_paused v =? 0).
  - exact (put_val_restake a (mkVal (v_stake v) (v_output v) (v_committees v) (v_paused v) h (v_delegate v) (v_compound v)) _).
  - destruct (set_unpaused_restake a v (set_unstaking (marker_add h a (l_unstaking s)) s)) as [R1 R2].
    destruct (set_unpaused a v (set_unstaking (marker_add h a (l_unstaking s)) s)) as [s2 v2]. cbn [fst snd] in *.
    eapply restake_trans; [exact R1|]. rewrite <- R2.
    exact (put_val_restake a (mkVal (v_stake v2) (v_output v2) (v_committees v2) (v_paused v2) h (v_delegate v2) (v_compound v2)) _).
Qed.

Lemma set_paused_val_restake a v h s : restake a (v_stake v) s (set_paused_val a v h s).
Proof.
  unfold set_paused_val.
  apply restake_markers_p with (u := marker_add h a (l_paused s)).
  exact (put_val_restake a (mkVal (v_stake v) (v_output v) (v_committees v) h (v_unstaking v) (v_delegate v) (v_compound v)) _).
Qed.

(* ================= handlers ================= *)
Definition mint_of (m : lmsg) : N := match m with MDaoTransfer _ x true => x | _ => 0 end.
Definition msg_bounded (m : lmsg) : Prop :=
  match m with
  | MSend _ _ x | MSubsidy _ _ x | MDaoTransfer _ x _ | MCreateOrder _ _ _ x | MEditOrder _ _ x => x < two64
  | MStake _ _ _ x _ _ _ | MEditStake _ _ _ x _ _ => x < two64
  | _ => True
  end.

Lemma conclude s s' m : Bal 0 0 s' -> total s' = total s + m -> wf s' /\ Conserved s' /\ total s' = total s + m.
Proof. intros HB HT. apply Bal_0 in HB. tauto. Qed.

Ltac if_inv H :=
  match type of H with
  | (if ?c then LErr else _) = LOk _ => let E := fresh "C" in destruct c eqn:E; [discriminate H|]
  end.

(* the in-flight form, used again for the escrow identity *)
Lemma handle_bal m s s' : Bal 0 0 s -> total s + mint_of m < two64 ->
  handle m s = LOk s' -> Bal 0 0 s' /\ total s' = total s + mint_of m.
Proof.
  intros HB Hmint H. unfold handle in H. cbv zeta in H. destruct m; cbn [mint_of] in *.
  - (* MSend *)
    bind_inv H. destruct (account_sub_spec _ _ _ _ E) as [(_ & _ & _ & T1) B1].
    destruct (account_add_spec _ _ _ _ H) as [(_ & _ & _ & T2) (B2 & _)].
    split; [apply B2, (B1 0 0), HB | lia].
  - (* MStake *)
    destruct (aget addr (l_vals s)) eqn:Hget; [discriminate|]. if_inv H.
    bind_inv H. bind_inv H. bind_inv H. ok_inv H.
    destruct (account_sub_spec _ _ _ _ E) as [(_ & V1 & _ & T1) B1].
    assert (T : fr_tally s0 s2).
    { destruct delegate; [bind_inv E1|]; tally. }
    pose proof (Bal_tally _ _ _ _ T (B1 0 0 HB)) as HB2. destruct T as (_ & _ & V2 & _ & T2 & _).
    split.
    + eapply put_val_bal; [exact HB2|]. rewrite V2, V1, Hget. cbn [stake_of v_stake]. lia.
    + unfold total in *. psimpl. lia.
  - (* MEditStake *)
    destruct (aget addr (l_vals s)) as [v|] eqn:Hget; [|discriminate]. if_inv H. if_inv H.
    bind_inv H. destruct (account_sub_spec _ _ _ _ E) as [(_ & V1 & _ & T1) B1].
    rewrite <- V1 in Hget.
    destruct (update_validator_stake_spec _ _ _ _ _ _ _ H Hget eq_refl) as [(_ & _ & _ & T2) B2].
    split; [apply B2, (B1 0 0), HB | lia].
  - (* MUnstake *)
    destruct (aget addr (l_vals s)) as [v|] eqn:Hget; [|discriminate]. if_inv H. ok_inv H.
    destruct (set_unstaking_val_restake addr v (add64 (l_height s) (if v_delegate v then p_delegate_unstaking_blocks (l_params s) else p_unstaking_blocks (l_params s))) s)
      as ((_ & _ & _ & T1) & _ & B1).
    split; [|rewrite N.add_0_r; exact T1]. apply (B1 0 0 0 HB). rewrite Hget. reflexivity.
  - (* MPause *)
    destruct (aget addr (l_vals s)) as [v|] eqn:Hget; [|discriminate]. if_inv H. ok_inv H.
    destruct (set_paused_val_restake addr v (add64 (l_height s) (p_max_pause_blocks (l_params s))) s)
      as ((_ & _ & _ & T1) & _ & B1).
    split; [|rewrite N.add_0_r; exact T1]. apply (B1 0 0 0 HB). rewrite Hget. reflexivity.
  - (* MUnpause *)
    destruct (aget addr (l_vals s)) as [v|] eqn:Hget; [|discriminate]. if_inv H. ok_inv H.
    destruct (set_unpaused_restake addr v s) as [((_ & _ & _ & T1) & _ & B1) _].
    split; [|rewrite N.add_0_r; exact T1]. apply (B1 0 0 0 HB). rewrite Hget. reflexivity.
  - (* MSubsidy *)
    bind_inv H. destruct (account_sub_spec _ _ _ _ E) as [(_ & _ & _ & T1) B1].
    destruct (pool_add_spec _ _ _ _ H) as [(_ & _ & _ & T2) B2].
    split; [apply B2, (B1 0 0), HB | lia].
  - (* MDaoTransfer *)
    bind_inv H. bind_inv H.
    destruct (pool_sub_spec _ _ _ _ E0) as [(_ & _ & _ & T2) (B2 & _)].
    destruct (account_add_spec _ _ _ _ H) as [(_ & _ & _ & T3) (B3 & _)].
    destruct mint.
    + unfold mint_to_pool in E. bind_inv E.
      destruct (add_total_spec _ _ _ E1 Hmint) as (_ & _ & _ & _ & T0 & B0).
      destruct (pool_add_spec _ _ _ _ E) as [(_ & _ & _ & T1) B1].
      split; [|lia]. apply B3, (B2 0 0). apply B1. apply (B0 0 HB).
    + ok_inv E. split; [|lia]. apply B3, (B2 0 0), HB.
  - (* MCreateOrder *)
    if_inv H. bind_inv H. bind_inv H. ok_inv H.
    destruct (account_sub_spec _ _ _ _ E) as [(_ & _ & _ & T1) B1].
    destruct (pool_add_spec _ _ _ _ E0) as [(_ & _ & _ & T2) B2].
    destruct (B2 0 (B1 0 0 HB)) as [HB2 _].
    split.
    + apply Bal_set_orders; auto. apply keys_sorted_aput. apply HB2.
    + unfold total in *. psimpl. lia.
  - (* MEditOrder *)
    destruct (aget id (l_orders s)) as [o|] eqn:Hget; [|discriminate]. if_inv H. if_inv H. if_inv H.
    bind_inv H. ok_inv H.
    assert (HB1 : Bal 0 0 s0 /\ total s0 = total s).
    { destruct (o_amount o <? amount).
      - bind_inv E. destruct (account_sub_spec _ _ _ _ E0) as [(_ & _ & _ & T1) B1].
        destruct (pool_add_spec _ _ _ _ E) as [(_ & _ & _ & T2) B2].
        split; [apply B2, (B1 0 0), HB | lia].
      - destruct (amount <? o_amount o).
        + bind_inv E. destruct (pool_sub_spec _ _ _ _ E0) as [(_ & _ & _ & T1) (B1 & _)].
          destruct (account_add_spec _ _ _ _ E) as [(_ & _ & _ & T2) (B2 & _)].
          split; [apply B2, (B1 0 0), HB | lia].
        + ok_inv E. auto. }
    destruct HB1 as [HB1 T1]. split.
    + apply Bal_set_orders; auto. apply keys_sorted_aput. apply HB1.
    + unfold total in *. psimpl. lia.
  - (* MDeleteOrder *)
    destruct (aget id (l_orders s)) as [o|] eqn:Hget; [|discriminate]. if_inv H. if_inv H.
    bind_inv H. bind_inv H. ok_inv H.
    destruct (pool_sub_spec _ _ _ _ E) as [(_ & _ & _ & T1) (B1 & _)].
    destruct (account_add_spec _ _ _ _ E0) as [(_ & _ & _ & T2) (B2 & _)].
    pose proof (B2 0 0 (B1 0 0 HB)) as HB2.
    split.
    + apply Bal_set_orders; auto. apply keys_sorted_adel. apply HB2.
    + unfold total in *. psimpl. lia.
Qed.

Theorem handle_conserves m s s' : wf s -> Conserved s -> msg_bounded m -> total s + mint_of m < two64 ->
  handle m s = LOk s' -> wf s' /\ Conserved s' /\ total s' = total s + mint_of m.
Proof.
  intros Hwf Hc _ Hm H. destruct (handle_bal m s s') as [HB HT]; auto.
  - apply Bal_0; auto.
  - apply conclude; auto.
Qed.

Lemma apply_tx_false sender fee m s s' : apply_tx sender fee m s = (false, s') -> s' = s.
Proof.
  unfold apply_tx. destruct (s1 <- account_sub sender fee s;; s2 <- pool_add (l_chain s) fee s1;; handle m s2);
    intros H; inversion H; reflexivity.
Qed.

Lemma apply_tx_true sender fee m s s' : wf s -> Conserved s -> total s + mint_of m < two64 ->
  apply_tx sender fee m s = (true, s') -> wf s' /\ Conserved s' /\ total s' = total s + mint_of m.
Proof.
  intros Hwf Hc Hm. unfold apply_tx.
  destruct (s1 <- account_sub sender fee s;; s2 <- pool_add (l_chain s) fee s1;; handle m s2) as [s2|] eqn:H;
    intros Hp; inversion Hp; subst s2.
  bind_inv H. bind_inv H.
  assert (HB : Bal 0 0 s) by (apply Bal_0; auto).
  destruct (account_sub_spec _ _ _ _ E) as [(_ & _ & _ & T1) B1].
  destruct (pool_add_spec _ _ _ _ E0) as [(_ & _ & _ & T2) B2].
  destruct (B2 0 (B1 0 0 HB)) as [HB2 _].
  destruct (handle_bal m s1 s' HB2) as [HB3 T3]; auto. { lia. }
  apply Bal_0 in HB3. intuition lia.
Qed.

Theorem apply_tx_conserves sender fee m s : wf s -> Conserved s -> msg_bounded m -> fee < two64 -> total s + mint_of m < two64 ->
  let '(ok, s') := apply_tx sender fee m s in
  wf s' /\ Conserved s' /\ total s' = (if ok then total s + mint_of m else total s) /\ (ok = false -> s' = s).
Proof.
  intros Hwf Hc _ _ Hm. destruct (apply_tx sender fee m s) as [ok s'] eqn:H. destruct ok.
  - destruct (apply_tx_true _ _ _ _ _ Hwf Hc Hm H) as (A1 & A2 & A3).
    split; [exact A1|]. split; [exact A2|]. split; [exact A3|]. intros; discriminate.
  - apply apply_tx_false in H. subst s'. auto.
Qed.

(* a history of transactions: the total changes exactly by the DAO mints that were applied *)
Fixpoint apply_txs (txs : list (N * N * lmsg)) (s : lstate) : lstate * N :=
  match txs with
  | [] => (s, 0)
  | (sender, fee, m) :: r => let '(ok, s1) := apply_tx sender fee m s in
                             let '(s2, minted) := apply_txs r s1 in (s2, (if ok then mint_of m else 0) + minted)
  end.
Theorem apply_txs_conserves txs : forall s, wf s -> Conserved s ->
  Forall (fun t => let '(_, fee, m) := t in msg_bounded m /\ fee < two64) txs ->
  (forall minted s', apply_txs txs s = (s', minted) -> total s + minted < two64) ->
  let '(s', minted) := apply_txs txs s in wf s' /\ Conserved s' /\ total s' = total s + minted.
Proof.
  induction txs as [|[[sender fee] m] r IH]; intros s Hwf Hc HF Hb; cbn [apply_txs] in *.
  - split; [exact Hwf|]. split; [exact Hc|]. lia.
  - destruct (apply_tx sender fee m s) as [ok s1] eqn:H1.
    destruct (apply_txs r s1) as [s2 minted] eqn:H2.
    specialize (Hb _ _ eq_refl).
    assert (H' : wf s1 /\ Conserved s1 /\ total s1 = total s + (if ok then mint_of m else 0)).
    { destruct ok.
      - eapply apply_tx_true; eauto. lia.
      - apply apply_tx_false in H1. subst s1. split; [exact Hwf|]. split; [exact Hc|]. lia. }
    destruct H' as (Hwf1 & Hc1 & HT1).
    specialize (IH s1 Hwf1 Hc1). rewrite H2 in IH.
    destruct IH as (A1 & A2 & A3).
    + apply Forall_cons_iff in HF. apply HF.
    + intros minted' s'' Heq. inversion Heq; subst. lia.
    + split; [exact A1|]. split; [exact A2|]. lia.
Qed.

(* ================= slashing ================= *)
Lemma slash_after_le st p : st < two64 ->
  (if (100 <=? p) || (st =? 0) then 0 else if p =? 0 then st else SafeMulDiv st (100 - p) 100) <= st.
Proof.
  intros Hst. destruct ((100 <=? p) || (st =? 0)); [lia|]. destruct (p =? 0); [lia|].
  unfold SafeMulDiv. change (100 =? 0) with false. cbv beta iota zeta.
  assert (st * (100 - p) / 100 <= st) by (apply N.div_le_upper_bound; [lia | rewrite (N.mul_comm 100 st); apply N.mul_le_mono_l; lia]).
  rewrite wrap64_small by lia. assumption.
Qed.

Lemma Bal_same e d s : Bal e d s -> e = d -> wf s /\ Conserved s.
Proof. intros (Hwf & HT & Hlt) <-. unfold Conserved, total in *. split; [exact Hwf|]. lia. Qed.

Lemma slash_triv a s : wf s -> Conserved s ->
  wf s /\ Conserved s /\ total s <= total s /\
  total s - total s = stake_of (aget a (l_vals s)) - stake_of (aget a (l_vals s)).
Proof. intros Hwf Hc. rewrite !N.sub_diag. split; [exact Hwf|]. split; [exact Hc|]. split; [lia|reflexivity]. Qed.

Theorem slash_conserves a chain percent already s s' : wf s -> Conserved s ->
  slash_validator a chain percent already s = LOk s' ->
  wf s' /\ Conserved s' /\ total s' <= total s /\
  total s - total s' = (match aget a (l_vals s) with Some v => v_stake v | None => 0 end) -
                       (match aget a (l_vals s') with Some v => v_stake v | None => 0 end).
Proof.
  intros Hwf Hc H. change (wf s' /\ Conserved s' /\ total s' <= total s /\
    total s - total s' = stake_of (aget a (l_vals s)) - stake_of (aget a (l_vals s'))).
  assert (HB : Bal 0 0 s) by (apply Bal_0; auto).
  unfold slash_validator in H.
  destruct (aget a (l_vals s)) as [v|] eqn:Hget.
  2:{ ok_inv H. rewrite <- Hget. apply slash_triv; auto. }
  destruct (negb (existsb (N.eqb chain) (v_committees v))).
  { ok_inv H. rewrite <- Hget. apply slash_triv; auto. }
  cbv zeta in H.
  destruct (p_max_slash_per_committee (l_params s) <=? already).
  { ok_inv H. rewrite <- Hget. apply slash_triv; auto. }
  set (pc := if p_max_slash_per_committee (l_params s) <=? already + percent then p_max_slash_per_committee (l_params s) - already else percent) in H.
  set (after := if (100 <=? pc) || (v_stake v =? 0) then 0 else if pc =? 0 then v_stake v else SafeMulDiv (v_stake v) (100 - pc) 100) in H.
  assert (Hle : after <= v_stake v).
  { apply slash_after_le. pose proof (stake_le_sum _ _ _ Hget). destruct HB as (_ & HT & Hlt). lia. }
  clearbody after. clear pc. cbn [stake_of].
  bind_inv H.
  destruct (sub_total_spec _ _ _ E) as (_ & _ & V1 & _ & T1 & _ & B1).
  pose proof (B1 0 0 HB) as HB1. rewrite <- V1 in Hget.
  destruct (N.eqb_spec after 0) as [Hz|Hnz].
  - destruct (delete_validator_spec _ _ _ _ H) as ((_ & _ & _ & T2) & V2 & B2).
    pose proof (B2 _ _ HB1) as HB2. rewrite Hget in HB2. cbn [stake_of] in HB2.
    rewrite V2, aget_adel_same by apply HB1. cbn [stake_of].
    apply Bal_same in HB2; [|lia]. destruct HB2 as [W C]. subst after.
    split; [exact W|]. split; [exact C|]. lia.
  - bind_inv H. bind_inv H.
    assert (T : fr_tally s0 s2).
    { eapply fr_tally_trans; [eapply sub_staked_tally; eassumption|].
      destruct (v_delegate v).
      - bind_inv E1. bind_inv E1. tally.
      - bind_inv E1. tally. }
    pose proof (Bal_tally _ _ _ _ T HB1) as HB3.
    destruct T as (_ & _ & V3 & _ & T3 & _). rewrite <- V3 in Hget.
    assert (R : restake a after s2 s').
    { match type of H with (if ?c then _ else _) = _ => destruct c end; ok_inv H.
      - exact (set_unstaking_val_restake _ _ _ _).
      - exact (put_val_restake _ _ _). }
    destruct R as ((_ & _ & _ & T4) & G & B).
    pose proof (B _ _ (v_stake v - after) HB3) as HB4. rewrite Hget in HB4. cbn [stake_of] in HB4.
    specialize (HB4 ltac:(lia)). rewrite G.
    apply Bal_same in HB4; [|lia]. destruct HB4 as [W C].
    split; [exact W|]. split; [exact C|]. lia.
Qed.

(* ================= deferred end-block actions ================= *)
Definition finish_step (acc : res lstate) (e : N * N) : res lstate :=
  st <- acc ;;
  match aget (snd e) (l_vals st) with
  | None => LErr
  | Some v => st1 <- account_add (v_output v) (v_stake v) st ;; delete_validator (snd e) v st1
  end.

Lemma finish_fold_err due : fold_left finish_step due LErr = LErr.
Proof. induction due as [|e r IH]; cbn [fold_left]; auto. Qed.

Lemma finish_step_bal s e s' : Bal 0 0 s -> finish_step (LOk s) e = LOk s' -> Bal 0 0 s' /\ total s' = total s.
Proof.
  intros HB H. unfold finish_step in H. cbn [bind] in H.
  destruct (aget (snd e) (l_vals s)) as [v|] eqn:Hget; [|discriminate].
  bind_inv H. destruct (account_add_spec _ _ _ _ E) as [(_ & V1 & _ & T1) (_ & B1)].
  destruct (delete_validator_spec _ _ _ _ H) as ((_ & _ & _ & T2) & _ & B2).
  pose proof (B2 _ _ (B1 _ _ HB)) as HB2. rewrite V1, Hget in HB2. cbn [stake_of] in HB2.
  split; [|lia]. apply Bal_same in HB2; [|lia]. apply Bal_0. exact HB2.
Qed.

Lemma finish_fold_bal due : forall s s', Bal 0 0 s -> fold_left finish_step due (LOk s) = LOk s' ->
  Bal 0 0 s' /\ total s' = total s.
Proof.
  induction due as [|e r IH]; intros s s' HB H; cbn [fold_left] in H.
  - ok_inv H. auto.
  - destruct (finish_step (LOk s) e) as [s1|] eqn:E.
    + destruct (finish_step_bal _ _ _ HB E) as [HB1 T1].
      destruct (IH _ _ HB1 H) as [HB2 T2]. split; [exact HB2|lia].
    + rewrite finish_fold_err in H. discriminate.
Qed.

Theorem finish_unstaking_conserves s s' : wf s -> Conserved s -> delete_finished_unstaking s = LOk s' ->
  wf s' /\ Conserved s' /\ total s' = total s.
Proof.
  intros Hwf Hc H. assert (HB : Bal 0 0 s) by (apply Bal_0; auto).
  unfold delete_finished_unstaking in H. cbv zeta in H. bind_inv H. ok_inv H.
  change (fold_left finish_step (filter (fun e => fst e =? l_height s) (l_unstaking s)) (LOk s) = LOk s0) in E.
  destruct (finish_fold_bal _ _ _ HB E) as [HB1 T1].
  apply Bal_0 in HB1. destruct HB1 as [W C]. split; [exact W|]. split; [exact C|exact T1].
Qed.

Definition force_step (st : lstate) (e : N * N) : lstate :=
  match aget (snd e) (l_vals st) with
  | None => st
  | Some v => if negb (v_unstaking v =? 0) then st
              else set_unstaking_val (snd e) v (add64 (l_height st) (p_unstaking_blocks (l_params st))) st
  end.

Lemma force_step_bal s e : Bal 0 0 s -> Bal 0 0 (force_step s e) /\ total (force_step s e) = total s.
Proof.
  intros HB. unfold force_step. destruct (aget (snd e) (l_vals s)) as [v|] eqn:Hget; auto.
  destruct (negb (v_unstaking v =? 0)); auto.
  destruct (set_unstaking_val_restake (snd e) v (add64 (l_height s) (p_unstaking_blocks (l_params s))) s)
    as ((_ & _ & _ & T1) & _ & B1).
  split; [|exact T1]. apply (B1 0 0 0 HB). rewrite Hget. reflexivity.
Qed.

Lemma force_fold_bal due : forall s, Bal 0 0 s ->
  Bal 0 0 (fold_left force_step due s) /\ total (fold_left force_step due s) = total s.
Proof.
  induction due as [|e r IH]; intros s HB; cbn [fold_left]; auto.
  destruct (force_step_bal s e HB) as [HB1 T1]. destruct (IH _ HB1) as [HB2 T2]. split; [exact HB2|lia].
Qed.

Theorem force_unstake_conserves s s' : wf s -> Conserved s -> force_unstake_max_paused s = LOk s' ->
  wf s' /\ Conserved s' /\ total s' = total s.
Proof.
  intros Hwf Hc H. assert (HB : Bal 0 0 s) by (apply Bal_0; auto).
  unfold force_unstake_max_paused in H. cbv zeta in H. ok_inv H.
  change (fold_left _ (filter (fun e => fst e =? l_height s) (l_paused s)) s)
    with (fold_left force_step (filter (fun e => fst e =? l_height s) (l_paused s)) s).
  destruct (force_fold_bal (filter (fun e => fst e =? l_height s) (l_paused s)) s HB) as [HB1 T1].
  apply Bal_0 in HB1. destruct HB1 as [W C]. split; [exact W|]. split; [exact C|exact T1].
Qed.

(* ================= C20: escrow pools ================= *)
Definition escrow_sum (c : N) (s : lstate) : N :=
  fold_right (fun e acc => if o_chain (snd e) =? c then o_amount (snd e) + acc else acc) 0 (l_orders s).
Definition Escrow (s : lstate) : Prop :=
  forall c, c <= MaxChainId -> nget (add64 c EscrowPoolAddend) (l_pools s) = escrow_sum c s.
Definition msg_chain_ok (m : lmsg) : Prop :=
  match m with
  | MCreateOrder _ _ c _ | MEditOrder _ c _ | MDeleteOrder _ c => c <= MaxChainId
  | MSubsidy _ c _ => c <= MaxChainId            (* checkChainId in MessageSubsidy.Check: a subsidy cannot target an escrow pool id *)
  | _ => True
  end.
(* order ids are transaction hashes in the implementation: a created order never reuses the id of an open order *)
Definition msg_fresh (m : lmsg) (s : lstate) : Prop :=
  match m with MCreateOrder id _ _ _ => aget id (l_orders s) = None | _ => True end.

Definition ew (c : N) (o : order) : N := if o_chain o =? c then o_amount o else 0.
Lemma escrow_sum_wsum c s : escrow_sum c s = wsum (ew c) (l_orders s).
Proof.
  unfold escrow_sum, wsum. induction (l_orders s) as [|e r IH]; cbn [fold_right]; auto.
  rewrite IH. unfold ew. destruct (o_chain (snd e) =? c); lia.
Qed.
Lemma escrow_sum_ext c s s' : l_orders s' = l_orders s -> escrow_sum c s' = escrow_sum c s.
Proof. unfold escrow_sum. now intros ->. Qed.

Lemma esc_val c : c <= MaxChainId -> add64 c EscrowPoolAddend = c + 65535.
Proof. unfold MaxChainId, EscrowPoolAddend. intros H. apply add64_exact. unfold two64. lia. Qed.

Lemma pool_add_other id x s s' k : pool_add id x s = LOk s' -> k <> id -> nget k (l_pools s') = nget k (l_pools s).
Proof. unfold pool_add. intros H Hne. ok_inv H. psimpl. now apply nget_nput_other. Qed.
Lemma pool_sub_other id x s s' k : pool_sub id x s = LOk s' -> k <> id -> nget k (l_pools s') = nget k (l_pools s).
Proof.
  unfold pool_sub. intros H Hne. destruct (nget id (l_pools s) <? x); [discriminate|]. ok_inv H. psimpl.
  now apply nget_nput_other.
Qed.

Lemma Escrow_same s s' : l_pools s' = l_pools s -> l_orders s' = l_orders s -> Escrow s -> Escrow s'.
Proof. intros HP HO HE c Hc. rewrite HP, (escrow_sum_ext c s s' HO). auto. Qed.

Lemma update_validator_stake_fr a v cs add s s' : update_validator_stake a v cs add s = LOk s' -> fr_val s s'.
Proof.
  unfold update_validator_stake. intros H. bind_inv H. bind_inv H. ok_inv H.
  assert (T1 : fr_tally s s0) by tally.
  assert (T2 : fr_tally s0 s1).
  { destruct (v_delegate v).
    - bind_inv E0. bind_inv E0. tally.
    - bind_inv E0. tally. }
  pose proof (fr_tally_val _ _ (fr_tally_trans _ _ _ T1 T2)) as T.
  unfold fr_val, total in *. psimpl. exact T.
Qed.

Lemma handle_po_same m s s' : handle m s = LOk s' ->
  match m with
  | MSend _ _ _ | MStake _ _ _ _ _ _ _ | MEditStake _ _ _ _ _ _ | MUnstake _ | MPause _ | MUnpause _ =>
      l_pools s' = l_pools s /\ l_orders s' = l_orders s
  | _ => True
  end.
Proof.
  intros H. unfold handle in H. cbv zeta in H. destruct m; auto.
  - bind_inv H. destruct (account_sub_spec _ _ _ _ E) as [(P1 & _ & O1 & _) _].
    destruct (account_add_spec _ _ _ _ H) as [(P2 & _ & O2 & _) _]. split; congruence.
  - destruct (aget addr (l_vals s)); [discriminate|]. if_inv H.
    bind_inv H. bind_inv H. bind_inv H. ok_inv H.
    destruct (account_sub_spec _ _ _ _ E) as [(P1 & _ & O1 & _) _].
    assert (T : fr_tally s0 s2).
    { destruct delegate; [bind_inv E1|]; tally. }
    destruct T as (_ & P2 & _ & O2 & _). psimpl. split; congruence.
  - destruct (aget addr (l_vals s)) as [v|]; [|discriminate]. if_inv H. if_inv H.
    bind_inv H. destruct (account_sub_spec _ _ _ _ E) as [(P1 & _ & O1 & _) _].
    destruct (update_validator_stake_fr _ _ _ _ _ _ H) as (_ & P2 & O2 & _). split; congruence.
  - destruct (aget addr (l_vals s)) as [v|]; [|discriminate]. if_inv H. ok_inv H.
    destruct (set_unstaking_val_restake addr v (add64 (l_height s) (if v_delegate v then p_delegate_unstaking_blocks (l_params s) else p_unstaking_blocks (l_params s))) s)
      as ((_ & P1 & O1 & _) & _). auto.
  - destruct (aget addr (l_vals s)) as [v|]; [|discriminate]. if_inv H. ok_inv H.
    destruct (set_paused_val_restake addr v (add64 (l_height s) (p_max_pause_blocks (l_params s))) s)
      as ((_ & P1 & O1 & _) & _). auto.
  - destruct (aget addr (l_vals s)) as [v|]; [|discriminate]. if_inv H. ok_inv H.
    destruct (set_unpaused_restake addr v s) as [((_ & P1 & O1 & _) & _) _]. split; [exact P1|exact O1].
Qed.

Lemma pool_add_same id x s s' d : pool_add id x s = LOk s' -> Bal 0 (d + x) s ->
  nget id (l_pools s') = nget id (l_pools s) + x.
Proof.
  intros H HB. destruct (pool_add_spec _ _ _ _ H) as [_ B]. destruct (B d HB) as [_ ->].
  apply nget_nput_same. apply HB.
Qed.
Lemma pool_sub_same id x s s' : pool_sub id x s = LOk s' -> keys_sorted (l_pools s) ->
  nget id (l_pools s') + x = nget id (l_pools s).
Proof.
  intros H W. destruct (pool_sub_spec _ _ _ _ H) as (_ & _ & Hle & ->).
  rewrite nget_nput_same by exact W. lia.
Qed.

Lemma esc_inj c c' : c <= MaxChainId -> c' <= MaxChainId -> c <> c' -> add64 c EscrowPoolAddend <> add64 c' EscrowPoolAddend.
Proof. intros H H' Hne. rewrite !esc_val by auto. lia. Qed.

(* STATEMENT CHANGED: extra hypothesis [msg_fresh m s].  Without it the statement is false: MCreateOrder does not check
   that the id is unused, and re-creating an open order's id under another chain overwrites the order while the first
   chain's escrow pool keeps its tokens (pools [(65536,5)], orders [(9, chain 1, amount 5)], MCreateOrder 9 1 2 7). *)
Theorem handle_escrow m s s' : wf s -> Conserved s -> Escrow s -> msg_bounded m -> msg_chain_ok m ->
  (forall id o, aget id (l_orders s) = Some o -> o_chain o <= MaxChainId) ->
  l_chain s <= MaxChainId ->
  msg_fresh m s ->
  handle m s = LOk s' -> Escrow s'.
Proof.
  intros Hwf Hcons HE _ Hchain _ _ Hfresh H.
  assert (HB : Bal 0 0 s) by (apply Bal_0; auto).
  pose proof (handle_po_same m s s' H) as Hsame.
  destruct m; try (eapply Escrow_same; [apply Hsame|apply Hsame|exact HE]);
    clear Hsame; unfold handle in H; cbv zeta in H; cbn [msg_chain_ok msg_fresh] in *.
  - (* MSubsidy *)
    bind_inv H. destruct (account_sub_spec _ _ _ _ E) as [(P1 & _ & O1 & _) _].
    destruct (pool_add_spec _ _ _ _ H) as [(_ & _ & O2 & _) _].
    intros c Hc. rewrite (pool_add_other _ _ _ _ _ H), P1.
    + rewrite (escrow_sum_ext c s s') by congruence. auto.
    + rewrite esc_val by auto. unfold MaxChainId in *. lia.
  - (* MDaoTransfer *)
    bind_inv H. bind_inv H.
    destruct (pool_sub_spec _ _ _ _ E0) as ((_ & _ & O2 & _) & _).
    destruct (account_add_spec _ _ _ _ H) as [(P3 & _ & O3 & _) _].
    assert (Hne : forall c, c <= MaxChainId -> add64 c EscrowPoolAddend <> DAOPool).
    { intros c Hc. rewrite esc_val by auto. unfold MaxChainId, DAOPool in *. lia. }
    assert (H0 : l_orders s0 = l_orders s /\ forall c, c <= MaxChainId ->
                 nget (add64 c EscrowPoolAddend) (l_pools s0) = nget (add64 c EscrowPoolAddend) (l_pools s)).
    { destruct mint.
      - unfold mint_to_pool in E. bind_inv E.
        assert (A1 : l_pools s2 = l_pools s /\ l_orders s2 = l_orders s).
        { unfold add_total, upd_supply in E1. bind_inv E1. ok_inv E1. ok_inv E2. psimpl. auto. }
        destruct A1 as [P0 O0].
        destruct (pool_add_spec _ _ _ _ E) as [(_ & _ & O1 & _) _].
        split; [congruence|]. intros c Hc. rewrite (pool_add_other _ _ _ _ _ E) by auto. now rewrite P0.
      - ok_inv E. auto. }
    destruct H0 as [O0 P0].
    intros c Hc. rewrite P3, (pool_sub_other _ _ _ _ _ E0) by auto. rewrite P0 by auto.
    rewrite (escrow_sum_ext c s s') by congruence. auto.
  - (* MCreateOrder *)
    if_inv H. bind_inv H. bind_inv H. ok_inv H.
    destruct (account_sub_spec _ _ _ _ E) as [(P1 & _ & O1 & _) B1].
    destruct (pool_add_spec _ _ _ _ E0) as [(_ & _ & O2 & _) _].
    pose proof (B1 0 0 HB) as HB1.
    intros c Hc. rewrite escrow_sum_wsum. psimpl.
    assert (W : keys_sorted (l_orders s0)) by apply HB1.
    pose proof (wsum_aput (ew c) id (mkOrder chain amount seller false) (l_orders s1)) as HS.
    rewrite O2 in HS. specialize (HS W). rewrite O2. rewrite O1 in *. rewrite Hfresh in HS. cbn [wof] in HS.
    specialize (HE c Hc). rewrite escrow_sum_wsum in HE.
    assert (Hew : ew c (mkOrder chain amount seller false) = if chain =? c then amount else 0) by reflexivity.
    rewrite Hew in HS. destruct (N.eqb_spec chain c) as [Heq|Hne].
    + subst c. rewrite (pool_add_same _ _ _ _ _ E0 HB1), P1. lia.
    + rewrite (pool_add_other _ _ _ _ _ E0), P1 by (apply esc_inj; auto). lia.
  - (* MEditOrder *)
    destruct (aget id (l_orders s)) as [o|] eqn:Hget; [|discriminate]. if_inv H. if_inv H. if_inv H.
    bind_inv H. ok_inv H.
    apply negb_false_iff, N.eqb_eq in C.
    assert (W : keys_sorted (l_orders s)) by apply Hwf.
    assert (WP : keys_sorted (l_pools s)) by apply Hwf.
    assert (H0 : l_orders s0 = l_orders s /\
                 nget (add64 chain EscrowPoolAddend) (l_pools s0) + o_amount o = nget (add64 chain EscrowPoolAddend) (l_pools s) + amount /\
                 forall k, k <> add64 chain EscrowPoolAddend -> nget k (l_pools s0) = nget k (l_pools s)).
    { destruct (N.ltb_spec (o_amount o) amount) as [Hlt|Hge].
      - bind_inv E. destruct (account_sub_spec _ _ _ _ E0) as [(P1 & _ & O1 & _) B1].
        destruct (pool_add_spec _ _ _ _ E) as [(_ & _ & O2 & _) _].
        pose proof (B1 0 0 HB) as HB1.
        split; [congruence|]. split.
        + rewrite (pool_add_same _ _ _ _ _ E HB1), P1. lia.
        + intros k Hk. rewrite (pool_add_other _ _ _ _ _ E) by auto. now rewrite P1.
      - destruct (N.ltb_spec amount (o_amount o)) as [Hlt|Hge'].
        + bind_inv E. destruct (pool_sub_spec _ _ _ _ E0) as ((_ & _ & O1 & _) & _).
          destruct (account_add_spec _ _ _ _ E) as [(P2 & _ & O2 & _) _].
          pose proof (pool_sub_same _ _ _ _ E0 WP).
          split; [congruence|]. split.
          * rewrite P2. lia.
          * intros k Hk. rewrite P2. now apply (pool_sub_other _ _ _ _ _ E0).
        + ok_inv E. split; [reflexivity|]. split; [lia|auto]. }
    destruct H0 as (O0 & Psame & Pother).
    intros c Hc. rewrite escrow_sum_wsum. psimpl.
    pose proof (wsum_aput (ew c) id (mkOrder chain amount (o_seller o) false) (l_orders s0)) as HS.
    rewrite O0 in *. specialize (HS W). rewrite Hget in HS. cbn [wof] in HS.
    specialize (HE c Hc). rewrite escrow_sum_wsum in HE.
    assert (Hew : ew c (mkOrder chain amount (o_seller o) false) = if chain =? c then amount else 0) by reflexivity.
    assert (Hew' : ew c o = if chain =? c then o_amount o else 0) by (unfold ew; now rewrite C).
    rewrite Hew, Hew' in HS. destruct (N.eqb_spec chain c) as [Heq|Hne].
    + subst c. lia.
    + rewrite Pother by (apply esc_inj; auto). lia.
  - (* MDeleteOrder *)
    destruct (aget id (l_orders s)) as [o|] eqn:Hget; [|discriminate]. if_inv H. if_inv H.
    bind_inv H. bind_inv H. ok_inv H.
    apply negb_false_iff, N.eqb_eq in C.
    assert (WP : keys_sorted (l_pools s)) by apply Hwf.
    destruct (pool_sub_spec _ _ _ _ E) as ((_ & _ & O1 & _) & _).
    destruct (account_add_spec _ _ _ _ E0) as [(P2 & _ & O2 & _) _].
    pose proof (pool_sub_same _ _ _ _ E WP) as Psame.
    intros c Hc. rewrite escrow_sum_wsum. psimpl.
    pose proof (wsum_adel (ew c) id (l_orders s1)) as HS.
    rewrite O2, O1 in *. rewrite Hget in HS. cbn [wof] in HS.
    specialize (HE c Hc). rewrite escrow_sum_wsum in HE.
    assert (Hew' : ew c o = if chain =? c then o_amount o else 0) by (unfold ew; now rewrite C).
    rewrite Hew' in HS. rewrite P2. destruct (N.eqb_spec chain c) as [Heq|Hne].
    + subst c. lia.
    + rewrite (pool_sub_other _ _ _ _ _ E) by (apply esc_inj; auto). lia.
Qed.

(* ================= the two counterexamples behind the statement changes, machine-checked ================= *)
Definition cx_params : params := mkParams 0 0 0 0 0 0 0.
Definition cx_unsorted : lstate := mkL [(5, 10); (3, 10)] [] [] (mkSupply 20 0 0 [] []) [] [] [] cx_params 1 1.
Example nodup_keys_do_not_suffice :
  keys_nodup (l_accounts cx_unsorted) /\ conservation_ok cx_unsorted = true /\
  exists s', handle (MSend 3 7 4) cx_unsorted = LOk s' /\ conservation_ok s' = false /\ ~ keys_nodup (l_accounts s').
Proof.
  split; [|split; [reflexivity|]].
  - unfold keys_nodup. cbn. repeat constructor; cbn; intuition discriminate.
  - eexists. split; [vm_compute; reflexivity|]. split; [reflexivity|].
    unfold keys_nodup. cbn. intros H. inversion H as [|x l Hin _]. apply Hin. cbn. auto.
Qed.
Definition cx_reused_id : lstate :=
  mkL [(1, 100)] [(65536, 5)] [] (mkSupply 105 0 0 [] []) [] [] [(9, mkOrder 1 5 1 false)] cx_params 1 1.
Example create_order_needs_fresh_id :
  escrow_ok cx_reused_id = true /\ conservation_ok cx_reused_id = true /\
  exists s', handle (MCreateOrder 9 1 2 7) cx_reused_id = LOk s' /\ escrow_ok s' = false /\
             nget (add64 1 EscrowPoolAddend) (l_pools s') = 5 /\ escrow_sum 1 s' = 0.
Proof.
  split; [reflexivity|]. split; [reflexivity|].
  eexists. split; [vm_compute; reflexivity|]. repeat split; reflexivity.
Qed.

Print Assumptions handle_conserves.
Print Assumptions apply_txs_conserves.
Print Assumptions slash_conserves.
Print Assumptions finish_unstaking_conserves.
Print Assumptions force_unstake_conserves.
Print Assumptions handle_escrow.
