(* TxnProofs.v — lemmas for property C10 / C07 (transactions: own writes visible, deletes hide, discarded work vanishes,
   nested flush, merged iteration complete / ordered / duplicate-free) over model/Txn.v *)
From Coq Require Import NArith List Bool Lia Sorted.
From V Require Import U64 Bytes Extracted Keys KeysProofs Txn.
Import ListNotations.

(* ---------------------------------------------------------------- auxiliary: directed order, sortedness *)
Definition ltd (reverse : bool) (a b : bytes) : bool := if reverse then lex_lt b a else lex_lt a b.
Definition ksorted {A : Type} (reverse : bool) (l : list (bytes * A)) : Prop :=
  StronglySorted (fun a b => ltd reverse (fst a) (fst b) = true) l.

Lemma ltd_trans r a b c : ltd r a b = true -> ltd r b c = true -> ltd r a c = true.
Proof. destruct r; cbn [ltd]; intros H1 H2; eauto using lex_lt_trans. Qed.
Lemma ltd_irrefl r a : ltd r a a = false.
Proof. destruct r; apply lex_lt_irrefl. Qed.
Lemma ltd_asym r a b : ltd r a b = true -> ltd r b a = false.
Proof. destruct r; apply lex_lt_asym. Qed.
Lemma ltd_total r a b : ltd r a b = true \/ a = b \/ ltd r b a = true.
Proof. destruct r; cbn [ltd]; destruct (lex_lt_total a b) as [H|[H|H]]; auto. Qed.
Lemma ltd_neq r a b : ltd r a b = true -> a <> b.
Proof. intros H ->. rewrite ltd_irrefl in H. discriminate. Qed.

Lemma bytes_eqb_refl a : bytes_eqb a a = true.
Proof. now apply bytes_eqb_eq. Qed.
Lemma bytes_eqb_neq a b : bytes_eqb a b = false <-> a <> b.
Proof.
  split.
  - intros H ->. rewrite bytes_eqb_refl in H. discriminate.
  - intros H. destruct (bytes_eqb a b) eqn:E; [|reflexivity]. apply bytes_eqb_eq in E. contradiction.
Qed.

Lemma nth_sorted_iff (A : Type) (R : A -> A -> Prop) (l : list A) :
  (forall i j a b, (i < j)%nat -> nth_error l i = Some a -> nth_error l j = Some b -> R a b) <-> StronglySorted R l.
Proof.
  split.
  - induction l as [|x l IH]; intros H; constructor.
    + apply IH. intros i j a b Hij Ha Hb. apply (H (S i) (S j) a b); [lia|exact Ha|exact Hb].
    + apply Forall_forall. intros y Hy. apply In_nth_error in Hy. destruct Hy as [n Hn].
      apply (H 0%nat (S n) x y); [lia|reflexivity|exact Hn].
  - intros HS. induction HS as [|x l HS IH HF]; intros i j a b Hij Ha Hb.
    + destruct i; discriminate Ha.
    + destruct j as [|j]; [lia|]. cbn [nth_error] in Hb. destruct i as [|i].
      * cbn [nth_error] in Ha. injection Ha as <-. rewrite Forall_forall in HF. apply HF.
        eapply nth_error_In; eassumption.
      * cbn [nth_error] in Ha. apply (IH i j a b); [lia|assumption|assumption].
Qed.

Lemma ws_sorted_iff ws : ws_sorted ws <-> ksorted false ws.
Proof. unfold ws_sorted, ksorted. apply (nth_sorted_iff _ (fun a b => lex_lt (fst a) (fst b) = true)). Qed.
Lemma items_sorted_iff r l : items_sorted r l <-> ksorted r l.
Proof.
  unfold items_sorted, ksorted.
  rewrite <- (nth_sorted_iff _ (fun a b => ltd r (fst a) (fst b) = true)).
  destruct r; cbn [ltd]; reflexivity.
Qed.

Lemma ksorted_inv (A : Type) r (a : bytes * A) l : ksorted r (a :: l) ->
  ksorted r l /\ (forall e, In e l -> ltd r (fst a) (fst e) = true).
Proof. intros H. apply StronglySorted_inv in H. destruct H as [H1 H2]. rewrite Forall_forall in H2. auto. Qed.
Lemma ksorted_cons (A : Type) r (a : bytes * A) l : ksorted r l ->
  (forall e, In e l -> ltd r (fst a) (fst e) = true) -> ksorted r (a :: l).
Proof. intros H1 H2. constructor; [exact H1|]. apply Forall_forall. exact H2. Qed.

Lemma ksorted_filter (A : Type) r (f : bytes * A -> bool) l : ksorted r l -> ksorted r (filter f l).
Proof.
  induction l as [|a l IH]; intros H; [exact H|].
  apply ksorted_inv in H. destruct H as [H1 H2]. cbn [filter]. destruct (f a).
  - apply ksorted_cons; [auto|]. intros e He. apply filter_In in He. apply H2. tauto.
  - auto.
Qed.
Lemma ksorted_app (A : Type) r (l1 l2 : list (bytes * A)) : ksorted r l1 -> ksorted r l2 ->
  (forall a b, In a l1 -> In b l2 -> ltd r (fst a) (fst b) = true) -> ksorted r (l1 ++ l2).
Proof.
  induction l1 as [|x l1 IH]; intros H1 H2 H; [exact H2|].
  apply ksorted_inv in H1. destruct H1 as [H1 Hx]. cbn [app]. apply ksorted_cons.
  - apply IH; [assumption|assumption|]. intros a b Ha Hb. apply H; [now right|assumption].
  - intros e He. apply in_app_or in He. destruct He as [He|He]; [auto|]. apply H; [now left|assumption].
Qed.
Lemma ksorted_rev (A : Type) r (l : list (bytes * A)) : ksorted r l -> ksorted (negb r) (rev l).
Proof.
  induction l as [|x l IH]; intros H; [constructor|].
  apply ksorted_inv in H. destruct H as [H1 Hx]. cbn [rev]. apply ksorted_app.
  - auto.
  - apply ksorted_cons; [constructor|]. intros e [].
  - intros a b Ha Hb. destruct Hb as [<-|[]]. apply in_rev in Ha. specialize (Hx a Ha).
    destruct r; exact Hx.
Qed.

(* ---------------------------------------------------------------- write-sets *)
Lemma ws_find_update k o ws k' : ws_find k' (ws_update k o ws) = if bytes_eqb k' k then Some o else ws_find k' ws.
Proof.
  induction ws as [|[k0 o0] r IH]; cbn [ws_update ws_find]; [reflexivity|].
  destruct (bytes_eqb k k0) eqn:E.
  - apply bytes_eqb_eq in E. subst k0. cbn [ws_find]. destruct (bytes_eqb k' k); reflexivity.
  - destruct (lex_lt k k0); cbn [ws_find]; [reflexivity|].
    rewrite IH. destruct (bytes_eqb k' k) eqn:E1; [|reflexivity].
    apply bytes_eqb_eq in E1. subst k'. now rewrite E.
Qed.

Lemma ws_update_In k o ws e : In e (ws_update k o ws) -> e = (k, o) \/ In e ws.
Proof.
  induction ws as [|[k0 o0] r IH]; cbn [ws_update]; intros H.
  - destruct H as [H|[]]; auto.
  - destruct (bytes_eqb k k0).
    + destruct H as [H|H]; [auto|right; now right].
    + destruct (lex_lt k k0).
      * destruct H as [H|H]; auto.
      * destruct H as [H|H]; [right; now left|]. apply IH in H. destruct H; [auto|right; now right].
Qed.

Lemma ws_update_ksorted k o ws : ksorted false ws -> ksorted false (ws_update k o ws).
Proof.
  induction ws as [|[k0 o0] r IH]; intros H; cbn [ws_update].
  - apply ksorted_cons; [constructor|]. intros e [].
  - pose proof H as H0. apply ksorted_inv in H0. destruct H0 as [H1 H2].
    destruct (bytes_eqb k k0) eqn:E.
    + apply bytes_eqb_eq in E. subst k0. apply ksorted_cons; [assumption|exact H2].
    + destruct (lex_lt k k0) eqn:El.
      * apply ksorted_cons; [assumption|]. intros e [<-|He]; [exact El|].
        eapply ltd_trans; [exact El|]. apply (H2 e He).
      * apply ksorted_cons; [auto|]. intros e He. apply ws_update_In in He. destruct He as [->|He]; [|auto].
        cbn [fst ltd]. destruct (lex_lt_total k k0) as [Hl|[Hl|Hl]]; [congruence| |exact Hl].
        subst k0. rewrite bytes_eqb_refl in E. discriminate.
Qed.

Lemma ws_update_sorted k o ws : ws_sorted ws -> ws_sorted (ws_update k o ws).
Proof. rewrite !ws_sorted_iff. apply ws_update_ksorted. Qed.

(* own writes are visible, deletes hide, untouched keys fall through to the parent *)
Theorem txn_get_after_set ws pg k v k' : txn_get (ws_update k (WSet v) ws) pg k' = if bytes_eqb k' k then Some v else txn_get ws pg k'.
Proof. unfold txn_get. rewrite ws_find_update. destruct (bytes_eqb k' k); reflexivity. Qed.
Theorem txn_get_after_delete ws pg k k' : txn_get (ws_update k WDel ws) pg k' = if bytes_eqb k' k then None else txn_get ws pg k'.
Proof. unfold txn_get. rewrite ws_find_update. destruct (bytes_eqb k' k); reflexivity. Qed.
(* discarded work vanishes: Discard() empties the write-set *)
Theorem txn_get_discard pg k : txn_get [] pg k = pg k.
Proof. reflexivity. Qed.

Lemma ws_find_app k (a b : wset) : ws_find k (a ++ b) = match ws_find k a with Some o => Some o | None => ws_find k b end.
Proof.
  induction a as [|[k0 o0] a IH]; cbn [app ws_find]; [reflexivity|]. destruct (bytes_eqb k k0); auto.
Qed.
Lemma ws_find_In k ws o : ws_find k ws = Some o -> In (k, o) ws.
Proof.
  induction ws as [|[k0 o0] r IH]; cbn [ws_find]; [discriminate|].
  destruct (bytes_eqb k k0) eqn:E.
  - apply bytes_eqb_eq in E. subst k0. intros H. injection H as ->. now left.
  - intros H. right. auto.
Qed.
Lemma ws_find_None k ws : ws_find k ws = None <-> ~ In k (map fst ws).
Proof.
  induction ws as [|[k0 o0] r IH]; cbn [ws_find map In fst]; [tauto|].
  destruct (bytes_eqb k k0) eqn:E.
  - apply bytes_eqb_eq in E. subst k0. split; [discriminate|]. intros H. exfalso. apply H. now left.
  - apply bytes_eqb_neq in E. rewrite IH. split; [intros H [H1|H1]; [congruence|tauto]|tauto].
Qed.
Lemma ksorted_In_find r k o ws : ksorted r ws -> In (k, o) ws -> ws_find k ws = Some o.
Proof.
  induction ws as [|[k0 o0] l IH]; intros HS Hin; [destruct Hin|].
  apply ksorted_inv in HS. destruct HS as [H1 H2]. cbn [ws_find]. destruct Hin as [Hin|Hin].
  - injection Hin as -> ->. now rewrite bytes_eqb_refl.
  - destruct (bytes_eqb k k0) eqn:E; [|auto]. apply bytes_eqb_eq in E. subst k0.
    specialize (H2 _ Hin). cbn [fst] in H2. rewrite ltd_irrefl in H2. discriminate.
Qed.
Lemma ws_find_rev r k ws : ksorted r ws -> ws_find k (rev ws) = ws_find k ws.
Proof.
  intros HS. destruct (ws_find k ws) as [o|] eqn:E.
  - apply ws_find_In in E. apply (ksorted_In_find (negb r)); [now apply ksorted_rev|]. now apply in_rev in E.
  - apply ws_find_None. apply ws_find_None in E. intros H. apply E.
    rewrite in_map_iff in *. destruct H as [x [Hx Hi]]. exists x. split; [assumption|]. now apply in_rev.
Qed.

(* nesting: reading through a child over a parent = reading the parent after the child was flushed into it *)
Lemma ws_find_flush child parent k : ws_find k (ws_flush child parent) =
  match ws_find k (rev child) with Some o => Some o | None => ws_find k parent end.
Proof.
  unfold ws_flush. revert parent. induction child as [|[k0 o0] c IH]; intros parent; [reflexivity|].
  cbn [fold_left rev fst snd]. rewrite IH, ws_find_app, ws_find_update. cbn [ws_find].
  destruct (ws_find k (rev c)); [reflexivity|]. destruct (bytes_eqb k k0); reflexivity.
Qed.
Theorem txn_get_nested child parent base k : ws_sorted child ->
  txn_get child (txn_get parent base) k = txn_get (ws_flush child parent) base k.
Proof.
  intros HS. apply ws_sorted_iff in HS. unfold txn_get. rewrite ws_find_flush, (ws_find_rev false) by assumption.
  destruct (ws_find k child) as [[v|]|]; reflexivity.
Qed.
Lemma ws_flush_sorted child parent : ws_sorted parent -> ws_sorted (ws_flush child parent).
Proof.
  unfold ws_flush. revert parent. induction child as [|e c IH]; intros parent H; [exact H|].
  cbn [fold_left]. apply IH. now apply ws_update_sorted.
Qed.

(* ---------------------------------------------------------------- merged iteration *)
Definition key_ok (k : bytes) : Prop := wf_bytes k /\ k <> [] /\ (length k <= 256)%nat.

(* validity of the transaction iterator's head key, and the valid block at the start of a transaction item list *)
Definition validk (prefix k : bytes) : bool := match k with [] => false | _ => prefixb prefix k end.
Fixpoint tblock (prefix : bytes) (ts : wset) : wset :=
  match ts with
  | [] => []
  | (k, o) :: tr => if validk prefix k then (k, o) :: tblock prefix tr else []
  end.

Lemma txn_invalid_cons prefix k o tr : txn_invalid prefix ((k, o) :: tr) = negb (validk prefix k).
Proof. destruct k; reflexivity. Qed.

Lemma cmp_dir_spec r a b :
  match cmp_dir r a b with Lt => ltd r a b = true | Eq => a = b | Gt => ltd r b a = true end.
Proof.
  unfold cmp_dir. destruct (lex_lt a b) eqn:E1.
  - destruct r; cbn [CompOpp ltd]; exact E1.
  - destruct (lex_lt b a) eqn:E2.
    + destruct r; cbn [CompOpp ltd]; exact E2.
    + assert (a = b) by (destruct (lex_lt_total a b) as [H|[H|H]]; congruence).
      destruct r; cbn [CompOpp]; assumption.
Qed.

(* the sticky invalid flag cuts the transaction list to its valid block *)
Lemma merge_iter_block fuel reverse prefix : forall ps ts tinv,
  merge_iter fuel reverse prefix ps ts tinv =
  merge_iter fuel reverse prefix ps (if tinv then [] else tblock prefix ts) false.
Proof.
  induction fuel as [|f IH]; intros ps ts tinv; [reflexivity|].
  cbn [merge_iter]. destruct tinv.
  - cbn [orb txn_invalid]. destruct ps as [|[pk pv] pr]; [reflexivity|].
    rewrite (IH pr ts true), (IH pr [] true). reflexivity.
  - cbn [orb]. destruct ts as [|[k o] tr].
    + cbn [tblock txn_invalid]. reflexivity.
    + rewrite txn_invalid_cons. cbn [tblock]. destruct (validk prefix k) eqn:Ev; cbn [negb].
      * rewrite txn_invalid_cons, Ev. cbn [negb].
        assert (H1 : forall ps', merge_iter f reverse prefix ps' tr false =
                                 merge_iter f reverse prefix ps' (tblock prefix tr) false).
        { intros ps'. apply (IH ps' tr false). }
        assert (H2 : forall ps', merge_iter f reverse prefix ps' ((k, o) :: tr) false =
                                 merge_iter f reverse prefix ps' ((k, o) :: tblock prefix tr) false).
        { intros ps'. rewrite (IH ps' ((k, o) :: tr) false). cbn [tblock]. now rewrite Ev. }
        destruct ps as [|[pk pv] pr].
        -- destruct o; rewrite H1; reflexivity.
        -- destruct (cmp_dir reverse k pk); destruct o; rewrite ?H1, ?H2; reflexivity.
      * cbn [txn_invalid]. destruct ps as [|[pk pv] pr]; [reflexivity|].
        rewrite (IH pr ((k, o) :: tr) true), (IH pr [] true). reflexivity.
Qed.

Lemma merge_iter_sub fuel reverse prefix : forall ps ts tinv k v,
  In (k, v) (merge_iter fuel reverse prefix ps ts tinv) -> In (k, v) ps \/ In (k, WSet v) ts.
Proof.
  induction fuel as [|f IH]; intros ps ts tinv k v H; [destruct H|].
  cbn [merge_iter] in H.
  destruct ps as [|[pk pv] pr].
  - destruct (tinv || txn_invalid prefix ts); [destruct H|].
    destruct ts as [|[tk [v0|]] tr]; [destruct H| |].
    + destruct H as [H|H]; [injection H as -> ->; right; now left|].
      apply IH in H. destruct H as [H|H]; [auto|right; now right].
    + apply IH in H. destruct H as [H|H]; [auto|right; now right].
  - destruct (tinv || txn_invalid prefix ts).
    { destruct H as [H|H]; [left; now left|]. apply IH in H. destruct H as [H|H]; [left; now right|auto]. }
    destruct ts as [|[tk o] tr].
    { destruct H as [H|H]; [left; now left|]. apply IH in H. destruct H as [H|H]; [left; now right|auto]. }
    destruct (cmp_dir reverse tk pk).
    + destruct o as [v0|].
      * destruct H as [H|H]; [injection H as -> ->; right; now left|].
        apply IH in H. destruct H as [H|H]; [left; now right|right; now right].
      * apply IH in H. destruct H as [H|H]; [left; now right|right; now right].
    + destruct o as [v0|].
      * destruct H as [H|H]; [injection H as -> ->; right; now left|].
        apply IH in H. destruct H as [H|H]; [auto|right; now right].
      * apply IH in H. destruct H as [H|H]; [auto|right; now right].
    + destruct H as [H|H]; [left; now left|]. apply IH in H. destruct H as [H|H]; [left; now right|auto].
Qed.

Definition tvalid (prefix : bytes) (tb : wset) : Prop := forall e, In e tb -> validk prefix (fst e) = true.

Lemma tvalid_tail prefix a tb : tvalid prefix (a :: tb) -> tvalid prefix tb.
Proof. intros H e He. apply H. now right. Qed.

Lemma merge_iter_ksorted reverse prefix fuel : forall ps tb,
  ksorted reverse ps -> ksorted reverse tb -> tvalid prefix tb ->
  ksorted reverse (merge_iter fuel reverse prefix ps tb false).
Proof.
  induction fuel as [|f IH]; intros ps tb Hps Htb Hv; [constructor|].
  cbn [merge_iter orb].
  destruct tb as [|[tk o] tr].
  - cbn [txn_invalid]. destruct ps as [|[pk pv] pr]; [constructor|].
    rewrite merge_iter_block. apply ksorted_inv in Hps. destruct Hps as [Hpr Hpk].
    apply ksorted_cons; [apply IH; assumption|].
    intros [k v] He. apply merge_iter_sub in He. destruct He as [He|[]]. apply (Hpk _ He).
  - rewrite txn_invalid_cons. pose proof (Hv (tk, o) (or_introl eq_refl)) as Hvk. cbn [fst] in Hvk. rewrite Hvk. cbn [negb].
    pose proof (tvalid_tail _ _ _ Hv) as Hv'.
    pose proof Htb as Htb0. apply ksorted_inv in Htb0. destruct Htb0 as [Htr Htk].
    destruct ps as [|[pk pv] pr].
    + destruct o as [v0|]; [|apply IH; assumption].
      apply ksorted_cons; [apply IH; assumption|].
      intros [k v] He. apply merge_iter_sub in He. destruct He as [[]|He]. apply (Htk _ He).
    + pose proof Hps as Hps0. apply ksorted_inv in Hps0. destruct Hps0 as [Hpr Hpk].
      pose proof (cmp_dir_spec reverse tk pk) as Hc. destruct (cmp_dir reverse tk pk).
      * subst pk. destruct o as [v0|]; [|apply IH; assumption].
        apply ksorted_cons; [apply IH; assumption|].
        intros [k v] He. apply merge_iter_sub in He. destruct He as [He|He]; [apply (Hpk _ He)|apply (Htk _ He)].
      * destruct o as [v0|]; [|apply IH; assumption].
        apply ksorted_cons; [apply IH; assumption|].
        intros [k v] He. apply merge_iter_sub in He. destruct He as [He|He]; [|apply (Htk _ He)].
        destruct He as [He|He]; [injection He as <- <-; exact Hc|].
        eapply ltd_trans; [exact Hc|apply (Hpk _ He)].
      * apply ksorted_cons; [apply IH; assumption|].
        intros [k v] He. apply merge_iter_sub in He. destruct He as [He|He]; [apply (Hpk _ He)|].
        destruct He as [He|He]; [injection He as <- _; exact Hc|].
        eapply ltd_trans; [exact Hc|apply (Htk _ He)].
Qed.

Lemma in_map_fst (A : Type) (k : bytes) (x : A) l : In (k, x) l -> In k (map fst l).
Proof. intros H. apply in_map_iff. exists (k, x). auto. Qed.

Lemma merge_iter_mem reverse prefix fuel : forall ps tb,
  (length ps + length tb <= fuel)%nat -> ksorted reverse ps -> ksorted reverse tb -> tvalid prefix tb ->
  forall k v, In (k, v) (merge_iter fuel reverse prefix ps tb false) <->
              (In (k, WSet v) tb \/ (In (k, v) ps /\ ~ In k (map fst tb))).
Proof.
  induction fuel as [|f IH]; intros ps tb Hlen Hps Htb Hv k v.
  { destruct ps; [|cbn [length] in Hlen; lia]. destruct tb; [|cbn [length] in Hlen; lia]. cbn. tauto. }
  cbn [merge_iter orb].
  destruct tb as [|[tk o] tr].
  - cbn [txn_invalid]. destruct ps as [|[pk pv] pr]; [cbn; tauto|].
    rewrite merge_iter_block. apply ksorted_inv in Hps. destruct Hps as [Hpr Hpk].
    cbn [length] in Hlen. cbn [In map].
    rewrite (IH pr []) by (cbn [length]; try lia; assumption). cbn [In map]. tauto.
  - rewrite txn_invalid_cons. pose proof (Hv (tk, o) (or_introl eq_refl)) as Hvk. cbn [fst] in Hvk.
    rewrite Hvk. cbn [negb].
    pose proof (tvalid_tail _ _ _ Hv) as Hv'.
    pose proof Htb as Htb0. apply ksorted_inv in Htb0. destruct Htb0 as [Htr Htk].
    assert (Htk' : forall x, In x (map fst tr) -> ltd reverse tk x = true).
    { intros x Hx. apply in_map_iff in Hx. destruct Hx as [e [<- He]]. apply (Htk _ He). }
    cbn [length] in Hlen.
    destruct ps as [|[pk pv] pr].
    + destruct o as [v0|].
      * cbn [In map fst]. rewrite (IH [] tr) by (cbn [length]; try lia; assumption). cbn [In].
        split.
        -- intros [H|H]; [injection H as -> ->; auto|tauto].
        -- intros [[H|H]|H]; [injection H as -> ->; auto|tauto|tauto].
      * cbn [In map fst]. rewrite (IH [] tr) by (cbn [length]; try lia; assumption). cbn [In].
        split; [tauto|]. intros [[H|H]|H]; [discriminate H|tauto|tauto].
    + pose proof Hps as Hps0. apply ksorted_inv in Hps0. destruct Hps0 as [Hpr Hpk].
      assert (Hpk' : forall x y, In (x, y) pr -> ltd reverse pk x = true).
      { intros x y Hx. apply (Hpk _ Hx). }
      cbn [length] in Hlen.
      pose proof (cmp_dir_spec reverse tk pk) as Hc. destruct (cmp_dir reverse tk pk).
      * (* equal keys: the transaction shadows the parent *)
        subst pk. destruct o as [v0|].
        -- cbn [In map fst]. rewrite (IH pr tr) by (try lia; assumption).
           split.
           ++ intros [H|[H|[H1 H2]]]; [injection H as -> ->; auto|auto|].
              right. split; [auto|]. intros [H|H]; [|auto]. subst k. apply Hpk' in H1.
              rewrite ltd_irrefl in H1. discriminate.
           ++ intros [[H|H]|[[H|H] H2]]; [injection H as -> ->; auto|auto| |].
              ** injection H as -> ->. exfalso. apply H2. now left.
              ** right. right. split; [assumption|]. intros H3. apply H2. now right.
        -- cbn [In map fst]. rewrite (IH pr tr) by (try lia; assumption).
           split.
           ++ intros [H|[H1 H2]]; [auto|].
              right. split; [auto|]. intros [H|H]; [|auto]. subst k. apply Hpk' in H1.
              rewrite ltd_irrefl in H1. discriminate.
           ++ intros [[H|H]|[[H|H] H2]]; [discriminate H|auto| |].
              ** injection H as -> ->. exfalso. apply H2. now left.
              ** right. split; [assumption|]. intros H3. apply H2. now right.
      * (* transaction key first *)
        assert (Hne : forall x y, In (x, y) ((pk, pv) :: pr) -> tk <> x).
        { intros x y [H|H]; [injection H as <- _; now apply (ltd_neq reverse)|].
          apply (ltd_neq reverse). eapply ltd_trans; [exact Hc|]. apply (Hpk' _ _ H). }
        destruct o as [v0|].
        -- cbn [In map fst]. rewrite (IH ((pk, pv) :: pr) tr) by (cbn [length]; try lia; assumption).
           split.
           ++ intros [H|[H|[H1 H2]]]; [injection H as -> ->; auto|auto|].
              right. split; [exact H1|]. intros [H|H]; [|auto]. apply (Hne _ _ H1 H).
           ++ intros [[H|H]|[H1 H2]]; [injection H as -> ->; auto|auto|].
              right. right. split; [exact H1|]. intros H3. apply H2. now right.
        -- cbn [In map fst]. rewrite (IH ((pk, pv) :: pr) tr) by (cbn [length]; try lia; assumption).
           split.
           ++ intros [H|[H1 H2]]; [auto|].
              right. split; [exact H1|]. intros [H|H]; [|auto]. apply (Hne _ _ H1 H).
           ++ intros [[H|H]|[H1 H2]]; [discriminate H|auto|].
              right. split; [exact H1|]. intros H3. apply H2. now right.
      * (* parent key first *)
        assert (Hne : ~ In pk (map fst ((tk, o) :: tr))).
        { cbn [map fst]. intros [H|H]; [subst pk; rewrite ltd_irrefl in Hc; discriminate|].
          apply Htk' in H. pose proof (ltd_trans _ _ _ _ Hc H) as H0. rewrite ltd_irrefl in H0. discriminate. }
        cbn [In]. rewrite (IH pr ((tk, o) :: tr)) by (cbn [length]; try lia; assumption). cbn [In].
        split.
        -- intros [H|[H|[H1 H2]]]; [injection H as -> ->; right; split; [now left|exact Hne]|auto|].
           right. split; [now right|exact H2].
        -- intros [H|[[H|H] H2]]; [auto|auto|]. right. right. auto.
Qed.

(* ---- the start position: the valid block of [ts_start] is exactly the set of prefixed items of the write-set *)
Lemma tblock_filter r prefix ts : ksorted r ts ->
  (forall a b, In a ts -> In b ts -> validk prefix (fst a) = true -> validk prefix (fst b) = false ->
               ltd r (fst a) (fst b) = true) ->
  tblock prefix ts = filter (fun e => validk prefix (fst e)) ts.
Proof.
  induction ts as [|[k o] tr IH]; intros HS Hsep; [reflexivity|].
  apply ksorted_inv in HS. destruct HS as [HS Hk]. cbn [tblock filter fst].
  destruct (validk prefix k) eqn:Ev.
  - f_equal. apply IH; [assumption|]. intros a b Ha Hb. apply Hsep; now right.
  - symmetry.
    assert (Hall : forall e, In e tr -> validk prefix (fst e) = false).
    { intros e He. destruct (validk prefix (fst e)) eqn:Ee; [|reflexivity]. exfalso.
      pose proof (Hsep e (k, o) (or_intror He) (or_introl eq_refl) Ee Ev) as H1.
      pose proof (Hk e He) as H2. cbn [fst] in H1, H2. apply ltd_asym in H1. congruence. }
    clear - Hall. induction tr as [|a tr IH]; [reflexivity|]. cbn [filter].
    rewrite (Hall a) by now left. apply IH. intros e He. apply Hall. now right.
Qed.

Lemma validk_prefixb prefix k : validk prefix k = true -> prefixb prefix k = true.
Proof. destruct k; [discriminate|auto]. Qed.
Lemma validk_nonempty prefix k : k <> [] -> validk prefix k = prefixb prefix k.
Proof. destruct k; [congruence|reflexivity]. Qed.

Lemma tblock_In prefix ts e : In e (tblock prefix ts) -> In e ts.
Proof.
  induction ts as [|[k o] tr IH]; cbn [tblock]; [auto|]. destruct (validk prefix k); [|intros []].
  intros [H|H]; [now left|right; auto].
Qed.
Lemma tblock_valid prefix ts : tvalid prefix (tblock prefix ts).
Proof.
  induction ts as [|[k o] tr IH]; cbn [tblock]; [intros e []|]. destruct (validk prefix k) eqn:Ev; [|intros e []].
  intros e [<-|He]; [exact Ev|auto].
Qed.
Lemma tblock_ksorted r prefix ts : ksorted r ts -> ksorted r (tblock prefix ts).
Proof.
  induction ts as [|[k o] tr IH]; intros HS; cbn [tblock]; [constructor|].
  apply ksorted_inv in HS. destruct HS as [HS Hk]. destruct (validk prefix k); [|constructor].
  apply ksorted_cons; [auto|]. intros e He. apply Hk. eapply tblock_In; eassumption.
Qed.
Lemma tblock_length prefix ts : (length (tblock prefix ts) <= length ts)%nat.
Proof.
  induction ts as [|[k o] tr IH]; cbn [tblock length]; [lia|]. destruct (validk prefix k); cbn [length]; lia.
Qed.
Lemma filter_length_le' (A : Type) (f : A -> bool) l : (length (filter f l) <= length l)%nat.
Proof. induction l as [|a l IH]; cbn [filter length]; [lia|]. destruct (f a); cbn [length]; lia. Qed.
Lemma ts_start_length r prefix ws : (length (ts_start r prefix ws) <= length ws)%nat.
Proof. unfold ts_start. destruct r; [rewrite rev_length|]; apply filter_length_le'. Qed.
Lemma ts_start_ksorted r prefix ws : ksorted false ws -> ksorted r (ts_start r prefix ws).
Proof.
  intros HS. unfold ts_start. destruct r.
  - change true with (negb false). apply ksorted_rev. now apply ksorted_filter.
  - now apply ksorted_filter.
Qed.

Lemma prefixed_ge prefix k : prefixb prefix k = true -> lex_le prefix k = true.
Proof. intros H. apply prefixb_spec in H. destruct H as [s ->]. unfold lex_le. now rewrite lex_lt_app_nil_r. Qed.
Lemma prefixed_lt_end2 prefix k : key_ok k -> prefixb prefix k = true ->
  lex_lt k (prefix_end (prefix_end prefix)) = true.
Proof.
  intros [Hwf [_ Hlen]] H. apply prefixb_spec in H. destruct H as [s ->].
  unfold prefix_end. change (N.to_nat maxKeyBytes) with 256%nat.
  rewrite <- app_assoc, <- repeat_app, lex_lt_app_common.
  unfold wf_bytes in Hwf. apply Forall_app in Hwf. destruct Hwf as [_ Hs].
  apply lex_lt_repeat_bound; [exact Hs|]. rewrite app_length in Hlen. lia.
Qed.

Lemma ts_start_In r prefix ws k o : In (k, o) (ts_start r prefix ws) -> In (k, o) ws.
Proof.
  unfold ts_start. destruct r; [rewrite <- in_rev|]; intros H; apply filter_In in H; tauto.
Qed.
Lemma ts_start_In_prefixed r prefix ws k o : key_ok k -> prefixb prefix k = true -> In (k, o) ws ->
  In (k, o) (ts_start r prefix ws).
Proof.
  intros Hok Hp Hin. unfold ts_start. destruct r; [rewrite <- in_rev|]; apply filter_In; (split; [exact Hin|]); cbn [fst].
  - now apply prefixed_lt_end2.
  - now apply prefixed_ge.
Qed.

Lemma ts_start_sep r prefix ws : (forall e, In e ws -> key_ok (fst e)) ->
  forall a b, In a (ts_start r prefix ws) -> In b (ts_start r prefix ws) ->
    validk prefix (fst a) = true -> validk prefix (fst b) = false -> ltd r (fst a) (fst b) = true.
Proof.
  intros Hok [ka oa] [kb ob] Ha Hb Hva Hvb. cbn [fst] in *.
  assert (Hkb : prefixb prefix kb = false).
  { rewrite <- validk_nonempty; [exact Hvb|]. apply ts_start_In in Hb. apply Hok in Hb. apply Hb. }
  apply validk_prefixb in Hva. apply prefixb_spec in Hva. destruct Hva as [s ->].
  unfold ts_start in Hb. destruct r; cbn [ltd].
  - rewrite <- in_rev in Hb. apply filter_In in Hb. destruct Hb as [_ Hb]. cbn [fst] in Hb.
    destruct (lex_le prefix kb) eqn:Ele.
    + exfalso. unfold prefix_end in Hb. rewrite <- app_assoc in Hb.
      pose proof (range_prefix_aux _ _ _ Ele Hb) as Hp. apply prefixb_spec in Hp. congruence.
    + unfold lex_le in Ele. apply negb_false_iff in Ele.
      destruct (lex_lt_total prefix (prefix ++ s)) as [H|[H|H]].
      * eapply lex_lt_trans; eassumption.
      * rewrite <- H. exact Ele.
      * rewrite lex_lt_app_nil_r in H. discriminate.
  - apply filter_In in Hb. destruct Hb as [_ Hb]. cbn [fst] in Hb.
    destruct (lex_lt_total (prefix ++ s) kb) as [H|[H|H]]; [exact H| |].
    + subst kb. assert (Hp : prefixb prefix (prefix ++ s) = true) by (apply prefixb_spec; now exists s). congruence.
    + pose proof (range_prefix_aux _ _ _ Hb H) as Hp. apply prefixb_spec in Hp. congruence.
Qed.

(* members of the valid block = prefixed members of the write-set *)
Lemma tb_In r prefix ws k o : ksorted false ws -> (forall e, In e ws -> key_ok (fst e)) ->
  (In (k, o) (tblock prefix (ts_start r prefix ws)) <-> In (k, o) ws /\ prefixb prefix k = true).
Proof.
  intros HS Hok. rewrite (tblock_filter r).
  - rewrite filter_In. cbn [fst]. split.
    + intros [H1 H2]. split; [eapply ts_start_In; eassumption|now apply validk_prefixb].
    + intros [H1 H2]. pose proof (Hok _ H1) as Hk. cbn [fst] in Hk. split.
      * now apply ts_start_In_prefixed.
      * rewrite validk_nonempty; [exact H2|apply Hk].
  - now apply ts_start_ksorted.
  - now apply ts_start_sep.
Qed.

Lemma find_ksorted r (ps : list (bytes * bytes)) k v : ksorted r ps -> In (k, v) ps ->
  find (fun e => bytes_eqb (fst e) k) ps = Some (k, v).
Proof.
  induction ps as [|[k0 v0] l IH]; intros HS Hin; [destruct Hin|].
  apply ksorted_inv in HS. destruct HS as [H1 H2]. cbn [find fst]. destruct Hin as [Hin|Hin].
  - injection Hin as -> ->. now rewrite bytes_eqb_refl.
  - destruct (bytes_eqb k0 k) eqn:E; [|auto]. apply bytes_eqb_eq in E. subst k0.
    specialize (H2 _ Hin). cbn [fst] in H2. rewrite ltd_irrefl in H2. discriminate.
Qed.

(* the merged iterator yields, in iteration order and without duplicates, exactly the keys under the prefix that are visible
   through the overlay (transaction over parent): own writes shadow the parent, deletes hide *)
Theorem txn_iter_sorted reverse prefix ws ps : ws_sorted ws -> items_sorted reverse ps ->
  Forall (fun e => key_ok (fst e)) ws -> Forall (fun e => key_ok (fst e) /\ prefixb prefix (fst e) = true) ps ->
  wf_bytes prefix ->
  items_sorted reverse (txn_iter reverse prefix ws ps).
Proof.
  intros Hws Hps _ _ _. apply ws_sorted_iff in Hws. apply items_sorted_iff in Hps. apply items_sorted_iff.
  unfold txn_iter. rewrite merge_iter_block. apply merge_iter_ksorted.
  - exact Hps.
  - apply tblock_ksorted. now apply ts_start_ksorted.
  - apply tblock_valid.
Qed.

Theorem txn_iter_complete reverse prefix ws ps k v : ws_sorted ws -> items_sorted reverse ps ->
  Forall (fun e => key_ok (fst e)) ws -> Forall (fun e => key_ok (fst e) /\ prefixb prefix (fst e) = true) ps ->
  wf_bytes prefix -> (length prefix <= 256)%nat ->
  (In (k, v) (txn_iter reverse prefix ws ps) <->
   (prefixb prefix k = true /\ overlay ws ps k = Some v /\ (ws_find k ws <> None \/ In k (map fst ps)))).
Proof.
  intros Hws Hps Hwok Hpok _ _. apply ws_sorted_iff in Hws. apply items_sorted_iff in Hps.
  rewrite Forall_forall in Hwok, Hpok.
  unfold txn_iter. rewrite merge_iter_block.
  rewrite merge_iter_mem.
  2:{ pose proof (tblock_length prefix (ts_start reverse prefix ws)).
      pose proof (ts_start_length reverse prefix ws). lia. }
  2:{ exact Hps. }
  2:{ apply tblock_ksorted. now apply ts_start_ksorted. }
  2:{ apply tblock_valid. }
  pose proof (fun o => tb_In reverse prefix ws k o Hws Hwok) as Htb.
  unfold overlay, txn_get. split.
  - intros [H|[H1 H2]].
    + apply Htb in H. destruct H as [Hin Hp]. split; [exact Hp|].
      rewrite (ksorted_In_find false _ _ _ Hws Hin). split; [reflexivity|left; discriminate].
    + pose proof (Hpok _ H1) as [_ Hp]. cbn [fst] in Hp. split; [exact Hp|].
      assert (Hnone : ws_find k ws = None).
      { destruct (ws_find k ws) as [o|] eqn:E; [|reflexivity]. exfalso. apply H2.
        apply ws_find_In in E. apply (in_map_fst _ k o). apply Htb. auto. }
      rewrite Hnone, (find_ksorted reverse ps k v Hps H1). cbn [snd].
      split; [reflexivity|right; eapply in_map_fst; eassumption].
  - intros [Hp [Hov _]]. destruct (ws_find k ws) as [[v'|]|] eqn:E.
    + injection Hov as ->. left. apply Htb. split; [now apply ws_find_In|exact Hp].
    + discriminate Hov.
    + right. destruct (find (fun e => bytes_eqb (fst e) k) ps) as [[k0 v0]|] eqn:Ef; [|discriminate Hov].
      cbn [snd] in Hov. injection Hov as ->. apply find_some in Ef. destruct Ef as [Hin Heq].
      cbn [fst] in Heq. apply bytes_eqb_eq in Heq. subst k0. split; [exact Hin|].
      intros Hk. apply in_map_iff in Hk. destruct Hk as [[k1 o1] [Hk1 Hin1]]. cbn [fst] in Hk1. subst k1.
      apply Htb in Hin1. destruct Hin1 as [Hin1 _].
      rewrite (ksorted_In_find false _ _ _ Hws Hin1) in E. discriminate.
Qed.

Print Assumptions txn_iter_complete.
Print Assumptions txn_iter_sorted.
Print Assumptions txn_get_nested.
