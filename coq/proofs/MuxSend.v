(* MuxSend.v — the bounded topic send queue (Stream.queueSends): whatever the sequence of sends (accepted or timed out) and of
   drains by the send service, the packets that left the queue followed by those still in it are exactly the packets of the
   ACCEPTED messages, whole and in order; so the receiver delivers exactly the accepted messages.  And the counterexample for the
   queueing before the repair (a prefix of a message stayed queued when a later packet timed out). *)
From Coq Require Import NArith List Bool Arith Lia.
From V Require Import Bytes Mux MuxProofs.
Import ListNotations.

Lemma fill_spec : forall ps room q,
  fill room q ps = if Nat.leb (length ps) room then (q ++ ps, true) else (q ++ firstn room ps, false).
Proof.
  induction ps as [|p r IH]; intros room q; cbn [fill length].
  - cbn. now rewrite app_nil_r.
  - destruct room as [|room']; cbn [Nat.leb firstn].
    + now rewrite app_nil_r.
    + rewrite IH. destruct (Nat.leb (length r) room'); rewrite <- app_assoc; reflexivity.
Qed.

(* a send either appends all packets of the message or leaves the queue as it was *)
Lemma qsend_whole lim cap t q msg : (length (packets_of lim t msg) <= cap)%nat ->
  qsend lim cap t q msg = (q ++ packets_of lim t msg, true) \/ qsend lim cap t q msg = (q, false).
Proof.
  unfold qsend. destruct (packets_of lim t msg) as [|p [|p2 r]]; intros Hc.
  - cbn [length Nat.leb]. destruct (Nat.leb _ _); [left; reflexivity | right; reflexivity].
  - rewrite fill_spec. cbn [length]. destruct (Nat.leb 1 (cap - length q)) eqn:El; [left; reflexivity|right].
    apply Nat.leb_gt in El. assert (cap - length q = 0)%nat as -> by lia. cbn. now rewrite app_nil_r.
  - assert (Hl : Nat.leb (length (p :: p2 :: r)) cap = true) by (apply Nat.leb_le; exact Hc). rewrite Hl.
    destruct (Nat.leb (length q + length (p :: p2 :: r)) cap); [left|right]; reflexivity.
Qed.

Definition small (lim cap : nat) (t : N) (o : sop) : Prop :=
  match o with OSend m => (length (packets_of lim t m) <= cap)%nat | ODrain _ => True end.
Definition SInv (lim : nat) (t : N) (s : sstate) : Prop := ss_wire s ++ ss_queue s = queue_of lim t (ss_accepted s).

Lemma queue_of_app lim t a b : queue_of lim t (a ++ b) = queue_of lim t a ++ queue_of lim t b.
Proof. unfold queue_of. apply flat_map_app. Qed.

Lemma sstep_inv lim cap t s o : small lim cap t o -> SInv lim t s -> SInv lim t (sstep (qsend lim cap t) s o).
Proof.
  unfold SInv. intros Hs HI. destruct o as [m|k]; cbn [sstep].
  - destruct (qsend_whole lim cap t (ss_queue s) m Hs) as [E|E]; rewrite E; cbn [ss_wire ss_queue ss_accepted].
    + rewrite queue_of_app, <- HI. change (queue_of lim t [m]) with (packets_of lim t m ++ []). rewrite app_nil_r, app_assoc. reflexivity.
    + exact HI.
  - cbn [ss_wire ss_queue ss_accepted]. rewrite <- app_assoc, firstn_skipn. exact HI.
Qed.

Lemma fold_inv lim cap t : forall ops s, Forall (small lim cap t) ops -> SInv lim t s ->
  SInv lim t (fold_left (sstep (qsend lim cap t)) ops s).
Proof.
  induction ops as [|o r IH]; intros s Hf HI; cbn [fold_left]; [exact HI|].
  inversion Hf as [|? ? Ho Hr]; subst. apply IH; [exact Hr|]. now apply sstep_inv.
Qed.

(* every reachable state of the queue: wire ++ queue = the packets of the accepted messages, whole and in order *)
Theorem sender_whole lim cap t ops : Forall (small lim cap t) ops ->
  let s := srun (qsend lim cap t) ops in ss_wire s ++ ss_queue s = queue_of lim t (ss_accepted s).
Proof. intros Hf. apply (fold_inv lim cap t ops (mkSS [] [] []) Hf). reflexivity. Qed.

Lemma interleave_single {A} (q : list A) : interleave [q] q.
Proof.
  induction q as [|x q IH]; [apply il_nil; repeat constructor|].
  apply (il_step [] x q [] q). exact IH.
Qed.

(* end to end: once the queue has been drained, the receiver has delivered exactly the accepted messages (and is alive) *)
Theorem sender_receiver lim cap maxmsg t ops : (0 < lim)%nat -> Forall (small lim cap t) ops ->
  let s := srun (qsend lim cap t) ops in
  ss_queue s = [] -> Forall (fun m => (length m <= maxmsg)%nat) (ss_accepted s) ->
  snd (receive maxmsg [] (ss_wire s)) = true /\ on_topic t (fst (receive maxmsg [] (ss_wire s))) = ss_accepted s.
Proof.
  intros Hl Hf s Hq Hm. pose proof (sender_whole lim cap t ops Hf) as HW. cbv zeta in HW. fold s in HW. rewrite Hq, app_nil_r in HW.
  destruct (mux_delivers lim maxmsg [(t, ss_accepted s)] (ss_wire s) Hl) as [A B].
  - cbn. repeat constructor. intros [].
  - repeat constructor. exact Hm.
  - cbn [map fst snd]. rewrite HW. apply interleave_single.
  - split; [exact A|]. apply (B (t, ss_accepted s)). now left.
Qed.

(* the queueing before the repair: queue of 3 slots holding 2 packets, a 2-packet message is sent (the first packet takes the last
   slot, the second times out: the send fails), the queue is drained, the next message is sent and drained: the receiver delivers
   a message that was never sent *)
Definition old_ops : list sop := [OSend [1]; OSend [2]; OSend [3;4;5]; ODrain 3; OSend [9]; ODrain 3]%N.
Example old_partial_send_merges :
  let s := srun (qsend_old 2 3 5%N) old_ops in
  ss_accepted s = [[1]; [2]; [9]]%N /\ on_topic 5%N (fst (receive 100 [] (ss_wire s))) = [[1]; [2]; [3;4;9]]%N.
Proof. vm_compute. split; reflexivity. Qed.
Example new_send_whole :
  let s := srun (qsend 2 3 5%N) old_ops in
  ss_accepted s = [[1]; [2]; [9]]%N /\ on_topic 5%N (fst (receive 100 [] (ss_wire s))) = [[1]; [2]; [9]]%N.
Proof. vm_compute. split; reflexivity. Qed.
Example sender_nonvacuous : Forall (small 2 3 5%N) old_ops /\ ss_queue (srun (qsend 2 3 5%N) old_ops) = [].
Proof. split; [repeat constructor; cbn; lia | vm_compute; reflexivity]. Qed.

Print Assumptions sender_receiver.
