(* BftOldVariants.v — documentation of the two defects found while proving agreement (C01): the replica functions as they
   were BEFORE the fixes, selectable by flags, and for each defect a concrete adversarial execution (4 validators of power
   100, validator 3 Byzantine) that satisfies every hypothesis of BftSafety.agreement and makes two correct replicas commit
   different values.  With all flags off the variants are the functions of model/Bft.v.
   (1) keep_cache: the PROPOSE and PROPOSE_VOTE branches of [step] assigned the block without resetting the block-hash cache,
       so a PROPOSE vote carried the CACHED hash while SafeNode had been checked on the proposal's hash.
   (2) stale: getProposal returned a stored leader message whatever the root height of its certificate (the PACEMAKER refresh
       of the root height keeps the stored messages), so PRECOMMIT_VOTE could lock on a certificate of an older root height
       - the lock regressed; overwrite: adopting a lock from an ELECTION vote also overwrote Block / Results with what the
       sender attached, which is what lets the stale message pass CheckProposerAndProposal. *)
From Coq Require Import NArith List Bool Lia.
From V Require Import U64 Extracted Bft BftNet BftInv BftRunOk.
Import ListNotations.
Local Open Scope N_scope.

Section Variants.
Variables (keep_cache stale overwrite : bool).

Definition vget_prop (r : rstate) (round phase : N) : option lmsg :=
  match find (fun e => (fst (fst e) =? round) && (snd (fst e) =? phase)) (r_props r) with
  | Some e => if stale || (vw_root (q_view (m_qc (snd e))) =? r_root r) then Some (snd e) else None
  | None => None
  end.

Definition vrecv_vote (c : conf) (r : rstate) (v : vmsg) : rstate :=
  match r_commit r with Some _ => r | None =>
  if negb (is_validator c (v_from v)) then r else
  let r := if r_blk r =? 0 then r else touch r in
  if negb (v_sigok v) then r else
  if negb (vw_root (v_view v) =? r_root r) then r else
  if negb (vw_phase (v_view v) =? Phase_ELECTION_VOTE) then r else
  match v_high v with
  | None => r
  | Some h =>
    if negb (high_ok c h) then r else
    if (match r_lock r with None => true | Some l => view_less (q_view l) (q_view h) end)
    then mkR (r_root r) (r_round r) (r_phase r) (Some h) (if overwrite then v_cblk v else r_blk r) (r_bhc r)
             (if overwrite then v_cres v else r_res r) (r_proposer r) (r_props r) (r_commit r)
    else r
  end
  end.

Definition vstep (c : conf) (r : rstate) (o : oracle) : rstate * list out :=
  match r_commit r with Some _ => (r, []) | None =>
  let p := r_phase r in
  if p =? Phase_ELECTION then (next r, [])
  else if p =? Phase_ELECTION_VOTE then
    (next r, [OVote Phase_ELECTION_VOTE (r_root r) (r_round r) 0 0 (o_target o) (r_lock r)])
  else if p =? Phase_PROPOSE then
    if o_maj o then
      let r1 := mkR (r_root r) (r_round r) (r_phase r) (r_lock r) (fst (o_prop o)) (if keep_cache then r_bhc r else 0)
                    (snd (o_prop o)) (r_proposer r) (r_props r) (r_commit r) in
      (next (touch r1), [])
    else (next r, [])
  else if p =? Phase_PROPOSE_VOTE then
    match vget_prop r (r_round r) Phase_PROPOSE with
    | None => interrupt r
    | Some m =>
      let r1 := mkR (r_root r) (r_round r) (r_phase r) (r_lock r) (r_blk r) (r_bhc r) (r_res r) (Some (m_from m)) (r_props r) (r_commit r) in
      if (match r_lock r with Some l => negb (safe_node l m) | None => false end) then interrupt r1
      else if m_rcbuild m <? c_lru c then interrupt r1
      else if negb (o_valid o) then interrupt r1
      else
        let r2 := touch (mkR (r_root r) (r_round r) (r_phase r) (r_lock r) (q_block (m_qc m)) (if keep_cache then r_bhc r else 0)
                             (q_results (m_qc m)) (Some (m_from m)) (r_props r) (r_commit r)) in
        (next r2, [OVote Phase_PROPOSE_VOTE (r_root r) (r_round r) (block_hash r2) (r_res r2) (m_from m) None])
    end
  else if p =? Phase_PRECOMMIT then
    if (match r_proposer r with Some q => q =? c_self c | None => false end) && negb (o_maj o) then interrupt r else (next r, [])
  else if p =? Phase_PRECOMMIT_VOTE then
    match vget_prop r (r_round r) Phase_PRECOMMIT with
    | None => interrupt r
    | Some m =>
      if negb (check_pp r m) then interrupt (touch r)
      else
        let r1 := touch r in
        let r2 := mkR (r_root r1) (r_round r1) (r_phase r1) (Some (m_qc m)) (r_blk r1) (r_bhc r1) (r_res r1) (r_proposer r1) (r_props r1) (r_commit r1) in
        (next r2, [OVote Phase_PRECOMMIT_VOTE (r_root r) (r_round r) (block_hash r2) (r_res r2)
                         (match r_proposer r with Some q => q | None => 0 end) None])
    end
  else if p =? Phase_COMMIT then
    if (match r_proposer r with Some q => q =? c_self c | None => false end) && negb (o_maj o) then interrupt r else (next r, [])
  else if p =? Phase_COMMIT_PROCESS then
    match vget_prop r (r_round r) Phase_COMMIT with
    | None => interrupt r
    | Some m =>
      if negb (check_pp r m) then interrupt (touch r)
      else
        let r1 := touch r in
        let q := m_qc m in
        if (match qc_check c q with QFull => true | _ => false end) && (vw_phase (q_view q) =? Phase_PRECOMMIT_VOTE) &&
           (negb (r_blk r1 =? 0)) && (r_blk r1 =? q_block q) && (negb (r_res r1 =? 0)) && (r_res r1 =? q_results q)
        then (mkR (r_root r1) (r_round r1) (r_phase r1) (r_lock r1) (r_blk r1) (r_bhc r1) (r_res r1) (r_proposer r1) (r_props r1)
                  (Some (q_block q, q_results q)), [OCommit (q_block q) (q_results q)])
        else (r1, [ORefused])
    end
  else if p =? Phase_PACEMAKER then
    let round := r_round r + 1 in
    let round := if round <? o_jump o then o_jump o else round in
    (mkR (o_root o) round Phase_ELECTION (r_lock r) 0 0 0 None (r_props r) (r_commit r), [])
  else (next r, [])
  end.

Definition vnet_step (powers : list N) (lru : N) (n : net) (a : action) : net :=
  match a with
  | AStep i o => match get_rep n i with
                 | Some r => let '(r', outs) := vstep (conf_of powers lru i) r o in mkNet (set_rep n i r') (votes_of i outs ++ n_votes n)
                 | None => n
                 end
  | ALeader i m => match get_rep n i with
                   | Some r => mkNet (set_rep n i (recv_lmsg (conf_of powers lru i) r m)) (n_votes n)
                   | None => n
                   end
  | AVote i v => match get_rep n i with
                 | Some r => mkNet (set_rep n i (vrecv_vote (conf_of powers lru i) r v)) (n_votes n)
                 | None => n
                 end
  | ARoot i root => match get_rep n i with
                    | Some r => mkNet (set_rep n i (root_update r root)) (n_votes n)
                    | None => n
                    end
  end.
Fixpoint vrun (powers : list N) (lru : N) (n : net) (acts : list action) : net :=
  match acts with [] => n | a :: r => vrun powers lru (vnet_step powers lru n a) r end.
Fixpoint vrun_ok (powers : list N) (lru : N) (n : net) (acts : list action) : Prop :=
  match acts with [] => True | a :: r => action_ok n a /\ vrun_ok powers lru (vnet_step powers lru n a) r end.
Fixpoint vrun_okb (powers : list N) (lru : N) (n : net) (acts : list action) : bool :=
  match acts with [] => true | a :: r => action_okb n a && vrun_okb powers lru (vnet_step powers lru n a) r end.
Lemma vrun_okb_sound powers lru acts : forall n, vrun_okb powers lru n acts = true -> vrun_ok powers lru n acts.
Proof.
  induction acts as [|a acts IH]; intros n H; simpl in *; [exact I|].
  apply andb_true_iff in H. destruct H as [H1 H2]. split; [now apply action_okb_sound|now apply IH].
Qed.
End Variants.

(* with every flag off these are the functions of the model *)
Lemma vget_prop_fixed r rd ph : vget_prop false r rd ph = get_prop r rd ph.
Proof. reflexivity. Qed.
Lemma vrecv_vote_fixed c r v : vrecv_vote false c r v = recv_vote c r v.
Proof. reflexivity. Qed.
Lemma vstep_fixed c r o : vstep false false c r o = step c r o.
Proof. reflexivity. Qed.
Lemma vnet_step_fixed P lru n a : vnet_step false false false P lru n a = net_step P lru n a.
Proof. reflexivity. Qed.

Definition dP : list N := [100; 100; 100; 100].
Definition dI : net := init_net [(0, 5); (1, 5); (2, 5)].
Definition d_eq (R rd b s : N) : qc := mkQC (mkView R rd Phase_ELECTION_VOTE) b s 3 [0; 1; 2; 3] true.
Definition d_pq (R rd b s : N) (sg : list N) : qc := mkQC (mkView R rd Phase_PROPOSE_VOTE) b s 3 sg true.
Definition d_cq (R rd b s : N) (sg : list N) : qc := mkQC (mkView R rd Phase_PRECOMMIT_VOTE) b s 3 sg true.
Definition d_mP (R rd b s : N) (h : option qc) : lmsg := mkLM 3 true rd Phase_PROPOSE (d_eq R rd b s) true h 5.
Definition d_mPC (rd : N) (q : qc) : lmsg := mkLM 3 true rd Phase_PRECOMMIT q false None 5.
Definition d_mC (rd : N) (q : qc) : lmsg := mkLM 3 true rd Phase_COMMIT q false None 5.
Definition d_o (root jump : N) : oracle := mkO 3 false (0, 0) true root jump.
Definition rep (k : nat) (a : action) : list action := repeat a k.

(* ---- (1) the stale block-hash cache.  Round 0 at root height 5: everybody PROPOSE-votes (7,8); replicas 0 and 1 PRECOMMIT-vote
   and lock; replica 0 commits (7,8).  Round 1: replica 1 passes its PROPOSE phase as a leader whose own block is 9 (cache := 9),
   then receives a proposal for the locked (7,8) justified by its own lock: SafeNode passes, the vote says (9,8).  Unlocked
   replica 2 is proposed (9,8) directly.  With the Byzantine signature (9,8) gets both certificates and replica 2 commits it. *)
Definition d1_q4 := d_pq 5 0 7 8 [0; 1; 2].
Definition d1_q6 := d_cq 5 0 7 8 [0; 1; 3].
Definition d1_q4' := d_pq 5 1 9 8 [1; 2; 3].
Definition d1_q6' := d_cq 5 1 9 8 [1; 2; 3].
Definition d1_acts : list action :=
  let o := d_o 5 0 in
  [AStep 0 o; AStep 1 o; AStep 2 o; AStep 0 o; AStep 1 o; AStep 2 o; AStep 0 o; AStep 1 o; AStep 2 o;
   ALeader 0 (d_mP 5 0 7 8 None); ALeader 1 (d_mP 5 0 7 8 None); ALeader 2 (d_mP 5 0 7 8 None);
   AStep 0 o; AStep 1 o; AStep 2 o;
   AStep 0 o; AStep 1 o; ALeader 0 (d_mPC 0 d1_q4); ALeader 1 (d_mPC 0 d1_q4); AStep 0 o; AStep 1 o;
   AStep 0 o; ALeader 0 (d_mC 0 d1_q6); AStep 0 o;
   AStep 1 o; AStep 1 o; AStep 1 o; AStep 2 o; AStep 2 o; AStep 2 o;
   AStep 1 o; AStep 2 o; AStep 1 o; AStep 2 o;
   AStep 1 (mkO 3 true (9, 8) true 5 0); AStep 2 o;
   ALeader 1 (d_mP 5 1 7 8 (Some d1_q4)); ALeader 2 (d_mP 5 1 9 8 None); AStep 1 o; AStep 2 o;
   AStep 1 o; AStep 2 o; ALeader 1 (d_mPC 1 d1_q4'); ALeader 2 (d_mPC 1 d1_q4'); AStep 1 o; AStep 2 o;
   AStep 2 o; ALeader 2 (d_mC 1 d1_q6'); AStep 2 o].

Example old_cache_forks :
  vrun_ok true false false dP 0 dI d1_acts /\
  commits (vrun true false false dP 0 dI d1_acts) = [(0, (7, 8)); (2, (9, 8))] /\
  3 * byz_power dP [0; 1; 2] < fold_right N.add 0 dP.
Proof.
  split; [|split].
  - apply vrun_okb_sound. vm_compute. reflexivity.
  - vm_compute. reflexivity.
  - vm_compute. reflexivity.
Qed.

(* ---- (2) stale stored messages.  Replicas 0 and 2 PROPOSE-vote (7,8) at (root 5, round 3) and (11,12) at (5,4); replica 1,
   still at (5,0) and holding (7,8), stores the PRECOMMIT message of round 3 (certificate (7,8)@(5,3)), then its pacemaker
   refreshes the root height to 6, keeping the stored message; 0 and 2 follow by a root-chain update.  At (6,1) everybody votes
   (7,9); 0 and 1 lock; 0 commits (7,9).  At (6,3) replica 1 PROPOSE-votes the locked (7,9) again, adopts the certificate
   (7,9)@(6,3) from an ELECTION vote that overwrites its results with 8, and in PRECOMMIT_VOTE uses the stale message: it
   locks on (7,8)@(5,3).  At (6,4) the HighQC (11,12)@(5,4) is above that lock, so replica 1 votes (11,12); with unlocked
   replica 2 and the Byzantine signature (11,12) is committed by replica 2. *)
Definition d2_qv := d_pq 5 3 7 8 [0; 2; 3].
Definition d2_qz := d_pq 5 4 11 12 [0; 2; 3].
Definition d2_q1 := d_pq 6 1 7 9 [0; 1; 2].
Definition d2_c1 := d_cq 6 1 7 9 [0; 1; 3].
Definition d2_q3 := d_pq 6 3 7 9 [1; 2; 3].
Definition d2_q4z := d_pq 6 4 11 12 [1; 2; 3].
Definition d2_c4z := d_cq 6 4 11 12 [1; 2; 3].
Definition d2_acts : list action :=
  let o5 := d_o 5 in let o6 := d_o 6 in
  rep 4 (AStep 0 (o5 0)) ++ [AStep 0 (o5 3)] ++ rep 4 (AStep 2 (o5 0)) ++ [AStep 2 (o5 3)] ++
  rep 3 (AStep 0 (o5 0)) ++ rep 3 (AStep 2 (o5 0)) ++
  [ALeader 0 (d_mP 5 3 7 8 None); ALeader 2 (d_mP 5 3 7 8 None); AStep 0 (o5 0); AStep 2 (o5 0)] ++
  rep 3 (AStep 0 (o5 0)) ++ rep 3 (AStep 2 (o5 0)) ++
  rep 3 (AStep 0 (o5 0)) ++ rep 3 (AStep 2 (o5 0)) ++
  [ALeader 0 (d_mP 5 4 11 12 None); ALeader 2 (d_mP 5 4 11 12 None); AStep 0 (o5 0); AStep 2 (o5 0)] ++
  rep 3 (AStep 1 (o5 0)) ++ [ALeader 1 (d_mP 5 0 7 8 None); AStep 1 (o5 0); ALeader 1 (d_mPC 3 d2_qv)] ++
  rep 2 (AStep 1 (o5 0)) ++ [AStep 1 (o6 0)] ++
  [ARoot 0 6; ARoot 2 6] ++ rep 5 (AStep 0 (o6 0)) ++ rep 5 (AStep 2 (o6 0)) ++
  rep 3 (AStep 0 (o6 0)) ++ rep 3 (AStep 1 (o6 0)) ++ rep 3 (AStep 2 (o6 0)) ++
  [ALeader 0 (d_mP 6 1 7 9 None); ALeader 1 (d_mP 6 1 7 9 None); ALeader 2 (d_mP 6 1 7 9 None);
   AStep 0 (o6 0); AStep 1 (o6 0); AStep 2 (o6 0)] ++
  [AStep 0 (o6 0); AStep 1 (o6 0); ALeader 0 (d_mPC 1 d2_q1); ALeader 1 (d_mPC 1 d2_q1); AStep 0 (o6 0); AStep 1 (o6 0)] ++
  [AStep 0 (o6 0); ALeader 0 (d_mC 1 d2_c1); AStep 0 (o6 0)] ++
  rep 2 (AStep 1 (o6 0)) ++ [AStep 1 (o6 3)] ++ rep 2 (AStep 2 (o6 0)) ++ [AStep 2 (o6 3)] ++
  rep 3 (AStep 1 (o6 0)) ++ rep 3 (AStep 2 (o6 0)) ++
  [ALeader 1 (d_mP 6 3 7 9 (Some d2_q1)); ALeader 2 (d_mP 6 3 7 9 (Some d2_q1)); AStep 1 (o6 0); AStep 2 (o6 0)] ++
  [AVote 1 (mkVM 3 true (mkView 6 3 Phase_ELECTION_VOTE) 0 0 3 (Some d2_q3) 7 8); AStep 1 (o6 0); AStep 1 (o6 0)] ++
  rep 3 (AStep 1 (o6 0)) ++ rep 3 (AStep 2 (o6 0)) ++
  rep 3 (AStep 1 (o6 0)) ++ rep 3 (AStep 2 (o6 0)) ++
  [ALeader 1 (d_mP 6 4 11 12 (Some d2_qz)); ALeader 2 (d_mP 6 4 11 12 (Some d2_qz)); AStep 1 (o6 0); AStep 2 (o6 0)] ++
  [AStep 1 (o6 0); AStep 2 (o6 0); ALeader 1 (d_mPC 4 d2_q4z); ALeader 2 (d_mPC 4 d2_q4z); AStep 1 (o6 0); AStep 2 (o6 0)] ++
  [AStep 2 (o6 0); ALeader 2 (d_mC 4 d2_c4z); AStep 2 (o6 0)].

Example old_stale_message_forks :
  vrun_ok false true true dP 0 dI d2_acts /\
  commits (vrun false true true dP 0 dI d2_acts) = [(0, (7, 9)); (2, (11, 12))] /\
  3 * byz_power dP [0; 1; 2] < fold_right N.add 0 dP.
Proof.
  split; [|split].
  - apply vrun_okb_sound. vm_compute. reflexivity.
  - vm_compute. reflexivity.
  - vm_compute. reflexivity.
Qed.
