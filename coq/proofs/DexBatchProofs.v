(* DexBatchProofs.v — the same-block merge neither loses nor duplicates nor reorders an operation, and respects the caps. *)
From Coq Require Import NArith List Bool Arith Lia.
From V Require Import U64 Extracted DexBatch.
Import ListNotations.

Lemma can_move_le locked next max : (can_move locked next max <= next)%nat /\ (locked <= max -> locked + can_move locked next max <= max)%nat.
Proof.
  unfold can_move. destruct (Nat.eqb_spec next 0); cbn [orb]; [lia|].
  destruct (Nat.leb_spec max locked); [lia|].
  destruct (Nat.ltb_spec next (max - locked)); lia.
Qed.

Lemma move_app {A} k (l n : list A) : fst (move k l n) ++ snd (move k l n) = l ++ n.
Proof. unfold move; cbn [fst snd]. now rewrite <- app_assoc, firstn_skipn. Qed.

(* every list of the pair (locked', next') concatenates to the concatenation before: same operations, same order *)
Theorem merge_preserves mo md mw L Nx : forall L' N', include_same_block mo md mw L Nx = (L', N') ->
  db_orders L' ++ db_orders N' = db_orders L ++ db_orders Nx /\
  db_deposits L' ++ db_deposits N' = db_deposits L ++ db_deposits Nx /\
  db_withdrawals L' ++ db_withdrawals N' = db_withdrawals L ++ db_withdrawals Nx.
Proof.
  intros L' N'. unfold include_same_block.
  set (ko := can_move _ _ mo). set (kd := can_move _ _ md). set (kw := can_move _ _ mw).
  destruct (Nat.eqb ko 0 && Nat.eqb kd 0 && Nat.eqb kw 0).
  - intros H; inversion H; subst. auto.
  - pose proof (move_app ko (db_orders L) (db_orders Nx)) as Ho.
    pose proof (move_app kd (db_deposits L) (db_deposits Nx)) as Hd.
    pose proof (move_app kw (db_withdrawals L) (db_withdrawals Nx)) as Hw.
    unfold move in *. cbn [fst snd] in *.
    destruct (skipn ko (db_orders Nx)) as [|o1 ro] eqn:Eo;
    destruct (skipn kd (db_deposits Nx)) as [|d1 rd] eqn:Ed;
    destruct (skipn kw (db_withdrawals Nx)) as [|w1 rw] eqn:Ew;
    intros H; inversion H; subst; cbn [db_orders db_deposits db_withdrawals db_empty]; auto.
Qed.

(* the caps: a list of the locked batch that respected its cap still does *)
Theorem merge_caps mo md mw L Nx : forall L' N', include_same_block mo md mw L Nx = (L', N') ->
  (length (db_orders L) <= mo -> length (db_orders L') <= mo)%nat /\
  (length (db_deposits L) <= md -> length (db_deposits L') <= md)%nat /\
  (length (db_withdrawals L) <= mw -> length (db_withdrawals L') <= mw)%nat.
Proof.
  intros L' N'. unfold include_same_block.
  set (ko := can_move _ _ mo). set (kd := can_move _ _ md). set (kw := can_move _ _ mw).
  destruct (Nat.eqb ko 0 && Nat.eqb kd 0 && Nat.eqb kw 0).
  - intros H; inversion H; subst. auto.
  - unfold move.
    assert (Ho := can_move_le (length (db_orders L)) (length (db_orders Nx)) mo).
    assert (Hd := can_move_le (length (db_deposits L)) (length (db_deposits Nx)) md).
    assert (Hw := can_move_le (length (db_withdrawals L)) (length (db_withdrawals Nx)) mw).
    fold ko in Ho. fold kd in Hd. fold kw in Hw.
    assert (E : forall (k : nat) (l n : list N), (k <= length n)%nat -> length (l ++ firstn k n) = (length l + k)%nat).
    { intros k l n Hk. rewrite app_length, firstn_length. lia. }
    destruct (skipn ko (db_orders Nx)); destruct (skipn kd (db_deposits Nx)); destruct (skipn kw (db_withdrawals Nx));
      intros H; inversion H; subst; cbn [db_orders db_deposits db_withdrawals];
      rewrite !E by tauto; repeat split; intros; lia.
Qed.

(* if everything fits, the next batch ends empty *)
Theorem merge_drains_when_fits mo md mw L Nx : forall L' N', include_same_block mo md mw L Nx = (L', N') ->
  (length (db_orders L) + length (db_orders Nx) <= mo)%nat ->
  (length (db_deposits L) + length (db_deposits Nx) <= md)%nat ->
  (length (db_withdrawals L) + length (db_withdrawals Nx) <= mw)%nat ->
  N' = db_empty \/ (N' = Nx /\ L' = L /\ db_orders Nx = [] /\ db_deposits Nx = [] /\ db_withdrawals Nx = []).
Proof.
  intros L' N'. unfold include_same_block.
  set (ko := can_move _ _ mo). set (kd := can_move _ _ md). set (kw := can_move _ _ mw).
  intros H Fo Fd Fw.
  assert (C : forall locked next max, (locked + next <= max)%nat -> can_move locked next max = next).
  { intros locked next max Hf. unfold can_move. destruct (Nat.eqb_spec next 0); cbn [orb]; [lia|].
    destruct (Nat.leb_spec max locked); [lia|]. destruct (Nat.ltb_spec next (max - locked)); lia. }
  assert (Eo : ko = length (db_orders Nx)) by (apply C; exact Fo).
  assert (Ed : kd = length (db_deposits Nx)) by (apply C; exact Fd).
  assert (Ew : kw = length (db_withdrawals Nx)) by (apply C; exact Fw).
  destruct (Nat.eqb ko 0 && Nat.eqb kd 0 && Nat.eqb kw 0) eqn:Z.
  - inversion H; subst. right. apply andb_prop in Z. destruct Z as [Z Z3]. apply andb_prop in Z. destruct Z as [Z1 Z2].
    apply Nat.eqb_eq in Z1, Z2, Z3. rewrite Eo in Z1. rewrite Ed in Z2. rewrite Ew in Z3.
    repeat split; now apply length_zero_iff_nil.
  - unfold move in H. rewrite Eo, Ed, Ew, !skipn_all in H. inversion H. now left.
Qed.
