(* DexProofs.v — lemmas for property C20 (AMM arithmetic and liquidity-point bookkeeping) over model/Dex.v.
   SafeComputeDY / SafeMulDiv / SqrtProductUint64 are the definitions GENERATED from the Go source (gen/Extracted.v). *)
From Coq Require Import NArith List Bool Lia ZArith ZifyN ZifyNat ZifyBool.
From V Require Import U64 Extracted Dex.
Import ListNotations.
Local Open Scope N_scope.

Definition u64 (x : N) : Prop := x < two64.

Lemma wrap64_le x : wrap64 x <= x.
Proof. unfold wrap64. apply N.mod_le. discriminate. Qed.

Lemma SafeMulDiv_unfold a b c : c <> 0 -> SafeMulDiv a b c = wrap64 (a * b / c).
Proof. intros Hc. unfold SafeMulDiv. destruct (N.eqb_spec c 0) as [E|E]; [contradiction|reflexivity]. Qed.

Lemma SafeMulDiv_zero a b : SafeMulDiv a b 0 = 0.
Proof. reflexivity. Qed.

Lemma SafeMulDiv_mul_le a b c : SafeMulDiv a b c * c <= a * b.
Proof.
  destruct (N.eq_dec c 0) as [->|Hc]; [rewrite SafeMulDiv_zero; lia|].
  rewrite SafeMulDiv_unfold by exact Hc.
  pose proof (wrap64_le (a * b / c)) as H1.
  pose proof (N.mul_div_le (a * b) c Hc) as H2.
  nia.
Qed.

(* ---------------------------------------------------------------- AMM algebra *)
Lemma SafeMulDiv_exact a b c : u64 a -> u64 b -> u64 c -> c <> 0 -> a * b / c < two64 -> SafeMulDiv a b c = a * b / c.
Proof. intros _ _ _ Hc H. rewrite SafeMulDiv_unfold by exact Hc. apply wrap64_small, H. Qed.

(* pro-rata: (a*b)/c <= a whenever b <= c *)
Lemma SafeMulDiv_le a b c : u64 a -> u64 b -> u64 c -> b <= c -> SafeMulDiv a b c <= a.
Proof.
  intros _ _ _ Hbc.
  destruct (N.eq_dec c 0) as [->|Hc]; [rewrite SafeMulDiv_zero; lia|].
  rewrite SafeMulDiv_unfold by exact Hc.
  eapply N.le_trans; [apply wrap64_le|].
  apply N.div_le_upper_bound; [exact Hc|]. nia.
Qed.

Lemma dy_unfold x y dX : SafeComputeDY x y dX = wrap64 ((dX * 990 * y) / (x * 1000 + dX * 990)).
Proof. reflexivity. Qed.

Lemma dy_quot_le x y dX : 0 < x -> (dX * 990 * y) / (x * 1000 + dX * 990) <= y.
Proof. intros Hx. apply N.div_le_upper_bound; [lia|]. nia. Qed.

Lemma dy_quot_lt x y dX : 0 < x -> 0 < y -> (dX * 990 * y) / (x * 1000 + dX * 990) < y.
Proof. intros Hx Hy. apply N.div_lt_upper_bound; [lia|]. nia. Qed.

Lemma dy_formula x y dX : u64 x -> u64 y -> u64 dX -> 0 < x ->
  SafeComputeDY x y dX = (dX * 990 * y) / (x * 1000 + dX * 990).
Proof.
  intros _ Hy _ Hx. rewrite dy_unfold. apply wrap64_small.
  pose proof (dy_quot_le x y dX Hx). unfold u64 in Hy. lia.
Qed.

(* a swap never pays out the whole reserve, let alone more *)
Theorem dy_lt_reserve x y dX : u64 x -> u64 y -> u64 dX -> 0 < x -> 0 < y -> SafeComputeDY x y dX < y.
Proof.
  intros Hx Hy HdX Hx0 Hy0. rewrite dy_formula by assumption. apply dy_quot_lt; assumption.
Qed.

Lemma product_aux x z q dX : (x * 1000 + dX * 990) * q <= dX * 990 * (z + q) -> x * (z + q) <= (x + dX) * z.
Proof. intros H. nia. Qed.

(* ... and never lowers the product of the reserves *)
Theorem product_nondecreasing x y dX : u64 x -> u64 y -> u64 dX -> 0 < x -> 0 < y ->
  x * y <= (x + dX) * (y - SafeComputeDY x y dX).
Proof.
  intros Hx Hy HdX Hx0 Hy0. rewrite dy_formula by assumption.
  pose proof (dy_quot_lt x y dX Hx0 Hy0) as Hlt.
  assert (HD : x * 1000 + dX * 990 <> 0) by lia.
  pose proof (N.mul_div_le (dX * 990 * y) _ HD) as Hm.
  set (q := dX * 990 * y / (x * 1000 + dX * 990)) in *.
  assert (Ey : y = (y - q) + q) by lia.
  set (z := y - q) in *. rewrite Ey in Hm. rewrite Ey at 1.
  apply product_aux. exact Hm.
Qed.

(* one loop iteration *)
Theorem swap1_inv x y o x' y' r : u64 x -> u64 y -> u64 (o_amount o) -> 0 < x -> 0 < y ->
  swap1 x y o = Some (x', y', r) ->
  u64 x' /\ u64 y' /\ 0 < x' /\ 0 < y' /\ x * y <= x' * y' /\ y' + r = y /\
  (r = 0 \/ o_requested o <= r) /\ (r = 0 -> x' = x) /\ (r <> 0 -> x' = x + o_amount o).
Proof.
  intros Hx Hy HdX Hx0 Hy0. unfold swap1.
  pose proof (dy_lt_reserve x y (o_amount o) Hx Hy HdX Hx0 Hy0) as Hlt.
  pose proof (product_nondecreasing x y (o_amount o) Hx Hy HdX Hx0 Hy0) as Hprod.
  set (dY := SafeComputeDY x y (o_amount o)) in *.
  destruct (N.ltb_spec dY (o_requested o)) as [Hreq|Hreq].
  - change (0 =? 0) with true. cbv iota. intros E. inversion E; subst.
    repeat split; try assumption; try lia.
  - destruct (N.eqb_spec dY 0) as [E0|E0].
    + intros E. inversion E; subst. repeat split; try assumption; try lia.
    + destruct (N.leb_spec two64 (x + o_amount o)) as [Hov|Hov]; [discriminate|].
      intros E. inversion E; subst x' y' r. clear E.
      unfold u64 in *.
      rewrite sub64_exact by lia.
      repeat split; try lia.
Qed.

Lemma sum_receipts_zeros {A} (os : list A) : sum_receipts (map (fun _ => 0) os) = 0.
Proof. induction os as [|o os IH]; [reflexivity|]. unfold sum_receipts in *. cbn [map fold_right]. rewrite IH. reflexivity. Qed.

(* the whole batch, any length, any order of orders, any settlement budget *)
Theorem swaps_inv budget : forall os x y x' y' rs, u64 x -> u64 y -> Forall (fun o => u64 (o_amount o)) os -> 0 < x -> 0 < y ->
  swaps budget x y os = Some (x', y', rs) ->
  u64 x' /\ u64 y' /\ 0 < x' /\ 0 < y' /\ x * y <= x' * y' /\ y' + sum_receipts rs = y /\ length rs = length os.
Proof.
  induction budget as [|b IH]; intros os x y x' y' rs Hx Hy Hos Hx0 Hy0 E.
  - destruct os as [|o rest]; cbn [swaps] in E.
    + inversion E; subst. cbn. repeat split; try assumption; lia.
    + injection E as <- <- <-.
      change (0 :: map (fun _ : order => 0) rest) with (map (fun _ : order => 0) (o :: rest)).
      rewrite (sum_receipts_zeros (o :: rest)), map_length.
      repeat split; try assumption; lia.
  - destruct os as [|o rest]; cbn [swaps] in E.
    + inversion E; subst. cbn. repeat split; try assumption; lia.
    + inversion Hos as [|o' rest' Ho Hrest]; subst.
      destruct (swap1 x y o) as [[[x1 y1] r]|] eqn:E1; [|discriminate].
      destruct (swap1_inv _ _ _ _ _ _ Hx Hy Ho Hx0 Hy0 E1) as (Hx1 & Hy1 & Hx10 & Hy10 & Hp1 & Hs1 & _).
      destruct (swaps b x1 y1 rest) as [[[x2 y2] rs2]|] eqn:E2; [|discriminate].
      inversion E; subst x' y' rs. clear E.
      destruct (IH _ _ _ _ _ _ Hx1 Hy1 Hrest Hx10 Hy10 E2) as (Hx2 & Hy2 & Hx20 & Hy20 & Hp2 & Hs2 & Hl2).
      cbn [sum_receipts fold_right length] in *.
      unfold sum_receipts in *.
      repeat split; try assumption; try lia.
Qed.

Theorem handle_orders_inv os x y x' y' rs : u64 x -> u64 y -> Forall (fun o => u64 (o_amount o)) os ->
  handle_orders x y os = Some (x', y', rs) ->
  0 < y' /\ x * y <= x' * y' /\ y' + sum_receipts rs = y /\ sum_receipts rs < y /\ length rs = length os.
Proof.
  intros Hx Hy Hos. unfold handle_orders.
  destruct (N.eqb_spec x 0) as [Ex|Ex]; [discriminate|].
  destruct (N.eqb_spec y 0) as [Ey|Ey]; [discriminate|].
  cbn [orb]. intros E.
  assert (Hx0 : 0 < x) by lia. assert (Hy0 : 0 < y) by lia.
  destruct (swaps_inv _ _ _ _ _ _ _ Hx Hy Hos Hx0 Hy0 E) as (_ & _ & _ & Hy' & Hp & Hs & Hl).
  repeat split; try assumption; lia.
Qed.

(* ---------------------------------------------------------------- points bookkeeping *)
Lemma sum_points_cons b w r : sum_points ((b, w) :: r) = w + sum_points r.
Proof. reflexivity. Qed.

Lemma sum_points_app ps qs : sum_points (ps ++ qs) = sum_points ps + sum_points qs.
Proof.
  induction ps as [|[b w] r IH]; [reflexivity|].
  rewrite <- app_comm_cons, !sum_points_cons, IH. lia.
Qed.

Lemma lookup_update_sum a v w ps : lookup a ps = Some v -> sum_points (update a w ps) + v = sum_points ps + w.
Proof.
  induction ps as [|[b u] r IH]; cbn [lookup update]; [discriminate|].
  destruct (a =? b).
  - intros E. injection E as ->. rewrite !sum_points_cons. lia.
  - intros E. specialize (IH E). rewrite !sum_points_cons. lia.
Qed.

Lemma lookup_le_sum a v ps : lookup a ps = Some v -> v <= sum_points ps.
Proof.
  induction ps as [|[b u] r IH]; cbn [lookup]; [discriminate|].
  destruct (a =? b).
  - intros E. injection E as ->. rewrite sum_points_cons. lia.
  - intros E. specialize (IH E). rewrite sum_points_cons. lia.
Qed.

Lemma sum_drop_zero ps : sum_points (drop_zero ps) = sum_points ps.
Proof.
  induction ps as [|[b u] r IH]; [reflexivity|].
  unfold drop_zero in *. cbn [filter snd]. rewrite sum_points_cons.
  destruct (N.eqb_spec u 0) as [->|Hu]; cbn [negb].
  - rewrite IH. lia.
  - rewrite sum_points_cons, IH. reflexivity.
Qed.

Lemma add_points_ok p a pts p' : pool_ok p -> add_points p a pts = Some p' -> pool_ok p' /\ p_total p' = p_total p + pts.
Proof.
  intros [Hs Ht]. unfold add_points.
  destruct (N.eqb_spec pts 0) as [->|Hp].
  - intros E. injection E as <-. split; [split; assumption|lia].
  - destruct (lookup a (p_points p)) as [v|] eqn:El.
    + destruct (N.leb_spec two64 (p_total p + pts)) as [H1|H1]; [discriminate|].
      destruct (N.leb_spec two64 (v + pts)) as [H2|H2]; [discriminate|].
      cbn [orb]. intros E. injection E as <-. unfold pool_ok. cbn [p_points p_total].
      pose proof (lookup_update_sum a v (v + pts) _ El) as Hu.
      repeat split; lia.
    + destruct (N.leb_spec two64 (p_total p + pts)) as [H1|H1]; [discriminate|].
      destruct (MaxLiquidityProviders <=? N.of_nat (length (p_points p))); [discriminate|].
      intros E. injection E as <-. unfold pool_ok. cbn [p_points p_total].
      rewrite sum_points_app, sum_points_cons. cbn [sum_points fold_right].
      repeat split; lia.
Qed.

Lemma sum_amounts_cons a amt r : sum_amounts ((a, amt) :: r) = amt + sum_amounts r.
Proof. reflexivity. Qed.

Lemma distribute_inv tdl td : forall ds p x D p' x' D', pool_ok p ->
  distribute p x tdl td ds D = Some (p', x', D') ->
  pool_ok p' /\ x' = x + sum_amounts ds /\ p_total p <= p_total p'.
Proof.
  induction ds as [|[a amt] r IH]; intros p x D p' x' D' Hp; cbn [distribute].
  - intros E. injection E as <- <- <-. cbn. repeat split; try apply Hp; lia.
  - destruct (add_points p a (SafeMulDiv tdl amt td)) as [p1|] eqn:Ea; [|discriminate].
    destruct (add_points_ok _ _ _ _ Hp Ea) as [Hp1 Ht1].
    destruct (N.leb_spec two64 (x + amt)) as [H1|H1]; [discriminate|].
    intros E. destruct (IH _ _ _ _ _ _ Hp1 E) as (Hp' & Hx' & Hle).
    rewrite sum_amounts_cons. split; [assumption|split; lia].
Qed.

(* deposits: points minted (shares + dust to the dead address) keep the sum invariant, the reserve grows by exactly the deposits *)
Theorem deposit_inv dead p x y ds p' x' : pool_ok p -> u64 x -> u64 y ->
  handle_deposit dead p x y ds = Some (p', x') ->
  pool_ok p' /\ (x' = x \/ x' = x + sum_amounts ds) /\ p_total p <= p_total p'.
Proof.
  intros Hp Hx Hy. unfold handle_deposit.
  destruct (two64 <=? sum_amounts ds); [discriminate|].
  destruct ((sum_amounts ds =? 0) || (x =? 0) || (y =? 0)).
  { intros E. injection E as <- <-. repeat split; try apply Hp; try lia. }
  set (L' := if p_total p =? 0 then SqrtProductUint64 x y else p_total p). clearbody L'.
  destruct (if p_total p =? 0 then add_points p dead (SqrtProductUint64 x y) else Some p) as [p0|] eqn:E0; [|discriminate].
  assert (H0 : pool_ok p0 /\ p_total p <= p_total p0).
  { destruct (p_total p =? 0).
    - destruct (add_points_ok _ _ _ _ Hp E0) as [H1 H2]. split; [assumption|lia].
    - injection E0 as <-. split; [assumption|lia]. }
  destruct H0 as [Hp0 Hle0].
  destruct (deposit_points L' x y (sum_amounts ds)) as [tdl|]; [|discriminate].
  destruct (distribute p0 x tdl (sum_amounts ds) ds 0) as [[[p1 x1] D]|] eqn:Ed; [|discriminate].
  destruct (distribute_inv _ _ _ _ _ _ _ _ _ Hp0 Ed) as (Hp1 & Hx1 & Hle1).
  destruct (add_points p1 dead (sub64 tdl D)) as [p2|] eqn:E2; [|discriminate].
  destruct (add_points_ok _ _ _ _ Hp1 E2) as [Hp2 Ht2].
  intros E. injection E as <- <-. repeat split; try apply Hp2; try lia.
Qed.

Theorem withdraw_unchanged_ok p x y ws p' : pool_ok p -> handle_withdraw p x y ws = WUnchanged p' ->
  pool_ok p' /\ p_total p' = p_total p.
Proof.
  intros Hp. unfold handle_withdraw.
  destruct ws as [|w ws'].
  { intros E. injection E as <-. split; [assumption|reflexivity]. }
  set (wl := w :: ws'). clearbody wl.
  cbn [p_points p_total].
  destruct (total_to_remove (drop_zero (p_points p)) wl 0) as [tot|]; [|discriminate].
  destruct ((tot =? 0) || (p_total p =? 0)).
  - intros E. injection E as <-. unfold pool_ok. cbn [p_points p_total].
    rewrite sum_drop_zero. split; [exact Hp|reflexivity].
  - destruct (pay_withdrawals _ _ _ _ _ _ _) as [[[p1 paidX] paidY] outs].
    destruct (p_total _ =? 0); discriminate.
Qed.

(* ---------------------------------------------------------------- withdrawals *)
Lemma mul_le_cancel_r a b c : 0 < c -> a * c <= b * c -> a <= b.
Proof. intros Hc H. apply (N.mul_le_mono_pos_r a b c Hc). exact H. Qed.

(* a single pro-rata share: floor(floor(y*tot/T) * pts / tot) * T <= y * pts, wrap or no wrap *)
Lemma share_bound T y totY tot pts : 0 < tot -> totY * T <= y * tot -> SafeMulDiv totY pts tot * T <= y * pts.
Proof.
  intros Htot HtotY.
  pose proof (SafeMulDiv_mul_le totY pts tot) as Hs.
  set (s := SafeMulDiv totY pts tot) in *.
  apply (mul_le_cancel_r _ _ tot Htot).
  apply N.le_trans with (totY * pts * T).
  - replace (s * T * tot) with (s * tot * T) by lia. apply N.mul_le_mono_r. exact Hs.
  - replace (totY * pts * T) with (totY * T * pts) by lia.
    replace (y * pts * tot) with (y * tot * pts) by lia. apply N.mul_le_mono_r. exact HtotY.
Qed.

Lemma sum_x_cons a pts xs ys outs : sum_x ((a, pts, xs, ys) :: outs) = xs + sum_x outs.
Proof. reflexivity. Qed.
Lemma sum_y_cons a pts xs ys outs : sum_y ((a, pts, xs, ys) :: outs) = ys + sum_y outs.
Proof. reflexivity. Qed.
Lemma sum_burned_cons a pts xs ys outs : sum_burned ((a, pts, xs, ys) :: outs) = pts + sum_burned outs.
Proof. reflexivity. Qed.

Lemma paid_step T r paid s B pts : 0 < T -> B + pts <= T -> paid * T <= r * B -> s * T <= r * pts ->
  (paid + s) * T <= r * (B + pts) /\ paid + s <= r.
Proof.
  intros HT HB H1 H2.
  assert (H3 : (paid + s) * T <= r * (B + pts)) by lia.
  split; [exact H3|].
  apply (mul_le_cancel_r _ _ T HT).
  apply N.le_trans with (r * (B + pts)); [exact H3|].
  apply N.mul_le_mono_l. exact HB.
Qed.

(* loop invariant of pay_withdrawals.  T = pool total before the batch, B = points burned so far.  The bound on the paid
   amounts goes through the points actually burned (paid * T <= reserve * B, and B <= T because every burn is <= the holder's
   current points <= current pool total), so it holds for any request list, including repeated addresses, and does not need the
   first-loop total `tot` to be consistent with the second loop: only 0 < tot and totY * T <= y * tot are used. *)
Lemma pay_inv T x y totX totY tot :
  0 < T -> T < two64 -> 0 < tot -> x < two64 -> y < two64 ->
  totY * T <= y * tot -> totX * T <= x * tot ->
  forall ws p paidX paidY B pf px py outs,
  pct_ok ws ->
  sum_points (p_points p) = p_total p ->
  p_total p + B = T ->
  paidY * T <= y * B -> paidX * T <= x * B ->
  pay_withdrawals p totX totY tot ws paidX paidY = (pf, px, py, outs) ->
  sum_points (p_points pf) = p_total pf /\
  p_total pf + sum_burned outs = p_total p /\
  px = paidX + sum_x outs /\ py = paidY + sum_y outs /\
  py * T <= y * (B + sum_burned outs) /\ px * T <= x * (B + sum_burned outs) /\
  Forall (fun o => let '(a, pts, xs, ys) := o in ys * T <= y * pts /\ xs * T <= x * pts) outs.
Proof.
  intros HT HT64 Htot Hx Hy HtotY HtotX.
  induction ws as [|[a pct] r IH]; intros p paidX paidY B pf px py outs Hpct Hsum HB HpY HpX; cbn [pay_withdrawals].
  - intros E. injection E as <- <- <- <-. cbn.
    rewrite !N.add_0_r. repeat split; try assumption; try lia. constructor.
  - inversion Hpct as [|w r' Hw Hr]; subst w r'. cbn [snd] in Hw.
    destruct (lookup a (p_points p)) as [v|] eqn:El.
    2:{ intros E. exact (IH _ _ _ _ _ _ _ _ Hr Hsum HB HpY HpX E). }
    pose proof (lookup_le_sum _ _ _ El) as Hv.
    assert (Hpts : SafeMulDiv v pct 100 <= v).
    { apply SafeMulDiv_le; unfold u64, two64 in *; lia. }
    set (pts := SafeMulDiv v pct 100) in *.
    pose proof (share_bound T y totY tot pts Htot HtotY) as HsY.
    pose proof (share_bound T x totX tot pts Htot HtotX) as HsX.
    set (ys := SafeMulDiv totY pts tot) in *.
    set (xs := SafeMulDiv totX pts tot) in *.
    assert (HBp : B + pts <= T) by lia.
    destruct (paid_step T y paidY ys B pts HT HBp HpY HsY) as [HpY' HleY].
    destruct (paid_step T x paidX xs B pts HT HBp HpX HsX) as [HpX' HleX].
    rewrite (sub64_exact v pts) by lia.
    rewrite (sub64_exact (p_total p) pts) by lia.
    rewrite (add64_exact paidX xs) by lia.
    rewrite (add64_exact paidY ys) by lia.
    destruct (pay_withdrawals _ totX totY tot r (paidX + xs) (paidY + ys)) as [[[pf1 px1] py1] outs1] eqn:Er.
    intros E. injection E as <- <- <- <-.
    pose proof (lookup_update_sum a v (v - pts) _ El) as Hu.
    assert (Hsum' : sum_points (p_points {| p_points := update a (v - pts) (p_points p); p_total := p_total p - pts |})
                    = p_total {| p_points := update a (v - pts) (p_points p); p_total := p_total p - pts |}).
    { cbn [p_points p_total]. lia. }
    assert (HB' : p_total {| p_points := update a (v - pts) (p_points p); p_total := p_total p - pts |} + (B + pts) = T).
    { cbn [p_points p_total]. lia. }
    destruct (IH _ _ _ _ _ _ _ _ Hr Hsum' HB' HpY' HpX' Er) as (I1 & I2 & I3 & I4 & I5 & I6 & I7).
    cbn [p_points p_total] in I2.
    rewrite sum_x_cons, sum_y_cons, sum_burned_cons.
    repeat split; try assumption; try lia.
    constructor; [split; assumption|exact I7].
Qed.

(* withdrawals: liquidity points always sum to the pool total, nothing wraps, reserves are debited by exactly what was paid,
   the batch as a whole never takes more than its pro-rata claim, and no single request takes more than its share
   y * (points burned) / (total points before) *)
Theorem withdraw_inv p x y ws p' x' y' outs : pool_ok p -> pct_ok ws -> u64 x -> u64 y ->
  handle_withdraw p x y ws = WDone p' x' y' outs ->
  pool_ok p' /\ x' + sum_x outs = x /\ y' + sum_y outs = y /\
  p_total p' + sum_burned outs = p_total p /\
  Forall (fun o => let '(a, pts, xs, ys) := o in ys * p_total p <= y * pts /\ xs * p_total p <= x * pts) outs.
Proof.
  intros [Hsum HT64] Hpct Hx Hy. unfold handle_withdraw.
  destruct ws as [|w ws']; [discriminate|].
  set (wl := w :: ws') in *. clearbody wl.
  cbn [p_points p_total].
  destruct (total_to_remove (drop_zero (p_points p)) wl 0) as [tot|]; [|discriminate].
  destruct (N.eqb_spec tot 0) as [Et|Et]; [discriminate|].
  destruct (N.eqb_spec (p_total p) 0) as [ET|ET]; [discriminate|].
  cbn [orb].
  set (T := p_total p) in *.
  pose proof (SafeMulDiv_mul_le y tot T) as HtotY.
  pose proof (SafeMulDiv_mul_le x tot T) as HtotX.
  set (totY := SafeMulDiv y tot T) in *.
  set (totX := SafeMulDiv x tot T) in *.
  destruct (pay_withdrawals _ totX totY tot wl 0 0) as [[[p1 paidX] paidY] outs1] eqn:Ep.
  assert (HT : 0 < T) by lia. assert (Htot : 0 < tot) by lia.
  unfold u64 in *.
  assert (Hsum0 : sum_points (p_points {| p_points := drop_zero (p_points p); p_total := T |})
                  = p_total {| p_points := drop_zero (p_points p); p_total := T |}).
  { cbn [p_points p_total]. rewrite sum_drop_zero. exact Hsum. }
  assert (HB0 : p_total {| p_points := drop_zero (p_points p); p_total := T |} + 0 = T).
  { cbn [p_points p_total]. lia. }
  assert (HpY0 : 0 * T <= y * 0) by lia. assert (HpX0 : 0 * T <= x * 0) by lia.
  destruct (pay_inv T x y totX totY tot HT HT64 Htot Hx Hy HtotY HtotX _ _ _ _ _ _ _ _ _ Hpct Hsum0 HB0 HpY0 HpX0 Ep)
    as (I1 & I2 & I3 & I4 & I5 & I6 & I7).
  cbn [p_points p_total] in I2.
  destruct (p_total p1 =? 0); [discriminate|].
  intros E. injection E as <- <- <- <-.
  assert (HleY : paidY <= y).
  { apply (mul_le_cancel_r _ _ T HT). eapply N.le_trans; [exact I5|]. apply N.mul_le_mono_l. lia. }
  assert (HleX : paidX <= x).
  { apply (mul_le_cancel_r _ _ T HT). eapply N.le_trans; [exact I6|]. apply N.mul_le_mono_l. lia. }
  rewrite (sub64_exact x paidX) by lia.
  rewrite (sub64_exact y paidY) by lia.
  unfold pool_ok. cbn [p_points p_total]. rewrite sum_drop_zero.
  repeat split; try assumption; try lia.
Qed.

Print Assumptions swaps_inv.
Print Assumptions withdraw_inv.
Print Assumptions deposit_inv.
