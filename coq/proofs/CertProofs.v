(* CertProofs.v — lemmas for property C02 (finality gate) over model/Cert.v *)
From Coq Require Import NArith PeanoNat List Bool Lia ZifyN ZifyNat ZifyBool.
From V Require Import U64 Extracted Cert.
Import ListNotations.
Local Open Scope N_scope.

(* exact (unbounded) sum of the voting power of a list of committee indices *)
Definition power_of (cm : committee) (l : list nat) : N := fold_right (fun i acc => nth i (cm_power cm) 0 + acc) 0 l.
Definition total_exact (cm : committee) : N := fold_right N.add 0 (cm_power cm).
(* the committee record is what C13 derives: total = sum of powers (below 2^64, so nothing wraps), threshold = floor(2T/3)+1 *)
Definition committee_wf (cm : committee) : Prop :=
  cm_total cm = total_exact cm /\ cm_total cm < two64 /\ cm_maj23 cm = 2 * cm_total cm / 3 + 1.

Lemma view_eqb_eq a b : view_eqb a b = true <-> a = b.
Proof.
  destruct a as [a1 a2 a3 a4 a5 a6], b as [b1 b2 b3 b4 b5 b6]. unfold view_eqb.
  cbn [v_net v_chain v_height v_root v_round v_phase].
  rewrite !andb_true_iff, !N.eqb_eq. split.
  - intros (((((H1 & H2) & H3) & H4) & H5) & H6). subst. reflexivity.
  - intros H. inversion H. subst. repeat split; reflexivity.
Qed.
Lemma payload_eqb_eq a b : payload_eqb a b = true <-> a = b.
Proof.
  destruct a as [a1 a2 a3 a4], b as [b1 b2 b3 b4]. unfold payload_eqb.
  cbn [p_view p_block_hash p_results_hash p_proposer].
  rewrite !andb_true_iff, !N.eqb_eq, view_eqb_eq. split.
  - intros (((H1 & H2) & H3) & H4). subst. reflexivity.
  - intros H. inversion H. subst. repeat split; reflexivity.
Qed.
Lemma payload_eqb_refl a : payload_eqb a a = true.
Proof. apply payload_eqb_eq. reflexivity. Qed.

Lemma sig_list_eqb_eq a b : sig_list_eqb a b = true <-> a = b.
Proof.
  revert b. induction a as [|[i p] a IH]; intros [|[j q] b]; cbn [sig_list_eqb].
  - split; reflexivity.
  - split; discriminate.
  - split; discriminate.
  - rewrite !andb_true_iff, Nat.eqb_eq, payload_eqb_eq, IH. split.
    + intros ((H1 & H2) & H3). subst. reflexivity.
    + intros H. inversion H. subst. repeat split; reflexivity.
Qed.

(* ---- facts on [enabled_from] *)
Lemma enabled_from_spec i n bits j : In j (enabled_from i n bits) ->
  (i <= j < i + n)%nat /\ nth (j - i) bits false = true.
Proof.
  revert i bits. induction n as [|n IH]; intros i bits Hin; cbn [enabled_from] in Hin.
  - destruct Hin.
  - destruct bits as [|b r]; [destruct Hin|].
    assert (Hrec : In j (enabled_from (S i) n r) -> (i <= j < i + S n)%nat /\ nth (j - i) (b :: r) false = true).
    { intros H. apply IH in H. destruct H as [H1 H2]. split; [lia|].
      replace (j - i)%nat with (S (j - S i)) by lia. exact H2. }
    destruct b.
    + destruct Hin as [Heq | Hin].
      * subst j. split; [lia|]. replace (i - i)%nat with O by lia. reflexivity.
      * apply Hrec, Hin.
    + apply Hrec, Hin.
Qed.
Lemma enabled_from_NoDup i n bits : NoDup (enabled_from i n bits).
Proof.
  revert i bits. induction n as [|n IH]; intros i bits; cbn [enabled_from].
  - constructor.
  - destruct bits as [|b r]; [constructor|]. destruct b.
    + constructor; [|apply IH]. intros H. apply enabled_from_spec in H. lia.
    + apply IH.
Qed.
Lemma enabled_from_firstn i n bits : enabled_from i n (firstn n bits) = enabled_from i n bits.
Proof.
  revert i bits. induction n as [|n IH]; intros i bits; cbn [enabled_from firstn].
  - reflexivity.
  - destruct bits as [|b r]; [reflexivity|]. rewrite IH. reflexivity.
Qed.
Lemma enabled_from_shift i n bits : enabled_from (S i) n bits = map S (enabled_from i n bits).
Proof.
  revert i bits. induction n as [|n IH]; intros i bits; cbn [enabled_from].
  - reflexivity.
  - destruct bits as [|b r]; [reflexivity|]. destruct b; cbn [map]; rewrite IH; reflexivity.
Qed.

Definition sumnth (ps : list N) (l : list nat) : N := fold_right (fun i acc => nth i ps 0 + acc) 0 l.
Lemma sumnth_cons ps i l : sumnth ps (i :: l) = nth i ps 0 + sumnth ps l.
Proof. reflexivity. Qed.
Lemma sumnth_nil l : sumnth [] l = 0.
Proof. induction l as [|i l IH]; [reflexivity|]. rewrite sumnth_cons, IH. destruct i; reflexivity. Qed.
Lemma sumnth_map_S p ps l : sumnth (p :: ps) (map S l) = sumnth ps l.
Proof.
  induction l as [|i l IH]; [reflexivity|]. cbn [map]. rewrite !sumnth_cons, IH. reflexivity.
Qed.
Lemma sumnth_enabled_le ps n bits : sumnth ps (enabled_from 0 n bits) <= fold_right N.add 0 ps.
Proof.
  revert n bits. induction ps as [|p ps IH]; intros n bits.
  - rewrite sumnth_nil. apply N.le_0_l.
  - assert (H0 : sumnth (p :: ps) [] <= fold_right N.add 0 (p :: ps)) by apply N.le_0_l.
    destruct n as [|n]; cbn [enabled_from]; [exact H0|].
    destruct bits as [|b r]; [exact H0|].
    rewrite enabled_from_shift. specialize (IH n r). cbn [fold_right].
    destruct b.
    + rewrite sumnth_cons, sumnth_map_S. cbn [nth]. lia.
    + rewrite sumnth_map_S. lia.
Qed.
Lemma power_of_signers_le cm c : power_of cm (signers cm c) <= total_exact cm.
Proof. apply sumnth_enabled_le. Qed.

(* the signer set named by a bitmap: strictly increasing committee indices below n; padding bits name nobody *)
Lemma signers_lt cm c i : In i (signers cm c) -> (i < length (cm_power cm))%nat /\ nth i (c_bitmap c) false = true.
Proof.
  intros H. apply enabled_from_spec in H. destruct H as [H1 H2].
  replace (i - 0)%nat with i in H2 by lia. split; [lia|exact H2].
Qed.
Lemma signers_NoDup cm c : NoDup (signers cm c).
Proof. apply enabled_from_NoDup. Qed.
Lemma signers_padding cm c c' : firstn (length (cm_power cm)) (c_bitmap c) = firstn (length (cm_power cm)) (c_bitmap c') ->
  signers cm c = signers cm c'.
Proof.
  intros H. unfold signers. rewrite <- (enabled_from_firstn _ _ (c_bitmap c)), H. apply enabled_from_firstn.
Qed.
Lemma fold_add64_exact cm l acc : acc + power_of cm l < two64 ->
  fold_left (fun a i => add64 a (nth i (cm_power cm) 0)) l acc = acc + power_of cm l.
Proof.
  revert acc. induction l as [|i l IH]; intros acc H; cbn [fold_left power_of fold_right] in *.
  - lia.
  - fold (power_of cm l) in *. rewrite add64_exact by lia. rewrite IH by lia. lia.
Qed.
(* the wrapping sum the code computes is the exact sum (powers of distinct members are bounded by the total < 2^63) *)
Lemma signed_power_exact cm c : committee_wf cm -> signed_power cm c = power_of cm (signers cm c).
Proof.
  intros (Ht & Hlt & _). unfold signed_power. pose proof (power_of_signers_le cm c) as Hle.
  rewrite fold_add64_exact; [lia|]. unfold two64 in *. lia.
Qed.

Lemma really_signed_aux cm sp l acc : (forall i, In i l -> (i < length (cm_power cm))%nat) ->
  fold_left (fun acc e => if payload_eqb (snd e) sp && Nat.ltb (fst e) (length (cm_power cm))
                          then acc + nth (fst e) (cm_power cm) 0 else acc) (map (fun i => (i, sp)) l) acc
  = acc + power_of cm l.
Proof.
  revert acc. induction l as [|i l IH]; intros acc H; cbn [map fold_left power_of fold_right fst snd].
  - lia.
  - fold (power_of cm l). rewrite payload_eqb_refl.
    assert (Hi : Nat.ltb i (length (cm_power cm)) = true) by (apply Nat.ltb_lt, H; left; reflexivity).
    rewrite Hi. cbn [andb]. rewrite IH by (intros j Hj; apply H; right; exact Hj). lia.
Qed.

(* ---- characterisation of the cascade *)
Ltac destr_atom x :=
  lazymatch x with
  | negb ?y => destr_atom y
  | andb ?y _ => destr_atom y
  | _ => destruct x eqn:?
  end.
Ltac head_step :=
  lazymatch goal with
  | |- (if ?x then _ else _) = Commit -> _ => destr_atom x; cbn [negb andb]; try (intros HH; discriminate HH)
  end.

Lemma hpb_commit_iff cfg cm c : handle_peer_block cfg cm c = Commit <->
  exists b rh, c_block c = Some b /\ c_results c = Some rh /\
    c_hash_sizes_ok c = true /\ (rh =? c_results_hash c) = true /\ (b_bytes_hash b =? c_block_hash c) = true /\
    (v_net (c_view c) =? n_net cfg) = true /\ (v_chain (c_view c) =? n_chain cfg) = true /\
    (n_max_block cfg <? b_txs_size b) = false /\ c_bitmap_len_ok c = true /\ aggregate_valid cm c = true /\
    (signed_power cm c <? cm_maj23 cm) = false /\ b_wellformed b = true /\ (b_net b =? n_net cfg) = true /\
    (v_height (c_view c) =? b_height b) = true /\ (b_height b =? n_height cfg) = true /\
    (b_header_hash b =? c_block_hash c) = true /\ (v_phase (c_view c) =? Phase_PRECOMMIT_VOTE) = true /\
    b_applies b = true /\ (v_root (c_view c) <? n_last_root cfg) = false.
Proof.
  unfold handle_peer_block. split.
  - destruct (c_block c) as [b|]; destruct (c_results c) as [rh|]; cbv beta iota.
    + repeat head_step. intros _. exists b, rh. repeat split; assumption.
    + repeat head_step.
    + repeat head_step.
    + repeat head_step.
  - intros (b & rh & Hb & Hr & H1 & H2 & H3 & H4 & H5 & H6 & H7 & H8 & H9 & H10 & H11 & H12 & H13 & H14 & H15 & H16 & H17).
    rewrite Hb, Hr. cbv beta iota. rewrite H1, H2, H3, H4, H5, H6, H7, H8, H9, H10, H11, H12, H13, H14, H15, H16, H17.
    reflexivity.
Qed.
Lemma not_commit_reject cfg cm c : handle_peer_block cfg cm c <> Commit -> handle_peer_block cfg cm c = Reject.
Proof. destruct (handle_peer_block cfg cm c); [intros H; exfalso; apply H; reflexivity | reflexivity]. Qed.

(* ---- the gate is sound: a commit implies every clause of the property *)
Theorem commit_gate_sound cfg cm c : committee_wf cm -> handle_peer_block cfg cm c = Commit ->
  exists b rh, c_block c = Some b /\ c_results c = Some rh /\
    b_header_hash b = c_block_hash c /\ b_bytes_hash b = c_block_hash c /\ rh = c_results_hash c /\
    v_net (c_view c) = n_net cfg /\ v_chain (c_view c) = n_chain cfg /\
    v_height (c_view c) = n_height cfg /\ b_height b = n_height cfg /\ b_net b = n_net cfg /\
    v_phase (c_view c) = Phase_PRECOMMIT_VOTE /\
    c_sigs c = map (fun i => (i, sign_payload c)) (signers cm c) /\
    2 * total_exact cm / 3 + 1 <= power_of cm (signers cm c) /\
    b_applies b = true /\ n_last_root cfg <= v_root (c_view c).
Proof.
  intros Hwf H. apply hpb_commit_iff in H.
  destruct H as (b & rh & Hb & Hr & H1 & H2 & H3 & H4 & H5 & H6 & H7 & H8 & H9 & H10 & H11 & H12 & H13 & H14 & H15 & H16 & H17).
  apply N.eqb_eq in H2, H3, H4, H5, H11, H12, H13, H14, H15. apply N.ltb_ge in H9. apply N.ltb_ge in H17.
  apply sig_list_eqb_eq in H8. rewrite (signed_power_exact _ _ Hwf) in H9.
  destruct Hwf as (Ht & _ & Hm). rewrite Hm, Ht in H9.
  exists b, rh. repeat split; try assumption. congruence.
Qed.

(* ---- the attacks named by the property *)
(* partial certificates never commit *)
Theorem partial_never_commits cfg cm c : committee_wf cm ->
  power_of cm (signers cm c) < 2 * total_exact cm / 3 + 1 -> handle_peer_block cfg cm c = Reject.
Proof.
  intros Hwf Hlt. apply not_commit_reject. intros H.
  destruct (commit_gate_sound _ _ _ Hwf H) as (b & rh & H'). decompose [and] H'.
  set (m := 2 * total_exact cm / 3 + 1) in *. lia.
Qed.
(* forged: a bitmap bit of a committee member without that member's signature over this payload *)
Theorem forged_never_commits cfg cm c i : In i (signers cm c) -> ~ In (i, sign_payload c) (c_sigs c) ->
  handle_peer_block cfg cm c = Reject.
Proof.
  intros Hi Hn. apply not_commit_reject. intros H. apply hpb_commit_iff in H.
  destruct H as (b & rh & Hb & Hr & H1 & H2 & H3 & H4 & H5 & H6 & H7 & H8 & _).
  apply sig_list_eqb_eq in H8. apply Hn. rewrite H8.
  apply (in_map (fun i => (i, sign_payload c))). exact Hi.
Qed.
(* re-targeted: signatures honestly produced for ANOTHER payload (other block, results, height, root height = committee,
   round, phase, chain, network or proposer) attached to this certificate *)
Theorem retarget_never_commits cfg cm c p : signers cm c <> [] ->
  Forall (fun e => snd e = p) (c_sigs c) -> p <> sign_payload c -> handle_peer_block cfg cm c = Reject.
Proof.
  intros Hne Hall Hp. apply not_commit_reject. intros H. apply hpb_commit_iff in H.
  destruct H as (b & rh & Hb & Hr & H1 & H2 & H3 & H4 & H5 & H6 & H7 & H8 & _).
  apply sig_list_eqb_eq in H8. rewrite H8 in Hall.
  destruct (signers cm c) as [|i l]; [apply Hne; reflexivity|].
  cbn [map] in Hall. inversion Hall as [|x xs Hx Hxs]. cbn [snd] in Hx. apply Hp. symmetry. exact Hx.
Qed.
(* a certificate of any phase other than PRECOMMIT_VOTE never commits, whatever it is signed by (e.g. a +2/3
   ELECTION_VOTE certificate, whose sign bytes do not cover the block, with an arbitrary block attached) *)
Theorem wrong_phase_never_commits cfg cm c : v_phase (c_view c) <> Phase_PRECOMMIT_VOTE -> handle_peer_block cfg cm c = Reject.
Proof.
  intros Hph. apply not_commit_reject. intros H. apply hpb_commit_iff in H.
  destruct H as (b & rh & Hb & Hr & H1 & H2 & H3 & H4 & H5 & H6 & H7 & H8 & H9 & H10 & H11 & H12 & H13 & H14 & H15 & H16).
  apply N.eqb_eq in H15. apply Hph, H15.
Qed.
(* wrong network / chain / height never commit *)
Theorem wrong_target_never_commits cfg cm c :
  v_net (c_view c) <> n_net cfg \/ v_chain (c_view c) <> n_chain cfg \/ v_height (c_view c) <> n_height cfg ->
  handle_peer_block cfg cm c = Reject.
Proof.
  intros Hw. apply not_commit_reject. intros H. apply hpb_commit_iff in H.
  destruct H as (b & rh & Hb & Hr & H1 & H2 & H3 & H4 & H5 & H6 & H7 & H8 & H9 & H10 & H11 & H12 & H13 & H14 & H15 & H16).
  apply N.eqb_eq in H4, H5, H12, H13. destruct Hw as [Hw | [Hw | Hw]]; apply Hw; congruence.
Qed.
(* a certificate that names a root height older than the one the node's state last recorded (a 'historical committee': validators
   that may hold no voting power any more) never commits, whatever it is signed by *)
Theorem historical_committee_never_commits cfg cm c : v_root (c_view c) < n_last_root cfg -> handle_peer_block cfg cm c = Reject.
Proof.
  intros Hlt. apply not_commit_reject. intros H. apply hpb_commit_iff in H.
  destruct H as (b & rh & Hb & Hr & H1 & H2 & H3 & H4 & H5 & H6 & H7 & H8 & H9 & H10 & H11 & H12 & H13 & H14 & H15 & H16 & H17).
  apply N.ltb_ge in H17. lia.
Qed.
(* padding bits (bitmap positions >= committee size) neither add power nor change the verdict *)
Theorem padding_irrelevant cfg cm c bits' :
  firstn (length (cm_power cm)) bits' = firstn (length (cm_power cm)) (c_bitmap c) ->
  handle_peer_block cfg cm (mkCert (c_view c) (c_block_hash c) (c_results_hash c) (c_proposer c) (c_hash_sizes_ok c)
                                   (c_results c) (c_block c) (c_bitmap_len_ok c) bits' (c_sigs c))
  = handle_peer_block cfg cm c.
Proof.
  intros Hf.
  set (c' := mkCert (c_view c) (c_block_hash c) (c_results_hash c) (c_proposer c) (c_hash_sizes_ok c)
                    (c_results c) (c_block c) (c_bitmap_len_ok c) bits' (c_sigs c)).
  assert (Hs : signers cm c' = signers cm c) by (apply signers_padding; exact Hf).
  assert (Ha : aggregate_valid cm c' = aggregate_valid cm c).
  { unfold aggregate_valid. rewrite Hs. reflexivity. }
  assert (Hp : signed_power cm c' = signed_power cm c).
  { unfold signed_power. rewrite Hs. reflexivity. }
  unfold handle_peer_block. rewrite Ha, Hp. reflexivity.
Qed.

(* ---- completeness (non-vacuity): a well-formed +2/3 certificate for the right block is accepted *)
Theorem commit_gate_complete cfg cm c b rh : committee_wf cm ->
  c_hash_sizes_ok c = true -> c_bitmap_len_ok c = true -> c_block c = Some b -> c_results c = Some rh ->
  rh = c_results_hash c -> b_bytes_hash b = c_block_hash c -> b_header_hash b = c_block_hash c ->
  v_net (c_view c) = n_net cfg -> v_chain (c_view c) = n_chain cfg -> b_txs_size b <= n_max_block cfg ->
  b_wellformed b = true -> b_net b = n_net cfg -> v_height (c_view c) = b_height b -> b_height b = n_height cfg ->
  v_phase (c_view c) = Phase_PRECOMMIT_VOTE -> b_applies b = true ->
  c_sigs c = map (fun i => (i, sign_payload c)) (signers cm c) ->
  2 * total_exact cm / 3 + 1 <= power_of cm (signers cm c) ->
  n_last_root cfg <= v_root (c_view c) ->
  handle_peer_block cfg cm c = Commit.
Proof.
  intros Hwf H1 H2 Hb Hr H3 H4 H5 H6 H7 H8 H9 H10 H11 H12 H13 H14 H15 H16 H17.
  assert (Hrt : (v_root (c_view c) <? n_last_root cfg) = false) by (apply N.ltb_ge; exact H17).
  apply hpb_commit_iff. exists b, rh.
  assert (Hsp : (signed_power cm c <? cm_maj23 cm) = false).
  { apply N.ltb_ge. rewrite (signed_power_exact _ _ Hwf). destruct Hwf as (Ht & _ & Hm). rewrite Hm, Ht. exact H16. }
  assert (Hag : aggregate_valid cm c = true) by (apply sig_list_eqb_eq; exact H15).
  assert (Hsz : (n_max_block cfg <? b_txs_size b) = false) by (apply N.ltb_ge; exact H8).
  repeat split; try assumption; apply N.eqb_eq; assumption.
Qed.

(* the decidable predicate the violation search evaluates holds whenever the model commits *)
Theorem commit_implies_ok cfg cm c : committee_wf cm -> handle_peer_block cfg cm c = Commit ->
  c02_ok (mkC02 cfg cm c true) = true.
Proof.
  intros Hwf H. destruct (commit_gate_sound _ _ _ Hwf H) as
    (b & rh & Hb & Hr & H1 & H2 & H3 & H4 & H5 & H6 & H7 & H8 & H9 & H10 & H11 & H12).
  unfold c02_ok. cbn [k_committed k_cert k_cfg k_cm]. rewrite Hb, Hr.
  assert (Hrs : really_signed_power cm c = power_of cm (signers cm c)).
  { unfold really_signed_power. rewrite H10. rewrite really_signed_aux.
    - apply N.add_0_l.
    - intros i Hi. apply signers_lt in Hi. apply Hi. }
  rewrite Hrs. destruct Hwf as (Ht & _ & _). rewrite Ht.
  apply N.leb_le in H11. apply N.eqb_eq in H1, H3, H4, H5, H6, H7, H9.
  rewrite H1, H3, H4, H5, H6, H7, H9, H11. reflexivity.
Qed.

Print Assumptions commit_gate_sound.
Print Assumptions commit_gate_complete.
Print Assumptions commit_implies_ok.
Print Assumptions retarget_never_commits.
