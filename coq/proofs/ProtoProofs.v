(* ProtoProofs.v — the canonical encoding of a transaction is a bijection between well-formed transactions and canonical byte
   strings; the permissive decoder maps many byte strings to one transaction, exactly one of which is canonical. *)
From Coq Require Import NArith ZArith List Bool Lia ZifyN ZifyNat ZifyBool.
From V Require Import Bytes Proto.
Import ListNotations.
Local Open Scope N_scope.
Ltac Zify.zify_post_hook ::= Z.div_mod_to_equations.

Definition two64 : N := 18446744073709551616.
Definition len_ok (b : bytes) : Prop := N.of_nat (length b) < 268435456.       (* far below the field-size limits *)
Definition any_wf (a : any) : Prop := ascii (a_url a) = true /\ len_ok (a_url a) /\ len_ok (a_value a).
Definition sgn_wf (s : sgn) : Prop := len_ok (s_pk s) /\ len_ok (s_sig s).
Definition tx_wf (t : ptx) : Prop :=
  ascii (t_type t) = true /\ len_ok (t_type t) /\ ascii (t_memo t) = true /\ len_ok (t_memo t) /\
  (match t_msg t with Some a => any_wf a | None => True end) /\
  (match t_sig t with Some s => sgn_wf s | None => True end) /\
  t_created t < two64 /\ t_time t < two64 /\ t_fee t < two64 /\ t_net t < two64 /\ t_chain t < two64 /\ t_nonce t < two64.

Lemma land127 v : N.land v 127 = v mod 128.
Proof. change 127 with (N.ones 7). rewrite N.land_ones. reflexivity. Qed.
Lemma shiftr7 v : N.shiftr v 7 = v / 128.
Proof. rewrite N.shiftr_div_pow2. reflexivity. Qed.
Lemma cont_low v : N.land (N.lor (N.land v 127) 128) 127 = v mod 128.
Proof.
  rewrite N.land_lor_distr_l. change (N.land 128 127) with 0. rewrite N.lor_0_r.
  rewrite <- N.land_assoc. change (N.land 127 127) with 127. apply land127.
Qed.
Lemma cont_high v : 128 <= N.lor (N.land v 127) 128.
Proof.
  destruct (N.le_gt_cases 128 (N.lor (N.land v 127) 128)) as [H|H]; [exact H|exfalso].
  assert (Hb : N.testbit (N.lor (N.land v 127) 128) 7 = true).
  { rewrite N.lor_spec. change 128 with (2^7) at 1. rewrite N.pow2_bits_true. apply orb_true_r. }
  rewrite <- (N.mod_small _ (2^7)) in Hb by exact H.
  rewrite N.mod_pow2_bits_high in Hb by lia. discriminate.
Qed.

Lemma varint_dec_S f i b r acc : varint_dec (S f) i (b :: r) acc =
  if (i =? 9) && (1 <? b) then None
  else if b <? 128 then Some (acc + N.shiftl (N.land b 127) (7 * i), r)
       else varint_dec f (i + 1) r (acc + N.shiftl (N.land b 127) (7 * i)).
Proof. reflexivity. Qed.
Lemma varint_enc_S f v : varint_enc (S f) v =
  if v <? 128 then [v] else (N.lor (N.land v 127) 128) :: varint_enc f (N.shiftr v 7).
Proof. reflexivity. Qed.

Lemma pow_split i : i <= 8 -> 2 ^ (64 - 7 * i) = 128 * 2 ^ (64 - 7 * (i + 1)).
Proof.
  intros Hi. replace (64 - 7 * i) with (7 + (64 - 7 * (i + 1))) by lia.
  rewrite N.pow_add_r. reflexivity.
Qed.

Lemma varint_gen f : forall v i acc rest,
  i + N.of_nat f = 10 -> i <= 9 -> v < 2 ^ (64 - 7 * i) ->
  varint_dec f i (varint_enc f v ++ rest) acc = Some (acc + v * 2 ^ (7 * i), rest).
Proof.
  induction f as [|f IH]; intros v i acc rest Hf Hi Hv.
  - lia.
  - rewrite varint_enc_S. destruct (v <? 128) eqn:Hlt.
    + apply N.ltb_lt in Hlt. cbn [app]. rewrite varint_dec_S.
      assert (E1 : (i =? 9) && (1 <? v) = false).
      { destruct (i =? 9) eqn:E9; [|reflexivity]. apply N.eqb_eq in E9. subst i.
        change (2 ^ (64 - 7 * 9)) with 2 in Hv. cbn [andb]. apply N.ltb_ge. lia. }
      rewrite E1. replace (v <? 128) with true by (symmetry; apply N.ltb_lt; exact Hlt).
      rewrite land127, N.mod_small by exact Hlt. rewrite N.shiftl_mul_pow2. reflexivity.
    + apply N.ltb_ge in Hlt.
      assert (Hi8 : i <= 8).
      { destruct (N.le_gt_cases i 8) as [H|H]; [exact H|]. assert (i = 9) by lia. subst i.
        change (2 ^ (64 - 7 * 9)) with 2 in Hv. lia. }
      rewrite <- app_comm_cons. rewrite varint_dec_S.
      replace (i =? 9) with false by (symmetry; apply N.eqb_neq; lia). cbn [andb].
      pose proof (cont_high v) as Hh.
      replace (N.lor (N.land v 127) 128 <? 128) with false by (symmetry; apply N.ltb_ge; exact Hh).
      rewrite cont_low, shiftr7, N.shiftl_mul_pow2.
      rewrite IH.
      * f_equal. f_equal. replace (7 * (i + 1)) with (7 + 7 * i) by lia. rewrite N.pow_add_r.
        change (2 ^ 7) with 128. pose proof (N.div_mod v 128 ltac:(lia)) as Hd.
        set (q := v / 128) in *. set (m := v mod 128) in *. set (p := 2 ^ (7 * i)). clearbody q m p. rewrite Hd. ring.
      * lia.
      * lia.
      * rewrite (pow_split i Hi8) in Hv. apply N.div_lt_upper_bound; [lia|exact Hv].
Qed.

Theorem varint_roundtrip v rest : v < two64 -> get_varint (put_varint v ++ rest) = Some (v, rest).
Proof.
  intros Hv. unfold get_varint, put_varint. rewrite varint_gen.
  - f_equal. f_equal. change (2 ^ (7 * 0)) with 1. lia.
  - reflexivity.
  - lia.
  - exact Hv.
Qed.

(* ---- consumption *)
Lemma varint_dec_len f : forall i bs acc v r, varint_dec f i bs acc = Some (v, r) -> (length r < length bs)%nat.
Proof.
  induction f as [|f IH]; intros i bs acc v r H; [discriminate|].
  destruct bs as [|b bs]; [discriminate|]. rewrite varint_dec_S in H.
  destruct ((i =? 9) && (1 <? b)); [discriminate|].
  destruct (b <? 128).
  - injection H as _ ->. cbn [length]. lia.
  - apply IH in H. cbn [length]. lia.
Qed.
Lemma get_varint_len bs v r : get_varint bs = Some (v, r) -> (length r < length bs)%nat.
Proof. apply varint_dec_len. Qed.

Lemma take_spec n : forall bs x y, take n bs = Some (x, y) -> bs = x ++ y /\ length x = n.
Proof.
  induction n as [|n IH]; intros bs x y H.
  - cbn [take] in H. injection H as <- <-. split; reflexivity.
  - destruct bs as [|b bs]; [discriminate|]. cbn [take] in H.
    destruct (take n bs) as [[x' y']|] eqn:E; [|discriminate]. injection H as <- <-.
    apply IH in E. destruct E as [-> <-]. split; reflexivity.
Qed.
Lemma take_app x : forall y, take (length x) (x ++ y) = Some (x, y).
Proof.
  induction x as [|b x IH]; intros y; [reflexivity|].
  cbn [length app take]. rewrite IH. reflexivity.
Qed.

Definition scan_body (f : nat) (bs : bytes) : option (list (N * fval)) :=
  match get_varint bs with
  | None => None
  | Some (key, r) =>
    let num := N.shiftr key 3 in let wt := N.land key 7 in
    if (num =? 0) || (536870911 <? num) || (18446744073709551615 <? key) then None else
    if wt =? 0 then
      match get_varint r with
      | Some (v, r') => match scan f r' with Some l => Some ((num, FVar v) :: l) | None => None end
      | None => None
      end
    else if wt =? 2 then
      match get_varint r with
      | Some (len, r') =>
        if 2147483647 <? len then None else
        match take (N.to_nat len) r' with
        | Some (body, r'') => match scan f r'' with Some l => Some ((num, FBytes body) :: l) | None => None end
        | None => None
        end
      | None => None
      end
    else None
  end.
Lemma scan_S f b r : scan (S f) (b :: r) = scan_body f (b :: r).
Proof. reflexivity. Qed.
Lemma scan_nil f : scan f [] = Some [].
Proof. destruct f; reflexivity. Qed.

Lemma scan_body_fuel f1 f2 bs :
  (forall r, (length r < length bs)%nat -> scan f1 r = scan f2 r) -> scan_body f1 bs = scan_body f2 bs.
Proof.
  intros H. unfold scan_body.
  destruct (get_varint bs) as [[key r1]|] eqn:E1; [|reflexivity]. apply get_varint_len in E1.
  cbv zeta. destruct (_ || _); [reflexivity|].
  destruct (N.land key 7 =? 0).
  - destruct (get_varint r1) as [[v r2]|] eqn:E2; [|reflexivity]. apply get_varint_len in E2.
    rewrite H by lia. reflexivity.
  - destruct (N.land key 7 =? 2); [|reflexivity].
    destruct (get_varint r1) as [[v r2]|] eqn:E2; [|reflexivity]. apply get_varint_len in E2.
    destruct (2147483647 <? v); [reflexivity|].
    destruct (take (N.to_nat v) r2) as [[body r3]|] eqn:E3; [|reflexivity].
    apply take_spec in E3. destruct E3 as [E3 _].
    rewrite H; [reflexivity|]. subst r2. rewrite app_length in E2. lia.
Qed.

Lemma scan_fuel f1 : forall f2 bs, (length bs <= f1)%nat -> (length bs <= f2)%nat -> scan f1 bs = scan f2 bs.
Proof.
  induction f1 as [|f1 IH]; intros f2 bs H1 H2.
  - destruct bs; [|cbn [length] in H1; lia]. rewrite !scan_nil. reflexivity.
  - destruct bs as [|b r]; [rewrite !scan_nil; reflexivity|].
    destruct f2 as [|f2]; [cbn [length] in H2; lia|].
    rewrite !scan_S. apply scan_body_fuel. intros r' Hr'. cbn [length] in *. apply IH; lia.
Qed.

Definition scanF (bs : bytes) : option (list (N * fval)) := scan (length bs) bs.
Lemma scanF_unfold bs : bs <> [] -> scanF bs = scan_body (length bs) bs.
Proof.
  intros Hne. destruct bs as [|b r]; [congruence|]. unfold scanF. cbn [length]. rewrite scan_S.
  apply scan_body_fuel. intros r' Hr'. cbn [length] in Hr'. apply scan_fuel; lia.
Qed.
Lemma scan_scanF f bs : (length bs <= f)%nat -> scan f bs = scanF bs.
Proof. intros H. unfold scanF. apply scan_fuel; lia. Qed.

Lemma put_varint_ne v rest : put_varint v ++ rest <> [].
Proof. unfold put_varint. rewrite varint_enc_S. destruct (v <? 128); discriminate. Qed.

Lemma key_num num wt : wt < 8 -> N.shiftr (num * 8 + wt) 3 = num.
Proof. intros H. rewrite N.shiftr_div_pow2. change (2 ^ 3) with 8. lia. Qed.
Lemma key_wt num wt : wt < 8 -> N.land (num * 8 + wt) 7 = wt.
Proof. intros H. change 7 with (N.ones 3). rewrite N.land_ones. change (2 ^ 3) with 8. lia. Qed.

Definition num_ok (num : N) : Prop := 1 <= num <= 15.

Lemma scanF_var num v rest : num_ok num -> v < two64 ->
  scanF (put_varint (num * 8) ++ put_varint v ++ rest) =
  match scanF rest with Some l => Some ((num, FVar v) :: l) | None => None end.
Proof.
  intros Hn Hv. unfold num_ok in Hn. rewrite scanF_unfold by apply put_varint_ne. unfold scan_body.
  rewrite varint_roundtrip by (unfold two64; lia). cbv zeta.
  replace (num * 8) with (num * 8 + 0) by lia.
  rewrite key_num, key_wt by lia.
  replace ((num =? 0) || (536870911 <? num) || (18446744073709551615 <? num * 8 + 0)) with false by lia.
  change (0 =? 0) with true. cbv iota.
  rewrite varint_roundtrip by exact Hv.
  rewrite scan_scanF; [reflexivity|]. rewrite !app_length. lia.
Qed.

Lemma scanF_bytes num body rest : num_ok num -> N.of_nat (length body) < two64 ->
  scanF (fbytes num body ++ rest) =
  if 2147483647 <? N.of_nat (length body) then None else
  match scanF rest with Some l => Some ((num, FBytes body) :: l) | None => None end.
Proof.
  intros Hn Hv. unfold num_ok in Hn. unfold fbytes. rewrite <- !app_assoc.
  rewrite scanF_unfold by apply put_varint_ne. unfold scan_body.
  rewrite varint_roundtrip by (unfold two64; lia). cbv zeta.
  rewrite key_num, key_wt by lia.
  replace ((num =? 0) || (536870911 <? num) || (18446744073709551615 <? num * 8 + 2)) with false by lia.
  change (2 =? 0) with false. change (2 =? 2) with true. cbv iota.
  rewrite varint_roundtrip by exact Hv.
  destruct (2147483647 <? N.of_nat (length body)); [reflexivity|].
  rewrite Nnat.Nat2N.id, take_app.
  rewrite scan_scanF; [reflexivity|]. rewrite !app_length. lia.
Qed.

(* ---- lists of fields *)
Definition lenM (b : bytes) : Prop := N.of_nat (length b) <= 2147483647.
Definition enc_fld (f : N * fval) : bytes :=
  match f with
  | (num, FVar v) => put_varint (num * 8) ++ put_varint v
  | (num, FBytes b) => fbytes num b
  end.
Fixpoint enc_flds (l : list (N * fval)) : bytes :=
  match l with [] => [] | f :: r => enc_fld f ++ enc_flds r end.
Definition fld_pre (f : N * fval) : Prop :=
  num_ok (fst f) /\ match snd f with FVar v => v < two64 | FBytes b => N.of_nat (length b) < two64 end.
Definition fld_ok (f : N * fval) : Prop :=
  num_ok (fst f) /\ match snd f with FVar v => v < two64 | FBytes b => lenM b end.

Lemma enc_flds_app l1 l2 : enc_flds (l1 ++ l2) = enc_flds l1 ++ enc_flds l2.
Proof. induction l1 as [|f r IH]; [reflexivity|]. cbn [app enc_flds]. rewrite IH, app_assoc. reflexivity. Qed.

Lemma scanF_nil : scanF [] = Some [].
Proof. reflexivity. Qed.

Lemma scanF_cons f r : fld_pre f ->
  scanF (enc_flds (f :: r)) =
  if (match snd f with FVar _ => false | FBytes b => 2147483647 <? N.of_nat (length b) end) then None
  else match scanF (enc_flds r) with Some l => Some (f :: l) | None => None end.
Proof.
  destruct f as [num [v|b]]; intros [Hn Hv]; cbn [fst snd] in *; cbn [enc_flds enc_fld].
  - rewrite <- app_assoc. apply scanF_var; assumption.
  - apply scanF_bytes; assumption.
Qed.

Lemma scan_enc_flds l : Forall fld_ok l -> scanF (enc_flds l) = Some l.
Proof.
  induction l as [|f r IH]; intros H; [reflexivity|].
  inversion H as [|? ? Hf Hr]; subst. rewrite scanF_cons.
  - rewrite (IH Hr). destruct f as [num [v|b]]; cbn [snd]; [reflexivity|].
    destruct Hf as [_ Hb]. cbn [snd] in Hb. unfold lenM in Hb.
    replace (2147483647 <? N.of_nat (length b)) with false by lia. reflexivity.
  - destruct f as [num [v|b]]; destruct Hf as [Hn Hb]; split; cbn [fst snd] in *; try assumption.
    unfold lenM in Hb. unfold two64. lia.
Qed.

Lemma scan_enc_flds_inv l : Forall fld_pre l -> scanF (enc_flds l) <> None -> Forall fld_ok l.
Proof.
  induction l as [|f r IH]; intros H Hs; [constructor|].
  inversion H as [|? ? Hf Hr]; subst. rewrite scanF_cons in Hs by exact Hf.
  destruct f as [num [v|b]]; cbn [snd] in Hs.
  - constructor; [exact Hf|]. apply IH; [exact Hr|]. intros E. rewrite E in Hs. congruence.
  - destruct (2147483647 <? N.of_nat (length b)) eqn:E; [congruence|].
    constructor.
    + destruct Hf as [Hn _]. split; [exact Hn|]. cbn [snd]. unfold lenM. lia.
    + apply IH; [exact Hr|]. intros E'. rewrite E' in Hs. congruence.
Qed.

(* ---- the fields of a transaction *)
Definition optb (num : N) (b : bytes) : list (N * fval) := match b with [] => [] | _ => [(num, FBytes b)] end.
Definition optv (num : N) (v : N) : list (N * fval) := if v =? 0 then [] else [(num, FVar v)].
Definition any_flds (a : any) := optb 1 (a_url a) ++ optb 2 (a_value a).
Definition sgn_flds (s : sgn) := optb 1 (s_pk s) ++ optb 2 (s_sig s).
Definition fields_of (t : ptx) : list (N * fval) :=
  optb 1 (t_type t) ++
  (match t_msg t with Some a => [(2, FBytes (encode_any a))] | None => [] end) ++
  (match t_sig t with Some s => [(3, FBytes (encode_sgn s))] | None => [] end) ++
  optv 4 (t_created t) ++ optv 5 (t_time t) ++ optv 6 (t_fee t) ++ optb 7 (t_memo t) ++
  optv 8 (t_net t) ++ optv 9 (t_chain t) ++ optv 10 (t_nonce t).

Lemma enc_optb num b : enc_flds (optb num b) = fbytes_nz num b.
Proof. destruct b; [reflexivity|]. cbn [optb enc_flds enc_fld fbytes_nz]. apply app_nil_r. Qed.
Lemma enc_optv num v : enc_flds (optv num v) = fvar_nz num v.
Proof. unfold optv, fvar_nz. destruct (v =? 0); [reflexivity|]. cbn [enc_flds enc_fld]. apply app_nil_r. Qed.
Lemma encode_any_flds a : encode_any a = enc_flds (any_flds a).
Proof. unfold encode_any, any_flds. rewrite enc_flds_app, !enc_optb. reflexivity. Qed.
Lemma encode_sgn_flds s : encode_sgn s = enc_flds (sgn_flds s).
Proof. unfold encode_sgn, sgn_flds. rewrite enc_flds_app, !enc_optb. reflexivity. Qed.
Lemma encode_tx_flds t : encode_tx t = enc_flds (fields_of t).
Proof.
  unfold encode_tx, fields_of. rewrite !enc_flds_app, !enc_optb, !enc_optv.
  f_equal. f_equal; [destruct (t_msg t); [cbn [enc_flds enc_fld]; apply eq_sym, app_nil_r|reflexivity]|].
  f_equal. destruct (t_sig t); [cbn [enc_flds enc_fld]; apply eq_sym, app_nil_r|reflexivity].
Qed.

Lemma optb_ok num b : num_ok num -> lenM b -> Forall fld_ok (optb num b).
Proof. intros Hn Hb. destruct b; [constructor|]. constructor; [|constructor]. split; assumption. Qed.
Lemma optv_ok num v : num_ok num -> v < two64 -> Forall fld_ok (optv num v).
Proof. intros Hn Hb. unfold optv. destruct (v =? 0); [constructor|]. constructor; [|constructor]. split; assumption. Qed.
Lemma optb_pre num b : num_ok num -> N.of_nat (length b) < two64 -> Forall fld_pre (optb num b).
Proof. intros Hn Hb. destruct b; [constructor|]. constructor; [|constructor]. split; assumption. Qed.
Lemma optv_pre num v : num_ok num -> v < two64 -> Forall fld_pre (optv num v).
Proof. intros Hn Hb. unfold optv. destruct (v =? 0); [constructor|]. constructor; [|constructor]. split; assumption. Qed.

(* ---- weak well-formedness: what the decoder guarantees of a canonical byte string *)
Definition any_leaf (a : any) : Prop := ascii (a_url a) = true /\ lenM (a_url a) /\ lenM (a_value a).
Definition sgn_leaf (s : sgn) : Prop := lenM (s_pk s) /\ lenM (s_sig s).
Definition tx_leaf (t : ptx) : Prop :=
  ascii (t_type t) = true /\ lenM (t_type t) /\ ascii (t_memo t) = true /\ lenM (t_memo t) /\
  (match t_msg t with Some a => any_leaf a | None => True end) /\
  (match t_sig t with Some s => sgn_leaf s | None => True end) /\
  t_created t < two64 /\ t_time t < two64 /\ t_fee t < two64 /\ t_net t < two64 /\ t_chain t < two64 /\ t_nonce t < two64.
Definition tx_sub (t : ptx) : Prop :=
  (match t_msg t with Some a => lenM (encode_any a) | None => True end) /\
  (match t_sig t with Some s => lenM (encode_sgn s) | None => True end).
Definition wf_weak (t : ptx) : Prop := tx_leaf t /\ tx_sub t.

Lemma n1 : num_ok 1. Proof. unfold num_ok; lia. Qed.
Lemma n2 : num_ok 2. Proof. unfold num_ok; lia. Qed.
Lemma n3 : num_ok 3. Proof. unfold num_ok; lia. Qed.
Lemma n4 : num_ok 4. Proof. unfold num_ok; lia. Qed.
Lemma n5 : num_ok 5. Proof. unfold num_ok; lia. Qed.
Lemma n6 : num_ok 6. Proof. unfold num_ok; lia. Qed.
Lemma n7 : num_ok 7. Proof. unfold num_ok; lia. Qed.
Lemma n8 : num_ok 8. Proof. unfold num_ok; lia. Qed.
Lemma n9 : num_ok 9. Proof. unfold num_ok; lia. Qed.
Lemma n10 : num_ok 10. Proof. unfold num_ok; lia. Qed.

Lemma Forall_app_i {A} (P : A -> Prop) l1 l2 : Forall P l1 -> Forall P l2 -> Forall P (l1 ++ l2).
Proof. intros H1 H2. apply Forall_app. split; assumption. Qed.

Lemma fields_ok t : wf_weak t -> Forall fld_ok (fields_of t).
Proof.
  intros [(H1 & H2 & H3 & H4 & H5 & H6 & H7 & H8 & H9 & H10 & H11 & H12) [S1 S2]]. unfold fields_of.
  repeat apply Forall_app_i;
    try (apply optb_ok; [first [apply n1|apply n7]|assumption]);
    try (apply optv_ok; [first [apply n4|apply n5|apply n6|apply n8|apply n9|apply n10]|assumption]).
  - destruct (t_msg t); [|constructor]. constructor; [|constructor]. split; [apply n2|exact S1].
  - destruct (t_sig t); [|constructor]. constructor; [|constructor]. split; [apply n3|exact S2].
Qed.

Lemma varint_enc_len f : forall v, (length (varint_enc f v) <= f)%nat.
Proof.
  induction f as [|f IH]; intros v; [cbn; lia|]. rewrite varint_enc_S. destruct (v <? 128); cbn [length].
  - lia.
  - specialize (IH (N.shiftr v 7)). lia.
Qed.
Lemma fbytes_nz_len num b : (length (fbytes_nz num b) <= length b + 20)%nat.
Proof.
  destruct b as [|x b]; [cbn; lia|]. unfold fbytes_nz, fbytes. rewrite !app_length.
  pose proof (varint_enc_len 10 (num * 8 + 2)). pose proof (varint_enc_len 10 (N.of_nat (length (x :: b)))).
  unfold put_varint. lia.
Qed.
Lemma encode_any_len a : (length (encode_any a) <= length (a_url a) + length (a_value a) + 40)%nat.
Proof.
  unfold encode_any. rewrite app_length.
  pose proof (fbytes_nz_len 1 (a_url a)). pose proof (fbytes_nz_len 2 (a_value a)). lia.
Qed.
Lemma encode_sgn_len s : (length (encode_sgn s) <= length (s_pk s) + length (s_sig s) + 40)%nat.
Proof.
  unfold encode_sgn. rewrite app_length.
  pose proof (fbytes_nz_len 1 (s_pk s)). pose proof (fbytes_nz_len 2 (s_sig s)). lia.
Qed.

Lemma fields_pre t : tx_leaf t -> Forall fld_pre (fields_of t).
Proof.
  intros (H1 & H2 & H3 & H4 & H5 & H6 & H7 & H8 & H9 & H10 & H11 & H12). unfold fields_of.
  unfold lenM in *.
  repeat apply Forall_app_i;
    try (apply optb_pre; [first [apply n1|apply n7]|unfold two64; lia]);
    try (apply optv_pre; [first [apply n4|apply n5|apply n6|apply n8|apply n9|apply n10]|assumption]).
  - destruct (t_msg t) as [a|]; [|constructor]. constructor; [|constructor]. split; [apply n2|]. cbn [snd].
    destruct H5 as (_ & Ha & Hb). unfold lenM in *. pose proof (encode_any_len a). unfold two64. lia.
  - destruct (t_sig t) as [s|]; [|constructor]. constructor; [|constructor]. split; [apply n3|]. cbn [snd].
    destruct H6 as (Ha & Hb). unfold lenM in *. pose proof (encode_sgn_len s). unfold two64. lia.
Qed.

Lemma tx_wf_weak t : tx_wf t -> wf_weak t.
Proof.
  intros (H1 & H2 & H3 & H4 & H5 & H6 & H7). unfold len_ok in *. split.
  - unfold tx_leaf, lenM. repeat split; try tauto; try lia.
    + destruct (t_msg t) as [a|]; [|exact I]. destruct H5 as (Ha & Hb & Hc). unfold any_leaf, lenM, len_ok in *.
      repeat split; try assumption; lia.
    + destruct (t_sig t) as [s|]; [|exact I]. destruct H6 as (Hb & Hc). unfold sgn_leaf, lenM, len_ok in *.
      split; lia.
  - split.
    + destruct (t_msg t) as [a|]; [|exact I]. destruct H5 as (Ha & Hb & Hc). unfold lenM, len_ok in *.
      pose proof (encode_any_len a). lia.
    + destruct (t_sig t) as [s|]; [|exact I]. destruct H6 as (Hb & Hc). unfold lenM, len_ok in *.
      pose proof (encode_sgn_len s). lia.
Qed.

(* ---- from the scanned fields back to the transaction *)
Ltac prj := cbn [app tx_fields any_fields sgn_fields t_type t_msg t_sig t_created t_time t_fee t_memo t_net t_chain t_nonce
                 a_url a_value s_pk s_sig].
Ltac prj_in H := cbn [app tx_fields any_fields sgn_fields t_type t_msg t_sig t_created t_time t_fee t_memo t_net t_chain t_nonce
                 a_url a_value s_pk s_sig] in H.

Lemma u64_small v : v < two64 -> u64 v = v.
Proof.
  intros H. unfold u64. change 18446744073709551615 with (N.ones 64). rewrite N.land_ones.
  change (2 ^ 64) with two64. apply N.mod_small. exact H.
Qed.
Lemma u64_lt v : u64 v < two64.
Proof.
  unfold u64. change 18446744073709551615 with (N.ones 64). rewrite N.land_ones.
  change (2 ^ 64) with two64. apply N.mod_lt. discriminate.
Qed.

Lemma any_fields_flds a : ascii (a_url a) = true -> any_fields (any_flds a) (mkAny [] []) = Some a.
Proof.
  destruct a as [u v]. cbn [a_url a_value]. intros Hu. unfold any_flds. cbn [a_url a_value].
  destruct u as [|x u]; destruct v as [|y v]; cbn [optb]; prj; try rewrite Hu; reflexivity.
Qed.
Lemma sgn_fields_flds s : sgn_fields (sgn_flds s) (mkSgn [] []) = Some s.
Proof.
  destruct s as [u v]. unfold sgn_flds. cbn [s_pk s_sig].
  destruct u as [|x u]; destruct v as [|y v]; reflexivity.
Qed.
Lemma any_flds_ok a : lenM (a_url a) -> lenM (a_value a) -> Forall fld_ok (any_flds a).
Proof. intros H1 H2. apply Forall_app_i; apply optb_ok; try assumption; [apply n1|apply n2]. Qed.
Lemma sgn_flds_ok s : lenM (s_pk s) -> lenM (s_sig s) -> Forall fld_ok (sgn_flds s).
Proof. intros H1 H2. apply Forall_app_i; apply optb_ok; try assumption; [apply n1|apply n2]. Qed.

Lemma st1 ty R : ascii ty = true ->
  tx_fields (optb 1 ty ++ R) ptx_empty = tx_fields R (mkPtx ty None None 0 0 0 [] 0 0 0).
Proof.
  intros H. destruct ty as [|x ty]; [reflexivity|]. unfold ptx_empty. cbn [optb]. prj. rewrite H. reflexivity.
Qed.
Lemma st2 ty msg R : (match msg with Some a => any_leaf a | None => True end) ->
  tx_fields ((match msg with Some a => [(2, FBytes (encode_any a))] | None => [] end) ++ R) (mkPtx ty None None 0 0 0 [] 0 0 0)
  = tx_fields R (mkPtx ty msg None 0 0 0 [] 0 0 0).
Proof.
  intros H. destruct msg as [a|]; [|reflexivity]. destruct H as (H1 & H2 & H3). prj.
  change (scan (length (encode_any a)) (encode_any a)) with (scanF (encode_any a)).
  rewrite encode_any_flds, scan_enc_flds by (apply any_flds_ok; assumption).
  rewrite any_fields_flds by exact H1. reflexivity.
Qed.
Lemma st3 ty msg sg R : (match sg with Some s => sgn_leaf s | None => True end) ->
  tx_fields ((match sg with Some s => [(3, FBytes (encode_sgn s))] | None => [] end) ++ R) (mkPtx ty msg None 0 0 0 [] 0 0 0)
  = tx_fields R (mkPtx ty msg sg 0 0 0 [] 0 0 0).
Proof.
  intros H. destruct sg as [s|]; [|reflexivity]. destruct H as (H1 & H2). prj.
  change (scan (length (encode_sgn s)) (encode_sgn s)) with (scanF (encode_sgn s)).
  rewrite encode_sgn_flds, scan_enc_flds by (apply sgn_flds_ok; assumption).
  rewrite sgn_fields_flds. reflexivity.
Qed.
Ltac stv H :=
  let E := fresh "E" in
  unfold optv; match goal with |- context [?x =? 0] => destruct (x =? 0) eqn:E end;
  [apply N.eqb_eq in E; subst; reflexivity | prj; rewrite (u64_small _ H); reflexivity].
Lemma st4 ty msg sg cr R : cr < two64 ->
  tx_fields (optv 4 cr ++ R) (mkPtx ty msg sg 0 0 0 [] 0 0 0) = tx_fields R (mkPtx ty msg sg cr 0 0 [] 0 0 0).
Proof. intros H. stv H. Qed.
Lemma st5 ty msg sg cr tm R : tm < two64 ->
  tx_fields (optv 5 tm ++ R) (mkPtx ty msg sg cr 0 0 [] 0 0 0) = tx_fields R (mkPtx ty msg sg cr tm 0 [] 0 0 0).
Proof. intros H. stv H. Qed.
Lemma st6 ty msg sg cr tm fee R : fee < two64 ->
  tx_fields (optv 6 fee ++ R) (mkPtx ty msg sg cr tm 0 [] 0 0 0) = tx_fields R (mkPtx ty msg sg cr tm fee [] 0 0 0).
Proof. intros H. stv H. Qed.
Lemma st7 ty msg sg cr tm fee memo R : ascii memo = true ->
  tx_fields (optb 7 memo ++ R) (mkPtx ty msg sg cr tm fee [] 0 0 0) = tx_fields R (mkPtx ty msg sg cr tm fee memo 0 0 0).
Proof.
  intros H. destruct memo as [|x memo]; [reflexivity|]. cbn [optb]. prj. rewrite H. reflexivity.
Qed.
Lemma st8 ty msg sg cr tm fee memo net R : net < two64 ->
  tx_fields (optv 8 net ++ R) (mkPtx ty msg sg cr tm fee memo 0 0 0) = tx_fields R (mkPtx ty msg sg cr tm fee memo net 0 0).
Proof. intros H. stv H. Qed.
Lemma st9 ty msg sg cr tm fee memo net ch R : ch < two64 ->
  tx_fields (optv 9 ch ++ R) (mkPtx ty msg sg cr tm fee memo net 0 0) = tx_fields R (mkPtx ty msg sg cr tm fee memo net ch 0).
Proof. intros H. stv H. Qed.
Lemma st10 ty msg sg cr tm fee memo net ch nonce : nonce < two64 ->
  tx_fields (optv 10 nonce) (mkPtx ty msg sg cr tm fee memo net ch 0) = Some (mkPtx ty msg sg cr tm fee memo net ch nonce).
Proof.
  intros H. unfold optv. destruct (nonce =? 0) eqn:E.
  - apply N.eqb_eq in E. subst. reflexivity.
  - prj. rewrite (u64_small _ H). reflexivity.
Qed.

Lemma tx_fields_of t : tx_leaf t -> tx_fields (fields_of t) ptx_empty = Some t.
Proof.
  destruct t as [ty msg sg cr tm fee memo net ch nonce]. unfold tx_leaf, fields_of.
  cbn [t_type t_msg t_sig t_created t_time t_fee t_memo t_net t_chain t_nonce].
  intros (H1 & H2 & H3 & H4 & H5 & H6 & H7 & H8 & H9 & H10 & H11 & H12).
  rewrite st1 by exact H1. rewrite st2 by exact H5. rewrite st3 by exact H6.
  rewrite st4 by exact H7. rewrite st5 by exact H8. rewrite st6 by exact H9. rewrite st7 by exact H3.
  rewrite st8 by exact H10. rewrite st9 by exact H11. apply st10. exact H12.
Qed.

Lemma decode_tx_scanF bs : decode_tx bs = match scanF bs with Some fl => tx_fields fl ptx_empty | None => None end.
Proof. reflexivity. Qed.

Lemma decode_encode_weak t : wf_weak t -> decode_tx (encode_tx t) = Some t.
Proof.
  intros H. rewrite decode_tx_scanF, encode_tx_flds, scan_enc_flds by (apply fields_ok; exact H).
  apply tx_fields_of. apply H.
Qed.

Theorem decode_encode t : tx_wf t -> decode_tx (encode_tx t) = Some t.
Proof. intros H. apply decode_encode_weak, tx_wf_weak, H. Qed.

Lemma bytes_eqb_eq a : forall b, bytes_eqb a b = true -> a = b.
Proof.
  induction a as [|x a IH]; intros [|y b] H; cbn [bytes_eqb] in H; try discriminate; [reflexivity|].
  apply andb_true_iff in H. destruct H as [H1 H2]. apply N.eqb_eq in H1. apply IH in H2. congruence.
Qed.
Lemma bytes_eqb_refl a : bytes_eqb a a = true.
Proof. induction a as [|x a IH]; [reflexivity|]. cbn [bytes_eqb]. rewrite N.eqb_refl, IH. reflexivity. Qed.

Theorem encode_is_canonical t : tx_wf t -> canonical (encode_tx t) = true.
Proof. intros H. unfold canonical. rewrite decode_encode by exact H. apply bytes_eqb_refl. Qed.

(* of all the byte strings that decode to one transaction, at most one is canonical *)
Theorem canonical_unique b1 b2 : canonical b1 = true -> canonical b2 = true -> decode_tx b1 = decode_tx b2 -> b1 = b2.
Proof.
  unfold canonical. intros H1 H2 E. rewrite <- E in H2.
  destruct (decode_tx b1) as [t|]; [|discriminate].
  apply bytes_eqb_eq in H1. apply bytes_eqb_eq in H2. congruence.
Qed.

Lemma encode_injective_weak t1 t2 : wf_weak t1 -> wf_weak t2 -> encode_tx t1 = encode_tx t2 -> t1 = t2.
Proof.
  intros H1 H2 E. apply decode_encode_weak in H1. apply decode_encode_weak in H2. rewrite E in H1. congruence.
Qed.
Theorem encode_injective t1 t2 : tx_wf t1 -> tx_wf t2 -> encode_tx t1 = encode_tx t2 -> t1 = t2.
Proof. intros H1 H2. apply encode_injective_weak; apply tx_wf_weak; assumption. Qed.

Lemma unsigned_weak t : wf_weak t -> wf_weak (unsigned t).
Proof.
  intros [(H1 & H2 & H3 & H4 & H5 & H6 & H7) [S1 S2]]. unfold wf_weak, tx_leaf, tx_sub, unsigned.
  cbn [t_type t_msg t_sig t_created t_time t_fee t_memo t_net t_chain t_nonce]. tauto.
Qed.
Lemma sign_bytes_injective_weak t1 t2 : wf_weak t1 -> wf_weak t2 -> sign_bytes t1 = sign_bytes t2 -> unsigned t1 = unsigned t2.
Proof. intros H1 H2. apply encode_injective_weak; apply unsigned_weak; assumption. Qed.

(* the sign bytes determine everything but the signature (C19: sign-bytes are an injective encoding of the signed content) *)
Theorem sign_bytes_injective t1 t2 : tx_wf t1 -> tx_wf t2 -> sign_bytes t1 = sign_bytes t2 -> unsigned t1 = unsigned t2.
Proof. intros H1 H2. apply sign_bytes_injective_weak; apply tx_wf_weak; assumption. Qed.

(* ---- what the decoder guarantees (used by ReplayProofs): a decoded transaction has ASCII strings, 64-bit numbers and
   byte fields within the scanner's length limit; if moreover the byte string is canonical the transaction is [wf_weak] *)
Definition fb (f : N * fval) : Prop := match snd f with FBytes b => lenM b | FVar _ => True end.

Lemma scan_bound f : forall bs l, scan f bs = Some l -> Forall fb l.
Proof.
  induction f as [|f IH]; intros bs l H.
  - destruct bs; [|discriminate]. injection H as <-. constructor.
  - destruct bs as [|b r]; [injection H as <-; constructor|].
    rewrite scan_S in H. unfold scan_body in H.
    destruct (get_varint (b :: r)) as [[key r1]|]; [|discriminate]. cbv zeta in H.
    destruct (_ || _); [discriminate|].
    destruct (N.land key 7 =? 0).
    + destruct (get_varint r1) as [[v r2]|]; [|discriminate].
      destruct (scan f r2) as [l'|] eqn:E; [|discriminate]. injection H as <-.
      constructor; [exact I|]. apply IH in E. exact E.
    + destruct (N.land key 7 =? 2); [|discriminate].
      destruct (get_varint r1) as [[v r2]|]; [|discriminate].
      destruct (2147483647 <? v) eqn:Ev; [discriminate|].
      destruct (take (N.to_nat v) r2) as [[body r3]|] eqn:E3; [|discriminate].
      destruct (scan f r3) as [l'|] eqn:E; [|discriminate]. injection H as <-.
      apply take_spec in E3. destruct E3 as [_ E3].
      constructor; [|apply IH in E; exact E]. unfold fb, lenM. cbn [snd]. lia.
Qed.

Lemma any_fields_inv l : forall a0 a, any_fields l a0 = Some a -> Forall fb l -> any_leaf a0 -> any_leaf a.
Proof.
  induction l as [|[num v] r IH]; intros a0 a H Hb H0.
  - injection H as <-. exact H0.
  - inversion Hb as [|? ? Hf Hr]; subst. cbn [any_fields] in H. destruct H0 as (A1 & A2 & A3).
    destruct num as [|[p|[p|p|]|]]; try discriminate H; destruct v as [x|b]; try discriminate H; unfold fb in Hf; cbn [snd] in Hf.
    + apply IH in H; [exact H|exact Hr|]. repeat split; assumption.
    + destruct (ascii b) eqn:Eb; [|discriminate H]. apply IH in H; [exact H|exact Hr|]. repeat split; assumption.
Qed.
Lemma sgn_fields_inv l : forall s0 s, sgn_fields l s0 = Some s -> Forall fb l -> sgn_leaf s0 -> sgn_leaf s.
Proof.
  induction l as [|[num v] r IH]; intros s0 s H Hb H0.
  - injection H as <-. exact H0.
  - inversion Hb as [|? ? Hf Hr]; subst. cbn [sgn_fields] in H. destruct H0 as (A1 & A2).
    destruct num as [|[p|[p|p|]|]]; try discriminate H; destruct v as [x|b]; try discriminate H; unfold fb in Hf; cbn [snd] in Hf.
    + apply IH in H; [exact H|exact Hr|]. split; assumption.
    + apply IH in H; [exact H|exact Hr|]. split; assumption.
Qed.

Lemma lenM_nil : lenM []. Proof. unfold lenM. cbn [length]. lia. Qed.

Ltac leaf_tac :=
  unfold tx_leaf; cbn [t_type t_msg t_sig t_created t_time t_fee t_memo t_net t_chain t_nonce];
  repeat (first [assumption | apply u64_lt | split]).

Lemma tx_fields_inv l : forall t0 t, tx_fields l t0 = Some t -> Forall fb l -> tx_leaf t0 -> tx_leaf t.
Proof.
  induction l as [|[num v] r IH]; intros t0 t H Hb H0.
  - injection H as <-. exact H0.
  - inversion Hb as [|? ? Hf Hr]; subst. cbn [tx_fields] in H.
    destruct H0 as (H1 & H2 & H3 & H4 & H5 & H6 & H7 & H8 & H9 & H10 & H11 & H12).
    unfold fb in Hf; cbn [snd] in Hf.
    destruct num as [|p]; [discriminate H|].
    destruct p as [[[[p|p|]|[p|p|]|]|[[p|p|]|[p|p|]|]|]|[[[p|p|]|[p|p|]|]|[[p|p|]|[p|p|]|]|]|]; try discriminate H;
      destruct v as [x|b]; try discriminate H.
    all: try (apply IH in H; [exact H|exact Hr|leaf_tac]).
    all: try (destruct (ascii b) eqn:Eb; [|discriminate H]; apply IH in H; [exact H|exact Hr|leaf_tac]).
    + (* 3 *) destruct (scan (length b) b) as [fl|] eqn:Es; [|discriminate H]. apply scan_bound in Es.
      destruct (sgn_fields fl _) as [s|] eqn:Ef; [|discriminate H].
      apply sgn_fields_inv in Ef; [|exact Es|destruct (t_sig t0); [exact H6|split; apply lenM_nil]].
      apply IH in H; [exact H|exact Hr|]. leaf_tac.
    + (* 2 *) destruct (scan (length b) b) as [fl|] eqn:Es; [|discriminate H]. apply scan_bound in Es.
      destruct (any_fields fl _) as [a|] eqn:Ef; [|discriminate H].
      apply any_fields_inv in Ef; [|exact Es|destruct (t_msg t0); [exact H5|repeat split; try reflexivity; apply lenM_nil]].
      apply IH in H; [exact H|exact Hr|]. leaf_tac.
Qed.

Lemma leaf_empty : tx_leaf ptx_empty.
Proof.
  unfold tx_leaf, ptx_empty. cbn [t_type t_msg t_sig t_created t_time t_fee t_memo t_net t_chain t_nonce].
  repeat split; try reflexivity; try apply lenM_nil.
Qed.

Lemma decode_leaf b t : decode_tx b = Some t -> tx_leaf t.
Proof.
  unfold decode_tx. intros H. destruct (scan (length b) b) as [fl|] eqn:E; [|discriminate].
  apply scan_bound in E. apply (tx_fields_inv _ _ _ H E leaf_empty).
Qed.

Lemma canonical_weak b t : decode_tx b = Some t -> canonical b = true -> wf_weak t.
Proof.
  intros Hd Hc. pose proof (decode_leaf _ _ Hd) as Hl. split; [exact Hl|].
  unfold canonical in Hc. rewrite Hd in Hc. apply bytes_eqb_eq in Hc. subst b.
  assert (Hs : scanF (enc_flds (fields_of t)) <> None).
  { rewrite <- encode_tx_flds. rewrite decode_tx_scanF in Hd. intros E. rewrite E in Hd. discriminate. }
  apply scan_enc_flds_inv in Hs; [|apply fields_pre; exact Hl].
  unfold fields_of in Hs.
  apply Forall_app in Hs. destruct Hs as [_ Hs].
  apply Forall_app in Hs. destruct Hs as [Hm Hs].
  apply Forall_app in Hs. destruct Hs as [Hg _].
  split.
  - destruct (t_msg t) as [a|]; [|exact I]. inversion Hm as [|? ? Hx _]; subst. destruct Hx as [_ Hx]. exact Hx.
  - destruct (t_sig t) as [s|]; [|exact I]. inversion Hg as [|? ? Hx _]; subst. destruct Hx as [_ Hx]. exact Hx.
Qed.

(* two canonical byte strings with the same signed part and the same signature are the same byte string *)
Lemma unsigned_sig_eq t1 t2 : unsigned t1 = unsigned t2 -> t_sig t1 = t_sig t2 -> t1 = t2.
Proof.
  destruct t1 as [a1 a2 a3 a4 a5 a6 a7 a8 a9 a10], t2 as [c1 c2 c3 c4 c5 c6 c7 c8 c9 c10]. unfold unsigned. cbn [t_type t_msg t_sig t_created t_time t_fee t_memo t_net t_chain t_nonce].
  intros H1 H2. injection H1 as -> -> -> -> -> -> -> -> ->. subst. reflexivity.
Qed.
Lemma canonical_same_content b1 b2 t1 t2 :
  decode_tx b1 = Some t1 -> decode_tx b2 = Some t2 -> canonical b1 = true -> canonical b2 = true ->
  sign_bytes t1 = sign_bytes t2 -> t_sig t1 = t_sig t2 -> b1 = b2.
Proof.
  intros D1 D2 C1 C2 Hs Hg. apply canonical_unique; try assumption.
  rewrite D1, D2. f_equal. apply unsigned_sig_eq; [|exact Hg].
  apply sign_bytes_injective_weak; [eapply canonical_weak; eassumption|eapply canonical_weak; eassumption|exact Hs].
Qed.

(* non-vacuity and the defect repaired by c4187b5: the canonical bytes of a transfer, and two other byte strings that decode to
   the same transaction (an explicit empty memo appended; the fee written as a non-minimal varint) and are not canonical *)
Definition ex_tx : ptx := mkPtx [115;101;110;100] (Some (mkAny [47;116] [10;1;7;16;5])) (Some (mkSgn [1;2;3] [9;9]))
                                 7 1700000000000000 10000 [] 1 1 0.
Example ex_variants :
  tx_wf ex_tx /\ canonical (encode_tx ex_tx) = true /\
  decode_tx (encode_tx ex_tx ++ [58; 0]) = Some ex_tx /\ canonical (encode_tx ex_tx ++ [58; 0]) = false /\
  decode_tx (encode_tx ex_tx ++ [48; 144; 206; 0]) = Some ex_tx /\ canonical (encode_tx ex_tx ++ [48; 144; 206; 0]) = false.
Proof.
  split.
  - unfold tx_wf, ex_tx, any_wf, sgn_wf, len_ok, two64.
    cbn [t_type t_msg t_sig t_created t_time t_fee t_memo t_net t_chain t_nonce a_url a_value s_pk s_sig length].
    repeat split; try reflexivity.
  - repeat split; vm_compute; reflexivity.
Qed.
