(* BftArith.v — weighted sums over the validator set, set_power / byz_power as such sums, quorum intersection. *)
From Coq Require Import NArith List Bool Lia FinFun.
From V Require Import U64 Extracted Bft BftNet.
Import ListNotations.
Local Open Scope N_scope.

Definition sumf (h : N -> N) (l : list N) : N := fold_right N.add 0 (map h l).

Lemma sumf_le h1 h2 l : (forall i, In i l -> h1 i <= h2 i) -> sumf h1 l <= sumf h2 l.
Proof.
  unfold sumf. induction l as [|x l IH]; intros H; simpl; [lia|].
  assert (h1 x <= h2 x) by (apply H; now left).
  assert (fold_right N.add 0 (map h1 l) <= fold_right N.add 0 (map h2 l)) by (apply IH; intros; apply H; now right).
  lia.
Qed.

Lemma sumf_ext h1 h2 l : (forall i, In i l -> h1 i = h2 i) -> sumf h1 l = sumf h2 l.
Proof.
  intros H. apply N.le_antisymm; apply sumf_le; intros i Hi; rewrite (H i Hi); lia.
Qed.

Lemma sumf_add h1 h2 l : sumf (fun i => h1 i + h2 i) l = sumf h1 l + sumf h2 l.
Proof. unfold sumf. induction l as [|x l IH]; simpl; [reflexivity|]. rewrite IH. lia. Qed.

Lemma sumf_zero l : sumf (fun _ => 0) l = 0.
Proof. unfold sumf. induction l as [|x l IH]; simpl; auto. Qed.

Lemma sumf_single h x l : NoDup l ->
  sumf (fun i => if i =? x then h i else 0) l = if existsb (N.eqb x) l then h x else 0.
Proof.
  unfold sumf. induction l as [|y l IH]; intros Hnd; simpl; [reflexivity|].
  inversion Hnd as [|? ? Hni Hnd']; subst. rewrite (IH Hnd').
  destruct (N.eqb_spec y x) as [->|Hne].
  - rewrite N.eqb_refl. simpl.
    destruct (existsb (N.eqb x) l) eqn:E.
    + apply existsb_exists in E. destruct E as [z [Hz Hxz]]. apply N.eqb_eq in Hxz. subst z. contradiction.
    + lia.
  - assert (x =? y = false) as -> by (apply N.eqb_neq; congruence). simpl. reflexivity.
Qed.

Lemma map_nth_seq (l : list N) d : map (fun k => nth k l d) (seq 0 (length l)) = l.
Proof.
  induction l as [|x l IH]; simpl; [reflexivity|]. f_equal.
  rewrite <- seq_shift, map_map. exact IH.
Qed.

Section Power.
Variable P : list N.

Definition vals : list N := map N.of_nat (seq 0 (length P)).
Definition pw (i : N) : N := nth (N.to_nat i) P 0.
Definition wsum (f : N -> bool) : N := sumf (fun i => if f i then pw i else 0) vals.
Definition ptotal : N := fold_right N.add 0 P.

Lemma vals_NoDup : NoDup vals.
Proof.
  unfold vals. apply Injective_map_NoDup; [|apply seq_NoDup].
  intros a b H. lia.
Qed.

Lemma in_vals i : In i vals <-> i < N.of_nat (length P).
Proof.
  unfold vals. rewrite in_map_iff. split.
  - intros [k [Hk Hin]]. apply in_seq in Hin. lia.
  - intros H. exists (N.to_nat i). split; [lia|]. apply in_seq. lia.
Qed.

Lemma wsum_le f g : (forall i, In i vals -> f i = true -> g i = true) -> wsum f <= wsum g.
Proof.
  intros H. unfold wsum. apply sumf_le. intros i Hi.
  destruct (f i) eqn:E; [rewrite (H i Hi E); lia|]. destruct (g i); lia.
Qed.

Lemma wsum_ext f g : (forall i, In i vals -> f i = g i) -> wsum f = wsum g.
Proof. intros H. unfold wsum. apply sumf_ext. intros i Hi. now rewrite (H i Hi). Qed.

Lemma wsum_total : wsum (fun _ => true) = ptotal.
Proof.
  unfold wsum, sumf, vals, pw, ptotal. rewrite map_map.
  replace (map (fun x : nat => nth (N.to_nat (N.of_nat x)) P 0) (seq 0 (length P))) with P; [reflexivity|].
  rewrite <- (map_nth_seq P 0) at 1. apply map_ext. intros a. now rewrite Nnat.Nat2N.id.
Qed.

Lemma wsum_le_total f : wsum f <= ptotal.
Proof. rewrite <- wsum_total. apply wsum_le. auto. Qed.

Lemma wsum_split f g : wsum f + wsum g = wsum (fun i => f i && g i) + wsum (fun i => f i || g i).
Proof.
  unfold wsum. rewrite <- !sumf_add. apply sumf_ext. intros i _.
  destruct (f i), (g i); simpl; lia.
Qed.

Lemma pw_out i : N.of_nat (length P) <= i -> pw i = 0.
Proof. intros H. unfold pw. apply nth_overflow. lia. Qed.

Lemma wsum_single x : wsum (fun i => i =? x) = pw x.
Proof.
  unfold wsum. rewrite (sumf_single pw x vals vals_NoDup).
  destruct (existsb (N.eqb x) vals) eqn:E; [reflexivity|].
  symmetry. apply pw_out. apply N.le_ngt. intros Hlt. apply in_vals in Hlt.
  assert (existsb (N.eqb x) vals = true); [|congruence].
  apply existsb_exists. exists x. split; [assumption|apply N.eqb_refl].
Qed.

Definition memb (l : list N) (i : N) : bool := existsb (N.eqb i) l.

Lemma memb_In l i : memb l i = true <-> In i l.
Proof.
  unfold memb. rewrite existsb_exists. split.
  - intros [x [Hx E]]. apply N.eqb_eq in E. now subst.
  - intros H. exists i. split; [assumption|apply N.eqb_refl].
Qed.

Lemma set_power_wsum c l : c_powers c = P -> set_power c l = wsum (memb l).
Proof.
  intros HP. unfold set_power. induction l as [|x l IH]; simpl.
  - unfold wsum. symmetry. apply sumf_zero.
  - destruct (existsb (N.eqb x) l) eqn:E.
    + rewrite IH. apply wsum_ext. intros i _. unfold memb. simpl.
      destruct (N.eqb_spec i x) as [->|]; [now rewrite E|reflexivity].
    + simpl. rewrite IH.
      assert (Hs : wsum (fun i => i =? x) + wsum (memb l) =
                   wsum (fun i => (i =? x) && memb l i) + wsum (fun i => (i =? x) || memb l i)) by apply wsum_split.
      rewrite wsum_single in Hs.
      assert (Hz : wsum (fun i => (i =? x) && memb l i) = 0).
      { unfold wsum. transitivity (sumf (fun _ => 0) vals); [|apply sumf_zero]. apply sumf_ext. intros i _.
        destruct (N.eqb_spec i x) as [->|]; simpl; [|reflexivity]. unfold memb. now rewrite E. }
      rewrite Hz in Hs. unfold power_of. rewrite HP. fold (pw x).
      transitivity (wsum (fun i => (i =? x) || memb l i)); [lia|].
      apply wsum_ext. intros i _. reflexivity.
Qed.

Lemma byz_power_wsum ids : byz_power P ids = wsum (fun i => negb (memb ids i)).
Proof.
  unfold byz_power, wsum, sumf. fold vals. f_equal. apply map_ext. intros i.
  unfold memb, pw. destruct (existsb (N.eqb i) ids); reflexivity.
Qed.

Lemma maj_exact c : c_powers c = P -> ptotal < two64 -> maj23 c = 2 * ptotal / 3 + 1.
Proof.
  intros HP H. unfold maj23, total_power, minimumMaj23. rewrite HP. fold ptotal. unfold two64 in H.
  rewrite (mul64_exact 2 (ptotal / 3)) by (unfold two64; lia).
  rewrite (mul64_exact 2 (ptotal mod 3)) by (unfold two64; lia).
  rewrite (add64_exact (2 * (ptotal / 3))) by (unfold two64; lia).
  rewrite add64_exact by (unfold two64; lia). lia.
Qed.

(* quorum intersection: two sets of +2/3 power share a member outside any set [bz] of less than 1/3 power *)
Lemma quorum_inter T f g bz :
  T = 2 * ptotal / 3 + 1 -> 3 * wsum bz < ptotal -> T <= wsum f -> T <= wsum g ->
  exists i, In i vals /\ f i = true /\ g i = true /\ bz i = false.
Proof.
  intros HT Hbz Hf Hg.
  destruct (existsb (fun i => f i && g i && negb (bz i)) vals) eqn:E.
  - apply existsb_exists in E. destruct E as [i [Hi Hb]].
    apply andb_true_iff in Hb. destruct Hb as [Hb Hb3]. apply andb_true_iff in Hb. destruct Hb as [Hb1 Hb2].
    apply negb_true_iff in Hb3. exists i. auto.
  - exfalso.
    assert (Hle : wsum (fun i => f i && g i) <= wsum bz).
    { apply wsum_le. intros i Hi Hfg. destruct (bz i) eqn:Eb; [reflexivity|].
      assert (existsb (fun i => f i && g i && negb (bz i)) vals = true); [|congruence].
      apply existsb_exists. exists i. split; [assumption|]. now rewrite Hfg, Eb. }
    pose proof (wsum_split f g) as Hs.
    pose proof (wsum_le_total (fun i => f i || g i)) as Ht.
    lia.
Qed.
End Power.
