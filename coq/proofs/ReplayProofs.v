(* ReplayProofs.v — a signed transaction takes effect at most once (property C06). *)
From Coq Require Import NArith List Bool Lia.
From V Require Import Bytes Proto Replay ProtoProofs.
Import ListNotations.
Local Open Scope N_scope.

(* ---- small list facts *)
Lemma NoDup_app_i {A} (l1 l2 : list A) :
  NoDup l1 -> NoDup l2 -> (forall x, In x l1 -> ~ In x l2) -> NoDup (l1 ++ l2).
Proof.
  induction l1 as [|a l1 IH]; intros H1 H2 Hd; [exact H2|].
  inversion H1 as [|? ? Ha Hl]; subst. cbn [app]. constructor.
  - intros Hin. apply in_app_or in Hin. destruct Hin as [Hin|Hin]; [exact (Ha Hin)|].
    apply (Hd a); [left; reflexivity|exact Hin].
  - apply IH; [exact Hl|exact H2|]. intros x Hx. apply Hd. right. exact Hx.
Qed.
Lemma NoDup_map_inj_on {A B} (f : A -> B) (l : list A) :
  (forall x y, In x l -> In y l -> f x = f y -> x = y) -> NoDup l -> NoDup (map f l).
Proof.
  induction l as [|a l IH]; intros Hinj Hnd; [constructor|].
  inversion Hnd as [|? ? Ha Hl]; subst. cbn [map]. constructor.
  - intros Hin. apply in_map_iff in Hin. destruct Hin as (x & Hfx & Hx).
    assert (x = a) by (apply Hinj; [right; exact Hx|left; reflexivity|exact Hfx]). subst x. exact (Ha Hx).
  - apply IH; [|exact Hl]. intros x y Hx Hy. apply Hinj; right; assumption.
Qed.
Lemma map_snd_pair {A B} (h : A) (l : list B) : map snd (map (fun b => (h, b)) l) = l.
Proof. induction l as [|x l IH]; [reflexivity|]. cbn [map snd]. rewrite IH. reflexivity. Qed.
Lemma existsb_false_notin b l : existsb (bytes_eqb b) l = false -> ~ In b l.
Proof.
  intros H Hin. assert (E : existsb (bytes_eqb b) l = true).
  { apply existsb_exists. exists b. split; [exact Hin|apply bytes_eqb_refl]. }
  congruence.
Qed.

Section ReplayProofs.
Variable verify : bytes -> bytes -> bytes -> bool.
Variable pk_canon : bytes -> bool.
Variable key_of : bytes -> N.
(* a key has one canonical representation (what CheckSignature enforces since the second fix: publicKey.Bytes() == wire bytes) *)
Hypothesis pk_inj : forall a b, pk_canon a = true -> pk_canon b = true -> key_of a = key_of b -> a = b.

Definition authentic (b : bytes) : Prop :=
  exists t s, decode_tx b = Some t /\ t_sig t = Some s /\ canonical b = true /\ pk_canon (s_pk s) = true /\
              verify (s_pk s) (sign_bytes t) (s_sig s) = true.

Lemma accept_spec cf h inc b t : accept verify pk_canon cf h inc b = Some t ->
  decode_tx b = Some t /\ canonical b = true /\ check_replay cf h inc b t = true /\
  exists s, t_sig t = Some s /\ pk_canon (s_pk s) = true /\ verify (s_pk s) (sign_bytes t) (s_sig s) = true.
Proof.
  unfold accept. intros H. destruct (decode_tx b) as [t'|]; [|discriminate].
  destruct (canonical b && check_replay cf h inc b t' && _) eqn:E; [|discriminate].
  injection H as <-. apply andb_true_iff in E. destruct E as [E E3]. apply andb_true_iff in E. destruct E as [E1 E2].
  destruct (t_sig t') as [s|]; [|discriminate]. apply andb_true_iff in E3. destruct E3 as [E3 E4].
  split; [reflexivity|]. split; [exact E1|]. split; [exact E2|]. exists s. split; [reflexivity|]. split; assumption.
Qed.

Lemma accept_authentic cf h inc b t : accept verify pk_canon cf h inc b = Some t -> authentic b.
Proof.
  intros H. apply accept_spec in H. destruct H as (D & C & _ & s & S & K & V).
  exists t, s. repeat split; assumption.
Qed.

Lemma check_replay_fresh cf h inc b t : check_replay cf h inc b t = true -> (h < 2 -> inc = []) -> ~ In b inc.
Proof.
  unfold check_replay. intros H Hinc. apply andb_true_iff in H. destruct H as [_ H].
  apply orb_true_iff in H. destruct H as [H|H].
  - apply N.ltb_lt in H. rewrite (Hinc H). intros [].
  - apply andb_true_iff in H. destruct H as [H _]. apply andb_true_iff in H. destruct H as [H _].
    apply negb_true_iff in H. apply existsb_false_notin. exact H.
Qed.

Lemma exec_block_spec cf h inc offered : forall seen b,
  In b (exec_block verify pk_canon cf h inc seen offered) ->
  ~ In b seen /\ exists t, accept verify pk_canon cf h inc b = Some t.
Proof.
  induction offered as [|x r IH]; intros seen b Hin; [destruct Hin|].
  cbn [exec_block] in Hin. destruct (existsb (bytes_eqb x) seen) eqn:Es; [apply IH; exact Hin|].
  destruct (accept verify pk_canon cf h inc x) as [t|] eqn:Ea; [|apply IH; exact Hin].
  destruct Hin as [<-|Hin].
  - split; [apply existsb_false_notin; exact Es|exists t; exact Ea].
  - apply IH in Hin. destruct Hin as [Hn Ht]. split; [|exact Ht]. intros Hs. apply Hn. right. exact Hs.
Qed.

Lemma exec_block_nodup cf h inc offered : forall seen, NoDup (exec_block verify pk_canon cf h inc seen offered).
Proof.
  induction offered as [|x r IH]; intros seen; [constructor|].
  cbn [exec_block]. destruct (existsb (bytes_eqb x) seen); [apply IH|].
  destruct (accept verify pk_canon cf h inc x); [|apply IH].
  constructor; [|apply IH]. intros Hin. apply exec_block_spec in Hin. destruct Hin as [Hn _].
  apply Hn. left. reflexivity.
Qed.

Lemma exec_chain_in cf blocks : forall h0 inc h b, In (h, b) (exec_chain verify pk_canon cf h0 inc blocks) ->
  exists inc' t, accept verify pk_canon cf h inc' b = Some t.
Proof.
  induction blocks as [|blk r IH]; intros h0 inc h b Hin; [destruct Hin|].
  cbn [exec_chain] in Hin. cbv zeta in Hin. apply in_app_or in Hin. destruct Hin as [Hin|Hin].
  - apply in_map_iff in Hin. destruct Hin as (x & Hx & Hin). injection Hx as <- <-.
    apply exec_block_spec in Hin. destruct Hin as [_ [t Ht]]. exists inc, t. exact Ht.
  - apply IH in Hin. exact Hin.
Qed.

Lemma chain_inv cf blocks : forall h inc, 1 <= h -> (h < 2 -> inc = []) ->
  NoDup (map snd (exec_chain verify pk_canon cf h inc blocks)) /\
  (forall b, In b (map snd (exec_chain verify pk_canon cf h inc blocks)) -> ~ In b inc) /\
  Forall authentic (map snd (exec_chain verify pk_canon cf h inc blocks)).
Proof.
  induction blocks as [|blk r IH]; intros h inc Hh Hinc.
  - cbn [exec_chain map]. split; [constructor|]. split; [intros b []|constructor].
  - cbn [exec_chain]. cbv zeta. set (E := exec_block verify pk_canon cf h inc [] blk).
    rewrite map_app, map_snd_pair.
    destruct (IH (h + 1) (E ++ inc)) as (R1 & R2 & R3); [lia|lia|].
    set (R := map snd (exec_chain verify pk_canon cf (h + 1) (E ++ inc) r)) in *.
    assert (HE : forall b, In b E -> authentic b /\ ~ In b inc).
    { intros b Hb. apply exec_block_spec in Hb. destruct Hb as [_ [t Ht]]. split; [eapply accept_authentic; exact Ht|].
      apply accept_spec in Ht. destruct Ht as (_ & _ & Hc & _). eapply check_replay_fresh; eassumption. }
    split; [|split].
    + apply NoDup_app_i; [apply exec_block_nodup|exact R1|].
      intros x Hx HxR. apply (R2 x HxR). apply in_or_app. left. exact Hx.
    + intros b Hb. apply in_app_or in Hb. destruct Hb as [Hb|Hb].
      * apply HE. exact Hb.
      * intros Hi. apply (R2 b Hb). apply in_or_app. right. exact Hi.
    + apply Forall_app. split; [|exact R3]. apply Forall_forall. intros b Hb. apply HE. exact Hb.
Qed.

Lemma authentic_content_inj b1 b2 : authentic b1 -> authentic b2 ->
  signed_content key_of b1 = signed_content key_of b2 -> b1 = b2.
Proof.
  intros (t1 & s1 & D1 & S1 & C1 & K1 & _) (t2 & s2 & D2 & S2 & C2 & K2 & _) H.
  unfold signed_content in H. rewrite D1, D2, S1, S2 in H. injection H as Hsb Hk Hsg.
  apply pk_inj in Hk; [|exact K1|exact K2].
  apply (canonical_same_content b1 b2 t1 t2 D1 D2 C1 C2 Hsb).
  rewrite S1, S2. f_equal. destruct s1 as [p1 g1], s2 as [p2 g2]. cbn [s_pk s_sig] in *. subst. reflexivity.
Qed.

(* MAIN THEOREM: along any chain of blocks, whatever byte strings are offered and re-offered (identical bytes, re-encodings,
   other key representations), no signed content - (sign bytes, signer key, signature) - is executed twice *)
Theorem no_signed_content_executes_twice cf blocks :
  NoDup (map (fun e => signed_content key_of (snd e)) (exec_chain verify pk_canon cf 1 [] blocks)) /\
  Forall (fun e => signed_content key_of (snd e) <> None) (exec_chain verify pk_canon cf 1 [] blocks).
Proof.
  destruct (chain_inv cf blocks 1 []) as (Hnd & _ & Hau); [lia|reflexivity|].
  rewrite Forall_forall in Hau. split.
  - rewrite <- (map_map snd (signed_content key_of)). apply NoDup_map_inj_on; [|exact Hnd].
    intros x y Hx Hy. apply authentic_content_inj; apply Hau; assumption.
  - apply Forall_forall. intros e He.
    destruct (Hau (snd e) (in_map snd _ _ He)) as (t & s & D & S & _).
    unfold signed_content. rewrite D, S. discriminate.
Qed.

(* an executed transaction was signed for this network and chain, and (from height 2 on) created inside the window *)
Theorem executed_here_and_now cf blocks h b : In (h, b) (exec_chain verify pk_canon cf 1 [] blocks) ->
  exists t, decode_tx b = Some t /\ t_net t = rc_net cf /\ t_chain t = rc_chain cf /\
            (2 <= h -> t_created t <= h + rc_range cf /\ h <= t_created t + rc_range cf).
Proof.
  intros Hin. apply exec_chain_in in Hin. destruct Hin as (inc & t & Ha).
  apply accept_spec in Ha. destruct Ha as (D & _ & Hc & _). exists t. split; [exact D|].
  unfold check_replay in Hc. apply andb_true_iff in Hc. destruct Hc as [Hc Hw].
  apply andb_true_iff in Hc. destruct Hc as [Hn Hch]. apply N.eqb_eq in Hn. apply N.eqb_eq in Hch.
  split; [exact Hn|]. split; [exact Hch|]. intros H2.
  apply orb_true_iff in Hw. destruct Hw as [Hw|Hw]; [apply N.ltb_lt in Hw; lia|].
  apply andb_true_iff in Hw. destruct Hw as [Hw Hlo]. apply andb_true_iff in Hw. destruct Hw as [_ Hhi].
  apply N.leb_le in Hhi. apply N.leb_le in Hlo. split; [exact Hhi|].
  destruct (rc_range cf <? h) eqn:E; [apply N.ltb_lt in E|apply N.ltb_ge in E]; lia.
Qed.

(* every executed byte string is canonical, carries a canonical key and a verifying signature over its sign bytes *)
Theorem executed_is_authentic cf blocks h b : In (h, b) (exec_chain verify pk_canon cf 1 [] blocks) ->
  exists t s, decode_tx b = Some t /\ t_sig t = Some s /\ canonical b = true /\ pk_canon (s_pk s) = true /\
              verify (s_pk s) (sign_bytes t) (s_sig s) = true.
Proof.
  intros Hin. apply exec_chain_in in Hin. destruct Hin as (inc & t & Ha).
  apply accept_authentic in Ha. exact Ha.
Qed.
End ReplayProofs.

Print Assumptions decode_encode.
Print Assumptions canonical_unique.
Print Assumptions sign_bytes_injective.
Print Assumptions no_signed_content_executes_twice.
