(* VStoreProofs.v — lemmas for property C10 (store read semantics; immutability of committed history) over model/VStore.v *)
From Coq Require Import NArith List Bool Lia Permutation PeanoNat.
From V Require Import U64 Bytes Extracted Keys KeysProofs VStore.
Import ListNotations.
Local Open Scope N_scope.

Definition u64v (v : N) : Prop := v < 18446744073709551616.

(* ================================================================ auxiliary material *)

(* ---- generic list facts *)
Lemma NoDup_map_inj_in (A B : Type) (f : A -> B) (l : list A) a b :
  NoDup (map f l) -> In a l -> In b l -> f a = f b -> a = b.
Proof.
  induction l as [|x l IH]; intros Hnd Ha Hb E; [contradiction|].
  cbn [map] in Hnd. inversion Hnd as [|y ys Hnin Hnd' Heq]; subst.
  destruct Ha as [Ha|Ha], Hb as [Hb|Hb]; subst.
  - reflexivity.
  - exfalso. apply Hnin. rewrite E. now apply in_map.
  - exfalso. apply Hnin. rewrite <- E. now apply in_map.
  - now apply IH.
Qed.

(* ---- the visible entry as a fold with an invariant *)
Definition vmatch (ver : N) (k : bytes) (e : entry) : bool := bytes_eqb (e_key e) k && (e_ver e <=? ver).
Definition vstep (ver : N) (k : bytes) (best : option entry) (e : entry) : option entry :=
  if vmatch ver k e
  then match best with
       | Some b => if e_ver b <? e_ver e then Some e else best
       | None => Some e
       end
  else best.
Lemma visible_entry_fold db ver k : visible_entry db ver k = fold_left (vstep ver k) db None.
Proof. reflexivity. Qed.

Definition vinv (ver : N) (k : bytes) (acc : option entry) (seen : list entry) : Prop :=
  match acc with
  | None => forall x, In x seen -> vmatch ver k x = false
  | Some b => In b seen /\ vmatch ver k b = true /\
              forall x, In x seen -> vmatch ver k x = true -> e_ver x <= e_ver b
  end.

Lemma vinv_fold ver k l : forall acc seen, vinv ver k acc seen ->
  vinv ver k (fold_left (vstep ver k) l acc) (seen ++ l).
Proof.
  induction l as [|e l IH]; intros acc seen H.
  - rewrite app_nil_r. exact H.
  - cbn [fold_left]. replace (seen ++ e :: l) with ((seen ++ [e]) ++ l) by (rewrite <- app_assoc; reflexivity).
    apply IH. unfold vstep. destruct (vmatch ver k e) eqn:M; destruct acc as [b|]; cbn [vinv] in *.
    + destruct H as (Hb & Mb & Hmax). destruct (e_ver b <? e_ver e) eqn:L.
      * apply N.ltb_lt in L. split; [apply in_or_app; right; now left|]. split; [exact M|].
        intros x Hx Mx. apply in_app_or in Hx. destruct Hx as [Hx|[Hx|[]]].
        -- specialize (Hmax x Hx Mx). lia.
        -- subst x. lia.
      * apply N.ltb_ge in L. split; [apply in_or_app; now left|]. split; [exact Mb|].
        intros x Hx Mx. apply in_app_or in Hx. destruct Hx as [Hx|[Hx|[]]].
        -- now apply Hmax.
        -- subst x. exact L.
    + split; [apply in_or_app; right; now left|]. split; [exact M|].
      intros x Hx Mx. apply in_app_or in Hx. destruct Hx as [Hx|[Hx|[]]].
      * rewrite (H x Hx) in Mx. discriminate Mx.
      * subst x. lia.
    + destruct H as (Hb & Mb & Hmax). split; [apply in_or_app; now left|]. split; [exact Mb|].
      intros x Hx Mx. apply in_app_or in Hx. destruct Hx as [Hx|[Hx|[]]].
      * now apply Hmax.
      * subst x. rewrite M in Mx. discriminate Mx.
    + intros x Hx. apply in_app_or in Hx. destruct Hx as [Hx|[Hx|[]]].
      * now apply H.
      * now subst x.
Qed.

Lemma visible_entry_inv db ver k : vinv ver k (visible_entry db ver k) db.
Proof.
  rewrite visible_entry_fold. change db with ([] ++ db) at 2. apply vinv_fold.
  cbn [vinv]. intros x [].
Qed.

Lemma vmatch_key ver k e : vmatch ver k e = true -> e_key e = k /\ e_ver e <= ver.
Proof.
  unfold vmatch. intros H. apply andb_true_iff in H. destruct H as [H1 H2].
  apply bytes_eqb_eq in H1. apply N.leb_le in H2. now split.
Qed.

(* ---- pairwise relations on lists *)
Fixpoint pw {A : Type} (R : A -> A -> Prop) (l : list A) : Prop :=
  match l with
  | [] => True
  | a :: r => Forall (R a) r /\ pw R r
  end.

Lemma pw_app {A : Type} (R : A -> A -> Prop) (x y : list A) :
  pw R (x ++ y) <-> pw R x /\ pw R y /\ (forall a b, In a x -> In b y -> R a b).
Proof.
  induction x as [|a x IH]; cbn [app pw].
  - split; [intros H; repeat split; [exact H | intros a b []] | intros (_ & H & _); exact H].
  - rewrite Forall_app, IH. split.
    + intros ((F1 & F2) & P1 & P2 & C). repeat split; try assumption.
      intros a' b [Ha|Ha] Hb; [subst a'; rewrite Forall_forall in F2; now apply F2 | now apply C].
    + intros ((F1 & P1) & P2 & C). repeat split; try assumption.
      * apply Forall_forall. intros b Hb. apply C; [now left | exact Hb].
      * intros a' b Ha Hb. apply C; [now right | exact Hb].
Qed.

Lemma pw_impl_in {A : Type} (R S : A -> A -> Prop) (l : list A) :
  (forall a b, In a l -> In b l -> R a b -> S a b) -> pw R l -> pw S l.
Proof.
  induction l as [|a l IH]; intros H P; [exact I|]. cbn [pw] in *. destruct P as [F P]. split.
  - rewrite Forall_forall in *. intros b Hb. apply H; [now left | now right | now apply F].
  - apply IH; [|exact P]. intros x y Hx Hy. apply H; now right.
Qed.

Lemma pw_filter {A : Type} (R : A -> A -> Prop) (f : A -> bool) (l : list A) : pw R l -> pw R (filter f l).
Proof.
  induction l as [|a l IH]; intros P; [exact I|]. cbn [pw filter] in *. destruct P as [F P].
  destruct (f a); [|now apply IH]. cbn [pw]. split; [|now apply IH].
  rewrite Forall_forall in *. intros b Hb. apply filter_In in Hb. now apply F.
Qed.

Lemma pw_nth {A : Type} (R : A -> A -> Prop) (l : list A) : pw R l ->
  forall i j a b, (i < j)%nat -> nth_error l i = Some a -> nth_error l j = Some b -> R a b.
Proof.
  induction l as [|x l IH]; intros P i j a b Hij Hi Hj.
  - destruct i; discriminate Hi.
  - cbn [pw] in P. destruct P as [F P]. destruct j as [|j]; [lia|]. cbn [nth_error] in Hj.
    destruct i as [|i].
    + cbn [nth_error] in Hi. injection Hi as <-. rewrite Forall_forall in F. apply F. eapply nth_error_In, Hj.
    + cbn [nth_error] in Hi. apply (IH P i j); [lia | exact Hi | exact Hj].
Qed.

(* ---- order of raw keys = (user key order, then version descending) for prefix-free keys *)
Definition eok (e : entry) : Prop :=
  wf_bytes (e_key e) /\ e_key e <> [] /\ e_ver e < 18446744073709551616 /\ (length (e_key e) <= 248)%nat.
Definition incomp (a b : bytes) : Prop := ~ is_prefix a b /\ ~ is_prefix b a.

Lemma incomp_sym a b : incomp a b -> incomp b a.
Proof. intros [H1 H2]. now split. Qed.

Lemma is_prefix_cons x a b : is_prefix a b -> is_prefix (x :: a) (x :: b).
Proof. intros [s ->]. now exists s. Qed.

Lemma is_prefix_refl a : is_prefix a a.
Proof. exists []. now rewrite app_nil_r. Qed.

(* the heart: for keys neither of which is a prefix of the other, suffixes do not matter *)
Lemma lex_lt_incomp a b x y : incomp a b -> lex_lt (a ++ x) (b ++ y) = lex_lt a b.
Proof.
  revert b. induction a as [|p a IH]; intros [|q b] [H1 H2].
  - exfalso. apply H1. apply is_prefix_refl.
  - exfalso. apply H1. now exists (q :: b).
  - exfalso. apply H2. now exists (p :: a).
  - cbn [app lex_lt]. destruct (N.eqb_spec p q) as [->|Hne].
    + rewrite IH; [reflexivity|]. split; intros Hp; [apply H1 | apply H2]; now apply is_prefix_cons.
    + rewrite !andb_false_l. reflexivity.
Qed.

Definition rawlt (a b : entry) : Prop := lex_lt (rawkey a) (rawkey b) = true.
Definition kfree (l : list entry) : Prop :=
  forall a b, In a l -> In b l -> e_key a = e_key b \/ incomp (e_key a) (e_key b).

Lemma sorted_raw_pw l : sorted_raw l = true -> pw rawlt l.
Proof.
  induction l as [|a l IH]; intros H; [exact I|].
  destruct l as [|b r]; [cbn; auto|].
  cbn [sorted_raw] in H. apply andb_true_iff in H. destruct H as [Hab Hs].
  specialize (IH Hs). cbn [pw] in *. destruct IH as [F P]. split; [|now split].
  constructor; [exact Hab|]. rewrite Forall_forall in *. intros x Hx.
  unfold rawlt in *. eapply lex_lt_trans; [exact Hab | now apply F].
Qed.

Lemma prefix_free_kfree l : prefix_free (keys_of l) -> kfree l.
Proof.
  intros H a b Ha Hb. destruct (bytes_eqb (e_key a) (e_key b)) eqn:E.
  - left. now apply bytes_eqb_eq.
  - right. assert (Hne : e_key a <> e_key b).
    { intros C. apply bytes_eqb_eq in C. rewrite C in E. discriminate E. }
    assert (Ia : In (e_key a) (keys_of l)) by (now apply in_map).
    assert (Ib : In (e_key b) (keys_of l)) by (now apply in_map).
    split; intros Hp.
    + apply Hne. now apply H.
    + apply Hne. symmetry. now apply H.
Qed.

Lemma rawlt_cases a b : eok a -> eok b -> (e_key a = e_key b \/ incomp (e_key a) (e_key b)) -> rawlt a b ->
  (e_key a = e_key b /\ e_ver b < e_ver a) \/ (incomp (e_key a) (e_key b) /\ lex_lt (e_key a) (e_key b) = true).
Proof.
  intros (_ & _ & Va & _) (_ & _ & Vb & _) [E|I] H; unfold rawlt, rawkey in H.
  - left. split; [exact E|]. rewrite E in H. rewrite versioned_order in H by assumption. now apply N.ltb_lt.
  - right. split; [exact I|]. unfold versioned_key in H. now rewrite lex_lt_incomp in H.
Qed.

Lemma rawlt_same_key a b : eok a -> eok b -> e_key a = e_key b -> rawlt a b -> e_ver b < e_ver a.
Proof.
  intros Ha Hb E H. destruct (rawlt_cases a b Ha Hb (or_introl E) H) as [[_ L]|[[I _] _]]; [exact L|].
  exfalso. apply I. rewrite E. apply is_prefix_refl.
Qed.

Lemma rawlt_diff_key a b : eok a -> eok b -> (e_key a = e_key b \/ incomp (e_key a) (e_key b)) ->
  e_key a <> e_key b -> rawlt a b -> incomp (e_key a) (e_key b) /\ lex_lt (e_key a) (e_key b) = true.
Proof.
  intros Ha Hb K Hne H. destruct (rawlt_cases a b Ha Hb K H) as [[E _]|R]; [contradiction | exact R].
Qed.

(* probes used by the seeks *)
Lemma raw_lt_pend_same e : eok e -> lex_lt (rawkey e) (prefix_end (e_key e)) = true.
Proof.
  intros _. unfold rawkey, versioned_key, prefix_end. rewrite lex_lt_app_common.
  apply lex_lt_repeat_bound; [apply be64_wf|]. rewrite be64_length.
  change (N.to_nat maxKeyBytes) with 256%nat. lia.
Qed.
Lemma raw_lt_pend_incomp e lk : incomp (e_key e) lk -> lex_lt (rawkey e) (prefix_end lk) = lex_lt (e_key e) lk.
Proof. intros I. unfold rawkey, versioned_key, prefix_end. now apply lex_lt_incomp. Qed.
Lemma raw_lt_key_same e : lex_lt (rawkey e) (e_key e) = false.
Proof. unfold rawkey, versioned_key. apply lex_lt_app_nil_r. Qed.
Lemma raw_lt_key_incomp e lk : incomp (e_key e) lk -> lex_lt (rawkey e) lk = lex_lt (e_key e) lk.
Proof.
  intros I. unfold rawkey, versioned_key. rewrite <- (app_nil_r lk) at 1. now apply lex_lt_incomp.
Qed.
Lemma raw_ge_vkey e ver : eok e -> u64v ver -> lex_le (versioned_key (e_key e) ver) (rawkey e) = (e_ver e <=? ver).
Proof.
  intros (_ & _ & Ve & _) Hv. unfold lex_le, rawkey. rewrite versioned_order by assumption.
  destruct (N.ltb_spec ver (e_ver e)), (N.leb_spec (e_ver e) ver); cbn; try reflexivity; lia.
Qed.

(* ---- the basic package of facts about a well-formed entry list, stable under filtering *)
Definition base (l : list entry) : Prop := pw rawlt l /\ kfree l /\ Forall eok l.

Lemma db_wf_base db : db_wf db -> base db.
Proof.
  intros (S & P & F). split; [now apply sorted_raw_pw|]. split; [now apply prefix_free_kfree | exact F].
Qed.

Lemma base_filter f l : base l -> base (filter f l).
Proof.
  intros (P & K & F). split; [now apply pw_filter|]. split.
  - intros a b Ha Hb. apply filter_In in Ha, Hb. now apply K.
  - rewrite Forall_forall in *. intros x Hx. apply filter_In in Hx. now apply F.
Qed.

Lemma base_tail e l : base (e :: l) -> base l.
Proof.
  intros (P & K & F). cbn [pw] in P. split; [tauto|]. split.
  - intros a b Ha Hb. apply K; now right.
  - now inversion F.
Qed.

Lemma base_head_lt e l x : base (e :: l) -> In x l -> rawlt e x.
Proof. intros (P & _ & _) Hx. cbn [pw] in P. destruct P as [F _]. rewrite Forall_forall in F. now apply F. Qed.

Lemma base_eok l x : base l -> In x l -> eok x.
Proof. intros (_ & _ & F) Hx. rewrite Forall_forall in F. now apply F. Qed.

Lemma base_keys l a b : base l -> In a l -> In b l -> e_key a = e_key b \/ incomp (e_key a) (e_key b).
Proof. intros (_ & K & _). apply K. Qed.

(* once the key changes it never comes back *)
Lemma no_return e y r x : base (e :: y :: r) -> e_key e <> e_key y -> In x r -> e_key x <> e_key e.
Proof.
  intros B Hne Hx C.
  assert (Ie : In e (e :: y :: r)) by now left.
  assert (Iy : In y (e :: y :: r)) by (right; now left).
  assert (Ix : In x (e :: y :: r)) by (right; now right).
  assert (L1 : rawlt e y) by (apply (base_head_lt e (y :: r)); [exact B | now left]).
  assert (L2 : rawlt y x) by (apply (base_head_lt y r); [now apply base_tail in B | exact Hx]).
  destruct (rawlt_diff_key e y) as [_ O1]; try assumption; try (eapply base_eok; eassumption).
  { now apply (base_keys _ _ _ B). }
  destruct (rawlt_diff_key y x) as [_ O2]; try assumption; try (eapply base_eok; eassumption).
  { now apply (base_keys _ _ _ B). }
  { rewrite C. congruence. }
  rewrite C in O2. rewrite (lex_lt_asym _ _ O1) in O2. discriminate O2.
Qed.

(* ---- decomposition into maximal runs of equal user key *)
Definition grp := (bytes * list entry)%type.
Definition flatg (G : list grp) : list entry := flat_map snd G.
Definition good1 (p : grp) : Prop :=
  snd p <> [] /\ Forall (fun e => e_key e = fst p) (snd p) /\ pw (fun a b => e_ver b < e_ver a) (snd p).
Definition klt (p q : grp) : Prop := lex_lt (fst p) (fst q) = true.
Definition goodG (G : list grp) : Prop := Forall good1 G /\ pw klt G.

Lemma flatg_cons k g G : flatg ((k, g) :: G) = g ++ flatg G.
Proof. reflexivity. Qed.

Lemma flatg_app G1 G2 : flatg (G1 ++ G2) = flatg G1 ++ flatg G2.
Proof. unfold flatg. apply flat_map_app. Qed.

Lemma in_flatg x G : In x (flatg G) <-> exists q, In q G /\ In x (snd q).
Proof. unfold flatg. apply in_flat_map. Qed.

Lemma groups_exist l : base l -> exists G, flatg G = l /\ goodG G.
Proof.
  induction l as [|e r IH]; intros B.
  - exists []. split; [reflexivity|]. split; [constructor | exact I].
  - destruct (IH (base_tail _ _ B)) as (G & EG & (GF & GP)).
    destruct G as [|[k g] G2].
    + cbn in EG. subst r. exists [(e_key e, [e])]. split; [reflexivity|]. split.
      * constructor; [|constructor]. split; [discriminate|]. split; [now constructor | cbn; auto].
      * cbn. auto.
    + rewrite flatg_cons in EG.
      pose proof (Forall_inv GF) as (Gne & Gk & Gv). cbn [fst snd] in Gne, Gk, Gv.
      destruct g as [|y g']; [contradiction|].
      assert (Ky : e_key y = k) by (now inversion Gk).
      destruct (bytes_eqb (e_key e) k) eqn:E.
      * apply bytes_eqb_eq in E. exists ((k, e :: y :: g') :: G2). split; [rewrite flatg_cons; cbn [app]; now rewrite <- EG|].
        split.
        -- constructor; [|now inversion GF]. split; [discriminate|]. cbn [fst snd]. split; [now constructor|].
           cbn [pw]. split; [|exact Gv]. apply Forall_forall. intros b Hb.
           assert (Ib : In b r) by (rewrite <- EG; apply in_or_app; now left).
           apply rawlt_same_key; [eapply base_eok; [exact B | now left] | eapply base_eok; [exact B | now right] | | ].
           ++ rewrite Forall_forall in Gk. rewrite (Gk b Hb). now symmetry.
           ++ now apply (base_head_lt e r).
        -- cbn [pw] in *. exact GP.
      * assert (Hne : e_key e <> k).
        { intros C. apply bytes_eqb_eq in C. rewrite C in E. discriminate E. }
        exists ((e_key e, [e]) :: (k, y :: g') :: G2). split; [rewrite !flatg_cons; cbn [app]; f_equal; exact EG|].
        split.
        -- constructor; [|exact GF]. split; [discriminate|]. split; [now constructor | cbn; auto].
        -- cbn [pw]. split; [|exact GP]. apply Forall_forall. intros q Hq. unfold klt. cbn [fst].
           rewrite Forall_forall in GF. destruct (GF q Hq) as (Qne & Qk & _).
           destruct (snd q) as [|x xs] eqn:Sq; [contradiction|].
           assert (Kx : e_key x = fst q) by (now inversion Qk).
           assert (Ix : In x r).
           { rewrite <- EG. rewrite <- (flatg_cons k). apply in_flatg.
             exists q. split; [exact Hq|]. rewrite Sq. now left. }
           assert (Nx : e_key x <> e_key e).
           { rewrite <- EG in Ix. cbn [app] in Ix. destruct Ix as [Ix|Ix].
             - subst x. congruence.
             - eapply no_return; [|rewrite Ky; exact Hne | exact Ix]. rewrite <- EG in B. exact B. }
           rewrite <- Kx. apply rawlt_diff_key.
           ++ eapply base_eok; [exact B | now left].
           ++ eapply base_eok; [exact B | now right].
           ++ apply (base_keys _ _ _ B); [now left | now right].
           ++ congruence.
           ++ now apply (base_head_lt e r).
Qed.

(* ---- small facts on bytes_eqb, find, flat_map *)
Lemma bytes_eqb_refl a : bytes_eqb a a = true.
Proof. now apply bytes_eqb_eq. Qed.
Lemma bytes_eqb_neq a b : a <> b -> bytes_eqb a b = false.
Proof. intros H. destruct (bytes_eqb a b) eqn:E; [|reflexivity]. apply bytes_eqb_eq in E. contradiction. Qed.

Lemma find_app_l {A : Type} (f : A -> bool) (a b : list A) :
  find f (a ++ b) = match find f a with Some x => Some x | None => find f b end.
Proof. induction a as [|x a IH]; cbn [app find]; [reflexivity|]. now destruct (f x). Qed.
Lemma find_none_in {A : Type} (f : A -> bool) (l : list A) : (forall x, In x l -> f x = false) -> find f l = None.
Proof.
  induction l as [|x l IH]; intros H; [reflexivity|]. cbn [find]. rewrite (H x) by now left.
  apply IH. intros y Hy. apply H. now right.
Qed.
Lemma find_ext_in {A : Type} (f g : A -> bool) (l : list A) : (forall x, In x l -> f x = g x) -> find f l = find g l.
Proof.
  induction l as [|x l IH]; intros H; [reflexivity|]. cbn [find]. rewrite (H x) by now left.
  rewrite IH; [reflexivity|]. intros y Hy. apply H. now right.
Qed.
Lemma flat_map_map {A B C : Type} (f : B -> list C) (g : A -> B) (l : list A) :
  flat_map f (map g l) = flat_map (fun x => f (g x)) l.
Proof. induction l as [|x l IH]; cbn [map flat_map]; [reflexivity | now rewrite IH]. Qed.
Lemma flat_map_ext_in {A B : Type} (f g : A -> list B) (l : list A) :
  (forall x, In x l -> f x = g x) -> flat_map f l = flat_map g l.
Proof.
  induction l as [|x l IH]; intros H; [reflexivity|]. cbn [flat_map]. rewrite (H x) by now left.
  rewrite IH; [reflexivity|]. intros y Hy. apply H. now right.
Qed.
Lemma flat_map_filter {A B : Type} (c : A -> bool) (h : A -> list B) (l : list A) :
  flat_map (fun q => if c q then h q else []) l = flat_map h (filter c l).
Proof.
  induction l as [|x l IH]; [reflexivity|]. cbn [flat_map filter]. destruct (c x); cbn [flat_map app]; now rewrite IH.
Qed.

(* ---- the specification in terms of the runs *)
Lemma vstep_keep ver k l : forall b, (forall x, In x l -> vmatch ver k x = true -> e_ver x < e_ver b) ->
  fold_left (vstep ver k) l (Some b) = Some b.
Proof.
  induction l as [|e l IH]; intros b H; [reflexivity|]. cbn [fold_left].
  assert (E : vstep ver k (Some b) e = Some b).
  { unfold vstep. destruct (vmatch ver k e) eqn:M; [|reflexivity].
    specialize (H e (or_introl eq_refl) M). assert (e_ver b <? e_ver e = false) as -> by (apply N.ltb_ge; lia). reflexivity. }
  rewrite E. apply IH. intros x Hx. apply H. now right.
Qed.

Lemma visible_entry_find l ver k :
  pw (fun a b => e_key a = k -> e_key b = k -> e_ver b < e_ver a) l ->
  visible_entry l ver k = find (vmatch ver k) l.
Proof.
  rewrite visible_entry_fold. induction l as [|e l IH]; intros P; [reflexivity|].
  cbn [pw] in P. destruct P as [F P]. cbn [fold_left find]. unfold vstep at 2.
  destruct (vmatch ver k e) eqn:M.
  - apply vstep_keep. intros x Hx Mx. rewrite Forall_forall in F. apply vmatch_key in M, Mx.
    apply F; [exact Hx | tauto | tauto].
  - now apply IH.
Qed.

Lemma base_desc l k : base l -> pw (fun a b => e_key a = k -> e_key b = k -> e_ver b < e_ver a) l.
Proof.
  intros B. destruct B as (P & K & F). eapply pw_impl_in; [|exact P].
  intros a b Ha Hb L Ka Kb. rewrite Forall_forall in F. apply rawlt_same_key; auto. congruence.
Qed.

Definition gfind (ver : N) (g : list entry) : option entry := find (fun e => e_ver e <=? ver) g.
Definition emit1 (k : bytes) (o : option entry) : list (bytes * bytes) :=
  match o with Some e => if e_dead e then [] else [(k, e_val e)] | None => [] end.
Definition emitg (ver : N) (p : grp) : list (bytes * bytes) := emit1 (fst p) (gfind ver (snd p)).

Lemma klt_neq p q : klt p q -> fst p <> fst q.
Proof. unfold klt. intros H E. rewrite E, lex_lt_irrefl in H. discriminate H. Qed.

Lemma goodG_tail p G : goodG (p :: G) -> goodG G.
Proof. intros [F P]. cbn [pw] in P. split; [now inversion F | tauto]. Qed.

Lemma goodG_head_neq p G q : goodG (p :: G) -> In q G -> fst p <> fst q.
Proof. intros [F P] Hq. cbn [pw] in P. destruct P as [P _]. rewrite Forall_forall in P. now apply klt_neq, P. Qed.

Lemma goodG_key G q x : goodG G -> In q G -> In x (snd q) -> e_key x = fst q.
Proof.
  intros [F _] Hq Hx. rewrite Forall_forall in F. destruct (F q Hq) as (_ & Fk & _).
  rewrite Forall_forall in Fk. now apply Fk.
Qed.

Lemma find_group ver k g G : goodG G -> In (k, g) G -> find (vmatch ver k) (flatg G) = gfind ver g.
Proof.
  induction G as [|[k' g'] G IH]; intros GG Hin; [contradiction|].
  rewrite flatg_cons, find_app_l. destruct Hin as [Hin|Hin].
  - injection Hin as -> ->.
    assert (E : find (vmatch ver k) g = gfind ver g).
    { unfold gfind. apply find_ext_in. intros x Hx. unfold vmatch.
      rewrite (goodG_key _ (k, g) x GG) by (try assumption; now left). cbn [fst]. now rewrite bytes_eqb_refl. }
    rewrite E. destruct (gfind ver g) as [x|] eqn:Fg; [reflexivity|].
    apply find_none_in. intros x Hx. apply in_flatg in Hx. destruct Hx as (q & Hq & Hx).
    unfold vmatch. rewrite (goodG_key _ q x (goodG_tail _ _ GG) Hq Hx).
    rewrite bytes_eqb_neq; [reflexivity|]. intros C. apply (goodG_head_neq _ _ q GG Hq). now rewrite C.
  - assert (E : find (vmatch ver k) g' = None).
    { apply find_none_in. intros x Hx. unfold vmatch.
      rewrite (goodG_key _ (k', g') x GG) by (try assumption; now left). cbn [fst].
      rewrite bytes_eqb_neq; [reflexivity|]. apply (goodG_head_neq _ _ (k, g) GG Hin). }
    rewrite E. apply IH; [now apply goodG_tail in GG | exact Hin].
Qed.

Lemma spec_get_group ver k g G : base (flatg G) -> goodG G -> In (k, g) G ->
  spec_get (flatg G) ver k = match gfind ver g with Some e => if e_dead e then None else Some (e_val e) | None => None end.
Proof.
  intros B GG Hin. unfold spec_get. rewrite visible_entry_find by now apply base_desc.
  now rewrite (find_group ver k g G GG Hin).
Qed.

Lemma dedup_same g k rest : Forall (fun e => e_key e = k) g -> dedup_keys (g ++ rest) (Some k) = dedup_keys rest (Some k).
Proof.
  induction g as [|e g IH]; intros F; [reflexivity|]. cbn [app dedup_keys].
  rewrite (Forall_inv F), bytes_eqb_refl. apply IH. now inversion F.
Qed.

Lemma dedup_groups G : goodG G -> forall last, (forall q, In q G -> last <> Some (fst q)) ->
  dedup_keys (flatg G) last = map fst G.
Proof.
  induction G as [|[k g] G IH]; intros GG last Hl; [reflexivity|].
  rewrite flatg_cons. pose proof GG as [GF _]. destruct (Forall_inv GF) as (Gne & Gk & _). cbn [fst snd] in *.
  destruct g as [|y g]; [contradiction|]. cbn [app dedup_keys map fst].
  assert (Ky : e_key y = k) by now inversion Gk.
  assert (E : (match last with Some lk => bytes_eqb (e_key y) lk | None => false end) = false).
  { destruct last as [lk|]; [|reflexivity]. apply bytes_eqb_neq. intros C. apply (Hl (k, y :: g)); [now left|].
    cbn [fst]. congruence. }
  rewrite E, Ky. f_equal. rewrite dedup_same by now inversion Gk.
  apply IH; [now apply goodG_tail in GG|]. intros q Hq C. injection C as C.
  now apply (goodG_head_neq _ _ q GG Hq).
Qed.

Lemma spec_iter_groups G ver prefix : base (flatg G) -> goodG G ->
  spec_iter_fwd (flatg G) ver prefix = flat_map (emitg ver) (filter (fun q => prefixb prefix (fst q)) G).
Proof.
  intros B GG. unfold spec_iter_fwd. rewrite (dedup_groups G GG None) by (intros q _; discriminate).
  rewrite flat_map_map, <- flat_map_filter. apply flat_map_ext_in. intros [k g] Hq. cbn [fst].
  destruct (prefixb prefix k); [|reflexivity]. rewrite (spec_get_group ver k g G B GG Hq).
  unfold emitg, emit1. cbn [fst snd]. destruct (gfind ver g) as [e|]; [|reflexivity]. now destruct (e_dead e).
Qed.

Lemma goodG_filter c G : goodG G -> goodG (filter c G).
Proof.
  intros [F P]. split; [|now apply pw_filter]. rewrite Forall_forall in *. intros q Hq. apply filter_In in Hq. now apply F.
Qed.

Lemma flatg_filter (c : bytes -> bool) G : goodG G ->
  filter (fun e => c (e_key e)) (flatg G) = flatg (filter (fun q => c (fst q)) G).
Proof.
  induction G as [|[k g] G IH]; intros GG; [reflexivity|].
  rewrite flatg_cons, filter_app, IH by now apply goodG_tail in GG. cbn [filter fst].
  assert (E : filter (fun e => c (e_key e)) g = if c k then g else []).
  { assert (Fk : Forall (fun e => e_key e = k) g).
    { apply Forall_forall. intros x Hx. apply (goodG_key _ (k, g) x GG); [now left | exact Hx]. }
    clear -Fk. induction g as [|e g IH]; [now destruct (c k)|]. cbn [filter].
    rewrite (Forall_inv Fk), IH by now inversion Fk. now destruct (c k). }
  rewrite E. destruct (c k); [now rewrite flatg_cons | reflexivity].
Qed.

Lemma emitg_fst ver q a : In a (emitg ver q) -> fst a = fst q.
Proof.
  unfold emitg, emit1. destruct (gfind ver (snd q)) as [e|]; [|intros []].
  destruct (e_dead e); [intros []|]. intros [<-|[]]. reflexivity.
Qed.

Lemma emitg_sorted ver G : pw klt G -> pw (fun a b : bytes * bytes => lex_lt (fst a) (fst b) = true) (flat_map (emitg ver) G).
Proof.
  induction G as [|q G IH]; intros P; [exact I|]. cbn [pw] in P. destruct P as [F P]. cbn [flat_map].
  apply pw_app. split; [|split; [now apply IH|]].
  - unfold emitg, emit1. destruct (gfind ver (snd q)) as [e|]; [|exact I]. destruct (e_dead e); cbn; auto.
  - intros a b Ha Hb. apply in_flat_map in Hb. destruct Hb as (q' & Hq' & Hb).
    rewrite (emitg_fst _ _ _ Ha), (emitg_fst _ _ _ Hb). rewrite Forall_forall in F. now apply F.
Qed.

Lemma dedup_in l : forall last k, In k (dedup_keys l last) -> In k (keys_of l).
Proof.
  induction l as [|e l IH]; intros last k H; [contradiction|]. cbn [dedup_keys] in H. cbn [keys_of map].
  destruct (match last with Some lk => bytes_eqb (e_key e) lk | None => false end).
  - right. now apply (IH last).
  - destruct H as [H|H]; [now left | right; now apply (IH (Some (e_key e)))].
Qed.

Lemma dedup_in_conv l : forall last k, In k (keys_of l) -> last = Some k \/ In k (dedup_keys l last).
Proof.
  induction l as [|e l IH]; intros last k H; [contradiction|]. cbn [keys_of map] in H. cbn [dedup_keys].
  destruct (match last with Some lk => bytes_eqb (e_key e) lk | None => false end) eqn:E.
  - destruct last as [lk|]; [|discriminate E]. apply bytes_eqb_eq in E.
    destruct H as [H|H]; [left; congruence | now apply IH].
  - destruct H as [H|H]; [right; now left|].
    destruct (IH (Some (e_key e)) k H) as [C|C]; [injection C as C; right; now left | right; now right].
Qed.

(* ---- the bounded iterator range keeps exactly the entries whose user key has the prefix *)
(* the iteration prefix must not cut into the version suffix of a stored key: every raw key under the prefix belongs to
   a user key under the prefix *)
Definition noprox (prefix : bytes) (db : list entry) : Prop :=
  forall e, In e db -> is_prefix prefix (rawkey e) -> is_prefix prefix (e_key e).

Lemma prefix_app_cases p : forall k s, is_prefix p (k ++ s) -> is_prefix p k \/ is_prefix k p.
Proof.
  induction p as [|x p IH]; intros k s H.
  - left. now exists k.
  - destruct k as [|y k]; [right; now exists (x :: p)|].
    destruct H as [t Ht]. cbn [app] in Ht. injection Ht as -> Ht.
    destruct (IH k s) as [H|H]; [now exists t | left | right]; now apply is_prefix_cons.
Qed.

Lemma rawkey_wf e : eok e -> wf_bytes (rawkey e) /\ (length (rawkey e) <= 256)%nat.
Proof.
  intros (W & _ & _ & L). unfold rawkey, versioned_key. split.
  - apply Forall_app. split; [exact W | apply be64_wf].
  - rewrite app_length, be64_length. lia.
Qed.

Lemma in_range_prefix prefix e : eok e -> wf_bytes prefix -> (is_prefix prefix (rawkey e) -> is_prefix prefix (e_key e)) ->
  in_range prefix (rawkey e) = prefixb prefix (e_key e).
Proof.
  intros He Wp NP. destruct (rawkey_wf e He) as [Wr Lr]. apply eq_true_iff_eq.
  rewrite range_iff_prefix by (try assumption; lia). rewrite prefixb_spec. split; [exact NP|].
  unfold rawkey, versioned_key. intros [t Ht]. exists (t ++ be64 (inv64 (e_ver e))). rewrite Ht. now rewrite app_assoc.
Qed.

(* it suffices that no stored user key is a proper prefix of the iteration prefix *)
Lemma noprox_of_keys prefix db : (forall k, In k (keys_of db) -> is_prefix k prefix -> k = prefix) -> noprox prefix db.
Proof.
  intros H e He Hp. unfold rawkey, versioned_key in Hp. apply prefix_app_cases in Hp. destruct Hp as [Hp|Hp]; [exact Hp|].
  rewrite (H (e_key e)); [apply is_prefix_refl | now apply in_map | exact Hp].
Qed.

Lemma bounded_filter prefix db : base db -> wf_bytes prefix -> noprox prefix db ->
  bounded prefix db = filter (fun e => prefixb prefix (e_key e)) db.
Proof.
  intros B Wp NP. unfold bounded. apply filter_ext_in. intros e He. apply in_range_prefix; try assumption.
  - eapply base_eok; eassumption.
  - now apply NP.
Qed.

(* ---- pebble seeks on a sorted list *)
Definition fpos (A l : list entry) : option nat := match l with [] => None | _ => Some (length A) end.
Definition rpos (A : list entry) : option nat := match length A with O => None | S n => Some n end.

Lemma find_ge_skip p X Y : Forall (fun e => lex_lt (rawkey e) p = true) X ->
  forall i, find_ge p (X ++ Y) i = find_ge p Y (i + length X).
Proof.
  induction X as [|x X IH]; intros F i; [cbn; f_equal; lia|]. cbn [app find_ge length].
  unfold lex_le. rewrite (Forall_inv F). cbn [negb]. rewrite IH by now inversion F. f_equal. lia.
Qed.

Lemma seek_ge_split p X Y : Forall (fun e => lex_lt (rawkey e) p = true) X ->
  match Y with [] => True | y :: _ => lex_le p (rawkey y) = true end ->
  seek_ge (X ++ Y) p = fpos X Y.
Proof.
  intros F H. unfold seek_ge. rewrite find_ge_skip by exact F. destruct Y as [|y Y]; [reflexivity|].
  cbn [find_ge fpos]. now rewrite H.
Qed.

Lemma find_lt_split p X Y : Forall (fun e => lex_lt (rawkey e) p = true) X ->
  match Y with [] => True | y :: _ => lex_lt (rawkey y) p = false end ->
  forall i best, find_lt p (X ++ Y) i best = match X with [] => best | _ => Some (i + length X - 1)%nat end.
Proof.
  intros F H. induction X as [|x X IH]; intros i best.
  - cbn [app]. destruct Y as [|y Y]; [reflexivity|]. cbn [find_lt]. now rewrite H.
  - cbn [app find_lt]. rewrite (Forall_inv F). rewrite IH by now inversion F.
    destruct X as [|x' X]; cbn [length]; f_equal; lia.
Qed.

Lemma seek_lt_split p X Y : Forall (fun e => lex_lt (rawkey e) p = true) X ->
  match Y with [] => True | y :: _ => lex_lt (rawkey y) p = false end ->
  seek_lt (X ++ Y) p = rpos X.
Proof.
  intros F H. unfold seek_lt. rewrite find_lt_split by assumption. unfold rpos.
  destruct X as [|x X]; [reflexivity|]. cbn [length]. f_equal. lia.
Qed.

Lemma find_split {A : Type} (f : A -> bool) (l : list A) :
  exists hi lo, l = hi ++ lo /\ Forall (fun x => f x = false) hi /\
    match lo with [] => find f l = None | y :: _ => f y = true /\ find f l = Some y end.
Proof.
  induction l as [|x l IH].
  - exists [], []. repeat split. constructor.
  - destruct (f x) eqn:E.
    + exists [], (x :: l). repeat split; [constructor | exact E | cbn [find]; now rewrite E].
    + destruct IH as (hi & lo & -> & F & H). exists (x :: hi), lo. split; [reflexivity|]. split; [now constructor|].
      cbn [find]. rewrite E. exact H.
Qed.

Lemma find_filter {A : Type} (c d : A -> bool) (l : list A) : find (fun e => c e && d e) l = find d (filter c l).
Proof.
  induction l as [|x l IH]; [reflexivity|]. cbn [find filter]. destruct (c x); cbn [andb find]; now rewrite IH.
Qed.

Lemma nth_error_mid {A : Type} (X : list A) y Y : nth_error (X ++ y :: Y) (length X) = Some y.
Proof. rewrite nth_error_app2 by lia. now rewrite Nat.sub_diag. Qed.

(* ---- one loop iteration of advanceToNextKey *)
Definition skipb (ver : N) (prefix : bytes) (last : option bytes) (e : entry) : bool :=
  negb (e_ver e <=? ver) || negb (prefixb prefix (e_key e)) || match last with Some lk => bytes_eqb (e_key e) lk | None => false end.

Definition drain1 (n f0 fuel : nat) (es : list entry) (ver : N) (prefix : bytes) (rv sk : bool) (s : istate) : list (bytes * bytes) :=
  match advance f0 es ver prefix rv sk s with
  | (None, _) => []
  | (Some kv, s') => kv :: drain n fuel es ver prefix rv sk s'
  end.
Lemma drain_S n fuel es ver prefix rv sk s : drain (S n) fuel es ver prefix rv sk s = drain1 n fuel fuel es ver prefix rv sk s.
Proof. reflexivity. Qed.

Lemma adv_none f es ver prefix rv sk last snp :
  advance f es ver prefix rv sk (mkIt None last snp) = (None, mkIt None last snp).
Proof. now destruct f. Qed.

Lemma adv_skip f es ver prefix rv sk i last snp e : nth_error es i = Some e -> skipb ver prefix last e = true ->
  advance (S f) es ver prefix rv sk (mkIt (Some i) last snp) = advance f es ver prefix rv sk (step es rv sk (mkIt (Some i) last snp)).
Proof.
  intros Hn Hs. cbn [advance it_pos it_last]. rewrite Hn. unfold skipb in Hs.
  destruct (negb (e_ver e <=? ver)); [reflexivity|].
  destruct (negb (prefixb prefix (e_key e))); [reflexivity|]. cbn [orb] in Hs. now rewrite Hs.
Qed.

Lemma adv_new_fwd f es ver prefix sk i last snp e : nth_error es i = Some e -> skipb ver prefix last e = false ->
  advance (S f) es ver prefix false sk (mkIt (Some i) last snp) =
  if e_dead e then advance f es ver prefix false sk (step es false sk (mkIt (Some i) (Some (e_key e)) snp))
  else (Some (e_key e, e_val e), mkIt (Some i) (Some (e_key e)) snp).
Proof.
  intros Hn Hs. cbn [advance it_pos it_last it_snp]. rewrite Hn. unfold skipb in Hs.
  apply orb_false_iff in Hs. destruct Hs as [H1 H3]. apply orb_false_iff in H1. destruct H1 as [H1 H2].
  rewrite H1, H2, H3. cbn [fst snd]. reflexivity.
Qed.

Lemma step_lin es rv s : step es rv false s =
  if rv then (if it_snp s then mkIt (it_pos s) (it_last s) false else mkIt (it_prev (it_pos s)) (it_last s) false)
  else mkIt (it_next es (it_pos s)) (it_last s) (it_snp s).
Proof. reflexivity. Qed.

Lemma step_seek_hit es rv i lk snp e : nth_error es i = Some e -> e_key e = lk ->
  step es rv true (mkIt (Some i) (Some lk) snp) =
  if rv then mkIt (seek_lt es lk) (Some lk) snp else mkIt (seek_ge es (prefix_end lk)) (Some lk) snp.
Proof.
  intros Hn Hk. unfold step. cbn [it_pos it_last it_snp]. rewrite Hn, Hk, bytes_eqb_refl. now destruct rv.
Qed.

Lemma step_seek_miss es rv i last snp e : nth_error es i = Some e -> last <> Some (e_key e) ->
  step es rv true (mkIt (Some i) last snp) = step es rv false (mkIt (Some i) last snp).
Proof.
  intros Hn Hk. unfold step. cbn [it_pos it_last it_snp]. destruct last as [lk|]; [|reflexivity].
  rewrite Hn. rewrite bytes_eqb_neq; [reflexivity|]. intros C. apply Hk. now rewrite C.
Qed.

Lemma it_next_fpos A e r : it_next (A ++ e :: r) (Some (length A)) = fpos (A ++ [e]) r.
Proof.
  unfold it_next, fpos. rewrite !app_length. cbn [length]. destruct r as [|y r]; cbn [length].
  - assert (S (length A) <? length A + 1 = false)%nat as -> by (apply Nat.ltb_ge; lia). reflexivity.
  - assert (S (length A) <? length A + S (S (length r)) = true)%nat as -> by (apply Nat.ltb_lt; lia). f_equal. lia.
Qed.

Lemma app_cons_assoc {A : Type} (X : list A) e r : X ++ e :: r = (X ++ [e]) ++ r.
Proof. now rewrite <- app_assoc. Qed.

(* ---- forward iteration as a list recursion *)
Fixpoint fwd_run (ver : N) (prefix : bytes) (l : list entry) (last : option bytes) : list (bytes * bytes) :=
  match l with
  | [] => []
  | e :: r =>
    if skipb ver prefix last e then fwd_run ver prefix r last
    else if e_dead e then fwd_run ver prefix r (Some (e_key e))
    else (e_key e, e_val e) :: fwd_run ver prefix r (Some (e_key e))
  end.

Lemma skipb_same ver prefix e : skipb ver prefix (Some (e_key e)) e = true.
Proof. unfold skipb. rewrite bytes_eqb_refl. apply orb_true_r. Qed.

Lemma fwd_run_same ver prefix same rest lk : Forall (fun e => e_key e = lk) same ->
  fwd_run ver prefix (same ++ rest) (Some lk) = fwd_run ver prefix rest (Some lk).
Proof.
  induction same as [|e same IH]; intros F; [reflexivity|]. cbn [app fwd_run].
  rewrite <- (Forall_inv F) at 1. rewrite skipb_same. apply IH. now inversion F.
Qed.

Lemma fwd_linear es ver prefix fuel : (length es < fuel)%nat ->
  forall l A last snp n f0, es = A ++ l -> (length l <= n)%nat -> (length l < f0)%nat ->
  drain1 n f0 fuel es ver prefix false false (mkIt (fpos A l) last snp) = fwd_run ver prefix l last.
Proof.
  intros Hfuel. induction l as [|e r IH]; intros A last snp n f0 E Hn Hf.
  - unfold drain1. cbn [fpos]. now rewrite adv_none.
  - destruct f0 as [|f]; [cbn in Hf; lia|]. cbn [length] in Hn, Hf. cbn [fpos fwd_run].
    assert (Hnth : nth_error es (length A) = Some e) by (rewrite E; apply nth_error_mid).
    assert (Hstep : forall lst, step es false false (mkIt (Some (length A)) lst snp) = mkIt (fpos (A ++ [e]) r) lst snp).
    { intros lst. rewrite step_lin. cbn [it_pos it_last it_snp]. rewrite E at 1. now rewrite it_next_fpos. }
    assert (E' : es = (A ++ [e]) ++ r) by (rewrite E; apply app_cons_assoc).
    unfold drain1. destruct (skipb ver prefix last e) eqn:Sk.
    + rewrite (adv_skip f es ver prefix false false _ last snp e Hnth Sk), Hstep.
      apply (IH (A ++ [e]) last snp n f E'); lia.
    + rewrite (adv_new_fwd f es ver prefix false _ last snp e Hnth Sk). destruct (e_dead e).
      * rewrite Hstep. apply (IH (A ++ [e]) (Some (e_key e)) snp n f E'); lia.
      * f_equal. destruct n as [|n']; [lia|]. rewrite drain_S.
        destruct fuel as [|f']; [lia|]. unfold drain1.
        rewrite (adv_skip f' es ver prefix false false _ _ snp e Hnth (skipb_same ver prefix e)), Hstep.
        apply (IH (A ++ [e]) (Some (e_key e)) snp n' f' E'); [lia|].
        assert (length es = length A + S (length r))%nat by (rewrite E, app_length; reflexivity). lia.
Qed.

(* ---- forward, seek mode: SeekGE(prefixEnd(lastKey)) skips exactly the remaining versions of lastKey *)
Lemma base_cross X Y a b : base (X ++ Y) -> In a X -> In b Y -> rawlt a b.
Proof. intros (P & _ & _) Ha Hb. apply pw_app in P. destruct P as (_ & _ & C). now apply C. Qed.

Lemma base_app_r X Y : base (X ++ Y) -> base Y.
Proof.
  intros (P & K & F). apply pw_app in P. split; [tauto|]. split.
  - intros a b Ha Hb. apply K; apply in_or_app; now right.
  - apply Forall_app in F. tauto.
Qed.

Lemma seek_fwd_jump es A e r lk : base es -> es = A ++ e :: r -> e_key e = lk ->
  exists same rest, r = same ++ rest /\ Forall (fun x => e_key x = lk) same /\
    seek_ge es (prefix_end lk) = fpos (A ++ e :: same) rest.
Proof.
  intros B E Hk.
  destruct (find_split (fun x => negb (bytes_eqb (e_key x) lk)) r) as (same & rest & Er & Fs & Hr).
  exists same, rest. split; [exact Er|].
  assert (Fs' : Forall (fun x => e_key x = lk) same).
  { rewrite Forall_forall in *. intros x Hx. specialize (Fs x Hx). apply negb_false_iff in Fs. now apply bytes_eqb_eq. }
  split; [exact Fs'|].
  assert (E2 : es = (A ++ e :: same) ++ rest) by (rewrite E, Er, <- app_assoc; reflexivity).
  assert (Ie : In e es) by (rewrite E; apply in_or_app; right; now left).
  assert (Le : lex_lt (rawkey e) (prefix_end lk) = true).
  { rewrite <- Hk. apply raw_lt_pend_same. eapply base_eok; eassumption. }
  rewrite E2 at 1. apply seek_ge_split.
  - apply Forall_app. split; [|constructor; [exact Le|]].
    + apply Forall_forall. intros x Hx. eapply lex_lt_trans; [|exact Le].
      apply (base_cross A (e :: r)); [now rewrite <- E | exact Hx | now left].
    + rewrite Forall_forall in *. intros x Hx. rewrite <- (Fs' x Hx). apply raw_lt_pend_same.
      eapply base_eok; [exact B|]. rewrite E2. apply in_or_app. left. apply in_or_app. right. now right.
  - destruct rest as [|y rest]; [exact I|]. destruct Hr as [Hy _]. apply negb_true_iff in Hy.
    assert (Ny : e_key e <> e_key y).
    { intros C. rewrite <- C, Hk, bytes_eqb_refl in Hy. discriminate Hy. }
    assert (Iy : In y es) by (rewrite E2; apply in_or_app; right; now left).
    assert (Iyr : In y r) by (rewrite Er; apply in_or_app; right; now left).
    assert (Ley : rawlt e y).
    { apply (base_head_lt e r); [|exact Iyr]. apply (base_app_r A). now rewrite <- E. }
    destruct (rawlt_diff_key e y) as [Inc Lt]; try assumption; try (eapply base_eok; eassumption).
    { now apply (base_keys es). }
    unfold lex_le. rewrite raw_lt_pend_incomp by (rewrite <- Hk; now apply incomp_sym).
    rewrite <- Hk. now rewrite (lex_lt_asym _ _ Lt).
Qed.

Lemma step_fwd_seek es ver prefix A e r last snp : base es -> es = A ++ e :: r ->
  exists A' l', es = A' ++ l' /\ (length l' <= length r)%nat /\
    step es false true (mkIt (Some (length A)) last snp) = mkIt (fpos A' l') last snp /\
    (last = Some (e_key e) \/ l' = r) /\
    (last = Some (e_key e) -> fwd_run ver prefix r last = fwd_run ver prefix l' last).
Proof.
  intros B E.
  assert (Hnth : nth_error es (length A) = Some e) by (rewrite E; apply nth_error_mid).
  destruct last as [lk|].
  - destruct (bytes_eqb (e_key e) lk) eqn:K.
    + apply bytes_eqb_eq in K. destruct (seek_fwd_jump es A e r lk B E K) as (same & rest & Er & Fs & S).
      exists (A ++ e :: same), rest. split; [rewrite E, Er, <- app_assoc; reflexivity|].
      split; [rewrite Er, app_length; lia|]. split.
      * rewrite (step_seek_hit es false _ lk snp e Hnth K). now rewrite S.
      * split; [left; now rewrite K|]. intros _. rewrite Er. now apply fwd_run_same.
    + exists (A ++ [e]), r. split; [rewrite E; apply app_cons_assoc|]. split; [lia|]. split.
      * rewrite (step_seek_miss es false _ (Some lk) snp e Hnth).
        -- rewrite step_lin. cbn [it_pos it_last it_snp]. rewrite E at 1. now rewrite it_next_fpos.
        -- intros C. injection C as C. rewrite C, bytes_eqb_refl in K. discriminate K.
      * split; [now right|]. intros C. injection C as C. rewrite C, bytes_eqb_refl in K. discriminate K.
  - exists (A ++ [e]), r. split; [rewrite E; apply app_cons_assoc|]. split; [lia|]. split.
    + rewrite (step_seek_miss es false _ None snp e Hnth) by discriminate.
      rewrite step_lin. cbn [it_pos it_last it_snp]. rewrite E at 1. now rewrite it_next_fpos.
    + split; [now right | discriminate].
Qed.

Lemma fwd_seek es ver prefix fuel : base es -> (length es < fuel)%nat ->
  forall m l A last snp n f0, (length l <= m)%nat -> es = A ++ l -> (length l <= n)%nat -> (length l < f0)%nat ->
  drain1 n f0 fuel es ver prefix false true (mkIt (fpos A l) last snp) = fwd_run ver prefix l last.
Proof.
  intros B Hfuel. induction m as [|m IH]; intros l A last snp n f0 Hm E Hn Hf.
  - destruct l; [|cbn in Hm; lia]. unfold drain1. cbn [fpos]. now rewrite adv_none.
  - destruct l as [|e r]; [unfold drain1; cbn [fpos]; now rewrite adv_none|].
    destruct f0 as [|f]; [cbn in Hf; lia|]. cbn [length] in Hm, Hn, Hf. cbn [fpos fwd_run].
    assert (Hnth : nth_error es (length A) = Some e) by (rewrite E; apply nth_error_mid).
    assert (Hlen : (length es = length A + S (length r))%nat) by (rewrite E, app_length; reflexivity).
    unfold drain1. destruct (skipb ver prefix last e) eqn:Sk.
    + rewrite (adv_skip f es ver prefix false true _ last snp e Hnth Sk).
      destruct (step_fwd_seek es ver prefix A e r last snp B E) as (A' & l' & E' & Hl' & St & Hor & Hrun).
      rewrite St. destruct Hor as [Hor|Hor].
      * rewrite (Hrun Hor). apply (IH l' A' last snp n f); [lia | exact E' | lia | lia].
      * subst l'. apply (IH r A' last snp n f); [lia | exact E' | lia | lia].
    + rewrite (adv_new_fwd f es ver prefix true _ last snp e Hnth Sk).
      destruct (step_fwd_seek es ver prefix A e r (Some (e_key e)) snp B E) as (A' & l' & E' & Hl' & St & _ & Hrun).
      rewrite (Hrun eq_refl). destruct (e_dead e).
      * rewrite St. apply (IH l' A' _ snp n f); [lia | exact E' | lia | lia].
      * f_equal. destruct n as [|n']; [lia|]. rewrite drain_S.
        destruct fuel as [|f']; [lia|]. unfold drain1.
        rewrite (adv_skip f' es ver prefix false true _ _ snp e Hnth (skipb_same ver prefix e)), St.
        apply (IH l' A' _ snp n' f'); [lia | exact E' | lia | lia].
Qed.

(* ---- the list recursion computes the visible entry of every run *)
Lemma fwd_run_group ver prefix k g rest : prefixb prefix k = true -> Forall (fun e => e_key e = k) g -> forall last, last <> Some k ->
  fwd_run ver prefix (g ++ rest) last =
  emit1 k (gfind ver g) ++ fwd_run ver prefix rest (match gfind ver g with Some _ => Some k | None => last end).
Proof.
  intros Hpk. induction g as [|e g IH]; intros F last Hl; [reflexivity|].
  pose proof (Forall_inv F) as Ke. assert (Fg : Forall (fun e => e_key e = k) g) by now inversion F.
  cbn [app fwd_run]. unfold gfind. cbn [find]. unfold skipb.
  destruct (e_ver e <=? ver) eqn:V; cbn [negb orb].
  - assert (Hm : (match last with Some lk => bytes_eqb (e_key e) lk | None => false end) = false).
    { destruct last as [lk|]; [|reflexivity]. apply bytes_eqb_neq. intros C. apply Hl. congruence. }
    rewrite Ke at 1. rewrite Hpk, Hm. cbn [negb orb emit1]. rewrite Ke. destruct (e_dead e); cbn [app]; now rewrite fwd_run_same.
  - apply (IH Fg last Hl).
Qed.

Lemma fwd_run_groups ver prefix G : goodG G -> Forall (fun q => prefixb prefix (fst q) = true) G -> forall last, (forall q, In q G -> last <> Some (fst q)) ->
  fwd_run ver prefix (flatg G) last = flat_map (emitg ver) G.
Proof.
  induction G as [|[k g] G IH]; intros GG FP last Hl; [reflexivity|].
  rewrite flatg_cons. cbn [flat_map]. unfold emitg at 1. cbn [fst snd].
  rewrite (fwd_run_group ver prefix k g).
  - f_equal. apply IH; [now apply goodG_tail in GG | now inversion FP |]. intros q Hq.
    destruct (gfind ver g).
    + intros C. injection C as C. now apply (goodG_head_neq _ _ q GG Hq).
    + apply Hl. now right.
  - exact (Forall_inv FP).
  - apply Forall_forall. intros x Hx. apply (goodG_key _ (k, g) x GG); [now left | exact Hx].
  - apply (Hl (k, g)). now left.
Qed.

(* ---- setting up the iterator: the bounded list, its runs, and the specification over the runs *)
Lemma viter_setup db prefix : db_wf db -> wf_bytes prefix -> noprox prefix db ->
  exists Ges, bounded prefix db = flatg Ges /\ goodG Ges /\ base (flatg Ges) /\
    (forall ver, spec_iter_fwd db ver prefix = flat_map (emitg ver) Ges) /\
    Forall (fun e => in_range prefix (rawkey e) = true) (flatg Ges) /\
    Forall (fun q => prefixb prefix (fst q) = true) Ges.
Proof.
  intros W Wp NP. pose proof (db_wf_base db W) as B. destruct (groups_exist db B) as (G & EG & GG).
  exists (filter (fun q => prefixb prefix (fst q)) G).
  assert (Eb : bounded prefix db = flatg (filter (fun q => prefixb prefix (fst q)) G)).
  { rewrite bounded_filter by assumption. rewrite <- EG. now apply (flatg_filter (prefixb prefix)). }
  split; [exact Eb|]. split; [now apply goodG_filter|]. split.
  - rewrite <- Eb. rewrite bounded_filter by assumption. now apply base_filter.
  - split.
    + intros ver. rewrite <- EG. rewrite <- EG in B. now apply spec_iter_groups.
    + split.
      * rewrite <- Eb. apply Forall_forall. intros x Hx. unfold bounded in Hx. apply filter_In in Hx. tauto.
      * apply Forall_forall. intros q Hq. apply filter_In in Hq. tauto.
Qed.

Lemma first_pos_fwd es prefix : Forall (fun e => in_range prefix (rawkey e) = true) es ->
  first_pos es prefix false = fpos [] es.
Proof.
  intros F. unfold first_pos. change es with ([] ++ es) at 1. apply seek_ge_split; [constructor|].
  destruct es as [|y es]; [exact I|]. pose proof (Forall_inv F) as H. unfold in_range in H.
  apply andb_true_iff in H. tauto.
Qed.

Lemma first_pos_rev es prefix : Forall (fun e => in_range prefix (rawkey e) = true) es ->
  first_pos es prefix true = rpos es.
Proof.
  intros F. unfold first_pos. rewrite <- (app_nil_r es) at 1. apply seek_lt_split; [|exact I].
  rewrite Forall_forall in *. intros x Hx. specialize (F x Hx). unfold in_range in F.
  apply andb_true_iff in F. tauto.
Qed.

Theorem viter_refines_fwd db ver prefix seek : db_wf db -> wf_bytes prefix -> noprox prefix db ->
  viter db ver prefix false seek = spec_iter db ver prefix false.
Proof.
  intros W Wp NP. destruct (viter_setup db prefix W Wp NP) as (Ges & Eb & GG & B & Sp & Fr & FP).
  unfold viter, spec_iter. rewrite Eb, Sp. set (es := flatg Ges) in *.
  rewrite (first_pos_fwd es prefix Fr), drain_S.
  rewrite <- (fwd_run_groups ver prefix Ges GG FP None) by (intros q _; discriminate). fold es.
  destruct seek.
  - apply (fwd_seek es ver prefix _ B) with (m := length es) (A := []); try reflexivity; lia.
  - apply (fwd_linear es ver prefix) with (A := []); try reflexivity; lia.
Qed.
Theorem viter_refines_fwd_linear db ver prefix : db_wf db -> wf_bytes prefix -> noprox prefix db ->
  viter db ver prefix false false = spec_iter db ver prefix false.
Proof. apply viter_refines_fwd. Qed.
Theorem viter_refines_fwd_seek db ver prefix : db_wf db -> wf_bytes prefix -> noprox prefix db ->
  viter db ver prefix false true = spec_iter db ver prefix false.
Proof. apply viter_refines_fwd. Qed.

(* ---- reverse iteration: positions are ends of prefixes *)
Lemma rpos_snoc P e : rpos (P ++ [e]) = Some (length P).
Proof. unfold rpos. rewrite app_length. cbn [length]. now rewrite Nat.add_1_r. Qed.
Lemma it_prev_rpos P e : it_prev (rpos (P ++ [e])) = rpos P.
Proof. rewrite rpos_snoc. unfold it_prev, rpos. now destruct (length P). Qed.
Lemma nth_error_snoc_mid (P : list entry) e B : nth_error ((P ++ [e]) ++ B) (length P) = Some e.
Proof. rewrite <- app_cons_assoc. apply nth_error_mid. Qed.

Lemma adv_new_rev f es ver prefix sk i last snp e : nth_error es i = Some e -> skipb ver prefix last e = false ->
  advance (S f) es ver prefix true sk (mkIt (Some i) last snp) =
  let '(s2, buf) := rewind es ver sk (e_key e) (mkIt (Some i) (Some (e_key e)) snp) (e_dead e, e_val e) in
  if fst buf then advance f es ver prefix true sk (step es true sk s2) else (Some (e_key e, snd buf), s2).
Proof.
  intros Hn Hs. cbn [advance it_pos it_last it_snp]. rewrite Hn. unfold skipb in Hs.
  apply orb_false_iff in Hs. destruct Hs as [H1 H3]. apply orb_false_iff in H1. destruct H1 as [H1 H2].
  rewrite H1, H2, H3. reflexivity.
Qed.

(* skipping a stretch of entries that the loop ignores (reverse modes) *)
Lemma rev_skip es ver prefix sk last : forall X P B (snp : bool) f, es = (P ++ X) ++ B ->
  Forall (fun e => skipb ver prefix last e = true) X -> (sk = true -> Forall (fun e => last <> Some (e_key e)) X) ->
  (length X + (if snp then 1 else 0) <= f)%nat ->
  exists f' snp', (f <= f' + length X + (if snp then 1 else 0))%nat /\
    advance f es ver prefix true sk (mkIt (rpos (P ++ X)) last snp) = advance f' es ver prefix true sk (mkIt (rpos P) last snp').
Proof.
  induction X as [|z X IH] using rev_ind; intros P B snp f E FX FK Hf.
  - exists f, snp. split; [lia|]. now rewrite app_nil_r.
  - apply Forall_app in FX. destruct FX as [FX Fz]. pose proof (Forall_inv Fz) as Sz.
    assert (FK' : sk = true -> Forall (fun e => last <> Some (e_key e)) X).
    { intros H. specialize (FK H). apply Forall_app in FK. tauto. }
    assert (Kz : sk = true -> last <> Some (e_key z)).
    { intros H. specialize (FK H). apply Forall_app in FK. destruct FK as [_ FK]. now inversion FK. }
    rewrite app_length in *. cbn [length] in *. rewrite app_assoc in *.
    assert (Hn : nth_error es (length (P ++ X)) = Some z) by (rewrite E; apply nth_error_snoc_mid).
    assert (St : forall b, step es true sk (mkIt (Some (length (P ++ X))) last b) =
                 if b then mkIt (Some (length (P ++ X))) last false else mkIt (rpos (P ++ X)) last false).
    { intros b. destruct sk.
      - rewrite (step_seek_miss es true _ last b z Hn (Kz eq_refl)), step_lin. cbn [it_pos it_last it_snp].
        rewrite <- (rpos_snoc (P ++ X) z), it_prev_rpos. reflexivity.
      - rewrite step_lin. cbn [it_pos it_last it_snp]. rewrite <- (rpos_snoc (P ++ X) z), it_prev_rpos. reflexivity. }
    assert (E' : es = (P ++ X) ++ ([z] ++ B)) by (rewrite E, <- !app_assoc; reflexivity).
    rewrite rpos_snoc. destruct f as [|f1]; [lia|].
    rewrite (adv_skip f1 es ver prefix true sk _ last snp z Hn Sz), St. destruct snp.
    + destruct f1 as [|f2]; [lia|]. rewrite (adv_skip f2 es ver prefix true sk _ last false z Hn Sz), St.
      destruct (IH P ([z] ++ B) false f2 E' FX FK') as (f' & snp' & Hf' & Eq); [lia|].
      exists f', snp'. split; [lia | exact Eq].
    + destruct (IH P ([z] ++ B) false f1 E' FX FK') as (f' & snp' & Hf' & Eq); [lia|].
      exists f', snp'. split; [lia | exact Eq].
Qed.

(* rewindToLatestVersion, linear mode *)
Definition stopper (ver : N) (k : bytes) (P : list entry) : Prop :=
  forall P' z, P = P' ++ [z] -> (negb (e_ver z <=? ver) || negb (bytes_eqb (e_key z) k)) = true.

Lemma rewind_lin es ver k P : stopper ver k P ->
  forall lo e B snp buf fuel, es = ((P ++ lo) ++ [e]) ++ B ->
  Forall (fun x => (e_ver x <=? ver) = true /\ e_key x = k) lo -> (length lo < fuel)%nat ->
  exists snp', rewind_linear fuel es ver k (mkIt (rpos ((P ++ lo) ++ [e])) (Some k) snp) buf =
     (mkIt (rpos P) (Some k) snp', match lo with [] => buf | v :: _ => (e_dead v, e_val v) end)
     /\ (P <> [] -> snp' = true).
Proof.
  intros HP. induction lo as [|v lo IH] using rev_ind; intros e B snp buf fuel E Flo Hf.
  - rewrite app_nil_r in *. destruct fuel as [|f]; [lia|]. cbn [rewind_linear it_pos it_last it_snp].
    rewrite it_prev_rpos. destruct P as [|z P _] using rev_ind.
    + exists snp. split; [reflexivity | congruence].
    + rewrite rpos_snoc.
      assert (Hn : nth_error es (length P) = Some z) by (rewrite E, <- app_assoc; apply nth_error_snoc_mid).
      rewrite Hn. specialize (HP P z eq_refl). exists true. split; [|reflexivity].
      destruct (negb (e_ver z <=? ver)); [reflexivity|]. cbn [orb] in HP. now rewrite HP.
  - destruct fuel as [|f]; [lia|]. rewrite app_length in Hf. cbn [length] in Hf.
    apply Forall_app in Flo. destruct Flo as [Flo Fv]. destruct (Forall_inv Fv) as [Vv Kv].
    cbn [rewind_linear it_pos it_last it_snp]. rewrite it_prev_rpos.
    rewrite (app_assoc P lo [v]). rewrite rpos_snoc.
    assert (E' : es = ((P ++ lo) ++ [v]) ++ ([e] ++ B)).
    { rewrite E. rewrite (app_assoc P lo [v]). now rewrite <- !app_assoc. }
    assert (Hn : nth_error es (length (P ++ lo)) = Some v) by (rewrite E'; apply nth_error_snoc_mid).
    rewrite Hn, Vv, Kv, bytes_eqb_refl. cbn [negb].
    destruct (IH v ([e] ++ B) true (e_dead v, e_val v) f E' Flo) as (snp' & Eq & Hs); [lia|].
    rewrite rpos_snoc in Eq. rewrite Eq. exists snp'. split; [|exact Hs].
    f_equal. destruct lo; reflexivity.
Qed.

Lemma group_split ver g : pw (fun a b : entry => e_ver b < e_ver a) g ->
  exists hi lo, g = hi ++ lo /\ Forall (fun x => (e_ver x <=? ver) = false) hi /\
    Forall (fun x => (e_ver x <=? ver) = true) lo /\ gfind ver g = hd_error lo.
Proof.
  intros P. destruct (find_split (fun e => e_ver e <=? ver) g) as (hi & lo & E & Fhi & Hlo).
  exists hi, lo. split; [exact E|]. split; [exact Fhi|]. destruct lo as [|y lo].
  - split; [constructor | exact Hlo].
  - destruct Hlo as [Hy Hf]. split; [|exact Hf]. constructor; [exact Hy|].
    rewrite E in P. apply pw_app in P. destruct P as (_ & P & _). cbn [pw] in P. destruct P as [F _].
    rewrite Forall_forall in *. intros x Hx. specialize (F x Hx). apply N.leb_le. apply N.leb_le in Hy. lia.
Qed.

Lemma goodG_snoc G q : goodG (G ++ [q]) -> goodG G /\ good1 q /\ forall q', In q' G -> fst q' <> fst q.
Proof.
  intros [F P]. apply Forall_app in F. destruct F as [F Fq]. apply pw_app in P. destruct P as (P & _ & C).
  split; [now split|]. split; [now inversion Fq|]. intros q' Hq'. apply klt_neq. apply C; [exact Hq' | now left].
Qed.

Lemma skipb_hi ver prefix last e : (e_ver e <=? ver) = false -> skipb ver prefix last e = true.
Proof. intros H. unfold skipb. now rewrite H. Qed.

Lemma hd_snoc (lo : list entry) e v lo' : v :: lo' = lo ++ [e] ->
  match lo with [] => (e_dead e, e_val e) | v0 :: _ => (e_dead v0, e_val v0) end = (e_dead v, e_val v).
Proof. destruct lo as [|v0 lo]; cbn [app]; intros H; injection H as -> _; reflexivity. Qed.

Lemma flatg_single k g : flatg [(k, g)] = g.
Proof. unfold flatg. cbn. apply app_nil_r. Qed.

Lemma stopper_group ver k G1 hi : goodG G1 -> (forall q', In q' G1 -> fst q' <> k) ->
  Forall (fun x => (e_ver x <=? ver) = false) hi -> stopper ver k (flatg G1 ++ hi).
Proof.
  intros GG1 Hneq Fhi P' z EP.
  assert (Iz : In z (flatg G1 ++ hi)) by (rewrite EP; apply in_or_app; right; now left).
  apply in_app_or in Iz. destruct Iz as [Iz|Iz].
  - apply in_flatg in Iz. destruct Iz as (q & Hq & Hz). rewrite (goodG_key _ q z GG1 Hq Hz).
    rewrite (bytes_eqb_neq _ _ (Hneq q Hq)). apply orb_true_r.
  - rewrite Forall_forall in Fhi. now rewrite (Fhi z Iz).
Qed.

(* ---- reverse, linear mode *)
Lemma rev_linear es ver prefix fuel : (2 * length es + 2 <= fuel)%nat ->
  forall G0 X B last snp n f0, es = (flatg G0 ++ X) ++ B -> goodG G0 ->
  Forall (fun q => prefixb prefix (fst q) = true) G0 ->
  Forall (fun e => skipb ver prefix last e = true) X ->
  (forall q, In q G0 -> last <> Some (fst q)) -> (length G0 <= n)%nat ->
  (2 * length (flatg G0 ++ X) + 2 <= f0)%nat ->
  drain1 n f0 fuel es ver prefix true false (mkIt (rpos (flatg G0 ++ X)) last snp) = flat_map (emitg ver) (rev G0).
Proof.
  intros Hfuel. induction G0 as [|[k g] G1 IH] using rev_ind; intros X B last snp n f0 E GG FP FX HL Hn Hf.
  - change (flatg []) with (@nil entry) in *. cbn [app] in *. cbn [rev flat_map].
    destruct (rev_skip es ver prefix false last X [] B snp f0 E FX) as (f' & snp' & _ & Eq); [discriminate | destruct snp; lia |].
    unfold drain1. cbn [app] in Eq. rewrite Eq. change (rpos []) with (@None nat). now rewrite adv_none.
  - rewrite rev_unit. cbn [flat_map]. rewrite flatg_app, flatg_single in *.
    destruct (goodG_snoc _ _ GG) as (GG1 & (Gne & Gk & Gv) & Hneq). cbn [fst snd] in Gne, Gk, Gv, Hneq.
    apply Forall_app in FP. destruct FP as [FP1 FPk]. apply Forall_inv in FPk. cbn [fst] in FPk.
    assert (HLk : last <> Some k) by (apply (HL (k, g)); apply in_or_app; right; now left).
    assert (HL1 : forall q, In q G1 -> last <> Some (fst q)) by (intros q Hq; apply HL; apply in_or_app; now left).
    rewrite app_length in Hn. cbn [length] in Hn.
    destruct (group_split ver g Gv) as (hi & lo & Eg & Fhi & Flo & Hfind).
    unfold emitg at 1. cbn [fst snd]. rewrite Hfind.
    assert (Shi : forall lst, Forall (fun e => skipb ver prefix lst e = true) hi).
    { intros lst. rewrite Forall_forall in *. intros x Hx. apply skipb_hi. now apply Fhi. }
    destruct lo as [|v lo'].
    + rewrite app_nil_r in Eg. subst hi. cbn [hd_error emit1 app].
      rewrite <- (app_assoc (flatg G1) g X) in *.
      apply (IH (g ++ X) B last snp n f0); try assumption; [|lia].
      apply Forall_app. split; [apply Shi | exact FX].
    + cbn [hd_error emit1].
      destruct (exists_last (l := v :: lo')) as (lo2 & e & Elo); [discriminate|].
      pose proof (stopper_group ver k G1 hi GG1 Hneq Fhi) as HP.
      remember (flatg G1 ++ hi) as P eqn:HeqP.
      assert (EP : flatg G1 ++ g = (P ++ lo2) ++ [e]).
      { rewrite HeqP, Eg, Elo. now rewrite <- !app_assoc. }
      rewrite EP in *.
      assert (Les : length es = (length P + length lo2 + 1 + length X + length B)%nat).
      { rewrite E, !app_length. cbn [length]. lia. }
      rewrite !app_length in Hf. cbn [length] in Hf.
      assert (Ie : In e (v :: lo')) by (rewrite Elo; apply in_or_app; right; now left).
      assert (Ve : (e_ver e <=? ver) = true) by (rewrite Forall_forall in Flo; now apply Flo).
      assert (Ke : e_key e = k).
      { rewrite Forall_forall in Gk. apply Gk. rewrite Eg. apply in_or_app. now right. }
      assert (Sk : skipb ver prefix last e = false).
      { unfold skipb. rewrite Ve, Ke, FPk. cbn [negb orb]. destruct last as [lk|]; [|reflexivity]. rewrite <- Ke.
        apply bytes_eqb_neq. intros C. apply HLk. congruence. }
      assert (Flo2 : Forall (fun x => (e_ver x <=? ver) = true /\ e_key x = k) lo2).
      { apply Forall_forall. intros x Hx. assert (Ix : In x (v :: lo')) by (rewrite Elo; apply in_or_app; now left).
        split; [rewrite Forall_forall in Flo; now apply Flo|].
        rewrite Forall_forall in Gk. apply Gk. rewrite Eg. apply in_or_app. now right. }
      destruct (rev_skip es ver prefix false last X ((P ++ lo2) ++ [e]) B snp f0 E FX) as (f' & snp1 & Hf' & Eq);
        [discriminate | destruct snp; lia |].
      unfold drain1. rewrite Eq. rewrite rpos_snoc.
      assert (E2 : es = ((P ++ lo2) ++ [e]) ++ (X ++ B)) by (rewrite E; now rewrite <- !app_assoc).
      assert (Hnth : nth_error es (length (P ++ lo2)) = Some e) by (rewrite E2; apply nth_error_snoc_mid).
      destruct f' as [|f2]; [destruct snp; lia|].
      rewrite (adv_new_rev f2 es ver prefix false _ last snp1 e Hnth Sk). unfold rewind. rewrite Ke.
      destruct (rewind_lin es ver k P HP lo2 e (X ++ B) snp1 (e_dead e, e_val e) (length es) E2 Flo2) as (snp2 & Eq2 & Hs2); [lia|].
      rewrite rpos_snoc in Eq2. rewrite Eq2, (hd_snoc lo2 e v lo' Elo). cbn [fst snd].
      assert (E3 : es = (flatg G1 ++ hi) ++ ((lo2 ++ [e]) ++ X ++ B)).
      { rewrite E2, <- HeqP. now rewrite <- !app_assoc. }
      assert (LP : length P = length (flatg G1 ++ hi)) by now rewrite HeqP.
      destruct (e_dead v).
      * assert (St : step es true false (mkIt (rpos P) (Some k) snp2) = mkIt (rpos P) (Some k) false).
        { rewrite step_lin. cbn [it_pos it_last it_snp]. destruct snp2; [reflexivity|].
          destruct P as [|p0 P0]; [reflexivity|]. assert (false = true) by (apply Hs2; discriminate). discriminate. }
        rewrite St. cbn [app]. rewrite HeqP.
        apply (IH hi _ (Some k) false n f2 E3 GG1 FP1 (Shi _)); [|lia|].
        -- intros q Hq C. injection C as C. now apply (Hneq q Hq).
        -- rewrite <- LP. destruct snp; lia.
      * cbn [app]. f_equal. destruct n as [|n']; [lia|]. rewrite drain_S. rewrite HeqP.
        apply (IH hi _ (Some k) snp2 n' fuel E3 GG1 FP1 (Shi _)); [|lia|].
        -- intros q Hq C. injection C as C. now apply (Hneq q Hq).
        -- rewrite <- LP. lia.
Qed.

Lemma flat_map_rev_small {A B : Type} (f : A -> list B) (l : list A) : (forall x, rev (f x) = f x) ->
  rev (flat_map f l) = flat_map f (rev l).
Proof.
  intros H. induction l as [|a l IH]; [reflexivity|]. cbn [flat_map rev].
  rewrite rev_app_distr, IH, H, flat_map_app. cbn [flat_map]. now rewrite app_nil_r.
Qed.

Lemma emitg_rev ver q : rev (emitg ver q) = emitg ver q.
Proof. unfold emitg, emit1. destruct (gfind ver (snd q)) as [e|]; [|reflexivity]. now destruct (e_dead e). Qed.

Lemma length_groups G : goodG G -> (length G <= length (flatg G))%nat.
Proof.
  induction G as [|[k g] G IH]; intros GG; [cbn; lia|]. rewrite flatg_cons, app_length. cbn [length].
  specialize (IH (goodG_tail _ _ GG)). destruct GG as [F _]. destruct (Forall_inv F) as (Gne & _).
  cbn [snd] in Gne. destruct g; [contradiction|]. cbn [length]. lia.
Qed.

Theorem viter_refines_rev_linear db ver prefix : db_wf db -> wf_bytes prefix -> noprox prefix db ->
  viter db ver prefix true false = spec_iter db ver prefix true.
Proof.
  intros W Wp NP. destruct (viter_setup db prefix W Wp NP) as (Ges & Eb & GG & B & Sp & Fr & FP).
  unfold viter, spec_iter. rewrite Eb, Sp. set (es := flatg Ges) in *.
  rewrite (first_pos_rev es prefix Fr), drain_S.
  rewrite (flat_map_rev_small _ _ (emitg_rev ver)).
  pose proof (length_groups Ges GG) as LG. fold es in LG.
  replace (rpos es) with (rpos (flatg Ges ++ [])) by (now rewrite app_nil_r).
  apply (rev_linear es ver prefix) with (B := []); try assumption.
  - lia.
  - now rewrite !app_nil_r.
  - constructor.
  - intros q _. discriminate.
  - rewrite app_nil_r. fold es. lia.
Qed.

(* ---- reverse, seek mode *)
Lemma keys_before es G1 k g R x y : base es -> es = flatg G1 ++ g ++ R -> goodG (G1 ++ [(k, g)]) ->
  In x (flatg G1) -> In y g -> incomp (e_key x) k /\ lex_lt (e_key x) k = true.
Proof.
  intros B E GG Hx Hy. destruct (goodG_snoc _ _ GG) as (GG1 & (_ & Gk & _) & Hneq). cbn [fst snd] in Gk, Hneq.
  assert (Ky : e_key y = k) by (rewrite Forall_forall in Gk; now apply Gk).
  assert (Ix : In x es) by (rewrite E; apply in_or_app; now left).
  assert (Iy : In y es) by (rewrite E; apply in_or_app; right; apply in_or_app; now left).
  assert (Nx : e_key x <> e_key y).
  { rewrite Ky. apply in_flatg in Hx. destruct Hx as (q & Hq & Hx). rewrite (goodG_key _ q x GG1 Hq Hx). now apply Hneq. }
  rewrite <- Ky. apply rawlt_diff_key; try assumption; try (eapply base_eok; eassumption).
  - now apply (base_keys es).
  - apply (base_cross (flatg G1) (g ++ R)); [now rewrite <- E | exact Hx | apply in_or_app; now left].
Qed.

Lemma rewind_seek es ver k P v R pos snp buf : es = P ++ v :: R ->
  seek_ge es (versioned_key k ver) = Some (length P) -> e_key v = k ->
  rewind es ver true k (mkIt pos (Some k) snp) buf = (mkIt (Some (length P)) (Some k) snp, (e_dead v, e_val v)).
Proof.
  intros E S K. unfold rewind. rewrite S. cbn [it_last it_snp].
  assert (Hn : nth_error es (length P) = Some v) by (rewrite E; apply nth_error_mid).
  now rewrite Hn, K, bytes_eqb_refl.
Qed.

Lemma rev_seek es ver prefix fuel : base es -> u64v ver -> (2 * length es + 2 <= fuel)%nat ->
  forall G0 X B last snp n f0, es = (flatg G0 ++ X) ++ B -> goodG G0 ->
  Forall (fun q => prefixb prefix (fst q) = true) G0 ->
  Forall (fun e => skipb ver prefix last e = true) X -> Forall (fun e => last <> Some (e_key e)) X ->
  (forall q, In q G0 -> last <> Some (fst q)) -> (length G0 <= n)%nat ->
  (2 * length (flatg G0 ++ X) + 2 <= f0)%nat ->
  drain1 n f0 fuel es ver prefix true true (mkIt (rpos (flatg G0 ++ X)) last snp) = flat_map (emitg ver) (rev G0).
Proof.
  intros Bes Hver Hfuel. induction G0 as [|[k g] G1 IH] using rev_ind; intros X B last snp n f0 E GG FP FX FK HL Hn Hf.
  - change (flatg []) with (@nil entry) in *. cbn [app] in *. cbn [rev flat_map].
    destruct (rev_skip es ver prefix true last X [] B snp f0 E FX) as (f' & snp' & _ & Eq); [now intros _ | destruct snp; lia |].
    unfold drain1. cbn [app] in Eq. rewrite Eq. change (rpos []) with (@None nat). now rewrite adv_none.
  - rewrite rev_unit. cbn [flat_map]. rewrite flatg_app, flatg_single in *.
    destruct (goodG_snoc _ _ GG) as (GG1 & (Gne & Gk & Gv) & Hneq). cbn [fst snd] in Gne, Gk, Gv, Hneq.
    apply Forall_app in FP. destruct FP as [FP1 FPk]. apply Forall_inv in FPk. cbn [fst] in FPk.
    assert (HLk : last <> Some k) by (apply (HL (k, g)); apply in_or_app; right; now left).
    assert (HL1 : forall q, In q G1 -> last <> Some (fst q)) by (intros q Hq; apply HL; apply in_or_app; now left).
    rewrite app_length in Hn. cbn [length] in Hn.
    destruct (group_split ver g Gv) as (hi & lo & Eg & Fhi & Flo & Hfind).
    unfold emitg at 1. cbn [fst snd]. rewrite Hfind.
    assert (Shi : forall lst, Forall (fun e => skipb ver prefix lst e = true) hi).
    { intros lst. rewrite Forall_forall in *. intros x Hx. apply skipb_hi. now apply Fhi. }
    destruct lo as [|v lo'].
    + rewrite app_nil_r in Eg. subst hi. cbn [hd_error emit1 app].
      rewrite <- (app_assoc (flatg G1) g X) in *.
      apply (IH (g ++ X) B last snp n f0); try assumption; [| |lia].
      * apply Forall_app. split; [apply Shi | exact FX].
      * apply Forall_app. split; [|exact FK]. rewrite Forall_forall in *. intros x Hx. rewrite (Gk x Hx). exact HLk.
    + cbn [hd_error emit1].
      destruct (exists_last (l := v :: lo')) as (lo2 & e & Elo); [discriminate|].
      remember (flatg G1 ++ hi) as P eqn:HeqP.
      assert (EP : flatg G1 ++ g = (P ++ lo2) ++ [e]).
      { rewrite HeqP, Eg, Elo. now rewrite <- !app_assoc. }
      assert (E5 : es = flatg G1 ++ g ++ (X ++ B)) by (rewrite E; now rewrite <- !app_assoc).
      assert (E4 : es = P ++ v :: (lo' ++ X ++ B)).
      { rewrite E5, HeqP, Eg. rewrite <- !app_assoc. reflexivity. }
      assert (Iv : In v g) by (rewrite Eg; apply in_or_app; right; now left).
      assert (Kv : e_key v = k) by (rewrite Forall_forall in Gk; now apply Gk).
      assert (Ives : In v es) by (rewrite E4; apply in_or_app; right; now left).
      assert (Vv : (e_ver v <=? ver) = true) by now inversion Flo.
      assert (Sge : seek_ge es (versioned_key k ver) = Some (length P)).
      { rewrite E4 at 1. rewrite seek_ge_split; [reflexivity| |].
        - rewrite HeqP. apply Forall_app. split; apply Forall_forall; intros x Hx.
          + destruct (keys_before es G1 k g (X ++ B) x v Bes E5 GG Hx Iv) as [Inc Lt].
            unfold rawkey, versioned_key. now rewrite lex_lt_incomp.
          + assert (Ix : In x es) by (rewrite E4, HeqP; apply in_or_app; left; apply in_or_app; now right).
            assert (Kx : e_key x = k).
            { rewrite Forall_forall in Gk. apply Gk. rewrite Eg. apply in_or_app. now left. }
            pose proof (raw_ge_vkey x ver (base_eok _ _ Bes Ix) Hver) as R. rewrite Kx in R.
            rewrite Forall_forall in Fhi. rewrite (Fhi x Hx) in R. unfold lex_le in R. now apply negb_false_iff in R.
        - pose proof (raw_ge_vkey v ver (base_eok _ _ Bes Ives) Hver) as R. rewrite Kv in R. now rewrite R. }
      assert (Slt : seek_lt es k = rpos (flatg G1)).
      { rewrite E5 at 1. apply seek_lt_split.
        - apply Forall_forall. intros x Hx.
          destruct (keys_before es G1 k g (X ++ B) x v Bes E5 GG Hx Iv) as [Inc Lt].
          now rewrite raw_lt_key_incomp.
        - destruct g as [|g0 g']; [contradiction|]. cbn [app]. rewrite <- (Forall_inv Gk). apply raw_lt_key_same. }
      assert (Hnv : nth_error es (length P) = Some v) by (rewrite E4; apply nth_error_mid).
      assert (StV : forall b, step es true true (mkIt (Some (length P)) (Some k) b) = mkIt (rpos (flatg G1)) (Some k) b).
      { intros b. rewrite (step_seek_hit es true _ k b v Hnv Kv). now rewrite Slt. }
      rewrite EP in *.
      assert (Les : length es = (length P + length lo2 + 1 + length X + length B)%nat).
      { rewrite E, !app_length. cbn [length]. lia. }
      assert (LP : (length (flatg G1) <= length P)%nat) by (rewrite HeqP, app_length; lia).
      rewrite !app_length in Hf. cbn [length] in Hf.
      assert (Ie : In e (v :: lo')) by (rewrite Elo; apply in_or_app; right; now left).
      assert (Ve : (e_ver e <=? ver) = true) by (rewrite Forall_forall in Flo; now apply Flo).
      assert (Ke : e_key e = k).
      { rewrite Forall_forall in Gk. apply Gk. rewrite Eg. apply in_or_app. now right. }
      assert (Sk : skipb ver prefix last e = false).
      { unfold skipb. rewrite Ve, Ke, FPk. cbn [negb orb]. destruct last as [lk|]; [|reflexivity]. rewrite <- Ke.
        apply bytes_eqb_neq. intros C. apply HLk. congruence. }
      destruct (rev_skip es ver prefix true last X ((P ++ lo2) ++ [e]) B snp f0 E FX) as (f' & snp1 & Hf' & Eq);
        [now intros _ | destruct snp; lia |].
      unfold drain1. rewrite Eq. rewrite rpos_snoc.
      assert (E2 : es = ((P ++ lo2) ++ [e]) ++ (X ++ B)) by (rewrite E; now rewrite <- !app_assoc).
      assert (Hnth : nth_error es (length (P ++ lo2)) = Some e) by (rewrite E2; apply nth_error_snoc_mid).
      destruct f' as [|f2]; [destruct snp; lia|].
      rewrite (adv_new_rev f2 es ver prefix true _ last snp1 e Hnth Sk). rewrite Ke.
      rewrite (rewind_seek es ver k P v _ _ snp1 _ E4 Sge Kv). cbn [fst snd].
      assert (E3 : es = (flatg G1 ++ []) ++ (g ++ X ++ B)) by (rewrite app_nil_r; exact E5).
      assert (HN1 : forall q, In q G1 -> Some k <> Some (fst q)).
      { intros q Hq C. injection C as C. now apply (Hneq q Hq). }
      replace (rpos (flatg G1)) with (rpos (flatg G1 ++ [])) in StV by now rewrite app_nil_r.
      destruct (e_dead v).
      * rewrite StV. cbn [app].
        apply (IH [] _ (Some k) snp1 n f2 E3 GG1 FP1); try (now constructor); try assumption; [lia|].
        rewrite app_nil_r. destruct snp; lia.
      * cbn [app]. f_equal. destruct n as [|n']; [lia|]. rewrite drain_S.
        destruct fuel as [|fu]; [lia|]. unfold drain1.
        assert (SkV : skipb ver prefix (Some k) v = true) by (rewrite <- Kv; apply skipb_same).
        rewrite (adv_skip fu es ver prefix true true _ (Some k) snp1 v Hnv SkV), StV.
        apply (IH [] _ (Some k) snp1 n' fu E3 GG1 FP1); try (now constructor); try assumption; [lia|].
        rewrite app_nil_r. lia.
Qed.

Theorem viter_refines_rev_seek db ver prefix : db_wf db -> wf_bytes prefix -> noprox prefix db -> u64v ver ->
  viter db ver prefix true true = spec_iter db ver prefix true.
Proof.
  intros W Wp NP Hv. destruct (viter_setup db prefix W Wp NP) as (Ges & Eb & GG & B & Sp & Fr & FP).
  unfold viter, spec_iter. rewrite Eb, Sp. set (es := flatg Ges) in *.
  rewrite (first_pos_rev es prefix Fr), drain_S.
  rewrite (flat_map_rev_small _ _ (emitg_rev ver)).
  pose proof (length_groups Ges GG) as LG. fold es in LG.
  replace (rpos es) with (rpos (flatg Ges ++ [])) by (now rewrite app_nil_r).
  apply (rev_seek es ver prefix) with (B := []); try assumption.
  - lia.
  - now rewrite !app_nil_r.
  - constructor.
  - constructor.
  - intros q _. discriminate.
  - rewrite app_nil_r. fold es. lia.
Qed.

(* ---- the prefix filter: when the bounded range contains an entry whose user key is not under the prefix (the prefix cuts
   into its version suffix), that user key is a proper prefix of the iteration prefix, so by prefix-freeness NO stored user
   key is under the prefix: the fixed iterator skips everything and the specification is empty *)
Lemma is_prefix_trans a b c : is_prefix a b -> is_prefix b c -> is_prefix a c.
Proof. intros [s ->] [t ->]. exists (s ++ t). now rewrite app_assoc. Qed.

Lemma forallb_false_ex {A : Type} (f : A -> bool) (l : list A) : forallb f l = false -> exists x, In x l /\ f x = false.
Proof.
  induction l as [|a l IH]; intros H; [discriminate H|]. cbn [forallb] in H. destruct (f a) eqn:E.
  - destruct (IH H) as (x & Hx & Fx). exists x. split; [now right | exact Fx].
  - exists a. split; [now left | exact E].
Qed.

Lemma flat_map_nil {A B : Type} (f : A -> list B) (l : list A) : (forall x, In x l -> f x = []) -> flat_map f l = [].
Proof.
  induction l as [|a l IH]; intros H; [reflexivity|]. cbn [flat_map]. rewrite (H a) by now left.
  apply IH. intros x Hx. apply H. now right.
Qed.

Lemma skipb_off ver prefix last e : prefixb prefix (e_key e) = false -> skipb ver prefix last e = true.
Proof. intros H. unfold skipb. rewrite H. cbn [negb]. now rewrite orb_true_r. Qed.

Lemma fwd_run_allskip ver prefix l : forall last, Forall (fun e => forall lst, skipb ver prefix lst e = true) l ->
  fwd_run ver prefix l last = [].
Proof.
  induction l as [|e l IH]; intros last F; [reflexivity|]. cbn [fwd_run]. rewrite (Forall_inv F last).
  apply IH. now inversion F.
Qed.

Lemma offprefix db prefix e0 : base db -> prefix_free (keys_of db) -> wf_bytes prefix ->
  In e0 (bounded prefix db) -> prefixb prefix (e_key e0) = false ->
  forall k, In k (keys_of db) -> prefixb prefix k = false.
Proof.
  intros B PF Wp He0 Hp0 k Hk. unfold bounded in He0. apply filter_In in He0. destruct He0 as [I0 R0].
  pose proof (base_eok _ _ B I0) as Ok0. destruct (rawkey_wf e0 Ok0) as [Wr Lr].
  apply range_iff_prefix in R0; [|assumption|assumption|lia].
  unfold rawkey, versioned_key in R0. apply prefix_app_cases in R0. destruct R0 as [R0|R0].
  { apply prefixb_spec in R0. rewrite R0 in Hp0. discriminate Hp0. }
  destruct (prefixb prefix k) eqn:Pk; [|reflexivity]. exfalso. apply prefixb_spec in Pk.
  assert (E : e_key e0 = k).
  { apply PF; [now apply in_map | exact Hk | eapply is_prefix_trans; eassumption]. }
  rewrite <- E in Pk. apply prefixb_spec in Pk. rewrite Pk in Hp0. discriminate Hp0.
Qed.

Lemma viter_offprefix db ver prefix reverse seek : db_wf db -> u64v ver ->
  (forall x, In x (bounded prefix db) -> prefixb prefix (e_key x) = false) ->
  viter db ver prefix reverse seek = [].
Proof.
  intros W Hv Hoff. pose proof (db_wf_base db W) as B.
  assert (Bes : base (bounded prefix db)) by (unfold bounded; now apply base_filter).
  assert (Fr : Forall (fun e => in_range prefix (rawkey e) = true) (bounded prefix db)).
  { apply Forall_forall. intros x Hx. unfold bounded in Hx. apply filter_In in Hx. tauto. }
  unfold viter. set (es := bounded prefix db) in *.
  assert (FS : Forall (fun e => forall lst, skipb ver prefix lst e = true) es).
  { apply Forall_forall. intros x Hx lst. apply skipb_off. now apply Hoff. }
  assert (FS' : forall lst, Forall (fun e => skipb ver prefix lst e = true) es).
  { intros lst. rewrite Forall_forall in *. intros x Hx. now apply FS. }
  assert (GN : goodG []) by (split; [constructor | exact I]).
  destruct reverse.
  - rewrite (first_pos_rev es prefix Fr), drain_S.
    change (rpos es) with (rpos (flatg [] ++ es)).
    destruct seek.
    + apply (rev_seek es ver prefix _ Bes Hv) with (G0 := []) (X := es) (B := []); try assumption.
      * lia.
      * cbn [flatg flat_map app]. now rewrite app_nil_r.
      * constructor.
      * apply FS'.
      * apply Forall_forall. intros x _. discriminate.
      * intros q [].
      * cbn; lia.
      * cbn [flatg flat_map app]. lia.
    + apply (rev_linear es ver prefix) with (G0 := []) (X := es) (B := []); try assumption.
      * lia.
      * cbn [flatg flat_map app]. now rewrite app_nil_r.
      * constructor.
      * apply FS'.
      * intros q [].
      * cbn; lia.
      * cbn [flatg flat_map app]. lia.
  - rewrite (first_pos_fwd es prefix Fr), drain_S. destruct seek.
    + rewrite (fwd_seek es ver prefix _ Bes) with (m := length es) (l := es) (A := []); try reflexivity; try lia.
      now apply fwd_run_allskip.
    + rewrite (fwd_linear es ver prefix) with (l := es) (A := []); try reflexivity; try lia.
      now apply fwd_run_allskip.
Qed.

(* ---------------------------------------------------------------- point reads *)
(* Get at version ver returns the value of the greatest version <= ver of the key, unless that version is a tombstone *)
Theorem vget_refines db ver k : db_wf db -> prefix_free (k :: keys_of db) -> wf_bytes k -> k <> [] -> (length k <= 248)%nat ->
  u64v ver -> vget db ver k = spec_get db ver k.
Proof.
  intros W PF Wk _ _ Hv. pose proof (db_wf_base db W) as B.
  assert (NP : noprox k db).
  { apply noprox_of_keys. intros k' Hk' Hp. apply PF; [now right | now left | exact Hp]. }
  assert (Ees : bounded k db = filter (fun e => bytes_eqb (e_key e) k) db).
  { rewrite bounded_filter by assumption. apply filter_ext_in. intros e He. apply eq_true_iff_eq.
    rewrite prefixb_spec, bytes_eqb_eq. split.
    - intros H. symmetry. apply PF; [now left | right; now apply in_map | exact H].
    - intros ->. apply is_prefix_refl. }
  unfold vget. rewrite Ees. unfold spec_get. rewrite visible_entry_find by now apply base_desc.
  unfold vmatch. rewrite find_filter.
  pose proof (base_filter (fun e => bytes_eqb (e_key e) k) db B) as Bes.
  set (es := filter (fun e => bytes_eqb (e_key e) k) db) in *.
  assert (Kes : forall x, In x es -> e_key x = k).
  { intros x Hx. apply filter_In in Hx. now apply bytes_eqb_eq. }
  destruct (find_split (fun e => e_ver e <=? ver) es) as (hi & lo & E & Fhi & Hlo).
  assert (S : seek_ge es (versioned_key k ver) = fpos hi lo).
  { rewrite E. apply seek_ge_split.
    - rewrite Forall_forall in *. intros x Hx.
      assert (Ix : In x es) by (rewrite E; apply in_or_app; now left).
      pose proof (raw_ge_vkey x ver (base_eok _ _ Bes Ix) Hv) as R. rewrite (Kes x Ix), (Fhi x Hx) in R.
      unfold lex_le in R. now apply negb_false_iff in R.
    - destruct lo as [|y lo]; [exact I|]. destruct Hlo as [Hy _].
      assert (Iy : In y es) by (rewrite E; apply in_or_app; right; now left).
      pose proof (raw_ge_vkey y ver (base_eok _ _ Bes Iy) Hv) as R. rewrite (Kes y Iy) in R. now rewrite R. }
  rewrite S. destruct lo as [|y lo].
  - cbn [fpos]. now rewrite Hlo.
  - destruct Hlo as [Hy Hf]. rewrite Hf. cbn [fpos]. rewrite E, nth_error_mid.
    assert (Iy : In y es) by (rewrite E; apply in_or_app; right; now left).
    rewrite (Kes y Iy), bytes_eqb_refl, Hy. cbn [andb]. now destruct (e_dead y).
Qed.

(* ---------------------------------------------------------------- iteration: all four strategies *)
(* complete, ordered, duplicate-free, deletes hide: exactly the visible (key, value) pairs under the prefix, ascending
   (forward) or descending (reverse), whether versions are skipped by seeking or walked linearly *)
(* Two cases.  Either every entry inside the raw-key bounds has its user key under the prefix (the prefix filter of
   advanceToNextKey never fires, and the bounded list is exactly the sub-database of the keys under the prefix), or some
   entry is inside the bounds only through its version suffix: then its user key is a proper prefix of the iteration
   prefix, prefix-freeness leaves no stored key under the prefix, the filter skips every entry and both sides are empty. *)
Theorem viter_refines db ver prefix reverse seek : db_wf db -> wf_bytes prefix -> (length prefix <= 248)%nat -> u64v ver ->
  viter db ver prefix reverse seek = spec_iter db ver prefix reverse.
Proof.
  intros W Wp _ Hv. pose proof (db_wf_base db W) as B.
  destruct (forallb (fun e => prefixb prefix (e_key e)) (bounded prefix db)) eqn:FA.
  - assert (NP : noprox prefix db).
    { intros e He Hp. apply prefixb_spec. rewrite forallb_forall in FA. apply FA.
      unfold bounded. apply filter_In. split; [exact He|].
      destruct (rawkey_wf e (base_eok _ _ B He)) as [Wr Lr]. apply range_iff_prefix; try assumption. lia. }
    destruct reverse.
    + destruct seek; [now apply viter_refines_rev_seek | now apply viter_refines_rev_linear].
    + now apply viter_refines_fwd.
  - apply forallb_false_ex in FA. destruct FA as (e0 & He0 & Hp0).
    destruct W as (S & PF & F).
    pose proof (offprefix db prefix e0 B PF Wp He0 Hp0) as Hoff.
    rewrite viter_offprefix; [| now repeat split | exact Hv |].
    + assert (E : spec_iter_fwd db ver prefix = []).
      { unfold spec_iter_fwd. apply flat_map_nil. intros k Hk. now rewrite (Hoff k (dedup_in _ _ _ Hk)). }
      unfold spec_iter. rewrite E. now destruct reverse.
    + intros x Hx. apply Hoff. apply in_map. unfold bounded in Hx. apply filter_In in Hx. tauto.
Qed.

(* the witness that refuted the first version of the model (iterator bounds on raw keys, no prefix filter): key [1] stored at
   version 0 has raw key [1;255;...;255], which lies inside the bounds of prefix [1;255]; the fixed iterator skips it *)
Example viter_prefix_filter_witness :
  viter [mkEntry [1] 0 false [9]] 0 [1; 255] false false = [] /\
  viter [mkEntry [1] 0 false [9]] 0 [1; 255] false true = [] /\
  viter [mkEntry [1] 0 false [9]] 0 [1; 255] true false = [] /\
  viter [mkEntry [1] 0 false [9]] 0 [1; 255] true true = [] /\
  bounded [1; 255] [mkEntry [1] 0 false [9]] = [mkEntry [1] 0 false [9]] /\
  spec_iter [mkEntry [1] 0 false [9]] 0 [1; 255] false = [].
Proof. vm_compute. repeat split. Qed.

(* the specification lists every visible key under the prefix exactly once, in strictly increasing order *)
Theorem spec_iter_complete db ver prefix k v : db_wf db -> wf_bytes prefix ->
  (In (k, v) (spec_iter_fwd db ver prefix) <-> (prefixb prefix k = true /\ In k (keys_of db) /\ spec_get db ver k = Some v)).
Proof.
  intros _ _. unfold spec_iter_fwd. rewrite in_flat_map. split.
  - intros (x & Hx & H). destruct (prefixb prefix x) eqn:P; [|contradiction].
    destruct (spec_get db ver x) as [v'|] eqn:S; [|contradiction]. destruct H as [H|[]]. injection H as -> ->.
    split; [exact P|]. split; [now apply dedup_in in Hx | exact S].
  - intros (P & Hk & S). exists k. split.
    + destruct (dedup_in_conv db None k Hk) as [C|C]; [discriminate C | exact C].
    + rewrite P, S. now left.
Qed.
Theorem spec_iter_sorted db ver prefix : db_wf db ->
  forall i j a b, (i < j)%nat -> nth_error (spec_iter_fwd db ver prefix) i = Some a -> nth_error (spec_iter_fwd db ver prefix) j = Some b ->
  lex_lt (fst a) (fst b) = true.
Proof.
  intros W. pose proof (db_wf_base db W) as B. destruct (groups_exist db B) as (G & <- & GG).
  rewrite (spec_iter_groups G ver prefix B GG). intros i j a b.
  apply (pw_nth (fun a b : bytes * bytes => lex_lt (fst a) (fst b) = true)).
  apply emitg_sorted. apply pw_filter. apply GG.
Qed.

(* ---------------------------------------------------------------- committed history is immutable *)
(* later commits only add raw entries with greater versions: what a reader at version ver observes does not change *)
Theorem spec_get_later_writes db db' extra ver k : Permutation db' (db ++ extra) ->
  Forall (fun e => ver < e_ver e) extra ->
  NoDup (map (fun e => (e_key e, e_ver e)) db') ->
  spec_get db' ver k = spec_get db ver k.
Proof.
  intros HP Hex Hnd.
  assert (Hin : forall x, vmatch ver k x = true -> (In x db' <-> In x db)).
  { intros x Mx. split; intros Hx.
    - apply (Permutation_in _ HP) in Hx. apply in_app_or in Hx. destruct Hx as [Hx|Hx]; [exact Hx|].
      rewrite Forall_forall in Hex. specialize (Hex x Hx). apply vmatch_key in Mx. lia.
    - apply (Permutation_in _ (Permutation_sym HP)). apply in_or_app. now left. }
  assert (E : visible_entry db' ver k = visible_entry db ver k).
  { pose proof (visible_entry_inv db' ver k) as I1. pose proof (visible_entry_inv db ver k) as I2.
    destruct (visible_entry db' ver k) as [b1|], (visible_entry db ver k) as [b2|]; cbn [vinv] in I1, I2.
    - destruct I1 as (H1 & M1 & X1), I2 as (H2 & M2 & X2).
      assert (H1' : In b1 db) by (now apply Hin). assert (H2' : In b2 db') by (now apply Hin).
      pose proof (X1 b2 H2' M2) as L1. pose proof (X2 b1 H1' M1) as L2.
      apply vmatch_key in M1, M2. f_equal.
      apply (NoDup_map_inj_in _ _ (fun e => (e_key e, e_ver e)) db'); try assumption.
      f_equal; [destruct M1, M2; congruence | lia].
    - destruct I1 as (H1 & M1 & X1). assert (H1' : In b1 db) by (now apply Hin).
      rewrite (I2 b1 H1') in M1. discriminate M1.
    - destruct I2 as (H2 & M2 & X2). assert (H2' : In b2 db') by (now apply Hin).
      rewrite (I1 b2 H2') in M2. discriminate M2.
    - reflexivity. }
  unfold spec_get. now rewrite E.
Qed.

(* deleting raw entries above a version (rollback / pruning of newer versions) does not change it either *)
Theorem spec_get_prune_above db ver cut k : ver <= cut ->
  spec_get (filter (fun e => e_ver e <=? cut) db) ver k = spec_get db ver k.
Proof.
  intros Hc. unfold spec_get. rewrite !visible_entry_fold.
  assert (E : forall l acc, fold_left (vstep ver k) (filter (fun e => e_ver e <=? cut) l) acc = fold_left (vstep ver k) l acc).
  { induction l as [|e l IH]; intros acc; [reflexivity|]. cbn [filter].
    destruct (e_ver e <=? cut) eqn:Q.
    - cbn [fold_left]. apply IH.
    - cbn [fold_left]. rewrite IH. f_equal. unfold vstep, vmatch.
      apply N.leb_gt in Q. assert (e_ver e <=? ver = false) as -> by (apply N.leb_gt; lia).
      now rewrite andb_false_r. }
  now rewrite E.
Qed.

(* without prefix-freeness the skipping strategies are wrong: a key that is a proper prefix of another breaks de-duplication *)
Theorem iter_without_prefix_free_refuted : exists db ver prefix reverse seek,
  sorted_raw db = true /\ viter db ver prefix reverse seek <> spec_iter db ver prefix reverse.
Proof.
  exists [mkEntry [1] 0 false [7]; mkEntry [1; 255] 0 false [8]], 0, [], false, true.
  split; [vm_compute; reflexivity|]. vm_compute. intros H. discriminate H.
Qed.

Print Assumptions vget_refines.
Print Assumptions viter_refines.
Print Assumptions spec_get_later_writes.
Print Assumptions spec_iter_sorted.
