(* LedgerStaking.v — lemmas for property C12 (staking bookkeeping stays consistent; the chain never wedges itself) over
   model/Ledger.v and the scan predicates of model/LedgerCheck.v

   Contents: association-list library (sorted keys), stake sums, primitive/fold specifications, marker lemmas, the invariant
   [Consistent] split into tallies and marker clauses, status operations, DeleteValidator (total on consistent states),
   UpdateValidatorStake, the message handlers, the deferred end-block actions, slashing, the old-DeleteValidator wedge, and
   machine-checked counterexamples for the statements that had to be strengthened (search "STATEMENT CHANGED"). *)
From Coq Require Import NArith List Bool Lia ZifyN ZifyBool.
From V Require Import U64 Extracted Ledger LedgerCheck.
Import ListNotations.
Local Open Scope N_scope.

Definition keys_nodup {A} (m : list (N * A)) : Prop := NoDup (map fst m).
Fixpoint keys_sorted {A} (m : list (N * A)) : Prop :=
  match m with [] => True | e :: r => (forall k, In k (map fst r) -> fst e < k) /\ keys_sorted r end.

Lemma keys_sorted_nodup {A} (m : list (N * A)) : keys_sorted m -> keys_nodup m.
Proof.
  unfold keys_nodup. induction m as [|[k v] r IH]; intros H; cbn in *.
  - constructor.
  - destruct H as [H1 H2]. constructor; auto. intros Hin. apply H1 in Hin. lia.
Qed.

(* ---- association-list library *)
Section AL.
  Context {A : Type}.
  Implicit Types (m : list (N * A)).

  Lemma aget_None_iff k m : aget k m = None <-> ~ In k (map fst m).
  Proof.
    induction m as [|[k' v] r IH]; cbn.
    - tauto.
    - destruct (N.eqb_spec k k') as [->|Hne].
      + split; [discriminate|]. intros H; exfalso; apply H; auto.
      + rewrite IH. split; intros H; [intros [H1|H1]; [congruence|tauto] | tauto].
  Qed.
  Lemma aget_In k v m : aget k m = Some v -> In (k, v) m.
  Proof.
    induction m as [|[k' v'] r IH]; cbn; [discriminate|].
    destruct (N.eqb_spec k k') as [->|Hne]; intros H; [inversion H; auto | auto].
  Qed.
  Lemma aget_In_keys k v m : aget k m = Some v -> In k (map fst m).
  Proof. intros H. apply aget_In in H. apply (in_map fst) in H. exact H. Qed.
  Lemma In_aget k v m : keys_sorted m -> In (k, v) m -> aget k m = Some v.
  Proof.
    induction m as [|[k' v'] r IH]; cbn; [tauto|]. intros [H1 H2] [Hin|Hin].
    - inversion Hin; subst. now rewrite N.eqb_refl.
    - destruct (N.eqb_spec k k') as [->|Hne]; auto.
      apply (in_map fst) in Hin. apply H1 in Hin. cbn in Hin. lia.
  Qed.
  Lemma aget_lt_head k k' (x : A) r : keys_sorted ((k', x) :: r) -> k < k' -> aget k ((k', x) :: r) = None.
  Proof.
    intros [H1 H2] Hlt. apply aget_None_iff. cbn. intros [H|H]; [lia|]. apply H1 in H. cbn in H. lia.
  Qed.

  Lemma aget_aput k a v m : aget k (aput a v m) = if k =? a then Some v else aget k m.
  Proof.
    induction m as [|[k' v'] r IH]; cbn.
    - destruct (k =? a); reflexivity.
    - destruct (N.eqb_spec a k') as [->|Hne]; cbn.
      + destruct (k =? k'); reflexivity.
      + destruct (a <? k'); cbn.
        * destruct (k =? a); reflexivity.
        * rewrite IH. destruct (N.eqb_spec k k') as [->|Hne2]; auto.
          destruct (N.eqb_spec k' a); [congruence|reflexivity].
  Qed.
  Lemma keys_aput k a v m : In k (map fst (aput a v m)) <-> k = a \/ In k (map fst m).
  Proof.
    induction m as [|[k' v'] r IH]; cbn.
    - intuition.
    - destruct (N.eqb_spec a k') as [->|Hne]; cbn.
      + intuition.
      + destruct (a <? k'); cbn; [intuition|]. rewrite IH. intuition.
  Qed.
  Lemma sorted_aput a v m : keys_sorted m -> keys_sorted (aput a v m).
  Proof.
    induction m as [|[k' v'] r IH]; cbn.
    - intuition.
    - intros [H1 H2]. destruct (N.eqb_spec a k') as [->|Hne]; cbn.
      + auto.
      + destruct (N.ltb_spec a k') as [Hlt|Hge]; cbn.
        * split; [|auto]. intros k [Hk|Hk]; [lia|]. apply H1 in Hk. cbn in Hk. lia.
        * split; [|auto]. intros k Hk. apply keys_aput in Hk. destruct Hk as [->|Hk]; [lia|]. now apply H1.
  Qed.
  Lemma aput_aput a v1 v2 m : aput a v2 (aput a v1 m) = aput a v2 m.
  Proof.
    induction m as [|[k' v'] r IH]; cbn.
    - now rewrite N.eqb_refl.
    - destruct (N.eqb_spec a k') as [->|Hne]; cbn.
      + now rewrite N.eqb_refl.
      + destruct (N.ltb_spec a k') as [Hlt|Hge]; cbn.
        * now rewrite N.eqb_refl.
        * destruct (N.eqb_spec a k'); [congruence|]. destruct (N.ltb_spec a k'); [lia|]. now rewrite IH.
  Qed.

  Lemma keys_adel k a m : In k (map fst (adel a m)) -> In k (map fst m).
  Proof.
    induction m as [|[k' v'] r IH]; cbn; auto.
    destruct (a =? k'); cbn; intuition.
  Qed.
  Lemma sorted_adel a m : keys_sorted m -> keys_sorted (adel a m).
  Proof.
    induction m as [|[k' v'] r IH]; cbn; auto.
    intros [H1 H2]. destruct (a =? k'); cbn; auto. split; auto. intros k Hk. apply H1. eapply keys_adel; eauto.
  Qed.
  Lemma aget_adel k a m : keys_sorted m -> aget k (adel a m) = if k =? a then None else aget k m.
  Proof.
    induction m as [|[k' v'] r IH]; cbn.
    - destruct (k =? a); reflexivity.
    - intros [H1 H2]. destruct (N.eqb_spec a k') as [->|Hne]; cbn.
      + destruct (N.eqb_spec k k') as [->|Hne]; auto.
        apply aget_None_iff. intros Hin. apply H1 in Hin. cbn in Hin. lia.
      + rewrite IH by auto. destruct (N.eqb_spec k k') as [->|Hne2]; auto.
        destruct (N.eqb_spec k' a); [congruence|reflexivity].
  Qed.
  Lemma adel_absent a m : aget a m = None -> adel a m = m.
  Proof.
    induction m as [|[k' v'] r IH]; cbn; auto.
    destruct (a =? k'); [discriminate|]. intros H. now rewrite IH.
  Qed.
End AL.

Lemma nget_nput k a v m : keys_sorted m -> nget k (nput a v m) = if k =? a then v else nget k m.
Proof.
  intros Hs. unfold nget, nput. destruct (N.eqb_spec v 0) as [->|Hv].
  - rewrite aget_adel by auto. destruct (k =? a); reflexivity.
  - rewrite aget_aput. destruct (k =? a); reflexivity.
Qed.
Lemma sorted_nput a v m : keys_sorted m -> keys_sorted (nput a v m).
Proof. intros Hs. unfold nput. destruct (v =? 0); [now apply sorted_adel | now apply sorted_aput]. Qed.

Lemma sum_snd_aput a v m : keys_sorted m -> sum_snd (aput a v m) + nget a m = sum_snd m + v.
Proof.
  unfold nget. induction m as [|[k' v'] r IH]; intros Hs.
  - cbn. lia.
  - cbn [aput]. destruct (N.eqb_spec a k') as [->|Hne].
    + cbn. rewrite N.eqb_refl. lia.
    + destruct (N.ltb_spec a k') as [Hlt|Hge].
      * rewrite (aget_lt_head a k' v' r Hs Hlt). unfold sum_snd; cbn. lia.
      * destruct Hs as [H1 H2]. specialize (IH H2). cbn [aget]. destruct (N.eqb_spec a k'); [congruence|].
        unfold sum_snd in *; cbn [fold_right snd] in *. lia.
Qed.
Lemma sum_snd_adel a m : keys_sorted m -> sum_snd (adel a m) + nget a m = sum_snd m.
Proof.
  unfold nget. induction m as [|[k' v'] r IH]; intros Hs.
  - cbn. lia.
  - cbn [adel aget]. destruct Hs as [H1 H2]. destruct (N.eqb_spec a k') as [->|Hne].
    + unfold sum_snd; cbn. lia.
    + specialize (IH H2). unfold sum_snd in *; cbn [fold_right snd] in *. lia.
Qed.
Lemma sum_snd_nput a v m : keys_sorted m -> sum_snd (nput a v m) + nget a m = sum_snd m + v.
Proof.
  intros Hs. unfold nput. destruct (N.eqb_spec v 0) as [->|Hv].
  - rewrite N.add_0_r. now apply sum_snd_adel.
  - now apply sum_snd_aput.
Qed.
Lemma nget_le_sum k m : nget k m <= sum_snd m.
Proof.
  unfold nget. induction m as [|[k' v'] r IH]; cbn; [lia|].
  unfold sum_snd in *. destruct (k =? k'); cbn; lia.
Qed.

(* ---- stake sums over validator lists *)
Definition wv (P : validator -> bool) (v : validator) : N := if P v then v_stake v else 0.
Definition wo (P : validator -> bool) (ov : option validator) : N := match ov with Some v => wv P v | None => 0 end.
Definition sw (P : validator -> bool) (vals : list (N * validator)) : N :=
  fold_right (fun e acc => if P (snd e) then v_stake (snd e) + acc else acc) 0 vals.

Lemma sw_cons P k v r : sw P ((k, v) :: r) = wv P v + sw P r.
Proof. unfold sw, wv; cbn. destruct (P v); lia. Qed.
Lemma sw_aput P a v' m : keys_sorted m -> sw P (aput a v' m) + wo P (aget a m) = sw P m + wv P v'.
Proof.
  induction m as [|[k' v0] r IH]; intros Hs.
  - cbn [aput aget wo]. rewrite sw_cons. unfold sw; cbn. lia.
  - cbn [aput]. destruct (N.eqb_spec a k') as [->|Hne].
    + cbn [aget]. rewrite N.eqb_refl. cbn [wo]. rewrite !sw_cons. lia.
    + destruct (N.ltb_spec a k') as [Hlt|Hge].
      * rewrite (aget_lt_head a k' v0 r Hs Hlt). cbn [wo]. rewrite !sw_cons. lia.
      * destruct Hs as [H1 H2]. specialize (IH H2). cbn [aget]. destruct (N.eqb_spec a k'); [congruence|].
        rewrite !sw_cons. lia.
Qed.
Lemma sw_adel P a m : keys_sorted m -> sw P (adel a m) + wo P (aget a m) = sw P m.
Proof.
  induction m as [|[k' v0] r IH]; intros Hs.
  - cbn. lia.
  - cbn [adel aget]. destruct Hs as [H1 H2]. destruct (N.eqb_spec a k') as [->|Hne].
    + cbn [wo]. rewrite sw_cons. lia.
    + specialize (IH H2). rewrite !sw_cons. lia.
Qed.
Definition Pt : validator -> bool := fun _ => true.
Lemma sum_stake_sw m : sum_stake m = sw Pt m.
Proof. reflexivity. Qed.
Lemma wv_le_sw P a v m : aget a m = Some v -> wv P v <= sw P m.
Proof.
  induction m as [|[k' v0] r IH]; cbn [aget]; [discriminate|].
  rewrite sw_cons. destruct (a =? k'); intros H.
  - inversion H; subst. lia.
  - specialize (IH H). lia.
Qed.
(* ---- result monad and primitive operations *)
Lemma bind_ok {A B} (r : res A) (k : A -> res B) b : bind r k = LOk b -> exists a, r = LOk a /\ k a = LOk b.
Proof. destruct r as [a|]; cbn; [eauto|discriminate]. Qed.

Ltac bind_inv H :=
  match type of H with
  | bind _ _ = LOk _ => let a := fresh "st" in let H1 := fresh "Hb" in
      apply bind_ok in H; destruct H as [a [H1 H]]
  end.

Ltac splits := repeat match goal with |- _ /\ _ => split end.
Ltac psimpl := cbn [l_accounts l_pools l_vals l_supply l_unstaking l_paused l_orders l_params l_height l_chain
  set_accounts set_pools set_vals set_supply set_unstaking set_paused set_orders put_val
  s_total s_staked s_delegated s_cstaked s_cdelegated
  v_stake v_output v_committees v_paused v_unstaking v_delegate v_compound fst snd] in *.

Definition cst (s : lstate) := s_cstaked (l_supply s).
Definition cdl (s : lstate) := s_cdelegated (l_supply s).
Definition with_c (m1 m2 : list (N * N)) (s : lstate) : lstate :=
  set_supply (mkSupply (s_total (l_supply s)) (s_staked (l_supply s)) (s_delegated (l_supply s)) m1 m2) s.
Lemma with_c_id s : with_c (cst s) (cdl s) s = s.
Proof. destruct s as [a p v [t st d c1 c2] u pa o pr h c]; reflexivity. Qed.
Lemma with_c_with_c m1 m2 n1 n2 s : with_c n1 n2 (with_c m1 m2 s) = with_c n1 n2 s.
Proof. reflexivity. Qed.
Lemma set_accounts_id s : set_accounts (l_accounts s) s = s.
Proof. destruct s; reflexivity. Qed.
Lemma set_pools_id s : set_pools (l_pools s) s = s.
Proof. destruct s; reflexivity. Qed.

Lemma account_sub_inv a x s s1 : account_sub a x s = LOk s1 ->
  exists acc, s1 = set_accounts acc s /\ (keys_sorted (l_accounts s) -> keys_sorted acc).
Proof.
  unfold account_sub. destruct (x =? 0).
  - intros H; inversion H; subst. exists (l_accounts s1). now rewrite set_accounts_id.
  - destruct (_ <? _); [discriminate|]. intros H; inversion H; subst. eexists; split; [reflexivity|]. apply sorted_nput.
Qed.
Lemma account_add_inv a x s s1 : account_add a x s = LOk s1 ->
  exists acc, s1 = set_accounts acc s /\ (keys_sorted (l_accounts s) -> keys_sorted acc).
Proof.
  unfold account_add. destruct (x =? 0).
  - intros H; inversion H; subst. exists (l_accounts s1). now rewrite set_accounts_id.
  - destruct (_ <=? _); [discriminate|]. intros H; inversion H; subst. eexists; split; [reflexivity|]. apply sorted_nput.
Qed.
Lemma account_add_spec a x s : keys_sorted (l_accounts s) -> nget a (l_accounts s) + x < two64 ->
  exists acc, account_add a x s = LOk (set_accounts acc s) /\ keys_sorted acc /\ sum_snd acc = sum_snd (l_accounts s) + x.
Proof.
  intros Hs Hlt. unfold account_add. destruct (N.eqb_spec x 0) as [->|Hx].
  - exists (l_accounts s). rewrite set_accounts_id. repeat split; auto. lia.
  - destruct (N.leb_spec two64 (nget a (l_accounts s) + x)); [lia|].
    eexists; split; [reflexivity|]. split; [now apply sorted_nput|].
    pose proof (sum_snd_nput a (nget a (l_accounts s) + x) _ Hs). lia.
Qed.
Lemma pool_add_inv a x s s1 : pool_add a x s = LOk s1 ->
  exists p, s1 = set_pools p s /\ (keys_sorted (l_pools s) -> keys_sorted p).
Proof. unfold pool_add. intros H; inversion H; subst. eexists; split; [reflexivity|]. apply sorted_nput. Qed.
Lemma pool_sub_inv a x s s1 : pool_sub a x s = LOk s1 ->
  exists p, s1 = set_pools p s /\ (keys_sorted (l_pools s) -> keys_sorted p).
Proof.
  unfold pool_sub. destruct (_ <? _); [discriminate|]. intros H; inversion H; subst.
  eexists; split; [reflexivity|]. apply sorted_nput.
Qed.

Definition with_total t s := set_supply (mkSupply t (s_staked (l_supply s)) (s_delegated (l_supply s)) (s_cstaked (l_supply s)) (s_cdelegated (l_supply s))) s.
Definition with_staked t s := set_supply (mkSupply (s_total (l_supply s)) t (s_delegated (l_supply s)) (s_cstaked (l_supply s)) (s_cdelegated (l_supply s))) s.
Definition with_delegated t s := set_supply (mkSupply (s_total (l_supply s)) (s_staked (l_supply s)) t (s_cstaked (l_supply s)) (s_cdelegated (l_supply s))) s.

Lemma add_total_inv x s s1 : add_total x s = LOk s1 -> exists t, s1 = with_total t s.
Proof. unfold add_total, upd_supply; cbn [bind]. intros H; inversion H; subst. eexists; reflexivity. Qed.
Lemma sub_total_inv x s s1 : sub_total x s = LOk s1 -> exists t, s1 = with_total t s.
Proof.
  unfold sub_total, upd_supply. destruct (_ <? _); cbn [bind]; [discriminate|].
  intros H; inversion H; subst. eexists; reflexivity.
Qed.
Lemma add_staked_inv x s s1 : add_staked x s = LOk s1 ->
  s_staked (l_supply s) + x < two64 /\ s1 = with_staked (s_staked (l_supply s) + x) s.
Proof.
  unfold add_staked, upd_supply. destruct (N.leb_spec two64 (s_staked (l_supply s) + x)); cbn [bind]; [discriminate|].
  intros H'; inversion H'; subst. split; [lia|reflexivity].
Qed.
Lemma sub_staked_iff x s : sub_staked x s = if s_staked (l_supply s) <? x then LErr else LOk (with_staked (s_staked (l_supply s) - x) s).
Proof. unfold sub_staked, upd_supply. destruct (_ <? _); reflexivity. Qed.
Lemma add_delegated_inv x s s1 : add_delegated x s = LOk s1 ->
  s_delegated (l_supply s) + x < two64 /\ s1 = with_delegated (s_delegated (l_supply s) + x) s.
Proof.
  unfold add_delegated, upd_supply. destruct (N.leb_spec two64 (s_delegated (l_supply s) + x)); cbn [bind]; [discriminate|].
  intros H'; inversion H'; subst. split; [lia|reflexivity].
Qed.
Lemma sub_delegated_iff x s : sub_delegated x s = if s_delegated (l_supply s) <? x then LErr else LOk (with_delegated (s_delegated (l_supply s) - x) s).
Proof. unfold sub_delegated, upd_supply. destruct (_ <? _); reflexivity. Qed.

Lemma add_cstaked_eq c x s : add_cstaked c x s =
  if two64 <=? nget c (cst s) + x then LErr else LOk (with_c (nput c (nget c (cst s) + x) (cst s)) (cdl s) s).
Proof. unfold add_cstaked, upd_supply, cst. cbv zeta. destruct (_ <=? _); reflexivity. Qed.
Lemma sub_cstaked_eq c x s : sub_cstaked c x s =
  if nget c (cst s) <? x then LErr else LOk (with_c (nput c (nget c (cst s) - x) (cst s)) (cdl s) s).
Proof. unfold sub_cstaked, upd_supply, cst. cbv zeta. destruct (_ <? _); reflexivity. Qed.
Lemma add_cdelegated_eq c x s : add_cdelegated c x s =
  if two64 <=? nget c (cdl s) + x then LErr else LOk (with_c (cst s) (nput c (nget c (cdl s) + x) (cdl s)) s).
Proof. unfold add_cdelegated, upd_supply, cdl. cbv zeta. destruct (_ <=? _); reflexivity. Qed.
Lemma sub_cdelegated_eq c x s : sub_cdelegated c x s =
  if nget c (cdl s) <? x then LErr else LOk (with_c (cst s) (nput c (nget c (cdl s) - x) (cdl s)) s).
Proof. unfold sub_cdelegated, upd_supply, cdl. cbv zeta. destruct (_ <? _); reflexivity. Qed.

(* ---- the committee folds *)
Lemma existsb_eqb_In c l : existsb (N.eqb c) l = true <-> In c l.
Proof.
  rewrite existsb_exists. split.
  - intros [x [Hin Hx]]. apply N.eqb_eq in Hx. now subst.
  - intros Hin. exists c. split; auto. apply N.eqb_refl.
Qed.
Definition ind (b : bool) (x : N) : N := if b then x else 0.
Definition step_spec (f : N -> lstate -> res lstate) (d1 a1 d2 a2 : N) : Prop :=
  forall c s s1, keys_sorted (cst s) -> keys_sorted (cdl s) -> f c s = LOk s1 ->
  exists m1 m2, s1 = with_c m1 m2 s /\ keys_sorted m1 /\ keys_sorted m2 /\
    (forall k, nget k m1 + ind (k =? c) d1 = nget k (cst s) + ind (k =? c) a1) /\
    (forall k, nget k m2 + ind (k =? c) d2 = nget k (cdl s) + ind (k =? c) a2).
Definition step_ok (f : N -> lstate -> res lstate) (d1 d2 : N) : Prop :=
  forall c s, d1 <= nget c (cst s) -> d2 <= nget c (cdl s) -> exists s1, f c s = LOk s1.

Lemma each_spec f d1 a1 d2 a2 : step_spec f d1 a1 d2 a2 -> forall cs s s', NoDup cs ->
  keys_sorted (cst s) -> keys_sorted (cdl s) -> each f cs s = LOk s' ->
  exists m1 m2, s' = with_c m1 m2 s /\ keys_sorted m1 /\ keys_sorted m2 /\
    (forall k, nget k m1 + ind (existsb (N.eqb k) cs) d1 = nget k (cst s) + ind (existsb (N.eqb k) cs) a1) /\
    (forall k, nget k m2 + ind (existsb (N.eqb k) cs) d2 = nget k (cdl s) + ind (existsb (N.eqb k) cs) a2).
Proof.
  intros Hf. induction cs as [|c r IH]; intros s s' Hnd Hs1 Hs2 H.
  - cbn in H. inversion H; subst. exists (cst s'), (cdl s'). rewrite with_c_id. cbn. splits; auto.
  - cbn [each] in H. bind_inv H. inversion Hnd as [|? ? Hnin Hnd']; subst.
    destruct (Hf c s st Hs1 Hs2 Hb) as (m1 & m2 & -> & Hm1 & Hm2 & E1 & E2).
    destruct (IH (with_c m1 m2 s) s' Hnd' Hm1 Hm2 H) as (n1 & n2 & -> & Hn1 & Hn2 & F1 & F2).
    exists n1, n2. rewrite with_c_with_c. splits; auto.
    + intros k. specialize (E1 k). specialize (F1 k). change (cst (with_c m1 m2 s)) with m1 in F1.
      cbn [existsb]. destruct (N.eqb_spec k c) as [Heq|Hne]; [subst k|].
      * assert (Hx : existsb (N.eqb c) r = false).
        { destruct (existsb (N.eqb c) r) eqn:E; auto. apply existsb_eqb_In in E. contradiction. }
        rewrite Hx in *. cbn [orb ind] in *. lia.
      * cbn [orb ind] in *. lia.
    + intros k. specialize (E2 k). specialize (F2 k). change (cdl (with_c m1 m2 s)) with m2 in F2.
      cbn [existsb]. destruct (N.eqb_spec k c) as [Heq|Hne]; [subst k|].
      * assert (Hx : existsb (N.eqb c) r = false).
        { destruct (existsb (N.eqb c) r) eqn:E; auto. apply existsb_eqb_In in E. contradiction. }
        rewrite Hx in *. cbn [orb ind] in *. lia.
      * cbn [orb ind] in *. lia.
Qed.

Lemma each_ok f d1 d2 : step_spec f d1 0 d2 0 -> step_ok f d1 d2 -> forall cs s, NoDup cs ->
  keys_sorted (cst s) -> keys_sorted (cdl s) ->
  (forall c, In c cs -> d1 <= nget c (cst s) /\ d2 <= nget c (cdl s)) -> exists s', each f cs s = LOk s'.
Proof.
  intros Hf Hok. induction cs as [|c r IH]; intros s Hnd Hs1 Hs2 Hge.
  - cbn. eauto.
  - cbn [each]. inversion Hnd as [|? ? Hnin Hnd']; subst.
    destruct (Hge c (or_introl eq_refl)) as [G1 G2].
    destruct (Hok c s G1 G2) as [s1 Hs1']. rewrite Hs1'. cbn [bind].
    destruct (Hf c s s1 Hs1 Hs2 Hs1') as (m1 & m2 & -> & Hm1 & Hm2 & E1 & E2).
    apply IH; auto. intros c' Hin. destruct (Hge c' (or_intror Hin)) as [G3 G4].
    change (cst (with_c m1 m2 s)) with m1. change (cdl (with_c m1 m2 s)) with m2.
    specialize (E1 c'). specialize (E2 c'). destruct (N.eqb_spec c' c) as [Heq|Hne]; [subst c'; contradiction|].
    cbn [ind] in *. lia.
Qed.

Lemma step_add_cstaked x : step_spec (fun c => add_cstaked c x) 0 x 0 0.
Proof.
  intros c s s1 Hs1 Hs2. rewrite add_cstaked_eq. destruct (_ <=? _); [discriminate|]. intros H; inversion H; subst.
  eexists _, _. split; [reflexivity|]. split; [now apply sorted_nput|]. split; [auto|]. split.
  - intros k. rewrite nget_nput by auto. destruct (N.eqb_spec k c) as [Heq|]; [subst k|]; cbn [ind]; lia.
  - intros k. destruct (k =? c); cbn [ind]; lia.
Qed.
Lemma step_sub_cstaked x : step_spec (fun c => sub_cstaked c x) x 0 0 0.
Proof.
  intros c s s1 Hs1 Hs2. rewrite sub_cstaked_eq. destruct (N.ltb_spec (nget c (cst s)) x); [discriminate|]. intros H'; inversion H'; subst.
  eexists _, _. split; [reflexivity|]. split; [now apply sorted_nput|]. split; [auto|]. split.
  - intros k. rewrite nget_nput by auto. destruct (N.eqb_spec k c) as [Heq|]; [subst k|]; cbn [ind]; lia.
  - intros k. destruct (k =? c); cbn [ind]; lia.
Qed.
Lemma step_add_deleg x : step_spec (fun c s => s1 <- add_cdelegated c x s ;; add_cstaked c x s1) 0 x 0 x.
Proof.
  intros c s s1 Hs1 Hs2 H. bind_inv H. rewrite add_cdelegated_eq in Hb. destruct (_ <=? _); [discriminate|].
  inversion Hb; subst. rewrite add_cstaked_eq in H. destruct (_ <=? _); [discriminate|]. inversion H; subst.
  eexists _, _. split; [reflexivity|]. change (cst (with_c ?a ?b ?s)) with a. change (cdl (with_c ?a ?b ?s)) with b.
  split; [now apply sorted_nput|]. split; [now apply sorted_nput|]. split.
  - intros k. rewrite nget_nput by auto. destruct (N.eqb_spec k c) as [Heq|]; [subst k|]; cbn [ind]; lia.
  - intros k. rewrite nget_nput by auto. destruct (N.eqb_spec k c) as [Heq|]; [subst k|]; cbn [ind]; lia.
Qed.
Lemma step_sub_deleg x : step_spec (fun c s => s1 <- sub_cdelegated c x s ;; sub_cstaked c x s1) x 0 x 0.
Proof.
  intros c s s1 Hs1 Hs2 H. bind_inv H. rewrite sub_cdelegated_eq in Hb. destruct (N.ltb_spec (nget c (cdl s)) x); [discriminate|].
  inversion Hb; subst. rewrite sub_cstaked_eq in H. change (cst (with_c ?a ?b ?s)) with a in H. change (cdl (with_c ?a ?b ?s)) with b in H.
  destruct (N.ltb_spec (nget c (cst s)) x); [discriminate|]. inversion H; subst.
  eexists _, _. split; [reflexivity|].
  split; [now apply sorted_nput|]. split; [now apply sorted_nput|]. split.
  - intros k. rewrite nget_nput by auto. destruct (N.eqb_spec k c) as [Heq|]; [subst k|]; cbn [ind]; lia.
  - intros k. rewrite nget_nput by auto. destruct (N.eqb_spec k c) as [Heq|]; [subst k|]; cbn [ind]; lia.
Qed.
Lemma ok_sub_cstaked x : step_ok (fun c => sub_cstaked c x) x 0.
Proof. intros c s H1 H2. rewrite sub_cstaked_eq. destruct (N.ltb_spec (nget c (cst s)) x); [lia|eauto]. Qed.
Lemma ok_sub_deleg x : step_ok (fun c s => s1 <- sub_cdelegated c x s ;; sub_cstaked c x s1) x x.
Proof.
  intros c s H1 H2. rewrite sub_cdelegated_eq. destruct (N.ltb_spec (nget c (cdl s)) x); [lia|]. cbn [bind].
  rewrite sub_cstaked_eq. change (cst (with_c ?a ?b ?s)) with a. destruct (N.ltb_spec (nget c (cst s)) x); [lia|eauto].
Qed.
(* ---- markers *)
Lemma In_ins h a l e :
  In e ((fix ins (l : list (N * N)) := match l with
     | [] => [(h, a)]
     | (h', a') :: r => if (h <? h') || ((h =? h') && (a <? a')) then (h, a) :: l else (h', a') :: ins r
     end) l) <-> e = (h, a) \/ In e l.
Proof.
  induction l as [|[h' a'] r IH].
  - cbn. intuition.
  - destruct ((h <? h') || ((h =? h') && (a <? a'))).
    + cbn. intuition.
    + cbn [In]. rewrite IH. intuition.
Qed.
Lemma marker_present h a m : existsb (fun e => (fst e =? h) && (snd e =? a)) m = true <-> In (h, a) m.
Proof.
  rewrite existsb_exists. split.
  - intros [[h' a'] [Hin Hx]]. cbn in Hx. apply andb_true_iff in Hx. destruct Hx as [H1 H2].
    apply N.eqb_eq in H1, H2. now subst.
  - intros Hin. exists (h, a). split; auto. cbn. now rewrite !N.eqb_refl.
Qed.
Lemma In_marker_add h a m e : In e (marker_add h a m) <-> e = (h, a) \/ In e m.
Proof.
  unfold marker_add. destruct (existsb _ m) eqn:E.
  - apply marker_present in E. split; [auto|]. intros [->|H]; auto.
  - apply In_ins.
Qed.
Lemma NoDup_marker_add h a m : NoDup m -> NoDup (marker_add h a m).
Proof.
  unfold marker_add. destruct (existsb _ m) eqn:E; auto.
  assert (Hnin : ~ In (h, a) m).
  { intros Hin. apply marker_present in Hin. congruence. }
  clear E. induction m as [|[h' a'] r IH]; intros Hnd.
  - constructor; auto.
  - inversion Hnd as [|? ? Hn Hnd']; subst. destruct ((h <? h') || ((h =? h') && (a <? a'))).
    + constructor; auto.
    + constructor.
      * rewrite In_ins. intros [H|H]; [|contradiction]. apply Hnin. left. auto.
      * apply IH; auto. intros H. apply Hnin. now right.
Qed.
Lemma In_marker_del h a m e : In e (marker_del h a m) <-> In e m /\ e <> (h, a).
Proof.
  unfold marker_del. rewrite filter_In. destruct e as [h' a']. cbn [fst snd].
  rewrite negb_true_iff, andb_false_iff, !N.eqb_neq. split; intros [H1 H2]; split; auto.
  - intros E; inversion E; subst. destruct H2; congruence.
  - destruct (N.eq_dec h' h) as [->|]; auto. right. intros ->. now apply H2.
Qed.
Lemma NoDup_marker_del h a m : NoDup m -> NoDup (marker_del h a m).
Proof. apply NoDup_filter. Qed.

Definition marks (f : validator -> N) (M : list (N * N)) (vals : list (N * validator)) : Prop :=
  forall h a, In (h, a) M <-> (exists v, aget a vals = Some v /\ f v = h /\ h <> 0).

Lemma marks_gen f M vals M' vals' a ov' :
  marks f M vals ->
  (forall k, aget k vals' = if k =? a then ov' else aget k vals) ->
  (forall h, In (h, a) M' <-> exists v, ov' = Some v /\ f v = h /\ h <> 0) ->
  (forall h k, k <> a -> (In (h, k) M' <-> In (h, k) M)) ->
  marks f M' vals'.
Proof.
  intros HM Hget Ha Hother h k. rewrite Hget. destruct (N.eqb_spec k a) as [Heq|Hne].
  - subst k. apply Ha.
  - rewrite Hother by auto. apply HM.
Qed.
Lemma marks_same f M vals a v v' : marks f M vals -> aget a vals = Some v -> f v' = f v -> marks f M (aput a v' vals).
Proof.
  intros HM Hg Hf. apply (marks_gen f M vals M _ a (Some v')); auto.
  - intros k. apply aget_aput.
  - intros h. rewrite (HM h a), Hg. split; intros (v0 & E & F & G); inversion E; subst; eexists; split; eauto; split; congruence.
  - intros; tauto.
Qed.
Lemma marks_new f M vals a v' : marks f M vals -> aget a vals = None -> f v' = 0 -> marks f M (aput a v' vals).
Proof.
  intros HM Hg Hf. apply (marks_gen f M vals M _ a (Some v')); auto.
  - intros k. apply aget_aput.
  - intros h. rewrite (HM h a), Hg. split; intros (v0 & E & F & G); inversion E; subst; congruence.
  - intros; tauto.
Qed.
Lemma marks_add f M vals a v v' h : marks f M vals -> aget a vals = Some v -> f v = 0 -> f v' = h -> h <> 0 ->
  marks f (marker_add h a M) (aput a v' vals).
Proof.
  intros HM Hg Hf Hf' Hh. apply (marks_gen f M vals _ _ a (Some v')); auto.
  - intros k. apply aget_aput.
  - intros h'. rewrite In_marker_add, (HM h' a), Hg. split.
    + intros [E|(v0 & E & F & G)].
      * inversion E; subst. eauto.
      * inversion E; subst. congruence.
    + intros (v0 & E & F & G). inversion E; subst. now left.
  - intros h' k Hk. rewrite In_marker_add. split; [|auto]. intros [E|H]; auto. inversion E; congruence.
Qed.
Lemma marks_clear f M vals a v v' : marks f M vals -> aget a vals = Some v -> f v' = 0 ->
  marks f (marker_del (f v) a M) (aput a v' vals).
Proof.
  intros HM Hg Hf'. apply (marks_gen f M vals _ _ a (Some v')); auto.
  - intros k. apply aget_aput.
  - intros h'. rewrite In_marker_del, (HM h' a), Hg. split.
    + intros [(v0 & E & F & G) Hne]. inversion E; subst. congruence.
    + intros (v0 & E & F & G). inversion E; subst. congruence.
  - intros h' k Hk. rewrite In_marker_del. split; [tauto|]. intros H; split; auto. intros E; inversion E; congruence.
Qed.
Lemma marks_adel f M vals a v : keys_sorted vals -> marks f M vals -> aget a vals = Some v ->
  marks f (marker_del (f v) a M) (adel a vals).
Proof.
  intros Hs HM Hg. apply (marks_gen f M vals _ _ a None); auto.
  - intros k. now apply aget_adel.
  - intros h'. rewrite In_marker_del, (HM h' a), Hg. split.
    + intros [(v0 & E & F & G) Hne]. inversion E; subst. congruence.
    + intros (v0 & E & _). discriminate.
  - intros h' k Hk. rewrite In_marker_del. split; [tauto|]. intros H; split; auto. intros E; inversion E; congruence.
Qed.
Lemma marks_adel0 f M vals a v : keys_sorted vals -> marks f M vals -> aget a vals = Some v -> f v = 0 ->
  marks f M (adel a vals).
Proof.
  intros Hs HM Hg Hf. apply (marks_gen f M vals _ _ a None); auto.
  - intros k. now apply aget_adel.
  - intros h'. rewrite (HM h' a), Hg. split.
    + intros (v0 & E & F & G). inversion E; subst. congruence.
    + intros (v0 & E & _). discriminate.
  - intros; tauto.
Qed.

(* ---- Forall over the maps *)
Lemma Forall_aput {A} (Q : N * A -> Prop) a v m : Q (a, v) -> Forall Q m -> Forall Q (aput a v m).
Proof.
  intros Hq. induction m as [|[k' v'] r IH]; cbn; intros H.
  - constructor; auto.
  - inversion H; subst. destruct (a =? k'); [constructor; auto|]. destruct (a <? k'); constructor; auto.
Qed.
Lemma Forall_adel {A} (Q : N * A -> Prop) a m : Forall Q m -> Forall Q (adel a m).
Proof.
  induction m as [|[k' v'] r IH]; cbn; intros H; auto.
  inversion H; subst. destruct (a =? k'); auto.
Qed.
(* ---- well-formedness and the invariant *)
(* STATEMENT CHANGED (wf): the original wf asked only for NoDup keys of the six maps.  That is not preserved: aput / nput on an
   UNSORTED association list duplicate a key (accounts [(5,10);(3,10)], MSend 3 7 1 yields [(3,9);(5,10);(3,10);(7,1)]), so
   every theorem concluding wf s' was false.  wf now asks for strictly sorted keys (the representation invariant stated in
   model/Ledger.v; it implies NoDup, see wf_keys_nodup) and in addition NoDup (l_unstaking s): with a duplicated unstaking
   marker ([(5,1);(5,1)], Consistent since the marker clauses are In-based) delete_finished_unstaking fails on the second
   copy, so finish_unstaking_never_fails was false too.  marker_add never duplicates, so reachable states satisfy it. *)
Definition wf (s : lstate) : Prop :=
  keys_sorted (l_accounts s) /\ keys_sorted (l_pools s) /\ keys_sorted (l_vals s) /\ keys_sorted (l_orders s) /\
  keys_sorted (s_cstaked (l_supply s)) /\ keys_sorted (s_cdelegated (l_supply s)) /\
  Forall (fun e => NoDup (v_committees (snd e))) (l_vals s) /\          (* a validator lists each committee once (Check of stake messages) *)
  NoDup (l_unstaking s).
Lemma wf_keys_nodup s : wf s ->
  keys_nodup (l_accounts s) /\ keys_nodup (l_pools s) /\ keys_nodup (l_vals s) /\ keys_nodup (l_orders s) /\
  keys_nodup (s_cstaked (l_supply s)) /\ keys_nodup (s_cdelegated (l_supply s)) /\
  Forall (fun e => NoDup (v_committees (snd e))) (l_vals s).
Proof. intros (H1 & H2 & H3 & H4 & H5 & H6 & H7 & H8). splits; auto using keys_sorted_nodup. Qed.

(* the staking bookkeeping invariant, as a proposition *)
Definition stake_where (P : validator -> bool) (s : lstate) : N :=
  fold_right (fun e acc => if P (snd e) then v_stake (snd e) + acc else acc) 0 (l_vals s).
Record Consistent (s : lstate) : Prop := {
  k_staked : s_staked (l_supply s) = sum_stake (l_vals s);
  k_delegated : s_delegated (l_supply s) = stake_where v_delegate s;
  k_cstaked : forall c, nget c (s_cstaked (l_supply s)) = stake_where (fun v => existsb (N.eqb c) (v_committees v)) s;
  k_cdelegated : forall c, nget c (s_cdelegated (l_supply s)) = stake_where (fun v => v_delegate v && existsb (N.eqb c) (v_committees v)) s;
  k_unstaking_marker : forall h a, In (h, a) (l_unstaking s) <-> (exists v, aget a (l_vals s) = Some v /\ v_unstaking v = h /\ h <> 0);
  k_paused_marker : forall h a, In (h, a) (l_paused s) <-> (exists v, aget a (l_vals s) = Some v /\ v_paused v = h /\ h <> 0);
  k_bound : sum_stake (l_vals s) < two64 }.

Definition Pc (c : N) : validator -> bool := fun v => existsb (N.eqb c) (v_committees v).
Definition Pd (c : N) : validator -> bool := fun v => v_delegate v && existsb (N.eqb c) (v_committees v).
Record Tallies (u : supply) (vals : list (N * validator)) : Prop := {
  t_staked : s_staked u = sw Pt vals;
  t_delegated : s_delegated u = sw v_delegate vals;
  t_cst : forall c, nget c (s_cstaked u) = sw (Pc c) vals;
  t_cdl : forall c, nget c (s_cdelegated u) = sw (Pd c) vals;
  t_bound : sw Pt vals < two64 }.

Lemma Consistent_iff s : Consistent s <->
  Tallies (l_supply s) (l_vals s) /\ marks v_unstaking (l_unstaking s) (l_vals s) /\ marks v_paused (l_paused s) (l_vals s).
Proof.
  split.
  - intros [H1 H2 H3 H4 H5 H6 H7]. split; [|split]; auto. constructor; auto.
  - intros [[H1 H2 H3 H4 H7] [H5 H6]]. constructor; auto.
Qed.

Lemma Tallies_gen u vals u' vals' ov ov' :
  Tallies u vals ->
  (forall P, sw P vals' + wo P ov = sw P vals + wo P ov') ->
  s_staked u' + wo Pt ov = s_staked u + wo Pt ov' ->
  s_delegated u' + wo v_delegate ov = s_delegated u + wo v_delegate ov' ->
  (forall c, nget c (s_cstaked u') + wo (Pc c) ov = nget c (s_cstaked u) + wo (Pc c) ov') ->
  (forall c, nget c (s_cdelegated u') + wo (Pd c) ov = nget c (s_cdelegated u) + wo (Pd c) ov') ->
  s_staked u' < two64 ->
  Tallies u' vals'.
Proof.
  intros [T1 T2 T3 T4 T5] Hsw E1 E2 E3 E4 Hb.
  assert (F1 : s_staked u' = sw Pt vals') by (specialize (Hsw Pt); lia).
  constructor; auto.
  - specialize (Hsw v_delegate). lia.
  - intros c. specialize (Hsw (Pc c)). specialize (E3 c). specialize (T3 c). lia.
  - intros c. specialize (Hsw (Pd c)). specialize (E4 c). specialize (T4 c). lia.
  - lia.
Qed.
Lemma Tallies_supply u u' vals : Tallies u vals -> s_staked u' = s_staked u -> s_delegated u' = s_delegated u ->
  s_cstaked u' = s_cstaked u -> s_cdelegated u' = s_cdelegated u -> Tallies u' vals.
Proof. intros [T1 T2 T3 T4 T5] E1 E2 E3 E4. constructor; rewrite ?E1, ?E2, ?E3, ?E4; auto. Qed.

(* operations that touch neither validators, staking tallies nor markers *)
Definition stk_same (s s' : lstate) : Prop :=
  l_vals s' = l_vals s /\ s_staked (l_supply s') = s_staked (l_supply s) /\ s_delegated (l_supply s') = s_delegated (l_supply s) /\
  s_cstaked (l_supply s') = s_cstaked (l_supply s) /\ s_cdelegated (l_supply s') = s_cdelegated (l_supply s) /\
  l_unstaking s' = l_unstaking s /\ l_paused s' = l_paused s.
Lemma Consistent_frame s s' : stk_same s s' -> Consistent s -> Consistent s'.
Proof.
  intros (E1 & E2 & E3 & E4 & E5 & E6 & E7). rewrite !Consistent_iff. rewrite E1, E6, E7.
  intros (T & M1 & M2). splits; auto. eapply Tallies_supply; eauto.
Qed.

Lemma staking_ok_of_consistent s : wf s -> Consistent s -> staking_ok s = true.
Proof.
  intros (_ & _ & Hv & _) [K1 K2 K3 K4 K5 K6 K7]. unfold staking_ok. cbv zeta.
  repeat (apply andb_true_iff; split).
  - now apply N.eqb_eq.
  - apply N.eqb_eq. exact K2.
  - apply forallb_forall. intros c _. apply andb_true_iff. split; apply N.eqb_eq; [apply K3 | apply K4].
  - apply forallb_forall. intros [h a] Hin. apply K5 in Hin. destruct Hin as (v & E & F & _).
    cbn [fst snd]. rewrite E. now apply N.eqb_eq.
  - apply forallb_forall. intros [h a] Hin. apply K6 in Hin. destruct Hin as (v & E & F & _).
    cbn [fst snd]. rewrite E. now apply N.eqb_eq.
  - apply forallb_forall. intros [a v] Hin. cbn [fst snd]. destruct (N.eqb_spec (v_unstaking v) 0) as [|Hne]; auto.
    cbn [orb]. apply marker_present. apply K5. exists v. splits; auto. now apply In_aget.
  - apply forallb_forall. intros [a v] Hin. cbn [fst snd]. destruct (N.eqb_spec (v_paused v) 0) as [|Hne]; auto.
    cbn [orb]. apply marker_present. apply K6. exists v. splits; auto. now apply In_aget.
Qed.
(* ---- validator status operations *)
Lemma Forall_aget {A} (Q : N * A -> Prop) a v m : Forall Q m -> aget a m = Some v -> Q (a, v).
Proof. intros H Hg. apply aget_In in Hg. rewrite Forall_forall in H. now apply H. Qed.

Lemma Tallies_same_w u vals a v v' : Tallies u vals -> keys_sorted vals -> aget a vals = Some v ->
  v_stake v' = v_stake v -> v_committees v' = v_committees v -> v_delegate v' = v_delegate v -> Tallies u (aput a v' vals).
Proof.
  intros T Hs Hg E1 E2 E3. pose proof (t_bound _ _ T) as Hb. pose proof (t_staked _ _ T) as Hst.
  apply (Tallies_gen u vals u _ (Some v) (Some v')); auto.
  - intros P. rewrite <- Hg. now apply sw_aput.
  - unfold wo, wv, Pt. now rewrite E1.
  - unfold wo, wv. now rewrite E1, E3.
  - intros c. unfold wo, wv, Pc. now rewrite E1, E2.
  - intros c. unfold wo, wv, Pd. now rewrite E1, E2, E3.
  - lia.
Qed.

Definition vfin (v : validator) (h : N) : validator :=
  mkVal (v_stake v) (v_output v) (v_committees v) 0 h (v_delegate v) (v_compound v).
Lemma suv_vals a v h s : l_vals (set_unstaking_val a v h s) = aput a (vfin v h) (l_vals s).
Proof.
  unfold set_unstaking_val, vfin. destruct (N.eqb_spec (v_paused v) 0) as [E|E].
  - psimpl. now rewrite E.
  - unfold set_unpaused. psimpl. now rewrite aput_aput.
Qed.
Lemma suv_unstaking a v h s : l_unstaking (set_unstaking_val a v h s) = marker_add h a (l_unstaking s).
Proof. unfold set_unstaking_val. destruct (v_paused v =? 0); reflexivity. Qed.
Lemma suv_paused a v h s : l_paused (set_unstaking_val a v h s) =
  if v_paused v =? 0 then l_paused s else marker_del (v_paused v) a (l_paused s).
Proof. unfold set_unstaking_val. destruct (v_paused v =? 0); reflexivity. Qed.
Lemma suv_other a v h s : let s' := set_unstaking_val a v h s in
  l_accounts s' = l_accounts s /\ l_pools s' = l_pools s /\ l_supply s' = l_supply s /\ l_orders s' = l_orders s /\
  l_params s' = l_params s /\ l_height s' = l_height s /\ l_chain s' = l_chain s.
Proof. unfold set_unstaking_val. destruct (v_paused v =? 0); cbn; splits; reflexivity. Qed.
Lemma suv_put a v h s : set_unstaking_val a v h (put_val a v s) = set_unstaking_val a v h s.
Proof.
  unfold set_unstaking_val. destruct (v_paused v =? 0).
  - unfold put_val. psimpl. now rewrite aput_aput.
  - unfold set_unpaused, put_val. psimpl. now rewrite !aput_aput.
Qed.

Lemma set_unstaking_val_ok a v h s : wf s -> Consistent s -> aget a (l_vals s) = Some v -> v_unstaking v = 0 -> h <> 0 ->
  wf (set_unstaking_val a v h s) /\ Consistent (set_unstaking_val a v h s).
Proof.
  intros (W1 & W2 & W3 & W4 & W5 & W6 & W7 & W8) HC Hg Hu Hh.
  apply Consistent_iff in HC. destruct HC as (T & M1 & M2).
  destruct (suv_other a v h s) as (E1 & E2 & E3 & E4 & E5 & E6 & E7).
  split.
  - unfold wf. rewrite E1, E2, E3, E4, suv_vals, suv_unstaking. splits; auto.
    + now apply sorted_aput.
    + apply Forall_aput; auto. apply (Forall_aget _ _ _ _ W7 Hg).
    + now apply NoDup_marker_add.
  - apply Consistent_iff. rewrite E3, suv_vals, suv_unstaking, suv_paused. splits.
    + eapply Tallies_same_w; eauto.
    + eapply marks_add; eauto.
    + destruct (N.eqb_spec (v_paused v) 0) as [E|E].
      * eapply marks_same; eauto.
      * eapply marks_clear; eauto.
Qed.

Lemma set_paused_val_ok a v h s : wf s -> Consistent s -> aget a (l_vals s) = Some v -> v_paused v = 0 -> h <> 0 ->
  wf (set_paused_val a v h s) /\ Consistent (set_paused_val a v h s).
Proof.
  intros (W1 & W2 & W3 & W4 & W5 & W6 & W7 & W8) HC Hg Hu Hh.
  apply Consistent_iff in HC. destruct HC as (T & M1 & M2). unfold set_paused_val. split.
  - unfold wf. psimpl. splits; auto.
    + now apply sorted_aput.
    + apply Forall_aput; auto. apply (Forall_aget _ _ _ _ W7 Hg).
  - apply Consistent_iff. psimpl. splits.
    + eapply Tallies_same_w; eauto.
    + eapply marks_same; eauto.
    + eapply marks_add; eauto.
Qed.

Lemma set_unpaused_ok a v s : wf s -> Consistent s -> aget a (l_vals s) = Some v ->
  wf (fst (set_unpaused a v s)) /\ Consistent (fst (set_unpaused a v s)).
Proof.
  intros (W1 & W2 & W3 & W4 & W5 & W6 & W7 & W8) HC Hg.
  apply Consistent_iff in HC. destruct HC as (T & M1 & M2). unfold set_unpaused. split.
  - unfold wf. psimpl. splits; auto.
    + now apply sorted_aput.
    + apply Forall_aput; auto. apply (Forall_aget _ _ _ _ W7 Hg).
  - apply Consistent_iff. psimpl. splits.
    + eapply Tallies_same_w; eauto.
    + eapply marks_same; eauto.
    + eapply marks_clear; eauto.
Qed.

(* ---- no validator is paused and unstaking at the same time (every operation that starts unstaking also unpauses).
   Needed by force_unstake_consistent (see the STATEMENT CHANGED note there); preserved by every operation (the _exclusive theorems below). *)
Definition exclusive (s : lstate) : Prop :=
  forall a v, aget a (l_vals s) = Some v -> v_paused v <> 0 -> v_unstaking v = 0.
Lemma exclusive_same s s' : l_vals s' = l_vals s -> exclusive s -> exclusive s'.
Proof. intros E Hx a v. rewrite E. apply Hx. Qed.
Lemma exclusive_put s s' a vn : l_vals s' = aput a vn (l_vals s) -> exclusive s ->
  (v_paused vn <> 0 -> v_unstaking vn = 0) -> exclusive s'.
Proof.
  intros E Hx Hn k v0. rewrite E, aget_aput. destruct (N.eqb_spec k a) as [Heq|Hne].
  - intros E'; inversion E'; subst v0. exact Hn.
  - apply Hx.
Qed.
Lemma exclusive_del s s' a : keys_sorted (l_vals s) -> l_vals s' = adel a (l_vals s) -> exclusive s -> exclusive s'.
Proof.
  intros Hs E Hx k v0. rewrite E, aget_adel by auto. destruct (k =? a); [discriminate|]. apply Hx.
Qed.
Lemma suv_exclusive a v h s : exclusive s -> exclusive (set_unstaking_val a v h s).
Proof. intros Hx. eapply exclusive_put; [apply suv_vals|auto|]. unfold vfin. psimpl. congruence. Qed.
(* ---- DeleteValidator on a consistent state: cannot fail, and keeps the invariant *)
Lemma ind_0 b : ind b 0 = 0.
Proof. destruct b; reflexivity. Qed.

Lemma delete_validator_spec a v s : wf s -> Consistent s -> aget a (l_vals s) = Some v ->
  exists s', delete_validator a v s = LOk s' /\ wf s' /\ Consistent s' /\
    l_accounts s' = l_accounts s /\ l_vals s' = adel a (l_vals s) /\
    l_unstaking s' = (if v_unstaking v =? 0 then l_unstaking s else marker_del (v_unstaking v) a (l_unstaking s)) /\
    l_paused s' = (if v_paused v =? 0 then l_paused s else marker_del (v_paused v) a (l_paused s)) /\
    l_params s' = l_params s /\ l_height s' = l_height s.
Proof.
  intros (W1 & W2 & W3 & W4 & W5 & W6 & W7 & W8) HC Hg.
  apply Consistent_iff in HC. destruct HC as (T & M1 & M2).
  pose proof T as [T1 T2 T3 T4 T5].
  pose proof (Forall_aget _ _ _ _ W7 Hg) as Hnd. cbn [snd] in Hnd.
  assert (G1 : v_stake v <= s_staked (l_supply s)).
  { rewrite T1. apply (wv_le_sw Pt a v _ Hg). }
  assert (G3 : forall c, In c (v_committees v) -> v_stake v <= nget c (s_cstaked (l_supply s))).
  { intros c Hc. rewrite T3. pose proof (wv_le_sw (Pc c) a v _ Hg) as H. unfold wv in H. change (Pc c v) with (existsb (N.eqb c) (v_committees v)) in H.
    apply existsb_eqb_In in Hc. now rewrite Hc in H. }
  unfold delete_validator. rewrite sub_staked_iff. destruct (N.ltb_spec (s_staked (l_supply s)) (v_stake v)); [lia|].
  cbn [bind].
  set (s1 := with_staked (s_staked (l_supply s) - v_stake v) s).
  assert (Hmid : exists dl m1 m2,
    (if v_delegate v
     then (s' <- sub_delegated (v_stake v) s1 ;; delete_delegations (v_stake v) (v_committees v) s')
     else delete_committees (v_stake v) (v_committees v) s1) =
    LOk (set_supply (mkSupply (s_total (l_supply s)) (s_staked (l_supply s) - v_stake v) dl m1 m2) s) /\
    keys_sorted m1 /\ keys_sorted m2 /\ dl + wv v_delegate v = s_delegated (l_supply s) /\
    (forall c, nget c m1 + wv (Pc c) v = nget c (s_cstaked (l_supply s))) /\
    (forall c, nget c m2 + wv (Pd c) v = nget c (s_cdelegated (l_supply s)))).
  { destruct (v_delegate v) eqn:Ed.
    - assert (G2 : v_stake v <= s_delegated (l_supply s)).
      { rewrite T2. pose proof (wv_le_sw v_delegate a v _ Hg) as H'. unfold wv in H'. now rewrite Ed in H'. }
      assert (G4 : forall c, In c (v_committees v) -> v_stake v <= nget c (s_cdelegated (l_supply s))).
      { intros c Hc. rewrite T4. pose proof (wv_le_sw (Pd c) a v _ Hg) as H'. unfold wv in H'. change (Pd c v) with (v_delegate v && existsb (N.eqb c) (v_committees v)) in H'.
        apply existsb_eqb_In in Hc. now rewrite Hc, Ed in H'. }
      rewrite sub_delegated_iff. destruct (N.ltb_spec (s_delegated (l_supply s1)) (v_stake v)) as [Hlt|Hge]; [subst s1; cbn in Hlt; lia|].
      cbn [bind]. set (s2 := with_delegated _ s1).
      destruct (each_ok _ _ _ (step_sub_deleg (v_stake v)) (ok_sub_deleg (v_stake v)) (v_committees v) s2 Hnd W5 W6) as [s3 Hs3].
      { intros c Hc. split; [apply G3|apply G4]; auto. }
      unfold delete_delegations. rewrite Hs3.
      destruct (each_spec _ _ _ _ _ (step_sub_deleg (v_stake v)) (v_committees v) s2 s3 Hnd W5 W6 Hs3) as (m1 & m2 & -> & S1 & S2 & F1 & F2).
      exists (s_delegated (l_supply s) - v_stake v), m1, m2. split; [reflexivity|]. splits; auto.
      + unfold wv. rewrite Ed. lia.
      + intros c. specialize (F1 c). rewrite ind_0, N.add_0_r in F1. exact F1.
      + intros c. specialize (F2 c). rewrite ind_0, N.add_0_r in F2. unfold wv, Pd. rewrite Ed. exact F2.
    - destruct (each_ok _ _ _ (step_sub_cstaked (v_stake v)) (ok_sub_cstaked (v_stake v)) (v_committees v) s1 Hnd W5 W6) as [s3 Hs3].
      { intros c Hc. split; [apply G3; auto|lia]. }
      unfold delete_committees. rewrite Hs3.
      destruct (each_spec _ _ _ _ _ (step_sub_cstaked (v_stake v)) (v_committees v) s1 s3 Hnd W5 W6 Hs3) as (m1 & m2 & -> & S1 & S2 & F1 & F2).
      exists (s_delegated (l_supply s)), m1, m2. split; [reflexivity|]. splits; auto.
      + unfold wv. rewrite Ed. lia.
      + intros c. specialize (F1 c). rewrite ind_0, N.add_0_r in F1. exact F1.
      + intros c. specialize (F2 c). rewrite !ind_0, !N.add_0_r in F2. unfold wv, Pd. rewrite Ed. cbn [andb]. rewrite N.add_0_r. exact F2. }
  destruct Hmid as (dl & m1 & m2 & -> & S1 & S2 & D & F1 & F2). cbn [bind].
  eexists. split; [reflexivity|].
  assert (HT : Tallies (mkSupply (s_total (l_supply s)) (s_staked (l_supply s) - v_stake v) dl m1 m2) (adel a (l_vals s))).
  { apply (Tallies_gen _ _ _ _ (Some v) None T).
    - intros P. rewrite <- Hg. cbn [wo]. rewrite N.add_0_r. now apply sw_adel.
    - cbn [s_staked wo]. unfold wv, Pt. lia.
    - cbn [s_delegated wo]. lia.
    - intros c. cbn [s_cstaked wo]. rewrite F1. lia.
    - intros c. cbn [s_cdelegated wo]. rewrite F2. lia.
    - cbn [s_staked]. lia. }
  split; [|split].
  - unfold wf. destruct (v_unstaking v =? 0), (v_paused v =? 0); psimpl; splits; auto using sorted_adel, Forall_adel, NoDup_marker_del.
  - apply Consistent_iff.
    destruct (N.eqb_spec (v_unstaking v) 0) as [E1|E1], (N.eqb_spec (v_paused v) 0) as [E2|E2]; psimpl; splits; auto;
      eauto using marks_adel, marks_adel0.
  - destruct (v_unstaking v =? 0), (v_paused v =? 0); psimpl; splits; reflexivity.
Qed.

Lemma delete_validator_consistent a v s s' : wf s -> Consistent s -> aget a (l_vals s) = Some v ->
  delete_validator a v s = LOk s' -> wf s' /\ Consistent s'.
Proof.
  intros W C Hg H. destruct (delete_validator_spec a v s W C Hg) as (s'' & E & W' & C' & _).
  rewrite E in H. inversion H; subst. auto.
Qed.
(* ---- steps that do not touch the staking bookkeeping *)
Definition nst (s s' : lstate) : Prop :=
  stk_same s s' /\ l_params s' = l_params s /\ l_height s' = l_height s /\ l_chain s' = l_chain s /\ (wf s -> wf s').
Lemma nst_refl s : nst s s.
Proof. unfold nst, stk_same. splits; auto. Qed.
Lemma nst_trans s1 s2 s3 : nst s1 s2 -> nst s2 s3 -> nst s1 s3.
Proof.
  unfold nst, stk_same. intros ((A1 & A2 & A3 & A4 & A5 & A6 & A7) & A8 & A9 & A10 & A11) ((B1 & B2 & B3 & B4 & B5 & B6 & B7) & B8 & B9 & B10 & B11).
  splits; try congruence. auto.
Qed.
Lemma nst_done s s' : nst s s' -> wf s -> Consistent s -> wf s' /\ Consistent s'.
Proof. intros (H1 & _ & _ & _ & H2) W C. split; auto. eapply Consistent_frame; eauto. Qed.
Lemma nst_set_accounts acc s : (keys_sorted (l_accounts s) -> keys_sorted acc) -> nst s (set_accounts acc s).
Proof.
  intros H. unfold nst, stk_same. psimpl. splits; auto.
  intros (W1 & W2 & W3 & W4 & W5 & W6 & W7 & W8). unfold wf; psimpl; splits; auto.
Qed.
Lemma nst_set_pools p s : (keys_sorted (l_pools s) -> keys_sorted p) -> nst s (set_pools p s).
Proof.
  intros H. unfold nst, stk_same. psimpl. splits; auto.
  intros (W1 & W2 & W3 & W4 & W5 & W6 & W7 & W8). unfold wf; psimpl; splits; auto.
Qed.
Lemma nst_set_orders o s : (keys_sorted (l_orders s) -> keys_sorted o) -> nst s (set_orders o s).
Proof.
  intros H. unfold nst, stk_same. psimpl. splits; auto.
  intros (W1 & W2 & W3 & W4 & W5 & W6 & W7 & W8). unfold wf; psimpl; splits; auto.
Qed.
Lemma nst_with_total t s : nst s (with_total t s).
Proof.
  unfold nst, stk_same, with_total. psimpl. splits; auto.
Qed.
Lemma nst_account_sub a x s s1 : account_sub a x s = LOk s1 -> nst s s1.
Proof. intros H. apply account_sub_inv in H. destruct H as (acc & -> & H). now apply nst_set_accounts. Qed.
Lemma nst_account_add a x s s1 : account_add a x s = LOk s1 -> nst s s1.
Proof. intros H. apply account_add_inv in H. destruct H as (acc & -> & H). now apply nst_set_accounts. Qed.
Lemma nst_pool_add a x s s1 : pool_add a x s = LOk s1 -> nst s s1.
Proof. intros H. apply pool_add_inv in H. destruct H as (acc & -> & H). now apply nst_set_pools. Qed.
Lemma nst_pool_sub a x s s1 : pool_sub a x s = LOk s1 -> nst s s1.
Proof. intros H. apply pool_sub_inv in H. destruct H as (acc & -> & H). now apply nst_set_pools. Qed.
Lemma nst_add_total x s s1 : add_total x s = LOk s1 -> nst s s1.
Proof. intros H. apply add_total_inv in H. destruct H as (t & ->). apply nst_with_total. Qed.
Lemma nst_sub_total x s s1 : sub_total x s = LOk s1 -> nst s s1.
Proof. intros H. apply sub_total_inv in H. destruct H as (t & ->). apply nst_with_total. Qed.
Lemma nst_mint_to_pool a x s s1 : mint_to_pool a x s = LOk s1 -> nst s s1.
Proof.
  unfold mint_to_pool. intros H. bind_inv H. eapply nst_trans; [eapply nst_add_total|eapply nst_pool_add]; eauto.
Qed.

(* heights are positive and deferred heights do not wrap (a marker at height 0 would read as "not unstaking") *)
Definition heights_ok (s : lstate) : Prop :=
  0 < l_height s /\ l_height s + p_unstaking_blocks (l_params s) < two64 /\
  l_height s + p_delegate_unstaking_blocks (l_params s) < two64 /\ l_height s + p_max_pause_blocks (l_params s) < two64.
Lemma nst_heights s s' : nst s s' -> heights_ok s -> heights_ok s'.
Proof. intros (_ & E1 & E2 & _). unfold heights_ok. now rewrite E1, E2. Qed.

Definition msg_wf (m : lmsg) : Prop :=
  match m with
  | MStake _ _ _ x cs _ _ | MEditStake _ _ _ x cs _ => x < two64 /\ NoDup cs
  | _ => True
  end.

(* UpdateValidatorStake *)
Lemma uvs_consistent a v output cmp cs add s s' : wf s -> Consistent s -> aget a (l_vals s) = Some v -> NoDup cs ->
  update_validator_stake a (mkVal (v_stake v) output (v_committees v) (v_paused v) (v_unstaking v) (v_delegate v) cmp) cs add s = LOk s' ->
  wf s' /\ Consistent s' /\
  l_vals s' = aput a (mkVal (v_stake v + add) output cs (v_paused v) (v_unstaking v) (v_delegate v) cmp) (l_vals s) /\
  l_params s' = l_params s /\ l_height s' = l_height s.
Proof.
  intros (W1 & W2 & W3 & W4 & W5 & W6 & W7 & W8) HC Hg Hcs H.
  apply Consistent_iff in HC. destruct HC as (T & M1 & M2). pose proof T as [T1 T2 T3 T4 T5].
  pose proof (Forall_aget _ _ _ _ W7 Hg) as Hnd. cbn [snd] in Hnd.
  unfold update_validator_stake in H. psimpl. bind_inv H. apply add_staked_inv in Hb. destruct Hb as [Hlt ->].
  assert (G1 : v_stake v <= s_staked (l_supply s)).
  { rewrite T1. apply (wv_le_sw Pt a v _ Hg). }
  rewrite add64_exact in H by lia.
  set (vn := mkVal (v_stake v + add) output cs (v_paused v) (v_unstaking v) (v_delegate v) cmp) in *.
  bind_inv H. inversion H; subst s'; clear H.
  assert (Hmid : exists dl m1 m2,
     st = set_supply (mkSupply (s_total (l_supply s)) (s_staked (l_supply s) + add) dl m1 m2) s /\
     keys_sorted m1 /\ keys_sorted m2 /\
     dl + wv v_delegate v = s_delegated (l_supply s) + wv v_delegate vn /\
     (forall c, nget c m1 + wv (Pc c) v = nget c (s_cstaked (l_supply s)) + wv (Pc c) vn) /\
     (forall c, nget c m2 + wv (Pd c) v = nget c (s_cdelegated (l_supply s)) + wv (Pd c) vn)).
  { destruct (v_delegate v) eqn:Ed.
    - bind_inv Hb. apply add_delegated_inv in Hb0. destruct Hb0 as [Hlt2 ->]. bind_inv Hb.
      set (s2 := with_delegated _ _) in *.
      destruct (each_spec _ _ _ _ _ (step_sub_deleg (v_stake v)) (v_committees v) s2 st0 Hnd W5 W6 Hb0) as (n1 & n2 & -> & S1 & S2 & G3 & G4).
      destruct (each_spec _ _ _ _ _ (step_add_deleg (v_stake v + add)) cs (with_c n1 n2 s2) st Hcs S1 S2 Hb) as (m1 & m2 & -> & S3 & S4 & F3 & F4).
      exists (s_delegated (l_supply s) + add), m1, m2. split; [reflexivity|]. splits; auto.
      + unfold wv, vn. psimpl. rewrite Ed. lia.
      + intros c. specialize (G3 c). specialize (F3 c). change (cst (with_c n1 n2 s2)) with n1 in F3. change (cst s2) with (s_cstaked (l_supply s)) in G3.
        unfold wv, Pc, vn. psimpl. destruct (existsb (N.eqb c) cs), (existsb (N.eqb c) (v_committees v)); cbn [ind] in *; lia.
      + intros c. specialize (G4 c). specialize (F4 c). change (cdl (with_c n1 n2 s2)) with n2 in F4. change (cdl s2) with (s_cdelegated (l_supply s)) in G4.
        unfold wv, Pd, vn. psimpl. rewrite Ed. cbn [andb]. destruct (existsb (N.eqb c) cs), (existsb (N.eqb c) (v_committees v)); cbn [ind] in *; lia.
    - bind_inv Hb.
      set (s2 := with_staked _ _) in *.
      destruct (each_spec _ _ _ _ _ (step_sub_cstaked (v_stake v)) (v_committees v) s2 st0 Hnd W5 W6 Hb0) as (n1 & n2 & -> & S1 & S2 & G3 & G4).
      destruct (each_spec _ _ _ _ _ (step_add_cstaked (v_stake v + add)) cs (with_c n1 n2 s2) st Hcs S1 S2 Hb) as (m1 & m2 & -> & S3 & S4 & F3 & F4).
      exists (s_delegated (l_supply s)), m1, m2. split; [reflexivity|]. splits; auto.
      + unfold wv, vn. psimpl. rewrite Ed. lia.
      + intros c. specialize (G3 c). specialize (F3 c). change (cst (with_c n1 n2 s2)) with n1 in F3. change (cst s2) with (s_cstaked (l_supply s)) in G3.
        unfold wv, Pc, vn. psimpl. destruct (existsb (N.eqb c) cs), (existsb (N.eqb c) (v_committees v)); cbn [ind] in *; lia.
      + intros c. specialize (G4 c). specialize (F4 c). change (cdl (with_c n1 n2 s2)) with n2 in F4. change (cdl s2) with (s_cdelegated (l_supply s)) in G4.
        unfold wv, Pd, vn. psimpl. rewrite Ed. cbn [andb]. rewrite !ind_0 in *. lia. }
  destruct Hmid as (dl & m1 & m2 & -> & S1 & S2 & D & F1 & F2).
  split; [|split].
  - unfold wf. psimpl. splits; auto. + now apply sorted_aput. + apply Forall_aput; auto.
  - apply Consistent_iff. psimpl. splits.
    + apply (Tallies_gen _ _ _ _ (Some v) (Some vn) T).
      * intros P. rewrite <- Hg. now apply sw_aput.
      * cbn [s_staked wo]. unfold wv, Pt, vn. psimpl. lia.
      * cbn [s_delegated wo]. exact D.
      * intros c. cbn [s_cstaked wo]. apply F1.
      * intros c. cbn [s_cdelegated wo]. apply F2.
      * cbn [s_staked]. lia.
    + eapply marks_same; eauto.
    + eapply marks_same; eauto.
  - psimpl. splits; reflexivity.
Qed.
(* every message handler keeps the bookkeeping consistent *)
Lemma stake_consistent a signer output x cs dlg cmp s s' : wf s -> Consistent s -> NoDup cs ->
  handle (MStake a signer output x cs dlg cmp) s = LOk s' ->
  wf s' /\ Consistent s' /\ l_vals s' = aput a (mkVal x output cs 0 0 dlg cmp) (l_vals s).
Proof.
  intros W HC Hcs H. cbn [handle] in H. cbv zeta in H.
  destruct (aget a (l_vals s)) eqn:Hg; [discriminate|].
  destruct (x <? _); [discriminate|].
  bind_inv H. pose proof (nst_account_sub _ _ _ _ Hb) as N1.
  destruct (nst_done _ _ N1 W HC) as [W' HC']. destruct N1 as ((EV & _) & _). rewrite <- EV in Hg. rewrite <- EV.
  clear Hb W HC EV s. rename st into s.
  destruct W' as (W1 & W2 & W3 & W4 & W5 & W6 & W7 & W8).
  apply Consistent_iff in HC'. destruct HC' as (T & M1 & M2). pose proof T as [T1 T2 T3 T4 T5].
  bind_inv H. apply add_staked_inv in Hb. destruct Hb as [Hlt ->]. bind_inv H. inversion H; subst s'; clear H.
  set (vn := mkVal x output cs 0 0 dlg cmp) in *.
  set (s2 := with_staked _ _) in *.
  assert (Hmid : exists dl m1 m2,
     st = set_supply (mkSupply (s_total (l_supply s)) (s_staked (l_supply s) + x) dl m1 m2) s /\
     keys_sorted m1 /\ keys_sorted m2 /\
     dl = s_delegated (l_supply s) + wv v_delegate vn /\
     (forall c, nget c m1 = nget c (s_cstaked (l_supply s)) + wv (Pc c) vn) /\
     (forall c, nget c m2 = nget c (s_cdelegated (l_supply s)) + wv (Pd c) vn)).
  { destruct dlg.
    - bind_inv Hb. apply add_delegated_inv in Hb0. destruct Hb0 as [Hlt2 ->].
      set (s3 := with_delegated _ _) in *.
      destruct (each_spec _ _ _ _ _ (step_add_deleg x) cs s3 st Hcs W5 W6 Hb) as (m1 & m2 & -> & S3 & S4 & F3 & F4).
      exists (s_delegated (l_supply s) + x), m1, m2. split; [reflexivity|]. splits; auto.
      + intros c. specialize (F3 c). rewrite ind_0, N.add_0_r in F3. exact F3.
      + intros c. specialize (F4 c). rewrite ind_0, N.add_0_r in F4. exact F4.
    - destruct (each_spec _ _ _ _ _ (step_add_cstaked x) cs s2 st Hcs W5 W6 Hb) as (m1 & m2 & -> & S3 & S4 & F3 & F4).
      exists (s_delegated (l_supply s)), m1, m2. split; [reflexivity|]. splits; auto.
      + unfold wv, vn. psimpl. lia.
      + intros c. specialize (F3 c). rewrite ind_0, N.add_0_r in F3. exact F3.
      + intros c. specialize (F4 c). rewrite !ind_0, !N.add_0_r in F4. unfold wv, Pd, vn. psimpl. cbn [andb]. now rewrite N.add_0_r. }
  destruct Hmid as (dl & m1 & m2 & -> & S1 & S2 & D & F1 & F2).
  split; [|split; [|reflexivity]].
  - unfold wf. psimpl. splits; auto. + now apply sorted_aput. + apply Forall_aput; auto.
  - apply Consistent_iff. psimpl. splits.
    + apply (Tallies_gen _ _ _ _ None (Some vn) T).
      * intros P. rewrite <- Hg. now apply sw_aput.
      * cbn [s_staked wo]. unfold wv, Pt, vn. psimpl. lia.
      * cbn [s_delegated wo]. lia.
      * intros c. cbn [s_cstaked wo]. rewrite F1. lia.
      * intros c. cbn [s_cdelegated wo]. rewrite F2. lia.
      * cbn [s_staked]. lia.
    + eapply marks_new; eauto.
    + eapply marks_new; eauto.
Qed.

Lemma add64_height h b : 0 < h -> h + b < two64 -> add64 h b <> 0.
Proof. intros H1 H2. rewrite add64_exact by auto. lia. Qed.

Definition staking_msg (m : lmsg) : bool :=
  match m with MStake _ _ _ _ _ _ _ | MEditStake _ _ _ _ _ _ | MUnstake _ | MPause _ | MUnpause _ => true | _ => false end.
(* MSend / MSubsidy / MDaoTransfer / order messages do not touch validators, tallies or markers *)
Lemma handle_nst m s s' : staking_msg m = false -> handle m s = LOk s' -> nst s s'.
Proof.
  intros Hm H. destruct m; try discriminate Hm; clear Hm; cbn [handle] in H; cbv zeta in H.
  - (* MSend *) bind_inv H. eapply nst_trans; [eapply nst_account_sub|eapply nst_account_add]; eauto.
  - (* MSubsidy *) bind_inv H. eapply nst_trans; [eapply nst_account_sub|eapply nst_pool_add]; eauto.
  - (* MDaoTransfer *) bind_inv H. bind_inv H.
    eapply nst_trans; [|eapply nst_trans; [eapply nst_pool_sub|eapply nst_account_add]; eauto].
    destruct mint; [eapply nst_mint_to_pool; eauto|]. inversion Hb; subst. apply nst_refl.
  - (* MCreateOrder *) destruct (_ <? _); [discriminate|]. bind_inv H. bind_inv H. inversion H; subst s'.
    eapply nst_trans; [eapply nst_account_sub; eauto|]. eapply nst_trans; [eapply nst_pool_add; eauto|].
    apply nst_set_orders. apply sorted_aput.
  - (* MEditOrder *) destruct (aget id (l_orders s)) as [o|]; [|discriminate].
    destruct (negb _); [discriminate|]. destruct (o_locked o); [discriminate|]. destruct (amount <? _); [discriminate|].
    bind_inv H. inversion H; subst s'.
    eapply nst_trans; [|apply nst_set_orders; apply sorted_aput].
    destruct (o_amount o <? amount).
    + bind_inv Hb. eapply nst_trans; [eapply nst_account_sub|eapply nst_pool_add]; eauto.
    + destruct (amount <? o_amount o).
      * bind_inv Hb. eapply nst_trans; [eapply nst_pool_sub|eapply nst_account_add]; eauto.
      * inversion Hb; subst. apply nst_refl.
  - (* MDeleteOrder *) destruct (aget id (l_orders s)) as [o|]; [|discriminate].
    destruct (negb _); [discriminate|]. destruct (o_locked o); [discriminate|].
    bind_inv H. bind_inv H. inversion H; subst s'.
    eapply nst_trans; [eapply nst_pool_sub; eauto|]. eapply nst_trans; [eapply nst_account_add; eauto|].
    apply nst_set_orders. apply sorted_adel.
Qed.
Lemma nst_exclusive s s' : nst s s' -> exclusive s -> exclusive s'.
Proof. intros ((E & _) & _). now apply exclusive_same. Qed.

(* the handlers, with the extra fact that "never paused and unstaking at once" is kept as well *)
Lemma handle_all m s s' : wf s -> Consistent s -> msg_wf m -> heights_ok s ->
  handle m s = LOk s' -> wf s' /\ Consistent s' /\ (exclusive s -> exclusive s').
Proof.
  intros W HC Hm (Hh0 & Hh1 & Hh2 & Hh3) H.
  destruct (staking_msg m) eqn:Es.
  2:{ pose proof (handle_nst m s s' Es H) as N1. destruct (nst_done _ _ N1 W HC). splits; auto. now apply nst_exclusive. }
  destruct m; try discriminate Es; clear Es.
  - (* MStake *) destruct Hm as [_ Hcs]. destruct (stake_consistent _ _ _ _ _ _ _ _ _ W HC Hcs H) as (A & B & C). splits; auto.
    intros Hx. eapply exclusive_put; eauto; psimpl; congruence.
  - (* MEditStake *) destruct Hm as [_ Hcs]. cbn [handle] in H. cbv zeta in H.
    destruct (aget addr (l_vals s)) as [v|] eqn:Hg; [|discriminate].
    destruct (negb (v_unstaking v =? 0)); [discriminate|].
    destruct (negb (v_output v =? output) && negb (v_output v =? signer)); [discriminate|].
    bind_inv H. pose proof (nst_account_sub _ _ _ _ Hb) as N1.
    destruct (nst_done _ _ N1 W HC) as [W' HC']. pose proof N1 as ((EV & _) & _). rewrite <- EV in Hg.
    destruct (uvs_consistent _ _ _ _ _ _ _ _ W' HC' Hg Hcs H) as (A & B & C & _). splits; auto.
    intros Hx. apply (nst_exclusive _ _ N1) in Hx. eapply exclusive_put; eauto; psimpl; apply (Hx _ _ Hg).
  - (* MUnstake *) cbn [handle] in H. cbv zeta in H.
    destruct (aget addr (l_vals s)) as [v|] eqn:Hg; [|discriminate].
    destruct (N.eqb_spec (v_unstaking v) 0) as [Hu|Hu]; cbn [negb] in H; [|discriminate].
    inversion H; subst s'.
    destruct (set_unstaking_val_ok addr v (add64 (l_height s) (if v_delegate v then p_delegate_unstaking_blocks (l_params s) else p_unstaking_blocks (l_params s))) s) as [A B]; auto.
    { destruct (v_delegate v); now apply add64_height. }
    splits; auto. apply suv_exclusive.
  - (* MPause *) cbn [handle] in H. cbv zeta in H.
    destruct (aget addr (l_vals s)) as [v|] eqn:Hg; [|discriminate].
    destruct (N.eqb_spec (v_paused v) 0) as [Hp|Hp]; cbn [negb orb] in H; [|discriminate].
    destruct (N.eqb_spec (v_unstaking v) 0) as [Hu|Hu]; cbn [negb orb] in H; [|discriminate].
    destruct (v_delegate v); [discriminate|]. inversion H; subst s'.
    destruct (set_paused_val_ok addr v (add64 (l_height s) (p_max_pause_blocks (l_params s))) s) as [A B]; auto.
    { now apply add64_height. }
    splits; auto. intros Hx. eapply exclusive_put; [reflexivity|exact Hx|]. psimpl. auto.
  - (* MUnpause *) cbn [handle] in H. cbv zeta in H.
    destruct (aget addr (l_vals s)) as [v|] eqn:Hg; [|discriminate].
    destruct (_ || _); [discriminate|]. inversion H; subst s'.
    destruct (set_unpaused_ok addr v s) as [A B]; auto. splits; auto.
    intros Hx. eapply exclusive_put; [reflexivity|exact Hx|]. psimpl. congruence.
Qed.

Theorem handle_consistent m s s' : wf s -> Consistent s -> msg_wf m -> heights_ok s ->
  handle m s = LOk s' -> wf s' /\ Consistent s'.
Proof. intros W HC Hm Hh H. destruct (handle_all m s s' W HC Hm Hh H) as (A & B & _). auto. Qed.
Theorem handle_exclusive m s s' : wf s -> Consistent s -> msg_wf m -> heights_ok s -> exclusive s ->
  handle m s = LOk s' -> exclusive s'.
Proof. intros W HC Hm Hh Hx H. destruct (handle_all m s s' W HC Hm Hh H) as (_ & _ & C). auto. Qed.

Theorem apply_tx_consistent sender fee m s : wf s -> Consistent s -> msg_wf m -> heights_ok s ->
  let '(_, s') := apply_tx sender fee m s in wf s' /\ Consistent s'.
Proof.
  intros W HC Hm Hh. unfold apply_tx.
  destruct (s1 <- account_sub sender fee s ;; s2 <- pool_add (l_chain s) fee s1 ;; handle m s2) as [s'|] eqn:H; [|auto].
  bind_inv H. bind_inv H.
  assert (N1 : nst s st0) by (eapply nst_trans; [eapply nst_account_sub|eapply nst_pool_add]; eauto).
  destruct (nst_done _ _ N1 W HC) as [W' HC']. eapply handle_consistent; eauto. eapply nst_heights; eauto.
Qed.
Theorem apply_tx_exclusive sender fee m s : wf s -> Consistent s -> msg_wf m -> heights_ok s -> exclusive s ->
  exclusive (snd (apply_tx sender fee m s)).
Proof.
  intros W HC Hm Hh Hx. unfold apply_tx.
  destruct (s1 <- account_sub sender fee s ;; s2 <- pool_add (l_chain s) fee s1 ;; handle m s2) as [s'|] eqn:H; [|auto].
  bind_inv H. bind_inv H.
  assert (N1 : nst s st0) by (eapply nst_trans; [eapply nst_account_sub|eapply nst_pool_add]; eauto).
  destruct (nst_done _ _ N1 W HC) as [W' HC']. cbn [snd].
  eapply handle_exclusive; eauto. - eapply nst_heights; eauto. - eapply nst_exclusive; eauto.
Qed.
(* ---- deferred actions: DeleteFinishedUnstaking *)
Definition fstep (acc : res lstate) (e : N * N) : res lstate :=
  st <- acc ;;
  match aget (snd e) (l_vals st) with
  | None => LErr
  | Some v => st1 <- account_add (v_output v) (v_stake v) st ;; delete_validator (snd e) v st1
  end.
Lemma fold_fstep_err due : fold_left fstep due LErr = LErr.
Proof. induction due as [|e r IH]; cbn; auto. Qed.
Lemma filter_all {A} (f : A -> bool) l : (forall x, In x l -> f x = true) -> filter f l = l.
Proof.
  induction l as [|x r IH]; cbn; intros H; auto.
  rewrite (H x (or_introl eq_refl)). f_equal. apply IH. intros y Hy. apply H. now right.
Qed.
Lemma set_unstaking_id s : set_unstaking (l_unstaking s) s = s.
Proof. destruct s; reflexivity. Qed.
Lemma set_paused_id s : set_paused (l_paused s) s = s.
Proof. destruct s; reflexivity. Qed.

(* accounts can absorb the returned bonds: every balance plus every stake is bounded by the conserved total (< 2^64) *)
Definition Solvent (s : lstate) : Prop := sum_snd (l_accounts s) + sum_stake (l_vals s) < two64.

(* one marker: given the bond was credited, the validator is deleted without failure *)
Lemma finish_one a v st st1 : wf st -> Consistent st -> aget a (l_vals st) = Some v ->
  account_add (v_output v) (v_stake v) st = LOk st1 ->
  exists st', delete_validator a v st1 = LOk st' /\ wf st' /\ Consistent st' /\
    l_accounts st' = l_accounts st1 /\ l_vals st' = adel a (l_vals st) /\
    l_unstaking st' = (if v_unstaking v =? 0 then l_unstaking st else marker_del (v_unstaking v) a (l_unstaking st)) /\
    l_paused st' = (if v_paused v =? 0 then l_paused st else marker_del (v_paused v) a (l_paused st)) /\
    l_params st' = l_params st /\ l_height st' = l_height st.
Proof.
  intros W HC Hg Ha. pose proof (nst_account_add _ _ _ _ Ha) as N1.
  destruct (nst_done _ _ N1 W HC) as [W' HC'].
  destruct N1 as ((EV & _ & _ & _ & _ & EU & EP) & EPa & EH & _). rewrite <- EV in Hg.
  destruct (delete_validator_spec a v st1 W' HC' Hg) as (st' & E & W'' & C'' & E1 & E2 & E3 & E4 & E5 & E6).
  exists st'. rewrite EV in E2. rewrite EU in E3. rewrite EP in E4. splits; auto; congruence.
Qed.

Lemma finish_loop_consistent H due : forall st s1, wf st -> Consistent st ->
  (forall e, In e (l_unstaking st) -> fst e = H -> In e due) ->
  fold_left fstep due (LOk st) = LOk s1 ->
  wf s1 /\ Consistent s1 /\ (forall e, In e (l_unstaking s1) -> fst e <> H) /\ (exclusive st -> exclusive s1).
Proof.
  induction due as [|[h a] rest IH]; intros st s1 W HC Hinv Hf.
  - cbn in Hf. inversion Hf; subst. splits; auto; try (intros e He Hh; exact (Hinv e He Hh)).
  - cbn [fold_left] in Hf. unfold fstep at 2 in Hf. cbn [bind snd] in Hf.
    destruct (aget a (l_vals st)) as [v|] eqn:Hg; [|now rewrite fold_fstep_err in Hf].
    destruct (account_add (v_output v) (v_stake v) st) as [st1|] eqn:Ha; [|now rewrite fold_fstep_err in Hf].
    cbn [bind] in Hf.
    destruct (finish_one a v st st1 W HC Hg Ha) as (st' & E & W' & C' & _ & EV & EU & _).
    rewrite E in Hf.
    assert (HX : exclusive st -> exclusive st').
    { apply (exclusive_del st st' a); auto. apply W. }
    destruct (IH st' s1 W' C') as (A1 & A2 & A3 & A4); auto; [|splits; auto].
    intros e He Hh.
    assert (HeU : In e (l_unstaking st)).
    { rewrite EU in He. destruct (v_unstaking v =? 0); auto. apply In_marker_del in He. tauto. }
    destruct (Hinv e HeU Hh) as [Heq|]; auto. subst e. exfalso.
    apply (k_unstaking_marker _ HC) in HeU. destruct HeU as (v0 & G1 & G2 & G3). rewrite Hg in G1. inversion G1; subst v0.
    rewrite EU in He. destruct (N.eqb_spec (v_unstaking v) 0); [congruence|]. apply In_marker_del in He. rewrite G2 in He. tauto.
Qed.

Theorem finish_unstaking_consistent s s' : wf s -> Consistent s -> delete_finished_unstaking s = LOk s' -> wf s' /\ Consistent s'.
Proof.
  intros W HC H. unfold delete_finished_unstaking in H. cbv zeta in H. bind_inv H. inversion H; subst s'; clear H.
  change (fold_left fstep (filter (fun e => fst e =? l_height s) (l_unstaking s)) (LOk s) = LOk st) in Hb.
  destruct (finish_loop_consistent (l_height s) (filter (fun e : N * N => fst e =? l_height s) (l_unstaking s)) s st W HC) as (W' & C' & Hno & _); auto.
  { intros e He Hh. apply filter_In. split; auto. now apply N.eqb_eq. }
  rewrite filter_all.
  - rewrite set_unstaking_id. auto.
  - intros e He. apply negb_true_iff. apply N.eqb_neq. now apply Hno.
Qed.
Theorem finish_unstaking_exclusive s s' : wf s -> Consistent s -> exclusive s -> delete_finished_unstaking s = LOk s' -> exclusive s'.
Proof.
  intros W HC Hx H. unfold delete_finished_unstaking in H. cbv zeta in H. bind_inv H. inversion H; subst s'; clear H.
  change (fold_left fstep (filter (fun e => fst e =? l_height s) (l_unstaking s)) (LOk s) = LOk st) in Hb.
  destruct (finish_loop_consistent (l_height s) (filter (fun e : N * N => fst e =? l_height s) (l_unstaking s)) s st W HC) as (_ & _ & _ & X).
  { intros e He Hh. apply filter_In. split; auto. now apply N.eqb_eq. }
  { exact Hb. }
  eapply exclusive_same; [|apply X; auto]. reflexivity.
Qed.

Lemma finish_loop_ok due : forall st, wf st -> Consistent st -> Solvent st -> NoDup due ->
  (forall e, In e due -> In e (l_unstaking st)) -> exists s1, fold_left fstep due (LOk st) = LOk s1.
Proof.
  induction due as [|[h a] rest IH]; intros st W HC HS Hnd Hsub.
  - cbn. eauto.
  - cbn [fold_left]. unfold fstep at 2. cbn [bind snd].
    pose proof (Hsub (h, a) (or_introl eq_refl)) as Hm. apply (k_unstaking_marker _ HC) in Hm.
    destruct Hm as (v & Hg & Hu & Hh). rewrite Hg.
    pose proof W as (W1 & W2 & W3 & W4 & W5 & W6 & W7 & W8).
    assert (Hle : nget (v_output v) (l_accounts st) + v_stake v < two64).
    { pose proof (nget_le_sum (v_output v) (l_accounts st)). pose proof (wv_le_sw Pt a v _ Hg) as H1.
      change (wv Pt v) with (v_stake v) in H1. rewrite <- sum_stake_sw in H1. unfold Solvent in HS. lia. }
    destruct (account_add_spec (v_output v) (v_stake v) st W1 Hle) as (acc & Ha & Sacc & Hsum). rewrite Ha. cbn [bind].
    destruct (finish_one a v st _ W HC Hg Ha) as (st' & E & W' & C' & EA & EV & EU & _).
    rewrite E. apply NoDup_cons_iff in Hnd. destruct Hnd as [Hnin Hnd']. apply (IH st' W' C'); auto.
    + unfold Solvent in *. rewrite EA, EV. psimpl. rewrite Hsum.
      pose proof (sw_adel Pt a (l_vals st) W3) as H2. rewrite Hg in H2. cbn [wo] in H2. change (wv Pt v) with (v_stake v) in H2.
      rewrite !sum_stake_sw in *. lia.
    + intros e He. rewrite EU. destruct (N.eqb_spec (v_unstaking v) 0); [congruence|].
      apply In_marker_del. split; [apply Hsub; now right|]. rewrite Hu. intros ->. contradiction.
Qed.

(* ---- no self-wedge: on a consistent state the deferred end-block actions of ANY height cannot fail *)
Theorem finish_unstaking_never_fails s : wf s -> Consistent s -> Solvent s -> exists s', delete_finished_unstaking s = LOk s'.
Proof.
  intros W HC HS.
  destruct (finish_loop_ok (filter (fun e => fst e =? l_height s) (l_unstaking s)) s W HC HS) as [s1 E].
  - apply NoDup_filter. apply W.
  - intros e He. apply filter_In in He. tauto.
  - exists (set_unstaking (filter (fun e => negb (fst e =? l_height s)) (l_unstaking s1)) s1).
    change (delete_finished_unstaking s) with
      (s1 <- fold_left fstep (filter (fun e => fst e =? l_height s) (l_unstaking s)) (LOk s) ;;
       LOk (set_unstaking (filter (fun e => negb (fst e =? l_height s)) (l_unstaking s1)) s1)).
    now rewrite E.
Qed.
(* ---- deferred actions: ForceUnstakeMaxPaused *)
Definition pstep (st : lstate) (e : N * N) : lstate :=
  match aget (snd e) (l_vals st) with
  | None => st
  | Some v => if negb (v_unstaking v =? 0) then st
              else set_unstaking_val (snd e) v (add64 (l_height st) (p_unstaking_blocks (l_params st))) st
  end.
Lemma force_loop H due : H <> 0 -> forall st, wf st -> Consistent st -> heights_ok st -> exclusive st ->
  (forall k v, aget k (l_vals st) = Some v -> v_paused v = H -> In (H, k) due) ->
  let s1 := fold_left pstep due st in
  wf s1 /\ Consistent s1 /\ exclusive s1 /\ (forall k v, aget k (l_vals s1) = Some v -> v_paused v <> H) /\
  l_height s1 = l_height st /\ l_params s1 = l_params st.
Proof.
  intros HH. induction due as [|[h a] rest IH]; intros st W HC Hh Hx Hinv.
  - cbn. splits; auto; try (intros k v Hg Hp; exact (Hinv k v Hg Hp)).
  - cbn [fold_left]. remember (pstep st (h, a)) as st1 eqn:E1. unfold pstep in E1. cbn [snd] in E1.
    destruct (aget a (l_vals st)) as [v|] eqn:Hg.
    + destruct (N.eqb_spec (v_unstaking v) 0) as [Hu|Hu]; cbn [negb] in E1; subst st1.
      * set (hh := add64 _ _).
        assert (Hhh : hh <> 0) by (destruct Hh as (? & ? & _); now apply add64_height).
        destruct (set_unstaking_val_ok a v hh st W HC Hg Hu Hhh) as [W' C'].
        destruct (suv_other a v hh st) as (_ & _ & _ & _ & EP & EH & _).
        assert (Hh' : heights_ok (set_unstaking_val a v hh st)) by (unfold heights_ok; now rewrite EP, EH).
        destruct (IH _ W' C' Hh' (suv_exclusive a v hh st Hx)) as (A1 & A2 & A3 & A4 & A5 & A6).
        { intros k v0. rewrite suv_vals, aget_aput. destruct (N.eqb_spec k a) as [Heq|Hne].
          - intros E; inversion E; subst v0. unfold vfin. psimpl. congruence.
          - intros Hg0 Hp. destruct (Hinv k v0 Hg0 Hp) as [E|]; auto. inversion E; congruence. }
        splits; auto; congruence.
      * apply IH; auto. intros k v0 Hg0 Hp. destruct (Hinv k v0 Hg0 Hp) as [E|]; auto.
        inversion E; subst. rewrite Hg in Hg0. inversion Hg0; subst v0. exfalso. apply Hu. apply (Hx _ _ Hg). congruence.
    + subst st1. apply IH; auto. intros k v0 Hg0 Hp. destruct (Hinv k v0 Hg0 Hp) as [E|]; auto.
      inversion E; subst. congruence.
Qed.

Lemma force_unstake_all s s' : wf s -> Consistent s -> heights_ok s -> exclusive s ->
  force_unstake_max_paused s = LOk s' -> wf s' /\ Consistent s' /\ exclusive s'.
Proof.
  intros W HC Hh Hx H. unfold force_unstake_max_paused in H. cbv zeta in H.
  change (LOk (set_paused (filter (fun e => negb (fst e =? l_height s))
     (l_paused (fold_left pstep (filter (fun e => fst e =? l_height s) (l_paused s)) s)))
     (fold_left pstep (filter (fun e => fst e =? l_height s) (l_paused s)) s)) = LOk s') in H.
  assert (HH : l_height s <> 0) by (destruct Hh; lia).
  destruct (force_loop (l_height s) (filter (fun e : N * N => fst e =? l_height s) (l_paused s)) HH s W HC Hh Hx)
    as (W' & C' & X' & Hno & _).
  { intros k v Hg Hp. apply filter_In. cbn [fst]. rewrite N.eqb_refl. split; auto.
    apply (k_paused_marker _ HC). eauto. }
  set (s1 := fold_left pstep _ s) in *. inversion H; subst s'; clear H.
  split; [|split].
  - destruct W' as (W1 & W2 & W3 & W4 & W5 & W6 & W7 & W8). unfold wf. psimpl. splits; auto.
  - apply Consistent_iff in C'. destruct C' as (T & M1 & M2). apply Consistent_iff. psimpl. splits; auto.
    intros h a. rewrite filter_In, (M2 h a). cbn [fst]. split.
    + tauto.
    + intros (v & Hg & Hp & Hne). split; [eauto|]. apply negb_true_iff. apply N.eqb_neq. rewrite <- Hp. eapply Hno; eauto.
  - intros a v. psimpl. apply X'.
Qed.

(* STATEMENT CHANGED: added the hypothesis [exclusive s] (no validator is both paused and unstaking).  Without it the statement is
   false: one validator with v_paused = 5 and v_unstaking = 7, markers [(7,1)] / [(5,1)], height 5 is Consistent, the loop skips
   the validator (already unstaking) but the final filter drops its paused marker, so k_paused_marker fails afterwards.
   [exclusive] holds initially and is preserved by every operation (the _exclusive theorems). *)
Theorem force_unstake_consistent s s' : wf s -> Consistent s -> heights_ok s -> exclusive s ->
  force_unstake_max_paused s = LOk s' -> wf s' /\ Consistent s'.
Proof. intros W HC Hh Hx H. destruct (force_unstake_all s s' W HC Hh Hx H) as (A & B & _). auto. Qed.

Theorem force_unstake_exclusive s s' : wf s -> Consistent s -> heights_ok s -> exclusive s ->
  force_unstake_max_paused s = LOk s' -> exclusive s'.
Proof. intros W HC Hh Hx H. destruct (force_unstake_all s s' W HC Hh Hx H) as (_ & _ & C). auto. Qed.

Theorem force_unstake_never_fails s : wf s -> Consistent s -> exists s', force_unstake_max_paused s = LOk s'.
Proof. intros _ _. unfold force_unstake_max_paused. eexists. reflexivity. Qed.
(* ---- slashing *)
Definition rm_chain (chain : N) : list N -> list N :=
  fix rm (l : list N) := match l with [] => [] | c :: r => if c =? chain then r else c :: rm r end.
Lemma In_rm_chain chain x l : In x (rm_chain chain l) -> In x l.
Proof. induction l as [|c r IH]; cbn; auto. destruct (c =? chain); cbn; intuition. Qed.
Lemma NoDup_rm_chain chain l : NoDup l -> NoDup (rm_chain chain l).
Proof.
  induction l as [|c r IH]; cbn; auto. intros H. inversion H; subst.
  destruct (c =? chain); auto. constructor; auto. intros Hin. apply In_rm_chain in Hin. contradiction.
Qed.
Lemma SafeMulDiv_le a b c : b <= c -> SafeMulDiv a b c <= a.
Proof.
  intros Hbc. unfold SafeMulDiv. destruct (N.eqb_spec c 0) as [|Hc]; [lia|]. cbv zeta.
  unfold wrap64. etransitivity; [apply N.mod_le; discriminate|].
  apply N.div_le_upper_bound; auto. nia.
Qed.

Definition slash_tail (a : N) (v : validator) (after : N) (newcs : list N) (s : lstate) : res lstate :=
  let amount := v_stake v - after in
  s1 <- sub_total amount s ;;
  if after =? 0 then delete_validator a v s1 else
  s2 <- sub_staked amount s1 ;;
  s4 <- (if v_delegate v
         then (d1 <- sub_delegated amount s2 ;; d2 <- delete_delegations (v_stake v) (v_committees v) d1 ;; set_delegations after newcs d2)
         else (s3 <- delete_committees (v_stake v) (v_committees v) s2 ;; set_committees after newcs s3)) ;;
  let v' := mkVal after (v_output v) newcs (v_paused v) (v_unstaking v) (v_delegate v) (v_compound v) in
  let below := if v_delegate v' then after <? p_min_stake_delegates (l_params s) else after <? p_min_stake_validators (l_params s) in
  if (v_unstaking v' =? 0) && below
  then LOk (set_unstaking_val a v' (add64 (l_height s) (if v_delegate v' then p_delegate_unstaking_blocks (l_params s) else p_unstaking_blocks (l_params s))) s4)
  else LOk (put_val a v' s4).

Lemma slash_validator_eq a chain percent already s : slash_validator a chain percent already s =
  match aget a (l_vals s) with
  | None => LOk s
  | Some v =>
    if negb (existsb (N.eqb chain) (v_committees v)) then LOk s else
    let cap := p_max_slash_per_committee (l_params s) in
    if cap <=? already then LOk s else
    let hit := cap <=? already + percent in
    let percent := if hit then cap - already else percent in
    slash_tail a v
      (if (100 <=? percent) || (v_stake v =? 0) then 0 else if percent =? 0 then v_stake v else SafeMulDiv (v_stake v) (100 - percent) 100)
      (if hit then rm_chain chain (v_committees v) else v_committees v) s
  end.
Proof. reflexivity. Qed.

Lemma slash_tail_consistent a v after newcs s s' : wf s -> Consistent s -> heights_ok s ->
  aget a (l_vals s) = Some v -> after <= v_stake v -> NoDup newcs ->
  slash_tail a v after newcs s = LOk s' -> wf s' /\ Consistent s' /\ (exclusive s -> exclusive s').
Proof.
  intros W HC (Hh0 & Hh1 & Hh2 & Hh3) Hg Hle Hncs H. unfold slash_tail in H. cbv zeta in H. bind_inv H.
  apply sub_total_inv in Hb. destruct Hb as [t ->].
  destruct (nst_done _ _ (nst_with_total t s) W HC) as [W' HC'].
  destruct (N.eqb_spec after 0) as [Ha0|Ha0].
  { destruct (delete_validator_spec a v (with_total t s) W' HC' Hg) as (s'' & E & W'' & C'' & _ & EV & _).
    rewrite E in H. inversion H; subst s''. splits; auto. apply (exclusive_del s s' a); auto. apply W. }
  psimpl.
  set (s1 := with_total t s) in *.
  change (l_vals s) with (l_vals s1) in Hg.
  destruct W' as (W1 & W2 & W3 & W4 & W5 & W6 & W7 & W8).
  apply Consistent_iff in HC'. destruct HC' as (T & M1 & M2). pose proof T as [T1 T2 T3 T4 T5].
  pose proof (Forall_aget _ _ _ _ W7 Hg) as Hnd. cbn [snd] in Hnd.
  bind_inv H. rewrite sub_staked_iff in Hb. destruct (N.ltb_spec (s_staked (l_supply s1)) (v_stake v - after)) as [|Hge]; [discriminate|].
  inversion Hb; subst st; clear Hb. bind_inv H. rename st into s4.
  set (s2 := with_staked _ s1) in *.
  set (vn := mkVal after (v_output v) newcs (v_paused v) (v_unstaking v) (v_delegate v) (v_compound v)) in *.
  assert (Hmid : exists dl m1 m2,
     s4 = set_supply (mkSupply (s_total (l_supply s1)) (s_staked (l_supply s1) - (v_stake v - after)) dl m1 m2) s1 /\
     keys_sorted m1 /\ keys_sorted m2 /\
     dl + wv v_delegate v = s_delegated (l_supply s1) + wv v_delegate vn /\
     (forall c, nget c m1 + wv (Pc c) v = nget c (s_cstaked (l_supply s1)) + wv (Pc c) vn) /\
     (forall c, nget c m2 + wv (Pd c) v = nget c (s_cdelegated (l_supply s1)) + wv (Pd c) vn)).
  { destruct (v_delegate v) eqn:Ed.
    - bind_inv Hb. rewrite sub_delegated_iff in Hb0.
      destruct (N.ltb_spec (s_delegated (l_supply s2)) (v_stake v - after)) as [|Hge2]; [discriminate|].
      inversion Hb0; subst st; clear Hb0. bind_inv Hb.
      change (s_delegated (l_supply s2)) with (s_delegated (l_supply s1)) in *.
      set (s3 := with_delegated _ s2) in *.
      destruct (each_spec _ _ _ _ _ (step_sub_deleg (v_stake v)) (v_committees v) s3 st Hnd W5 W6 Hb0) as (n1 & n2 & -> & S1 & S2 & G3 & G4).
      destruct (each_spec _ _ _ _ _ (step_add_deleg after) newcs (with_c n1 n2 s3) s4 Hncs S1 S2 Hb) as (m1 & m2 & -> & S3 & S4 & F3 & F4).
      exists (s_delegated (l_supply s1) - (v_stake v - after)), m1, m2. split; [reflexivity|]. splits; auto.
      + unfold wv, vn. psimpl. rewrite Ed. lia.
      + intros c. specialize (G3 c). specialize (F3 c). change (cst (with_c n1 n2 s3)) with n1 in F3. change (cst s3) with (s_cstaked (l_supply s1)) in G3.
        unfold wv, Pc, vn. psimpl. destruct (existsb (N.eqb c) newcs), (existsb (N.eqb c) (v_committees v)); cbn [ind] in *; lia.
      + intros c. specialize (G4 c). specialize (F4 c). change (cdl (with_c n1 n2 s3)) with n2 in F4. change (cdl s3) with (s_cdelegated (l_supply s1)) in G4.
        unfold wv, Pd, vn. psimpl. rewrite Ed. cbn [andb]. destruct (existsb (N.eqb c) newcs), (existsb (N.eqb c) (v_committees v)); cbn [ind] in *; lia.
    - bind_inv Hb.
      destruct (each_spec _ _ _ _ _ (step_sub_cstaked (v_stake v)) (v_committees v) s2 st Hnd W5 W6 Hb0) as (n1 & n2 & -> & S1 & S2 & G3 & G4).
      destruct (each_spec _ _ _ _ _ (step_add_cstaked after) newcs (with_c n1 n2 s2) s4 Hncs S1 S2 Hb) as (m1 & m2 & -> & S3 & S4 & F3 & F4).
      exists (s_delegated (l_supply s1)), m1, m2. split; [reflexivity|]. splits; auto.
      + unfold wv, vn. psimpl. rewrite Ed. lia.
      + intros c. specialize (G3 c). specialize (F3 c). change (cst (with_c n1 n2 s2)) with n1 in F3. change (cst s2) with (s_cstaked (l_supply s1)) in G3.
        unfold wv, Pc, vn. psimpl. destruct (existsb (N.eqb c) newcs), (existsb (N.eqb c) (v_committees v)); cbn [ind] in *; lia.
      + intros c. specialize (G4 c). specialize (F4 c). change (cdl (with_c n1 n2 s2)) with n2 in F4. change (cdl s2) with (s_cdelegated (l_supply s1)) in G4.
        unfold wv, Pd, vn. psimpl. rewrite Ed. cbn [andb]. rewrite !ind_0 in *. lia. }
  destruct Hmid as (dl & m1 & m2 & Es4 & S1 & S2 & D & F1 & F2). clear Hb.
  assert (HP : wf (put_val a vn s4) /\ Consistent (put_val a vn s4)).
  { rewrite Es4. split.
    - unfold wf. psimpl. splits; auto. + now apply sorted_aput. + apply Forall_aput; auto.
    - apply Consistent_iff. psimpl. splits.
      + apply (Tallies_gen _ _ _ _ (Some v) (Some vn) T).
        * intros P. rewrite <- Hg. now apply sw_aput.
        * cbn [s_staked wo]. change (wv Pt v) with (v_stake v). change (wv Pt vn) with after. lia.
        * cbn [s_delegated wo]. exact D.
        * intros c. cbn [s_cstaked wo]. apply F1.
        * intros c. cbn [s_cdelegated wo]. apply F2.
        * cbn [s_staked]. lia.
      + eapply marks_same; eauto.
      + eapply marks_same; eauto. }
  assert (HXP : exclusive s -> exclusive (put_val a vn s4)).
  { intros Hx. apply (exclusive_put s _ a vn); auto. - now rewrite Es4. - unfold vn. psimpl. apply (Hx _ _ Hg). }
  destruct ((v_unstaking v =? 0) && _) eqn:Ec; inversion H; subst s'; [|tauto].
  apply andb_true_iff in Ec. destruct Ec as [Ec _]. apply N.eqb_eq in Ec.
  rewrite <- suv_put. destruct HP as [WP CP].
  destruct (set_unstaking_val_ok a vn (add64 (l_height s) (if v_delegate v then p_delegate_unstaking_blocks (l_params s) else p_unstaking_blocks (l_params s))) (put_val a vn s4)) as [A B]; auto.
  - rewrite Es4. unfold put_val. psimpl. now rewrite aget_aput, N.eqb_refl.
  - destruct (v_delegate v); now apply add64_height.
  - splits; auto. intros Hx. apply suv_exclusive. auto.
Qed.

Lemma slash_all a chain percent already s s' : wf s -> Consistent s -> heights_ok s ->
  slash_validator a chain percent already s = LOk s' -> wf s' /\ Consistent s' /\ (exclusive s -> exclusive s').
Proof.
  intros W HC Hh H. rewrite slash_validator_eq in H.
  destruct (aget a (l_vals s)) as [v|] eqn:Hg; [|inversion H; subst; auto].
  destruct (negb _); [inversion H; subst; auto|]. cbv zeta in H.
  destruct (_ <=? already); [inversion H; subst; auto|].
  eapply slash_tail_consistent; eauto.
  - destruct (_ || _); [lia|]. destruct (_ =? 0); [lia|]. apply SafeMulDiv_le. lia.
  - pose proof (Forall_aget _ _ _ _ (proj1 (proj2 (proj2 (proj2 (proj2 (proj2 (proj2 W))))))) Hg) as Hn. cbn [snd] in Hn.
    destruct (p_max_slash_per_committee (l_params s) <=? already + percent); auto. now apply NoDup_rm_chain.
Qed.
(* slashing, including the slash to zero of an unstaking or paused validator and the forced unstake below the minimum *)
(* the statement covers delegates as well as validators since the repair of fsm/byzantine.go SlashValidator (see old_slash_delegate_breaks) *)
Theorem slash_consistent a chain percent already s s' : wf s -> Consistent s -> heights_ok s ->
  slash_validator a chain percent already s = LOk s' -> wf s' /\ Consistent s'.
Proof. intros W HC Hh H. destruct (slash_all _ _ _ _ _ _ W HC Hh H) as (A & B & _). auto. Qed.
Theorem slash_exclusive a chain percent already s s' : wf s -> Consistent s -> heights_ok s ->
  exclusive s -> slash_validator a chain percent already s = LOk s' -> exclusive s'.
Proof. intros W HC Hh Hx H. destruct (slash_all _ _ _ _ _ _ W HC Hh H) as (_ & _ & C). auto. Qed.
(* the defect repaired by this task's fix: commit, as a theorem about the OLD delete_validator: if the markers are not removed
   with the validator, a consistent state is reachable from which finish-unstaking fails *)
Definition delete_validator_old (a : N) (v : validator) (s : lstate) : res lstate :=
  s1 <- sub_staked (v_stake v) s ;;
  s2 <- (if v_delegate v
         then (s' <- sub_delegated (v_stake v) s1 ;; delete_delegations (v_stake v) (v_committees v) s')
         else delete_committees (v_stake v) (v_committees v) s1) ;;
  LOk (set_vals (adel a (l_vals s2)) s2).
Theorem old_delete_wedges : exists s a v s1, wf s /\ Consistent s /\ aget a (l_vals s) = Some v /\ v_unstaking v = l_height s /\
  delete_validator_old a v s = LOk s1 /\ delete_finished_unstaking s1 = LErr.
Proof.
  pose (p := mkParams 10 10 10 0 0 0 50).
  pose (v := mkVal 1 9 [1] 0 5 false false).
  exists (mkL [] [] [(1, v)] (mkSupply 1 1 0 [(1, 1)] []) [(5, 1)] [] [] p 5 1), 1, v,
         (mkL [] [] [] (mkSupply 1 0 0 [] []) [(5, 1)] [] [] p 5 1).
  split; [|split; [|split; [|split; [|split]]]].
  - unfold wf. cbn. splits; auto; try (intros k []); repeat constructor; auto; cbn; tauto.
  - constructor.
    + reflexivity.
    + reflexivity.
    + intros c. unfold stake_where, nget. cbn. destruct (c =? 1); reflexivity.
    + intros c. reflexivity.
    + intros h a. cbn [l_unstaking l_vals aget In]. split.
      * intros [E|[]]. inversion E; subst. exists v. cbn. splits; auto. discriminate.
      * intros (v0 & E & F & G). destruct (N.eqb_spec a 1) as [->|]; [|discriminate].
        inversion E; subst v0. cbn in F. subst h. now left.
    + intros h a. cbn [l_paused l_vals aget In]. split; [tauto|].
      intros (v0 & E & F & G). destruct (a =? 1); [|discriminate]. inversion E; subst v0. cbn in F. congruence.
    + reflexivity.
  - reflexivity.
  - reflexivity.
  - vm_compute. reflexivity.
  - vm_compute. reflexivity.
Qed.
(* ---- machine-checked counterexamples for the STATEMENT CHANGED notes and the strengthened wf, and the old slash of a delegate *)
Definition wf_orig (s : lstate) : Prop :=      (* wf as originally stated *)
  keys_nodup (l_accounts s) /\ keys_nodup (l_pools s) /\ keys_nodup (l_vals s) /\ keys_nodup (l_orders s) /\
  keys_nodup (s_cstaked (l_supply s)) /\ keys_nodup (s_cdelegated (l_supply s)) /\
  Forall (fun e => NoDup (v_committees (snd e))) (l_vals s).
Definition cex_params := mkParams 10 10 10 0 0 0 50.

Ltac marks1 v := intros h a; cbn [l_unstaking l_paused l_vals aget In]; split;
  [ intros Hin; repeat (destruct Hin as [Hin|Hin]; [inversion Hin; subst; exists v; cbn; splits; auto; discriminate|]); destruct Hin
  | intros (v0 & E & F & G); destruct (N.eqb_spec a 1) as [->|]; [|discriminate]; inversion E; subst v0; cbn in F; subst h;
    try (exfalso; apply G; reflexivity); cbn; auto ].

(* (1) original wf (NoDup keys only) is not preserved: a Send on an unsorted account list duplicates key 3 *)
Lemma cex_wf_orig_not_preserved : exists s s', wf_orig s /\ Consistent s /\ heights_ok s /\
  handle (MSend 3 7 1) s = LOk s' /\ ~ wf_orig s'.
Proof.
  exists (mkL [(5, 10); (3, 10)] [] [] (mkSupply 20 0 0 [] []) [] [] [] cex_params 1 1),
         (mkL [(3, 9); (5, 10); (3, 10); (7, 1)] [] [] (mkSupply 20 0 0 [] []) [] [] [] cex_params 1 1).
  splits.
  - unfold wf_orig, keys_nodup. cbn. splits; repeat constructor; cbn; intuition discriminate.
  - constructor; try reflexivity; intros h a; cbn; (split; [tauto|intros (v0 & E & _); discriminate]).
  - unfold heights_ok. cbn. splits; reflexivity.
  - vm_compute. reflexivity.
  - intros (H & _). unfold keys_nodup in H. cbn in H. inversion H as [|? ? Hn _]; subst. apply Hn. cbn. tauto.
Qed.

(* (2) with a duplicated unstaking marker (allowed by Consistent, whose marker clauses are In-based) finish-unstaking fails *)
Lemma cex_duplicate_marker_wedges : exists s, wf_orig s /\ Consistent s /\ Solvent s /\ staking_ok s = true /\
  delete_finished_unstaking s = LErr.
Proof.
  pose (v := mkVal 1 9 [] 0 5 false false).
  exists (mkL [] [] [(1, v)] (mkSupply 100 1 0 [] []) [(5, 1); (5, 1)] [] [] cex_params 5 1).
  splits.
  - unfold wf_orig, keys_nodup. cbn. splits; repeat constructor; cbn; intuition discriminate.
  - constructor; try reflexivity. + marks1 v. + marks1 v.
  - reflexivity.
  - vm_compute. reflexivity.
  - vm_compute. reflexivity.
Qed.

(* (3) force_unstake_consistent without [exclusive]: a validator both paused (5) and unstaking (7) at height 5 *)
Lemma cex_force_unstake_needs_exclusive : exists s s', wf s /\ Consistent s /\ heights_ok s /\
  force_unstake_max_paused s = LOk s' /\ ~ Consistent s'.
Proof.
  pose (v := mkVal 1 9 [] 5 7 false false).
  exists (mkL [] [] [(1, v)] (mkSupply 100 1 0 [] []) [(7, 1)] [(5, 1)] [] cex_params 5 1),
         (mkL [] [] [(1, v)] (mkSupply 100 1 0 [] []) [(7, 1)] [] [] cex_params 5 1).
  splits.
  - unfold wf. cbn. splits; auto; try (intros k []); repeat constructor; auto; cbn; tauto.
  - constructor; try reflexivity. + marks1 v. + marks1 v.
  - unfold heights_ok. cbn. splits; reflexivity.
  - vm_compute. reflexivity.
  - intros HC. pose proof (proj2 (k_paused_marker _ HC 5 1)) as H. cbn in H. apply H. exists v. splits; auto. discriminate.
Qed.

(* (4) the defect repaired in fsm/byzantine.go SlashValidator, as a theorem about the OLD slash_validator: a partial slash of a
   delegate adjusted only s_staked / s_cstaked (sub_staked, delete_committees, set_committees), so the delegated tallies
   kept the old stake and the bookkeeping became inconsistent *)
Definition slash_validator_old (a : N) (chain percent already : N) (s : lstate) : res lstate :=
  match aget a (l_vals s) with
  | None => LOk s
  | Some v =>
    if negb (existsb (N.eqb chain) (v_committees v)) then LOk s else
    let cap := p_max_slash_per_committee (l_params s) in
    if cap <=? already then LOk s else
    let hit := cap <=? already + percent in
    let percent := if hit then cap - already else percent in
    let new_committees := if hit then (fix rm (l : list N) := match l with [] => [] | c :: r => if c =? chain then r else c :: rm r end) (v_committees v)
                          else v_committees v in
    let after := if (100 <=? percent) || (v_stake v =? 0) then 0 else if percent =? 0 then v_stake v
                 else SafeMulDiv (v_stake v) (100 - percent) 100 in
    let amount := v_stake v - after in
    s1 <- sub_total amount s ;;
    if after =? 0 then delete_validator a v s1 else
    s2 <- sub_staked amount s1 ;;
    s3 <- delete_committees (v_stake v) (v_committees v) s2 ;;
    s4 <- set_committees after new_committees s3 ;;
    let v' := mkVal after (v_output v) new_committees (v_paused v) (v_unstaking v) (v_delegate v) (v_compound v) in
    let below := if v_delegate v' then after <? p_min_stake_delegates (l_params s) else after <? p_min_stake_validators (l_params s) in
    if (v_unstaking v' =? 0) && below
    then LOk (set_unstaking_val a v' (add64 (l_height s) (if v_delegate v' then p_delegate_unstaking_blocks (l_params s) else p_unstaking_blocks (l_params s))) s4)
    else LOk (put_val a v' s4)
  end.
Definition cex_delegate_state : lstate :=
  mkL [] [] [(1, mkVal 100 9 [1] 0 0 true false)] (mkSupply 100 100 100 [(1, 100)] [(1, 100)]) [] [] [] cex_params 5 1.
Theorem old_slash_delegate_breaks : exists s s', wf s /\ Consistent s /\ heights_ok s /\
  slash_validator_old 1 1 10 0 s = LOk s' /\ ~ Consistent s'.
Proof.
  pose (v := mkVal 100 9 [1] 0 0 true false).
  exists cex_delegate_state,
         (mkL [] [] [(1, mkVal 90 9 [1] 0 0 true false)] (mkSupply 90 90 100 [(1, 90)] [(1, 100)]) [] [] [] cex_params 5 1).
  unfold cex_delegate_state. splits.
  - unfold wf. cbn. splits; auto; try (intros k []); repeat constructor; auto; cbn; tauto.
  - constructor; try reflexivity.
    + intros c. unfold stake_where, nget. cbn. destruct (c =? 1); reflexivity.
    + intros c. unfold stake_where, nget. cbn. destruct (c =? 1); reflexivity.
    + marks1 v.
    + marks1 v.
  - unfold heights_ok. cbn. splits; reflexivity.
  - vm_compute. reflexivity.
  - intros HC. pose proof (k_delegated _ HC) as H. vm_compute in H. discriminate.
Qed.
(* the repaired slash_validator on the same state: the delegated tallies follow the stake *)
Example slash_delegate_now_consistent : exists s', slash_validator 1 1 10 0 cex_delegate_state = LOk s' /\
  s_delegated (l_supply s') = 90 /\ nget 1 (s_cdelegated (l_supply s')) = 90.
Proof. eexists. split; [vm_compute; reflexivity|]. split; vm_compute; reflexivity. Qed.

Print Assumptions handle_consistent.
Print Assumptions finish_unstaking_never_fails.
Print Assumptions slash_consistent.
Print Assumptions force_unstake_consistent.
Print Assumptions old_delete_wedges.
Print Assumptions old_slash_delegate_breaks.
