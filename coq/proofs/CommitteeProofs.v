(* CommitteeProofs.v — lemmas for property C13 over model/Committee.v *)
From Coq Require Import NArith List Bool Sorting Permutation Lia ZifyN ZifyBool.
From V Require Import U64 Extracted Committee.
Import ListNotations.
Local Open Scope N_scope.

(* ---------------------------------------------------------------- the order *)
Lemma before_irrefl a : before a a = false.
Proof. unfold before. lia. Qed.
Lemma before_asym a b : before a b = true -> before b a = false.
Proof. unfold before. lia. Qed.
Lemma before_trans a b c : before a b = true -> before b c = true -> before a c = true.
Proof. unfold before. lia. Qed.
Lemma before_total a b : v_addr a <> v_addr b -> before a b = true \/ before b a = true.
Proof. unfold before. lia. Qed.
(* the comparator is negative exactly when stake is higher, or equal with higher address *)
Lemma before_spec a b : before a b = true <->
  (v_stake b < v_stake a \/ (v_stake a = v_stake b /\ v_addr b < v_addr a)).
Proof. unfold before. lia. Qed.

Definition bef (a b : validator) : Prop := before a b = true.

(* ---------------------------------------------------------------- insertion sort *)
Lemma insert_perm v l : Permutation (v :: l) (insert v l).
Proof.
  induction l as [|x xs IH]; simpl; [reflexivity|].
  destruct (before x v); [|reflexivity].
  rewrite perm_swap. now apply perm_skip.
Qed.
Lemma sort_perm l : Permutation l (sort l).
Proof.
  induction l as [|x xs IH]; simpl; [reflexivity|].
  etransitivity; [apply perm_skip, IH | apply insert_perm].
Qed.

Lemma insert_In v l x : In x (insert v l) <-> x = v \/ In x l.
Proof.
  split; intros H.
  - apply (Permutation_in _ (Permutation_sym (insert_perm v l))) in H. simpl in H. intuition.
  - apply (Permutation_in _ (insert_perm v l)). simpl. intuition.
Qed.

Lemma insert_sorted v l :
  (forall x, In x l -> v_addr x <> v_addr v) ->
  StronglySorted bef l -> StronglySorted bef (insert v l).
Proof.
  induction l as [|x xs IH]; intros Hd Hs; simpl.
  - constructor; [constructor|constructor].
  - inversion Hs as [|? ? Hs' Hall]; subst.
    destruct (before x v) eqn:E.
    + constructor.
      * apply IH; [intros y Hy; apply Hd; now right | exact Hs'].
      * rewrite Forall_forall in *. intros y Hy. apply insert_In in Hy. destruct Hy as [->|Hy]; [exact E|now apply Hall].
    + assert (Hvx : bef v x).
      { destruct (before_total v x) as [H|H]; [|exact H|congruence].
        intro Heq. apply (Hd x); [now left|now symmetry]. }
      constructor; [exact Hs|].
      constructor; [exact Hvx|].
      rewrite Forall_forall in *. intros y Hy. eapply before_trans; [exact Hvx|now apply Hall].
Qed.

Definition addrs (l : list validator) := map v_addr l.

Lemma sort_sorted l : NoDup (addrs l) -> StronglySorted bef (sort l).
Proof.
  induction l as [|x xs IH]; intros Hnd; simpl; [constructor|].
  inversion Hnd as [|? ? Hnin Hnd']; subst.
  apply insert_sorted; [|now apply IH].
  intros y Hy Heq. apply Hnin.
  apply (Permutation_in _ (Permutation_sym (sort_perm xs))) in Hy.
  rewrite <- Heq. now apply in_map.
Qed.

(* two strictly sorted permutations of each other are equal *)
Lemma sorted_perm_unique l1 : forall l2,
  StronglySorted bef l1 -> StronglySorted bef l2 -> Permutation l1 l2 -> l1 = l2.
Proof.
  induction l1 as [|x xs IH]; intros l2 H1 H2 Hp.
  - apply Permutation_nil in Hp. now subst.
  - destruct l2 as [|y ys]; [apply Permutation_sym, Permutation_nil in Hp; discriminate|].
    inversion H1 as [|? ? H1' A1]; subst. inversion H2 as [|? ? H2' A2]; subst.
    rewrite Forall_forall in A1, A2.
    assert (x = y) as ->.
    { assert (Hx : In x (y :: ys)) by (eapply Permutation_in; [exact Hp|now left]).
      assert (Hy : In y (x :: xs)) by (eapply Permutation_in; [apply Permutation_sym; exact Hp|now left]).
      destruct Hx as [->|Hx]; [reflexivity|]. destruct Hy as [->|Hy]; [reflexivity|].
      pose proof (A2 _ Hx) as B1. pose proof (A1 _ Hy) as B2.
      apply before_asym in B1. unfold bef in B2. congruence. }
    f_equal. apply IH; [assumption..|]. eapply Permutation_cons_inv; exact Hp.
Qed.

Lemma filter_perm {A} (f : A -> bool) l l' : Permutation l l' -> Permutation (filter f l) (filter f l').
Proof.
  induction 1; simpl; try reflexivity.
  - destruct (f x); [now apply perm_skip|assumption].
  - destruct (f x), (f y); try reflexivity. apply perm_swap.
  - etransitivity; eassumption.
Qed.

Lemma NoDup_addrs_filter f l : NoDup (addrs l) -> NoDup (addrs (filter f l)).
Proof.
  induction l as [|x xs IH]; simpl; intros H; [constructor|].
  inversion H as [|? ? Hn Hd]; subst.
  destruct (f x); simpl; [constructor|]; [|now apply IH|now apply IH].
  intro Hin. apply Hn. unfold addrs in *. rewrite in_map_iff in *.
  destruct Hin as [y [E Hy]]. exists y. split; [exact E|]. apply filter_In in Hy. tauto.
Qed.

Lemma NoDup_addrs_perm l l' : Permutation l l' -> NoDup (addrs l) -> NoDup (addrs l').
Proof. intros Hp. apply Permutation_NoDup. now apply Permutation_map. Qed.

(* ---------------------------------------------------------------- permutation invariance (store scan order / cache order) *)
Lemma sort_filter_perm_invariant chain dlg l l' :
  NoDup (addrs l) -> Permutation l l' ->
  sort (filter (passes chain dlg) l) = sort (filter (passes chain dlg) l').
Proof.
  intros Hnd Hp. apply sorted_perm_unique.
  - apply sort_sorted, NoDup_addrs_filter, Hnd.
  - apply sort_sorted, NoDup_addrs_filter. eapply NoDup_addrs_perm; eassumption.
  - etransitivity; [apply Permutation_sym, sort_perm|].
    etransitivity; [|apply sort_perm]. now apply filter_perm.
Qed.

Lemma committee_list_perm_invariant cap chain dlg l l' :
  NoDup (addrs l) -> Permutation l l' ->
  committee_list cap chain dlg l = committee_list cap chain dlg l'.
Proof. intros Hnd Hp. unfold committee_list. now rewrite (sort_filter_perm_invariant chain dlg l l' Hnd Hp). Qed.

Lemma committee_perm_invariant cap chain dlg l l' :
  NoDup (addrs l) -> Permutation l l' ->
  get_validator_set cap chain dlg l = get_validator_set cap chain dlg l'.
Proof. intros Hnd Hp. unfold get_validator_set. now rewrite (committee_list_perm_invariant cap chain dlg l l' Hnd Hp). Qed.

(* ---------------------------------------------------------------- declarative specification *)
(* [ms] is the committee of [vals]: exactly the eligible validators that are among the top [cap] by
   (stake desc, address desc), in that order. *)
Definition eligible chain dlg (v : validator) : Prop :=
  v_unstaking v = 0 /\ v_paused v = 0 /\ v_delegate v = dlg /\ (chain = 0 \/ In chain (v_committees v)).

Lemma passes_eligible chain dlg v : passes chain dlg v = true <-> eligible chain dlg v.
Proof.
  unfold passes, eligible. rewrite !andb_true_iff, orb_true_iff, !N.eqb_eq, eqb_true_iff, existsb_exists.
  split.
  - intros [[[A B] C] [D|[x [Hx E]]]]; repeat split; auto. apply N.eqb_eq in E. subst. now right.
  - intros [A [B [C [D|D]]]]; repeat split; auto. right. exists chain. split; [exact D|apply N.eqb_refl].
Qed.

Definition n_eligible chain dlg vals := length (filter (passes chain dlg) vals).

Record is_committee (cap chain : N) (dlg : bool) (vals ms : list validator) : Prop := {
  ic_members : forall m, In m ms -> In m vals /\ eligible chain dlg m;
  ic_sorted : StronglySorted bef ms;
  ic_size : length ms = limit cap (n_eligible chain dlg vals);
  ic_top : forall v, In v vals -> eligible chain dlg v -> ~ In v ms -> forall m, In m ms -> bef m v }.

Lemma limit_le cap n : (limit cap n <= n)%nat.
Proof. unfold limit. destruct ((cap =? 0) || (N.of_nat n <=? cap)) eqn:E; lia. Qed.

Lemma limit_spec cap n : limit cap n = if cap =? 0 then n else Nat.min n (N.to_nat cap).
Proof. unfold limit. destruct (cap =? 0) eqn:E; simpl; [reflexivity|]. destruct (N.of_nat n <=? cap) eqn:F; lia. Qed.

Lemma sorted_firstn_top (l : list validator) k :
  StronglySorted bef l -> forall m v, In m (firstn k l) -> In v l -> ~ In v (firstn k l) -> bef m v.
Proof.
  revert k. induction l as [|x xs IH]; intros k Hs m v Hm Hv Hn; [destruct k; contradiction|].
  destruct k as [|k]; [contradiction|]. simpl in *.
  inversion Hs as [|? ? Hs' Hall]; subst. rewrite Forall_forall in Hall.
  destruct Hv as [->|Hv]; [exfalso; apply Hn; now left|].
  destruct Hm as [->|Hm]; [now apply Hall|].
  apply (IH k Hs' m v Hm Hv). intro; apply Hn; now right.
Qed.

Lemma firstn_In {A} (l : list A) k x : In x (firstn k l) -> In x l.
Proof.
  revert k; induction l as [|y ys IH]; intros k H; destruct k; simpl in *; try contradiction.
  destruct H as [->|H]; [now left|right; eapply IH; exact H].
Qed.

Lemma StronglySorted_firstn {A} (R : A -> A -> Prop) l k : StronglySorted R l -> StronglySorted R (firstn k l).
Proof.
  revert k; induction l as [|x xs IH]; intros k H; destruct k; simpl; try constructor.
  - inversion H; subst. now apply IH.
  - inversion H as [|? ? ? Hall]; subst. rewrite Forall_forall in *. intros y Hy. apply Hall.
    eapply firstn_In; exact Hy.
Qed.

Theorem model_is_committee cap chain dlg vals :
  NoDup (addrs vals) -> is_committee cap chain dlg vals (committee_list cap chain dlg vals).
Proof.
  intros Hnd. unfold committee_list.
  set (f := filter (passes chain dlg) vals). set (s := sort f).
  assert (Hs : StronglySorted bef s) by (apply sort_sorted, NoDup_addrs_filter, Hnd).
  assert (Hp : Permutation f s) by apply sort_perm.
  assert (Hlen : length s = n_eligible chain dlg vals) by (unfold n_eligible; fold f; symmetry; now apply Permutation_length).
  constructor.
  - intros m Hm. apply firstn_In in Hm. apply (Permutation_in _ (Permutation_sym Hp)) in Hm.
    unfold f in Hm. apply filter_In in Hm. destruct Hm as [A B]. split; [exact A|now apply passes_eligible].
  - now apply StronglySorted_firstn.
  - rewrite firstn_length, Hlen. pose proof (limit_le cap (n_eligible chain dlg vals)). lia.
  - intros v Hv He Hn m Hm. apply (sorted_firstn_top s _ Hs m v Hm); [|exact Hn].
    apply (Permutation_in _ Hp). unfold f. apply filter_In. split; [exact Hv|now apply passes_eligible].
Qed.

(* the specification has exactly one solution *)
Lemma sorted_NoDup l : StronglySorted bef l -> NoDup l.
Proof.
  induction 1 as [|x xs Hs IH Hall]; constructor; [|exact IH].
  intro Hin. rewrite Forall_forall in Hall. specialize (Hall _ Hin). unfold bef in Hall. rewrite before_irrefl in Hall. discriminate.
Qed.

Lemma validator_eq_dec (a b : validator) : {a = b} + {a <> b}.
Proof. decide equality; try apply N.eq_dec; try apply Bool.bool_dec; apply list_eq_dec, N.eq_dec. Qed.

Lemma incl_or_witness (cl ms : list validator) : incl cl ms \/ exists c, In c cl /\ ~ In c ms.
Proof.
  induction cl as [|c cs IH].
  - left. intros x [].
  - destruct (in_dec validator_eq_dec c ms) as [Hc|Hc].
    + destruct IH as [Hi|[c' [A B]]].
      * left. intros x [->|Hx]; [exact Hc|now apply Hi].
      * right. exists c'. split; [now right|exact B].
    + right. exists c. split; [now left|exact Hc].
Qed.

Lemma is_committee_subset_of_model cap chain dlg vals ms :
  NoDup (addrs vals) -> is_committee cap chain dlg vals ms ->
  forall m, In m ms -> In m (committee_list cap chain dlg vals).
Proof.
  intros Hnd [Hmem Hsort Hsize Htop] m Hm.
  pose proof (model_is_committee cap chain dlg vals Hnd) as [Mmem Msort Msize Mtop].
  set (cl := committee_list cap chain dlg vals) in *.
  destruct (in_dec validator_eq_dec m cl) as [Hin|Hnin]; [exact Hin|exfalso].
  destruct (Hmem m Hm) as [Hv He].
  assert (Hex : exists c, In c cl /\ ~ In c ms).
  { destruct (incl_or_witness cl ms) as [Hinc|Hw]; [|exact Hw].
    exfalso. apply Hnin.
    assert (Hndcl : NoDup cl) by now apply sorted_NoDup.
    assert (Hinc2 : incl ms cl).
    { apply NoDup_length_incl; [exact Hndcl| |exact Hinc]. rewrite Hsize, Msize. lia. }
    now apply Hinc2. }
  destruct Hex as [c [Hc Hcn]].
  destruct (Mmem c Hc) as [Hcv Hce].
  pose proof (Htop c Hcv Hce Hcn m Hm) as B1.
  pose proof (Mtop m Hv He Hnin c Hc) as B2.
  apply before_asym in B1. unfold bef in B2. congruence.
Qed.

Theorem committee_unique cap chain dlg vals ms :
  NoDup (addrs vals) -> is_committee cap chain dlg vals ms -> ms = committee_list cap chain dlg vals.
Proof.
  intros Hnd Hic.
  pose proof (is_committee_subset_of_model cap chain dlg vals ms Hnd Hic) as Hsub.
  pose proof (model_is_committee cap chain dlg vals Hnd) as [Mmem Msort Msize Mtop].
  destruct Hic as [Hmem Hsort Hsize Htop].
  apply sorted_perm_unique; [exact Hsort|exact Msort|].
  apply NoDup_Permutation_bis; [now apply sorted_NoDup| |exact Hsub].
  rewrite Hsize, Msize. lia.
Qed.

(* ---------------------------------------------------------------- powers and threshold *)
Lemma members_power cap chain dlg vals vs :
  get_validator_set cap chain dlg vals = Some vs ->
  members vs = map (fun v => (v_addr v, v_stake v)) (committee_list cap chain dlg vals).
Proof. unfold get_validator_set. destruct (_ =? 0); [discriminate|]. intros [= <-]. reflexivity. Qed.

Lemma sum_power_from acc ms :
  acc + sum_exact ms < two64 ->
  fold_left (fun a v => add64 a (v_stake v)) ms acc = acc + sum_exact ms.
Proof.
  revert acc. induction ms as [|m ms IH]; intros acc H; simpl in *; [lia|].
  rewrite add64_exact by lia. rewrite IH by lia. lia.
Qed.
Lemma sum_power_exact ms : sum_exact ms < two64 -> sum_power ms = sum_exact ms.
Proof. intros H. unfold sum_power. rewrite sum_power_from; lia. Qed.

(* the generated threshold expression 2*(T/3) + 2*(T mod 3)/3 + 1 is floor(2T/3)+1 for every 64-bit total:
   no intermediate value reaches 2^64 (before the repair of lib/consensus.go the expression was (2*T)/3+1, which
   wrapped for T >= 2^63; KNOWN_FINDINGS "threshold wraps") *)
Lemma minimumMaj23_spec T : T < two64 -> minimumMaj23 T = 2 * T / 3 + 1.
Proof.
  intros H. unfold minimumMaj23. unfold two64 in H.
  rewrite (mul64_exact 2 (T / 3)) by (unfold two64; lia).
  rewrite (mul64_exact 2 (T mod 3)) by (unfold two64; lia).
  rewrite (add64_exact (2 * (T / 3))) by (unfold two64; lia).
  rewrite add64_exact by (unfold two64; lia). lia.
Qed.

(* at 2^63, where the former expression evaluated to 1, the threshold is now exact *)
Lemma minimumMaj23_at_2_63 : minimumMaj23 9223372036854775808 = 2 * 9223372036854775808 / 3 + 1.
Proof. vm_compute. reflexivity. Qed.

Theorem threshold_spec cap chain dlg vals vs :
  get_validator_set cap chain dlg vals = Some vs ->
  sum_exact (committee_list cap chain dlg vals) < two64 ->
  total vs = sum_exact (committee_list cap chain dlg vals) /\
  maj23 vs = 2 * total vs / 3 + 1 /\ total vs <> 0 /\
  num vs = N.of_nat (length (committee_list cap chain dlg vals)).
Proof.
  unfold get_validator_set. intros H Hb.
  rewrite sum_power_exact in H by exact Hb.
  destruct (_ =? 0) eqn:E; [discriminate|]. injection H as <-. simpl.
  repeat split; [now apply minimumMaj23_spec | lia].
Qed.

Theorem none_iff_zero_power cap chain dlg vals :
  sum_exact (committee_list cap chain dlg vals) < two64 ->
  (get_validator_set cap chain dlg vals = None <-> sum_exact (committee_list cap chain dlg vals) = 0).
Proof.
  intros Hb. unfold get_validator_set. rewrite sum_power_exact by exact Hb.
  destruct (_ =? 0) eqn:E; split; intros H; try discriminate; try reflexivity; lia.
Qed.

(* model (generated threshold, wrapping sum) = specification (exact sum, floor(2T/3)+1) below 2^63 *)
Theorem model_eq_spec cap chain dlg vals :
  sum_exact (committee_list cap chain dlg vals) < two64 ->
  get_validator_set cap chain dlg vals = spec_validator_set cap chain dlg vals.
Proof.
  intros Hb. unfold get_validator_set, spec_validator_set.
  rewrite sum_power_exact by exact Hb.
  destruct (_ =? 0); [reflexivity|]. now rewrite minimumMaj23_spec.
Qed.
