(* BftLiveness.v — a synchronous round with a correct leader commits (property C15), from EVERY reachable state. *)
From Coq Require Import NArith List Bool Lia.
From V Require Import U64 Extracted Bft BftNet BftLive BftArith BftInv BftLocal BftRunOk BftSafety BftLiveAux.
Import ListNotations.
Local Open Scope N_scope.


(* ---- the round, from a net n that satisfies the invariants *)
Section Core.
Variables (P : list N) (lru : N) (ids : list N) (leader : N) (fresh : N * N) (root round : N) (n : net).
Hypothesis Hwrap : ptotal P < two64.
Hypothesis Hbyz : 3 * byz_power P ids < ptotal P.
Hypothesis HI : Inv P lru ids n.
Hypothesis HR : InvR lru n.
Hypothesis Hnd : NoDup ids.
Hypothesis Hval : forall i, In i ids -> i < N.of_nat (length P).
Hypothesis Hq : maj23 (mkConf leader P lru) <= set_power (mkConf leader P lru) ids.
Hypothesis Hal : aligned n ids root round.
Hypothesis Hlead : In leader ids.
Hypothesis Hf1 : fst fresh <> 0.
Hypothesis Hf2 : snd fresh <> 0.

Definition lock0 (i : N) : option qc := match get_rep n i with Some r => r_lock r | None => None end.
Definition is_max (h : qc) : Prop :=
  (exists j, In j ids /\ lock0 j = Some h) /\ forall j lj, In j ids -> lock0 j = Some lj -> view_less (q_view h) (q_view lj) = false.
Definition valof (L : option qc) : N * N := match L with Some h => (q_block h, q_results h) | None => fresh end.

Lemma ids_validator j i : In i ids -> is_validator (conf_of P lru j) i = true.
Proof. intros Hi. unfold is_validator. apply N.ltb_lt. simpl. now apply Hval. Qed.

Lemma ecert_full j vw b s pr : qc_check (conf_of P lru j) (mkQC vw b s pr ids true) = QFull.
Proof.
  unfold qc_check. cbn [q_sigok q_signers negb orb].
  assert (Hall : forallb (is_validator (conf_of P lru j)) ids = true).
  { apply forallb_forall. intros i Hi. now apply ids_validator. }
  rewrite Hall. cbn [negb].
  change (maj23 (conf_of P lru j)) with (maj23 (mkConf leader P lru)).
  change (set_power (conf_of P lru j) ids) with (set_power (mkConf leader P lru) ids).
  apply N.leb_le in Hq. rewrite Hq. reflexivity.
Qed.

Lemma lock0_good i h : In i ids -> lock0 i = Some h ->
  goodqc P lru n h 4 /\ forall j, high_ok (conf_of P lru j) h = true.
Proof.
  intros Hi Hl. unfold lock0 in Hl. destruct (get_rep n i) as [r|] eqn:Er; [|discriminate].
  pose proof (I_lock P lru ids n HI i r h Er Hl) as Hg. split; [exact Hg|].
  intros j. destruct Hg as [Hf [Hp _]]. destruct (HR i r Er) as [_ Hlru]. specialize (Hlru h Hl).
  unfold high_ok. rewrite (qc_check_conf P lru j h). unfold full in Hf. fold (cf0 P lru). rewrite Hf.
  apply N.leb_le in Hlru. cbn [c_lru conf_of]. rewrite Hlru, Hp. reflexivity.
Qed.

(* two maximal locks carry the same value *)
Lemma max_value h l : is_max h -> is_max l -> q_block h = q_block l /\ q_results h = q_results l.
Proof.
  intros [[j [Hj Hjl]] Hh] [[k [Hk Hkl]] Hl].
  pose proof (Hh k l Hk Hkl) as V1. pose proof (Hl j h Hj Hjl) as V2.
  apply view_less_false in V1, V2.
  destruct (lock0_good j h Hj Hjl) as [G1 _]. destruct (lock0_good k l Hk Hkl) as [G2 _].
  apply (cert_unique P lru ids Hwrap Hbyz n h l 4 HI (or_introl eq_refl) G1 G2); unfold tle3 in *; lia.
Qed.

Lemma sync_core :
  (forall h, is_max h -> q_block h <> 0 /\ q_results h <> 0) ->
  exists L, (forall h, L = Some h -> is_max h) /\ (L = None -> forall j, In j ids -> lock0 j = None) /\
    forall i, In i ids -> In (i, valof L) (commits (sync_round P lru ids leader fresh n)).
Proof.
  intros Hnz.
  destruct (Hal leader Hlead) as [l0 [Hl0 [Hr0 [Hrd0 [Hph0 Hc0]]]]].
  unfold sync_round. rewrite Hl0. cbv zeta. rewrite Hr0, Hrd0.
  set (Q := fun (ph : N) (i : N) (r : rstate) =>
              r_root r = root /\ r_round r = round /\ r_phase r = ph /\ r_commit r = None /\ r_lock r = lock0 i).
  assert (S0 : AllSt ids n (Q 1)).
  { intros i Hi. destruct (Hal i Hi) as [r [Hr [H1 [H2 [H3 H4]]]]]. exists r. split; [exact Hr|].
    unfold Q, lock0. rewrite Hr. auto. }
  set (n1 := step_all P lru ids leader fresh n).
  assert (S1 : AllSt ids n1 (Q 2)).
  { apply (step_all_St P lru ids leader Hnd fresh n (Q 1)); [exact S0|].
    intros i r Hi [H1 [H2 [H3 [H4 H5]]]]. destruct (stepf_1 P lru i leader fresh r H4 H3) as [[E1 [E2 [E3 [E4 E5]]]] E6].
    unfold Q. repeat split; congruence. }
  set (n2 := step_all P lru ids leader fresh n1).
  assert (S2 : AllSt ids n2 (Q 3)).
  { apply (step_all_St P lru ids leader Hnd fresh n1 (Q 2)); [exact S1|].
    intros i r Hi [H1 [H2 [H3 [H4 H5]]]]. destruct (stepf_2 P lru i leader fresh r H4 H3) as [[E1 [E2 [E3 [E4 E5]]]] E6].
    unfold Q. repeat split; congruence. }
  (* the votes reach the leader *)
  destruct (S2 leader Hlead) as [rl2 [Hrl2 [B1 [B2 [B3 [B4 B5]]]]]].
  set (n3 := votes_to_leader P lru ids leader n2).
  set (look := get_rep n2).
  assert (Hn3 : forall j, get_rep n3 j = if j =? leader then Some (lfold P lru leader look ids rl2) else look j).
  { intros j. apply (vtl_get P lru leader look ids n2 rl2 Hrl2). intros i _. reflexivity. }
  assert (Hlook : forall i ri, In i ids -> i <> leader -> look i = Some ri ->
            r_root ri = root /\ forall h, r_lock ri = Some h -> high_ok (conf_of P lru leader) h = true).
  { intros i ri Hi _ Hri. destruct (S2 i Hi) as [r [Hr [C1 [C2 [C3 [C4 C5]]]]]]. unfold look in Hri.
    rewrite Hr in Hri. injection Hri as <-. split; [exact C1|]. intros h Hh. rewrite C5 in Hh.
    apply (lock0_good i h Hi Hh). }
  assert (Hok2 : forall h, r_lock rl2 = Some h -> high_ok (conf_of P lru leader) h = true).
  { intros h Hh. rewrite B5 in Hh. apply (lock0_good leader h Hlead Hh). }
  destruct (lfold_spec P lru leader look root ids Hlook (fun i Hi => ids_validator leader i Hi) rl2 B4 B1 Hok2)
    as [D1 [D2 [D3 [D4 [D5 [D6 [D7 [D8 D9]]]]]]]].
  set (rl3 := lfold P lru leader look ids rl2) in *.
  set (L := r_lock rl3) in *.
  assert (M1 : forall j lj, In j ids -> lock0 j = Some lj -> exists h, L = Some h /\ view_less (q_view h) (q_view lj) = false).
  { intros j lj Hj Hlj. destruct (N.eq_dec j leader) as [->|Hne].
    - apply D7. congruence.
    - destruct (S2 j Hj) as [r [Hr [_ [_ [_ [_ C5]]]]]]. apply (D8 j r lj Hj Hne Hr). congruence. }
  assert (M2 : forall h, L = Some h -> exists j, In j ids /\ lock0 j = Some h).
  { intros h Hh. destruct D9 as [D9|[j [rj [Hj [Hne [Hlk [El _]]]]]]].
    - exists leader. split; [exact Hlead|]. congruence.
    - exists j. split; [exact Hj|]. destruct (S2 j Hj) as [r [Hr [_ [_ [_ [_ C5]]]]]]. unfold look in Hlk.
      rewrite Hr in Hlk. injection Hlk as <-. congruence. }
  assert (Hmax : forall h, L = Some h -> is_max h).
  { intros h Hh. split; [now apply M2|]. intros j lj Hj Hlj.
    destruct (M1 j lj Hj Hlj) as [h' [E V]]. congruence. }
  exists L. split; [exact Hmax|]. split.
  { intros HL j Hj. destruct (lock0 j) as [lj|] eqn:E; [|reflexivity].
    destruct (M1 j lj Hj E) as [h [E' _]]. congruence. }
  assert (Hhigh : match get_rep n3 leader with Some l => r_lock l | None => None end = L).
  { rewrite Hn3, N.eqb_refl. reflexivity. }
  rewrite Hhigh.
  set (v := match L with Some h => (q_block h, q_results h) | None => fresh end).
  change (valof L) with v.
  assert (Hv : fst v <> 0 /\ snd v <> 0).
  { unfold v. destruct L as [h|] eqn:EL; [|auto]. simpl. apply Hnz. now apply Hmax. }
  destruct Hv as [Hv1 Hv2].
  set (Q3 := fun (ph : N) (i : N) (r : rstate) =>
              r_root r = root /\ r_round r = round /\ r_phase r = ph /\ r_commit r = None /\
              r_lock r = if i =? leader then L else lock0 i).
  assert (S3 : AllSt ids n3 (Q3 3)).
  { intros i Hi. rewrite Hn3. destruct (N.eqb_spec i leader) as [->|Hne].
    - exists rl3. split; [reflexivity|]. unfold Q3. rewrite N.eqb_refl. repeat split; congruence.
    - destruct (S2 i Hi) as [r [Hr [C1 [C2 [C3 [C4 C5]]]]]]. exists r. split; [exact Hr|]. unfold Q3.
      destruct (N.eqb_spec i leader); [contradiction|]. auto. }
  set (n4 := step_all P lru ids leader v n3).
  assert (S4 : AllSt ids n4 (Q3 4)).
  { apply (step_all_St P lru ids leader Hnd v n3 (Q3 3)); [exact S3|].
    intros i r Hi [H1 [H2 [H3 [H4 H5]]]]. destruct (stepf_3 P lru i leader v r H4 H3) as [[E1 [E2 [E3 [E4 E5]]]] E6].
    unfold Q3. repeat split; congruence. }
  (* the PROPOSE message *)
  change (mkLM leader true round Phase_PROPOSE (mkQC (mkView root round Phase_ELECTION_VOTE) (fst v) (snd v) leader ids true) true L lru)
    with (lm_prop lru leader ids root round v L).
  change (mkLM leader true round Phase_PRECOMMIT (mkQC (mkView root round Phase_PROPOSE_VOTE) (fst v) (snd v) leader ids true) false None lru)
    with (lm_prec lru leader ids root round v).
  change (mkLM leader true round Phase_COMMIT (mkQC (mkView root round Phase_PRECOMMIT_VOTE) (fst v) (snd v) leader ids true) false None lru)
    with (lm_com lru leader ids root round v).
  assert (Hfull : forall i ph, qc_check (conf_of P lru i) (ecert leader ids root round v ph) = QFull).
  { intros i ph. apply ecert_full. }
  assert (HhighL : forall i h, L = Some h -> high_ok (conf_of P lru i) h = true).
  { intros i h Hh. destruct (M2 h Hh) as [j [Hj Hlj]]. apply (lock0_good j h Hj Hlj). }
  set (n5 := deliver_all P lru ids (lm_prop lru leader ids root round v L) n4).
  set (Q5 := fun (i : N) (r : rstate) => Q3 4 i r /\ get_prop r round 3 = Some (lm_prop lru leader ids root round v L)).
  assert (S5 : AllSt ids n5 Q5).
  { apply (deliver_all_St P lru ids Hnd _ n4 (Q3 4)); [exact S4|].
    intros i r Hi [H1 [H2 [H3 [H4 H5]]]].
    destruct (recv_prop P lru i leader (ids_validator i leader Hlead) ids root round v L (Hfull i) (HhighL i) r H4 H1)
      as [[E1 [E2 [E3 [E4 E5]]]] E6].
    unfold Q5, Q3. repeat split; try congruence; exact E6. }
  (* PROPOSE_VOTE: SafeNode passes everywhere *)
  set (QH := fun (ph : N) (i : N) (r : rstate) =>
              r_root r = root /\ r_round r = round /\ r_phase r = ph /\ r_commit r = None /\ held leader v r).
  set (n6 := step_all P lru ids leader v n5).
  assert (S6 : AllSt ids n6 (QH 5)).
  { apply (step_all_St P lru ids leader Hnd v n5 Q5); [exact S5|].
    intros i r Hi [[H1 [H2 [H3 [H4 H5]]]] Hg].
    assert (Hsafe : forall l, r_lock r = Some l -> safe_node l (lm_prop lru leader ids root round v L) = true).
    { intros l Hl. rewrite H5 in Hl.
      assert (HL : exists h, L = Some h /\ view_less (q_view h) (q_view l) = false /\
                   (l = h \/ exists j, In j ids /\ lock0 j = Some l)).
      { destruct (N.eqb_spec i leader) as [->|Hne].
        - exists l. split; [exact Hl|]. split; [apply vl_refl|now left].
        - destruct (M1 i l Hi Hl) as [h [E V]]. exists h. split; [exact E|]. split; [exact V|]. right. eauto. }
      destruct HL as [h [EL [V Hsrc]]].
      unfold safe_node. change (m_high (lm_prop lru leader ids root round v L)) with L. rewrite EL.
      change (q_block (m_qc (lm_prop lru leader ids root round v L))) with (fst v).
      change (q_results (m_qc (lm_prop lru leader ids root round v L))) with (snd v).
      assert (Ev : v = (q_block h, q_results h)) by (unfold v; rewrite EL; reflexivity).
      rewrite Ev. cbn [fst snd]. rewrite !N.eqb_refl. cbn [andb].
      destruct Hsrc as [->|[j [Hj Hlj]]]; [rewrite !N.eqb_refl; reflexivity|].
      destruct (view_less (q_view l) (q_view h)) eqn:V2; [apply orb_true_r|].
      apply view_less_false in V, V2.
      destruct (M2 h EL) as [k [Hk Hlk]].
      destruct (lock0_good j l Hj Hlj) as [G1 _]. destruct (lock0_good k h Hk Hlk) as [G2 _].
      assert (Hu : q_block l = q_block h /\ q_results l = q_results h)
        by (apply (cert_unique P lru ids Hwrap Hbyz n l h 4 HI (or_introl eq_refl) G1 G2); unfold tle3 in *; lia).
      destruct Hu as [Eb Es]. rewrite Eb, Es, !N.eqb_refl. reflexivity. }
    destruct (stepf_4 P lru i leader ids root round v L r H4 H3 H2 Hg Hsafe) as [[E1 [E2 [E3 [E4 E5]]]] [E6 E7]].
    unfold QH. split; [congruence|split; [congruence|split; [rewrite E6; reflexivity|split; [congruence|exact E7]]]]. }
  set (n7 := step_all P lru ids leader v n6).
  assert (S7 : AllSt ids n7 (QH 6)).
  { apply (step_all_St P lru ids leader Hnd v n6 (QH 5)); [exact S6|].
    intros i r Hi [H1 [H2 [H3 [H4 H5]]]].
    destruct (stepf_57 P lru i leader v r 5 (or_introl eq_refl) H4 H3 H5) as [[E1 [E2 [E3 [E4 E5]]]] [E6 E7]].
    unfold QH. split; [congruence|split; [congruence|split; [rewrite E6; reflexivity|split; [congruence|exact E7]]]]. }
  set (n8 := deliver_all P lru ids (lm_prec lru leader ids root round v) n7).
  assert (S8 : AllSt ids n8 (fun i r => QH 6 i r /\ get_prop r round 5 = Some (lm_prec lru leader ids root round v))).
  { apply (deliver_all_St P lru ids Hnd _ n7 (QH 6)); [exact S7|].
    intros i r Hi [H1 [H2 [H3 [H4 H5]]]].
    destruct (recv_held P lru i leader (ids_validator i leader Hlead) ids root round v (Hfull i) Hv1 _ 4
                (or_introl (conj eq_refl eq_refl)) r H4 H1 H5) as [[E1 [E2 [E3 [E4 E5]]]] [E6 E7]].
    unfold QH. repeat split; try congruence; try apply E6; try exact E7. }
  set (n9 := step_all P lru ids leader v n8).
  assert (S9 : AllSt ids n9 (QH 7)).
  { apply (step_all_St P lru ids leader Hnd v n8 _ _ S8).
    intros i r Hi [[H1 [H2 [H3 [H4 H5]]]] Hg].
    destruct (stepf_6 P lru i leader ids root round v Hv1 r H4 H3 H2 H5 Hg) as [E1 [E2 [E3 [E4 [E5 E6]]]]].
    unfold QH. repeat split; try congruence; apply E6. }
  set (n10 := step_all P lru ids leader v n9).
  assert (S10 : AllSt ids n10 (QH 8)).
  { apply (step_all_St P lru ids leader Hnd v n9 (QH 7)); [exact S9|].
    intros i r Hi [H1 [H2 [H3 [H4 H5]]]].
    destruct (stepf_57 P lru i leader v r 7 (or_intror eq_refl) H4 H3 H5) as [[E1 [E2 [E3 [E4 E5]]]] [E6 E7]].
    unfold QH. split; [congruence|split; [congruence|split; [rewrite E6; reflexivity|split; [congruence|exact E7]]]]. }
  set (n11 := deliver_all P lru ids (lm_com lru leader ids root round v) n10).
  assert (S11 : AllSt ids n11 (fun i r => QH 8 i r /\ get_prop r round 7 = Some (lm_com lru leader ids root round v))).
  { apply (deliver_all_St P lru ids Hnd _ n10 (QH 8)); [exact S10|].
    intros i r Hi [H1 [H2 [H3 [H4 H5]]]].
    destruct (recv_held P lru i leader (ids_validator i leader Hlead) ids root round v (Hfull i) Hv1 _ 6
                (or_intror (conj eq_refl eq_refl)) r H4 H1 H5) as [[E1 [E2 [E3 [E4 E5]]]] [E6 E7]].
    unfold QH. repeat split; try congruence; try apply E6; try exact E7. }
  assert (S12 : AllSt ids (step_all P lru ids leader v n11) (fun i r => r_commit r = Some v)).
  { apply (step_all_St P lru ids leader Hnd v n11 _ _ S11).
    intros i r Hi [[H1 [H2 [H3 [H4 H5]]]] Hg].
    exact (stepf_8 P lru i leader ids root round v (Hfull i) Hv1 Hv2 r H4 H3 H2 H5 Hg). }
  intros i Hi. destruct (S12 i Hi) as [r [Hr Hc]]. apply commits_In. exists r. split; [now apply get_rep_In|exact Hc].
Qed.
End Core.

(* ---- reachable nets satisfy the invariants used above *)
Lemma init_InvR lru correct : Forall (fun e => lru <= snd e) correct -> InvR lru (init_net correct).
Proof.
  intros HF k r Hk. apply get_rep_In in Hk. unfold init_net in Hk. simpl in Hk. apply in_map_iff in Hk.
  destruct Hk as [e [He Hin]]. injection He as _ <-. rewrite Forall_forall in HF. split; [exact (HF e Hin)|].
  intros l Hl. discriminate.
Qed.
Lemma run_InvR P lru acts : forall n, InvR lru n -> run_ok P lru n acts -> InvR lru (run P lru n acts).
Proof.
  induction acts as [|a acts IH]; intros n HR Hok; simpl; [exact HR|]. destruct Hok as [Ha Hok].
  apply IH; [|exact Hok].
  destruct (net_step_cases P lru n a Ha) as [->|[i [r [r' [nv [Hi [-> Ht]]]]]]]; [exact HR|].
  eapply InvR_step; eauto.
Qed.

Lemma lock0_eq n i r : get_rep n i = Some r -> lock0 n i = r_lock r.
Proof. intros H. unfold lock0. now rewrite H. Qed.
Lemma lock0_inv n i l : lock0 n i = Some l -> exists r, get_rep n i = Some r /\ r_lock r = Some l.
Proof. unfold lock0. destruct (get_rep n i) as [r|]; [eauto|discriminate]. Qed.

(* MAIN THEOREM: take any execution at all - any adversarial prefix: partitions, drops, equivocation, withheld certificates, root
   updates, replicas locked on different values at different views, stale stored proposals - and suppose that afterwards the
   correct replicas, who hold +2/3 of the power, start a round together (same root height, same round, ELECTION phase) under a
   correct leader, with every message among them delivered and nothing else.  Then every correct replica commits in that round,
   and they all commit the same value. *)
Theorem sync_round_commits powers lru (correct : list (N * N)) acts leader fresh root round :
  NoDup (map fst correct) ->
  Forall (fun e => fst e < N.of_nat (length powers)) correct ->
  total powers < two64 ->
  3 * byz_power powers (map fst correct) < total powers ->
  Forall (fun e => lru <= snd e) correct ->                              (* LastRootHeightUpdated is not ahead of any replica's root height *)
  run_ok powers lru (init_net correct) acts ->
  let n := run powers lru (init_net correct) acts in
  let ids := map fst correct in
  aligned n ids root round -> In leader ids -> fst fresh <> 0 -> snd fresh <> 0 ->
  maj23 (mkConf leader powers lru) <= set_power (mkConf leader powers lru) ids ->
  (* STATEMENT CHANGED: added hypothesis - no lock held at the start names the nil block or nil results (hash id 0).  Without
     it the statement is false: see [sync_round_needs_nonzero_locks] below. *)
  (forall i r l, In i ids -> get_rep n i = Some r -> r_lock r = Some l -> q_block l <> 0 /\ q_results l <> 0) ->
  exists v, forall i, In i ids -> In (i, v) (commits (sync_round powers lru ids leader fresh n)).
Proof.
  intros Hnd HF Hw Hb Hlru Hok n ids Hal Hlead Hf1 Hf2 Hq Hnz.
  assert (HI : Inv powers lru ids n) by (apply run_Inv; auto; apply init_Inv).
  assert (HR : InvR lru n) by (apply run_InvR; auto; now apply init_InvR).
  assert (Hval : forall i, In i ids -> i < N.of_nat (length powers)).
  { intros i Hi. apply in_map_iff in Hi. destruct Hi as [e [<- He]]. rewrite Forall_forall in HF. now apply HF. }
  destruct (sync_core powers lru ids leader fresh root round n Hw Hb HI HR Hnd Hval Hq Hal Hlead Hf1 Hf2) as [L [_ [_ HL]]].
  - intros h [[j [Hj Hlj]] _]. destruct (lock0_inv _ _ _ Hlj) as [r [Hr Hl]]. eapply Hnz; eauto.
  - exists (valof fresh L). exact HL.
Qed.

(* the value committed is the highest lock any correct replica held, if there was one *)
Theorem sync_round_commits_highest_lock powers lru (correct : list (N * N)) acts leader fresh root round i r l :
  NoDup (map fst correct) ->
  Forall (fun e => fst e < N.of_nat (length powers)) correct ->
  total powers < two64 ->
  3 * byz_power powers (map fst correct) < total powers ->
  Forall (fun e => lru <= snd e) correct ->
  run_ok powers lru (init_net correct) acts ->
  let n := run powers lru (init_net correct) acts in
  let ids := map fst correct in
  aligned n ids root round -> In leader ids -> fst fresh <> 0 -> snd fresh <> 0 ->
  maj23 (mkConf leader powers lru) <= set_power (mkConf leader powers lru) ids ->
  In i ids -> get_rep n i = Some r -> r_lock r = Some l ->
  (forall j rj lj, In j ids -> get_rep n j = Some rj -> r_lock rj = Some lj -> view_less (q_view l) (q_view lj) = false) ->
  (* STATEMENT CHANGED: added hypothesis - the highest lock does not name the nil block or nil results (same counterexample) *)
  q_block l <> 0 -> q_results l <> 0 ->
  forall k, In k ids -> In (k, (q_block l, q_results l)) (commits (sync_round powers lru ids leader fresh n)).
Proof.
  intros Hnd HF Hw Hb Hlru Hok n ids Hal Hlead Hf1 Hf2 Hq Hi Hr Hl Hmaxl Hnz1 Hnz2.
  assert (HI : Inv powers lru ids n) by (apply run_Inv; auto; apply init_Inv).
  assert (HR : InvR lru n) by (apply run_InvR; auto; now apply init_InvR).
  assert (Hval : forall i, In i ids -> i < N.of_nat (length powers)).
  { intros i0 Hi0. apply in_map_iff in Hi0. destruct Hi0 as [e [<- He]]. rewrite Forall_forall in HF. now apply HF. }
  assert (Hml : is_max ids n l).
  { split.
    - exists i. split; [exact Hi|]. rewrite (lock0_eq _ _ _ Hr). exact Hl.
    - intros j lj Hj Hlj. destruct (lock0_inv _ _ _ Hlj) as [rj [Hrj Hlk]]. eapply Hmaxl; eauto. }
  destruct (sync_core powers lru ids leader fresh root round n Hw Hb HI HR Hnd Hval Hq Hal Hlead Hf1 Hf2) as [L [HL1 [HL2 HL]]].
  - intros h Hh. destruct (max_value powers lru ids leader fresh n Hw Hb HI HR Hval Hq Hf1 Hf2 h l Hh Hml) as [-> ->]. auto.
  - destruct L as [h|].
    + destruct (max_value powers lru ids leader fresh n Hw Hb HI HR Hval Hq Hf1 Hf2 h l (HL1 h eq_refl) Hml) as [E1 E2].
      intros k Hk. specialize (HL k Hk). unfold valof in HL. rewrite E1, E2 in HL. exact HL.
    + exfalso. specialize (HL2 eq_refl i Hi). rewrite (lock0_eq _ _ _ Hr) in HL2. congruence.
Qed.

(* ---- concrete executions *)
Definition lvP : list N := [100; 100; 100; 100].
Definition lvC : list (N * N) := [(0, 5); (1, 5); (2, 5)].
Definition lv_o : oracle := mkO 3 false (0, 0) true 5 0.
Definition lv_each (f : N -> action) : list action := [f 0; f 1; f 2].
Definition lv_mP (rd b s : N) : lmsg := mkLM 3 true rd Phase_PROPOSE (mkQC (mkView 5 rd Phase_ELECTION_VOTE) b s 3 [0; 1; 2; 3] true) true None 5.
Definition lv_pq (rd b s : N) (sg : list N) : qc := mkQC (mkView 5 rd Phase_PROPOSE_VOTE) b s 3 sg true.
Definition lv_mPC (rd : N) (q : qc) : lmsg := mkLM 3 true rd Phase_PRECOMMIT q false None 5.

Lemma aligned_check n ids root round :
  forallb (fun i => match get_rep n i with
                    | Some r => (r_root r =? root) && (r_round r =? round) && (r_phase r =? Phase_ELECTION) &&
                                match r_commit r with None => true | Some _ => false end
                    | None => false end) ids = true -> aligned n ids root round.
Proof.
  intros H i Hi. rewrite forallb_forall in H. specialize (H i Hi).
  destruct (get_rep n i) as [r|]; [|discriminate]. exists r. split; [reflexivity|].
  rewrite !andb_true_iff, !N.eqb_eq in H. destruct H as [[[H1 H2] H3] H4].
  destruct (r_commit r); [discriminate|]. auto.
Qed.

(* the counterexample behind the STATEMENT CHANGED hypotheses: the Byzantine leader 3 of round 0 proposes the nil block (hash
   id 0) with results 8; the three correct replicas PROPOSE-vote it (nothing in the replica refuses it); the resulting genuine
   certificate is forwarded to replica 1 in an ELECTION vote and adopted as its lock; everybody times out into round 1, aligned.
   In the synchronous round the correct leader re-proposes the locked value (0, 8); the PRECOMMIT message is then refused by
   every replica (CheckProposerMessage requires a block to be held) and nobody commits. *)
Definition cex_q : qc := lv_pq 0 0 8 [0; 1; 2].
Definition cex_acts : list action :=
  lv_each (fun i => AStep i lv_o) ++ lv_each (fun i => AStep i lv_o) ++ lv_each (fun i => AStep i lv_o) ++
  lv_each (fun i => ALeader i (lv_mP 0 0 8)) ++ lv_each (fun i => AStep i lv_o) ++
  [AVote 1 (mkVM 3 true (mkView 5 0 Phase_ELECTION_VOTE) 0 0 3 (Some cex_q) 0 0)] ++
  lv_each (fun i => AStep i lv_o) ++ lv_each (fun i => AStep i lv_o) ++ lv_each (fun i => AStep i lv_o).
Example sync_round_needs_nonzero_locks :
  let n := run lvP 0 (init_net lvC) cex_acts in
  run_ok lvP 0 (init_net lvC) cex_acts /\ aligned n [0; 1; 2] 5 1 /\
  (exists r, get_rep n 1 = Some r /\ r_lock r = Some cex_q) /\
  total lvP < two64 /\ 3 * byz_power lvP [0; 1; 2] < total lvP /\
  maj23 (mkConf 0 lvP 0) <= set_power (mkConf 0 lvP 0) [0; 1; 2] /\
  commits (sync_round lvP 0 [0; 1; 2] 0 (21, 22) n) = [].
Proof.
  cbv zeta. split; [apply run_okb_sound; vm_compute; reflexivity|].
  split; [apply aligned_check; vm_compute; reflexivity|].
  split; [eexists; split; vm_compute; reflexivity|].
  repeat split; vm_compute; reflexivity || (intros H; discriminate H).
Qed.

Definition nv_qa : qc := lv_pq 0 7 8 [0; 1; 2].
Definition nv_qb : qc := lv_pq 1 9 8 [0; 2; 3].
Definition nv_acts : list action :=
  (* round 0: everybody PROPOSE-votes (7,8); only replica 1 sees the PRECOMMIT message and locks; everybody times out *)
  lv_each (fun i => AStep i lv_o) ++ lv_each (fun i => AStep i lv_o) ++ lv_each (fun i => AStep i lv_o) ++
  lv_each (fun i => ALeader i (lv_mP 0 7 8)) ++ lv_each (fun i => AStep i lv_o) ++ lv_each (fun i => AStep i lv_o) ++
  [ALeader 1 (lv_mPC 0 nv_qa)] ++ lv_each (fun i => AStep i lv_o) ++
  [AStep 1 lv_o; AStep 1 lv_o] ++ lv_each (fun i => AStep i lv_o) ++
  (* round 1: replicas 0 and 2 PROPOSE-vote (9,8); only replica 2 sees the PRECOMMIT message and locks; everybody times out *)
  lv_each (fun i => AStep i lv_o) ++ lv_each (fun i => AStep i lv_o) ++ lv_each (fun i => AStep i lv_o) ++
  [ALeader 0 (lv_mP 1 9 8); ALeader 2 (lv_mP 1 9 8)] ++ lv_each (fun i => AStep i lv_o) ++
  [AStep 0 lv_o; AStep 2 lv_o; ALeader 2 (lv_mPC 1 nv_qb); AStep 0 lv_o; AStep 2 lv_o] ++
  [AStep 2 lv_o; AStep 2 lv_o] ++ lv_each (fun i => AStep i lv_o).
(* non-vacuity: three correct replicas of four, two of them locked on different values at different rounds (an admissible
   prefix produces that), then a synchronous round under replica 0: all three commit the higher lock's value *)
Example sync_round_nonvacuous :
  let powers := [100; 100; 100; 100] in
  let correct := [(0, 5); (1, 5); (2, 5)] in
  exists acts root round, run_ok powers 0 (init_net correct) acts /\
    aligned (run powers 0 (init_net correct) acts) [0; 1; 2] root round /\
    (exists r1 l1 r2 l2, get_rep (run powers 0 (init_net correct) acts) 1 = Some r1 /\ r_lock r1 = Some l1 /\
                         get_rep (run powers 0 (init_net correct) acts) 2 = Some r2 /\ r_lock r2 = Some l2 /\ q_block l1 <> q_block l2) /\
    length (commits (sync_round powers 0 [0; 1; 2] 0 (21, 22) (run powers 0 (init_net correct) acts))) = 3%nat.
Proof.
  cbv zeta. exists nv_acts, 5, 2.
  split; [apply run_okb_sound; vm_compute; reflexivity|].
  split; [apply aligned_check; vm_compute; reflexivity|].
  split.
  - eexists. exists nv_qa. eexists. exists nv_qb.
    split; [vm_compute; reflexivity|]. split; [vm_compute; reflexivity|]. split; [vm_compute; reflexivity|].
    split; [vm_compute; reflexivity|]. vm_compute. intros H. discriminate H.
  - vm_compute. reflexivity.
Qed.

(* ---- the lock hypothesis of the two theorems above, from a more primitive one: correct replicas never vote for the nil block or
   nil results (in the implementation ValidateProposal rejects a proposal without a block; in the model validation is the
   oracle o_valid) *)
Definition votes_nonzero (n : net) : Prop := forall hv, In hv (n_votes n) -> hv_block hv <> 0 /\ hv_results hv <> 0.

(* a genuine full PROPOSE certificate has a correct signer, whose vote is in the history *)
Lemma cert_nonzero P lru ids n q : ptotal P < two64 -> 3 * byz_power P ids < ptotal P -> Inv P lru ids n ->
  votes_nonzero n -> goodqc P lru n q 4 -> q_block q <> 0 /\ q_results q <> 0.
Proof.
  intros Hw Hb HI Hnz Hq.
  destruct (quorum2 P lru ids Hw Hb n (memb (q_signers q)) (memb (q_signers q)) HI) as [k [rk [Hk [Hm _]]]];
    try (apply full_power; apply Hq).
  pose proof (goodqc_vote P lru n q 4 k rk (or_introl eq_refl) Hq Hm Hk) as Hv.
  apply VIn_raw in Hv. destruct Hv as [pr Hv]. exact (Hnz _ Hv).
Qed.

Lemma locks_nonzero_of_votes P lru ids n : ptotal P < two64 -> 3 * byz_power P ids < ptotal P -> Inv P lru ids n ->
  (forall hv, In hv (n_votes n) -> hv_block hv <> 0 /\ hv_results hv <> 0) ->
  forall i r l, In i ids -> get_rep n i = Some r -> r_lock r = Some l -> q_block l <> 0 /\ q_results l <> 0.
Proof.
  intros Hw Hb HI Hnz i r l _ Hr Hl. apply (cert_nonzero P lru ids n l Hw Hb HI Hnz).
  exact (I_lock P lru ids n HI i r l Hr Hl).
Qed.

Theorem sync_round_commits_votes powers lru (correct : list (N * N)) acts leader fresh root round :
  NoDup (map fst correct) ->
  Forall (fun e => fst e < N.of_nat (length powers)) correct ->
  total powers < two64 ->
  3 * byz_power powers (map fst correct) < total powers ->
  Forall (fun e => lru <= snd e) correct ->                              (* LastRootHeightUpdated is not ahead of any replica's root height *)
  run_ok powers lru (init_net correct) acts ->
  let n := run powers lru (init_net correct) acts in
  let ids := map fst correct in
  aligned n ids root round -> In leader ids -> fst fresh <> 0 -> snd fresh <> 0 ->
  maj23 (mkConf leader powers lru) <= set_power (mkConf leader powers lru) ids ->
  (forall hv, In hv (n_votes n) -> hv_block hv <> 0 /\ hv_results hv <> 0) ->
  exists v, forall i, In i ids -> In (i, v) (commits (sync_round powers lru ids leader fresh n)).
Proof.
  intros Hnd HF Hw Hb Hlru Hok n ids Hal Hlead Hf1 Hf2 Hq Hnz.
  apply (sync_round_commits powers lru correct acts leader fresh root round Hnd HF Hw Hb Hlru Hok Hal Hlead Hf1 Hf2 Hq).
  apply (locks_nonzero_of_votes powers lru ids n Hw Hb); [|exact Hnz].
  apply run_Inv; auto. apply init_Inv.
Qed.

Theorem sync_round_commits_highest_lock_votes powers lru (correct : list (N * N)) acts leader fresh root round i r l :
  NoDup (map fst correct) ->
  Forall (fun e => fst e < N.of_nat (length powers)) correct ->
  total powers < two64 ->
  3 * byz_power powers (map fst correct) < total powers ->
  Forall (fun e => lru <= snd e) correct ->
  run_ok powers lru (init_net correct) acts ->
  let n := run powers lru (init_net correct) acts in
  let ids := map fst correct in
  aligned n ids root round -> In leader ids -> fst fresh <> 0 -> snd fresh <> 0 ->
  maj23 (mkConf leader powers lru) <= set_power (mkConf leader powers lru) ids ->
  In i ids -> get_rep n i = Some r -> r_lock r = Some l ->
  (forall j rj lj, In j ids -> get_rep n j = Some rj -> r_lock rj = Some lj -> view_less (q_view l) (q_view lj) = false) ->
  (forall hv, In hv (n_votes n) -> hv_block hv <> 0 /\ hv_results hv <> 0) ->
  forall k, In k ids -> In (k, (q_block l, q_results l)) (commits (sync_round powers lru ids leader fresh n)).
Proof.
  intros Hnd HF Hw Hb Hlru Hok n ids Hal Hlead Hf1 Hf2 Hq Hi Hr Hl Hmaxl Hnz.
  assert (HI : Inv powers lru ids n) by (apply run_Inv; auto; apply init_Inv).
  destruct (locks_nonzero_of_votes powers lru ids n Hw Hb HI Hnz i r l Hi Hr Hl) as [N1 N2].
  exact (sync_round_commits_highest_lock powers lru correct acts leader fresh root round i r l
           Hnd HF Hw Hb Hlru Hok Hal Hlead Hf1 Hf2 Hq Hi Hr Hl Hmaxl N1 N2).
Qed.

(* ---- "no vote for a nil block" is an invariant of the executions in which block validation does its job: whenever a replica
   is about to PROPOSE-vote with o_valid = true, the stored proposal names a non-nil block and non-nil results.  PRECOMMIT votes
   need no condition: they repeat the value of a genuine full PROPOSE certificate, one of whose correct signers already voted. *)
Definition valid_sane (n : net) (a : action) : Prop :=
  match a with
  | AStep i o => match get_rep n i with
                 | Some r => o_valid o = true -> r_commit r = None -> r_phase r = Phase_PROPOSE_VOTE ->
                             forall m, get_prop r (r_round r) Phase_PROPOSE = Some m ->
                             q_block (m_qc m) <> 0 /\ q_results (m_qc m) <> 0
                 | None => True
                 end
  | _ => True
  end.
Fixpoint run_valid_sane (powers : list N) (lru : N) (n : net) (acts : list action) : Prop :=
  match acts with [] => True | a :: r => valid_sane n a /\ run_valid_sane powers lru (net_step powers lru n a) r end.

(* where the votes of one step come from *)
Lemma step_votes_src c i r o r' outs : step c r o = (r', outs) ->
  votes_of i outs = [] \/
  (r_commit r = None /\ r_phase r = Phase_PROPOSE_VOTE /\ o_valid o = true /\
   exists m pr, get_prop r (r_round r) Phase_PROPOSE = Some m /\
     votes_of i outs = [mkHV i (mkView (r_root r) (r_round r) Phase_PROPOSE_VOTE) (q_block (m_qc m)) (q_results (m_qc m)) pr]) \/
  (exists m pr, In (r_round r, 5, m) (r_props r) /\
     votes_of i outs = [mkHV i (mkView (r_root r) (r_round r) Phase_PRECOMMIT_VOTE) (q_block (m_qc m)) (q_results (m_qc m)) pr]).
Proof.
  unfold step. intros H.
  destruct (r_commit r) eqn:Ec. { injection H as <- <-. now left. }
  cbv zeta in H. unfold interrupt, next in H.
  destruct (r_phase r =? Phase_ELECTION). { injection H as <- <-. now left. }
  destruct (r_phase r =? Phase_ELECTION_VOTE). { injection H as <- <-. now left. }
  destruct (r_phase r =? Phase_PROPOSE). { destruct (o_maj o); injection H as <- <-; now left. }
  destruct (N.eqb_spec (r_phase r) Phase_PROPOSE_VOTE) as [Hp|_].
  { destruct (get_prop r (r_round r) Phase_PROPOSE) as [m|] eqn:Eg; [|injection H as <- <-; now left].
    destruct (match r_lock r with Some l => negb (safe_node l m) | None => false end); [injection H as <- <-; now left|].
    destruct (m_rcbuild m <? c_lru c); [injection H as <- <-; now left|].
    destruct (o_valid o) eqn:Ev; [|injection H as <- <-; now left]. cbn [negb] in H.
    injection H as <- <-. right. left. repeat split; auto. exists m, (m_from m). split; [reflexivity|].
    simpl votes_of. rewrite block_hash_fresh. reflexivity. }
  destruct (r_phase r =? Phase_PRECOMMIT). { destruct (_ && negb (o_maj o)); injection H as <- <-; now left. }
  destruct (r_phase r =? Phase_PRECOMMIT_VOTE).
  { destruct (get_prop r (r_round r) Phase_PRECOMMIT) as [m|] eqn:Eg; [|injection H as <- <-; now left].
    destruct (negb (check_pp r m)) eqn:Ecp; [injection H as <- <-; now left|].
    apply negb_false_iff in Ecp. unfold check_pp in Ecp.
    apply andb_true_iff in Ecp. destruct Ecp as [Ecp E3]. apply andb_true_iff in Ecp. destruct Ecp as [_ E2].
    apply N.eqb_eq in E2, E3.
    injection H as <- <-. right. right. apply get_prop_spec in Eg. destruct Eg as [Hin _].
    exists m. eexists. split; [exact Hin|]. simpl votes_of.
    match goal with |- context [block_hash ?x] => replace (block_hash x) with (block_hash (touch r)) by reflexivity end.
    rewrite block_hash_touch, E2. simpl. rewrite E3. reflexivity. }
  destruct (r_phase r =? Phase_COMMIT). { destruct (_ && negb (o_maj o)); injection H as <- <-; now left. }
  destruct (r_phase r =? Phase_COMMIT_PROCESS).
  { destruct (get_prop r (r_round r) Phase_COMMIT) as [m|]; [|injection H as <- <-; now left].
    destruct (negb (check_pp r m)); [injection H as <- <-; now left|].
    match type of H with (if ?b then _ else _) = _ => destruct b end; injection H as <- <-; now left. }
  destruct (r_phase r =? Phase_PACEMAKER); injection H as <- <-; now left.
Qed.

Lemma votes_nonzero_preserved P lru ids n a : ptotal P < two64 -> 3 * byz_power P ids < ptotal P -> Inv P lru ids n ->
  votes_nonzero n -> valid_sane n a -> votes_nonzero (net_step P lru n a).
Proof.
  intros Hw Hb HI Hnz Hs.
  destruct a as [i o|i m|i v|i root]; simpl; destruct (get_rep n i) as [r|] eqn:Er; auto.
  simpl in Hs. rewrite Er in Hs.
  destruct (step (conf_of P lru i) r o) as [r' outs] eqn:Es.
  intros hv Hin. simpl in Hin. apply in_app_iff in Hin. destruct Hin as [Hin|Hin]; [|now apply Hnz].
  destruct (step_votes_src _ i _ _ _ _ Es) as [E|[[Hc [Hp [Hv [m [pr [Hg E]]]]]]|[m [pr [Hm E]]]]]; rewrite E in Hin.
  - contradiction.
  - destruct Hin as [<-|[]]. simpl. exact (Hs Hv Hc Hp m Hg).
  - destruct Hin as [<-|[]]. simpl.
    destruct (I_props P lru ids n HI i r _ _ m Er Hm) as [H1 [H2 [H3 [H4 _]]]].
    apply (cert_nonzero P lru ids n (m_qc m) Hw Hb HI Hnz). repeat split; auto. lia.
Qed.

Lemma votes_nonzero_run P lru ids acts : ptotal P < two64 -> 3 * byz_power P ids < ptotal P ->
  forall n, Inv P lru ids n -> votes_nonzero n -> run_ok P lru n acts -> run_valid_sane P lru n acts ->
  votes_nonzero (run P lru n acts).
Proof.
  intros Hw Hb. induction acts as [|a acts IH]; intros n HI Hnz Hok Hs; simpl; [exact Hnz|].
  destruct Hok as [Ha Hok]. destruct Hs as [Hsa Hs]. apply IH; auto.
  - destruct (net_step_cases P lru n a Ha) as [->|[i [r [r' [nv [Hi [-> Ht]]]]]]]; [exact HI|].
    eapply Inv_step; eauto.
  - eapply votes_nonzero_preserved; eauto.
Qed.

(* hence: from the initial network, executions whose PROPOSE votes are cast on validated non-nil proposals keep every vote,
   and therefore every lock, non-nil *)
Corollary votes_nonzero_reachable powers lru (correct : list (N * N)) acts :
  total powers < two64 -> 3 * byz_power powers (map fst correct) < total powers ->
  run_ok powers lru (init_net correct) acts -> run_valid_sane powers lru (init_net correct) acts ->
  forall hv, In hv (n_votes (run powers lru (init_net correct) acts)) -> hv_block hv <> 0 /\ hv_results hv <> 0.
Proof.
  intros Hw Hb Hok Hs.
  apply (votes_nonzero_run powers lru (map fst correct) acts Hw Hb (init_net correct)); auto.
  - apply init_Inv.
  - intros hv [].
Qed.

Print Assumptions sync_round_commits.
Print Assumptions sync_round_commits_highest_lock.
Print Assumptions sync_round_commits_votes.
Print Assumptions sync_round_commits_highest_lock_votes.
Print Assumptions votes_nonzero_reachable.
