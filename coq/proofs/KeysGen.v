(* KeysGen.v — the store key constructors of fsm/key.go, TRANSLATED from the source on every run (gen/ExtractedKeys.v: each Go
   function body, node by node: JoinLenPrefix -> join, append -> ++, formatUint64 -> be64), are exactly the key schema
   [Keys.encode_key] the theorems of C19 are about.  A change of any constructor (segment order, a missing length prefix, another
   family prefix, a raw append) regenerates another definition and one of these lemmas stops checking. *)
From Coq Require Import NArith Arith List Bool Lia.
From V Require Import U64 Bytes Extracted Keys KeysProofs ExtractedKeys.
Import ListNotations.
Local Open Scope N_scope.

Ltac keygen := intros; cbv [KeyForAccount KeyForPool KeyForValidator KeyForCommittee KeyForUnstaking KeyForPaused KeyForParams
  KeyForNonSigner KeyForDelegate KeyForOrder KeyForRetiredCommittee KeyForLockedBatch KeyForNextBatch
  AccountPrefix PoolPrefix SupplyPrefix ValidatorPrefix NonSignerPrefix UnstakingPrefix PausedPrefix LastProposersPrefix
  CommitteePrefix DelegatePrefix CommitteesDataPrefix RetiredCommitteesPrefix OrderBookPrefix
  encode_key segs_of pfx]; rewrite <- ?join_app; reflexivity.

Lemma src_KeyForAccount a : KeyForAccount a = encode_key (KAccount a).            Proof. keygen. Qed.
Lemma src_KeyForPool n : KeyForPool n = encode_key (KPool n).                      Proof. keygen. Qed.
Lemma src_KeyForValidator a : KeyForValidator a = encode_key (KValidator a).      Proof. keygen. Qed.
Lemma src_KeyForCommittee c a s : KeyForCommittee c a s = encode_key (KCommittee c s a).  Proof. keygen. Qed.
Lemma src_KeyForUnstaking h a : KeyForUnstaking h a = encode_key (KUnstaking h a). Proof. keygen. Qed.
Lemma src_KeyForPaused h a : KeyForPaused h a = encode_key (KPaused h a).          Proof. keygen. Qed.
Lemma src_KeyForParams s : KeyForParams s = encode_key (KParams s).                Proof. keygen. Qed.
Lemma src_KeyForNonSigner a : KeyForNonSigner a = encode_key (KNonSigner a).       Proof. keygen. Qed.
Lemma src_LastProposersPrefix : LastProposersPrefix = encode_key KLastProposers.   Proof. keygen. Qed.
Lemma src_SupplyPrefix : SupplyPrefix = encode_key KSupply.                        Proof. keygen. Qed.
Lemma src_KeyForDelegate c a s : KeyForDelegate c a s = encode_key (KDelegate c s a).  Proof. keygen. Qed.
Lemma src_CommitteesDataPrefix : CommitteesDataPrefix = encode_key KCommitteesData. Proof. keygen. Qed.
Lemma src_KeyForOrder c o : KeyForOrder c o = encode_key (KOrder c o).             Proof. keygen. Qed.
Lemma src_KeyForRetiredCommittee c : KeyForRetiredCommittee c = encode_key (KRetired c). Proof. keygen. Qed.
Lemma src_KeyForLockedBatch c : KeyForLockedBatch c = encode_key (KLockedBatch c). Proof. keygen. Qed.
Lemma src_KeyForNextBatch c : KeyForNextBatch c = encode_key (KNextBatch c).       Proof. keygen. Qed.

(* every source constructor, as one function of the schema's abstract key *)
Definition src_key (k : skey) : bytes :=
  match k with
  | KAccount a => KeyForAccount a | KPool n => KeyForPool n | KValidator a => KeyForValidator a
  | KCommittee c s a => KeyForCommittee c a s | KUnstaking h a => KeyForUnstaking h a | KPaused h a => KeyForPaused h a
  | KParams s => KeyForParams s | KNonSigner a => KeyForNonSigner a | KLastProposers => LastProposersPrefix
  | KSupply => SupplyPrefix | KDelegate c s a => KeyForDelegate c a s | KCommitteesData => CommitteesDataPrefix
  | KOrder c o => KeyForOrder c o | KRetired c => KeyForRetiredCommittee c
  | KLockedBatch c => KeyForLockedBatch c | KNextBatch c => KeyForNextBatch c
  end.

Theorem src_key_is_schema k : src_key k = encode_key k.
Proof.
  destruct k; cbn [src_key];
  first [apply src_KeyForAccount | apply src_KeyForPool | apply src_KeyForValidator | apply src_KeyForCommittee
        | apply src_KeyForUnstaking | apply src_KeyForPaused | apply src_KeyForParams | apply src_KeyForNonSigner
        | apply src_LastProposersPrefix | apply src_SupplyPrefix | apply src_KeyForDelegate | apply src_CommitteesDataPrefix
        | apply src_KeyForOrder | apply src_KeyForRetiredCommittee | apply src_KeyForLockedBatch | apply src_KeyForNextBatch].
Qed.

Theorem src_keys_injective k1 k2 : skey_wf k1 -> skey_wf k2 -> src_key k1 = src_key k2 -> k1 = k2.
Proof. rewrite !src_key_is_schema. apply schema_injective. Qed.

Theorem src_keys_prefix_free k1 k2 : skey_wf k1 -> skey_wf k2 -> is_prefix (src_key k1) (src_key k2) -> k1 = k2.
Proof. rewrite !src_key_is_schema. apply schema_prefix_free. Qed.

(* the iteration prefixes of the source: a family prefix selects exactly the keys of its family and component *)
Lemma is_prefix_app (p s : bytes) : is_prefix p (p ++ s).
Proof. exists s. reflexivity. Qed.

Theorem src_committee_prefix c a s : is_prefix (CommitteePrefix c) (KeyForCommittee c a s).
Proof. cbv [KeyForCommittee]. apply is_prefix_app. Qed.
Theorem src_delegate_prefix c a s : is_prefix (DelegatePrefix c) (KeyForDelegate c a s).
Proof. cbv [KeyForDelegate]. apply is_prefix_app. Qed.
Theorem src_unstaking_prefix h a : is_prefix (UnstakingPrefix h) (KeyForUnstaking h a).
Proof. cbv [KeyForUnstaking]. apply is_prefix_app. Qed.
Theorem src_paused_prefix h a : is_prefix (PausedPrefix h) (KeyForPaused h a).
Proof. cbv [KeyForPaused]. apply is_prefix_app. Qed.
Theorem src_order_prefix c o : is_prefix (OrderBookPrefix c) (KeyForOrder c o).
Proof. cbv [KeyForOrder]. apply is_prefix_app. Qed.

Lemma cons2_inv (A : Type) (a b a' b' : A) r r' : a :: b :: r = a' :: b' :: r' -> b = b'.
Proof. intros H; inversion H; reflexivity. Qed.
(* a committee prefix of one chain selects no key of another chain or of another family *)
Theorem src_committee_prefix_exact c k : u64 c -> skey_wf k -> is_prefix (CommitteePrefix c) (src_key k) ->
  exists s a, k = KCommittee c s a.
Proof.
  intros Hc Hk. rewrite src_key_is_schema. cbv [CommitteePrefix encode_key]. intros Hp.
  apply join_prefix in Hp; [|repeat constructor; try apply short_be64; vm_compute; lia | now apply segs_short].
  destruct Hp as [rest Hrest].
  destruct k; cbn [segs_of pfx] in Hrest; try (vm_compute in Hrest; discriminate Hrest);
    try (injection Hrest as Hp _; vm_compute in Hp; discriminate Hp).
  cbn [app] in Hrest. apply cons2_inv in Hrest. rename Hrest into Hb. destruct Hk as (Hc' & _ & _).
  apply be64_injective in Hb; [|assumption..]. subst. eauto.
Qed.

(* the message check of the only attacker-chosen variable-length component is the model's [order_id_ok] *)
Theorem src_checkOrderId id : checkOrderId (N.of_nat (length id)) = order_id_ok id.
Proof.
  unfold checkOrderId, order_id_ok. destruct (N.ltb_spec 255 (N.of_nat (length id))); destruct (Nat.leb_spec (length id) 255); try reflexivity; lia.
Qed.
