(* KeysProofs.v — lemmas for property C19 (store keys) over lib/Bytes.v and model/Keys.v *)
From Coq Require Import NArith List Bool Lia ZArith ZifyN ZifyNat ZifyBool.
From V Require Import U64 Bytes Extracted Keys.
Import ListNotations.
Local Open Scope N_scope.

(* ---------------------------------------------------------------- Bytes *)
Lemma bytes_eqb_eq a b : bytes_eqb a b = true <-> a = b.
Proof.
  revert b. induction a as [|x a IH]; intros [|y b]; cbn [bytes_eqb]; split; intros H;
    try reflexivity; try discriminate H.
  - apply andb_true_iff in H. destruct H as [H1 H2]. apply N.eqb_eq in H1. apply IH in H2. now subst.
  - injection H as -> ->. apply andb_true_iff. split; [apply N.eqb_refl | now apply IH].
Qed.
Lemma prefixb_spec p k : prefixb p k = true <-> is_prefix p k.
Proof.
  unfold is_prefix. revert k. induction p as [|x p IH]; intros k; cbn [prefixb].
  - split; [intros _; now exists k | reflexivity].
  - destruct k as [|y k].
    + split; [discriminate | intros [s Hs]; discriminate Hs].
    + split.
      * intros H. apply andb_true_iff in H. destruct H as [H1 H2]. apply N.eqb_eq in H1.
        apply IH in H2. destruct H2 as [s ->]. subst. now exists s.
      * intros [s Hs]. cbn [app] in Hs. injection Hs as -> ->. apply andb_true_iff.
        split; [apply N.eqb_refl | apply IH; now exists s].
Qed.
Lemma lex_lt_irrefl a : lex_lt a a = false.
Proof.
  induction a as [|x a IH]; cbn [lex_lt]; [reflexivity|]. rewrite IH. lia.
Qed.
Lemma lex_lt_trans a b c : lex_lt a b = true -> lex_lt b c = true -> lex_lt a c = true.
Proof.
  revert b c. induction a as [|x a IH]; intros [|y b] [|z c]; cbn [lex_lt]; intros H1 H2;
    try reflexivity; try discriminate H1; try discriminate H2.
  specialize (IH b c).
  destruct (lex_lt a b), (lex_lt b c), (lex_lt a c); lia.
Qed.
Lemma lex_lt_total a b : lex_lt a b = true \/ a = b \/ lex_lt b a = true.
Proof.
  revert b. induction a as [|x a IH]; intros [|y b]; cbn [lex_lt]; auto.
  destruct (IH b) as [H | [H | H]].
  - rewrite H. destruct (N.lt_trichotomy x y) as [Hc | [Hc | Hc]].
    + left. lia.
    + left. lia.
    + right. right. lia.
  - subst b. destruct (N.lt_trichotomy x y) as [Hc | [Hc | Hc]].
    + left. lia.
    + right. left. now subst.
    + right. right. lia.
  - rewrite H. destruct (N.lt_trichotomy x y) as [Hc | [Hc | Hc]].
    + left. lia.
    + right. right. lia.
    + right. right. lia.
Qed.
Lemma lex_lt_asym a b : lex_lt a b = true -> lex_lt b a = false.
Proof.
  intros H. destruct (lex_lt b a) eqn:E; [|reflexivity].
  pose proof (lex_lt_trans _ _ _ H E) as T. rewrite lex_lt_irrefl in T. discriminate T.
Qed.

Lemma lex_lt_app_common p a b : lex_lt (p ++ a) (p ++ b) = lex_lt a b.
Proof.
  induction p as [|x p IH]; cbn [app lex_lt]; [reflexivity|]. rewrite IH, N.ltb_irrefl, N.eqb_refl. reflexivity.
Qed.

(* big-endian value of a digit list *)
Fixpoint be_val (l : bytes) : N :=
  match l with
  | [] => 0
  | x :: l' => x * 256 ^ N.of_nat (length l') + be_val l'
  end.

Lemma pow256_succ n : 256 ^ N.of_nat (S n) = 256 * 256 ^ N.of_nat n.
Proof. rewrite Nat2N.inj_succ. rewrite N.pow_succ_r by lia. reflexivity. Qed.

Lemma pow256_pos n : 0 < 256 ^ N.of_nat n.
Proof.
  assert (H : 256 ^ N.of_nat n <> 0) by (apply N.pow_nonzero; discriminate). lia.
Qed.

Lemma fold_be_val l acc :
  fold_left (fun a x => a * 256 + x) l acc = acc * 256 ^ N.of_nat (length l) + be_val l.
Proof.
  revert acc. induction l as [|x l IH]; intros acc.
  - cbn [fold_left length be_val]. change (N.of_nat 0) with 0. rewrite N.pow_0_r. lia.
  - cbn [fold_left be_val]. rewrite IH. change (length (x :: l)) with (S (length l)).
    rewrite pow256_succ. set (P := 256 ^ N.of_nat (length l)). lia.
Qed.

Lemma be64_decode_val l : be64_decode l = be_val l.
Proof. unfold be64_decode. rewrite fold_be_val. lia. Qed.

Lemma be_val_bound l : wf_bytes l -> be_val l < 256 ^ N.of_nat (length l).
Proof.
  unfold wf_bytes. induction l as [|x l IH]; intros H.
  - cbn [be_val length]. change (N.of_nat 0) with 0. rewrite N.pow_0_r. lia.
  - inversion H as [|x' l' Hx Hl]; subst. specialize (IH Hl).
    cbn [be_val]. change (length (x :: l)) with (S (length l)). rewrite pow256_succ.
    set (P := 256 ^ N.of_nat (length l)) in *. nia.
Qed.

Lemma lex_lt_be_val a b : wf_bytes a -> wf_bytes b -> length a = length b ->
  lex_lt a b = (be_val a <? be_val b).
Proof.
  revert b. induction a as [|x a IH]; intros [|y b] Ha Hb Hl; try discriminate Hl.
  - reflexivity.
  - unfold wf_bytes in *. inversion Ha as [|x' a' Hx Ha']; subst. inversion Hb as [|y' b' Hy Hb']; subst.
    injection Hl as Hl. specialize (IH b Ha' Hb' Hl).
    pose proof (be_val_bound a Ha') as Ba. pose proof (be_val_bound b Hb') as Bb.
    cbn [lex_lt be_val]. rewrite IH. rewrite Hl in *.
    set (P := 256 ^ N.of_nat (length b)) in *.
    set (va := be_val a) in *. set (vb := be_val b) in *.
    destruct (N.lt_trichotomy x y) as [Hc | [Hc | Hc]].
    + assert (x * P + va < y * P + vb) by nia. lia.
    + subst y. lia.
    + assert (y * P + vb < x * P + va) by nia. lia.
Qed.

Lemma be64_length x : length (be64 x) = 8%nat.
Proof. reflexivity. Qed.
Lemma be64_wf x : wf_bytes (be64 x).
Proof.
  unfold wf_bytes, be64. repeat constructor; apply N.mod_lt; discriminate.
Qed.
Lemma div256_step x d : d <> 0 -> x / (d * 256) = x / d / 256.
Proof. intros H. rewrite N.div_div by (try assumption; discriminate). reflexivity. Qed.
Lemma be64_decode_encode x : x < 18446744073709551616 -> be64_decode (be64 x) = x.
Proof.
  intros H. unfold be64_decode, be64. cbn [fold_left].
  set (q1 := x / 256).
  assert (E2 : x / 65536 = q1 / 256) by (apply (div256_step x 256); discriminate).
  set (q2 := q1 / 256) in *.
  assert (E3 : x / 16777216 = q2 / 256) by (rewrite <- E2; apply (div256_step x 65536); discriminate).
  set (q3 := q2 / 256) in *.
  assert (E4 : x / 4294967296 = q3 / 256) by (rewrite <- E3; apply (div256_step x 16777216); discriminate).
  set (q4 := q3 / 256) in *.
  assert (E5 : x / 1099511627776 = q4 / 256) by (rewrite <- E4; apply (div256_step x 4294967296); discriminate).
  set (q5 := q4 / 256) in *.
  assert (E6 : x / 281474976710656 = q5 / 256) by (rewrite <- E5; apply (div256_step x 1099511627776); discriminate).
  set (q6 := q5 / 256) in *.
  assert (E7 : x / 72057594037927936 = q6 / 256) by (rewrite <- E6; apply (div256_step x 281474976710656); discriminate).
  set (q7 := q6 / 256) in *.
  rewrite E2, E3, E4, E5, E6, E7. clear E2 E3 E4 E5 E6 E7.
  assert (D1 : x = 256 * q1 + x mod 256) by apply N.div_mod'.
  assert (D2 : q1 = 256 * q2 + q1 mod 256) by apply N.div_mod'.
  assert (D3 : q2 = 256 * q3 + q2 mod 256) by apply N.div_mod'.
  assert (D4 : q3 = 256 * q4 + q3 mod 256) by apply N.div_mod'.
  assert (D5 : q4 = 256 * q5 + q4 mod 256) by apply N.div_mod'.
  assert (D6 : q5 = 256 * q6 + q5 mod 256) by apply N.div_mod'.
  assert (D7 : q6 = 256 * q7 + q6 mod 256) by apply N.div_mod'.
  clearbody q1 q2 q3 q4 q5 q6 q7.
  lia.
Qed.
Lemma be64_injective x y : x < 18446744073709551616 -> y < 18446744073709551616 -> be64 x = be64 y -> x = y.
Proof.
  intros Hx Hy E. rewrite <- (be64_decode_encode x Hx), <- (be64_decode_encode y Hy). now rewrite E.
Qed.
(* big-endian encoding preserves order: lexicographic order of the encodings = numeric order *)
Lemma be64_order x y : x < 18446744073709551616 -> y < 18446744073709551616 ->
  lex_lt (be64 x) (be64 y) = (x <? y).
Proof.
  intros Hx Hy. rewrite lex_lt_be_val by (try apply be64_wf; reflexivity).
  rewrite <- !be64_decode_val. now rewrite !be64_decode_encode.
Qed.

(* ---------------------------------------------------------------- JoinLenPrefix / DecodeLengthPrefixed *)
Lemma lenbyte_short s : short s -> lenbyte s = N.of_nat (length s).
Proof.
  unfold short, lenbyte. intros H. apply N.mod_small. lia.
Qed.

Lemma join_cons s l : join (s :: l) = lenbyte s :: s ++ join l.
Proof. reflexivity. Qed.

Lemma join_app a c : join (a ++ c) = join a ++ join c.
Proof. unfold join. now rewrite map_app, concat_app. Qed.

Lemma firstn_app_exact (A : Type) (a b : list A) : firstn (length a) (a ++ b) = a.
Proof. induction a as [|x a IH]; cbn [length firstn app]; [now destruct b | now rewrite IH]. Qed.
Lemma skipn_app_exact (A : Type) (a b : list A) : skipn (length a) (a ++ b) = b.
Proof. induction a as [|x a IH]; cbn [length skipn app]; [reflexivity | exact IH]. Qed.

Lemma decode_fuel_join l : Forall short l -> forall fuel, (length (join l) <= fuel)%nat ->
  decode_fuel fuel (join l) = Some l.
Proof.
  induction l as [|s l IH]; intros Hs fuel Hf.
  - destruct fuel; reflexivity.
  - inversion Hs as [|s' l' Hss Hsl]; subst. rewrite join_cons in *.
    destruct fuel as [|f]; [cbn [length] in Hf; lia|].
    cbn [decode_fuel]. rewrite (lenbyte_short s Hss), Nat2N.id.
    cbn [length] in Hf. rewrite app_length in Hf.
    assert (Hle : Nat.leb (length s) (length (s ++ join l)) = true)
      by (apply Nat.leb_le; rewrite app_length; lia).
    rewrite Hle, skipn_app_exact, firstn_app_exact.
    rewrite (IH Hsl f) by lia. reflexivity.
Qed.

(* round trip: decoding what JoinLenPrefix produced returns the segments, provided every segment is < 256 bytes *)
Theorem decode_join l : Forall short l -> decode (join l) = Some l.
Proof. intros H. unfold decode. now apply decode_fuel_join. Qed.

Theorem join_injective a b : Forall short a -> Forall short b -> join a = join b -> a = b.
Proof.
  intros Ha Hb E. pose proof (decode_join a Ha) as Da. pose proof (decode_join b Hb) as Db.
  rewrite E in Da. rewrite Da in Db. now injection Db.
Qed.

Lemma app_eq_len (A : Type) (a b x y : list A) : length a = length b -> a ++ x = b ++ y -> a = b /\ x = y.
Proof.
  revert b. induction a as [|h a IH]; intros [|h' b] Hl E; try discriminate Hl.
  - now split.
  - cbn [app] in E. injection E as -> E. injection Hl as Hl. destruct (IH b Hl E) as [-> ->]. now split.
Qed.

(* a key lies under another key's byte prefix exactly when its segment list extends the other's *)
Theorem join_prefix a b : Forall short a -> Forall short b -> is_prefix (join a) (join b) -> exists c, b = a ++ c.
Proof.
  unfold is_prefix. revert b. induction a as [|s a IH]; intros b Ha Hb [t Ht].
  - now exists b.
  - inversion Ha as [|s0 a0 Hs Ha']; subst.
    destruct b as [|s' b].
    + rewrite join_cons in Ht. discriminate Ht.
    + inversion Hb as [|s0 b0 Hs' Hb']; subst.
      rewrite !join_cons in Ht. cbn [app] in Ht. injection Ht as Hl Ht.
      rewrite (lenbyte_short _ Hs), (lenbyte_short _ Hs') in Hl. apply Nat2N.inj in Hl.
      rewrite <- app_assoc in Ht.
      destruct (app_eq_len _ _ _ _ _ Hl Ht) as [-> Hj].
      destruct (IH b Ha' Hb' (ex_intro _ t Hj)) as [c ->]. now exists c.
Qed.
Theorem join_prefix_conv a c : is_prefix (join a) (join (a ++ c)).
Proof. exists (join c). apply join_app. Qed.

(* outside the precondition the length byte wraps: a 256-byte segment collides with two shorter ones *)
Theorem join_truncation_refuted : exists a b : list bytes, a <> b /\ join a = join b.
Proof.
  exists [255 :: repeat 0 255%nat], [[]; repeat 0 255%nat]. split.
  - intros H. discriminate H.
  - vm_compute. reflexivity.
Qed.
(* ... and the result no longer decodes as segments (DecodeLengthPrefixed panics): witness a 300-byte segment *)
Theorem join_truncation_decode_refuted : exists s : bytes, decode (join [[13]; s]) = None.
Proof.
  exists (repeat 200 300%nat). vm_compute. reflexivity.
Qed.

Lemma lex_lt_repeat_bound s n : wf_bytes s -> (length s < n)%nat -> lex_lt s (repeat 255 n) = true.
Proof.
  unfold wf_bytes. revert n. induction s as [|x s IH]; intros n Hs Hn.
  - destruct n as [|n]; [lia | reflexivity].
  - destruct n as [|n]; [cbn [length] in Hn; lia|].
    inversion Hs as [|x' s' Hx Hs']; subst. cbn [length] in Hn.
    cbn [repeat lex_lt]. rewrite (IH n Hs') by lia. lia.
Qed.

Lemma lex_lt_app_nil_r p s : lex_lt (p ++ s) p = false.
Proof.
  induction p as [|x p IH]; cbn [app lex_lt]; [now destruct s|]. rewrite IH. lia.
Qed.

Lemma range_prefix_aux p r k : lex_le p k = true -> lex_lt k (p ++ r) = true -> is_prefix p k.
Proof.
  unfold lex_le, is_prefix. revert k. induction p as [|x p IH]; intros k H1 H2.
  - now exists k.
  - destruct k as [|y k]; [cbn [lex_lt] in H1; discriminate H1|].
    cbn [app lex_lt] in H1, H2.
    destruct (y <? x) eqn:Elt; [discriminate H1|].
    destruct (y =? x) eqn:Eeq; [|discriminate H2].
    apply N.eqb_eq in Eeq. subst y. cbn [orb andb] in H1, H2.
    destruct (IH k H1 H2) as [s ->]. now exists s.
Qed.

(* iterator bounds: [p, prefixEnd p) contains exactly the keys that have p as a byte prefix, for keys of bytes (< 256
   each) that are at most maxKeyBytes longer than the prefix *)
Theorem range_iff_prefix p k : wf_bytes p -> wf_bytes k -> (length k <= length p + 256)%nat ->
  (in_range p k = true <-> is_prefix p k).
Proof.
  intros Hp Hk Hl. unfold in_range, prefix_end. split.
  - intros H. apply andb_true_iff in H. destruct H as [H1 H2]. eapply range_prefix_aux; eassumption.
  - intros [s ->]. apply andb_true_iff. split.
    + unfold lex_le. now rewrite lex_lt_app_nil_r.
    + rewrite lex_lt_app_common. apply lex_lt_repeat_bound.
      * unfold wf_bytes in *. apply Forall_app in Hk. tauto.
      * rewrite app_length in Hl. change (N.to_nat maxKeyBytes) with 256%nat. lia.
Qed.

(* ---------------------------------------------------------------- the state key schema *)
Lemma short_be64 x : short (be64 x).
Proof. unfold short. rewrite be64_length. lia. Qed.

Lemma segs_short k : skey_wf k -> Forall short (segs_of k).
Proof.
  intros H. destruct k; cbn [segs_of pfx skey_wf] in *;
    repeat match goal with H : _ /\ _ |- _ => destruct H end;
    repeat (apply Forall_cons; [first [assumption | apply short_be64 | (unfold short; cbn; lia)] |]);
    apply Forall_nil.
Qed.

Ltac schema_unfold H :=
  cbv [segs_of pfx app accountPrefix poolPrefix validatorPrefix committeePrefix unstakePrefix pausedPrefix
       paramsPrefix nonSignerPrefix lastProposersPrefix supplyPrefix delegatePrefix committeesDataPrefix
       orderBookPrefix retiredCommitteePrefix dexPrefix lockedBatchSegment nextBatchSement] in H.

Ltac schema_be64 :=
  repeat match goal with
  | H : be64 ?x = be64 ?x |- _ => clear H
  | H : be64 ?x = be64 ?y |- _ => apply be64_injective in H; [subst | assumption | assumption]
  end.

Ltac schema_finish E :=
  first [ reflexivity
        | discriminate E
        | repeat match type of E with context [be64 ?x] =>
                   let v := fresh "v" in remember (be64 x) as v end;
          injection E; intros; subst; schema_be64; reflexivity ].

(* different keys never collide ... *)
Theorem schema_injective k1 k2 : skey_wf k1 -> skey_wf k2 -> encode_key k1 = encode_key k2 -> k1 = k2.
Proof.
  intros H1 H2 E. unfold encode_key in E.
  apply join_injective in E; [| now apply segs_short | now apply segs_short].
  destruct k1, k2; schema_unfold E; try discriminate E;
    cbn [skey_wf] in H1, H2; unfold u64 in *;
    repeat match goal with H : _ /\ _ |- _ => destruct H end;
    schema_finish E.
Qed.
(* ... and no stored key falls into the prefix range of another stored key *)
Theorem schema_prefix_free k1 k2 : skey_wf k1 -> skey_wf k2 -> is_prefix (encode_key k1) (encode_key k2) -> k1 = k2.
Proof.
  intros H1 H2 E. unfold encode_key in E.
  apply join_prefix in E; [| now apply segs_short | now apply segs_short].
  destruct E as [c E].
  destruct k1, k2; schema_unfold E; try discriminate E;
    cbn [skey_wf] in H1, H2; unfold u64 in *;
    repeat match goal with H : _ /\ _ |- _ => destruct H end;
    schema_finish E.
Qed.

Ltac split_idx n i H :=
  match n with
  | O => exfalso; destruct i; vm_compute in H; discriminate H
  | S ?m => destruct i as [|i]; [ | split_idx m i H ]
  end.

(* store partitions are pairwise non-overlapping: no partition prefix is a byte prefix of another *)
Theorem partitions_disjoint : forall i j p q, nth_error partitions i = Some p -> nth_error partitions j = Some q ->
  i <> j -> ~ is_prefix p q.
Proof.
  intros i j p q Hi Hj Hne Hp. apply prefixb_spec in Hp.
  split_idx 6%nat i Hi; split_idx 6%nat j Hj;
    try (now elim Hne);
    vm_compute in Hi, Hj; injection Hi as <-; injection Hj as <-; vm_compute in Hp; discriminate Hp.
Qed.

(* version suffix: for a fixed user key, newer versions sort first (inverted big-endian) *)
Theorem versioned_order k v1 v2 : v1 < 18446744073709551616 -> v2 < 18446744073709551616 ->
  lex_lt (versioned_key k v1) (versioned_key k v2) = (v2 <? v1).
Proof.
  intros H1 H2. unfold versioned_key. rewrite lex_lt_app_common.
  rewrite be64_order by (unfold inv64; lia). unfold inv64. lia.
Qed.

Print Assumptions schema_prefix_free.
Print Assumptions schema_injective.
Print Assumptions range_iff_prefix.
Print Assumptions decode_join.

(* ---------------------------------------------------------------- order ids accepted by the message checks *)
(* an order id the message checks accept gives a well-formed order key: with the schema theorems above, no accepted edit-order,
   delete-order or certificate-results instruction can address a key that collides with, or falls into the range of, another *)
Theorem accepted_order_id_wf chain id : u64 chain -> order_id_ok id = true -> skey_wf (KOrder chain id).
Proof. intros Hc Ho. split; [exact Hc|]. unfold short. unfold order_id_ok in Ho. apply Nat.leb_le in Ho. lia. Qed.
Theorem accepted_order_key_decodes chain id : u64 chain -> order_id_ok id = true ->
  decode (encode_key (KOrder chain id)) = Some (segs_of (KOrder chain id)).
Proof. intros Hc Ho. unfold encode_key. apply decode_join. apply segs_short. now apply accepted_order_id_wf. Qed.
(* and a refused one is exactly one whose key framing would wrap (the repaired panic) *)
Theorem refused_order_id_not_short id : order_id_ok id = false -> ~ short id.
Proof. unfold order_id_ok, short. intros H. apply Nat.leb_gt in H. lia. Qed.
