(* StoreRefine.v — the store state machine (StoreModel.run: write-set stack over the two versioned partitions with the real
   iterator algorithm) refines the simple versioned map (StoreModel.arun) on every well-formed program (property C10). *)
From Coq Require Import NArith List Bool Lia.
From V Require Import Bytes Keys VStore Txn StoreModel KeysProofs VStoreProofs TxnProofs StoreAux.
Import ListNotations.
Local Open Scope N_scope.

(* the key universe of a program: a prefix-free family of non-empty well-formed keys (what C19 proves of the state keys) *)
Definition keyfam_ok (K : list bytes) : Prop :=
  prefix_free K /\ Forall (fun k => wf_bytes k /\ k <> [] /\ (length k <= 248)%nat) K.

(* well-formed programs: keys from the family, well-formed prefixes, historical reads at committed versions only
   (the implementation refuses others), fewer than 2^64-2 commits.  [ver] and [depth] track the committed version and the
   nesting depth along the program exactly as exec does. *)
Fixpoint ops_ok (K : list bytes) (ver : N) (depth : nat) (ops : list sop) : Prop :=
  match ops with
  | [] => True
  | o :: r =>
    match o with
    | PSet k _ | PDel k | PGet k => In k K /\ ops_ok K ver depth r
    | PIter p _ => wf_bytes p /\ (length p <= 248)%nat /\ ops_ok K ver depth r
    | PNest => ops_ok K ver (S depth) r
    | PFlush | PDiscard => ops_ok K ver (match depth with S (S d) => S d | _ => depth end) r
    | PCommit => match depth with
                 | 1%nat => ver + 1 < maxver /\ ops_ok K (ver + 1) depth r
                 | _ => ops_ok K ver depth r
                 end
    | PReset => ops_ok K ver depth r
    | PGetAt v k => v <= ver /\ In k K /\ ops_ok K ver depth r
    | PIterAt v p _ => v <= ver /\ wf_bytes p /\ (length p <= 248)%nat /\ ops_ok K ver depth r
    | PRollback v => match depth with
                     | 1%nat => if (v =? 0) || (ver <? v) then ops_ok K ver depth r else ops_ok K v depth r
                     | _ => ops_ok K ver depth r
                     end
    end
  end.

(* ---------------------------------------------------------------- the simulation relation *)
Record R (K : list bytes) (st : sstate) (a : astate) : Prop := mkR {
  R_stack : s_stack st = a_stack a;
  R_wsok : Forall (ws_ok K) (s_stack st);
  R_len : length (a_hist a) = S (N.to_nat (s_ver st));
  R_ver : s_ver st < maxver;
  R_lss : lssok K (s_lss st);
  R_lget : forall k, In k K -> spec_get (s_lss st) maxver k = amap_get k (a_latest a);
  R_hss : dbok K (s_hss st);
  R_hver : Forall (fun e => e_ver e <= s_ver st) (s_hss st);
  R_hget : forall v k, v <= s_ver st -> In k K ->
           spec_get (s_hss st) v k = amap_get k (nth (N.to_nat v) (a_hist a) []);
  R_hist : Forall (amap_ok K) (a_hist a) }.

Lemma amap_ok_nil K : amap_ok K [].
Proof. split; constructor. Qed.

Lemma R_aver K st a : R K st a -> a_ver a = s_ver st.
Proof. intros H. unfold a_ver. rewrite (R_len _ _ _ H). lia. Qed.
Lemma R_latest K st a : R K st a -> a_latest a = nth (N.to_nat (s_ver st)) (a_hist a) [].
Proof. intros H. unfold a_latest. rewrite last_nth_len, (R_len _ _ _ H). f_equal. lia. Qed.
Lemma R_latest_ok K st a : R K st a -> amap_ok K (a_latest a).
Proof. intros H. rewrite (R_latest _ _ _ H). apply Forall_nth_d; [apply (R_hist _ _ _ H) | apply amap_ok_nil]. Qed.
Lemma R_nth_ok K st a n : R K st a -> amap_ok K (nth n (a_hist a) []).
Proof. intros H. apply Forall_nth_d; [apply (R_hist _ _ _ H) | apply amap_ok_nil]. Qed.

Lemma R_init K : R K s_init a_init.
Proof.
  constructor; cbn.
  - reflexivity.
  - repeat constructor.
  - reflexivity.
  - reflexivity.
  - split; [apply dbok_nil | constructor].
  - reflexivity.
  - apply dbok_nil.
  - constructor.
  - intros v k _ _. destruct (N.to_nat v) as [|[|n]]; reflexivity.
  - repeat constructor.
Qed.

Lemma R_set_stack K st a stk : R K st a -> Forall (ws_ok K) stk ->
  R K (mkS (s_lss st) (s_hss st) (s_ver st) stk) (mkA (a_hist a) stk).
Proof. intros H F. destruct H. constructor; cbn [s_stack s_lss s_hss s_ver a_hist a_stack]; auto. Qed.

(* ---- reads *)
Lemma R_get K st a k : keyfam K -> R K st a -> In k K ->
  stack_get (s_stack st) (vget (s_lss st) maxver) k = amap_get k (a_view a).
Proof.
  intros HK H Hk. rewrite (stack_get_ext _ _ (fun k => amap_get k (a_latest a))).
  - rewrite (stack_get_view K) by apply (R_wsok _ _ _ H). unfold a_view, aview. now rewrite <- (R_stack _ _ _ H).
  - rewrite (vget_K K); [now apply (R_lget _ _ _ H) | exact HK | apply (R_lss _ _ _ H) | exact Hk | exact maxver_u64].
Qed.

Lemma R_lss_iter K st a p rv : keyfam K -> R K st a -> wf_bytes p -> (length p <= 248)%nat ->
  viter (s_lss st) maxver p rv true = amap_iter p rv (a_latest a).
Proof.
  intros HK H Wp Lp. apply (viter_K K); try assumption.
  - apply (R_lss _ _ _ H).
  - now apply (R_latest_ok _ st).
  - exact maxver_u64.
  - apply (R_lget _ _ _ H).
Qed.

Lemma R_iter K st a p rv : keyfam K -> R K st a -> wf_bytes p -> (length p <= 248)%nat ->
  stack_iter (s_stack st) (viter (s_lss st) maxver p rv true) rv p = amap_iter p rv (a_view a).
Proof.
  intros HK H Wp Lp. rewrite (R_lss_iter K st a) by assumption.
  rewrite (stack_iter_view K); try assumption.
  - unfold a_view, aview. now rewrite <- (R_stack _ _ _ H).
  - apply (R_wsok _ _ _ H).
  - now apply (R_latest_ok _ st).
Qed.

Lemma ver_u64 v : v < maxver -> v < 18446744073709551616.
Proof. unfold maxver. lia. Qed.

Lemma R_getat K st a v k : keyfam K -> R K st a -> v <= s_ver st -> In k K ->
  (if v =? s_ver st then vget (s_lss st) maxver k else vget (s_hss st) v k) =
  amap_get k (nth (N.to_nat v) (a_hist a) []).
Proof.
  intros HK H Hv Hk. destruct (N.eqb_spec v (s_ver st)) as [->|Hne].
  - rewrite <- (R_latest _ _ _ H). rewrite (vget_K K); [now apply (R_lget _ _ _ H) | exact HK | apply (R_lss _ _ _ H) | exact Hk | exact maxver_u64].
  - rewrite (vget_K K); [now apply (R_hget _ _ _ H) | exact HK | apply (R_hss _ _ _ H) | exact Hk |].
    apply ver_u64. pose proof (R_ver _ _ _ H). lia.
Qed.

Lemma R_iterat K st a v p rv : keyfam K -> R K st a -> v <= s_ver st -> wf_bytes p -> (length p <= 248)%nat ->
  (if v =? s_ver st then viter (s_lss st) maxver p rv true else viter (s_hss st) v p rv true) =
  amap_iter p rv (nth (N.to_nat v) (a_hist a) []).
Proof.
  intros HK H Hv Wp Lp. destruct (N.eqb_spec v (s_ver st)) as [->|Hne].
  - rewrite <- (R_latest _ _ _ H). now apply (R_lss_iter K).
  - apply (viter_K K); try assumption.
    + apply (R_hss _ _ _ H).
    + now apply (R_nth_ok _ st).
    + apply ver_u64. pose proof (R_ver _ _ _ H). lia.
    + intros k Hk. now apply (R_hget _ _ _ H).
Qed.

(* ---- commit *)
Lemma commit_state_eq st ws : s_stack st = [ws] ->
  commit_state st = mkS (fold_left commit_lss_step ws (s_lss st))
                        (fold_left (commit_hss_step (s_ver st + 1)) ws (s_hss st)) (s_ver st + 1) [[]].
Proof. intros E. unfold commit_state. rewrite E. reflexivity. Qed.

Lemma R_commit K st a ws : R K st a -> s_stack st = [ws] -> s_ver st + 1 < maxver ->
  R K (commit_state st) (mkA (a_hist a ++ [amap_apply (a_latest a) ws]) [[]]).
Proof.
  intros H E Hnv. rewrite (commit_state_eq st ws E).
  pose proof (R_wsok _ _ _ H) as W. rewrite E in W. inversion W as [|x y [Sw Fw] _]; subst.
  destruct (commit_lss_fold K ws (s_lss st) (a_latest a) Fw (R_lss _ _ _ H) (R_lget _ _ _ H)) as [L1 L2].
  assert (H0 : forall k, In k K -> spec_get (s_hss st) (s_ver st + 1) k = amap_get k (a_latest a)).
  { intros k Hk. rewrite (R_latest _ _ _ H), <- (R_hget _ _ _ H) by (try assumption; lia).
    apply spec_get_ext; [apply (dbok_uniq K), (R_hss _ _ _ H)|]. intros x _.
    pose proof (R_hver _ _ _ H) as V. rewrite Forall_forall in V. split; intros [Hx Vx]; (split; [exact Hx|]);
      specialize (V x Hx); cbv beta in V; lia. }
  assert (V0 : Forall (fun e => e_ver e <= s_ver st + 1) (s_hss st)).
  { eapply Forall_impl; [|apply (R_hver _ _ _ H)]. cbv beta. intros; lia. }
  destruct (commit_hss_fold K (s_ver st + 1) ws (ver_u64 _ Hnv) (s_hss st) (a_latest a) Fw (R_hss _ _ _ H) V0 H0)
    as (A1 & A2 & A3 & A4).
  pose proof (R_len _ _ _ H) as Len.
  constructor; cbn [s_stack s_lss s_hss s_ver a_hist a_stack].
  - reflexivity.
  - repeat constructor.
  - rewrite app_length, Len. cbn [length]. lia.
  - exact Hnv.
  - exact L1.
  - intros k Hk. unfold a_latest at 1. cbn [a_hist]. rewrite last_last. now apply L2.
  - exact A1.
  - exact A2.
  - intros v k Hv Hk. destruct (N.eq_dec v (s_ver st + 1)) as [->|Hne].
    + replace (N.to_nat (s_ver st + 1)) with (length (a_hist a)) by lia. rewrite nth_middle. now apply A3.
    + rewrite A4 by lia. rewrite app_nth1 by lia. apply (R_hget _ _ _ H); [lia | exact Hk].
  - apply Forall_app. split; [apply (R_hist _ _ _ H)|]. constructor; [|constructor].
    apply amap_apply_ok; [exact Fw | now apply (R_latest_ok _ st)].
Qed.

(* ---- rollback *)
Lemma rollback_state_eq t st :
  rollback_state t st =
  mkS (fold_left (fun db k => lss_patch k (spec_get (filter (fun e => e_ver e <=? t) (s_hss st)) t k) db)
                 (map e_key (filter (fun e => negb (e_ver e <=? t)) (s_hss st))) (s_lss st))
      (filter (fun e => e_ver e <=? t) (s_hss st)) t [[]].
Proof. reflexivity. Qed.

Lemma R_rollback K st a t : R K st a -> t <= s_ver st ->
  R K (rollback_state t st) (mkA (firstn (S (N.to_nat t)) (a_hist a)) [[]]).
Proof.
  intros H Ht. rewrite rollback_state_eq.
  set (pruned := filter (fun e => e_ver e <=? t) (s_hss st)).
  set (aff := map e_key (filter (fun e => negb (e_ver e <=? t)) (s_hss st))).
  pose proof (R_hss _ _ _ H) as Dh. pose proof (R_len _ _ _ H) as Len. pose proof (R_ver _ _ _ H) as Hv.
  assert (Fa : Forall (fun k => In k K) aff).
  { apply Forall_forall. intros k Hk. unfold aff in Hk. apply in_map_iff in Hk. destruct Hk as (x & <- & Hx).
    apply filter_In in Hx. destruct Dh as [_ F]. rewrite Forall_forall in F. apply (F x), Hx. }
  destruct (patch_fold K (fun k => spec_get pruned t k) aff (s_lss st) Fa (R_lss _ _ _ H)) as [P1 P2].
  cbv zeta in P2.
  assert (Lat : last (firstn (S (N.to_nat t)) (a_hist a)) [] = nth (N.to_nat t) (a_hist a) []).
  { rewrite last_nth_len, firstn_length, Len.
    replace (Nat.min (S (N.to_nat t)) (S (N.to_nat (s_ver st))) - 1)%nat with (N.to_nat t) by lia.
    apply nth_firstn_lt. lia. }
  constructor; cbn [s_stack s_lss s_hss s_ver a_hist a_stack].
  - reflexivity.
  - repeat constructor.
  - rewrite firstn_length, Len. lia.
  - lia.
  - exact P1.
  - intros k Hk. unfold a_latest. cbn [a_hist]. rewrite Lat, P2.
    destruct (existsb (bytes_eqb k) aff) eqn:Ex.
    + unfold pruned. rewrite spec_get_prune_above by lia. now apply (R_hget _ _ _ H).
    + rewrite (R_lget _ _ _ H) by exact Hk. rewrite (R_latest _ _ _ H).
      rewrite <- !(R_hget _ _ _ H) by (try assumption; lia).
      apply spec_get_ext; [now apply (dbok_uniq K)|]. intros x Kx. split; intros [Hx Vx]; (split; [exact Hx|]); [|lia].
      destruct (N.leb_spec (e_ver x) t) as [Le|Gt]; [exact Le|]. exfalso.
      assert (Hin : In k aff).
      { unfold aff. apply in_map_iff. exists x. split; [exact Kx|]. apply filter_In. split; [exact Hx|].
        apply negb_true_iff, N.leb_gt. exact Gt. }
      assert (existsb (bytes_eqb k) aff = true) by (apply existsb_exists; exists k; split; [exact Hin | apply bytes_eqb_refl]).
      congruence.
  - now apply dbok_filter.
  - apply Forall_forall. intros x Hx. unfold pruned in Hx. apply filter_In in Hx. now apply N.leb_le.
  - intros v k Hvt Hk. unfold pruned. rewrite spec_get_prune_above by exact Hvt.
    rewrite nth_firstn_lt by lia. apply (R_hget _ _ _ H); [lia | exact Hk].
  - apply Forall_forall. intros m Hm. apply In_firstn in Hm. pose proof (R_hist _ _ _ H) as F.
    rewrite Forall_forall in F. now apply F.
Qed.

(* ---- one step *)
Lemma ws_update_ok K k o ws : In k K -> ws_ok K ws -> ws_ok K (ws_update k o ws).
Proof.
  intros Hk [S F]. split; [now apply ws_update_ksorted|]. rewrite Forall_forall in *. intros e He.
  apply ws_update_In in He. destruct He as [->|He]; [exact Hk | now apply F].
Qed.
Lemma ws_flush_ok K child parent : ws_ok K child -> ws_ok K parent -> ws_ok K (ws_flush child parent).
Proof.
  intros [_ Fc]. unfold ws_flush. revert parent. induction child as [|[k o] c IH]; intros parent P; [exact P|].
  inversion Fc as [|x y Hk Fc']; subst. cbn [fold_left fst snd]. apply IH; [exact Fc'|]. now apply ws_update_ok.
Qed.
Lemma ws_ok_nil K : ws_ok K [].
Proof. split; constructor. Qed.

Lemma step_sim K st a o r : keyfam K -> R K st a -> ops_ok K (s_ver st) (length (s_stack st)) (o :: r) ->
  exists st' a' out, exec st o = (st', out) /\ aexec a o = (a', out) /\ R K st' a' /\
                     ops_ok K (s_ver st') (length (s_stack st')) r.
Proof.
  intros HK H Hok. pose proof (R_stack _ _ _ H) as Es. pose proof (R_wsok _ _ _ H) as W.
  pose proof (R_aver _ _ _ H) as Av.
  destruct o as [k v|k|k|p rv| | | | | |v k|v p rv|t]; cbn [ops_ok] in Hok.
  - (* PSet *) destruct Hok as [Hk Hok]. cbn [exec aexec]. unfold upd_top, a_upd_top. rewrite <- Es.
    destruct (s_stack st) as [|ws rest] eqn:E.
    + do 3 eexists. split; [reflexivity|]. split; [reflexivity|]. split; [exact H|]. now rewrite E.
    + do 3 eexists. split; [reflexivity|]. split; [reflexivity|]. inversion W as [|x y Hw W']; subst. split.
      * apply R_set_stack; [exact H|]. constructor; [now apply ws_update_ok | exact W'].
      * exact Hok.
  - (* PDel *) destruct Hok as [Hk Hok]. cbn [exec aexec]. unfold upd_top, a_upd_top. rewrite <- Es.
    destruct (s_stack st) as [|ws rest] eqn:E.
    + do 3 eexists. split; [reflexivity|]. split; [reflexivity|]. split; [exact H|]. now rewrite E.
    + do 3 eexists. split; [reflexivity|]. split; [reflexivity|]. inversion W as [|x y Hw W']; subst. split.
      * apply R_set_stack; [exact H|]. constructor; [now apply ws_update_ok | exact W'].
      * exact Hok.
  - (* PGet *) destruct Hok as [Hk Hok]. cbn [exec aexec]. rewrite (R_get K st a k HK H Hk).
    do 3 eexists. split; [reflexivity|]. split; [reflexivity|]. now split.
  - (* PIter *) destruct Hok as (Wp & Lp & Hok). cbn [exec aexec]. rewrite (R_iter K st a p rv HK H Wp Lp).
    do 3 eexists. split; [reflexivity|]. split; [reflexivity|]. now split.
  - (* PNest *) cbn [exec aexec]. rewrite <- Es.
    do 3 eexists. split; [reflexivity|]. split; [reflexivity|]. split.
    + apply R_set_stack; [exact H|]. constructor; [apply ws_ok_nil | exact W].
    + exact Hok.
  - (* PFlush *) cbn [exec aexec]. rewrite <- Es. destruct (s_stack st) as [|w1 [|w2 rest]] eqn:E.
    + do 3 eexists. split; [reflexivity|]. split; [reflexivity|]. split; [exact H|]. now rewrite E.
    + do 3 eexists. split; [reflexivity|]. split; [reflexivity|]. split; [exact H|]. now rewrite E.
    + do 3 eexists. split; [reflexivity|]. split; [reflexivity|].
      inversion W as [|x y Hw1 W1]; subst. inversion W1 as [|x y Hw2 W2]; subst. split.
      * apply R_set_stack; [exact H|]. constructor; [now apply ws_flush_ok | exact W2].
      * exact Hok.
  - (* PDiscard *) cbn [exec aexec]. rewrite <- Es. destruct (s_stack st) as [|w1 [|w2 rest]] eqn:E.
    + do 3 eexists. split; [reflexivity|]. split; [reflexivity|]. split; [exact H|]. now rewrite E.
    + do 3 eexists. split; [reflexivity|]. split; [reflexivity|]. split; [exact H|]. now rewrite E.
    + do 3 eexists. split; [reflexivity|]. split; [reflexivity|].
      inversion W as [|x y Hw1 W1]; subst. split.
      * apply R_set_stack; [exact H|]. exact W1.
      * exact Hok.
  - (* PCommit *) cbn [exec aexec]. rewrite <- Es. destruct (s_stack st) as [|w1 [|w2 rest]] eqn:E.
    + do 3 eexists. split; [reflexivity|]. split; [reflexivity|]. split; [exact H|]. now rewrite E.
    + cbn [length] in Hok. destruct Hok as [Hnv Hok].
      pose proof (R_commit K st a w1 H E Hnv) as H'.
      do 3 eexists. split; [reflexivity|]. split.
      * cbv zeta. rewrite (R_aver _ _ _ H'). reflexivity.
      * split; [exact H'|]. rewrite (commit_state_eq st w1 E). exact Hok.
    + do 3 eexists. split; [reflexivity|]. split; [reflexivity|]. split; [exact H|]. now rewrite E.
  - (* PReset *) cbn [exec aexec]. rewrite <- Es. destruct (s_stack st) as [|w1 [|w2 rest]] eqn:E.
    + do 3 eexists. split; [reflexivity|]. split; [reflexivity|]. split; [exact H|]. now rewrite E.
    + do 3 eexists. split; [reflexivity|]. split; [reflexivity|]. split.
      * apply R_set_stack; [exact H|]. repeat constructor.
      * exact Hok.
    + do 3 eexists. split; [reflexivity|]. split; [reflexivity|]. split; [exact H|]. now rewrite E.
  - (* PGetAt *) destruct Hok as (Hv & Hk & Hok).
    assert (Ex : exec st (PGetAt v k) =
                 (st, OGet (if v =? s_ver st then vget (s_lss st) maxver k else vget (s_hss st) v k)))
      by (cbn [exec]; destruct (v =? s_ver st); reflexivity).
    rewrite Ex, (R_getat K st a v k HK H Hv Hk). cbn [aexec].
    do 3 eexists. split; [reflexivity|]. split; [reflexivity|]. now split.
  - (* PIterAt *) destruct Hok as (Hv & Wp & Lp & Hok).
    assert (Ex : exec st (PIterAt v p rv) =
                 (st, OIter (if v =? s_ver st then viter (s_lss st) maxver p rv true else viter (s_hss st) v p rv true)))
      by (cbn [exec]; destruct (v =? s_ver st); reflexivity).
    rewrite Ex, (R_iterat K st a v p rv HK H Hv Wp Lp). cbn [aexec].
    do 3 eexists. split; [reflexivity|]. split; [reflexivity|]. now split.
  - (* PRollback *) cbn [exec aexec]. rewrite <- Es, Av. destruct (s_stack st) as [|w1 [|w2 rest]] eqn:E.
    + do 3 eexists. split; [reflexivity|]. split; [reflexivity|]. split; [exact H|]. now rewrite E.
    + cbn [length] in Hok. destruct ((t =? 0) || (s_ver st <? t)) eqn:C.
      * do 3 eexists. split; [reflexivity|]. split; [reflexivity|]. split; [exact H|]. now rewrite E.
      * apply orb_false_iff in C. destruct C as [C1 C2]. apply N.ltb_ge in C2.
        destruct (N.eqb_spec t (s_ver st)) as [->|Hne].
        -- do 3 eexists. split; [reflexivity|]. split; [reflexivity|]. split; [exact H|]. now rewrite E.
        -- do 3 eexists. split; [reflexivity|]. split; [reflexivity|]. split; [now apply R_rollback|].
           rewrite rollback_state_eq. exact Hok.
    + do 3 eexists. split; [reflexivity|]. split; [reflexivity|]. split; [exact H|]. now rewrite E.
Qed.

Lemma run_sim K ops : keyfam K -> forall st a, R K st a -> ops_ok K (s_ver st) (length (s_stack st)) ops ->
  run st ops = arun a ops.
Proof.
  intros HK. induction ops as [|o r IH]; intros st a H Hok; [reflexivity|].
  destruct (step_sim K st a o r HK H Hok) as (st' & a' & out & E1 & E2 & H' & Hok').
  cbn [run arun]. rewrite E1, E2. f_equal. now apply IH.
Qed.

(* MAIN THEOREM: every observation of the store equals the observation of the simple versioned map *)
Theorem store_refines K ops : keyfam_ok K -> ops_ok K 0 1 ops -> run s_init ops = arun a_init ops.
Proof.
  intros HK Hok. apply (run_sim K ops HK s_init a_init (R_init K)). exact Hok.
Qed.

(* ---- immutability of committed history, on the abstract side and transported by store_refines *)
(* ops2 never rolls back below version v *)
Fixpoint no_rollback_below (v : N) (ops : list sop) : Prop :=
  match ops with
  | [] => True
  | PRollback t :: r => v <= t /\ no_rollback_below v r
  | _ :: r => no_rollback_below v r
  end.

(* the version reached by a well-formed program *)
Fixpoint ver_after (ver : N) (depth : nat) (ops : list sop) : N :=
  match ops with
  | [] => ver
  | o :: r =>
    match o with
    | PNest => ver_after ver (S depth) r
    | PFlush | PDiscard => ver_after ver (match depth with S (S d) => S d | _ => depth end) r
    | PCommit => match depth with 1%nat => ver_after (ver + 1) depth r | _ => ver_after ver depth r end
    | PRollback v => match depth with
                     | 1%nat => if (v =? 0) || (ver <? v) then ver_after ver depth r else ver_after v depth r
                     | _ => ver_after ver depth r
                     end
    | _ => ver_after ver depth r
    end
  end.

(* the nesting depth reached by a program *)
Fixpoint depth_after (depth : nat) (ops : list sop) : nat :=
  match ops with
  | [] => depth
  | o :: r =>
    match o with
    | PNest => depth_after (S depth) r
    | PFlush | PDiscard => depth_after (match depth with S (S d) => S d | _ => depth end) r
    | _ => depth_after depth r
    end
  end.

Lemma ops_ok_app K l1 : forall ver d l2,
  ops_ok K ver d (l1 ++ l2) <-> (ops_ok K ver d l1 /\ ops_ok K (ver_after ver d l1) (depth_after d l1) l2).
Proof.
  induction l1 as [|o l1 IH]; intros ver d l2; [cbn; tauto|].
  destruct o as [k v|k|k|p rv| | | | | |v k|v p rv|t]; cbn [app ops_ok ver_after depth_after];
    try (rewrite IH; tauto).
  - destruct d as [|[|d]]; rewrite IH; tauto.
  - destruct d as [|[|d]]; [rewrite IH; tauto | | rewrite IH; tauto].
    destruct ((t =? 0) || (ver <? t)); rewrite IH; tauto.
Qed.

(* the final abstract state of a program, and its last observation *)
Fixpoint aexec_all (a : astate) (ops : list sop) : astate :=
  match ops with
  | [] => a
  | o :: r => aexec_all (fst (aexec a o)) r
  end.

Lemma aexec_all_app l1 : forall a l2, aexec_all a (l1 ++ l2) = aexec_all (aexec_all a l1) l2.
Proof. induction l1 as [|o l1 IH]; intros a l2; [reflexivity|]. cbn [app aexec_all]. apply IH. Qed.

Lemma arun_last l : forall a q, last (arun a (l ++ [q])) OErr = snd (aexec (aexec_all a l) q).
Proof.
  induction l as [|o l IH]; intros a q.
  - cbn [app arun aexec_all]. destruct (aexec a q) as [a' out]. reflexivity.
  - cbn [app arun aexec_all]. destruct (aexec a o) as [a' out] eqn:E. cbn [fst].
    rewrite <- IH. destruct (arun a' (l ++ [q])) eqn:E2; [|reflexivity].
    destruct l; cbn [app arun] in E2; [destruct (aexec a' q) | destruct (aexec a' s)]; discriminate E2.
Qed.

(* one abstract step: the history stays non-empty, version and depth evolve as ver_after / depth_after say *)
Lemma a_ver_app (hist : list amap) (x : amap) : hist <> [] -> N.of_nat (length (hist ++ [x]) - 1) = N.of_nat (length hist - 1) + 1.
Proof. intros Hne. rewrite app_length. cbn [length]. destruct hist; [contradiction|]. cbn [length]. lia. Qed.

Lemma aexec_track a o : a_hist a <> [] ->
  let a' := fst (aexec a o) in
  a_hist a' <> [] /\ a_ver a' = ver_after (a_ver a) (length (a_stack a)) [o] /\
  length (a_stack a') = depth_after (length (a_stack a)) [o].
Proof.
  intros Hne. destruct a as [hist stk]. cbn [a_hist a_stack] in *.
  destruct o as [k v|k|k|p rv| | | | | |v k|v p rv|t]; cbn [aexec ver_after depth_after fst a_hist a_stack];
    unfold a_upd_top; cbn [a_stack a_hist];
    try (destruct stk as [|w1 rest]; cbn; auto; fail);
    try (cbn; auto; fail).
  - destruct stk as [|w1 [|w2 rest]]; cbn; auto.
  - destruct stk as [|w1 [|w2 rest]]; cbn; auto.
  - destruct stk as [|w1 [|w2 rest]]; cbn [fst a_hist a_stack length]; auto.
    split; [intros C; apply app_eq_nil in C; destruct C; discriminate|]. split; [|reflexivity].
    unfold a_ver. cbn [a_hist]. now apply a_ver_app.
  - destruct stk as [|w1 [|w2 rest]]; cbn; auto.
  - destruct stk as [|w1 [|w2 rest]]; cbn [fst a_hist a_stack length]; auto.
    destruct ((t =? 0) || (a_ver (mkA hist [w1]) <? t)) eqn:C; cbn [fst a_hist a_stack length]; auto.
    apply orb_false_iff in C. destruct C as [C1 C2]. apply N.ltb_ge in C2.
    destruct (N.eqb_spec t (a_ver (mkA hist [w1]))) as [->|Hneq]; cbn [fst a_hist a_stack length]; auto.
    unfold a_ver in *. cbn [a_hist] in *. destruct hist as [|m hist]; [contradiction|]. cbn [length] in *.
    split; [discriminate|]. split; [|reflexivity]. rewrite firstn_length. cbn [length]. lia.
Qed.

Lemma ver_after_cons ver d o r : ver_after ver d (o :: r) = ver_after (ver_after ver d [o]) (depth_after d [o]) r.
Proof.
  destruct o as [k v|k|k|p rv| | | | | |v k|v p rv|t]; cbn [ver_after depth_after]; try reflexivity.
  - destruct d as [|[|d]]; reflexivity.
  - destruct d as [|[|d]]; try reflexivity. destruct ((t =? 0) || (ver <? t)); reflexivity.
Qed.

Lemma aver_after ops : forall a, a_hist a <> [] ->
  a_ver (aexec_all a ops) = ver_after (a_ver a) (length (a_stack a)) ops.
Proof.
  induction ops as [|o r IH]; intros a Hne; [reflexivity|].
  destruct (aexec_track a o Hne) as (N1 & N2 & N3). cbv zeta in *.
  cbn [aexec_all]. rewrite (IH _ N1), N2, N3. symmetry. apply ver_after_cons.
Qed.

Lemma aexec_all_nonempty ops : forall a, a_hist a <> [] -> a_hist (aexec_all a ops) <> [].
Proof.
  induction ops as [|o r IH]; intros a Hne; [exact Hne|].
  cbn [aexec_all]. apply IH. apply (aexec_track a o Hne).
Qed.

(* committed history is immutable on the abstract side *)
Lemma hist_step a o v : a_hist a <> [] -> no_rollback_below v [o] -> v <= a_ver a ->
  let a' := fst (aexec a o) in
  nth (N.to_nat v) (a_hist a') [] = nth (N.to_nat v) (a_hist a) [] /\ v <= a_ver a'.
Proof.
  intros Hne Hnr Hv. destruct a as [hist stk]. unfold a_ver in *. cbn [a_hist] in *.
  destruct o as [k w|k|k|p rv| | | | | |w k|w p rv|t]; cbn [aexec fst a_hist a_stack];
    unfold a_upd_top; cbn [a_stack a_hist];
    try (destruct stk as [|w1 rest]; cbn; auto; fail);
    try (cbn; auto; fail).
  - destruct stk as [|w1 [|w2 rest]]; cbn; auto.
  - destruct stk as [|w1 [|w2 rest]]; cbn; auto.
  - destruct stk as [|w1 [|w2 rest]]; cbn [fst a_hist]; auto.
    destruct hist as [|m hist]; [contradiction|]. cbn [length] in *.
    split; [apply app_nth1; cbn [length]; lia | rewrite app_length; cbn [length]; lia].
  - destruct stk as [|w1 [|w2 rest]]; cbn; auto.
  - destruct Hnr as [Hnr _]. destruct stk as [|w1 [|w2 rest]]; cbn [fst a_hist]; auto.
    unfold a_ver. cbn [a_hist].
    destruct ((t =? 0) || (N.of_nat (length hist - 1) <? t)) eqn:C; cbn [fst a_hist]; auto.
    apply orb_false_iff in C. destruct C as [C1 C2]. apply N.ltb_ge in C2.
    destruct (t =? N.of_nat (length hist - 1)); cbn [fst a_hist]; auto.
    split; [apply nth_firstn_lt; lia | rewrite firstn_length; lia].
Qed.

Lemma hist_stable v ops : forall a, a_hist a <> [] -> no_rollback_below v ops -> v <= a_ver a ->
  nth (N.to_nat v) (a_hist (aexec_all a ops)) [] = nth (N.to_nat v) (a_hist a) [].
Proof.
  induction ops as [|o r IH]; intros a Hne Hnr Hv; [reflexivity|].
  assert (H1 : no_rollback_below v [o] /\ no_rollback_below v r).
  { destruct o; cbn [no_rollback_below] in *; tauto. }
  destruct H1 as [H1 H2]. destruct (hist_step a o v Hne H1 Hv) as [E1 E2].
  destruct (aexec_track a o Hne) as (N1 & _ & _). cbv zeta in *.
  cbn [aexec_all]. rewrite (IH _ N1 H2 E2). exact E1.
Qed.

Theorem committed_get_immutable K ops1 ops2 v k :
  keyfam_ok K -> ops_ok K 0 1 (ops1 ++ ops2 ++ [PGetAt v k]) -> v <= ver_after 0 1 ops1 -> In k K ->
  no_rollback_below v ops2 ->
  last (run s_init (ops1 ++ ops2 ++ [PGetAt v k])) OErr = last (run s_init (ops1 ++ [PGetAt v k])) OErr.
Proof.
  intros HK Hok Hv Hk Hnr.
  assert (Hok1 : ops_ok K 0 1 (ops1 ++ [PGetAt v k])).
  { apply ops_ok_app in Hok. destruct Hok as [Hok _]. apply ops_ok_app. split; [exact Hok|].
    cbn [ops_ok]. auto. }
  rewrite (store_refines K _ HK Hok), (store_refines K _ HK Hok1).
  rewrite app_assoc, !arun_last, aexec_all_app. cbn [aexec snd]. do 2 f_equal.
  apply hist_stable; [apply aexec_all_nonempty; discriminate | exact Hnr |].
  rewrite aver_after by discriminate. exact Hv.
Qed.

Theorem committed_iter_immutable K ops1 ops2 v p rv :
  keyfam_ok K -> ops_ok K 0 1 (ops1 ++ ops2 ++ [PIterAt v p rv]) -> v <= ver_after 0 1 ops1 ->
  wf_bytes p -> (length p <= 248)%nat ->
  no_rollback_below v ops2 ->
  last (run s_init (ops1 ++ ops2 ++ [PIterAt v p rv])) OErr = last (run s_init (ops1 ++ [PIterAt v p rv])) OErr.
Proof.
  intros HK Hok Hv Wp Lp Hnr.
  assert (Hok1 : ops_ok K 0 1 (ops1 ++ [PIterAt v p rv])).
  { apply ops_ok_app in Hok. destruct Hok as [Hok _]. apply ops_ok_app. split; [exact Hok|].
    cbn [ops_ok]. auto. }
  rewrite (store_refines K _ HK Hok), (store_refines K _ HK Hok1).
  rewrite app_assoc, !arun_last, aexec_all_app. cbn [aexec snd]. do 2 f_equal.
  apply hist_stable; [apply aexec_all_nonempty; discriminate | exact Hnr |].
  rewrite aver_after by discriminate. exact Hv.
Qed.

(* non-vacuity: a program with nesting, deletes, several versions and a rollback is well-formed, and both sides agree on it *)
Example store_refines_nonvacuous :
  let k1 := [1;1;1;5] in let k2 := [1;1;1;6] in let k3 := [1;2;1;5] in
  let ops := [PSet k1 [7]; PSet k2 [8]; PCommit; PNest; PDel k1; PSet k3 [9]; PIter [1;1] false; PFlush; PCommit;
              PGetAt 1 k1; PIterAt 1 [] true; PSet k1 [4]; PCommit; PRollback 2; PGet k1; PIter [] true] in
  ops_ok [k1; k2; k3] 0 1 ops /\ run s_init ops = arun a_init ops /\
  In (OIter [(k3, [9]); (k2, [8])]) (run s_init ops).
Proof.
  cbv zeta. split; [|split].
  - cbn [ops_ok]. repeat split; try (cbn [In]; tauto); try (repeat constructor; fail); try (vm_compute; reflexivity);
      try (vm_compute; discriminate).
  - vm_compute. reflexivity.
  - vm_compute. tauto.
Qed.

(* regression for the finding that refuted the first version of the specification interpreter: a rollback to the current
   version is a no-op that keeps the pending writes (store.go returns nil before touching anything); the first aexec reset
   the pending write-set there and answered Some [7] below *)
Example noop_rollback_keeps_pending :
  let k1 := [1;1;1;5] in
  let ops := [PSet k1 [7]; PCommit; PSet k1 [8]; PRollback 1; PGet k1] in
  ops_ok [k1] 0 1 ops /\ run s_init ops = arun a_init ops /\ last (run s_init ops) OErr = OGet (Some [8]).
Proof.
  cbv zeta. split; [|split].
  - cbn [ops_ok]. repeat split; try (cbn [In]; tauto); try (vm_compute; reflexivity).
  - vm_compute. reflexivity.
  - vm_compute. reflexivity.
Qed.

Print Assumptions store_refines.
Print Assumptions committed_get_immutable.
Print Assumptions committed_iter_immutable.
