(* CommitProofs.v — all-or-nothing commit under crashes (property C09): with one batch per block and prefix-durability of the
   log, a restarted node is exactly at some committed height with every component at that height. *)
From Coq Require Import NArith Arith List Bool Lia.
From V Require Import Commit.
Import ListNotations.
Local Open Scope N_scope.

(* ---- the log of a block list *)
Lemma log_of_length v bs : length (log_of v bs) = length bs.
Proof.
  revert v; induction bs as [|b r IH]; intros v; cbn [log_of length]; [reflexivity | now rewrite IH].
Qed.

Lemma log_of_app v bs cs : log_of v (bs ++ cs) = log_of v bs ++ log_of (v + N.of_nat (length bs)) cs.
Proof.
  revert v; induction bs as [|b r IH]; intros v.
  - cbn [app log_of length]. change (N.of_nat 0) with 0. now rewrite N.add_0_r.
  - cbn [app log_of length]. rewrite IH.
    replace (v + 1 + N.of_nat (length r)) with (v + N.of_nat (S (length r))) by lia.
    reflexivity.
Qed.

Lemma nth_log_of bs : forall v n db dk, (n < length bs)%nat ->
  nth n (log_of v bs) db = commit_batch (v + N.of_nat n) (nth n bs dk).
Proof.
  induction bs as [|b r IH]; intros v n db dk Hn; cbn [length] in Hn; [lia|].
  destruct n as [|n].
  - cbn [log_of nth]. change (N.of_nat 0) with 0. now rewrite N.add_0_r.
  - cbn [log_of nth]. rewrite (IH (v + 1) n db dk) by lia. f_equal. lia.
Qed.

Lemma firstn_S_nth {A} (l : list A) : forall n d, (n < length l)%nat -> firstn (S n) l = firstn n l ++ [nth n l d].
Proof.
  induction l as [|x r IH]; intros n d Hn; cbn [length] in Hn; [lia|].
  destruct n as [|n]; [reflexivity|].
  change (firstn (S (S n)) (x :: r)) with (x :: firstn (S n) r).
  rewrite (IH n d) by lia. reflexivity.
Qed.

Lemma firstn_min {A} (l : list A) k : firstn k l = firstn (Nat.min k (length l)) l.
Proof.
  destruct (Nat.le_ge_cases k (length l)) as [H|H].
  - now rewrite Nat.min_l.
  - rewrite Nat.min_r by exact H. rewrite firstn_all. now apply firstn_all2.
Qed.

Lemma recover_S bs n : (n < length bs)%nat ->
  recover (log_of 1 bs) (S n) =
  apply_batch (recover (log_of 1 bs) n) (commit_batch (N.of_nat n + 1) (nth n bs (mkBlk [] [] 0 0))).
Proof.
  intros Hn. unfold recover.
  rewrite (firstn_S_nth (log_of 1 bs) n []) by (rewrite log_of_length; exact Hn).
  rewrite fold_left_app. cbn [fold_left].
  rewrite (nth_log_of bs 1 n [] (mkBlk [] [] 0 0) Hn).
  replace (1 + N.of_nat n) with (N.of_nat n + 1) by lia. reflexivity.
Qed.

(* whatever number of log records survives, it is the log of the first h blocks for some h <= number of blocks *)
Theorem crash_is_a_prefix bs k : exists h, (h <= length bs)%nat /\ recover (log_of 1 bs) k = recover (log_of 1 bs) h /\ h = Nat.min k (length bs).
Proof.
  exists (Nat.min k (length bs)). split; [apply Nat.le_min_r|]. split; [|reflexivity].
  unfold recover. rewrite (firstn_min (log_of 1 bs) k). now rewrite log_of_length.
Qed.

(* ---- the key-value operations *)
Lemma key_eqb_eq a b : key_eqb a b = true <-> a = b.
Proof.
  destruct a as [[a1 a2] a3], b as [[b1 b2] b3]. unfold key_eqb. cbn [fst snd].
  rewrite !andb_true_iff, !N.eqb_eq. split.
  - intros [[H1 H2] H3]. subst. reflexivity.
  - intros H. inversion H. auto.
Qed.

Lemma db_get_del_same k d : db_get k (db_del k d) = None.
Proof.
  induction d as [|[k' v] r IH]; [reflexivity|].
  cbn [db_del]. destruct (key_eqb k k') eqn:E; [exact IH|].
  cbn [db_get]. rewrite E. exact IH.
Qed.

Lemma db_get_del_other k k' d : key_eqb k k' = false -> db_get k (db_del k' d) = db_get k d.
Proof.
  intros Hk. induction d as [|[k'' v] r IH]; [reflexivity|].
  cbn [db_del db_get]. destruct (key_eqb k' k'') eqn:E.
  - apply key_eqb_eq in E. subst k''. rewrite Hk. exact IH.
  - cbn [db_get]. rewrite IH. reflexivity.
Qed.

Lemma db_get_apply_write k d w : db_get k (apply_write d w) = if key_eqb k (fst w) then snd w else db_get k d.
Proof.
  destruct w as [k' [v|]]; unfold apply_write; cbn [fst snd].
  - unfold db_set. cbn [db_get]. destruct (key_eqb k k') eqn:E; [reflexivity|].
    now apply db_get_del_other.
  - destruct (key_eqb k k') eqn:E.
    + apply key_eqb_eq in E. subst k'. apply db_get_del_same.
    + now apply db_get_del_other.
Qed.

(* reading one key through a batch: the last write to the key wins *)
Fixpoint bget (k : dbkey) (ws : batch) (acc : option N) : option N :=
  match ws with [] => acc | w :: r => bget k r (if key_eqb k (fst w) then snd w else acc) end.

Lemma db_get_apply_batch k ws : forall d, db_get k (apply_batch d ws) = bget k ws (db_get k d).
Proof.
  unfold apply_batch. induction ws as [|w r IH]; intros d; [reflexivity|].
  cbn [fold_left bget]. rewrite IH. now rewrite db_get_apply_write.
Qed.

Lemma bget_app k ws1 ws2 : forall acc, bget k (ws1 ++ ws2) acc = bget k ws2 (bget k ws1 acc).
Proof.
  induction ws1 as [|w r IH]; intros acc; [reflexivity|].
  cbn [app bget]. apply IH.
Qed.

Lemma bget_skip_map {X} k (f : X -> write) l : (forall x, key_eqb k (fst (f x)) = false) ->
  forall acc, bget k (map f l) acc = acc.
Proof.
  intros Hf. induction l as [|x r IH]; intros acc; [reflexivity|].
  cbn [map bget]. rewrite Hf. apply IH.
Qed.

Lemma key1_eqb key k' : key_eqb (1, key, 0) (1, k', 0) = (key =? k').
Proof.
  unfold key_eqb; cbn [fst snd]. rewrite !N.eqb_refl. cbn [andb]. apply andb_true_r.
Qed.

Lemma find_app {A} (f : A -> bool) l1 l2 :
  find f (l1 ++ l2) = match find f l1 with Some x => Some x | None => find f l2 end.
Proof.
  induction l1 as [|x r IH]; [reflexivity|].
  cbn [app find]. destruct (f x); [reflexivity | exact IH].
Qed.

Lemma bget_sets key sets : forall acc,
  bget (1, key, 0) (map (fun e : N * N => ((1, fst e, 0), Some (snd e))) sets) acc =
  match find (fun e => fst e =? key) (rev sets) with Some e => Some (snd e) | None => acc end.
Proof.
  induction sets as [|e r IH]; intros acc; [reflexivity|].
  cbn [map bget fst snd rev]. rewrite IH, find_app, key1_eqb, (N.eqb_sym key (fst e)).
  destruct (find (fun e0 : N * N => fst e0 =? key) (rev r)); [reflexivity|].
  cbn [find]. destruct (fst e =? key); reflexivity.
Qed.

Lemma bget_dels key dels : forall acc,
  bget (1, key, 0) (map (fun k : N => ((1, k, 0), @None N)) dels) acc =
  if existsb (N.eqb key) dels then None else acc.
Proof.
  induction dels as [|x r IH]; intros acc; [reflexivity|].
  cbn [map bget fst snd existsb]. rewrite IH, key1_eqb.
  destruct (key =? x), (existsb (N.eqb key) r); reflexivity.
Qed.

(* every component after the block's batch *)
Lemma get_commit d v b :
  let d' := apply_batch d (commit_batch v b) in
  db_get (0, 0, 0) d' = Some v /\
  (forall key, db_get (1, key, 0) d' =
     if existsb (N.eqb key) (b_dels b) then None
     else match find (fun e => fst e =? key) (rev (b_sets b)) with
          | Some e => Some (snd e)
          | None => db_get (1, key, 0) d
          end) /\
  (forall v', db_get (3, 0, v') d' = if v' =? v then Some (b_root b) else db_get (3, 0, v') d) /\
  (forall v', db_get (4, v', 0) d' = if v' =? v then Some (b_index b) else db_get (4, v', 0) d).
Proof.
  cbv zeta. unfold commit_batch. repeat split.
  - rewrite db_get_apply_batch, !bget_app.
    rewrite (bget_skip_map _ (fun e : N * N => ((1, fst e, 0), Some (snd e)))) by (intros x; reflexivity).
    rewrite (bget_skip_map _ (fun k : N => ((1, k, 0), @None N))) by (intros x; reflexivity).
    rewrite (bget_skip_map _ (fun e : N * N => ((2, fst e, v), Some (snd e)))) by (intros x; reflexivity).
    rewrite (bget_skip_map _ (fun k : N => ((2, k, v), Some 0))) by (intros x; reflexivity).
    reflexivity.
  - intros key. rewrite db_get_apply_batch, !bget_app.
    rewrite (bget_skip_map _ (fun e : N * N => ((2, fst e, v), Some (snd e)))) by (intros x; reflexivity).
    rewrite (bget_skip_map _ (fun k : N => ((2, k, v), Some 0))) by (intros x; reflexivity).
    rewrite bget_dels, bget_sets. reflexivity.
  - intros v'. rewrite db_get_apply_batch, !bget_app.
    rewrite (bget_skip_map _ (fun e : N * N => ((1, fst e, 0), Some (snd e)))) by (intros x; reflexivity).
    rewrite (bget_skip_map _ (fun k : N => ((1, k, 0), @None N))) by (intros x; reflexivity).
    rewrite (bget_skip_map _ (fun e : N * N => ((2, fst e, v), Some (snd e)))) by (intros x; reflexivity).
    rewrite (bget_skip_map _ (fun k : N => ((2, k, v), Some 0))) by (intros x; reflexivity).
    reflexivity.
  - intros v'. rewrite db_get_apply_batch, !bget_app.
    rewrite (bget_skip_map _ (fun e : N * N => ((1, fst e, 0), Some (snd e)))) by (intros x; reflexivity).
    rewrite (bget_skip_map _ (fun k : N => ((1, k, 0), @None N))) by (intros x; reflexivity).
    rewrite (bget_skip_map _ (fun e : N * N => ((2, fst e, v), Some (snd e)))) by (intros x; reflexivity).
    rewrite (bget_skip_map _ (fun k : N => ((2, k, v), Some 0))) by (intros x; reflexivity).
    cbn [bget fst snd]. unfold key_eqb. cbn [fst snd N.eqb Pos.eqb andb].
    rewrite andb_true_r. reflexivity.
Qed.

Lemma ref_state_S bs n key : (n < length bs)%nat ->
  ref_state bs (S n) key =
  let b := nth n bs (mkBlk [] [] 0 0) in
  if existsb (N.eqb key) (b_dels b) then None
  else match find (fun e => fst e =? key) (rev (b_sets b)) with
       | Some e => Some (snd e)
       | None => ref_state bs n key
       end.
Proof.
  intros Hn. destruct bs as [|b0 r]; [cbn [length] in Hn; lia | reflexivity].
Qed.

(* MAIN THEOREM: after the first h records, every component reflects exactly height h *)
Theorem crash_all_or_nothing bs h : (h <= length bs)%nat ->
  let d := recover (log_of 1 bs) h in
  version_of d = N.of_nat h /\
  (forall key, latest_of d key = ref_state bs h key) /\
  (forall v, (1 <= v <= h)%nat -> root_of d (N.of_nat v) = Some (b_root (nth (v - 1) bs (mkBlk [] [] 0 0))) /\
                                   index_of d (N.of_nat v) = Some (b_index (nth (v - 1) bs (mkBlk [] [] 0 0)))) /\
  (forall v, N.of_nat h < v -> root_of d v = None /\ index_of d v = None).
Proof.
  cbv zeta. induction h as [|n IH]; intros Hh.
  - unfold recover. cbn [firstn fold_left]. repeat split; try reflexivity; lia.
  - assert (Hn : (n < length bs)%nat) by lia.
    destruct (IH ltac:(lia)) as (IHv & IHl & IHr & IHn). clear IH.
    rewrite (recover_S bs n Hn).
    set (d := recover (log_of 1 bs) n) in *.
    set (b := nth n bs (mkBlk [] [] 0 0)).
    destruct (get_commit d (N.of_nat n + 1) b) as (Gv & Gl & Gr & Gi).
    unfold version_of, latest_of, root_of, index_of in *.
    split; [|split; [|split]].
    + rewrite Gv. lia.
    + intros key. rewrite Gl, (ref_state_S bs n key Hn). cbv zeta. fold b.
      rewrite IHl. reflexivity.
    + intros v Hv. rewrite Gr, Gi.
      destruct (N.eqb_spec (N.of_nat v) (N.of_nat n + 1)) as [E|E].
      * assert (v = S n) by lia. subst v.
        replace (S n - 1)%nat with n by lia. split; reflexivity.
      * apply IHr. lia.
    + intros v Hv. rewrite Gr, Gi.
      destruct (N.eqb_spec v (N.of_nat n + 1)) as [E|E]; [lia|].
      apply IHn. lia.
Qed.

(* continuing after the restart: committing the next block on the recovered database is the same as never having crashed *)
Theorem continue_after_restart bs b :
  apply_batch (recover (log_of 1 bs) (length bs)) (commit_batch (N.of_nat (length bs) + 1) b) = recover (log_of 1 (bs ++ [b])) (S (length bs)).
Proof.
  unfold recover.
  rewrite (firstn_all2 (log_of 1 bs)) by (rewrite log_of_length; apply Nat.le_refl).
  rewrite firstn_all2 by (rewrite log_of_length, app_length; cbn [length]; lia).
  rewrite log_of_app. cbn [log_of]. rewrite fold_left_app. cbn [fold_left].
  replace (1 + N.of_nat (length bs)) with (N.of_nat (length bs) + 1) by lia. reflexivity.
Qed.

(* the seeded defect as a theorem about the variant: if the latest-state deletes are logged as their own record before the
   block's batch, there is a crash point at which the node re-opens at a height whose state it does not have *)
Theorem split_commit_refuted : exists bs k key,
  let d := recover (log_split 1 bs) k in latest_of d key <> ref_state bs (N.to_nat (version_of d)) key.
Proof.
  exists [mkBlk [(1, 10); (2, 20)] [] 100 7; mkBlk [(1, 11)] [2] 101 8], 3%nat, 2.
  vm_compute. discriminate.
Qed.

Example commit_nonvacuous :
  let bs := [mkBlk [(1, 10); (2, 20)] [] 100 7; mkBlk [(1, 11)] [2] 101 8; mkBlk [(3, 30)] [] 102 9] in
  let d := recover (log_of 1 bs) 2 in
  version_of d = 2 /\ latest_of d 1 = Some 11 /\ latest_of d 2 = None /\ latest_of d 3 = None /\ root_of d 2 = Some 8 /\ root_of d 3 = None /\
  ref_state bs 2 1 = Some 11 /\ ref_state bs 2 2 = None /\ ref_state bs 3 3 = Some 30.
Proof.
  vm_compute. repeat split; reflexivity.
Qed.

Print Assumptions crash_all_or_nothing.
Print Assumptions continue_after_restart.
Print Assumptions split_commit_refuted.
