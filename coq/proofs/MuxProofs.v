(* MuxProofs.v — whole messages, on the right topic, in order, for every schedule of the sender (property C18). *)
From Coq Require Import NArith List Bool Arith Lia.
From V Require Import Bytes Mux.
Import ListNotations.

(* ---- auxiliary: chunks / split *)
Lemma chunks_ok : forall fuel lim buf, (0 < lim)%nat -> (length buf < fuel)%nat ->
  concat (chunks fuel lim buf) = buf /\ Forall (fun c => (length c <= lim)%nat) (chunks fuel lim buf).
Proof.
  induction fuel as [|f IH]; intros lim buf Hl Hf; [lia|].
  cbn [chunks]. destruct (Nat.leb lim (length buf)) eqn:E.
  - apply Nat.leb_le in E.
    destruct (IH lim (skipn lim buf) Hl) as [IH1 IH2]. { rewrite skipn_length. lia. }
    split.
    + cbn [concat]. rewrite IH1. apply firstn_skipn.
    + constructor; [rewrite firstn_length; lia | exact IH2].
  - apply Nat.leb_gt in E. destruct buf as [|b r].
    + split; [reflexivity|constructor].
    + split; [cbn [concat]; apply app_nil_r | constructor; [lia|constructor]].
Qed.

Lemma chunks_nonempty fuel lim buf : buf <> [] -> chunks (S fuel) lim buf <> [].
Proof.
  intros Hb. cbn [chunks]. destruct (Nat.leb lim (length buf)); [discriminate|].
  destruct buf; [congruence|discriminate].
Qed.

Lemma split_nonempty lim buf : split lim buf <> [].
Proof.
  unfold split. destruct buf as [|b r]; [discriminate|]. apply chunks_nonempty. discriminate.
Qed.

Theorem split_concat lim buf : (0 < lim)%nat -> concat (split lim buf) = buf /\ Forall (fun c => (length c <= lim)%nat) (split lim buf).
Proof.
  intros Hl. unfold split. destruct buf as [|b r].
  - split; [reflexivity|]. constructor; [cbn; lia|constructor].
  - apply chunks_ok; [exact Hl|lia].
Qed.

(* ---- auxiliary: mark, the assembler *)
Lemma mark_cons t c cs : mark t (c :: cs) = mkPk t (match cs with [] => true | _ => false end) c :: mark t cs.
Proof. destruct cs; reflexivity. Qed.

Lemma asm_get_set_same t b a : asm_get t (asm_set t b a) = b.
Proof.
  induction a as [|[t' b'] r IH]; cbn [asm_set asm_get].
  - rewrite N.eqb_refl. reflexivity.
  - destruct (N.eqb t t') eqn:E; cbn [asm_get].
    + rewrite N.eqb_refl. reflexivity.
    + rewrite E. exact IH.
Qed.

Lemma asm_get_set_other t t' b a : t <> t' -> asm_get t (asm_set t' b a) = asm_get t a.
Proof.
  intros Hne. induction a as [|[t'' b''] r IH]; cbn [asm_set asm_get].
  - apply N.eqb_neq in Hne. rewrite Hne. reflexivity.
  - destruct (N.eqb t' t'') eqn:E; cbn [asm_get].
    + apply N.eqb_eq in E. subst t''. apply N.eqb_neq in Hne. rewrite Hne. reflexivity.
    + rewrite IH. reflexivity.
Qed.

Lemma handle_ok maxmsg a t eof c : (length (asm_get t a) + length c <= maxmsg)%nat ->
  handle_packet maxmsg a (mkPk t eof c) =
  if eof then ROk (asm_set t [] a) (Some (t, asm_get t a ++ c)) else ROk (asm_set t (asm_get t a ++ c) a) None.
Proof.
  intros H. unfold handle_packet. cbn [p_topic p_bytes p_eof].
  destruct (Nat.ltb_spec maxmsg (length (asm_get t a) + length c)); [lia|reflexivity].
Qed.

Lemma handle_closed maxmsg a t eof c : (maxmsg < length (asm_get t a) + length c)%nat ->
  handle_packet maxmsg a (mkPk t eof c) = RClosed.
Proof.
  intros H. unfold handle_packet. cbn [p_topic p_bytes p_eof].
  destruct (Nat.ltb_spec maxmsg (length (asm_get t a) + length c)); [reflexivity|lia].
Qed.

Lemma concat_cons_length (c : bytes) cs : length (concat (c :: cs)) = (length c + length (concat cs))%nat.
Proof. cbn [concat]. apply app_length. Qed.

(* one (rest of a) message alone, from any assembler state *)
Lemma receive_mark maxmsg t : forall cs a, cs <> [] ->
  (length (asm_get t a) + length (concat cs) <= maxmsg)%nat ->
  receive maxmsg a (mark t cs) = ([(t, asm_get t a ++ concat cs)], true).
Proof.
  induction cs as [|c cs IH]; intros a Hne Hlen; [congruence|].
  rewrite concat_cons_length in Hlen.
  rewrite mark_cons. cbn [receive]. rewrite handle_ok by lia.
  destruct cs as [|c2 r].
  - cbn [mark receive concat]. rewrite app_nil_r. reflexivity.
  - rewrite IH; [| discriminate | rewrite asm_get_set_same, app_length; lia ].
    rewrite asm_get_set_same. cbn [concat]. rewrite <- app_assoc. reflexivity.
Qed.

(* one message alone *)
Theorem receive_one lim maxmsg t msg : (0 < lim)%nat -> (length msg <= maxmsg)%nat ->
  receive maxmsg [] (packets_of lim t msg) = ([(t, msg)], true).
Proof.
  intros Hl Hm. unfold packets_of. destruct (split_concat lim msg Hl) as [Hc _].
  rewrite receive_mark.
  - rewrite Hc. reflexivity.
  - apply split_nonempty.
  - rewrite Hc. cbn [asm_get length]. lia.
Qed.

(* ---- auxiliary: interleavings *)
Lemma interleave_nil_inv {A} (qs : list (list A)) : interleave qs [] -> Forall (fun q => q = []) qs.
Proof. intros H. inversion H; subst. assumption. Qed.

Lemma interleave_cons_inv {A} (qs : list (list A)) x w : interleave qs (x :: w) ->
  exists qs1 q qs2, qs = qs1 ++ (x :: q) :: qs2 /\ interleave (qs1 ++ q :: qs2) w.
Proof. intros H. inversion H; subst. eauto 6. Qed.

Lemma on_topic_cons t t' m ds :
  on_topic t ((t', m) :: ds) = if N.eqb t' t then m :: on_topic t ds else on_topic t ds.
Proof. unfold on_topic. cbn [filter fst]. destruct (N.eqb t' t); reflexivity. Qed.

(* ---- the invariant: every topic queue is the rest of the current message's packets followed by the later messages *)
Record ent := mkE { e_t : N; e_cs : list bytes; e_ms : list bytes }.

Section Inv.
Variables (lim maxmsg : nat).
Hypothesis Hlim : (0 < lim)%nat.

Definition gq (e : ent) : list packet := mark (e_t e) (e_cs e) ++ queue_of lim (e_t e) (e_ms e).
Definition good (a : asm) (e : ent) : Prop :=
  (e_cs e = [] -> asm_get (e_t e) a = []) /\
  (length (asm_get (e_t e) a) + length (concat (e_cs e)) <= maxmsg)%nat /\
  Forall (fun m => (length m <= maxmsg)%nat) (e_ms e).
Definition expected (a : asm) (e : ent) : list bytes :=
  match e_cs e with [] => [] | _ => [asm_get (e_t e) a ++ concat (e_cs e)] end ++ e_ms e.

Lemma mark_nil_inv t cs : mark t cs = [] -> cs = [].
Proof. destruct cs as [|c cs]; [reflexivity|]. rewrite mark_cons. discriminate. Qed.

Lemma gq_nil e : gq e = [] -> e_cs e = [] /\ e_ms e = [].
Proof.
  unfold gq. intros H. apply app_eq_nil in H. destruct H as [H1 H2]. split.
  - eapply mark_nil_inv; eassumption.
  - destruct (e_ms e) as [|m ms]; [reflexivity|]. exfalso.
    unfold queue_of in H2. cbn [flat_map] in H2. apply app_eq_nil in H2. destruct H2 as [H2 _].
    unfold packets_of in H2. apply mark_nil_inv in H2. exact (split_nonempty _ _ H2).
Qed.

Lemma gq_head a e x q : good a e -> gq e = x :: q ->
  exists c cs' ms', x = mkPk (e_t e) (match cs' with [] => true | _ => false end) c /\
     q = gq (mkE (e_t e) cs' ms') /\ good a (mkE (e_t e) (c :: cs') ms') /\
     expected a e = expected a (mkE (e_t e) (c :: cs') ms').
Proof.
  destruct e as [t cs ms]. unfold gq, good, expected. cbn [e_t e_cs e_ms].
  intros (Hg1 & Hg2 & Hg3) Hq. destruct cs as [|c cs'].
  - cbn [mark app] in Hq. destruct ms as [|m ms']; [discriminate|].
    unfold queue_of in Hq. cbn [flat_map] in Hq. unfold packets_of in Hq.
    destruct (split_concat lim m Hlim) as [Hc _].
    destruct (split lim m) as [|c cs'] eqn:Es; [exfalso; exact (split_nonempty _ _ Es)|].
    rewrite mark_cons in Hq. cbn [app] in Hq. injection Hq as Hx Hq'.
    exists c, cs', ms'. inversion Hg3 as [|m0 ms0 Hm Hms]; subst m0 ms0.
    rewrite (Hg1 eq_refl). rewrite Hc. cbn [app length].
    repeat split; try (symmetry; assumption); try assumption; try discriminate.
  - rewrite mark_cons in Hq. cbn [app] in Hq. injection Hq as Hx Hq'.
    exists c, cs', ms. repeat split; try (symmetry; assumption); try assumption; try discriminate.
Qed.

Lemma ent_ext a a' e : asm_get (e_t e) a' = asm_get (e_t e) a ->
  expected a' e = expected a e /\ (good a e -> good a' e).
Proof. intros H. unfold expected, good. rewrite H. split; [reflexivity|tauto]. Qed.

Lemma others_distinct es1 (e : ent) es2 e0 : NoDup (map e_t (es1 ++ e :: es2)) -> In e0 (es1 ++ es2) -> e_t e0 <> e_t e.
Proof.
  intros Hnd Hin Heq. rewrite map_app in Hnd. cbn [map] in Hnd. apply NoDup_remove_2 in Hnd.
  apply Hnd. rewrite <- map_app, <- Heq. apply in_map. exact Hin.
Qed.

Lemma inv_main : forall wire es a,
  NoDup (map e_t es) -> Forall (good a) es -> interleave (map gq es) wire ->
  snd (receive maxmsg a wire) = true /\
  (forall e, In e es -> on_topic (e_t e) (fst (receive maxmsg a wire)) = expected a e) /\
  (forall t, ~ In t (map e_t es) -> on_topic t (fst (receive maxmsg a wire)) = []).
Proof.
  induction wire as [|x w IH]; intros es a Hnd Hgood Hil.
  - apply interleave_nil_inv in Hil. cbn [receive fst snd]. split; [reflexivity|]. split; [|reflexivity].
    intros e He. rewrite Forall_forall in Hil. specialize (Hil (gq e) (in_map gq _ _ He)).
    apply gq_nil in Hil. destruct Hil as [H1 H2]. unfold expected. rewrite H1, H2. reflexivity.
  - apply interleave_cons_inv in Hil. destruct Hil as (qs1 & q & qs2 & Hqs & Hil).
    apply map_eq_app in Hqs. destruct Hqs as (es1 & es' & -> & Hq1 & Hq2).
    apply map_eq_cons in Hq2. destruct Hq2 as (e & es2 & -> & Hqe & Hq2).
    assert (Hge : good a e). { rewrite Forall_forall in Hgood. apply Hgood. apply in_or_app. right. left. reflexivity. }
    destruct (gq_head a e x q Hge Hqe) as (c & cs' & ms' & Hx & Hq & Hg' & Hexp).
    set (t := e_t e) in *. set (acc := asm_get t a) in *.
    assert (Hlen : (length (asm_get t a) + length c <= maxmsg)%nat).
    { destruct Hg' as (_ & Hl & _). cbn [e_t e_cs] in Hl. rewrite concat_cons_length in Hl. fold acc in Hl. fold acc. lia. }
    (* what any new assembler state that only changes topic t must satisfy *)
    assert (Hstep : forall a', (forall t', t' <> t -> asm_get t' a' = asm_get t' a) -> good a' (mkE t cs' ms') ->
       let es' := es1 ++ mkE t cs' ms' :: es2 in
       snd (receive maxmsg a' w) = true /\
       on_topic t (fst (receive maxmsg a' w)) = expected a' (mkE t cs' ms') /\
       (forall e0, In e0 (es1 ++ es2) -> e_t e0 <> t /\ on_topic (e_t e0) (fst (receive maxmsg a' w)) = expected a e0) /\
       (forall t0, ~ In t0 (map e_t (es1 ++ e :: es2)) -> t0 <> t /\ on_topic t0 (fst (receive maxmsg a' w)) = [])).
    { intros a' Hoth Hg2 es'.
      assert (Hmap : map e_t es' = map e_t (es1 ++ e :: es2)).
      { unfold es'. rewrite !map_app. reflexivity. }
      assert (Hgood' : Forall (good a') es').
      { unfold es'. rewrite Forall_forall. intros e0 He0. apply in_app_or in He0.
        destruct He0 as [He0|[He0|He0]].
        - apply (ent_ext a a' e0).
          + apply Hoth. apply (others_distinct es1 e es2); [exact Hnd|apply in_or_app; tauto].
          + rewrite Forall_forall in Hgood. apply Hgood. apply in_or_app. tauto.
        - subst e0. exact Hg2.
        - apply (ent_ext a a' e0).
          + apply Hoth. apply (others_distinct es1 e es2); [exact Hnd|apply in_or_app; tauto].
          + rewrite Forall_forall in Hgood. apply Hgood. apply in_or_app. right. right. exact He0. }
      assert (Hil' : interleave (map gq es') w).
      { unfold es'. rewrite map_app. cbn [map]. rewrite Hq1, Hq2, <- Hq. exact Hil. }
      rewrite <- Hmap in Hnd.
      destruct (IH es' a' Hnd Hgood' Hil') as (I1 & I2 & I3).
      split; [exact I1|]. split.
      - apply (I2 (mkE t cs' ms')). unfold es'. apply in_or_app. right. left. reflexivity.
      - split.
        + intros e0 He0. rewrite Hmap in Hnd.
          assert (Hne : e_t e0 <> t) by (apply (others_distinct es1 e es2); assumption).
          split; [exact Hne|].
          rewrite (I2 e0).
          * apply ent_ext. apply Hoth. exact Hne.
          * unfold es'. apply in_app_or in He0. apply in_or_app. destruct He0; [left|right; right]; assumption.
        + intros t0 Ht0. split.
          * intros ->. apply Ht0. rewrite map_app. apply in_or_app. right. left. reflexivity.
          * apply I3. rewrite Hmap. exact Ht0. }
    cbn [receive]. rewrite Hx. rewrite handle_ok by exact Hlen.
    destruct cs' as [|c2 r].
    + (* last packet of the message *)
      destruct (Hstep (asm_set t [] a)) as (S1 & S2 & S3 & S4).
      { intros t' Ht'. apply asm_get_set_other. exact Ht'. }
      { destruct Hg' as (_ & _ & Hms). unfold good. cbn [e_t e_cs e_ms]. rewrite asm_get_set_same.
        split; [reflexivity|]. split; [cbn; lia|exact Hms]. }
      destruct (receive maxmsg (asm_set t [] a) w) as [ds ok]. cbn [fst snd] in *.
      split; [exact S1|]. split.
      * intros e0 He0. rewrite on_topic_cons. apply in_app_or in He0. destruct He0 as [He0|[He0|He0]].
        -- destruct (S3 e0) as [Hne Hot]; [apply in_or_app; tauto|].
           apply not_eq_sym in Hne. apply N.eqb_neq in Hne. rewrite Hne. exact Hot.
        -- subst e0. fold t. rewrite N.eqb_refl. rewrite S2, Hexp. unfold expected. cbn [e_t e_cs e_ms concat app].
           rewrite app_nil_r. reflexivity.
        -- destruct (S3 e0) as [Hne Hot]; [apply in_or_app; tauto|].
           apply not_eq_sym in Hne. apply N.eqb_neq in Hne. rewrite Hne. exact Hot.
      * intros t0 Ht0. rewrite on_topic_cons. destruct (S4 t0 Ht0) as [Hne Hot].
        apply not_eq_sym in Hne. apply N.eqb_neq in Hne. rewrite Hne. exact Hot.
    + (* an inner packet *)
      destruct (Hstep (asm_set t (asm_get t a ++ c) a)) as (S1 & S2 & S3 & S4).
      { intros t' Ht'. apply asm_get_set_other. exact Ht'. }
      { destruct Hg' as (_ & Hl & Hms). unfold good. cbn [e_t e_cs e_ms] in *. rewrite asm_get_set_same.
        split; [discriminate|]. split; [|exact Hms].
        rewrite concat_cons_length in Hl. rewrite app_length. fold acc in Hl. fold acc. lia. }
      destruct (receive maxmsg (asm_set t (asm_get t a ++ c) a) w) as [ds ok]. cbn [fst snd] in *.
      split; [exact S1|]. split.
      * intros e0 He0. apply in_app_or in He0. destruct He0 as [He0|[He0|He0]].
        -- destruct (S3 e0) as [Hne Hot]; [apply in_or_app; tauto|]. exact Hot.
        -- subst e0. fold t. rewrite S2, Hexp. unfold expected. cbn [e_t e_cs e_ms].
           rewrite asm_get_set_same. cbn [concat]. rewrite <- app_assoc. reflexivity.
        -- destruct (S3 e0) as [Hne Hot]; [apply in_or_app; tauto|]. exact Hot.
      * intros t0 Ht0. destruct (S4 t0 Ht0) as [Hne Hot]. exact Hot.
Qed.
End Inv.

Lemma initial_state lim maxmsg (qs : list (N * list bytes)) :
  Forall (fun q => Forall (fun m => (length m <= maxmsg)%nat) (snd q)) qs ->
  let es := map (fun q => mkE (fst q) [] (snd q)) qs in
  map e_t es = map fst qs /\ Forall (good maxmsg []) es /\
  map (gq lim) es = map (fun q => queue_of lim (fst q) (snd q)) qs.
Proof.
  intros H es. unfold es. rewrite !map_map. split; [reflexivity|]. split; [|reflexivity].
  rewrite Forall_forall in *. intros e He. apply in_map_iff in He. destruct He as (q & <- & Hq).
  unfold good. cbn [e_t e_cs e_ms asm_get concat length]. split; [reflexivity|]. split; [lia|]. apply H. exact Hq.
Qed.

(* MAIN THEOREM: any number of topics, any messages within the limit, ANY interleaving of the topic queues that keeps each
   queue's order: the connection stays up and every topic's inbox receives exactly its messages, whole and in order *)
Theorem mux_delivers lim maxmsg (qs : list (N * list bytes)) wire :
  (0 < lim)%nat -> NoDup (map fst qs) ->
  Forall (fun q => Forall (fun m => (length m <= maxmsg)%nat) (snd q)) qs ->
  interleave (map (fun q => queue_of lim (fst q) (snd q)) qs) wire ->
  snd (receive maxmsg [] wire) = true /\
  forall q, In q qs -> on_topic (fst q) (fst (receive maxmsg [] wire)) = snd q.
Proof.
  intros Hl Hnd Hf Hil. destruct (initial_state lim maxmsg qs Hf) as (H1 & H2 & H3).
  rewrite <- H1 in Hnd. rewrite <- H3 in Hil.
  destruct (inv_main lim maxmsg Hl wire _ [] Hnd H2 Hil) as (I1 & I2 & _).
  split; [exact I1|]. intros q Hq.
  apply (I2 (mkE (fst q) [] (snd q))). apply in_map_iff. exists q. split; [reflexivity|exact Hq].
Qed.

(* nothing is delivered on a topic nobody sent on *)
Theorem mux_no_stray lim maxmsg (qs : list (N * list bytes)) wire t :
  (0 < lim)%nat -> NoDup (map fst qs) ->
  Forall (fun q => Forall (fun m => (length m <= maxmsg)%nat) (snd q)) qs ->
  interleave (map (fun q => queue_of lim (fst q) (snd q)) qs) wire ->
  ~ In t (map fst qs) -> on_topic t (fst (receive maxmsg [] wire)) = [].
Proof.
  intros Hl Hnd Hf Hil Ht. destruct (initial_state lim maxmsg qs Hf) as (H1 & H2 & H3).
  rewrite <- H1 in Hnd, Ht. rewrite <- H3 in Hil.
  destruct (inv_main lim maxmsg Hl wire _ [] Hnd H2 Hil) as (_ & _ & I3).
  apply I3. exact Ht.
Qed.

(* an over-limit (rest of a) message closes the connection, from any assembler state within the limit *)
Lemma receive_mark_oversize maxmsg t : forall cs a, (length (asm_get t a) <= maxmsg)%nat ->
  (maxmsg < length (asm_get t a) + length (concat cs))%nat ->
  receive maxmsg a (mark t cs) = ([], false).
Proof.
  induction cs as [|c cs IH]; intros a Hacc Hlen; [cbn [concat length] in Hlen; lia|].
  rewrite concat_cons_length in Hlen. rewrite mark_cons. cbn [receive].
  destruct (Nat.lt_ge_cases maxmsg (length (asm_get t a) + length c)) as [Hc|Hc].
  - rewrite handle_closed by exact Hc. reflexivity.
  - rewrite handle_ok by exact Hc. destruct cs as [|c2 r]; [cbn [concat length] in Hlen; lia|].
    rewrite IH; [reflexivity| |]; rewrite asm_get_set_same, app_length; lia.
Qed.

(* an over-limit message closes the connection without delivering any part of it *)
Theorem oversize_closes lim maxmsg t msg : (0 < lim)%nat -> (maxmsg < length msg)%nat ->
  receive maxmsg [] (packets_of lim t msg) = ([], false).
Proof.
  intros Hl Hm. unfold packets_of. destruct (split_concat lim msg Hl) as [Hc _].
  apply receive_mark_oversize; rewrite ?Hc; cbn [asm_get length]; lia.
Qed.

(* what the sender must never do (and Send does not, as long as queueing does not fail half-way): if only a prefix of a
   message's packets is put on the wire, the next message on that topic is delivered merged with it *)
Example partial_enqueue_merges :
  receive 100 [] (firstn 1 (packets_of 2 5%N [1;2;3]%N) ++ packets_of 2 5%N [9]%N) = ([(5%N, [1;2;9]%N)], true).
Proof. vm_compute. reflexivity. Qed.

Example mux_nonvacuous :
  interleave [queue_of 2 1%N [[1;2;3]%N; []]; queue_of 2 2%N [[7;8]%N]]
             [mkPk 1%N false [1;2]%N; mkPk 2%N true [7;8]%N; mkPk 1%N true [3]%N; mkPk 1%N true []] /\
  receive 10 [] [mkPk 1%N false [1;2]%N; mkPk 2%N true [7;8]%N; mkPk 1%N true [3]%N; mkPk 1%N true []] =
    ([(2%N, [7;8]%N); (1%N, [1;2;3]%N); (1%N, [])], true).
Proof.
  split; [|vm_compute; reflexivity].
  change (queue_of 2 1%N [[1;2;3]%N; []]) with [mkPk 1%N false [1;2]%N; mkPk 1%N true [3]%N; mkPk 1%N true []].
  change (queue_of 2 2%N [[7;8]%N]) with [mkPk 2%N true [7;8]%N].
  apply (il_step [] (mkPk 1%N false [1;2]%N) [mkPk 1%N true [3]%N; mkPk 1%N true []] [[mkPk 2%N true [7;8]%N]]).
  apply (il_step [[mkPk 1%N true [3]%N; mkPk 1%N true []]] (mkPk 2%N true [7;8]%N) [] []).
  apply (il_step [] (mkPk 1%N true [3]%N) [mkPk 1%N true []] [[]]).
  apply (il_step [] (mkPk 1%N true []) [] [[]]).
  apply il_nil. repeat constructor.
Qed.

Print Assumptions mux_delivers.
