(* TrieProofs.v — lemmas for properties C08 / C03 (state root is a pure, collision-free function of the state) over model/Trie.v *)
From Coq Require Import NArith List Bool Lia Sorting Permutation.
From V Require Import Trie.
Import ListNotations.

(* ---------------------------------------------------------------- bit strings *)
Lemma bits_eqb_eq a b : bits_eqb a b = true <-> a = b.
Proof.
  revert b; induction a as [|x a IH]; intros [|y b]; simpl; split; intros H; try easy.
  - apply andb_true_iff in H as [H1 H2]. apply eqb_prop in H1. apply IH in H2. congruence.
  - inversion H; subst. rewrite eqb_reflx. simpl. apply IH. reflexivity.
Qed.
Lemma is_prefixb_spec p k : is_prefixb p k = true <-> exists s, k = p ++ s.
Proof.
  revert k; induction p as [|x p IH]; intros k; simpl.
  - split; [intros _; exists k; reflexivity | reflexivity].
  - destruct k as [|y k].
    + split; [discriminate | intros [s Hs]; discriminate].
    + rewrite andb_true_iff, IH. split.
      * intros [H1 [s Hs]]. apply eqb_prop in H1. exists s. congruence.
      * intros [s Hs]. inversion Hs; subst. split; [apply eqb_reflx | eauto].
Qed.
Lemma gcp_prefix_l a b : is_prefixb (gcp a b) a = true.
Proof.
  revert b; induction a as [|x a IH]; intros [|y b]; simpl; try reflexivity.
  destruct (eqb x y) eqn:E; simpl; [|reflexivity]. rewrite eqb_reflx, IH. reflexivity.
Qed.
Lemma gcp_prefix_r a b : is_prefixb (gcp a b) b = true.
Proof.
  revert b; induction a as [|x a IH]; intros [|y b]; simpl; try reflexivity.
  destruct (eqb x y) eqn:E; simpl; [|reflexivity]. rewrite E, IH. reflexivity.
Qed.
(* strict total order on keys of the same width *)
Lemma bits_ltb_irrefl a : bits_ltb a a = false.
Proof.
  induction a as [|x a IH]; simpl; [reflexivity|]. rewrite IH. destruct x; reflexivity.
Qed.
Lemma bits_ltb_trans a b c : bits_ltb a b = true -> bits_ltb b c = true -> bits_ltb a c = true.
Proof.
  revert b c; induction a as [|x a IH]; intros [|y b] [|z c]; simpl; try easy.
  destruct x, y, z; simpl; try easy. all: apply IH.
Qed.
Lemma bits_ltb_total a b : length a = length b -> bits_ltb a b = true \/ a = b \/ bits_ltb b a = true.
Proof.
  revert b; induction a as [|x a IH]; intros [|y b]; simpl; intros HL; try discriminate.
  - right; left; reflexivity.
  - injection HL as HL. destruct (IH b HL) as [H|[H|H]]; destruct x, y; simpl; auto.
    all: subst; auto.
Qed.

(* ---- auxiliary bit-string facts *)
Lemma bits_eqb_refl a : bits_eqb a a = true.
Proof. apply bits_eqb_eq; reflexivity. Qed.
Lemma bits_eqb_neq a b : a <> b -> bits_eqb a b = false.
Proof. intros H. destruct (bits_eqb a b) eqn:E; [apply bits_eqb_eq in E; contradiction | reflexivity]. Qed.
Lemma bits_eqb_sym a b : bits_eqb a b = bits_eqb b a.
Proof.
  destruct (bits_eqb a b) eqn:E.
  - apply bits_eqb_eq in E; subst. symmetry; apply bits_eqb_refl.
  - symmetry. apply bits_eqb_neq. intros ->. rewrite bits_eqb_refl in E. discriminate.
Qed.
Lemma is_prefixb_refl p : is_prefixb p p = true.
Proof. apply is_prefixb_spec. exists []. symmetry; apply app_nil_r. Qed.
Lemma is_prefixb_app p s : is_prefixb p (p ++ s) = true.
Proof. apply is_prefixb_spec. eauto. Qed.
Lemma is_prefixb_trans p q k : is_prefixb p q = true -> is_prefixb q k = true -> is_prefixb p k = true.
Proof.
  rewrite !is_prefixb_spec. intros [s ->] [s' ->]. exists (s ++ s'). symmetry; apply app_assoc.
Qed.
Lemma is_prefixb_length p k : is_prefixb p k = true -> length p <= length k.
Proof. rewrite is_prefixb_spec. intros [s ->]. rewrite app_length. lia. Qed.
Lemma is_prefixb_full p k : is_prefixb p k = true -> length p = length k -> p = k.
Proof.
  rewrite is_prefixb_spec. intros [s ->]. rewrite app_length. intros HL.
  destruct s; [symmetry; apply app_nil_r | simpl in HL; lia].
Qed.
Lemma is_prefixb_antisym p q : is_prefixb p q = true -> is_prefixb q p = true -> p = q.
Proof.
  intros H1 H2. apply is_prefixb_full; [assumption|].
  apply is_prefixb_length in H1. apply is_prefixb_length in H2. lia.
Qed.
(* p ++ [b] is a prefix of k iff p is, k is longer than p and k continues with b *)
Lemma is_prefixb_snoc p b k :
  is_prefixb (p ++ [b]) k = true <-> is_prefixb p k = true /\ length p < length k /\ bit_at (length p) k = b.
Proof.
  revert k; induction p as [|x p IH]; intros [|y k]; simpl.
  - split; [discriminate | intros (_ & H & _); inversion H].
  - unfold bit_at; simpl. rewrite andb_true_r. split.
    + intros H. apply eqb_prop in H. subst. repeat split; lia.
    + intros (_ & _ & ->). apply eqb_reflx.
  - split; [discriminate | intros (H & _); discriminate].
  - rewrite !andb_true_iff, IH. unfold bit_at; simpl. split.
    + intros (H1 & H2 & H3 & H4). repeat split; auto; lia.
    + intros ((H1 & H2) & H3 & H4). repeat split; auto; lia.
Qed.
Lemma is_prefixb_bit p k n : is_prefixb p k = true -> n < length p -> bit_at n k = bit_at n p.
Proof.
  rewrite is_prefixb_spec. intros [s ->] Hn. unfold bit_at. apply app_nth1. assumption.
Qed.
Lemma gcp_comm a b : gcp a b = gcp b a.
Proof.
  revert b; induction a as [|x a IH]; intros [|y b]; simpl; try reflexivity.
  destruct x, y; simpl; try reflexivity; rewrite IH; reflexivity.
Qed.
(* the gcp is the LONGEST common prefix: just past it the two strings differ *)
Lemma gcp_bit_diff a b : length (gcp a b) < length a -> length (gcp a b) < length b ->
  bit_at (length (gcp a b)) a <> bit_at (length (gcp a b)) b.
Proof.
  revert b; induction a as [|x a IH]; intros [|y b]; simpl; try lia.
  destruct (eqb x y) eqn:E; simpl.
  - intros H1 H2. unfold bit_at in *; simpl. apply IH; lia.
  - intros _ _. unfold bit_at; simpl. intros ->. rewrite eqb_reflx in E. discriminate.
Qed.
Lemma gcp_full_prefix k p : length (gcp k p) = length p -> is_prefixb p k = true.
Proof.
  revert k; induction p as [|y p IH]; intros [|x k]; simpl; try reflexivity; try discriminate.
  destruct (eqb x y) eqn:E; simpl; [|discriminate].
  intros H. injection H as H. apply eqb_prop in E; subst. rewrite eqb_reflx, (IH _ H). reflexivity.
Qed.
Lemma gcp_length_le_r a b : length (gcp a b) <= length b.
Proof. apply is_prefixb_length, gcp_prefix_r. Qed.
Lemma gcp_length_le_l a b : length (gcp a b) <= length a.
Proof. apply is_prefixb_length, gcp_prefix_l. Qed.
Lemma gcp_short k p : is_prefixb p k = false -> length (gcp k p) < length p.
Proof.
  intros H. pose proof (gcp_length_le_r k p) as Hle.
  assert (length (gcp k p) = length p \/ length (gcp k p) < length p) as [E|E] by lia; [|lia].
  apply gcp_full_prefix in E. congruence.
Qed.
(* a common prefix of two strings that split at p is a prefix of p *)
Lemma common_prefix_split q p a b :
  is_prefixb (p ++ [false]) a = true -> is_prefixb (p ++ [true]) b = true ->
  is_prefixb q a = true -> is_prefixb q b = true -> is_prefixb q p = true.
Proof.
  revert q a b; induction p as [|y p IH]; intros [|x q] [|xa a] [|xb b]; simpl; try easy.
  - destruct x, xa, xb; simpl; easy.
  - rewrite !andb_true_iff. intros [H1 H1'] [H2 H2'] [H3 H3'] [H4 H4'].
    apply eqb_prop in H1, H2, H3, H4. subst. split; [apply eqb_reflx | eauto].
Qed.
Lemma split_ltb p a b :
  is_prefixb (p ++ [false]) a = true -> is_prefixb (p ++ [true]) b = true -> bits_ltb a b = true.
Proof.
  revert a b; induction p as [|y p IH]; intros [|xa a] [|xb b]; simpl; try easy.
  - destruct xa, xb; simpl; easy.
  - rewrite !andb_true_iff. intros [H1 H1'] [H2 H2']. apply eqb_prop in H1, H2. subst.
    rewrite eqb_reflx, (IH _ _ H1' H2'). simpl. apply orb_true_r.
Qed.

(* ---------------------------------------------------------------- well-formed trees *)
(* a tree of width w that contains both sentinels and is rooted at the empty prefix *)
Definition rooted (w : nat) (t : tree) : Prop :=
  canonical w t /\ tkey t = [] /\ (3 < w)%nat /\
  lookup (min_key w) t <> None /\ lookup (max_key w) t <> None.
Definition user_key (w : nat) (k : bits) : Prop := length k = w /\ k <> min_key w /\ k <> max_key w.

(* ---- auxiliary: keys, all_leaves, lookup *)
Lemma keys_leaf k v : keys (Leaf k v) = [k].
Proof. reflexivity. Qed.
Lemma keys_node p l r : keys (Node p l r) = keys l ++ keys r.
Proof. unfold keys; simpl. apply map_app. Qed.
Lemma all_leaves_forall P t : all_leaves P t <-> (forall k, In k (keys t) -> P k).
Proof.
  induction t as [k v|p l IHl r IHr].
  - rewrite keys_leaf; simpl. split; [intros H k0 [<-|[]]; assumption | intros H; apply H; left; reflexivity].
  - rewrite keys_node; simpl. rewrite IHl, IHr. split.
    + intros [H1 H2] k. rewrite in_app_iff. intros [H|H]; auto.
    + intros H; split; intros k Hk; apply H; rewrite in_app_iff; auto.
Qed.
Lemma canonical_keys_length w t k : canonical w t -> In k (keys t) -> length k = w.
Proof.
  induction t as [k0 v0|p l IHl r IHr].
  - rewrite keys_leaf; simpl. intros H [<-|[]]. exact H.
  - rewrite keys_node, in_app_iff; simpl. intros (_&_&_&Hl&Hr) [H|H]; auto.
Qed.
Lemma snoc_prefix p b k : is_prefixb (p ++ [b]) k = true -> is_prefixb p k = true.
Proof. intros H; apply is_prefixb_snoc in H; tauto. Qed.
Lemma canonical_keys_prefix w t k : canonical w t -> In k (keys t) -> is_prefixb (tkey t) k = true.
Proof.
  destruct t as [k0 v0|p l r].
  - rewrite keys_leaf; simpl. intros _ [<-|[]]. apply is_prefixb_refl.
  - rewrite keys_node, in_app_iff; simpl. intros (_&Hl&Hr&_&_).
    rewrite all_leaves_forall in Hl, Hr. intros [H|H]; [apply Hl in H | apply Hr in H]; eapply snoc_prefix; eauto.
Qed.
Lemma not_in_side p b t k : all_leaves (fun x => is_prefixb (p ++ [b]) x = true) t ->
  bit_at (length p) k <> b -> ~ In k (keys t).
Proof.
  intros Ha Hb Hin. rewrite all_leaves_forall in Ha. apply Ha in Hin. apply is_prefixb_snoc in Hin. tauto.
Qed.

Lemma assoc_app k a b :
  assoc k (a ++ b) = match assoc k a with Some v => Some v | None => assoc k b end.
Proof.
  induction a as [|[k0 v0] a IH]; simpl; [reflexivity|]. destruct (bits_eqb k k0); auto.
Qed.
Lemma assoc_None k l : ~ In k (map fst l) -> assoc k l = None.
Proof.
  induction l as [|[k0 v0] l IH]; simpl; [reflexivity|]. intros H.
  rewrite bits_eqb_neq by (intros ->; apply H; left; reflexivity). apply IH. tauto.
Qed.
Lemma assoc_In k l : assoc k l <> None <-> In k (map fst l).
Proof.
  split.
  - intros H. destruct (in_dec (list_eq_dec bool_dec) k (map fst l)) as [Hi|Hi]; [assumption|].
    apply assoc_None in Hi. contradiction.
  - induction l as [|[k0 v0] l IH]; simpl; [tauto|]. intros [<-|H].
    + rewrite bits_eqb_refl. discriminate.
    + destruct (bits_eqb k k0); [discriminate | auto].
Qed.
Lemma lookup_leaf k' k v : lookup k' (Leaf k v) = if bits_eqb k' k then Some v else None.
Proof. reflexivity. Qed.
Lemma lookup_node k p l r :
  lookup k (Node p l r) = match lookup k l with Some v => Some v | None => lookup k r end.
Proof. unfold lookup; simpl. apply assoc_app. Qed.
Lemma lookup_None k t : ~ In k (keys t) -> lookup k t = None.
Proof. apply assoc_None. Qed.
Lemma lookup_In k t : lookup k t <> None <-> In k (keys t).
Proof. apply assoc_In. Qed.

Lemma keys_mkparent k v t x : In x (keys (mkparent k v t)) <-> x = k \/ In x (keys t).
Proof.
  unfold mkparent. destruct (bit_at _ k); rewrite keys_node, keys_leaf, in_app_iff; simpl; intuition.
Qed.
Lemma keys_ins k v t x : In x (keys (ins k v t)) <-> x = k \/ In x (keys t).
Proof.
  induction t as [k0 v0|p l IHl r IHr]; simpl.
  - destruct (bits_eqb k k0) eqn:E; [|apply keys_mkparent].
    apply bits_eqb_eq in E; subst. rewrite !keys_leaf; simpl. intuition.
  - destruct (is_prefixb p k); [|apply keys_mkparent].
    destruct (bit_at _ k); rewrite !keys_node, !in_app_iff, ?IHl, ?IHr; tauto.
Qed.
Lemma keys_del k t x : In x (keys (del k t)) -> In x (keys t).
Proof.
  induction t as [k0 v0|p l IHl r IHr]; simpl; auto.
  destruct (is_prefixb p k); auto.
  destruct (bit_at _ k); [destruct (is_leaf_with k r) | destruct (is_leaf_with k l)];
    rewrite ?keys_node, ?in_app_iff; intuition.
Qed.
Lemma is_leaf_with_true k t : is_leaf_with k t = true -> exists v, t = Leaf k v.
Proof.
  destruct t as [k0 v0|p l r]; simpl; [|discriminate]. intros H. apply bits_eqb_eq in H; subst. eauto.
Qed.

Lemma min_key_length w : length (min_key w) = w.
Proof. apply repeat_length. Qed.
Lemma max_key_length w : length (max_key w) = w.
Proof. apply repeat_length. Qed.
Lemma min_max_neq w : (0 < w)%nat -> min_key w <> max_key w.
Proof. destruct w; [lia|]. discriminate. Qed.

Lemma empty_rooted w a b : (3 < w)%nat -> rooted w (empty_tree w a b).
Proof.
  intros Hw. unfold rooted, empty_tree. split; [|split; [reflexivity|split; [exact Hw|]]].
  - simpl. rewrite min_key_length, max_key_length. destruct w as [|w]; [lia|]. simpl. repeat split; lia.
  - rewrite !lookup_node, !lookup_leaf, !bits_eqb_refl.
    rewrite (bits_eqb_neq (max_key w) (min_key w)).
    + split; discriminate.
    + intros H. symmetry in H. revert H. apply min_max_neq. lia.
Qed.

(* leaves of a canonical tree are strictly increasing (hence duplicate-free) *)
Lemma SSorted_app {A} (R : A -> A -> Prop) l1 l2 :
  StronglySorted R l1 -> StronglySorted R l2 -> (forall a b, In a l1 -> In b l2 -> R a b) ->
  StronglySorted R (l1 ++ l2).
Proof.
  induction l1 as [|x l1 IH]; simpl; intros H1 H2 H; [assumption|].
  inversion H1 as [|? ? Hs Hf]; subst. constructor.
  - apply IH; auto.
  - apply Forall_app. split; [assumption|]. apply Forall_forall. intros b Hb. apply H; auto.
Qed.
Lemma canonical_sorted w t : canonical w t -> StronglySorted (fun a b => bits_ltb (fst a) (fst b) = true) (leaves t).
Proof.
  induction t as [k v|p l IHl r IHr]; simpl.
  - intros _. constructor; constructor.
  - intros (_&Hl&Hr&Hcl&Hcr). apply SSorted_app; auto.
    intros a b Ha Hb. rewrite all_leaves_forall in Hl, Hr.
    eapply split_ltb; [apply Hl | apply Hr]; unfold keys; apply in_map; assumption.
Qed.

(* ---- set *)
Lemma mkparent_canonical w k v t : length k = w -> canonical w t ->
  length (gcp k (tkey t)) < length (tkey t) -> canonical w (mkparent k v t).
Proof.
  intros Hk Hc Hg. unfold mkparent. set (g := gcp k (tkey t)) in *.
  assert (Htk: length (tkey t) <= w) by (destruct t; simpl in *; lia).
  assert (Hgk: is_prefixb (g ++ [bit_at (length g) k]) k = true).
  { apply is_prefixb_snoc. split; [apply gcp_prefix_l|]. split; [lia|reflexivity]. }
  assert (Hd : bit_at (length g) k <> bit_at (length g) (tkey t)) by (apply gcp_bit_diff; fold g; lia).
  assert (Hgt: forall x, In x (keys t) -> is_prefixb (g ++ [negb (bit_at (length g) k)]) x = true).
  { intros x Hx. pose proof (canonical_keys_prefix _ _ _ Hc Hx) as Hp.
    pose proof (canonical_keys_length _ _ _ Hc Hx) as Hl.
    apply is_prefixb_snoc. split; [eapply is_prefixb_trans; [apply gcp_prefix_r|exact Hp]|]. split; [lia|].
    rewrite (is_prefixb_bit _ _ _ Hp Hg).
    destruct (bit_at (length g) k), (bit_at (length g) (tkey t)); simpl; congruence. }
  destruct (bit_at (length g) k) eqn:E; cbn [canonical all_leaves negb] in *.
  - repeat split; [lia | apply all_leaves_forall; exact Hgt | exact Hgk | exact Hc | exact Hk].
  - repeat split; [lia | exact Hgk | apply all_leaves_forall; exact Hgt | exact Hk | exact Hc].
Qed.
Theorem ins_canonical w k v t : length k = w -> canonical w t -> canonical w (ins k v t).
Proof.
  intros Hk. induction t as [k0 v0|p l IHl r IHr]; intros Hc.
  - simpl. destruct (bits_eqb k k0) eqn:E; [exact Hk|].
    apply mkparent_canonical; auto. simpl. apply gcp_short.
    destruct (is_prefixb k0 k) eqn:Ep; [|reflexivity].
    apply is_prefixb_full in Ep; [|simpl in Hc; lia]. subst. rewrite bits_eqb_refl in E. discriminate.
  - simpl. destruct (is_prefixb p k) eqn:Ep.
    + cbn [canonical] in Hc. destruct Hc as (H1&H2&H3&H4&H5).
      destruct (bit_at (length p) k) eqn:Eb; cbn [canonical]; repeat split; auto.
      * apply all_leaves_forall. intros x Hx. apply keys_ins in Hx as [->|Hx].
        -- apply is_prefixb_snoc; repeat split; auto; lia.
        -- rewrite all_leaves_forall in H3; auto.
      * apply all_leaves_forall. intros x Hx. apply keys_ins in Hx as [->|Hx].
        -- apply is_prefixb_snoc; repeat split; auto; lia.
        -- rewrite all_leaves_forall in H2; auto.
    + apply mkparent_canonical; auto. simpl. apply gcp_short; auto.
Qed.
Lemma lookup_mkparent k v t k' : ~ In k (keys t) ->
  lookup k' (mkparent k v t) = if bits_eqb k' k then Some v else lookup k' t.
Proof.
  intros Hn. unfold mkparent. destruct (bit_at _ k); rewrite lookup_node, lookup_leaf.
  - destruct (bits_eqb k' k) eqn:E.
    + apply bits_eqb_eq in E; subst. rewrite (lookup_None _ _ Hn). reflexivity.
    + destruct (lookup k' t); reflexivity.
  - destruct (bits_eqb k' k); reflexivity.
Qed.
Theorem ins_lookup w k v t k' : length k = w -> length k' = w -> canonical w t ->
  lookup k' (ins k v t) = if bits_eqb k' k then Some v else lookup k' t.
Proof.
  intros Hk Hk'. induction t as [k0 v0|p l IHl r IHr]; intros Hc.
  - simpl. destruct (bits_eqb k k0) eqn:E.
    + apply bits_eqb_eq in E; subst. rewrite !lookup_leaf. destruct (bits_eqb k' k0); reflexivity.
    + apply lookup_mkparent. rewrite keys_leaf. intros [H|[]]. subst. rewrite bits_eqb_refl in E. discriminate.
  - simpl. destruct (is_prefixb p k) eqn:Ep.
    + cbn [canonical] in Hc. destruct Hc as (H1&H2&H3&H4&H5).
      destruct (bit_at (length p) k) eqn:Eb; rewrite !lookup_node.
      * rewrite (IHr H5). destruct (bits_eqb k' k) eqn:E; [|reflexivity].
        apply bits_eqb_eq in E; subst. rewrite (lookup_None k l); [reflexivity|].
        eapply not_in_side; [exact H2|]. congruence.
      * rewrite (IHl H4). destruct (bits_eqb k' k) eqn:E; reflexivity.
    + apply lookup_mkparent. intros Hin. apply (canonical_keys_prefix _ _ _ Hc) in Hin. simpl in Hin. congruence.
Qed.
Lemma rooted_node w t : rooted w t ->
  exists l r, t = Node [] l r /\ In (min_key w) (keys l) /\ In (max_key w) (keys r).
Proof.
  intros (Hc & Hk & Hw & Hmin & Hmax). destruct t as [k v|p l r]; simpl in Hk; subst.
  - simpl in Hc. lia.
  - exists l, r. split; [reflexivity|]. apply lookup_In in Hmin, Hmax.
    rewrite keys_node, in_app_iff in Hmin, Hmax. cbn [canonical] in Hc. destruct Hc as (H1&H2&H3&H4&H5).
    split.
    + destruct Hmin as [H|H]; [assumption|]. exfalso. revert H. eapply not_in_side; [exact H3|].
      destruct w; [lia|]. discriminate.
    + destruct Hmax as [H|H]; [|assumption]. exfalso. revert H. eapply not_in_side; [exact H2|].
      destruct w; [lia|]. discriminate.
Qed.
Theorem ins_rooted w k v t : user_key w k -> rooted w t -> rooted w (ins k v t).
Proof.
  intros (Hk & Hmin & Hmax) Hr. destruct (rooted_node _ _ Hr) as (l & r & -> & _).
  destruct Hr as (Hc & _ & Hw & Hl1 & Hl2).
  split; [apply ins_canonical; auto|]. split.
  - simpl. destruct (bit_at 0 k); reflexivity.
  - split; [exact Hw|].
    rewrite !(ins_lookup w) by (auto using min_key_length, max_key_length).
    rewrite !bits_eqb_neq by congruence. auto.
Qed.

(* ---- delete *)
Lemma del_canonical_gen w k t : canonical w t -> canonical w (del k t).
Proof.
  induction t as [k0 v0|p l IHl r IHr]; simpl; auto.
  intros (H1&H2&H3&H4&H5). destruct (is_prefixb p k); [|cbn [canonical]; auto].
  destruct (bit_at _ k); [destruct (is_leaf_with k r) | destruct (is_leaf_with k l)]; auto;
    cbn [canonical]; repeat split; auto; apply all_leaves_forall; intros x Hx; apply keys_del in Hx;
    revert x Hx; apply all_leaves_forall; assumption.
Qed.
Theorem del_canonical w k t : user_key w k -> rooted w t -> canonical w (del k t).
Proof. intros _ (Hc & _). apply del_canonical_gen; assumption. Qed.
Lemma del_lookup_gen w k t k' : canonical w t -> is_leaf_with k t = false ->
  lookup k' (del k t) = if bits_eqb k' k then None else lookup k' t.
Proof.
  induction t as [k0 v0|p l IHl r IHr]; intros Hc Hlf.
  - simpl in *. destruct (bits_eqb k' k) eqn:E; [|reflexivity].
    apply bits_eqb_eq in E; subst. rewrite lookup_leaf, Hlf. reflexivity.
  - simpl. cbn [canonical] in Hc. destruct Hc as (H1&H2&H3&H4&H5).
    destruct (is_prefixb p k) eqn:Ep.
    + destruct (bit_at (length p) k) eqn:Eb.
      * assert (Hnl : lookup k l = None).
        { apply lookup_None. eapply not_in_side; [exact H2|]. congruence. }
        destruct (is_leaf_with k r) eqn:Er.
        -- apply is_leaf_with_true in Er as [v0 ->]. rewrite lookup_node, lookup_leaf.
           destruct (bits_eqb k' k) eqn:E.
           ++ apply bits_eqb_eq in E; subst. assumption.
           ++ destruct (lookup k' l); reflexivity.
        -- rewrite !lookup_node, (IHr H5 eq_refl). destruct (bits_eqb k' k) eqn:E; [|reflexivity].
           apply bits_eqb_eq in E; subst. rewrite Hnl. reflexivity.
      * assert (Hnr : lookup k r = None).
        { apply lookup_None. eapply not_in_side; [exact H3|]. congruence. }
        destruct (is_leaf_with k l) eqn:El.
        -- apply is_leaf_with_true in El as [v0 ->]. rewrite lookup_node, lookup_leaf.
           destruct (bits_eqb k' k) eqn:E; [|reflexivity].
           apply bits_eqb_eq in E; subst. assumption.
        -- rewrite !lookup_node, (IHl H4 eq_refl). destruct (bits_eqb k' k) eqn:E; [|reflexivity].
           apply bits_eqb_eq in E; subst. assumption.
    + destruct (bits_eqb k' k) eqn:E; [|reflexivity]. apply bits_eqb_eq in E; subst.
      apply lookup_None. intros Hin.
      assert (Hc : canonical w (Node p l r)) by (cbn [canonical]; auto).
      apply (canonical_keys_prefix _ _ _ Hc) in Hin. simpl in Hin. congruence.
Qed.
Theorem del_lookup w k t k' : user_key w k -> length k' = w -> rooted w t ->
  lookup k' (del k t) = if bits_eqb k' k then None else lookup k' t.
Proof.
  intros _ _ Hr. destruct (rooted_node _ _ Hr) as (l & r & -> & _). destruct Hr as (Hc & _).
  eapply del_lookup_gen; [exact Hc | reflexivity].
Qed.
Theorem del_rooted w k t : user_key w k -> rooted w t -> rooted w (del k t).
Proof.
  intros Hu Hr. pose proof Hu as (Hk & Hmin & Hmax).
  split; [eapply del_canonical; eauto|]. split.
  - destruct (rooted_node _ _ Hr) as (l & r & -> & Hil & Hir). simpl.
    destruct (bit_at 0 k).
    + destruct (is_leaf_with k r) eqn:E; [|reflexivity].
      apply is_leaf_with_true in E as [v0 ->]. rewrite keys_leaf in Hir. destruct Hir as [H|[]]. congruence.
    + destruct (is_leaf_with k l) eqn:E; [|reflexivity].
      apply is_leaf_with_true in E as [v0 ->]. rewrite keys_leaf in Hil. destruct Hil as [H|[]]. congruence.
  - pose proof Hr as (_ & _ & Hw & Hl1 & Hl2). split; [exact Hw|].
    rewrite !(del_lookup w) by (auto using min_key_length, max_key_length).
    rewrite !bits_eqb_neq by congruence. auto.
Qed.

(* ---------------------------------------------------------------- canonical shape is unique *)
Lemma leaves_nonempty t : leaves t <> [].
Proof.
  induction t as [k v|p l IHl r IHr]; simpl; [discriminate|]. intros H. apply app_eq_nil in H as [H _]. auto.
Qed.
Lemma keys_inhabited t : exists k, In k (keys t).
Proof.
  induction t as [k v|p l [k Hk] r _].
  - exists k. left; reflexivity.
  - exists k. rewrite keys_node, in_app_iff. auto.
Qed.
Lemma all_leaves_Forall P t : all_leaves P t -> Forall (fun x => P (fst x)) (leaves t).
Proof.
  intros H. rewrite all_leaves_forall in H. apply Forall_forall. intros x Hx. apply H. unfold keys. apply in_map; assumption.
Qed.
Lemma split_unique {A} (Q : A -> bool) l1 r1 l2 r2 :
  Forall (fun x => Q x = false) l1 -> Forall (fun x => Q x = true) r1 ->
  Forall (fun x => Q x = false) l2 -> Forall (fun x => Q x = true) r2 ->
  l1 ++ r1 = l2 ++ r2 -> l1 = l2 /\ r1 = r2.
Proof.
  revert l2; induction l1 as [|x l1 IH]; intros [|y l2] Hl1 Hr1 Hl2 Hr2 H; simpl in *.
  - auto.
  - subst. inversion Hr1; inversion Hl2; subst. congruence.
  - subst. inversion Hl1; inversion Hr2; subst; congruence.
  - inversion H; subst. inversion Hl1; inversion Hl2; subst.
    destruct (IH l2) as [E1 E2]; auto. subst; auto.
Qed.
Lemma node_prefix_le w p l r p' l' r' : canonical w (Node p l r) -> canonical w (Node p' l' r') ->
  leaves (Node p l r) = leaves (Node p' l' r') -> is_prefixb p' p = true.
Proof.
  intros Hc Hc' HL.
  assert (HK : keys (Node p l r) = keys (Node p' l' r')) by (unfold keys; rewrite HL; reflexivity).
  destruct (keys_inhabited l) as [a Ha]. destruct (keys_inhabited r) as [b Hb].
  pose proof Hc as (_&H2&H3&_&_). rewrite all_leaves_forall in H2, H3.
  apply (common_prefix_split p' p a b); auto.
  - apply (canonical_keys_prefix _ _ _ Hc'). rewrite <- HK, keys_node, in_app_iff. auto.
  - apply (canonical_keys_prefix _ _ _ Hc'). rewrite <- HK, keys_node, in_app_iff. auto.
Qed.
(* two canonical trees with the same leaves are the same tree *)
Theorem canonical_unique w t t' : canonical w t -> canonical w t' -> leaves t = leaves t' -> t = t'.
Proof.
  revert t'. induction t as [k v|p l IHl r IHr]; intros [k' v'|p' l' r'] Hc Hc' HL.
  - simpl in HL. congruence.
  - exfalso. simpl in HL. pose proof (leaves_nonempty l') as N1. pose proof (leaves_nonempty r') as N2.
    destruct (leaves l') as [|x1 [|x2 xs]]; destruct (leaves r'); simpl in HL; congruence.
  - exfalso. simpl in HL. pose proof (leaves_nonempty l) as N1. pose proof (leaves_nonempty r) as N2.
    destruct (leaves l) as [|x1 [|x2 xs]]; destruct (leaves r); simpl in HL; congruence.
  - assert (p = p').
    { apply is_prefixb_antisym; eapply node_prefix_le; eauto. }
    subst p'. simpl in HL. pose proof Hc as (_&H2&H3&H4&H5). pose proof Hc' as (_&H2'&H3'&H4'&H5').
    destruct (split_unique (fun x => bit_at (length p) (fst x)) _ _ _ _
               (Forall_impl _ (fun x Hx => proj2 (proj2 (proj1 (is_prefixb_snoc _ _ _) Hx))) (all_leaves_Forall _ _ H2))
               (Forall_impl _ (fun x Hx => proj2 (proj2 (proj1 (is_prefixb_snoc _ _ _) Hx))) (all_leaves_Forall _ _ H3))
               (Forall_impl _ (fun x Hx => proj2 (proj2 (proj1 (is_prefixb_snoc _ _ _) Hx))) (all_leaves_Forall _ _ H2'))
               (Forall_impl _ (fun x Hx => proj2 (proj2 (proj1 (is_prefixb_snoc _ _ _) Hx))) (all_leaves_Forall _ _ H3'))
               HL) as [E1 E2].
    f_equal; [apply IHl | apply IHr]; auto.
Qed.
(* ... and the leaves are determined by the finite map they represent *)
Lemma sorted_head_notin k (l : list (bits * N)) :
  Forall (fun b => bits_ltb k (fst b) = true) l -> assoc k l = None.
Proof.
  intros H. apply assoc_None. intros Hin. apply in_map_iff in Hin as (x & Hx & Hin).
  rewrite Forall_forall in H. apply H in Hin. rewrite Hx, bits_ltb_irrefl in Hin. discriminate.
Qed.
Lemma sorted_assoc_ext w (l1 l2 : list (bits * N)) :
  StronglySorted (fun a b => bits_ltb (fst a) (fst b) = true) l1 ->
  StronglySorted (fun a b => bits_ltb (fst a) (fst b) = true) l2 ->
  Forall (fun x => length (fst x) = w) l1 -> Forall (fun x => length (fst x) = w) l2 ->
  (forall k, length k = w -> assoc k l1 = assoc k l2) -> l1 = l2.
Proof.
  revert l2; induction l1 as [|[k1 v1] l1 IH]; intros [|[k2 v2] l2] S1 S2 L1 L2 H.
  - reflexivity.
  - pose proof (Forall_inv L2) as Lk; simpl in Lk. specialize (H k2 Lk). simpl in H. rewrite bits_eqb_refl in H. discriminate.
  - pose proof (Forall_inv L1) as Lk; simpl in Lk. specialize (H k1 Lk). simpl in H. rewrite bits_eqb_refl in H. discriminate.
  - apply StronglySorted_inv in S1 as [S1' F1]. apply StronglySorted_inv in S2 as [S2' F2].
    pose proof (Forall_inv L1) as Lk1. pose proof (Forall_inv L2) as Lk2.
    apply Forall_inv_tail in L1. apply Forall_inv_tail in L2. simpl in *.
    destruct (bits_ltb_total k1 k2) as [Hlt|[Heq|Hlt]]; [congruence| | |].
    + exfalso. specialize (H k1 Lk1). simpl in H. rewrite bits_eqb_refl in H.
      rewrite bits_eqb_neq in H by (intros ->; rewrite bits_ltb_irrefl in Hlt; discriminate).
      rewrite sorted_head_notin in H; [discriminate|].
      eapply Forall_impl; [|exact F2]. intros b Hb. simpl in Hb. eapply bits_ltb_trans; eauto.
    + subst k2. pose proof (H k1 Lk1) as Hv. simpl in Hv. rewrite bits_eqb_refl in Hv.
      injection Hv as ->. f_equal. apply IH; auto.
      intros k Lk. specialize (H k Lk). simpl in H. destruct (bits_eqb k k1) eqn:E; [|assumption].
      apply bits_eqb_eq in E; subst. rewrite !sorted_head_notin; auto.
    + exfalso. specialize (H k2 Lk2). simpl in H. rewrite bits_eqb_refl in H.
      rewrite bits_eqb_neq in H by (intros ->; rewrite bits_ltb_irrefl in Hlt; discriminate).
      rewrite sorted_head_notin in H; [discriminate|].
      eapply Forall_impl; [|exact F1]. intros b Hb. simpl in Hb. eapply bits_ltb_trans; eauto.
Qed.
Theorem leaves_ext w t t' : canonical w t -> canonical w t' ->
  (forall k, length k = w -> lookup k t = lookup k t') -> leaves t = leaves t'.
Proof.
  intros Hc Hc' H. apply (sorted_assoc_ext w); auto.
  - eapply canonical_sorted; eauto.
  - eapply canonical_sorted; eauto.
  - apply Forall_forall. intros x Hx. apply (canonical_keys_length w t); auto. unfold keys. apply in_map; auto.
  - apply Forall_forall. intros x Hx. apply (canonical_keys_length w t'); auto. unfold keys. apply in_map; auto.
Qed.

(* ---------------------------------------------------------------- histories *)
Definition op_ok (w : nat) (o : op) : Prop := user_key w (op_key o).

Lemma apply_op_rooted w t o : rooted w t -> op_ok w o -> rooted w (apply_op t o).
Proof. destruct o; simpl; intros Hr Ho; [apply ins_rooted | apply del_rooted]; auto. Qed.
Lemma apply_ops_rooted w t os : rooted w t -> Forall (op_ok w) os -> rooted w (apply_ops t os).
Proof.
  revert t; induction os as [|o os IH]; intros t Hr Ho; simpl; [assumption|].
  pose proof (Forall_inv Ho) as Ho1. apply Forall_inv_tail in Ho. apply IH; auto. apply apply_op_rooted; auto.
Qed.

(* the content after a history is the obvious fold of map updates *)
Definition upd (m : bits -> option N) (o : op) : bits -> option N :=
  fun k => match o with
           | OSet k0 v => if bits_eqb k k0 then Some v else m k
           | ODel k0 => if bits_eqb k k0 then None else m k
           end.
Lemma apply_op_lookup w t o k : rooted w t -> op_ok w o -> length k = w ->
  lookup k (apply_op t o) = upd (fun k => lookup k t) o k.
Proof.
  intros Hr Ho Hk. destruct o as [k0 v|k0]; simpl.
  - apply (ins_lookup w); auto; [apply Ho | apply Hr].
  - apply (del_lookup w); auto.
Qed.
Lemma fold_upd_ext os m m' k : m k = m' k -> fold_left upd os m k = fold_left upd os m' k.
Proof.
  revert m m'; induction os as [|o os IH]; intros m m' H; simpl; [assumption|].
  apply IH. destruct o; simpl; destruct (bits_eqb _ _); auto.
Qed.
Theorem apply_ops_lookup w t os k : rooted w t -> Forall (op_ok w) os -> length k = w ->
  lookup k (apply_ops t os) = fold_left upd os (fun k => lookup k t) k.
Proof.
  revert t; induction os as [|o os IH]; intros t Hr Ho Hk; simpl; [reflexivity|].
  pose proof (Forall_inv Ho) as Ho1. apply Forall_inv_tail in Ho.
  rewrite IH; auto using apply_op_rooted.
  apply fold_upd_ext. apply (apply_op_lookup w); auto.
Qed.

(* C08: any two histories (sets, overwrites, deletes, insert-then-delete, any batching) that end in the same key/value
   set end in the same tree, hence the same root *)
Theorem history_independent w t os os' : rooted w t -> Forall (op_ok w) os -> Forall (op_ok w) os' ->
  (forall k, length k = w -> lookup k (apply_ops t os) = lookup k (apply_ops t os')) ->
  apply_ops t os = apply_ops t os'.
Proof.
  intros Hr Ho Ho' H.
  pose proof (apply_ops_rooted _ _ _ Hr Ho) as (Hc & _).
  pose proof (apply_ops_rooted _ _ _ Hr Ho') as (Hc' & _).
  apply (canonical_unique w); auto. apply (leaves_ext w); auto.
Qed.

(* operations on different keys commute *)
Lemma upd_swap m a b k : op_key a <> op_key b -> upd (upd m a) b k = upd (upd m b) a k.
Proof.
  intros Hne. destruct a as [ka va|ka], b as [kb vb|kb]; simpl in *;
    destruct (bits_eqb k ka) eqn:Ea, (bits_eqb k kb) eqn:Eb; try reflexivity;
    apply bits_eqb_eq in Ea, Eb; congruence.
Qed.
Theorem ops_commute w t a b : rooted w t -> op_ok w a -> op_ok w b -> op_key a <> op_key b ->
  apply_op (apply_op t a) b = apply_op (apply_op t b) a.
Proof.
  intros Hr Ha Hb Hne. change (apply_ops t [a; b] = apply_ops t [b; a]).
  apply (history_independent w); auto.
  intros k Hk. rewrite !(apply_ops_lookup w) by auto. simpl. apply upd_swap; auto.
Qed.

(* C03: a batch holds one operation per key; the order in which the pending-operation map is iterated is irrelevant *)
Lemma fold_upd_perm os os' : Permutation os os' -> NoDup (map op_key os) ->
  forall m k, fold_left upd os m k = fold_left upd os' m k.
Proof.
  induction 1 as [|x l l' HP IH|x y l|l l' l'' HP1 IH1 HP2 IH2]; intros Hnd m k; simpl.
  - reflexivity.
  - apply IH. inversion Hnd; auto.
  - apply fold_upd_ext. apply upd_swap. simpl in Hnd. inversion Hnd as [|? ? Hn _]; subst.
    intros E. apply Hn. left. symmetry; exact E.
  - rewrite IH1, IH2; auto. eapply Permutation_NoDup; [|exact Hnd]. apply Permutation_map; assumption.
Qed.
Lemma perm_Forall {A} (P : A -> Prop) l l' : Permutation l l' -> Forall P l -> Forall P l'.
Proof.
  intros HP H. apply Forall_forall. intros x Hx. rewrite Forall_forall in H. apply H.
  eapply Permutation_in; [apply Permutation_sym; exact HP | exact Hx].
Qed.
Theorem apply_ops_perm w t os os' : rooted w t -> Forall (op_ok w) os -> NoDup (map op_key os) ->
  Permutation os os' -> apply_ops t os = apply_ops t os'.
Proof.
  intros Hr Ho Hnd HP. pose proof (perm_Forall _ _ _ HP Ho) as Ho'.
  apply (history_independent w); auto.
  intros k Hk. rewrite !(apply_ops_lookup w) by auto. apply fold_upd_perm; auto.
Qed.
Lemma insert_sorted_perm o l : Permutation (insert_sorted o l) (o :: l).
Proof.
  induction l as [|x l IH]; simpl; [reflexivity|].
  destruct (bits_ltb (op_key x) (op_key o)); [|reflexivity].
  rewrite IH. apply perm_swap.
Qed.
Lemma sort_ops_perm os : Permutation (sort_ops os) os.
Proof.
  induction os as [|o os IH]; simpl; [reflexivity|].
  rewrite insert_sorted_perm. constructor; assumption.
Qed.
Theorem commit_perm_invariant w t os os' : rooted w t -> Forall (op_ok w) os -> NoDup (map op_key os) ->
  Permutation os os' -> commit t os = commit t os'.
Proof.
  intros Hr Ho Hnd HP. unfold commit.
  pose proof (sort_ops_perm os) as P1. pose proof (sort_ops_perm os') as P2.
  apply (apply_ops_perm w); auto.
  - eapply perm_Forall; [apply Permutation_sym; exact P1 | exact Ho].
  - eapply Permutation_NoDup; [|exact Hnd]. apply Permutation_map. apply Permutation_sym; exact P1.
  - rewrite P1, P2. exact HP.
Qed.
Theorem commit_is_fold w t os : rooted w t -> Forall (op_ok w) os -> NoDup (map op_key os) ->
  commit t os = apply_ops t os.
Proof.
  intros Hr Ho Hnd. unfold commit. pose proof (sort_ops_perm os) as P1.
  apply (apply_ops_perm w); auto.
  - eapply perm_Forall; [apply Permutation_sym; exact P1 | exact Ho].
  - eapply Permutation_NoDup; [|exact Hnd]. apply Permutation_map. apply Permutation_sym; exact P1.
Qed.

(* synthetic borders leave no trace *)
Lemma borders_user w b : (3 < w)%nat -> In b (borders w) -> user_key w b.
Proof.
  intros Hw. destruct w as [|[|[|[|n]]]]; try lia. clear Hw.
  unfold borders, all_prefix3, border_low, border_high, user_key, min_key, max_key. simpl.
  intros H.
  repeat (destruct H as [H|H];
          [subst b; split; [simpl; rewrite repeat_length; reflexivity | split; discriminate]|]).
  destruct H.
Qed.
Lemma borders_NoDup w : (3 < w)%nat -> NoDup (borders w).
Proof.
  intros Hw. destruct w as [|[|[|[|n]]]]; try lia. clear Hw.
  unfold borders, all_prefix3, border_low, border_high. simpl.
  repeat (constructor; [simpl; intuition discriminate|]). constructor.
Qed.

Lemma fold_left_map {A B C} (f : A -> B -> A) (g : C -> B) l a :
  fold_left f (map g l) a = fold_left (fun a x => f a (g x)) l a.
Proof. revert a; induction l as [|x l IH]; intros a; simpl; auto. Qed.
Lemma add_borders_ops w bv t : add_borders w bv t = apply_ops t (map (fun b => OSet b bv) (borders w)).
Proof. unfold add_borders, apply_ops. rewrite fold_left_map. reflexivity. Qed.
Lemma remove_borders_ops w t : remove_borders w t = apply_ops t (map ODel (borders w)).
Proof. unfold remove_borders, apply_ops. rewrite fold_left_map. reflexivity. Qed.
Lemma apply_ops_app t a b : apply_ops t (a ++ b) = apply_ops (apply_ops t a) b.
Proof. apply fold_left_app. Qed.

Lemma fold_upd_notin os m k : ~ In k (map op_key os) -> fold_left upd os m k = m k.
Proof.
  revert m; induction os as [|o os IH]; intros m H; simpl; [reflexivity|].
  simpl in H. rewrite IH by tauto.
  destruct o; simpl in *; rewrite bits_eqb_neq; auto; intros ->; apply H; left; reflexivity.
Qed.
Definition bits_in_dec : forall (k : bits) l, {In k l} + {~ In k l} := in_dec (list_eq_dec bool_dec).
Lemma keys_sets bs bv : map op_key (map (fun b => OSet b bv) bs) = bs.
Proof. rewrite map_map. simpl. apply map_id. Qed.
Lemma keys_dels bs : map op_key (map ODel bs) = bs.
Proof. rewrite map_map. simpl. apply map_id. Qed.
Lemma fold_upd_sets bs bv m k : In k bs -> fold_left upd (map (fun b => OSet b bv) bs) m k = Some bv.
Proof.
  revert m; induction bs as [|b bs IH]; intros m H; simpl in *; [contradiction|].
  destruct (bits_in_dec k bs) as [Hi|Hn]; [apply IH; assumption|].
  rewrite fold_upd_notin by (rewrite keys_sets; assumption).
  destruct H as [->|H]; [|contradiction]. simpl. rewrite bits_eqb_refl. reflexivity.
Qed.
Lemma fold_upd_dels bs m k : In k bs -> fold_left upd (map ODel bs) m k = None.
Proof.
  revert m; induction bs as [|b bs IH]; intros m H; simpl in *; [contradiction|].
  destruct (bits_in_dec k bs) as [Hi|Hn]; [apply IH; assumption|].
  rewrite fold_upd_notin by (rewrite keys_dels; assumption).
  destruct H as [->|H]; [|contradiction]. simpl. rewrite bits_eqb_refl. reflexivity.
Qed.
Lemma sets_ok w bv : (3 < w)%nat -> Forall (op_ok w) (map (fun b => OSet b bv) (borders w)).
Proof.
  intros Hw. apply Forall_forall. intros o Ho. apply in_map_iff in Ho as (b & <- & Hb).
  unfold op_ok; simpl. apply borders_user; auto.
Qed.
Lemma dels_ok w : (3 < w)%nat -> Forall (op_ok w) (map ODel (borders w)).
Proof.
  intros Hw. apply Forall_forall. intros o Ho. apply in_map_iff in Ho as (b & <- & Hb).
  unfold op_ok; simpl. apply borders_user; auto.
Qed.

Theorem borders_identity w bv t : rooted w t -> (forall b, In b (borders w) -> lookup b t = None) ->
  remove_borders w (add_borders w bv t) = t.
Proof.
  intros Hr Hb. pose proof Hr as (_ & _ & Hw & _).
  rewrite remove_borders_ops, add_borders_ops, <- apply_ops_app.
  change t with (apply_ops t []) at 2.
  apply (history_independent w); auto.
  - apply Forall_app. split; [apply sets_ok | apply dels_ok]; auto.
  - intros k Hk. rewrite !(apply_ops_lookup w); auto.
    2:{ apply Forall_app. split; [apply sets_ok | apply dels_ok]; auto. }
    change (fold_left upd [] (fun k0 => lookup k0 t) k) with (lookup k t).
    rewrite fold_left_app.
    destruct (bits_in_dec k (borders w)) as [Hi|Hn].
    + rewrite fold_upd_dels by assumption. symmetry; auto.
    + rewrite !fold_upd_notin; auto; rewrite ?keys_sets, ?keys_dels; assumption.
Qed.

(* the parallel commit equals the sequential one for EVERY schedule of the workers' operations *)
Theorem parallel_eq_sequential w bv t os sched : rooted w t -> Forall (op_ok w) os -> NoDup (map op_key os) ->
  (forall b, In b (borders w) -> lookup b t = None /\ ~ In b (map op_key os)) ->
  Permutation os sched ->
  commit_parallel w bv t sched = commit t os.
Proof.
  intros Hr Ho Hnd Hb HP. pose proof Hr as (_ & _ & Hw & _).
  unfold commit_parallel, commit.
  rewrite remove_borders_ops, add_borders_ops, <- !apply_ops_app.
  pose proof (sort_ops_perm os) as PS.
  assert (Hsched : Forall (op_ok w) sched) by (eapply perm_Forall; eauto).
  assert (Hsort : Forall (op_ok w) (sort_ops os)) by (eapply perm_Forall; [apply Permutation_sym; exact PS | exact Ho]).
  assert (Hall : Forall (op_ok w) ((map (fun b => OSet b bv) (borders w) ++ sched) ++ map ODel (borders w))).
  { repeat (apply Forall_app; split); auto using sets_ok, dels_ok. }
  apply (history_independent w); auto.
  intros k Hk. rewrite !(apply_ops_lookup w) by auto.
  rewrite !fold_left_app.
  rewrite <- (fold_upd_perm os (sort_ops os)) by (auto using Permutation_sym).
  destruct (bits_in_dec k (borders w)) as [Hi|Hn].
  - rewrite fold_upd_dels by assumption. destruct (Hb k Hi) as [H1 H2].
    rewrite fold_upd_notin by assumption. symmetry; assumption.
  - rewrite fold_upd_notin by (rewrite keys_dels; assumption).
    rewrite <- (fold_upd_perm os sched) by auto.
    apply fold_upd_ext. apply fold_upd_notin. rewrite keys_sets; assumption.
Qed.

(* ---------------------------------------------------------------- the root commits to the state *)
(* symbolic-hash injectivity: canonical trees with equal keys and equal digests are equal *)
Theorem hash_injective w t t' : canonical w t -> canonical w t' -> tkey t = tkey t' -> hash t = hash t' -> t = t'.
Proof.
  revert t'; induction t as [k v|p l IHl r IHr]; intros [k' v'|p' l' r'] Hc Hc' Hk Hh; simpl in *; try discriminate.
  - congruence.
  - injection Hh as E1 E2 E3 E4. subst p'.
    destruct Hc as (_&_&_&H4&H5). destruct Hc' as (_&_&_&H4'&H5').
    f_equal; [apply IHl | apply IHr]; auto.
Qed.
(* different states yield different roots *)
Theorem root_injective w t t' : rooted w t -> rooted w t' -> root_digest t = root_digest t' -> leaves t = leaves t'.
Proof.
  intros (Hc & Hk & _) (Hc' & Hk' & _) H. f_equal. apply (hash_injective w); auto. congruence.
Qed.

(* the canonical Merkle commitment of a key/value set: build it from the empty tree by inserting the pairs in ANY order *)
Definition of_list (w : nat) (vmin vmax : N) (l : list (bits * N)) : tree :=
  fold_left (fun (t : tree) (kv : bits * N) => ins (fst kv) (snd kv) t) l (empty_tree w vmin vmax).
Theorem root_is_spec w vmin vmax os l : (3 < w)%nat -> Forall (op_ok w) os ->
  Forall (fun kv => user_key w (fst kv)) l -> NoDup (map fst l) ->
  (forall k, length k = w -> lookup k (apply_ops (empty_tree w vmin vmax) os) = lookup k (of_list w vmin vmax l)) ->
  root_digest (apply_ops (empty_tree w vmin vmax) os) = root_digest (of_list w vmin vmax l).
Proof.
  intros Hw Ho Hl _ H.
  assert (E : of_list w vmin vmax l =
              apply_ops (empty_tree w vmin vmax) (map (fun kv => OSet (fst kv) (snd kv)) l)).
  { unfold of_list, apply_ops. rewrite fold_left_map. reflexivity. }
  rewrite E in *. f_equal. apply (history_independent w); auto using empty_rooted.
  apply Forall_forall. intros o Hin. apply in_map_iff in Hin as (kv & <- & Hkv).
  rewrite Forall_forall in Hl. unfold op_ok; simpl. auto.
Qed.

Print Assumptions canonical_unique.
Print Assumptions history_independent.
Print Assumptions parallel_eq_sequential.
Print Assumptions root_is_spec.
